(* Result type shared by every model: Go's (value, error) plus an explicit Panic outcome. *)
From Coq Require Import List.
Import ListNotations.

Inductive res (A : Type) : Type :=
| Ok (a : A)
| Err (e : nat)      (* error class, a small enum per area; never the message text *)
| Panic.             (* the Go code would panic here *)
Arguments Ok {A} a.
Arguments Err {A} e.
Arguments Panic {A}.

Definition bind {A B} (r : res A) (f : A -> res B) : res B :=
  match r with Ok a => f a | Err e => Err e | Panic => Panic end.

Notation "'do' x <- r ; k" := (bind r (fun x => k))
  (at level 200, x pattern, r at level 100, k at level 200).

Definition is_ok {A} (r : res A) : bool := match r with Ok _ => true | _ => false end.
Definition is_err {A} (r : res A) : bool := match r with Err _ => true | _ => false end.
Definition is_panic {A} (r : res A) : bool := match r with Panic => true | _ => false end.

(* observation class used by the correspondence check: 0 = Ok, 1 = Err, 2 = Panic *)
Definition cls {A} (r : res A) : nat := match r with Ok _ => 0 | Err _ => 1 | Panic => 2 end.

Lemma bind_ok {A B} (r : res A) (f : A -> res B) b :
  bind r f = Ok b -> exists a, r = Ok a /\ f a = Ok b.
Proof. destruct r; simpl; intros H; try discriminate. eauto. Qed.

Lemma bind_not_panic {A B} (r : res A) (f : A -> res B) :
  r <> Panic -> (forall a, r = Ok a -> f a <> Panic) -> bind r f <> Panic.
Proof. destruct r; simpl; intros H1 H2; auto; discriminate. Qed.
