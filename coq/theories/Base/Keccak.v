(* Executable Keccak-256 (the pre-SHA3 padding 0x01 used by Ethereum), lanes as 64-bit naturals in [N].
   Used only by the Run.v evaluators of the correspondence checks: every model and theorem takes the
   hash function as a parameter [H], so nothing here reaches a property theorem.  The function is
   validated against golang.org/x/crypto/sha3 on every correspondence run that hashes (the harnesses
   write (input, digest) pairs computed by calling the library directly) and against the published
   vectors below. *)
From Coq Require Import List NArith Lia Bool Arith.
From Coq Require Import Init.Byte.
From FFS Require Import Base.Bytes.
Import ListNotations.
Local Open Scope N_scope.

Definition w64 : N := 18446744073709551616.
Definition mask64 : N := 18446744073709551615.

Definition rotl (x n : N) : N :=
  if n =? 0 then x else N.lor (N.land (N.shiftl x n) mask64) (N.shiftr x (64 - n)).

Definition RC : list N := [
  0x0000000000000001; 0x0000000000008082; 0x800000000000808A; 0x8000000080008000;
  0x000000000000808B; 0x0000000080000001; 0x8000000080008081; 0x8000000000008009;
  0x000000000000008A; 0x0000000000000088; 0x0000000080008009; 0x000000008000000A;
  0x000000008000808B; 0x800000000000008B; 0x8000000000008089; 0x8000000000008003;
  0x8000000000008002; 0x8000000000000080; 0x000000000000800A; 0x800000008000000A;
  0x8000000080008081; 0x8000000000008080; 0x0000000080000001; 0x8000000080008008].

(* rotation offsets, index x + 5*y *)
Definition ROT : list N := [
   0;  1; 62; 28; 27;
  36; 44;  6; 55; 20;
   3; 10; 43; 25; 39;
  41; 45; 15; 21;  8;
  18;  2; 61; 56; 14].

Definition idx25 : list nat := seq 0 25.
Definition idx5 : list nat := seq 0 5.

Definition ln (s : list N) (i : nat) : N := nth i s 0.

Definition theta (s : list N) : list N :=
  let c := map (fun x => N.lxor (ln s x) (N.lxor (ln s (x + 5)) (N.lxor (ln s (x + 10))
                           (N.lxor (ln s (x + 15)) (ln s (x + 20)))))) idx5 in
  let d := map (fun x => N.lxor (ln c ((x + 4) mod 5)) (rotl (ln c ((x + 1) mod 5)) 1)) idx5 in
  map (fun i => N.lxor (ln s i) (ln d (i mod 5))) idx25.

(* B[X,Y] = rot(A[(X+3Y) mod 5, X], r[(X+3Y) mod 5][X]) *)
Definition rho_pi (s : list N) : list N :=
  map (fun j => let X := (j mod 5)%nat in let Y := (j / 5)%nat in
                let src := (((X + 3 * Y) mod 5) + 5 * X)%nat in
                rotl (ln s src) (ln ROT src)) idx25.

Definition chi (s : list N) : list N :=
  map (fun j => let x := (j mod 5)%nat in let y5 := (5 * (j / 5))%nat in
                N.lxor (ln s j) (N.land (N.lxor (ln s (((x + 1) mod 5) + y5)) mask64)
                                        (ln s (((x + 2) mod 5) + y5)))) idx25.

Definition iota (rc : N) (s : list N) : list N :=
  match s with a :: t => N.lxor a rc :: t | [] => [] end.

Definition round (s : list N) (rc : N) : list N := iota rc (chi (rho_pi (theta s))).
Definition keccak_f (s : list N) : list N := fold_left round RC s.

(* little-endian lane <-> bytes *)
Fixpoint le_bytes (k : nat) (n : N) : bytes :=
  match k with O => [] | S k' => n2b (n mod 256) :: le_bytes k' (n / 256) end.
Fixpoint of_le (l : bytes) : N :=
  match l with [] => 0 | b :: t => b2n b + 256 * of_le t end.

Fixpoint lanes_of (k : nat) (l : bytes) : list N :=
  match k with O => [] | S k' => of_le (firstn 8 l) :: lanes_of k' (skipn 8 l) end.

Definition rate : nat := 136.

(* xor a 136-byte block into the first 17 lanes *)
Definition absorb_block (s : list N) (blk : bytes) : list N :=
  let ls := lanes_of 17 blk in
  map (fun i => if (i <? 17)%nat then N.lxor (ln s i) (ln ls i) else ln s i) idx25.

(* pad10*1 with the 0x01 domain byte: message ++ 0x01 ++ 0.. ++ 0x80 (merged when one byte is left) *)
Definition pad (m : bytes) : bytes :=
  let r := (rate - (length m mod rate))%nat in
  if (r =? 1)%nat then m ++ [x81]
  else m ++ [x01] ++ repeat x00 (r - 2) ++ [x80].

Fixpoint absorb (fuel : nat) (s : list N) (m : bytes) : list N :=
  match fuel with
  | O => s
  | S f => match m with
           | [] => s
           | _ => absorb f (keccak_f (absorb_block s (firstn rate m))) (skipn rate m)
           end
  end.

Definition keccak256 (m : bytes) : bytes :=
  let p := pad m in
  let s := absorb (S (length p / rate)) (repeat 0 25) p in
  firstn 32 (flat_map (le_bytes 8) s).

(* ---- output length, for every input ---- *)
Lemma le_bytes_length k n : length (le_bytes k n) = k.
Proof. revert n; induction k as [|k IH]; intros n; simpl; [reflexivity|]. rewrite IH. reflexivity. Qed.

Lemma flat_map_le_length (s : list N) : length (flat_map (le_bytes 8) s) = (8 * length s)%nat.
Proof. induction s as [|a s IH]; [reflexivity|]. cbn [flat_map]. rewrite app_length, le_bytes_length, IH. simpl length. lia. Qed.

Lemma iota_length rc s : length (iota rc s) = length s.
Proof. destruct s; reflexivity. Qed.

Lemma round_length s rc : length (round s rc) = 25%nat.
Proof. unfold round. rewrite iota_length. unfold chi. rewrite map_length. reflexivity. Qed.

Lemma keccak_f_length s : length (keccak_f s) = 25%nat.
Proof.
  unfold keccak_f. change RC with (firstn 23 RC ++ [0x8000000080008008]).
  rewrite fold_left_app. simpl fold_left at 1. apply round_length.
Qed.

Lemma absorb_length fuel s m : length s = 25%nat -> length (absorb fuel s m) = 25%nat.
Proof.
  revert s m; induction fuel as [|f IH]; intros s m Hs; simpl; [exact Hs|].
  destruct m; [exact Hs|]. apply IH. apply keccak_f_length.
Qed.

Lemma keccak256_length m : length (keccak256 m) = 32%nat.
Proof.
  unfold keccak256. rewrite firstn_length, flat_map_le_length, absorb_length by apply repeat_length.
  reflexivity.
Qed.

(* ---- published vectors ---- *)
From FFS Require Import Base.Lit.
From Coq Require Import String.
Local Open Scope string_scope.
Example keccak_empty :
  keccak256 [] = unhex "c5d2460186f7233c927e7db2dcc703c0e500b653ca82273b7bfad8045d85a470".
Proof. vm_compute. reflexivity. Qed.
Example keccak_abc :
  keccak256 (unhex "616263") = unhex "4e03657aea45a94fc7d47ba826c8d667c0d1e6e33a64a036ec44f58fa12d6c45".
Proof. vm_compute. reflexivity. Qed.
