(* Byte strings as [list byte], Go slicing with explicit panics, hex literals and the
   byte-DSL used to transport large inputs between the Go harness and the Coq evaluator. *)
From Coq Require Import String Ascii.
From Coq Require Import List NArith Lia Bool Arith.
From Coq Require Import Init.Byte Strings.Byte.
From FFS Require Import Base.Res.
Import ListNotations.

Definition bytes := list byte.

Definition b2n (b : byte) : N := Byte.to_N b.
Definition n2b (n : N) : byte := match Byte.of_N n with Some b => b | None => x00 end.

Lemma b2n_lt b : (b2n b < 256)%N.
Proof. unfold b2n. pose proof (Byte.to_N_bounded b). lia. Qed.

Lemma b2n_n2b n : (n < 256)%N -> b2n (n2b n) = n.
Proof.
  intros H. unfold b2n, n2b. destruct (Byte.of_N n) eqn:E.
  - apply Byte.to_of_N; exact E.
  - apply Byte.of_N_None_iff in E. lia.
Qed.

Lemma n2b_b2n b : n2b (b2n b) = b.
Proof. unfold n2b, b2n. rewrite Byte.of_to_N. reflexivity. Qed.

Lemma b2n_inj a b : b2n a = b2n b -> a = b.
Proof. intros H. rewrite <- (n2b_b2n a), <- (n2b_b2n b), H. reflexivity. Qed.

Definition byte_eqb (a b : byte) : bool := (b2n a =? b2n b)%N.
Lemma byte_eqb_spec a b : reflect (a = b) (byte_eqb a b).
Proof.
  unfold byte_eqb. destruct (N.eqb_spec (b2n a) (b2n b)) as [E|E]; constructor.
  - apply b2n_inj; exact E.
  - intros ->. apply E; reflexivity.
Qed.

Fixpoint bytes_eqb (a b : bytes) : bool :=
  match a, b with
  | [], [] => true
  | x :: a', y :: b' => byte_eqb x y && bytes_eqb a' b'
  | _, _ => false
  end.

Lemma bytes_eqb_spec a b : reflect (a = b) (bytes_eqb a b).
Proof.
  revert b. induction a as [|x a IH]; intros [|y b]; simpl; try (constructor; congruence).
  destruct (byte_eqb_spec x y) as [->|N]; simpl.
  - destruct (IH b) as [->|N]; constructor; congruence.
  - constructor; congruence.
Qed.

(* Go [l[lo:hi]]: panics unless lo <= hi <= len l (capacity is not modelled here) *)
Definition slice (l : bytes) (lo hi : nat) : res bytes :=
  if (lo <=? hi)%nat && (hi <=? length l)%nat then Ok (firstn (hi - lo) (skipn lo l)) else Panic.

(* Go [l[i]] *)
Definition index (l : bytes) (i : nat) : res byte :=
  match nth_error l i with Some b => Ok b | None => Panic end.

Lemma slice_prefix (p tail : bytes) : slice (p ++ tail) 0 (length p) = Ok p.
Proof.
  unfold slice. simpl. rewrite app_length.
  replace (length p <=? length p + length tail)%nat with true by (symmetry; apply Nat.leb_le; lia).
  rewrite Nat.sub_0_r, firstn_app, Nat.sub_diag, firstn_all. simpl. rewrite app_nil_r. reflexivity.
Qed.

Lemma skipn_prefix {A} (p tail : list A) : skipn (length p) (p ++ tail) = tail.
Proof. rewrite skipn_app, skipn_all, Nat.sub_diag. reflexivity. Qed.

Lemma skipn_skipn' {A} (a b : nat) (l : list A) : skipn a (skipn b l) = skipn (b + a) l.
Proof.
  revert l. induction b as [|b IH]; intros l; [reflexivity|].
  destruct l as [|x l]; [rewrite !skipn_nil; reflexivity|]. simpl. apply IH.
Qed.

Lemma slice_ok l lo hi : (lo <= hi)%nat -> (hi <= length l)%nat ->
  slice l lo hi = Ok (firstn (hi - lo) (skipn lo l)).
Proof.
  intros H1 H2. unfold slice.
  replace (lo <=? hi)%nat with true by (symmetry; apply Nat.leb_le; lia).
  replace (hi <=? length l)%nat with true by (symmetry; apply Nat.leb_le; lia).
  reflexivity.
Qed.

Lemma slice_length l lo hi r : slice l lo hi = Ok r -> length r = (hi - lo)%nat.
Proof.
  unfold slice. destruct (lo <=? hi)%nat eqn:E1; simpl; try discriminate.
  destruct (hi <=? length l)%nat eqn:E2; simpl; try discriminate.
  intros H; injection H as <-. apply Nat.leb_le in E1, E2.
  rewrite firstn_length, skipn_length. lia.
Qed.

(* cheap order-sensitive checksum for comparing large outputs without printing them:
   (length, sum of (i+1)*b_i mod p, sum b_i)  with p = 2^61 - 1 *)
Definition cks_p : N := 2305843009213693951.
Fixpoint cks_go (l : bytes) (i : N) (a b : N) : N * N :=
  match l with
  | [] => (a, b)
  | x :: t => cks_go t (i + 1) ((a + (i + 1) * b2n x) mod cks_p)%N (b + b2n x)%N
  end.
Definition cks (l : bytes) : N * N * N :=
  let '(a, b) := cks_go l 0 0 0 in (N.of_nat (length l), a, b).

Definition ascii_bytes (s : string) : bytes := List.map byte_of_ascii (list_ascii_of_string s).
