(* Literals used only by the case files the harness writes: hex strings, byte strings packed seven to
   a primitive 63-bit integer (two orders of magnitude cheaper to parse and type-check than string
   literals), and the byte-DSL (literal | n copies of a byte | concatenation).  Nothing here is used by
   a model or a theorem. *)
From Coq Require Import String Ascii.
From Coq Require Import List NArith Lia Bool Arith Uint63.
From Coq Require Import Init.Byte Strings.Byte.
From FFS Require Import Base.Bytes.
Import ListNotations.

Definition hexval (c : ascii) : N :=
  let n := N_of_ascii c in
  if (48 <=? n)%N && (n <=? 57)%N then n - 48
  else if (97 <=? n)%N && (n <=? 102)%N then n - 87
  else if (65 <=? n)%N && (n <=? 70)%N then n - 55
  else 0.

Fixpoint unhex (s : string) : bytes :=
  match s with
  | String a (String b rest) => n2b (hexval a * 16 + hexval b) :: unhex rest
  | _ => []
  end.

(* low 8 bits of a primitive integer as a byte *)
Definition bit (x : int) (m : int) : bool := negb (PrimInt63.eqb (PrimInt63.land x m) 0%uint63).
Definition byte_of_int (x : int) : byte :=
  Byte.of_bits (bit x 1, (bit x 2, (bit x 4, (bit x 8, (bit x 16, (bit x 32, (bit x 64, bit x 128)))))))%uint63.

(* the k low-order bytes of x, most significant first *)
Fixpoint int_bytes (k : nat) (x : int) (acc : bytes) : bytes :=
  match k with
  | O => acc
  | S k' => int_bytes k' (PrimInt63.lsr x 8) (byte_of_int x :: acc)
  end.

(* [len] bytes packed 7 per integer, big-endian inside each; the last chunk holds len mod 7 (or 7) *)
Fixpoint unints (len : nat) (l : list int) : bytes :=
  match l with
  | [] => []
  | x :: t => let k := Nat.min len 7 in int_bytes k x [] ++ unints (len - k) t
  end.

Inductive bdsl :=
| BLit (s : string)
| BI (len : N) (l : list int)
| BRep (b : N) (n : N)
| BCat (l : list bdsl).

Fixpoint bexpand (d : bdsl) : bytes :=
  match d with
  | BLit s => unhex s
  | BI len l => unints (N.to_nat len) l
  | BRep b n => repeat (n2b b) (N.to_nat n)
  | BCat l => flat_map bexpand l
  end.

Example unints_ex : bexpand (BI 9 [0x01020304050607; 0xfe80]%uint63) = unhex "01020304050607fe80".
Proof. vm_compute. reflexivity. Qed.
