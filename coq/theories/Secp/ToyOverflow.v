(* Referee issue I8 (last item): Ecdsa.Toy has x(P) < n for every point, so no Example could show the
   overflow signatures V = 29/30 that make "V in {27,28}" partial.  ToyOvf is Ecdsa.Toy with the x
   coordinate of the two points {3, 10} moved from 3 to 16 = 3 + n: the same group (all group laws are
   Toy's), x still determines the point up to sign, and x(3 G) >= n.  It satisfies [laws], and the model
   signs with V = 30 there (nonce 3) and with V = 28 (nonce 2); Recover rejects the former. *)
From Coq Require Import ZArith List Bool Lia.
From Coq Require Import Init.Byte.
From FFS Require Import Base.Res Base.Bytes Crypto.Ecdsa Secp.Model Secp.Proofs.
Import ListNotations.
Local Open Scope Z_scope.

Module ToyOvf.
  Definition ox (P : Toy.tpt) : Z := Toy.tx P + (if Toy.tx P =? 3 then 13 else 0).
  Definition olift (x : Z) (b : bool) : option Toy.tpt :=
    if x =? 3 then None else if x =? 16 then Toy.tlift 3 b else Toy.tlift x b.

  Definition ops : group_ops := {|
    pt := Toy.tpt; zero := Toy.tzero; add := Toy.tadd; neg := Toy.tneg; smul := Toy.tsmul; G := Toy.tG; n := Toy.q;
    is_zero := Toy.tis_zero; xcoord := ox; ycoord := Toy.ty; lift_x := olift |}.

  Lemma tx_range P : 0 <= Toy.tx P <= 6.
  Proof. unfold Toy.tx. pose proof (Toy.val_range P) as R. unfold Toy.q in *. lia. Qed.

  Lemma o_lift x b P : olift x b = Some P <-> (P <> Toy.tzero /\ ox P = x /\ Z.odd (Toy.ty P) = b).
  Proof.
    unfold olift, ox. pose proof (tx_range P) as R.
    destruct (Z.eqb_spec x 3) as [->|N3].
    { split; [discriminate|]. intros (_ & E & _). destruct (Z.eqb_spec (Toy.tx P) 3); lia. }
    destruct (Z.eqb_spec x 16) as [->|N16].
    { rewrite Toy.l_lift. destruct (Z.eqb_spec (Toy.tx P) 3) as [E|E]; [rewrite E|]; intuition lia. }
    rewrite Toy.l_lift. destruct (Z.eqb_spec (Toy.tx P) 3) as [E|E]; intuition lia.
  Qed.

  Lemma o_xneg P : ox (Toy.tneg P) = ox P.
  Proof. unfold ox. rewrite Toy.l_xneg. reflexivity. Qed.

  Lemma o_range P : P <> Toy.tzero -> 0 <= ox P < 2 ^ 256 /\ 0 <= Toy.ty P < 2 ^ 256.
  Proof.
    intros NZ. destruct (Toy.l_range P NZ) as (_ & Hy). split; [|exact Hy].
    unfold ox. pose proof (tx_range P). assert (32 < 2 ^ 256) by reflexivity. destruct (Toy.tx P =? 3); lia.
  Qed.

  Theorem ovf_laws : laws ops.
  Proof.
    constructor.
    - exact (n_prime _ Toy.toy_laws).
    - exact (n_gt_2 _ Toy.toy_laws).
    - exact (add_assoc _ Toy.toy_laws).
    - exact (add_comm _ Toy.toy_laws).
    - exact (add_zero_l _ Toy.toy_laws).
    - exact (add_neg_r _ Toy.toy_laws).
    - exact (smul_add _ Toy.toy_laws).
    - exact (smul_mul _ Toy.toy_laws).
    - exact (generated _ Toy.toy_laws).
    - exact (G_order _ Toy.toy_laws).
    - exact (is_zero_spec _ Toy.toy_laws).
    - exact o_lift.
    - exact o_xneg.
    - exact (parity_neg _ Toy.toy_laws).
    - exact o_range.
  Qed.
End ToyOvf.
