(* Proofs about the model of pkg/secp256k1 (Secp/Model.v) over an abstract group satisfying
   Ecdsa.laws, an arbitrary 32-byte hash function and an arbitrary nonce stream.  The statements of
   property C05 in Properties/C05.v are closed by lemmas of this file and of Crypto/Ecdsa.v. *)
From Coq Require Import ZArith List Bool Lia Znumtheory.
From Coq Require Import Init.Byte.
From FFS Require Import Base.Res Base.Bytes Crypto.Ecdsa Secp.Model Secp.Spec.
Import ListNotations.
Local Open Scope Z_scope.

(* ------------------------------------------------------------------------------------------ *)
(* Go integer conversions                                                                      *)

Lemma is_int64_iff z : is_int64 z = true <-> - two63 <= z < two63.
Proof. unfold is_int64. rewrite andb_true_iff, Z.leb_le, Z.ltb_lt. reflexivity. Qed.

Lemma wrap64_spec z : wrap64 z = (z + two63) mod two64 - two63.
Proof.
  unfold wrap64. destruct (is_int64 z) eqn:E; [|reflexivity].
  apply is_int64_iff in E. rewrite Z.mod_small; unfold two63, two64 in *; lia.
Qed.

Lemma wrap64_id z : is_int64 z = true -> wrap64 z = z.
Proof. unfold wrap64. intros ->. reflexivity. Qed.

Lemma wrap64_range z : is_int64 (wrap64 z) = true.
Proof.
  rewrite wrap64_spec. apply is_int64_iff.
  pose proof (Z.mod_pos_bound (z + two63) two64 ltac:(reflexivity)). unfold two63, two64 in *. lia.
Qed.

(* wrapping does not change the value mod 256 *)
Lemma wrap64_mod256 z : wrap64 z mod 256 = z mod 256.
Proof.
  rewrite wrap64_spec.
  pose proof (Z.div_mod (z + two63) two64 ltac:(discriminate)) as D.
  replace ((z + two63) mod two64 - two63) with (z + (- (72057594037927936 * ((z + two63) / two64))) * 256)
    by (unfold two63, two64 in *; lia).
  apply Z.mod_add. discriminate.
Qed.

Lemma big_int64_id z : is_int64 z = true -> big_int64 z = z.
Proof. unfold big_int64. intros ->. reflexivity. Qed.

(* the value of big.Int.Int64() in general (documented as "undefined" by math/big outside int64) *)
Lemma big_int64_spec z :
  big_int64 z = let w := wrap64 (Z.abs z mod two64) in if z <? 0 then wrap64 (- w) else w.
Proof.
  unfold big_int64. destruct (is_int64 z) eqn:E; [|reflexivity]. apply is_int64_iff in E. cbv zeta.
  destruct (Z.ltb_spec z 0).
  - rewrite Z.mod_small by (unfold two63, two64 in *; lia).
    destruct (Z.eq_dec z (- two63)) as [->|Hne].
    + vm_compute. reflexivity.
    + rewrite (wrap64_id (Z.abs z)) by (apply is_int64_iff; unfold two63 in *; lia).
      rewrite wrap64_id by (apply is_int64_iff; unfold two63 in *; lia). lia.
  - rewrite Z.mod_small by (unfold two63, two64 in *; lia).
    rewrite wrap64_id by (apply is_int64_iff; unfold two63 in *; lia). lia.
Qed.

(* ------------------------------------------------------------------------------------------ *)
(* big-endian bytes                                                                            *)

Lemma be_fixed_S len z : be_fixed (S len) z = be_fixed len (z / 256) ++ [n2b (Z.to_N (z mod 256))].
Proof.
  cbn [be_fixed]. rewrite Z.shiftr_div_pow2 by lia. change 255 with (Z.ones 8). rewrite Z.land_ones by lia.
  reflexivity.
Qed.

Lemma be_fixed_length len z : length (be_fixed len z) = len.
Proof. revert z. induction len as [|l IH]; intros z; [reflexivity|]. rewrite be_fixed_S, app_length, IH. simpl. lia. Qed.

Lemma of_be_app a b : of_be (a ++ b) = of_be a * 256 ^ Z.of_nat (length b) + of_be b.
Proof.
  unfold of_be. rewrite fold_left_app. generalize (fold_left (fun acc b0 => acc * 256 + Z.of_N (b2n b0)) a 0).
  induction b as [|x b IH]; intros acc; cbn [fold_left length].
  - simpl. lia.
  - rewrite IH, (IH (0 * 256 + _)). rewrite Nat2Z.inj_succ, Z.pow_succ_r by lia. ring.
Qed.

Lemma of_be_be_fixed len z : 0 <= z < 256 ^ Z.of_nat len -> of_be (be_fixed len z) = z.
Proof.
  revert z. induction len as [|l IH]; intros z Hz.
  - simpl in *. unfold of_be. simpl. lia.
  - rewrite be_fixed_S. rewrite of_be_app. cbn [length].
    rewrite Nat2Z.inj_succ, Z.pow_succ_r in Hz by lia.
    rewrite IH by (split; [apply Z.div_pos; lia|apply Z.div_lt_upper_bound; lia]).
    unfold of_be. cbn [fold_left]. rewrite b2n_n2b.
    + rewrite Z2N.id by (apply Z.mod_pos_bound; lia). change (Z.of_nat 1) with 1. rewrite Z.pow_1_r.
      pose proof (Z.div_mod z 256 ltac:(lia)). lia.
    + pose proof (Z.mod_pos_bound z 256 ltac:(lia)). lia.
Qed.

Lemma of_be_nonneg l : 0 <= of_be l.
Proof.
  unfold of_be. assert (forall acc, 0 <= acc -> 0 <= fold_left (fun acc b => acc * 256 + Z.of_N (b2n b)) l acc).
  { induction l as [|x l IH]; intros acc Ha; cbn [fold_left]; [exact Ha|]. apply IH. lia. }
  apply H. lia.
Qed.

Lemma of_be_bound l : of_be l < 256 ^ Z.of_nat (length l).
Proof.
  induction l as [|x l IH] using rev_ind; [unfold of_be; simpl; lia|].
  rewrite of_be_app, app_length. cbn [length]. rewrite Nat2Z.inj_add. change (Z.of_nat 1) with 1.
  rewrite Z.pow_add_r, Z.pow_1_r by lia. unfold of_be at 2. cbn [fold_left].
  pose proof (b2n_lt x). pose proof (of_be_nonneg l). lia.
Qed.

Lemma be_fixed_of_be l : be_fixed (length l) (of_be l) = l.
Proof.
  induction l as [|x l IH] using rev_ind; [reflexivity|].
  rewrite app_length. cbn [length]. rewrite Nat.add_1_r. rewrite be_fixed_S.
  rewrite of_be_app. cbn [length]. change (Z.of_nat 1) with 1. rewrite Z.pow_1_r.
  unfold of_be at 2 4. cbn [fold_left]. rewrite Z.add_0_l.
  pose proof (b2n_lt x).
  rewrite Z.div_add_l by lia. rewrite Z.div_small by lia. rewrite Z.add_0_r, IH.
  rewrite Z.add_comm, Z.mod_add by lia. rewrite Z.mod_small by lia. rewrite N2Z.id, n2b_b2n. reflexivity.
Qed.

Lemma two256_eq : two256 = 256 ^ Z.of_nat 32.
Proof. reflexivity. Qed.

Lemma fill_bytes_ok z : 0 <= z < two256 -> fill_bytes 32 z = Ok (be_fixed 32 z).
Proof.
  intros Hz. unfold fill_bytes. rewrite Z.abs_eq by lia. rewrite <- two256_eq.
  destruct (Z.ltb_spec z two256); [reflexivity|lia].
Qed.

Lemma be_fixed_inj len a b : 0 <= a < 256 ^ Z.of_nat len -> 0 <= b < 256 ^ Z.of_nat len ->
  be_fixed len a = be_fixed len b -> a = b.
Proof. intros Ha Hb E. rewrite <- (of_be_be_fixed len a Ha), <- (of_be_be_fixed len b Hb), E. reflexivity. Qed.

(* ------------------------------------------------------------------------------------------ *)
(* getVNormalized: the exact set of accepted V                                                 *)

(* the byte the default branch computes *)
Lemma default_branch_byte v c :
  to_byte (wrap64 (wrap64 (wrap64 (v - 35) - wrap64 (c * 2)) + 27)) = (v - 8 - 2 * c) mod 256.
Proof.
  unfold to_byte. rewrite wrap64_mod256.
  rewrite Zplus_mod, wrap64_mod256, Zminus_mod, !wrap64_mod256, <- Zminus_mod, <- Zplus_mod.
  f_equal. ring.
Qed.

(* [v_accepts V c] : the boolean guard describing exactly which V getVNormalized accepts (after fix
   cf3e2c3) and the normalised value it returns *)
Definition v_norm (V c : Z) : option Z :=
  if negb (is_int64 V) then None
  else if (V =? 0) || (V =? 27) then Some 27
  else if (V =? 1) || (V =? 28) then Some 28
  else let b := (V - 8 - 2 * c) mod 256 in
       if (b =? 27) || (b =? 28) then Some b else None.

Lemma getVNormalized_spec sg c :
  getVNormalized sg c = match v_norm (sV sg) c with Some b => Ok b | None => Err EInvalidV end.
Proof.
  unfold getVNormalized, v_norm. destruct (is_int64 (sV sg)) eqn:E; cbn [negb]; [|reflexivity].
  rewrite (big_int64_id _ E). set (V := sV sg).
  destruct (Z.eqb_spec V 0) as [->|H0]; [reflexivity|].
  destruct (Z.eqb_spec V 1) as [->|H1]; [reflexivity|].
  destruct (Z.eqb_spec V 27) as [->|H27]; [reflexivity|].
  destruct (Z.eqb_spec V 28) as [->|H28]; [reflexivity|].
  cbn [orb]. rewrite default_branch_byte.
  destruct (Z.eqb_spec ((V - 8 - 2 * c) mod 256) 27) as [->|A]; [reflexivity|].
  destruct (Z.eqb_spec ((V - 8 - 2 * c) mod 256) 28) as [->|B]; reflexivity.
Qed.

Lemma getVNormalized_not_panic sg c : getVNormalized sg c <> Panic.
Proof. rewrite getVNormalized_spec. destruct (v_norm _ _); discriminate. Qed.

Lemma getVNormalized_27_28 sg c vB : getVNormalized sg c = Ok vB -> vB = 27 \/ vB = 28.
Proof.
  rewrite getVNormalized_spec. unfold v_norm.
  destruct (negb _); [discriminate|]. destruct (_ || _); [intros H; injection H; auto|].
  destruct (_ || _); [intros H; injection H; auto|]. cbv zeta.
  destruct (Z.eqb_spec ((sV sg - 8 - 2 * c) mod 256) 27) as [E|_]; [intros H; injection H as <-; left; exact E|].
  destruct (Z.eqb_spec ((sV sg - 8 - 2 * c) mod 256) 28) as [E|_]; [intros H; injection H as <-; right; exact E|discriminate].
Qed.

(* the three legitimate forms of V for parity p (0 or 1) and chain id c *)
Definition legit_V (p c V : Z) : Prop := V = 27 + p \/ V = p \/ V = 35 + 2 * c + p.

Lemma v_norm_legit p c V :
  (p = 0 \/ p = 1) -> 0 <= c -> is_int64 (35 + 2 * c + 1) = true -> legit_V p c V -> v_norm V c = Some (27 + p).
Proof.
  intros Hp Hc Hr HV. apply is_int64_iff in Hr. unfold v_norm.
  assert (E : is_int64 V = true) by (apply is_int64_iff; unfold legit_V, two63 in *; lia).
  rewrite E. cbn [negb].
  destruct HV as [ -> | [ -> | -> ] ]; destruct Hp as [ -> | -> ]; try reflexivity.
  - replace (35 + 2 * c + 0) with (35 + 2 * c) by lia.
    destruct (Z.eqb_spec (35 + 2 * c) 0); [lia|]. destruct (Z.eqb_spec (35 + 2 * c) 27); [lia|].
    destruct (Z.eqb_spec (35 + 2 * c) 1); [lia|]. destruct (Z.eqb_spec (35 + 2 * c) 28); [lia|]. cbn [orb].
    replace (35 + 2 * c - 8 - 2 * c) with 27 by lia. reflexivity.
  - destruct (Z.eqb_spec (35 + 2 * c + 1) 0); [lia|]. destruct (Z.eqb_spec (35 + 2 * c + 1) 27); [lia|].
    destruct (Z.eqb_spec (35 + 2 * c + 1) 1); [lia|]. destruct (Z.eqb_spec (35 + 2 * c + 1) 28); [lia|]. cbn [orb].
    replace (35 + 2 * c + 1 - 8 - 2 * c) with 28 by lia. reflexivity.
Qed.

(* every integer V that is accepted is one of the six legitimate values, or lies in the region of the
   known finding: within int64, none of 0/1/27/28, and congruent mod 256 to an EIP-155 form *)
Definition v_alias (V c : Z) : Prop :=
  is_int64 V = true /\ V <> 0 /\ V <> 1 /\ V <> 27 /\ V <> 28 /\ V <> 35 + 2 * c /\ V <> 36 + 2 * c /\
  exists p j, (p = 0 \/ p = 1) /\ j <> 0 /\ V = 35 + 2 * c + p + 256 * j.

Lemma v_norm_some_cases V c b :
  v_norm V c = Some b ->
  (exists p, (p = 0 \/ p = 1) /\ b = 27 + p /\ legit_V p c V) \/ v_alias V c.
Proof.
  unfold v_norm. destruct (is_int64 V) eqn:E; cbn [negb]; [|discriminate].
  destruct (Z.eqb_spec V 0) as [->|H0]; [intros H; injection H as <-; left; exists 0; unfold legit_V; lia|].
  destruct (Z.eqb_spec V 27) as [->|H27]; [intros H; injection H as <-; left; exists 0; unfold legit_V; lia|].
  destruct (Z.eqb_spec V 1) as [->|H1]; [intros H; injection H as <-; left; exists 1; unfold legit_V; lia|].
  destruct (Z.eqb_spec V 28) as [->|H28]; [intros H; injection H as <-; left; exists 1; unfold legit_V; lia|].
  cbn [orb]. cbv zeta.
  pose proof (Z.div_mod (V - 8 - 2 * c) 256 ltac:(lia)) as D.
  set (q := (V - 8 - 2 * c) / 256) in *. set (m := (V - 8 - 2 * c) mod 256) in *.
  destruct (Z.eqb_spec m 27) as [Em|Nm].
  - intros H; injection H as <-. destruct (Z.eq_dec q 0) as [Q|Q].
    + left. exists 0. unfold legit_V. lia.
    + right. unfold v_alias. repeat split; try lia; try assumption.
      exists 0, q. lia.
  - destruct (Z.eqb_spec m 28) as [Em|Nm']; [|discriminate].
    intros H; injection H as <-. destruct (Z.eq_dec q 0) as [Q|Q].
    + left. exists 1. unfold legit_V. lia.
    + right. unfold v_alias. repeat split; try lia; try assumption.
      exists 1, q. lia.
Qed.

Lemma v_norm_alias V c : v_alias V c -> exists b, v_norm V c = Some b.
Proof.
  intros (E & H0 & H1 & H27 & H28 & _ & _ & p & j & Hp & Hj & EV). subst V. unfold v_norm. rewrite E. cbn [negb].
  apply Z.eqb_neq in H0, H1, H27, H28. rewrite H0, H1, H27, H28. cbn [orb]. cbv zeta.
  replace (35 + 2 * c + p + 256 * j - 8 - 2 * c) with (27 + p + j * 256) by lia.
  rewrite Z.mod_add by lia. destruct Hp as [ -> | -> ]; eexists; reflexivity.
Qed.

(* ------------------------------------------------------------------------------------------ *)
(* the model over an abstract group                                                            *)

Lemma app_eq_len {A} (a c b d : list A) : length a = length c -> a ++ b = c ++ d -> a = c /\ b = d.
Proof.
  revert c. induction a as [|x a IH]; intros [|y c] Hl E; try discriminate; [auto|].
  injection E as -> E. destruct (IH c ltac:(simpl in Hl; lia) E) as [-> ->]. auto.
Qed.

Lemma skipn_app_len {A} k (a b : list A) : length a = k -> skipn k (a ++ b) = b.
Proof. intros <-. apply skipn_prefix. Qed.
Lemma firstn_app_len {A} k (a b : list A) : length a = k -> firstn k (a ++ b) = a.
Proof. intros <-. rewrite firstn_app, Nat.sub_diag, firstn_O, app_nil_r. apply firstn_all. Qed.
Lemma firstn_len {A} k (a : list A) : length a = k -> firstn k a = a.
Proof. intros <-. apply firstn_all. Qed.

Section SecpProofs.
  Variable o : group_ops.
  Hypothesis L : laws o.
  Hypothesis n_fits : n o < two256.            (* the group order fits 32 bytes *)
  Variable H : bytes -> bytes.
  Hypothesis H_len : forall x, length (H x) = 32%nat.
  Variable nonce : Z -> bytes -> nat -> Z.
  Variable sign_fuel : nat.

  Notation n := (n o).

  (* the address of a public key, as the property states it: the last 20 bytes of the hash of
     X || Y (32 bytes each, big-endian), i.e. of the uncompressed encoding without its 0x04 byte *)
  Definition pubkey_bytes (Q : pt o) : bytes := be_fixed 32 (xcoord o Q) ++ be_fixed 32 (ycoord o Q).
  Definition addr_of (Q : pt o) : bytes := lastn 20 (H (pubkey_bytes Q)).

  Lemma pubkey_bytes_length Q : length (pubkey_bytes Q) = 64%nat.
  Proof. unfold pubkey_bytes. rewrite app_length, !be_fixed_length. reflexivity. Qed.

  Lemma slice_all_tail (x : byte) (l : bytes) : slice (x :: l) 1 (S (length l)) = Ok l.
  Proof.
    unfold slice. cbn [length]. rewrite Nat.leb_refl.
    replace (1 <=? S (length l))%nat with true by (symmetry; apply Nat.leb_le; lia).
    cbn [andb skipn]. replace (S (length l) - 1)%nat with (length l) by lia. rewrite firstn_all. reflexivity.
  Qed.

  Lemma PublicKeyToAddress_spec Q : PublicKeyToAddress o H Q = Ok (addr_of Q).
  Proof.
    unfold PublicKeyToAddress, SerializeUncompressed.
    pose proof (slice_all_tail x04 (pubkey_bytes Q)) as S1. rewrite pubkey_bytes_length in S1.
    unfold pubkey_bytes in S1 at 1. rewrite S1. cbn [bind].
    unfold slice. rewrite H_len. cbn [Nat.leb andb]. unfold addr_of, lastn. rewrite H_len.
    replace (32 - 12)%nat with 20%nat by reflexivity. replace (32 - 20)%nat with 12%nat by reflexivity.
    rewrite firstn_all2; [reflexivity|]. rewrite skipn_length, H_len. lia.
  Qed.

  Lemma addr_of_length Q : length (addr_of Q) = 20%nat.
  Proof. unfold addr_of, lastn. rewrite skipn_length, H_len. reflexivity. Qed.

  (* distinct non-zero points have distinct 64-byte encodings: equal addresses of distinct keys are a
     collision of the last 20 bytes of H on two distinct 64-byte inputs *)
  Lemma pubkey_bytes_inj P Q : P <> zero o -> Q <> zero o -> pubkey_bytes P = pubkey_bytes Q -> P = Q.
  Proof.
    intros HP HQ E. unfold pubkey_bytes in E.
    apply app_eq_len in E; [|rewrite !be_fixed_length; reflexivity]. destruct E as [Ex Ey].
    destruct (coord_range o L P HP) as [Px Py]. destruct (coord_range o L Q HQ) as [Qx Qy].
    apply be_fixed_inj in Ex; [|rewrite <- two256_eq; unfold two256; lia ..].
    apply be_fixed_inj in Ey; [|rewrite <- two256_eq; unfold two256; lia ..].
    apply (point_eq o L); auto. unfold parity. rewrite Ey. reflexivity.
  Qed.

  (* ---- RecoverCompact on the 65 bytes RecoverDirect builds ---- *)
  Lemma n2b_27_28 vB : vB = 27 \/ vB = 28 -> Z.of_N (b2n (n2b (Z.to_N vB))) = vB.
  Proof. intros [->| ->]; reflexivity. Qed.

  Lemma RecoverCompact_built vB r s msg :
    vB = 27 \/ vB = 28 -> 0 <= r < two256 -> 0 <= s < two256 ->
    RecoverCompact o (n2b (Z.to_N vB) :: be_fixed 32 r ++ be_fixed 32 s) msg =
      match ecdsa_recover o (hash_to_z msg) r s (vB =? 28) with Some Q => Ok Q | None => Err ELib end.
  Proof.
    intros Hv Hr Hs. unfold RecoverCompact.
    cbn [length]. rewrite app_length, !be_fixed_length. cbn [Nat.add Nat.eqb negb nth].
    rewrite (n2b_27_28 _ Hv).
    replace ((vB =? 27) || (vB =? 28)) with true by (destruct Hv as [-> | ->]; reflexivity).
    cbn [negb].
    change (skipn 1 (n2b (Z.to_N vB) :: be_fixed 32 r ++ be_fixed 32 s)) with (be_fixed 32 r ++ be_fixed 32 s).
    change (skipn 33 (n2b (Z.to_N vB) :: be_fixed 32 r ++ be_fixed 32 s)) with (skipn 32 (be_fixed 32 r ++ be_fixed 32 s)).
    rewrite (firstn_app_len 32) by apply be_fixed_length.
    rewrite (skipn_app_len 32) by apply be_fixed_length.
    rewrite (firstn_len 32) by apply be_fixed_length.
    rewrite !of_be_be_fixed by (rewrite <- two256_eq; assumption). reflexivity.
  Qed.

  (* what recover_tail computes (no panic is possible after the range checks) *)
  Lemma recover_tail_spec vB sg msg :
    vB = 27 \/ vB = 28 ->
    recover_tail o H vB sg msg =
      if (two256 <=? Z.abs (sR sg)) || (two256 <=? Z.abs (sS sg)) || (sR sg <? 0) || (sS sg <? 0) then Err ERange
      else match ecdsa_recover o (hash_to_z msg) (sR sg) (sS sg) (vB =? 28) with
           | Some Q => Ok (addr_of Q)
           | None => Err ELib
           end.
  Proof.
    intros Hv. unfold recover_tail, wider_than_256.
    destruct (Z.leb_spec two256 (Z.abs (sR sg))) as [A|A]; [reflexivity|].
    destruct (Z.leb_spec two256 (Z.abs (sS sg))) as [B|B]; [reflexivity|]. cbn [orb].
    destruct (Z.ltb_spec (sR sg) 0) as [C|C]; [reflexivity|].
    destruct (Z.ltb_spec (sS sg) 0) as [D|D]; [reflexivity|]. cbn [orb].
    rewrite !fill_bytes_ok by lia. cbn [bind].
    rewrite RecoverCompact_built by (auto; lia).
    destruct (ecdsa_recover o _ _ _ _); cbn [bind]; [apply PublicKeyToAddress_spec|reflexivity].
  Qed.

  Theorem RecoverDirect_spec sg msg c :
    RecoverDirect o H sg msg c =
      match v_norm (sV sg) c with
      | None => Err EInvalidV
      | Some vB =>
          if (two256 <=? Z.abs (sR sg)) || (two256 <=? Z.abs (sS sg)) || (sR sg <? 0) || (sS sg <? 0) then Err ERange
          else match ecdsa_recover o (hash_to_z msg) (sR sg) (sS sg) (vB =? 28) with
               | Some Q => Ok (addr_of Q)
               | None => Err ELib
               end
      end.
  Proof.
    unfold RecoverDirect. pose proof (getVNormalized_27_28 sg c) as Hv. rewrite getVNormalized_spec in *.
    destruct (v_norm (sV sg) c) as [vB|]; cbn [bind]; [|reflexivity].
    apply recover_tail_spec. apply Hv. reflexivity.
  Qed.

  Corollary RecoverDirect_total sg msg c : RecoverDirect o H sg msg c <> Panic.
  Proof.
    rewrite RecoverDirect_spec. destruct (v_norm _ _); [|discriminate].
    destruct (_ || _); [discriminate|]. destruct (ecdsa_recover _ _ _ _ _); discriminate.
  Qed.

  (* inversion: a successful recovery went through ecdsa_recover with r, s as given *)
  Lemma RecoverDirect_ok sg msg c a :
    RecoverDirect o H sg msg c = Ok a ->
    exists vB Q, v_norm (sV sg) c = Some vB /\ (vB = 27 \/ vB = 28) /\
                 ecdsa_recover o (hash_to_z msg) (sR sg) (sS sg) (vB =? 28) = Some Q /\ Q <> zero o /\ a = addr_of Q.
  Proof.
    intros E. pose proof (getVNormalized_27_28 sg c) as Hv. rewrite getVNormalized_spec in Hv.
    rewrite RecoverDirect_spec in E. destruct (v_norm (sV sg) c) as [vB|]; [|discriminate].
    destruct (_ || _); [discriminate|].
    destruct (ecdsa_recover o _ _ _ _) as [Q|] eqn:ER; [|discriminate]. injection E as <-.
    exists vB, Q. repeat split; auto.
    intros ->. unfold ecdsa_recover in ER. destruct (negb _); [discriminate|].
    destruct (lift_x o _ _); [|discriminate]. cbv zeta in ER.
    destruct (is_zero o _) eqn:Z0; [discriminate|]. injection ER as ER.
    rewrite ER in Z0. assert (is_zero o (zero o) = true) by (apply (is_zero_spec o L); reflexivity). congruence.
  Qed.
End SecpProofs.

Section SecpTheorems.
  Variable o : group_ops.
  Hypothesis L : laws o.
  Hypothesis n_fits : n o < two256.
  Variable H : bytes -> bytes.
  Hypothesis H_len : forall x, length (H x) = 32%nat.
  Variable nonce : Z -> bytes -> nat -> Z.
  Variable sign_fuel : nat.

  Notation n := (n o).
  Notation addr := (addr_of o H).

  Definition v_of_esig (e : esig) : Z := 27 + (if es_ovf e then 2 else 0) + (if es_odd e then 1 else 0).

  (* ---- signing ---- *)

  (* SignDirect returns exactly the ECDSA signature of one nonce of the stream, unpacked *)
  Lemma SignDirect_inv d msg sg :
    SignDirect o nonce sign_fuel d msg = Ok sg ->
    exists j e, ecdsa_sign o d (hash_to_z msg) (nonce d msg j) = Some e /\
                sV sg = v_of_esig e /\ sR sg = es_r e /\ sS sg = es_s e.
  Proof.
    unfold SignDirect, SignCompact.
    destruct (ecdsa_sign_loop o sign_fuel (nonce d msg) 0 d (hash_to_z msg)) as [e|] eqn:E; [|discriminate].
    destruct (sign_loop_some o _ _ _ _ _ _ E) as [j Hj]. cbn [bind index nth_error].
    destruct (sign_shape o L _ _ _ _ Hj) as (Hr & Hs & _).
    set (code := 27 + (if es_ovf e then 2 else 0) + (if es_odd e then 1 else 0)).
    set (rb := be_fixed 32 (es_r e)). set (sb := be_fixed 32 (es_s e)).
    assert (Lr : length rb = 32%nat) by apply be_fixed_length.
    assert (Ls : length sb = 32%nat) by apply be_fixed_length.
    assert (S1 : slice (n2b (Z.to_N code) :: rb ++ sb) 1 33 = Ok rb).
    { unfold slice. cbn [length]. rewrite app_length, Lr, Ls. cbn [Nat.leb Nat.add andb].
      change (skipn 1 (n2b (Z.to_N code) :: rb ++ sb)) with (rb ++ sb).
      change (33 - 1)%nat with 32%nat. rewrite (firstn_app_len 32) by exact Lr. reflexivity. }
    assert (S2 : slice (n2b (Z.to_N code) :: rb ++ sb) 33 65 = Ok sb).
    { unfold slice. cbn [length]. rewrite app_length, Lr, Ls. cbn [Nat.leb Nat.add andb].
      change (skipn 33 (n2b (Z.to_N code) :: rb ++ sb)) with (skipn 32 (rb ++ sb)).
      change (65 - 33)%nat with 32%nat. rewrite (skipn_app_len 32) by exact Lr.
      rewrite (firstn_len 32) by exact Ls. reflexivity. }
    rewrite S1, S2. cbn [bind]. intros E'. injection E' as <-. exists j, e. split; [exact Hj|].
    cbn [sV sR sS]. unfold rb, sb. rewrite !of_be_be_fixed by (rewrite <- two256_eq; lia).
    repeat split. unfold v_of_esig, code. destruct (es_ovf e), (es_odd e); reflexivity.
  Qed.

  (* C05 clause 1: shape of a signature.  V is 27/28 unless the x coordinate of the nonce point is
     >= n (then 29/30: the overflow bit of btcec's recovery code; probability about 2^-128). *)
  Theorem SignDirect_shape d msg sg :
    SignDirect o nonce sign_fuel d msg = Ok sg ->
    (sV sg = 27 \/ sV sg = 28 \/ sV sg = 29 \/ sV sg = 30) /\
    1 <= sR sg < n /\ 1 <= sS sg < n /\ 2 * sS sg <= n /\
    ecdsa_verify o (pub o d) (hash_to_z msg) (sR sg) (sS sg) = true.
  Proof.
    intros E. destruct (SignDirect_inv _ _ _ E) as (j & e & Hj & -> & -> & ->).
    destruct (sign_shape o L _ _ _ _ Hj) as (Hr & Hs & Hl).
    split; [unfold v_of_esig; destruct (es_ovf e), (es_odd e); auto|].
    repeat split; try lia. apply (sign_verifies o L _ _ _ _ Hj).
  Qed.

  (* no nonce of the stream hits the overflow case *)
  Definition no_overflow (d : Z) (msg : bytes) : Prop :=
    forall j, xcoord o (smul o (nonce d msg j) (G o)) < n.

  Theorem SignDirect_V_27_28 d msg sg :
    no_overflow d msg -> SignDirect o nonce sign_fuel d msg = Ok sg -> sV sg = 27 \/ sV sg = 28.
  Proof.
    intros NO E. destruct (SignDirect_inv _ _ _ E) as (j & e & Hj & -> & _).
    destruct (sign_inv o L _ _ _ _ Hj) as (_ & _ & _ & _ & _ & Ho & _).
    specialize (NO j). apply Z.leb_gt in NO. rewrite NO in Ho. unfold v_of_esig. rewrite Ho.
    destruct (es_odd e); auto.
  Qed.

  (* ---- recovery under the three conventions ---- *)

  Definition with_V (sg : sigdata) (v : Z) : sigdata := {| sV := v; sR := sR sg; sS := sS sg |}.

  (* the core: for a genuine signature with V = 27 + p, every V that normalises to 27 + p recovers the
     signer's address *)
  Lemma recover_genuine d msg sg V c :
    1 <= d < n -> SignDirect o nonce sign_fuel d msg = Ok sg -> (sV sg = 27 \/ sV sg = 28) ->
    v_norm V c = Some (sV sg) ->
    RecoverDirect o H (with_V sg V) msg c = Ok (addr (pub o d)).
  Proof.
    intros Hd E HV HN. destruct (SignDirect_inv _ _ _ E) as (j & e & Hj & EV & ER & ES).
    destruct (sign_shape o L _ _ _ _ Hj) as (Hr & Hs & _).
    rewrite RecoverDirect_spec by assumption. cbn [with_V sV sR sS]. rewrite HN, ER, ES.
    replace ((two256 <=? Z.abs (es_r e)) || (two256 <=? Z.abs (es_s e)) || (es_r e <? 0) || (es_s e <? 0)) with false.
    2:{ symmetry. rewrite !orb_false_iff, !Z.leb_gt, !Z.ltb_ge. rewrite !Z.abs_eq by lia. lia. }
    assert (Hov : es_ovf e = false).
    { rewrite EV in HV. unfold v_of_esig in HV. destruct (es_ovf e), (es_odd e); try reflexivity; lia. }
    assert (Hodd : (sV sg =? 28) = es_odd e).
    { rewrite EV. unfold v_of_esig. rewrite Hov. destruct (es_odd e); reflexivity. }
    rewrite Hodd, (recover_sign o L d _ (nonce d msg j) e) by first [assumption | rewrite Z.mod_small; lia]. reflexivity.
  Qed.

  (* C05 clause 2: V as 27/28 (any chain id), as 0/1 (UpdateEIP2930), as 35 + 2c + parity
     (UpdateEIP155 with the chain id supplied to recovery) *)
  Theorem recover_all_conventions d msg sg c c' :
    1 <= d < n -> 0 <= c <= 2 ^ 53 -> is_int64 c' = true ->
    SignDirect o nonce sign_fuel d msg = Ok sg -> (sV sg = 27 \/ sV sg = 28) ->
    RecoverDirect o H sg msg c' = Ok (addr (pub o d)) /\
    RecoverDirect o H (UpdateEIP2930 sg) msg c' = Ok (addr (pub o d)) /\
    RecoverDirect o H (UpdateEIP155 sg c) msg c = Ok (addr (pub o d)) /\
    sV (UpdateEIP2930 sg) = sV sg - 27 /\ sV (UpdateEIP155 sg c) = 35 + 2 * c + (sV sg - 27).
  Proof.
    intros Hd Hc Hc' E HV.
    assert (U2 : UpdateEIP2930 sg = with_V sg (sV sg - 27)).
    { unfold UpdateEIP2930. rewrite big_int64_id by (destruct HV as [-> | ->]; reflexivity).
      destruct HV as [-> | ->]; reflexivity. }
    assert (U1 : UpdateEIP155 sg c = with_V sg (35 + 2 * c + (sV sg - 27))).
    { unfold UpdateEIP155, with_V. f_equal. lia. }
    assert (S0 : sg = with_V sg (sV sg)) by (destruct sg; reflexivity).
    assert (Hp : sV sg - 27 = 0 \/ sV sg - 27 = 1) by lia.
    assert (I64 : forall c0, 0 <= c0 <= 2 ^ 53 -> is_int64 (35 + 2 * c0 + 1) = true).
    { intros c0 H0. apply is_int64_iff. unfold two63. change (2 ^ 53) with 9007199254740992 in H0. lia. }
    assert (N0 : forall c0, v_norm (sV sg) c0 = Some (sV sg)) by (intros; destruct HV as [-> | ->]; reflexivity).
    assert (N2 : forall c0, v_norm (sV sg - 27) c0 = Some (sV sg)) by (intros; destruct HV as [-> | ->]; reflexivity).
    split; [rewrite S0 at 1; apply recover_genuine; auto|].
    split; [rewrite U2; apply recover_genuine; auto|].
    split; [|rewrite U1, U2; auto].
    rewrite U1. apply recover_genuine; auto.
    replace (sV sg) with (27 + (sV sg - 27)) at 2 by lia.
    apply v_norm_legit; auto; try lia. unfold legit_V. right; right. reflexivity.
  Qed.

  (* ---- every other V ---- *)

  (* C05 clause 3 (partial): every integer V that is none of the six legitimate values and not in the
     aliasing region of the known finding is an error, whatever R, S, message and chain id are *)
  Theorem other_V_rejected_partial sg msg c :
    (forall p, (p = 0 \/ p = 1) -> ~ legit_V p c (sV sg)) -> ~ v_alias (sV sg) c ->
    RecoverDirect o H sg msg c = Err EInvalidV.
  Proof.
    intros NL NA. rewrite RecoverDirect_spec by assumption.
    destruct (v_norm (sV sg) c) as [b|] eqn:E; [|reflexivity]. exfalso.
    destruct (v_norm_some_cases _ _ _ E) as [(p & Hp & _ & Hl)|A]; [exact (NL p Hp Hl)|exact (NA A)].
  Qed.

  (* C05 clause 3 refuted as stated: for EVERY genuine signature and chain id, each V in the aliasing
     region with the right residue recovers the signer although it is none of the legitimate values *)
  Theorem other_V_refuted d msg sg c j :
    1 <= d < n -> 0 <= c <= 2 ^ 53 -> SignDirect o nonce sign_fuel d msg = Ok sg -> (sV sg = 27 \/ sV sg = 28) ->
    j <> 0 -> is_int64 (35 + 2 * c + (sV sg - 27) + 256 * j) = true ->
    let V := 35 + 2 * c + (sV sg - 27) + 256 * j in
    V <> 0 -> V <> 1 -> V <> 27 -> V <> 28 ->
    (forall p, (p = 0 \/ p = 1) -> ~ legit_V p c V) /\ RecoverDirect o H (with_V sg V) msg c = Ok (addr (pub o d)).
  Proof.
    intros Hd Hc E HV Hj HI V A0 A1 A27 A28. change (2 ^ 53) with 9007199254740992 in Hc. split.
    - intros p Hp [A|[A|A]]; unfold V in *; lia.
    - apply recover_genuine; auto. unfold v_norm. fold V in HI. rewrite HI. cbn [negb].
      apply Z.eqb_neq in A0, A1, A27, A28. rewrite A0, A1, A27, A28. cbn [orb]. cbv zeta.
      replace (V - 8 - 2 * c) with (sV sg + j * 256) by (unfold V; lia). rewrite Z.mod_add by lia.
      destruct HV as [-> | ->]; reflexivity.
  Qed.

  (* ---- tampering ---- *)

  (* a public key other than the signer's; if its address equals the signer's, the two distinct 64-byte
     encodings collide under the last 20 bytes of H (the theorem exhibits them) *)
  Definition other_key (d : Z) (a : bytes) : Prop :=
    exists Q, Q <> pub o d /\ a = addr Q /\ pubkey_bytes o Q <> pubkey_bytes o (pub o d).

  Lemma other_key_intro d Q : 1 <= d < n -> Q <> zero o -> Q <> pub o d -> other_key d (addr Q).
  Proof.
    intros Hd HQ HN. exists Q. repeat split; auto. intros E. apply HN.
    apply (pubkey_bytes_inj o L); auto. apply (pub_nz o L). rewrite Z.mod_small; lia.
  Qed.

  (* the recovered result of any altered triple, given what ecdsa_recover says about it *)
  Lemma tamper_generic d sg' msg' c a :
    1 <= d < n ->
    (forall odd, ecdsa_recover o (hash_to_z msg') (sR sg') (sS sg') odd <> Some (pub o d) \/
                 (exists vB, v_norm (sV sg') c = Some vB /\ (vB =? 28) <> odd) \/ v_norm (sV sg') c = None) ->
    RecoverDirect o H sg' msg' c = Ok a -> other_key d a.
  Proof.
    intros Hd Hne E. destruct (RecoverDirect_ok o L H H_len _ _ _ _ E) as (vB & Q & HN & _ & ER & HQ & ->).
    apply other_key_intro; auto. intros ->.
    destruct (Hne (vB =? 28)) as [A|[(vB' & A & B)|A]]; [contradiction| |congruence].
    rewrite HN in A. injection A as <-. contradiction.
  Qed.

  Section Tamper.
    Variables (d : Z) (msg : bytes) (sg : sigdata).
    Hypothesis Hd : 1 <= d < n.
    Hypothesis Hsg : SignDirect o nonce sign_fuel d msg = Ok sg.
    Hypothesis HV : sV sg = 27 \/ sV sg = 28.

    Lemma genuine_esig : exists k e, ecdsa_sign o d (hash_to_z msg) k = Some e /\ es_ovf e = false /\
        sR sg = es_r e /\ sS sg = es_s e /\ es_odd e = (sV sg =? 28).
    Proof.
      destruct (SignDirect_inv _ _ _ Hsg) as (j & e & Hj & EV & ER & ES).
      assert (Hov : es_ovf e = false).
      { rewrite EV in HV. unfold v_of_esig in HV. destruct (es_ovf e), (es_odd e); try reflexivity; lia. }
      exists (nonce d msg j), e. repeat split; auto.
      rewrite EV. unfold v_of_esig. rewrite Hov. destruct (es_odd e); reflexivity.
    Qed.

    Lemma d_nz : d mod n <> 0.
    Proof. rewrite Z.mod_small; lia. Qed.

    (* C05 clause 4a: V of the opposite parity, in any of the conventions (any V normalising to the
       other value): never the signer's key *)
    Theorem tamper_flip_parity V c a :
      v_norm V c = Some (55 - sV sg) ->
      RecoverDirect o H (with_V sg V) msg c = Ok a -> other_key d a.
    Proof.
      intros HN. destruct genuine_esig as (k & e & Hk & Hov & ER & ES & Hodd).
      apply tamper_generic; auto. cbn [with_V sV sR sS]. intros odd.
      destruct (Bool.bool_dec odd (es_odd e)) as [->|Hne].
      - right. left. exists (55 - sV sg). split; [exact HN|]. rewrite Hodd. destruct HV as [-> | ->]; discriminate.
      - left. replace odd with (negb (es_odd e)) by (destruct odd, (es_odd e); try reflexivity; contradiction).
        rewrite ER, ES. apply (recover_flip_parity_differs o L d _ k e d_nz Hk Hov).
    Qed.

    (* C05 clause 4b: S altered (V, R, message unchanged, any V convention): never the signer's key *)
    Theorem tamper_S s' V c a :
      s' <> sS sg -> v_norm V c = Some (sV sg) ->
      RecoverDirect o H {| sV := V; sR := sR sg; sS := s' |} msg c = Ok a -> other_key d a.
    Proof.
      intros Hs' HN E. destruct genuine_esig as (k & e & Hk & Hov & ER & ES & Hodd).
      destruct (RecoverDirect_ok o L H H_len _ _ _ _ E) as (vB & Q & HN' & _ & ER' & HQ & ->).
      cbn [sV sR sS] in *. rewrite HN in HN'. injection HN' as <-.
      apply other_key_intro; auto. intros ->.
      assert (Hr' : 1 <= s' < n).
      { unfold ecdsa_recover in ER'. destruct ((1 <=? sR sg) && (sR sg <? n) && (1 <=? s') && (s' <? n)) eqn:B; [|discriminate].
        rewrite !andb_true_iff, !Z.leb_le, !Z.ltb_lt in B. lia. }
      rewrite ER, <- Hodd in ER'. rewrite ES in Hs'.
      exact (recover_other_s_differs o L d _ k e s' d_nz Hk Hov Hs' Hr' ER').
    Qed.

    (* C05 clause 4c: a different message whose digest is not congruent mod n: never the signer's key *)
    Theorem tamper_message msg' V c a :
      hash_to_z msg' mod n <> hash_to_z msg mod n -> v_norm V c = Some (sV sg) ->
      RecoverDirect o H (with_V sg V) msg' c = Ok a -> other_key d a.
    Proof.
      intros Hz HN E. destruct genuine_esig as (k & e & Hk & Hov & ER & ES & Hodd).
      destruct (RecoverDirect_ok o L H H_len _ _ _ _ E) as (vB & Q & HN' & _ & ER' & HQ & ->).
      cbn [with_V sV sR sS] in *. rewrite HN in HN'. injection HN' as <-.
      apply other_key_intro; auto. intros ->.
      rewrite ER, ES, <- Hodd in ER'.
      exact (recover_other_z_differs o L d _ k e _ d_nz Hk Hov Hz ER').
    Qed.

    (* C05 clause 4d (partial): R altered.  Not excluded by the group laws; what is proved: if the
       altered triple still yields the signer's KEY, then (r', S) is a second valid signature of the
       same digest under that key. *)
    Theorem tamper_R_partial r' V c a :
      RecoverDirect o H {| sV := V; sR := r'; sS := sS sg |} msg c = Ok a ->
      other_key d a \/ ecdsa_verify o (pub o d) (hash_to_z msg) r' (sS sg) = true.
    Proof.
      intros E. destruct (RecoverDirect_ok o L H H_len _ _ _ _ E) as (vB & Q & _ & _ & ER' & HQ & ->).
      cbn [sV sR sS] in *.
      destruct (generated o L Q) as [q ->]. destruct (Z.eq_dec (q mod n) (d mod n)) as [Eq|Nq].
      - right. apply (smulG_eq o L) in Eq. rewrite Eq in ER'. exact (recover_sound o L _ _ _ _ _ ER').
      - left. apply other_key_intro; auto. intros Eq. apply Nq. apply (smulG_eq o L). exact Eq.
    Qed.
  End Tamper.

  (* ---- compact codec ---- *)

  Theorem compact_roundtrip sg :
    0 <= sR sg < two256 -> 0 <= sS sg < two256 -> 0 <= sV sg < 256 ->
    exists b, CompactRSV sg = Ok b /\ length b = 65%nat /\ DecodeCompactRSV b = Ok sg /\
              b = be_fixed 32 (sR sg) ++ be_fixed 32 (sS sg) ++ be_fixed 1 (sV sg).
  Proof.
    intros Hr Hs Hv. unfold CompactRSV. rewrite !fill_bytes_ok by assumption. cbn [bind].
    rewrite big_int64_id by (apply is_int64_iff; unfold two63; lia).
    unfold to_byte. rewrite Z.mod_small by assumption.
    set (rb := be_fixed 32 (sR sg)). set (sb := be_fixed 32 (sS sg)).
    assert (Lr : length rb = 32%nat) by apply be_fixed_length.
    assert (Ls : length sb = 32%nat) by apply be_fixed_length.
    assert (V1 : be_fixed 1 (sV sg) = [n2b (Z.to_N (sV sg))]).
    { rewrite be_fixed_S. cbn [be_fixed app]. rewrite Z.mod_small by assumption. reflexivity. }
    eexists. split; [reflexivity|]. split; [rewrite !app_length, Lr, Ls; reflexivity|].
    split; [|rewrite V1; reflexivity].
    unfold DecodeCompactRSV. rewrite !app_length, Lr, Ls. cbn [length Nat.add Nat.eqb negb].
    assert (S1 : slice (rb ++ sb ++ [n2b (Z.to_N (sV sg))]) 0 32 = Ok rb).
    { rewrite <- Lr. apply slice_prefix. }
    assert (S2 : slice (rb ++ sb ++ [n2b (Z.to_N (sV sg))]) 32 64 = Ok sb).
    { unfold slice. rewrite !app_length, Lr, Ls. cbn [length Nat.add Nat.leb andb].
      rewrite (skipn_app_len 32) by exact Lr. change (64 - 32)%nat with 32%nat.
      rewrite (firstn_app_len 32) by exact Ls. reflexivity. }
    assert (S3 : slice (rb ++ sb ++ [n2b (Z.to_N (sV sg))]) 64 65 = Ok [n2b (Z.to_N (sV sg))]).
    { unfold slice. rewrite !app_length, Lr, Ls. cbn [length Nat.add Nat.leb andb].
      rewrite app_assoc. rewrite (skipn_app_len 64) by (rewrite app_length, Lr, Ls; reflexivity). reflexivity. }
    rewrite S1, S2, S3. cbn [bind]. unfold rb, sb.
    rewrite !of_be_be_fixed by (rewrite <- two256_eq; assumption).
    rewrite <- V1, of_be_be_fixed by (change (256 ^ Z.of_nat 1) with 256; assumption).
    destruct sg; reflexivity.
  Qed.

  Theorem decode_compact_length b : length b <> 65%nat -> DecodeCompactRSV b = Err ELen.
  Proof. intros Hl. unfold DecodeCompactRSV. apply Nat.eqb_neq in Hl. rewrite Hl. reflexivity. Qed.

  Theorem decode_compact_total b : length b = 65%nat ->
    exists sg, DecodeCompactRSV b = Ok sg /\ 0 <= sR sg < two256 /\ 0 <= sS sg < two256 /\ 0 <= sV sg < 256 /\
               CompactRSV sg = Ok b.
  Proof.
    intros Hl. unfold DecodeCompactRSV. rewrite Hl. cbn [Nat.eqb negb].
    assert (Hsplit : b = firstn 32 b ++ firstn 32 (skipn 32 b) ++ skipn 64 b).
    { rewrite <- (firstn_skipn 32 b) at 1. f_equal. rewrite <- (firstn_skipn 32 (skipn 32 b)) at 1. f_equal.
      rewrite skipn_skipn'. reflexivity. }
    set (rb := firstn 32 b) in *. set (sb := firstn 32 (skipn 32 b)) in *. set (vb := skipn 64 b) in *.
    assert (Lr : length rb = 32%nat) by (unfold rb; rewrite firstn_length; lia).
    assert (Ls : length sb = 32%nat) by (unfold sb; rewrite firstn_length, skipn_length; lia).
    assert (Lv : length vb = 1%nat) by (unfold vb; rewrite skipn_length; lia).
    assert (S1 : slice b 0 32 = Ok rb) by (unfold slice; rewrite Hl; reflexivity).
    assert (S2 : slice b 32 64 = Ok sb) by (unfold slice; rewrite Hl; reflexivity).
    assert (S3 : slice b 64 65 = Ok vb).
    { unfold slice. rewrite Hl. cbn [Nat.leb andb]. change (65 - 64)%nat with 1%nat. fold vb.
      rewrite (firstn_len 1) by exact Lv. reflexivity. }
    rewrite S1, S2, S3. cbn [bind]. eexists. split; [reflexivity|]. cbn [sV sR sS].
    pose proof (of_be_nonneg rb). pose proof (of_be_nonneg sb). pose proof (of_be_nonneg vb).
    pose proof (of_be_bound rb) as Br. pose proof (of_be_bound sb) as Bs. pose proof (of_be_bound vb) as Bv.
    rewrite Lr in Br. rewrite Ls in Bs. rewrite Lv in Bv. rewrite <- two256_eq in Br, Bs.
    change (256 ^ Z.of_nat 1) with 256 in Bv.
    repeat split; try lia.
    unfold CompactRSV. cbn [sV sR sS]. rewrite !fill_bytes_ok by lia. cbn [bind].
    rewrite big_int64_id by (apply is_int64_iff; unfold two63; lia). unfold to_byte.
    rewrite Z.mod_small by lia. rewrite <- Lr at 1. rewrite be_fixed_of_be. rewrite <- Ls at 1. rewrite be_fixed_of_be.
    assert (V1 : [n2b (Z.to_N (of_be vb))] = vb).
    { destruct vb as [|x [|y t]]; try discriminate. unfold of_be. cbn [fold_left]. rewrite Z.add_0_l, N2Z.id, n2b_b2n. reflexivity. }
    rewrite V1. f_equal. symmetry. exact Hsplit.
  Qed.

  Theorem compact_panics_iff sg :
    CompactRSV sg = Panic <-> (two256 <= Z.abs (sR sg) \/ two256 <= Z.abs (sS sg)).
  Proof.
    unfold CompactRSV, fill_bytes. rewrite <- two256_eq.
    destruct (Z.ltb_spec (Z.abs (sR sg)) two256); cbn [bind].
    - destruct (Z.ltb_spec (Z.abs (sS sg)) two256); cbn [bind]; split; try discriminate; try lia; auto.
    - split; auto.
  Qed.

  (* ---- keys and addresses ---- *)

  (* C05 last clause: the address of a key pair is the last 20 bytes of H of the uncompressed public
     key without its 0x04 prefix byte *)
  Theorem KeyPairFromBytes_address b :
    exists kp, KeyPairFromBytes o H b = Ok kp /\
      kp_priv o kp = of_be (firstn 32 b) mod n /\ kp_pub o kp = pub o (kp_priv o kp) /\
      kp_addr o kp = lastn 20 (H (skipn 1 (SerializeUncompressed o (kp_pub o kp)))) /\
      length (kp_addr o kp) = 20%nat /\
      PublicKeyBytes o kp = Ok (skipn 1 (SerializeUncompressed o (kp_pub o kp))).
  Proof.
    unfold KeyPairFromBytes. rewrite (PublicKeyToAddress_spec o H H_len). cbn [bind]. eexists. split; [reflexivity|].
    cbn [kp_priv kp_pub kp_addr]. split; [reflexivity|]. split; [reflexivity|]. split; [reflexivity|].
    split; [apply addr_of_length; assumption|].
    unfold PublicKeyBytes, SerializeUncompressed. cbn [kp_pub skipn].
    pose proof (slice_all_tail x04 (pubkey_bytes o (pub o (PrivKeyFromBytes o b)))) as S1.
    rewrite pubkey_bytes_length in S1. exact S1.
  Qed.

  (* the hashing entry points are the direct ones applied to H message *)
  Lemma Sign_is_SignDirect d msg : Sign o H nonce sign_fuel d msg = SignDirect o nonce sign_fuel d (H msg).
  Proof. reflexivity. Qed.
  Lemma Recover_is_RecoverDirect sg msg c : Recover o H sg msg c = RecoverDirect o H sg (H msg) c.
  Proof. reflexivity. Qed.
End SecpTheorems.

(* ------------------------------------------------------------------------------------------ *)
(* the model's byte encodings and address agree with Spec.v                                    *)

Lemma be_fixed_as_map len z :
  be_fixed len z = map (fun i => n2b (Z.to_N ((z / 256 ^ Z.of_nat (len - 1 - i)) mod 256))) (seq 0 len).
Proof.
  revert z. induction len as [|l IH]; intros z; [reflexivity|].
  rewrite be_fixed_S. rewrite IH. rewrite seq_S, map_app. cbn [map Nat.add]. f_equal.
  - apply map_ext_in. intros i Hi. apply in_seq in Hi. f_equal. f_equal.
    rewrite Z.div_div by lia. f_equal. f_equal.
    replace (S l - 1 - i)%nat with (S (l - 1 - i)) by lia. rewrite Nat2Z.inj_succ, Z.pow_succ_r by lia. reflexivity.
  - replace (S l - 1 - l)%nat with 0%nat by lia. rewrite Z.pow_0_r, Z.div_1_r. reflexivity.
Qed.

Lemma be_fixed_32_spec z : be_fixed 32 z = spec_be32 z.
Proof. apply be_fixed_as_map. Qed.

Lemma addr_of_spec o H (H_len : forall x, length (H x) = 32%nat) Q :
  addr_of o H Q = spec_address H (xcoord o Q) (ycoord o Q).
Proof.
  unfold addr_of, spec_address, pubkey_bytes, lastn. rewrite H_len, !be_fixed_32_spec. reflexivity.
Qed.

(* signing never panics (the 65-byte compact signature is always unpacked within bounds) *)
Lemma SignDirect_total o nonce fuel d msg : SignDirect o nonce fuel d msg <> Panic.
Proof.
  unfold SignDirect, SignCompact.
  destruct (ecdsa_sign_loop o fuel (nonce d msg) 0 d (hash_to_z msg)) as [e|]; [|discriminate].
  cbn [bind index nth_error].
  set (code := 27 + (if es_ovf e then 2 else 0) + (if es_odd e then 1 else 0)).
  set (rb := be_fixed 32 (es_r e)). set (sb := be_fixed 32 (es_s e)).
  assert (Lr : length rb = 32%nat) by apply be_fixed_length.
  assert (Ls : length sb = 32%nat) by apply be_fixed_length.
  assert (S1 : slice (n2b (Z.to_N code) :: rb ++ sb) 1 33 = Ok rb).
  { unfold slice. cbn [length]. rewrite app_length, Lr, Ls. cbn [Nat.leb Nat.add andb].
    change (skipn 1 (n2b (Z.to_N code) :: rb ++ sb)) with (rb ++ sb).
    change (33 - 1)%nat with 32%nat. rewrite (firstn_app_len 32) by exact Lr. reflexivity. }
  assert (S2 : slice (n2b (Z.to_N code) :: rb ++ sb) 33 65 = Ok sb).
  { unfold slice. cbn [length]. rewrite app_length, Lr, Ls. cbn [Nat.leb Nat.add andb].
    change (skipn 33 (n2b (Z.to_N code) :: rb ++ sb)) with (skipn 32 (rb ++ sb)).
    change (65 - 33)%nat with 32%nat. rewrite (skipn_app_len 32) by exact Lr.
    rewrite (firstn_len 32) by exact Ls. reflexivity. }
  rewrite S1, S2. cbn [bind]. discriminate.
Qed.
