(* Round 3: the EIP-155 form of V presented with ANOTHER chain id.  getVNormalized subtracts 35 + 2*chainId
   and compares after byte(...) truncation, so V = 35 + 2c + p is accepted for chain c' exactly when
   c and c' are congruent modulo 128 (the region of known finding C05/v-truncated-to-byte), and is an
   error for every other chain id -- for all chain ids in the property's range [0, 2^53]. *)
From Coq Require Import ZArith List Bool Lia.
From Coq Require Import Init.Byte.
From FFS Require Import Base.Res Base.Bytes Crypto.Ecdsa Secp.Model Secp.Proofs.
Import ListNotations.
Local Open Scope Z_scope.

Lemma v_norm_eip155_other_chain p c c' :
  (p = 0 \/ p = 1) -> 0 <= c <= 2 ^ 53 -> 0 <= c' <= 2 ^ 53 ->
  v_norm (35 + 2 * c + p) c' = if (c - c') mod 128 =? 0 then Some (27 + p) else None.
Proof.
  intros Hp Hc Hc'. change (2 ^ 53) with 9007199254740992 in *.
  unfold v_norm.
  assert (E : is_int64 (35 + 2 * c + p) = true) by (apply is_int64_iff; unfold two63; lia).
  rewrite E. cbn [negb].
  destruct (Z.eqb_spec (35 + 2 * c + p) 0); [lia|]. destruct (Z.eqb_spec (35 + 2 * c + p) 27); [lia|].
  destruct (Z.eqb_spec (35 + 2 * c + p) 1); [lia|]. destruct (Z.eqb_spec (35 + 2 * c + p) 28); [lia|].
  cbn [orb]. cbv zeta.
  pose proof (Z.div_mod (c - c') 128 ltac:(lia)) as D.
  pose proof (Z.mod_pos_bound (c - c') 128 ltac:(lia)) as B.
  set (m := (c - c') mod 128) in *. set (q := (c - c') / 128) in *.
  replace (35 + 2 * c + p - 8 - 2 * c') with ((27 + p + 2 * m) + q * 256) by lia.
  rewrite Z.mod_add by lia.
  destruct (Z.eqb_spec m 0) as [Em|Nm].
  - rewrite Em. rewrite Z.mod_small by lia. destruct Hp as [ -> | -> ]; reflexivity.
  - destruct (Z_lt_dec (27 + p + 2 * m) 256) as [Lt|Ge].
    + rewrite Z.mod_small by lia.
      destruct (Z.eqb_spec (27 + p + 2 * m) 27); [lia|]. destruct (Z.eqb_spec (27 + p + 2 * m) 28); [lia|]. reflexivity.
    + replace (27 + p + 2 * m) with ((27 + p + 2 * m - 256) + 1 * 256) by lia.
      rewrite Z.mod_add by lia. rewrite Z.mod_small by lia.
      destruct (Z.eqb_spec (27 + p + 2 * m - 256) 27); [lia|]. destruct (Z.eqb_spec (27 + p + 2 * m - 256) 28); [lia|]. reflexivity.
Qed.

Theorem eip155_wrong_chain o H (HH : forall x, length (H x) = 32%nat) sg msg p c c' :
  (p = 0 \/ p = 1) -> 0 <= c <= 2 ^ 53 -> 0 <= c' <= 2 ^ 53 -> sV sg = 35 + 2 * c + p ->
  ((c - c') mod 128 <> 0 -> RecoverDirect o H sg msg c' = Err EInvalidV) /\
  ((c - c') mod 128 = 0 -> getVNormalized sg c' = Ok (27 + p)).
Proof.
  intros Hp Hc Hc' EV. pose proof (v_norm_eip155_other_chain p c c' Hp Hc Hc') as N. split; intros M.
  - rewrite RecoverDirect_spec by assumption. rewrite EV, N.
    destruct (Z.eqb_spec ((c - c') mod 128) 0); [contradiction|reflexivity].
  - rewrite getVNormalized_spec, EV, N. rewrite M. reflexivity.
Qed.
