(* Evaluator for the correspondence check of C05: runs the model of pkg/secp256k1 instantiated with
   the executable curve (Crypto/Secp256k1Exec.v) and the executable Keccak on the cases written by
   the Go harness, and reports where model and implementation differ (codes 1..9) or where the
   implementation's own output fails a property oracle (codes >= 10). *)
From Coq Require Import ZArith List Bool NArith.
From Coq Require Import Init.Byte.
From FFS Require Import Base.Res Base.Bytes Base.Lit Base.Keccak Crypto.Ecdsa Crypto.Secp256k1Exec Secp.Model Secp.Curve.
Import ListNotations.
Local Open Scope Z_scope.

(* The instance the model is evaluated on: the executable curve arithmetic over the carrier of ON-CURVE
   points (Secp/Curve.v) -- the object [Ecdsa.laws] is (trusted to be) true of.  Until the referee report
   (issue I3) this was Secp256k1Exec.secp256k1_ops, whose carrier contains off-curve pairs, so that
   [laws] is false of it.  The independent oracle of codes 12/13 (exec_recover / exec_pub / point_eqb)
   stays on the raw pairs. *)
Definition X := curve_ops.

(* the RFC 6979 nonce is an oracle: the harness obtains it from the library (decred NonceRFC6979,
   iteration 0) and the model is run with a stream that yields it once *)
Definition nonce_of (k : Z) : Z -> bytes -> nat -> Z := fun _ _ it => match it with O => k | _ => 0 end.

Definition mSignDirect (k : Z) := SignDirect X (nonce_of k) 1.
Definition mSign (k : Z) := Sign X keccak256 (nonce_of k) 1.
Definition mRecoverDirect := RecoverDirect X keccak256.
Definition mRecover := Recover X keccak256.
Definition mKeyPairFromBytes := KeyPairFromBytes X keccak256.

Definition res_bytes_matches (r : res bytes) (cls : nat) (out : bytes) : bool :=
  match r, cls with
  | Ok b, 0%nat => bytes_eqb b out
  | Err _, 1%nat => true
  | Panic, 2%nat => true
  | _, _ => false
  end.

Definition res_sig_matches (r : res sigdata) (cls : nat) (v r' s : Z) : bool :=
  match r, cls with
  | Ok sg, 0%nat => (sV sg =? v) && (sR sg =? r') && (sS sg =? s)
  | Err _, 1%nat => true
  | Panic, 2%nat => true
  | _, _ => false
  end.

Inductive case :=
(* KeyPairFromBytes(key): Address, PublicKeyBytes(), PrivateKeyBytes() *)
| CKey (key addr pubb privb : bdsl)
(* Sign (hashing = true) / SignDirect on key bytes and message; k = library nonce; implementation's class, V, R, S *)
| CSign (hashing : bool) (key msg : bdsl) (k : Z) (cls : nat) (v r s : Z)
(* Recover / RecoverDirect of (V,R,S) on msg with chain id: implementation's class and address.
   expect: 0 nothing, 1 = the result must be Ok signer, 2 = the result must not be Ok signer *)
| CRecover (hashing : bool) (v r s : Z) (msg : bdsl) (chain : Z) (cls : nat) (addr : bdsl) (expect : N) (signer : bdsl)
(* CompactRSV *)
| CCompact (v r s : Z) (cls : nat) (out : bdsl)
(* DecodeCompactRSV *)
| CDecode (input : bdsl) (cls : nat) (v r s : Z)
(* UpdateEIP155(chain) and UpdateEIP2930 applied (separately) to V *)
| CUpdate (v chain v155 v2930 : Z)
(* RecoverDirect for every V in [lo, hi]: the V that were accepted (result Ok) with an index into addrs;
   valid = the V values that are legitimate for this signature and chain (the three conventions);
   the property oracle: an accepted V outside valid must not return signer;
   oracle = true: evaluate only the property oracle (no curve arithmetic); false: only the correspondence *)
| CSweep (oracle : bool) (r s : Z) (msg : bdsl) (chain lo hi : Z) (accepted : list (Z * nat)) (addrs : list bdsl)
         (valid : list Z) (signer : bdsl)
(* x/crypto legacy Keccak-256 of msg, to validate Base.Keccak *)
| CHash (msg digest : bdsl).

Fixpoint sweep_model (fuel : nat) (v : Z) (r s : Z) (msg : bytes) (chain : Z) (o27 o28 : res bytes)
  : list (Z * bytes) :=
  match fuel with
  | O => []
  | S f =>
      let rest := sweep_model f (v + 1) r s msg chain o27 o28 in
      match getVNormalized {| sV := v; sR := r; sS := s |} chain with
      | Ok vB => match (if vB =? 27 then o27 else o28) with
                 | Ok a => (v, a) :: rest
                 | _ => rest
                 end
      | _ => rest
      end
  end.

Fixpoint sweep_need (fuel : nat) (v : Z) (r s : Z) (chain : Z) (acc : bool * bool) : bool * bool :=
  match fuel with
  | O => acc
  | S f =>
      sweep_need f (v + 1) r s chain
        match getVNormalized {| sV := v; sR := r; sS := s |} chain with
        | Ok vB => if vB =? 27 then (true, snd acc) else (fst acc, true)
        | _ => acc
        end
  end.

Fixpoint sweep_same (m : list (Z * bytes)) (i : list (Z * nat)) (addrs : list bytes) : bool :=
  match m, i with
  | [], [] => true
  | (v, a) :: m', (v', k) :: i' =>
      (v =? v') && match nth_error addrs k with Some a' => bytes_eqb a a' | None => false end && sweep_same m' i' addrs
  | _, _ => false
  end.

Definition in_range_key (d : Z) : bool := (1 <=? d) && (d <? secp_n).

Definition check_case (c : case) : N :=
  match c with
  | CKey key addr pubb privb =>
      let kb := bexpand key in
      let ia := bexpand addr in let ip := bexpand pubb in
      (* property oracle on the implementation alone: address = last 20 bytes of keccak256(pubkey X||Y) *)
      if negb (bytes_eqb ia (lastn 20 (keccak256 ip))) then 13%N else
      match mKeyPairFromBytes kb with
      | Ok kp =>
          if bytes_eqb (kp_addr X kp) ia
             && res_bytes_matches (PublicKeyBytes X kp) 0 ip
             && bytes_eqb (PrivateKeyBytes X kp) (bexpand privb)
          then 0%N else 3%N
      | _ => 3%N
      end
  | CSign hashing key msg k cls v r s =>
      let d := PrivKeyFromBytes X (bexpand key) in
      let m := bexpand msg in
      let digest := if hashing then keccak256 m else m in
      let z := hash_to_z digest in
      if negb (in_range_key d) then
        (* outside the property's quantifier: correspondence only *)
        (if res_sig_matches (if hashing then mSign k d m else mSignDirect k d m) cls v r s then 0 else 1)%N
      else if negb (cls =? 0)%nat then 10%N
      else if negb ((v =? 27) || (v =? 28)) then 10%N
      else if negb ((1 <=? r) && (r <? secp_n) && (1 <=? s) && (2 * s <=? secp_n)) then 11%N
      else match exec_recover z r s (v =? 28) with
           | Some Q => if negb (point_eqb Q (exec_pub d)) then 12%N
                       else if res_sig_matches (if hashing then mSign k d m else mSignDirect k d m) cls v r s
                            then 0%N else 1%N
           | None => 12%N
           end
  | CRecover hashing v r s msg chain cls addr expect signer =>
      let m := bexpand msg in let ia := bexpand addr in let sa := bexpand signer in
      let is_signer := (cls =? 0)%nat && bytes_eqb ia sa in
      if (expect =? 1)%N && negb is_signer then 20%N
      else if (expect =? 2)%N && is_signer then 21%N
      else if (cls =? 2)%nat then 23%N
      else
        let sg := {| sV := v; sR := r; sS := s |} in
        if res_bytes_matches (if hashing then mRecover sg m chain else mRecoverDirect sg m chain) cls ia
        then 0%N else 2%N
  | CCompact v r s cls out =>
      if res_bytes_matches (CompactRSV {| sV := v; sR := r; sS := s |}) cls (bexpand out) then 0%N else 4%N
  | CDecode input cls v r s =>
      if res_sig_matches (DecodeCompactRSV (bexpand input)) cls v r s then 0%N else 5%N
  | CUpdate v chain v155 v2930 =>
      let sg := {| sV := v; sR := 1; sS := 1 |} in
      if (sV (UpdateEIP155 sg chain) =? v155) && (sV (UpdateEIP2930 sg) =? v2930) then 0%N else 6%N
  | CSweep oracle r s msg chain lo hi accepted addrs valid signer =>
      let m := bexpand msg in let sa := bexpand signer in
      let al := map bexpand addrs in
      if oracle then
      (* property oracle on the implementation: an accepted V outside the valid set returns the signer *)
      if existsb (fun va => negb (existsb (Z.eqb (fst va)) valid) &&
                            match nth_error al (snd va) with Some a => bytes_eqb a sa | None => false end) accepted
      then 22%N
      else if negb (forallb (fun v => existsb (fun va => (fst va =? v) &&
                            match nth_error al (snd va) with Some a => bytes_eqb a sa | None => false end) accepted)
                            (filter (fun v => (lo <=? v) && (v <=? hi)) valid))
      then 20%N else 0%N
      else
        let sg := {| sV := 27; sR := r; sS := s |} in
        (* curve arithmetic only for the normalised V values the model accepts somewhere in the range *)
        let need := sweep_need (Z.to_nat (hi - lo + 1)) lo r s chain (false, false) in
        let o27 := if fst need then recover_tail X keccak256 27 sg m else Err 0%nat in
        let o28 := if snd need then recover_tail X keccak256 28 sg m else Err 0%nat in
        if sweep_same (sweep_model (Z.to_nat (hi - lo + 1)) lo r s m chain o27 o28) accepted al then 0%N else 2%N
  | CHash msg digest =>
      if bytes_eqb (keccak256 (bexpand msg)) (bexpand digest) then 0%N else 7%N
  end.

Fixpoint mismatches_go (i : N) (l : list case) : list (N * N) :=
  match l with
  | [] => []
  | c :: t => let r := check_case c in
              if (r =? 0)%N then mismatches_go (i + 1)%N t else (i, r) :: mismatches_go (i + 1)%N t
  end.
Definition mismatches (l : list case) : list (N * N) := firstn 20 (mismatches_go 0%N l).
