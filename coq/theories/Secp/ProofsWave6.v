(* Wave 6 (closing `partial` items of C05).  New proofs only; nothing existing is changed.
   1. an OVERFLOW signature (x(kG) >= n, V = 29/30) is never recovered to the signer's key, whatever
      parity is presented (abstract ECDSA), hence
   2. the recovery of a genuine signature under EVERY V and chain id, with NO guard on the signature's
      own V (the guard "sV sg = 27 \/ sV sg = 28" of the recovery theorems is gone);
   3. "a different message" with a hypothesis on the INPUTS only (two different 32-byte digests, the
      signed one in [2^256 - n, n)) instead of "not congruent mod n";
   4. the V guard of the tamper theorems is implied by their premise on the presented V. *)
From Coq Require Import ZArith List Bool Lia.
From Coq Require Import Init.Byte.
From FFS Require Import Base.Res Base.Bytes Crypto.Ecdsa Secp.Model Secp.Proofs Secp.ProofsReferee.
Import ListNotations.
Local Open Scope Z_scope.

(* ---- 1. abstract ECDSA ---- *)
Section Overflow.
  Variable o : group_ops.
  Hypothesis L : laws o.
  Notation n := (n o).
  Notation G := (G o).

  (* the nonce point K = k'G of an overflow signature has x(K) >= n, while recovery with code 0/1
     decompresses the point with x = r < n: a different point, hence (s being invertible) a different key *)
  Theorem recover_overflow_never_signer d z k sg odd :
    ecdsa_sign o d z k = Some sg -> es_ovf sg = true ->
    ecdsa_recover o z (es_r sg) (es_s sg) odd <> Some (pub o d).
  Proof.
    intros Hsg Hov HR.
    pose proof (n_gt_2 o L) as n_pos.
    destruct (sign_inv o L _ _ _ _ Hsg) as (Hk & Hr & Hrr & Hss & _ & Ho & k' & Hk' & _ & _ & Hx & Hsk).
    rewrite Hov in Ho. symmetry in Ho. apply Z.leb_le in Ho.
    pose proof HR as HR'. unfold ecdsa_recover in HR'.
    destruct (negb _); [discriminate|].
    destruct (lift_x o (es_r sg) odd) as [R|] eqn:Hl; [|discriminate]. clear HR'.
    destruct (generated o L R) as [k'' ->].
    rewrite (recover_eq o L z _ _ _ k'' Hrr Hss Hl) in HR. cbv zeta in HR.
    destruct (Z.eqb_spec ((inv_n o (es_r sg) * (es_s sg * k'' - z)) mod n) 0) as [|H0]; [discriminate|].
    apply (some_pub_inj o L _ _ H0) in HR.
    assert (A : cong n (es_r sg * (inv_n o (es_r sg) * (es_s sg * k'' - z))) (es_r sg * d)) by (rewrite HR; reflexivity).
    replace (es_r sg * (inv_n o (es_r sg) * (es_s sg * k'' - z)))
      with ((inv_n o (es_r sg) * es_r sg) * (es_s sg * k'' - z)) in A by ring.
    rewrite (inv_cong o L _ (small_nz o _ Hrr)) in A.
    assert (B : cong n (es_s sg * k'') (es_s sg * k')).
    { transitivity (1 * (es_s sg * k'' - z) + z); [apply (cong_iff o); f_equal; ring|]. rewrite A.
      transitivity (z + es_r sg * d); [apply (cong_iff o); f_equal; ring|]. symmetry. exact Hsk. }
    apply (cong_mul_cancel_l o L _ _ _ (small_nz o _ Hss)) in B.
    apply (smulG_cong o L) in B.
    apply (lift_x_spec o L) in Hl. destruct Hl as (_ & Hxr & _).
    rewrite B, Hx in Hxr. lia.
  Qed.
End Overflow.

(* every value v_norm returns is 27 or 28 *)
Lemma v_norm_range V c b : v_norm V c = Some b -> b = 27 \/ b = 28.
Proof.
  intros E. apply (getVNormalized_27_28 {| sV := V; sR := 0; sS := 0 |} c).
  rewrite getVNormalized_spec. cbn [sV]. rewrite E. reflexivity.
Qed.

Section Wave6.
  Variable o : group_ops.
  Hypothesis L : laws o.
  Hypothesis n_fits : n o < two256.
  Variable H : bytes -> bytes.
  Hypothesis H_len : forall x, length (H x) = 32%nat.
  Variable nonce : Z -> bytes -> nat -> Z.
  Variable fuel : nat.

  Notation n := (n o).
  Notation addr := (addr_of o H).

  (* ---- 2. a genuine signature under EVERY presented V and chain id; NO guard on sV sg ---- *)

  (* an overflow signature (V = 29/30) is never recovered to the signer's key by this package, whatever
     V and chain id it is presented with *)
  Theorem overflow_signature_never_signer d msg sg V c a :
    1 <= d < n -> SignDirect o nonce fuel d msg = Ok sg -> (sV sg = 29 \/ sV sg = 30) ->
    RecoverDirect o H (with_V sg V) msg c = Ok a -> other_key o H d a.
  Proof.
    intros Hd E HV ER.
    destruct (SignDirect_inv o L n_fits nonce fuel _ _ _ E) as (j & e & Hj & EV & ERr & ES).
    assert (Hov : es_ovf e = true).
    { rewrite EV in HV. unfold v_of_esig in HV. destruct (es_ovf e), (es_odd e); try reflexivity; lia. }
    apply (tamper_generic o L H H_len d (with_V sg V) msg c a Hd); [|exact ER].
    cbn [with_V sV sR sS]. intros odd. left. rewrite ERr, ES.
    exact (recover_overflow_never_signer o L d _ _ e odd Hj Hov).
  Qed.

  (* the exact trichotomy, for every genuine signature (V = 27..30), every integer V presented and every
     chain id: rejected / the signer's address / never the signer's key *)
  Theorem recover_genuine_any_V d msg sg V c :
    1 <= d < n -> SignDirect o nonce fuel d msg = Ok sg ->
    match v_norm V c with
    | None => RecoverDirect o H (with_V sg V) msg c = Err EInvalidV
    | Some b =>
        if b =? sV sg then RecoverDirect o H (with_V sg V) msg c = Ok (addr (pub o d))
        else forall a, RecoverDirect o H (with_V sg V) msg c = Ok a -> other_key o H d a
    end.
  Proof.
    intros Hd E.
    destruct (v_norm V c) as [b|] eqn:EN.
    2:{ rewrite RecoverDirect_spec by assumption. cbn [with_V sV]. rewrite EN. reflexivity. }
    pose proof (v_norm_range _ _ _ EN) as Hb.
    destruct (SignDirect_shape o L n_fits nonce fuel d msg sg E) as (HV4 & _).
    destruct (Z.eqb_spec b (sV sg)) as [->|Hne].
    - apply (recover_genuine o L n_fits H H_len nonce fuel); auto.
    - intros a ER. destruct HV4 as [HV|[HV|HV]].
      + apply (tamper_flip_parity o L n_fits H H_len nonce fuel d msg sg Hd E (or_introl HV) V c a); [|exact ER].
        rewrite EN. f_equal. lia.
      + apply (tamper_flip_parity o L n_fits H H_len nonce fuel d msg sg Hd E (or_intror HV) V c a); [|exact ER].
        rewrite EN. f_equal. lia.
      + exact (overflow_signature_never_signer d msg sg V c a Hd E HV ER).
  Qed.

  (* the three conventions without the guard: the signer's address when V is 27/28; otherwise (29/30,
     exactly when the point of the nonce used has x >= n) the EIP-155 form is rejected, the V as produced
     is rejected for every chain id not = 125 mod 128 (29 = 35 + 2*125 - 256: the aliasing finding), and
     whatever V is presented the signer's key is never recovered *)
  Theorem recover_conventions_unguarded d msg sg c c' :
    1 <= d < n -> 0 <= c <= 2 ^ 53 -> is_int64 c' = true ->
    SignDirect o nonce fuel d msg = Ok sg ->
    ((sV sg = 27 \/ sV sg = 28) /\
     RecoverDirect o H sg msg c' = Ok (addr (pub o d)) /\
     RecoverDirect o H (UpdateEIP2930 sg) msg c' = Ok (addr (pub o d)) /\
     RecoverDirect o H (UpdateEIP155 sg c) msg c = Ok (addr (pub o d))) \/
    ((sV sg = 29 \/ sV sg = 30) /\
     (exists j, (j < fuel)%nat /\ n <= xcoord o (smul o (nonce d msg j) (G o))) /\
     UpdateEIP2930 sg = sg /\
     (c' mod 128 <> 125 -> RecoverDirect o H sg msg c' = Err EInvalidV) /\
     RecoverDirect o H (UpdateEIP155 sg c) msg c = Err EInvalidV /\
     forall V c0 a, RecoverDirect o H (with_V sg V) msg c0 = Ok a -> other_key o H d a).
  Proof.
    intros Hd Hc Hc' E.
    destruct (SignDirect_shape o L n_fits nonce fuel d msg sg E) as (HV4 & _).
    assert (HV : (sV sg = 27 \/ sV sg = 28) \/ (sV sg = 29 \/ sV sg = 30)) by lia.
    destruct HV as [HV|HV]; [left|right].
    - split; [exact HV|].
      destruct (recover_all_conventions o L n_fits H H_len nonce fuel d msg sg c c' Hd Hc Hc' E HV) as (A & B & C & _). auto.
    - change (2 ^ 53) with 9007199254740992 in Hc.
      split; [exact HV|]. split.
      { destruct (SignDirect_V_exact o L n_fits nonce fuel d msg sg E) as (j & e & Hj & _ & _ & _ & Hiff).
        exists j. split; [exact Hj|].
        destruct (Z.lt_ge_cases (xcoord o (smul o (nonce d msg j) (G o))) n) as [A|A]; [|exact A].
        apply Hiff in A. lia. }
      split.
      { unfold UpdateEIP2930. rewrite big_int64_id by (destruct HV as [-> | ->]; reflexivity).
        destruct HV as [-> | ->]; reflexivity. }
      split; [|split].
      + intros Hc125. rewrite RecoverDirect_spec by assumption.
        replace (v_norm (sV sg) c') with (@None Z); [reflexivity|]. symmetry. unfold v_norm.
        assert (I : is_int64 (sV sg) = true) by (destruct HV as [-> | ->]; reflexivity).
        rewrite I. cbn [negb].
        destruct (Z.eqb_spec (sV sg) 0); [lia|]. destruct (Z.eqb_spec (sV sg) 27); [lia|].
        destruct (Z.eqb_spec (sV sg) 1); [lia|]. destruct (Z.eqb_spec (sV sg) 28); [lia|]. cbn [orb]. cbv zeta.
        pose proof (Z.div_mod (sV sg - 8 - 2 * c') 256 ltac:(lia)) as D.
        pose proof (Z.div_mod c' 128 ltac:(lia)) as D'.
        pose proof (Z.mod_pos_bound c' 128 ltac:(lia)) as B'.
        destruct (Z.eqb_spec ((sV sg - 8 - 2 * c') mod 256) 27) as [E27|_]; [exfalso; lia|].
        destruct (Z.eqb_spec ((sV sg - 8 - 2 * c') mod 256) 28) as [E28|_]; [exfalso; lia|]. reflexivity.
      + rewrite RecoverDirect_spec by assumption.
        replace (v_norm (sV (UpdateEIP155 sg c)) c) with (@None Z); [reflexivity|]. symmetry.
        unfold UpdateEIP155, v_norm. cbn [sV].
        assert (I : is_int64 (sV sg + c * 2 + (35 - 27)) = true) by (apply is_int64_iff; unfold two63; lia).
        rewrite I. cbn [negb].
        destruct (Z.eqb_spec (sV sg + c * 2 + (35 - 27)) 0); [lia|]. destruct (Z.eqb_spec (sV sg + c * 2 + (35 - 27)) 27); [lia|].
        destruct (Z.eqb_spec (sV sg + c * 2 + (35 - 27)) 1); [lia|]. destruct (Z.eqb_spec (sV sg + c * 2 + (35 - 27)) 28); [lia|].
        cbn [orb]. cbv zeta.
        replace (sV sg + c * 2 + (35 - 27) - 8 - 2 * c) with (sV sg) by lia.
        destruct HV as [-> | ->]; reflexivity.
      + intros V c0 a. exact (overflow_signature_never_signer d msg sg V c0 a Hd E HV).
  Qed.

  (* ---- 4. the V guard of the tamper theorems is implied by their premise on the presented V ---- *)
  Theorem tamper_unguarded d msg sg :
    1 <= d < n -> SignDirect o nonce fuel d msg = Ok sg ->
    (forall V c a, v_norm V c = Some (55 - sV sg) ->
       RecoverDirect o H (with_V sg V) msg c = Ok a -> other_key o H d a) /\
    (forall s' V c a, s' <> sS sg -> v_norm V c = Some (sV sg) ->
       RecoverDirect o H {| sV := V; sR := sR sg; sS := s' |} msg c = Ok a -> other_key o H d a) /\
    (forall msg' V c a, hash_to_z msg' mod n <> hash_to_z msg mod n -> v_norm V c = Some (sV sg) ->
       RecoverDirect o H (with_V sg V) msg' c = Ok a -> other_key o H d a) /\
    (forall msg' V c, hash_to_z msg' mod n = hash_to_z msg mod n -> v_norm V c = Some (sV sg) ->
       RecoverDirect o H (with_V sg V) msg' c = Ok (addr (pub o d))).
  Proof.
    intros Hd E. split; [|split; [|split]].
    - intros V c a HN. assert (HV : sV sg = 27 \/ sV sg = 28) by (apply v_norm_range in HN; lia).
      exact (tamper_flip_parity o L n_fits H H_len nonce fuel d msg sg Hd E HV V c a HN).
    - intros s' V c a Hs HN. pose proof (v_norm_range _ _ _ HN) as HV.
      exact (tamper_S o L n_fits H H_len nonce fuel d msg sg Hd E HV s' V c a Hs HN).
    - intros msg' V c a Hz HN. pose proof (v_norm_range _ _ _ HN) as HV.
      exact (tamper_message o L n_fits H H_len nonce fuel d msg sg Hd E HV msg' V c a Hz HN).
    - intros msg' V c Hz HN. pose proof (v_norm_range _ _ _ HN) as HV.
      exact (same_class_message_recovers o L n_fits H H_len nonce fuel d msg sg msg' V c Hd E HV Hz HN).
  Qed.

  (* ---- 3. "a different message", hypothesis on the inputs only ---- *)
  Lemma of_be_inj_len a b : length a = length b -> of_be a = of_be b -> a = b.
  Proof.
    intros Hl E. rewrite <- (be_fixed_of_be a), <- (be_fixed_of_be b), Hl, E. reflexivity.
  Qed.

  (* two different 32-byte digests are congruent mod n only if they differ by exactly n (n > 2^255), which
     needs the smaller one below 2^256 - n: for a signed digest in [2^256 - n, n) -- for secp256k1 all but a
     fraction 2^-127 of the digests -- EVERY other 32-byte digest yields another key or an error *)
  Theorem tamper_message_32 d msg sg msg' V c a :
    1 <= d < n -> two256 <= 2 * n -> SignDirect o nonce fuel d msg = Ok sg ->
    length msg = 32%nat -> length msg' = 32%nat -> msg' <> msg ->
    hash_to_z msg' <> hash_to_z msg + n -> hash_to_z msg <> hash_to_z msg' + n ->
    v_norm V c = Some (sV sg) ->
    RecoverDirect o H (with_V sg V) msg' c = Ok a -> other_key o H d a.
  Proof.
    intros Hd H2n E Hl Hl' Hne Hp Hm HN ER.
    pose proof (v_norm_range _ _ _ HN) as HV.
    apply (tamper_message o L n_fits H H_len nonce fuel d msg sg Hd E HV msg' V c a); [|exact HN|exact ER].
    unfold hash_to_z in *. rewrite (firstn_len 32 msg Hl), (firstn_len 32 msg' Hl') in *.
    pose proof (of_be_nonneg msg) as A0. pose proof (of_be_nonneg msg') as A0'.
    pose proof (of_be_bound msg) as A1. pose proof (of_be_bound msg') as A1'.
    rewrite Hl in A1. rewrite Hl' in A1'. rewrite <- two256_eq in A1, A1'.
    assert (Hz : of_be msg' <> of_be msg).
    { intros Eq. apply Hne. apply of_be_inj_len; [congruence|exact Eq]. }
    intros Eq.
    pose proof (Z.div_mod (of_be msg) n ltac:(lia)) as D. pose proof (Z.div_mod (of_be msg') n ltac:(lia)) as D'.
    pose proof (Z.mod_pos_bound (of_be msg) n ltac:(lia)) as B.
    rewrite Eq in D'.
    assert (Q : 0 <= of_be msg / n <= 1).
    { split; [apply Z.div_pos; lia|]. apply Z.lt_succ_r. apply Z.div_lt_upper_bound; lia. }
    assert (Q' : 0 <= of_be msg' / n <= 1).
    { split; [apply Z.div_pos; lia|]. apply Z.lt_succ_r. apply Z.div_lt_upper_bound; lia. }
    set (q := of_be msg / n) in *. set (q' := of_be msg' / n) in *.
    assert (C : q = 0 \/ q = 1) by lia. assert (C' : q' = 0 \/ q' = 1) by lia.
    destruct C as [C|C]; destruct C' as [C'|C']; rewrite C in D; rewrite C' in D'; lia.
  Qed.

  Corollary tamper_message_32_midrange d msg sg msg' V c a :
    1 <= d < n -> two256 <= 2 * n -> SignDirect o nonce fuel d msg = Ok sg ->
    length msg = 32%nat -> length msg' = 32%nat -> msg' <> msg ->
    two256 - n <= hash_to_z msg < n ->
    v_norm V c = Some (sV sg) ->
    RecoverDirect o H (with_V sg V) msg' c = Ok a -> other_key o H d a.
  Proof.
    intros Hd H2n E Hl Hl' Hne Hr HN ER.
    apply (tamper_message_32 d msg sg msg' V c a Hd H2n E Hl Hl' Hne); auto.
    - unfold hash_to_z in *. rewrite (firstn_len 32 msg' Hl') in *.
      pose proof (of_be_bound msg') as A1'. rewrite Hl' in A1'. rewrite <- two256_eq in A1'. lia.
    - unfold hash_to_z in *. rewrite (firstn_len 32 msg' Hl') in *.
      pose proof (of_be_nonneg msg') as A0'. lia.
  Qed.
End Wave6.

(* ---- pure arithmetic behind tamper_message_32 (no group): for 2^255 <= n < 2^256, two different 32-byte
   digests are congruent mod n exactly when they differ by n ---- *)
Lemma digest32_congruent_iff n msg msg' :
  0 < n -> n < two256 -> two256 <= 2 * n -> length msg = 32%nat -> length msg' = 32%nat -> msg' <> msg ->
  (hash_to_z msg' mod n = hash_to_z msg mod n <->
   (hash_to_z msg' = hash_to_z msg + n \/ hash_to_z msg = hash_to_z msg' + n)).
Proof.
  intros Hn0 Hn H2n Hl Hl' Hne.
  unfold hash_to_z. rewrite (firstn_len 32 msg Hl), (firstn_len 32 msg' Hl').
  pose proof (of_be_nonneg msg) as A0. pose proof (of_be_nonneg msg') as A0'.
  pose proof (of_be_bound msg) as A1. pose proof (of_be_bound msg') as A1'.
  rewrite Hl in A1. rewrite Hl' in A1'. rewrite <- two256_eq in A1, A1'.
  split.
  - intros Eq.
    assert (Hz : of_be msg' <> of_be msg).
    { intros E. apply Hne. rewrite <- (be_fixed_of_be msg), <- (be_fixed_of_be msg'), Hl, Hl', E. reflexivity. }
    pose proof (Z.div_mod (of_be msg) n ltac:(lia)) as D. pose proof (Z.div_mod (of_be msg') n ltac:(lia)) as D'.
    pose proof (Z.mod_pos_bound (of_be msg) n ltac:(lia)) as B.
    rewrite Eq in D'.
    assert (Q : 0 <= of_be msg / n <= 1).
    { split; [apply Z.div_pos; lia|]. apply Z.lt_succ_r. apply Z.div_lt_upper_bound; lia. }
    assert (Q' : 0 <= of_be msg' / n <= 1).
    { split; [apply Z.div_pos; lia|]. apply Z.lt_succ_r. apply Z.div_lt_upper_bound; lia. }
    set (q := of_be msg / n) in *. set (q' := of_be msg' / n) in *.
    assert (C : q = 0 \/ q = 1) by lia. assert (C' : q' = 0 \/ q' = 1) by lia.
    destruct C as [C|C]; destruct C' as [C'|C']; rewrite C in D; rewrite C' in D'; lia.
  - intros [E|E]; rewrite E.
    + replace (of_be msg + n) with (of_be msg + 1 * n) by ring. apply Z.mod_add. lia.
    + replace (of_be msg' + n) with (of_be msg' + 1 * n) by ring. symmetry. apply Z.mod_add. lia.
Qed.

(* ---- a law-satisfying group in which an overflow signature (V = 29/30) IS accepted by recovery under
   V = 27/28 and yields another key: Ecdsa.Toy with the x coordinate of the points {3, 10} moved from 3 to
   14 = 1 + n, so that r = 14 mod 13 = 1 is also the x coordinate of the points {1, 12}.  (In ToyOvf the
   reduced r is no x coordinate at all, and recovery fails.) ---- *)
Module ToyOvf2.
  Definition ox (P : Toy.tpt) : Z := Toy.tx P + (if Toy.tx P =? 3 then 11 else 0).
  Definition olift (x : Z) (b : bool) : option Toy.tpt :=
    if x =? 3 then None else if x =? 14 then Toy.tlift 3 b else Toy.tlift x b.

  Definition ops : group_ops := {|
    pt := Toy.tpt; zero := Toy.tzero; add := Toy.tadd; neg := Toy.tneg; smul := Toy.tsmul; G := Toy.tG; n := Toy.q;
    is_zero := Toy.tis_zero; xcoord := ox; ycoord := Toy.ty; lift_x := olift |}.

  Lemma tx_range P : 0 <= Toy.tx P <= 6.
  Proof. unfold Toy.tx. pose proof (Toy.val_range P) as R. unfold Toy.q in *. lia. Qed.

  Lemma o_lift x b P : olift x b = Some P <-> (P <> Toy.tzero /\ ox P = x /\ Z.odd (Toy.ty P) = b).
  Proof.
    unfold olift, ox. pose proof (tx_range P) as R.
    destruct (Z.eqb_spec x 3) as [->|N3].
    { split; [discriminate|]. intros (_ & E & _). destruct (Z.eqb_spec (Toy.tx P) 3); lia. }
    destruct (Z.eqb_spec x 14) as [->|N14].
    { rewrite Toy.l_lift. destruct (Z.eqb_spec (Toy.tx P) 3) as [E|E]; [rewrite E|]; intuition lia. }
    rewrite Toy.l_lift. destruct (Z.eqb_spec (Toy.tx P) 3) as [E|E]; intuition lia.
  Qed.

  Lemma o_xneg P : ox (Toy.tneg P) = ox P.
  Proof. unfold ox. rewrite Toy.l_xneg. reflexivity. Qed.

  Lemma o_range P : P <> Toy.tzero -> 0 <= ox P < 2 ^ 256 /\ 0 <= Toy.ty P < 2 ^ 256.
  Proof.
    intros NZ. destruct (Toy.l_range P NZ) as (_ & Hy). split; [|exact Hy].
    unfold ox. pose proof (tx_range P). assert (32 < 2 ^ 256) by reflexivity. destruct (Toy.tx P =? 3); lia.
  Qed.

  Theorem ovf2_laws : laws ops.
  Proof.
    constructor.
    - exact (n_prime _ Toy.toy_laws).
    - exact (n_gt_2 _ Toy.toy_laws).
    - exact (add_assoc _ Toy.toy_laws).
    - exact (add_comm _ Toy.toy_laws).
    - exact (add_zero_l _ Toy.toy_laws).
    - exact (add_neg_r _ Toy.toy_laws).
    - exact (smul_add _ Toy.toy_laws).
    - exact (smul_mul _ Toy.toy_laws).
    - exact (generated _ Toy.toy_laws).
    - exact (G_order _ Toy.toy_laws).
    - exact (is_zero_spec _ Toy.toy_laws).
    - exact o_lift.
    - exact o_xneg.
    - exact (parity_neg _ Toy.toy_laws).
    - exact o_range.
  Qed.
End ToyOvf2.
