(* Referee issue I3.  [Ecdsa.laws] cannot hold of Secp256k1Exec.secp256k1_ops: its carrier is ALL pairs
   option (Z*Z), and an off-curve pair such as Some (0,0) is no multiple of G ([generated]), is not what
   [lift_x] returns for its x ([lift_x_spec], right to left) and may have coordinates >= 2^256
   ([coord_range]).  The C05 theorems (forall o, laws o -> ...) therefore never applied to the instance the
   correspondence run evaluated.

   This file packages the SAME executable arithmetic over the carrier it is a group on,
       cpoint = { P : option (Z*Z) | on_curve P = true }
   (infinity, or 0 <= x,y < p with y^2 = x^3 + 7 mod p).  Every operation computes with
   Secp256k1Exec's functions on the underlying pairs and re-validates its result ([mk]: a result that is
   not on the curve would be replaced by infinity; by the closure of the curve under the group law this
   never happens, and then [raw (mk P) = P], lemma raw_mk).  [laws curve_ops] is the textbook statement
   "E(F_p): y^2 = x^3 + 7 with generator G is a cyclic group of prime order n, a non-infinite point is
   determined by x and the oddness of y, (x, y) and (x, p - y) are inverse" about THIS object; it is the
   trusted fact of props/C05.json, and Secp/Run.v evaluates the model on THIS instance.

   Proved here (so they are not part of the trusted statement): n > 2, is_zero_spec, coord_range,
   add_zero_l, and that equality of cpoints is equality of the underlying pairs.  Checked by vm_compute:
   G is on the curve, n G = infinity, the key-1 address, a sign / recover / verify round trip through the
   generic Ecdsa definitions at this instance.  Not proved: primality of n, associativity and the other
   group laws, [generated], [lift_x_spec], [parity_neg] (needs: no curve point has y = 0). *)
From Coq Require Import ZArith List Bool Lia Eqdep_dec.
From Coq Require Import Init.Byte.
From FFS Require Import Base.Bytes Base.Keccak Crypto.Ecdsa Crypto.Secp256k1Exec.
Import ListNotations.
Local Open Scope Z_scope.

Definition cpoint : Type := { P : point | on_curve P = true }.
Definition raw (P : cpoint) : point := proj1_sig P.
Definition cp_zero : cpoint := exist _ None eq_refl.

(* validate a computed pair; Bool.bool_dec is transparent, so this evaluates *)
Definition mk (P : point) : cpoint :=
  match Bool.bool_dec (on_curve P) true with
  | left e => exist _ P e
  | right _ => cp_zero
  end.

Definition curve_ops : group_ops := {|
  pt := cpoint;
  zero := cp_zero;
  add := fun P Q => mk (pt_add (raw P) (raw Q));
  neg := fun P => mk (pt_neg (raw P));
  smul := fun k P => mk (pt_smul k (raw P));
  G := mk secp_G;
  n := secp_n;
  is_zero := fun P => pt_is_zero (raw P);
  xcoord := fun P => pt_x (raw P);
  ycoord := fun P => pt_y (raw P);
  lift_x := fun x odd =>
    match pt_lift_x x odd with
    | Some P => if on_curve P then Some (mk P) else None
    | None => None
    end
|}.

Lemma raw_mk P : on_curve P = true -> raw (mk P) = P.
Proof. intros E. unfold mk. destruct (Bool.bool_dec (on_curve P) true); [reflexivity|contradiction]. Qed.

Lemma raw_on_curve (P : cpoint) : on_curve (raw P) = true.
Proof. exact (proj2_sig P). Qed.

Lemma cpoint_eq (P Q : cpoint) : raw P = raw Q -> P = Q.
Proof.
  destruct P as [p hp], Q as [q hq]. cbn [raw proj1_sig]. intros <-. f_equal.
  apply (UIP_dec Bool.bool_dec).
Qed.

Lemma mk_raw (P : cpoint) : mk (raw P) = P.
Proof. apply cpoint_eq. apply raw_mk. apply raw_on_curve. Qed.

(* the operations of curve_ops are those of secp256k1_ops on the underlying pairs whenever the raw result
   is on the curve (always, by closure -- not proved) *)
Lemma raw_add P Q : on_curve (pt_add (raw P) (raw Q)) = true ->
  raw (add curve_ops P Q) = add secp256k1_ops (raw P) (raw Q).
Proof. apply raw_mk. Qed.
Lemma raw_smul k P : on_curve (pt_smul k (raw P)) = true ->
  raw (smul curve_ops k P) = smul secp256k1_ops k (raw P).
Proof. apply raw_mk. Qed.
Lemma raw_G : raw (G curve_ops) = G secp256k1_ops.
Proof. apply raw_mk. exact G_on_curve. Qed.

(* ---- the part of [laws curve_ops] that is proved ---- *)
Lemma curve_n_gt_2 : 2 < n curve_ops.
Proof. reflexivity. Qed.

Lemma curve_is_zero_spec P : is_zero curve_ops P = true <-> P = zero curve_ops.
Proof.
  cbn [is_zero zero curve_ops]. split.
  - intros E. apply cpoint_eq. cbn [raw cp_zero proj1_sig]. destruct (raw P); [discriminate|reflexivity].
  - intros ->. reflexivity.
Qed.

Lemma curve_coord_range P : P <> zero curve_ops ->
  0 <= xcoord curve_ops P < 2 ^ 256 /\ 0 <= ycoord curve_ops P < 2 ^ 256.
Proof.
  intros NZ. cbn [xcoord ycoord curve_ops]. pose proof (raw_on_curve P) as OC.
  destruct (raw P) as [[x y]|] eqn:E.
  - cbn [pt_x pt_y]. unfold on_curve in OC. rewrite !andb_true_iff, !Z.leb_le, !Z.ltb_lt in OC.
    assert (secp_p < 2 ^ 256) by reflexivity. lia.
  - exfalso. apply NZ. apply cpoint_eq. exact E.
Qed.

Lemma curve_add_zero_l P : add curve_ops (zero curve_ops) P = P.
Proof. cbn [add zero curve_ops raw cp_zero proj1_sig pt_add]. apply mk_raw. Qed.

(* ---- sanity checks on this instance (vm_compute) ---- *)
Example curve_G_is_G : raw (G curve_ops) = secp_G.
Proof. vm_compute. reflexivity. Qed.

Example curve_nG_is_zero : is_zero curve_ops (smul curve_ops secp_n (G curve_ops)) = true.
Proof. vm_compute. reflexivity. Qed.

Example curve_address_of_key_1 :
  bytes_eqb (exec_address (raw (pub curve_ops 1)))
            [x7e;x5f;x45;x52;x09;x1a;x69;x12;x5d;x5d;xfc;xb7;xb8;xc2;x65;x90;x29;x39;x5b;xdf] = true.
Proof. vm_compute. reflexivity. Qed.

(* the generic ECDSA definitions at this instance agree with the raw instance on a round trip *)
Example curve_sign_recover_roundtrip :
  let d := 0xC0FFEE in let z := 0x1234567890ABCDEF in let k := 0xDEADBEEF12345 in
  match ecdsa_sign curve_ops d z k, exec_sign d z k with
  | Some sg, Some sg' =>
      (es_r sg =? es_r sg') && (es_s sg =? es_s sg') && Bool.eqb (es_odd sg) (es_odd sg') && negb (es_ovf sg) &&
      match ecdsa_recover curve_ops z (es_r sg) (es_s sg) (es_odd sg) with
      | Some Q => point_eqb (raw Q) (exec_pub d) && ecdsa_verify curve_ops Q z (es_r sg) (es_s sg)
      | None => false
      end
  | _, _ => false
  end = true.
Proof. vm_compute. reflexivity. Qed.
