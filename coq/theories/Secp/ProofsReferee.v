(* C05 -- answers to the referee report (design/reviews/C05.md): statements that were missing or weaker
   than what the proofs already gave.
     I2  signing succeeds (SignDirect_succeeds), when exactly one attempt succeeds (sign_attempt_iff), the
         only error of the model is the model-only EOutOfFuel and it means that no nonce within the fuel
         was usable (SignDirect_err_only_fuel), the signature is the one of the FIRST usable nonce
         (SignDirect_first_nonce);
     I7  V in {27,28} stated on the nonce actually used / on the nonces below the fuel
         (SignDirect_V_exact, SignDirect_V_27_28_bounded);
     I6  the compact codec for every V (compact_any_V, compact_int64_V), and what happens to the EIP-155
         form of V through the 65-byte form (compact_eip155_recovers, compact_eip155_wrong_parity);
     cl.6 two digests congruent mod n recover the signer (same_class_message_recovers): the exact
         complement of C05_tamper_message;
     I4  altered R, stated about a genuine signature (tamper_R_second_signature). *)
From Coq Require Import ZArith List Bool Lia.
From Coq Require Import Init.Byte.
From FFS Require Import Base.Res Base.Bytes Crypto.Ecdsa Secp.Model Secp.Spec Secp.Proofs.
Import ListNotations.
Local Open Scope Z_scope.

(* ---- one signing attempt: exactly when it succeeds (no group law needed) ---- *)
Lemma sign_attempt_iff o d z k :
  ecdsa_sign o d z k <> None <->
  (k mod n o <> 0 /\
   xcoord o (smul o k (G o)) mod n o <> 0 /\
   (inv_n o k * (z + xcoord o (smul o k (G o)) mod n o * d)) mod n o <> 0).
Proof.
  unfold ecdsa_sign.
  destruct (Z.eqb_spec (k mod n o) 0) as [A|A].
  { split; [intros X; exfalso; apply X; reflexivity|intros (X & _); contradiction]. }
  cbv zeta.
  destruct (Z.eqb_spec (xcoord o (smul o k (G o)) mod n o) 0) as [B|B].
  { split; [intros X; exfalso; apply X; reflexivity|intros (_ & X & _); contradiction]. }
  destruct (Z.eqb_spec ((inv_n o k * (z + xcoord o (smul o k (G o)) mod n o * d)) mod n o) 0) as [C|C].
  { split; [intros X; exfalso; apply X; reflexivity|intros (_ & _ & X); contradiction]. }
  destruct (_ <? _); (split; [intros _; auto|discriminate]).
Qed.

(* ---- the retry loop: the result is the attempt of the FIRST usable nonce below the fuel ---- *)
Lemma sign_loop_first o fuel : forall nn it d z e,
  ecdsa_sign_loop o fuel nn it d z = Some e ->
  exists j, (it <= j < it + fuel)%nat /\ ecdsa_sign o d z (nn j) = Some e /\
            forall i, (it <= i < j)%nat -> ecdsa_sign o d z (nn i) = None.
Proof.
  induction fuel as [|f IH]; intros nn it d z e E; [discriminate|]. cbn [ecdsa_sign_loop] in E.
  destruct (ecdsa_sign o d z (nn it)) as [e0|] eqn:A.
  - injection E as <-. exists it. split; [lia|]. split; [exact A|]. intros i Hi. lia.
  - destruct (IH _ _ _ _ _ E) as (j & Hj & Ej & Hfirst). exists j. split; [lia|]. split; [exact Ej|].
    intros i Hi. destruct (Nat.eq_dec i it) as [->|Ne]; [exact A|]. apply Hfirst. lia.
Qed.

Lemma sign_loop_none o fuel : forall nn it d z,
  ecdsa_sign_loop o fuel nn it d z = None <->
  forall j, (it <= j < it + fuel)%nat -> ecdsa_sign o d z (nn j) = None.
Proof.
  induction fuel as [|f IH]; intros nn it d z; cbn [ecdsa_sign_loop].
  - split; [intros _ j Hj; lia|reflexivity].
  - destruct (ecdsa_sign o d z (nn it)) as [e0|] eqn:A.
    + split; [discriminate|]. intros Hall. rewrite (Hall it) in A by lia. discriminate.
    + rewrite IH. split; intros Hall j Hj.
      * destruct (Nat.eq_dec j it) as [->|Ne]; [exact A|]. apply Hall. lia.
      * apply Hall. lia.
Qed.

(* ecdsa_recover reads the digest modulo n only *)
Lemma recover_z_mod o z r s odd : n o <> 0 -> ecdsa_recover o z r s odd = ecdsa_recover o (z mod n o) r s odd.
Proof.
  intros Hn. unfold ecdsa_recover. destruct (negb _); [reflexivity|]. destruct (lift_x o r odd); [|reflexivity].
  cbv zeta.
  replace ((- (z mod n o * inv_n o r)) mod n o) with ((- (z * inv_n o r)) mod n o); [reflexivity|].
  replace (- (z * inv_n o r)) with ((- inv_n o r) * z) by ring.
  replace (- (z mod n o * inv_n o r)) with ((- inv_n o r) * (z mod n o)) by ring.
  symmetry. apply Z.mul_mod_idemp_r. exact Hn.
Qed.

Section Referee.
  Variable o : group_ops.
  Hypothesis L : laws o.
  Hypothesis n_fits : n o < two256.
  Variable H : bytes -> bytes.
  Hypothesis H_len : forall x, length (H x) = 32%nat.
  Variable nonce : Z -> bytes -> nat -> Z.
  Variable fuel : nat.

  Notation n := (n o).
  Notation addr := (addr_of o H).
  Notation attempt d msg j := (ecdsa_sign o d (hash_to_z msg) (nonce d msg j)).

  Definition sig_of_esig (e : esig) : sigdata := {| sV := v_of_esig e; sR := es_r e; sS := es_s e |}.

  (* SignDirect = the retry loop, then packing into 65 bytes and unpacking again (which is the identity) *)
  Lemma SignDirect_unpack d msg :
    SignDirect o nonce fuel d msg =
      match ecdsa_sign_loop o fuel (nonce d msg) 0 d (hash_to_z msg) with
      | None => Err EOutOfFuel
      | Some e => Ok (sig_of_esig e)
      end.
  Proof.
    unfold SignDirect, SignCompact.
    destruct (ecdsa_sign_loop o fuel (nonce d msg) 0 d (hash_to_z msg)) as [e|] eqn:E; [|reflexivity].
    destruct (sign_loop_some o _ _ _ _ _ _ E) as [j Hj]. cbn [bind index nth_error].
    destruct (sign_shape o L _ _ _ _ Hj) as (Hr & Hs & _).
    set (code := 27 + (if es_ovf e then 2 else 0) + (if es_odd e then 1 else 0)).
    set (rb := be_fixed 32 (es_r e)). set (sb := be_fixed 32 (es_s e)).
    assert (Lr : length rb = 32%nat) by apply be_fixed_length.
    assert (Ls : length sb = 32%nat) by apply be_fixed_length.
    assert (S1 : slice (n2b (Z.to_N code) :: rb ++ sb) 1 33 = Ok rb).
    { unfold slice. cbn [length]. rewrite app_length, Lr, Ls. cbn [Nat.leb Nat.add andb].
      change (skipn 1 (n2b (Z.to_N code) :: rb ++ sb)) with (rb ++ sb).
      change (33 - 1)%nat with 32%nat. rewrite (firstn_app_len 32) by exact Lr. reflexivity. }
    assert (S2 : slice (n2b (Z.to_N code) :: rb ++ sb) 33 65 = Ok sb).
    { unfold slice. cbn [length]. rewrite app_length, Lr, Ls. cbn [Nat.leb Nat.add andb].
      change (skipn 33 (n2b (Z.to_N code) :: rb ++ sb)) with (skipn 32 (rb ++ sb)).
      change (65 - 33)%nat with 32%nat. rewrite (skipn_app_len 32) by exact Lr.
      rewrite (firstn_len 32) by exact Ls. reflexivity. }
    rewrite S1, S2. cbn [bind]. unfold sig_of_esig. f_equal. unfold rb, sb.
    rewrite !of_be_be_fixed by (rewrite <- two256_eq; lia). f_equal.
    unfold v_of_esig, code. destruct (es_ovf e), (es_odd e); reflexivity.
  Qed.

  (* I2: "signing yields": a usable nonce below the fuel is enough *)
  Theorem SignDirect_succeeds d msg :
    (exists j, (j < fuel)%nat /\ attempt d msg j <> None) ->
    exists sg, SignDirect o nonce fuel d msg = Ok sg.
  Proof.
    intros (j & Hj & Hs). rewrite SignDirect_unpack.
    destruct (ecdsa_sign_loop o fuel (nonce d msg) 0 d (hash_to_z msg)) as [e|] eqn:E; [eexists; reflexivity|].
    exfalso. apply Hs. exact (proj1 (sign_loop_none o fuel _ 0%nat d _) E j ltac:(lia)).
  Qed.

  (* ... and the signature is the attempt of the first usable nonce *)
  Theorem SignDirect_first_nonce d msg sg :
    SignDirect o nonce fuel d msg = Ok sg ->
    exists j e, (j < fuel)%nat /\ attempt d msg j = Some e /\
                (forall i, (i < j)%nat -> attempt d msg i = None) /\ sg = sig_of_esig e.
  Proof.
    rewrite SignDirect_unpack.
    destruct (ecdsa_sign_loop o fuel (nonce d msg) 0 d (hash_to_z msg)) as [e|] eqn:E; [|discriminate].
    intros X. injection X as <-. destruct (sign_loop_first o _ _ _ _ _ _ E) as (j & Hj & Ej & Hf).
    exists j, e. split; [lia|]. split; [exact Ej|]. split; [|reflexivity]. intros i Hi. apply Hf. lia.
  Qed.

  (* the only error of the model's signing is the model-only one, and it is returned exactly when no
     nonce below the fuel is usable (the Go code would keep looping) *)
  Theorem SignDirect_err_only_fuel d msg e :
    SignDirect o nonce fuel d msg = Err e <->
    (e = EOutOfFuel /\ forall j, (j < fuel)%nat -> attempt d msg j = None).
  Proof.
    rewrite SignDirect_unpack.
    destruct (ecdsa_sign_loop o fuel (nonce d msg) 0 d (hash_to_z msg)) as [e0|] eqn:E.
    - split; [discriminate|]. intros (_ & Hall). destruct (sign_loop_first o _ _ _ _ _ _ E) as (j & Hj & Ej & _).
      rewrite Hall in Ej by lia. discriminate.
    - split.
      + intros X. injection X as <-. split; [reflexivity|]. intros j Hj.
        exact (proj1 (sign_loop_none o fuel _ 0%nat d _) E j ltac:(lia)).
      + intros (-> & _). reflexivity.
  Qed.

  (* I7: V exactly, on the nonce actually used *)
  Theorem SignDirect_V_exact d msg sg :
    SignDirect o nonce fuel d msg = Ok sg ->
    exists j e, (j < fuel)%nat /\ attempt d msg j = Some e /\
      (forall i, (i < j)%nat -> attempt d msg i = None) /\
      sV sg = 27 + (if n <=? xcoord o (smul o (nonce d msg j) (G o)) then 2 else 0) + (if es_odd e then 1 else 0) /\
      ((sV sg = 27 \/ sV sg = 28) <-> xcoord o (smul o (nonce d msg j) (G o)) < n).
  Proof.
    intros E. destruct (SignDirect_first_nonce _ _ _ E) as (j & e & Hj & Ej & Hf & ->).
    exists j, e. split; [exact Hj|]. split; [exact Ej|]. split; [exact Hf|].
    destruct (sign_inv o L _ _ _ _ Ej) as (_ & _ & _ & _ & _ & Ho & _).
    cbn [sig_of_esig sV]. unfold v_of_esig. rewrite Ho.
    split; [reflexivity|].
    destruct (Z.leb_spec n (xcoord o (smul o (nonce d msg j) (G o)))); destruct (es_odd e); lia.
  Qed.

  Theorem SignDirect_V_27_28_bounded d msg sg :
    (forall j, (j < fuel)%nat -> xcoord o (smul o (nonce d msg j) (G o)) < n) ->
    SignDirect o nonce fuel d msg = Ok sg -> sV sg = 27 \/ sV sg = 28.
  Proof.
    intros NO E. destruct (SignDirect_V_exact _ _ _ E) as (j & e & Hj & _ & _ & _ & Hiff).
    apply Hiff. apply NO. exact Hj.
  Qed.

  (* ---- clause 6, the complement: a digest in the same class mod n is the same ECDSA message ---- *)
  Theorem same_class_message_recovers d msg sg msg' V c :
    1 <= d < n -> SignDirect o nonce fuel d msg = Ok sg -> (sV sg = 27 \/ sV sg = 28) ->
    hash_to_z msg' mod n = hash_to_z msg mod n -> v_norm V c = Some (sV sg) ->
    RecoverDirect o H (with_V sg V) msg' c = Ok (addr (pub o d)).
  Proof.
    intros Hd E HV Hz HN.
    rewrite <- (recover_genuine o L n_fits H H_len nonce fuel d msg sg V c Hd E HV HN).
    rewrite !RecoverDirect_spec by assumption.
    destruct (v_norm (sV (with_V sg V)) c); [|reflexivity].
    destruct (_ || _); [reflexivity|].
    assert (Hn : n <> 0) by (pose proof (n_gt_2 o L); lia).
    rewrite (recover_z_mod o (hash_to_z msg')) by exact Hn. rewrite Hz.
    rewrite <- (recover_z_mod o (hash_to_z msg)) by exact Hn. reflexivity.
  Qed.

  (* ---- I4: R altered, stated about a genuine signature: either another key, or TWO valid signatures
     of the same digest under the signer's key with the same S and different R are exhibited ---- *)
  Theorem tamper_R_second_signature d msg sg r' V c a :
    1 <= d < n -> SignDirect o nonce fuel d msg = Ok sg -> r' <> sR sg ->
    RecoverDirect o H {| sV := V; sR := r'; sS := sS sg |} msg c = Ok a ->
    other_key o H d a \/
    (1 <= r' < n /\ r' <> sR sg /\
     ecdsa_verify o (pub o d) (hash_to_z msg) r' (sS sg) = true /\
     ecdsa_verify o (pub o d) (hash_to_z msg) (sR sg) (sS sg) = true).
  Proof.
    intros Hd Hsg Hr E.
    destruct (SignDirect_shape o L n_fits nonce fuel d msg sg Hsg) as (_ & _ & _ & _ & Hver).
    destruct (RecoverDirect_ok o L H H_len _ _ _ _ E) as (vB & Q & _ & _ & ER & HQ & ->). cbn [sV sR sS] in ER.
    destruct (generated o L Q) as [q ->]. destruct (Z.eq_dec (q mod n) (d mod n)) as [Eq|Nq].
    - right. apply (smulG_eq o L) in Eq. rewrite Eq in ER.
      assert (Hrr : 1 <= r' < n).
      { unfold ecdsa_recover in ER. destruct ((1 <=? r') && (r' <? n) && (1 <=? sS sg) && (sS sg <? n)) eqn:B; [|discriminate].
        rewrite !andb_true_iff, !Z.leb_le, !Z.ltb_lt in B. lia. }
      split; [exact Hrr|]. split; [exact Hr|]. split; [|exact Hver].
      exact (recover_sound o L _ _ _ _ _ ER).
    - left. apply (other_key_intro o L H); auto. intros Eq. apply Nq. apply (smulG_eq o L). exact Eq.
  Qed.

  (* ---- I6: the compact codec for every V ---- *)
  Theorem compact_any_V sg :
    0 <= sR sg < two256 -> 0 <= sS sg < two256 ->
    exists b, CompactRSV sg = Ok b /\ length b = 65%nat /\
      DecodeCompactRSV b = Ok (with_V sg (to_byte (big_int64 (sV sg)))) /\
      b = be_fixed 32 (sR sg) ++ be_fixed 32 (sS sg) ++ be_fixed 1 (to_byte (big_int64 (sV sg))).
  Proof.
    intros Hr Hs. set (v := to_byte (big_int64 (sV sg))).
    assert (Hv : 0 <= v < 256) by (unfold v, to_byte; apply Z.mod_pos_bound; reflexivity).
    assert (E : CompactRSV sg = CompactRSV (with_V sg v)).
    { unfold CompactRSV. cbn [with_V sV sR sS]. fold v.
      rewrite (big_int64_id v) by (apply is_int64_iff; unfold two63; lia).
      unfold to_byte. rewrite (Z.mod_small v) by exact Hv. reflexivity. }
    rewrite E. exact (compact_roundtrip (with_V sg v) Hr Hs Hv).
  Qed.

  Corollary compact_int64_V sg :
    0 <= sR sg < two256 -> 0 <= sS sg < two256 -> is_int64 (sV sg) = true ->
    exists b, CompactRSV sg = Ok b /\ DecodeCompactRSV b = Ok (with_V sg (sV sg mod 256)).
  Proof.
    intros Hr Hs Hv. destruct (compact_any_V sg Hr Hs) as (b & A & _ & B & _).
    exists b. split; [exact A|]. rewrite B. rewrite (big_int64_id _ Hv). reflexivity.
  Qed.

  (* the 65-byte form does NOT round-trip a V >= 256 (it has one byte for V) *)
  Corollary compact_loses_high_V sg b sg' :
    CompactRSV sg = Ok b -> DecodeCompactRSV b = Ok sg' -> 256 <= sV sg -> sg' <> sg.
  Proof.
    intros A B Hv Eq. subst sg'.
    assert (Hl : length b = 65%nat).
    { destruct (Nat.eq_dec (length b) 65) as [e|ne]; [exact e|]. rewrite (decode_compact_length b ne) in B. discriminate. }
    destruct (decode_compact_total b Hl) as (sg2 & B2 & _ & _ & Hv2 & _). rewrite B in B2. injection B2 as <-. lia.
  Qed.

  (* The EIP-155 form through the 65-byte form.  V = 35 + 2c + p is >= 256 from chain id 111 on; the byte
     that survives is V mod 256.  Recovery with the same chain id still returns the signer (this is the
     aliasing of known finding C05/v-truncated-to-byte, and what the package's TestGeneratedKeyRoundTrip
     relies on) EXCEPT when that byte is 0 or 1 ... *)
  Theorem compact_eip155_recovers d msg sg c :
    1 <= d < n -> 0 <= c <= 2 ^ 53 -> SignDirect o nonce fuel d msg = Ok sg -> (sV sg = 27 \/ sV sg = 28) ->
    let V := 35 + 2 * c + (sV sg - 27) in
    V mod 256 <> 0 -> V mod 256 <> 1 ->
    exists b, CompactRSV (UpdateEIP155 sg c) = Ok b /\
              DecodeCompactRSV b = Ok (with_V sg (V mod 256)) /\
              RecoverDirect o H (with_V sg (V mod 256)) msg c = Ok (addr (pub o d)).
  Proof.
    intros Hd Hc E HV V N0 N1. change (2 ^ 53) with 9007199254740992 in Hc.
    destruct (SignDirect_shape o L n_fits nonce fuel d msg sg E) as (_ & HR & HS & _ & _).
    assert (U1 : UpdateEIP155 sg c = with_V sg V) by (unfold UpdateEIP155, with_V, V; f_equal; lia).
    assert (I : is_int64 V = true) by (apply is_int64_iff; unfold two63, V; lia).
    destruct (compact_int64_V (with_V sg V)) as (b & A & B); cbn [with_V sV sR sS]; try lia; try exact I.
    exists b. rewrite U1. split; [exact A|]. split; [exact B|].
    apply (recover_genuine o L n_fits H H_len nonce fuel); auto.
    pose proof (Z.mod_pos_bound V 256 eq_refl) as Hm.
    pose proof (Z.div_mod V 256 ltac:(discriminate)) as D.
    unfold v_norm. rewrite (proj2 (is_int64_iff (V mod 256))) by (unfold two63; lia). cbn [negb].
    apply Z.eqb_neq in N0, N1. rewrite N0, N1.
    destruct (Z.eqb_spec (V mod 256) 27) as [E27|N27].
    { cbn [orb]. f_equal. unfold V in D, E27. destruct HV as [HV|HV]; rewrite HV in *; lia. }
    destruct (Z.eqb_spec (V mod 256) 28) as [E28|N28].
    { cbn [orb]. f_equal. unfold V in D, E28. destruct HV as [HV|HV]; rewrite HV in *; lia. }
    cbn [orb]. cbv zeta.
    replace (V mod 256 - 8 - 2 * c) with (V mod 256 - (8 + 2 * c)) by ring.
    rewrite Zminus_mod_idemp_l.
    replace (V - (8 + 2 * c)) with (sV sg) by (unfold V; lia).
    destruct HV as [-> | ->]; reflexivity.
  Qed.

  (* ... when the surviving byte is 0 or 1 (chain ids c = 110 mod 128 with odd parity: byte 0; c = 111
     mod 128 with even parity: byte 1) it is read as the yParity convention with the OPPOSITE parity, so
     the decoded signature never recovers the signer's key. *)
  Theorem compact_eip155_wrong_parity d msg sg c a :
    1 <= d < n -> 0 <= c <= 2 ^ 53 -> SignDirect o nonce fuel d msg = Ok sg -> (sV sg = 27 \/ sV sg = 28) ->
    let V := 35 + 2 * c + (sV sg - 27) in
    (V mod 256 = 0 \/ V mod 256 = 1) ->
    exists b, CompactRSV (UpdateEIP155 sg c) = Ok b /\
              DecodeCompactRSV b = Ok (with_V sg (V mod 256)) /\
              (RecoverDirect o H (with_V sg (V mod 256)) msg c = Ok a -> other_key o H d a).
  Proof.
    intros Hd Hc E HV V HB. change (2 ^ 53) with 9007199254740992 in Hc.
    destruct (SignDirect_shape o L n_fits nonce fuel d msg sg E) as (_ & HR & HS & _ & _).
    assert (U1 : UpdateEIP155 sg c = with_V sg V) by (unfold UpdateEIP155, with_V, V; f_equal; lia).
    assert (I : is_int64 V = true) by (apply is_int64_iff; unfold two63, V; lia).
    destruct (compact_int64_V (with_V sg V)) as (b & A & B); cbn [with_V sV sR sS]; try lia; try exact I.
    exists b. rewrite U1. split; [exact A|]. split; [exact B|].
    apply (tamper_flip_parity o L n_fits H H_len nonce fuel d msg sg Hd E HV).
    pose proof (Z.div_mod V 256 ltac:(discriminate)) as D.
    destruct HB as [HB|HB]; rewrite HB; rewrite HB in D; unfold V in D.
    - destruct HV as [HV|HV]; rewrite HV in *; [lia|reflexivity].
    - destruct HV as [HV|HV]; rewrite HV in *; [reflexivity|lia].
  Qed.
  (* ---- clauses 1-4 and the codec in ONE statement about the signing call itself (no "= Ok sg" premise):
     a usable nonce below the fuel (model-only guard), no overflow point among the nonces below the fuel
     (the 2^-128 guard of the property's "V in {27,28}") ---- *)
  Theorem sign_recover_end_to_end d msg c :
    1 <= d < n -> 0 <= c <= 2 ^ 53 ->
    (exists j, (j < fuel)%nat /\ attempt d msg j <> None) ->
    (forall j, (j < fuel)%nat -> xcoord o (smul o (nonce d msg j) (G o)) < n) ->
    exists sg, SignDirect o nonce fuel d msg = Ok sg /\
      (sV sg = 27 \/ sV sg = 28) /\ 1 <= sR sg < n /\ 1 <= sS sg < n /\ 2 * sS sg <= n /\
      ecdsa_verify o (pub o d) (hash_to_z msg) (sR sg) (sS sg) = true /\
      RecoverDirect o H sg msg c = Ok (addr (pub o d)) /\
      RecoverDirect o H (UpdateEIP2930 sg) msg c = Ok (addr (pub o d)) /\
      RecoverDirect o H (UpdateEIP155 sg c) msg c = Ok (addr (pub o d)) /\
      (exists b, CompactRSV sg = Ok b /\ length b = 65%nat /\ DecodeCompactRSV b = Ok sg).
  Proof.
    intros Hd Hc Hfound Hno. destruct (SignDirect_succeeds d msg Hfound) as [sg E]. exists sg.
    pose proof (SignDirect_V_27_28_bounded d msg sg Hno E) as HV.
    destruct (SignDirect_shape o L n_fits nonce fuel d msg sg E) as (_ & HR & HS & Hlow & Hver).
    assert (Hc' : is_int64 c = true).
    { apply is_int64_iff. change (2 ^ 53) with 9007199254740992 in Hc. unfold two63. lia. }
    destruct (recover_all_conventions o L n_fits H H_len nonce fuel d msg sg c c Hd Hc Hc' E HV) as (R1 & R2 & R3 & _).
    split; [exact E|]. split; [exact HV|]. split; [exact HR|]. split; [exact HS|]. split; [exact Hlow|].
    split; [exact Hver|]. split; [exact R1|]. split; [exact R2|]. split; [exact R3|].
    destruct (compact_roundtrip sg) as (b & A & B & C & _); try lia.
    exists b. auto.
  Qed.
End Referee.

(* the same through the hashing entry points, with the concrete hash of the package (Base/Keccak.v) in
   both places where the package hashes: the message digest and the address derivation *)
From FFS Require Import Base.Keccak.

Theorem sign_recover_end_to_end_keccak o (L : laws o) (Hn : n o < two256) nonce fuel d message c :
  1 <= d < n o -> 0 <= c <= 2 ^ 53 ->
  (exists j, (j < fuel)%nat /\
     ecdsa_sign o d (hash_to_z (keccak256 message)) (nonce d (keccak256 message) j) <> None) ->
  (forall j, (j < fuel)%nat -> xcoord o (smul o (nonce d (keccak256 message) j) (G o)) < n o) ->
  exists sg, Sign o keccak256 nonce fuel d message = Ok sg /\
    (sV sg = 27 \/ sV sg = 28) /\ 1 <= sR sg < n o /\ 1 <= sS sg < n o /\ 2 * sS sg <= n o /\
    ecdsa_verify o (pub o d) (hash_to_z (keccak256 message)) (sR sg) (sS sg) = true /\
    Recover o keccak256 sg message c = Ok (spec_address keccak256 (xcoord o (pub o d)) (ycoord o (pub o d))) /\
    Recover o keccak256 (UpdateEIP2930 sg) message c = Ok (spec_address keccak256 (xcoord o (pub o d)) (ycoord o (pub o d))) /\
    Recover o keccak256 (UpdateEIP155 sg c) message c = Ok (spec_address keccak256 (xcoord o (pub o d)) (ycoord o (pub o d))) /\
    (exists b, CompactRSV sg = Ok b /\ length b = 65%nat /\ DecodeCompactRSV b = Ok sg).
Proof.
  intros Hd Hc Hf Hno.
  destruct (sign_recover_end_to_end o L Hn keccak256 keccak256_length nonce fuel d (keccak256 message) c Hd Hc Hf Hno)
    as (sg & E & HV & HR & HS & Hlow & Hver & R1 & R2 & R3 & Hc').
  exists sg. rewrite <- (addr_of_spec o keccak256 keccak256_length).
  unfold Sign, Recover. repeat (split; [assumption|]). exact Hc'.
Qed.
