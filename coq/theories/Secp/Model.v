(* Model of pkg/secp256k1 (signer.go, keypair.go) -- one Gallina definition per Go function, same order
   of checks.  The elliptic-curve group enters as an abstract record [o : Ecdsa.group_ops], the hash
   (legacy Keccak-256) as [H], btcec's RFC 6979 nonce generator as [nonce]; Run.v plugs in
   Secp256k1Exec.secp256k1_ops, Base.Keccak.keccak256 and the nonce the harness obtained from the
   library.  *big.Int values are integers (Z); they are assumed non-nil (a nil V/R/S is a Go nil
   dereference in every function below; the callers in pkg/ethsigner are C10's business).
   No proofs in this file. *)
From Coq Require Import ZArith List Bool.
From Coq Require Import Init.Byte.
From FFS Require Import Base.Res Base.Bytes Crypto.Ecdsa.
Import ListNotations.
Local Open Scope Z_scope.

(* error classes (never compared with the implementation's message text) *)
Definition EInvalidV : nat := 1%nat.     (* getVNormalized *)
Definition ERange : nat := 2%nat.        (* R or S negative or wider than 256 bits (fix: commits 77938be, f9cc703) *)
Definition ELib : nat := 3%nat.          (* btcec RecoverCompact returned an error *)
Definition ELen : nat := 4%nat.          (* DecodeCompactRSV: length <> 65 *)
Definition EOutOfFuel : nat := 5%nat.    (* model only: the nonce stream gave no usable nonce within the fuel *)

(* ---- Go integer conversions ---- *)
Definition two63 : Z := 9223372036854775808.
Definition two64 : Z := 18446744073709551616.
Definition two256 : Z := 2 ^ 256.

(* big.Int.IsInt64 *)
Definition is_int64 (z : Z) : bool := (- two63 <=? z) && (z <? two63).
(* int64 arithmetic wraps: (z + 2^63) mod 2^64 - 2^63  (Proofs.wrap64_spec); the in-range test only
   short-cuts the division so that the V sweep of the evaluator stays cheap *)
Definition wrap64 (z : Z) : Z := if is_int64 z then z else (z + two63) mod two64 - two63.
(* big.Int.Int64(): the low 64 bits of |z| read as int64, negated when z < 0 (Proofs.big_int64_spec;
   same short-cut) *)
Definition big_int64 (z : Z) : Z :=
  if is_int64 z then z else
  let w := wrap64 (Z.abs z mod two64) in if z <? 0 then wrap64 (- w) else w.
(* byte(x) for an int64 x *)
Definition to_byte (z : Z) : Z := z mod 256.

(* ---- big-endian bytes ---- *)
(* the low byte is z mod 256 and the rest z / 256, written with shift/mask (Proofs.be_fixed_S) because
   they are linear-time in vm_compute *)
Fixpoint be_fixed (len : nat) (z : Z) : bytes :=
  match len with
  | O => []
  | S l => be_fixed l (Z.shiftr z 8) ++ [n2b (Z.to_N (Z.land z 255))]
  end.
(* big.Int.SetBytes / ModNScalar.SetByteSlice before reduction *)
Definition of_be (l : bytes) : Z := fold_left (fun acc b => acc * 256 + Z.of_N (b2n b)) l 0.
(* big.Int.FillBytes(buf) with |buf| = len: writes |z|, panics when it does not fit *)
Definition fill_bytes (len : nat) (z : Z) : res bytes :=
  if Z.abs z <? 256 ^ Z.of_nat len then Ok (be_fixed len (Z.abs z)) else Panic.
(* big.Int.BitLen() > 256 *)
Definition wider_than_256 (z : Z) : bool := two256 <=? Z.abs z.

Definition lastn {A} (k : nat) (l : list A) : list A := skipn (length l - k) l.

Record sigdata : Type := { sV : Z; sR : Z; sS : Z }.

Section Model.
  Variable o : group_ops.
  Variable H : bytes -> bytes.                      (* sha3.NewLegacyKeccak256 *)
  Variable nonce : Z -> bytes -> nat -> Z.          (* secp256k1.NonceRFC6979 key hash iteration *)
  Variable sign_fuel : nat.                         (* bound on the (unbounded) retry loop of signRFC6979 *)

  (* ModNScalar.SetByteSlice: the first 32 bytes as a big-endian integer (reduction mod n happens
     inside the Ecdsa functions, all of whose arithmetic is mod n) *)
  Definition hash_to_z (msg : bytes) : Z := of_be (firstn 32 msg).

  (* ---------------- signer.go ---------------- *)

  (* func (s *SignatureData) getVNormalized(chainID int64) (byte, error)        [after fix cf3e2c3] *)
  Definition getVNormalized (sg : sigdata) (chainID : Z) : res Z :=
    if negb (is_int64 (sV sg)) then Err EInvalidV else
    let v := big_int64 (sV sg) in
    let vB :=
      if (v =? 0) || (v =? 1) then to_byte (wrap64 (v + 27))
      else if (v =? 27) || (v =? 28) then to_byte v
      else to_byte (wrap64 (wrap64 (wrap64 (v - 35) - wrap64 (chainID * 2)) + 27)) in
    if negb (vB =? 27) && negb (vB =? 28) then Err EInvalidV else Ok vB.

  (* func (s *SignatureData) UpdateEIP155(chainID int64): big.Int arithmetic, no wrap *)
  Definition UpdateEIP155 (sg : sigdata) (chainID : Z) : sigdata :=
    {| sV := sV sg + chainID * 2 + (35 - 27); sR := sR sg; sS := sS sg |}.

  (* func (s *SignatureData) UpdateEIP2930() *)
  Definition UpdateEIP2930 (sg : sigdata) : sigdata :=
    let vi64 := big_int64 (sV sg) in
    if (vi64 =? 27) || (vi64 =? 28) then {| sV := sV sg - 27; sR := sR sg; sS := sS sg |} else sg.

  (* btcec ecdsa.RecoverCompact(signature, hash) as called below: the recovery byte is 27 or 28
     (codes 0/1, uncompressed), R and S are parsed from 32 big-endian bytes each and must lie in
     [1, n-1] (checked inside ecdsa_recover), then decompression and Q = r^-1 (s R - z G).  The
     overflow codes 29/30 and the compressed codes 31..34 never reach the library from here. *)
  Definition RecoverCompact (signature msg : bytes) : res (pt o) :=
    if negb (length signature =? 65)%nat then Err ELib else
    let code := Z.of_N (b2n (nth 0 signature x00)) in
    if negb ((code =? 27) || (code =? 28)) then Err ELib else
    let r := of_be (firstn 32 (skipn 1 signature)) in
    let s := of_be (firstn 32 (skipn 33 signature)) in
    match ecdsa_recover o (hash_to_z msg) r s (code =? 28) with
    | Some Q => Ok Q
    | None => Err ELib
    end.

  (* btcec PublicKey.SerializeUncompressed *)
  Definition SerializeUncompressed (Q : pt o) : bytes :=
    x04 :: be_fixed 32 (xcoord o Q) ++ be_fixed 32 (ycoord o Q).

  (* keypair.go: func PublicKeyToAddress(pubKey) *Address0xHex :  hash.Sum(nil)[12:32] *)
  Definition PublicKeyToAddress (Q : pt o) : res bytes :=
    do ser <- slice (SerializeUncompressed Q) 1 65;
    slice (H ser) 12 32.

  (* the part of RecoverDirect after V normalisation *)
  Definition recover_tail (vB : Z) (sg : sigdata) (msg : bytes) : res bytes :=
    if wider_than_256 (sR sg) || wider_than_256 (sS sg) then Err ERange else      (* fix 77938be *)
    if (sR sg <? 0) || (sS sg <? 0) then Err ERange else                          (* fix f9cc703 *)
    do rb <- fill_bytes 32 (sR sg);
    do sb <- fill_bytes 32 (sS sg);
    let signatureBytes := n2b (Z.to_N vB) :: rb ++ sb in
    do Q <- RecoverCompact signatureBytes msg;
    PublicKeyToAddress Q.

  (* func (s *SignatureData) RecoverDirect(message []byte, chainID int64) *)
  Definition RecoverDirect (sg : sigdata) (msg : bytes) (chainID : Z) : res bytes :=
    do vB <- getVNormalized sg chainID;
    recover_tail vB sg msg.

  (* func (s *SignatureData) Recover(message []byte, chainID int64) *)
  Definition Recover (sg : sigdata) (msg : bytes) (chainID : Z) : res bytes :=
    RecoverDirect sg (H msg) chainID.

  (* func (s *SignatureData) CompactRSV() []byte *)
  Definition CompactRSV (sg : sigdata) : res bytes :=
    do rb <- fill_bytes 32 (sR sg);
    do sb <- fill_bytes 32 (sS sg);
    Ok (rb ++ sb ++ [n2b (Z.to_N (to_byte (big_int64 (sV sg))))]).

  (* func DecodeCompactRSV(ctx, compactRSV []byte) *)
  Definition DecodeCompactRSV (b : bytes) : res sigdata :=
    if negb (length b =? 65)%nat then Err ELen else
    do rb <- slice b 0 32;
    do sb <- slice b 32 64;
    do vb <- slice b 64 65;
    Ok {| sV := of_be vb; sR := of_be rb; sS := of_be sb |}.

  (* btcec ecdsa.SignCompact(key, hash, false): 65 bytes  27+code || r || s *)
  Definition SignCompact (d : Z) (msg : bytes) : res bytes :=
    match ecdsa_sign_loop o sign_fuel (nonce d msg) 0 d (hash_to_z msg) with
    | None => Err EOutOfFuel
    | Some sg =>
        let code := 27 + (if es_ovf sg then 2 else 0) + (if es_odd sg then 1 else 0) in
        Ok (n2b (Z.to_N code) :: be_fixed 32 (es_r sg) ++ be_fixed 32 (es_s sg))
    end.

  (* func (k *KeyPair) SignDirect(message []byte): unpack sig[0], sig[1:33], sig[33:65] *)
  Definition SignDirect (d : Z) (msg : bytes) : res sigdata :=
    do sig <- SignCompact d msg;
    do v <- index sig 0;
    do rb <- slice sig 1 33;
    do sb <- slice sig 33 65;
    Ok {| sV := Z.of_N (b2n v); sR := of_be rb; sS := of_be sb |}.

  (* func (k *KeyPair) Sign(message []byte) *)
  Definition Sign (d : Z) (msg : bytes) : res sigdata := SignDirect d (H msg).

  (* ---------------- keypair.go ---------------- *)

  (* btcec.PrivKeyFromBytes: ModNScalar.SetByteSlice = first 32 bytes, reduced mod n *)
  Definition PrivKeyFromBytes (b : bytes) : Z := of_be (firstn 32 b) mod (n o).

  Record keypair : Type := { kp_priv : Z; kp_pub : pt o; kp_addr : bytes }.

  (* func KeyPairFromBytes(b []byte) *KeyPair  (with wrapSecp256k1Key) *)
  Definition KeyPairFromBytes (b : bytes) : res keypair :=
    let d := PrivKeyFromBytes b in
    let Q := pub o d in
    do a <- PublicKeyToAddress Q;
    Ok {| kp_priv := d; kp_pub := Q; kp_addr := a |}.

  (* func (k *KeyPair) PublicKeyBytes() []byte *)
  Definition PublicKeyBytes (k : keypair) : res bytes := slice (SerializeUncompressed (kp_pub k)) 1 65.
  (* func (k *KeyPair) PrivateKeyBytes() []byte *)
  Definition PrivateKeyBytes (k : keypair) : bytes := be_fixed 32 (kp_priv k).
End Model.
