(* What C05 refers to outside the code, written directly from the standards (no code shared with
   Model.v):
   - the three ways Ethereum writes the recovery bit of a signature into V:
       legacy            V = 27 + parity                       (Yellow Paper, Appendix F)
       EIP-2930 / 1559   V = parity                            (yParity)
       EIP-155           V = 35 + 2 * chainId + parity
   - the address of a public key (Yellow Paper (284)): the rightmost 160 bits of the Keccak-256 hash
     of the 64-byte string X || Y, each coordinate a 32-byte big-endian integer;
   - ECDSA over a prime-order group: Crypto/Ecdsa.v (ecdsa_sign / ecdsa_verify / ecdsa_recover). *)
From Coq Require Import ZArith List.
From Coq Require Import Init.Byte.
From FFS Require Import Base.Bytes.
Import ListNotations.
Local Open Scope Z_scope.

Inductive v_convention := Legacy | YParity | Eip155.

Definition spec_V (cv : v_convention) (chain parity : Z) : Z :=
  match cv with
  | Legacy => 27 + parity
  | YParity => parity
  | Eip155 => 35 + 2 * chain + parity
  end.

(* byte i (0 = most significant) of the 32-byte big-endian representation *)
Definition spec_be32 (z : Z) : bytes :=
  map (fun i => n2b (Z.to_N ((z / 256 ^ Z.of_nat (31 - i)) mod 256))) (seq 0 32).

Definition spec_address (H : bytes -> bytes) (x y : Z) : bytes :=
  skipn 12 (H (spec_be32 x ++ spec_be32 y)).
