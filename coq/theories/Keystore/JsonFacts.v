(* Lemmas about the data encodings of Keystore/Json.v: hex and UUID text round trips, map updates. *)
From Coq Require Import String Ascii.
From Coq Require Import List NArith ZArith Lia Bool Arith.
From Coq Require Import ZifyN ZifyNat ZifyBool.
From Coq Require Import Init.Byte.
From FFS Require Import Base.Res Base.Bytes Keystore.Json.
Import ListNotations.
Local Open Scope N_scope.

(* ---------- hex ---------- *)
Lemma hex_val_digit_nat (k : nat) : (k < 16)%nat -> hex_val (hex_digit (N.of_nat k)) = Some (N.of_nat k).
Proof. do 16 (destruct k as [|k]; [reflexivity|]). lia. Qed.

Lemma hex_val_digit (n : N) : n < 16 -> hex_val (hex_digit n) = Some n.
Proof. intros H. rewrite <- (N2Nat.id n). apply hex_val_digit_nat. lia. Qed.

Lemma b2n_hex_digit_nat (k : nat) : (k < 16)%nat ->
  b2n (hex_digit (N.of_nat k)) = (if N.of_nat k <? 10 then 48 + N.of_nat k else 87 + N.of_nat k).
Proof. do 16 (destruct k as [|k]; [reflexivity|]). lia. Qed.

Lemma hex_digit_not_x (n : N) : n < 16 -> b2n (hex_digit n) <> 120.
Proof.
  intros H. rewrite <- (N2Nat.id n). rewrite b2n_hex_digit_nat by lia.
  destruct (N.of_nat (N.to_nat n) <? 10) eqn:E; lia.
Qed.

Lemma byte_split (x : byte) : n2b (b2n x / 16 * 16 + b2n x mod 16) = x.
Proof.
  replace (b2n x / 16 * 16 + b2n x mod 16) with (b2n x).
  - apply n2b_b2n.
  - pose proof (N.div_mod (b2n x) 16). lia.
Qed.

Lemma hi_lt (x : byte) : b2n x / 16 < 16.
Proof. pose proof (b2n_lt x). apply N.div_lt_upper_bound; lia. Qed.
Lemma lo_lt (x : byte) : b2n x mod 16 < 16.
Proof. apply N.mod_lt. lia. Qed.

Lemma hex_decode_encode (b : bytes) : hex_decode (hex_encode b) = Some b.
Proof.
  induction b as [|x b IH]; [reflexivity|].
  unfold hex_encode in *. cbn [flat_map app hex_decode].
  rewrite (hex_val_digit _ (hi_lt x)), (hex_val_digit _ (lo_lt x)), IH, byte_split. reflexivity.
Qed.

Lemma trim0x_hex_encode (b : bytes) : trim0x (hex_encode b) = hex_encode b.
Proof.
  destruct b as [|x b]; [reflexivity|]. unfold hex_encode. cbn [flat_map app trim0x].
  destruct (b2n (hex_digit (b2n x mod 16)) =? 120) eqn:E.
  - apply N.eqb_eq in E. exfalso. exact (hex_digit_not_x _ (lo_lt x) E).
  - rewrite andb_false_r. reflexivity.
Qed.

Lemma hex_encode_length (b : bytes) : length (hex_encode b) = (2 * length b)%nat.
Proof. induction b as [|x b IH]; [reflexivity|]. unfold hex_encode in *. cbn [flat_map app length]. rewrite IH. lia. Qed.

(* ---------- UUID text ---------- *)
Lemma hex_digit_ok (n : N) : n < 16 -> match hex_val (hex_digit n) with Some _ => true | None => false end = true.
Proof. intros H. rewrite hex_val_digit by exact H. reflexivity. Qed.

Lemma uuid_string_ok (u : bytes) : length u = 16%nat -> uuid_text_ok (uuid_string u) = true.
Proof.
  intros L. do 17 (destruct u as [|? u]; try discriminate). clear L.
  unfold uuid_string, hex_encode. cbn [flat_map app firstn skipn]. unfold uuid_text_ok.
  cbn [length Nat.eqb andb Nat.eqb orb b2n].
  repeat rewrite hex_digit_ok by (apply hi_lt || apply lo_lt).
  reflexivity.
Qed.

(* ---------- maps ---------- *)
Definition has_key (k : bytes) (m : bytes * json) : bool := bytes_eqb (fst m) k.

Lemma bytes_eqb_refl (a : bytes) : bytes_eqb a a = true.
Proof. destruct (bytes_eqb_spec a a); congruence. Qed.
Lemma bytes_eqb_sym (a b : bytes) : bytes_eqb a b = bytes_eqb b a.
Proof. destruct (bytes_eqb_spec a b), (bytes_eqb_spec b a); congruence. Qed.

Lemma filter_mremove_same k m : filter (has_key k) (mremove k m) = [].
Proof.
  induction m as [|[k' v'] m IH]; [reflexivity|]. cbn [mremove].
  destruct (bytes_eqb k k') eqn:E; [exact IH|]. cbn [filter]. unfold has_key at 1. cbn [fst].
  rewrite (bytes_eqb_sym k' k), E. exact IH.
Qed.

Lemma filter_mremove_other k k' m : k <> k' -> filter (has_key k') (mremove k m) = filter (has_key k') m.
Proof.
  intros N. induction m as [|[k0 v0] m IH]; [reflexivity|]. cbn [mremove filter].
  destruct (bytes_eqb_spec k k0) as [->|N0].
  - unfold has_key at 2. cbn [fst]. destruct (bytes_eqb_spec k0 k'); [congruence|]. exact IH.
  - cbn [filter]. rewrite IH. reflexivity.
Qed.

Lemma has_key_self k v : has_key k (k, v) = true.
Proof. unfold has_key. cbn [fst]. apply bytes_eqb_refl. Qed.
Lemma has_key_other k k' v : k <> k' -> has_key k' (k, v) = false.
Proof. intros N. unfold has_key. cbn [fst]. destruct (bytes_eqb_spec k k'); congruence. Qed.

Lemma filter_minsert_other k v k' m : k <> k' -> filter (has_key k') (minsert k v m) = filter (has_key k') m.
Proof.
  intros N. induction m as [|[k0 v0] m IH]; cbn [minsert filter].
  - rewrite has_key_other by exact N. reflexivity.
  - destruct (bytes_ltb k k0); cbn [filter].
    + rewrite has_key_other by exact N. reflexivity.
    + rewrite IH. reflexivity.
Qed.

Lemma filter_minsert_fresh k v m : filter (has_key k) m = [] -> filter (has_key k) (minsert k v m) = [(k, v)].
Proof.
  induction m as [|[k0 v0] m IH]; cbn [minsert filter].
  - rewrite has_key_self. reflexivity.
  - destruct (has_key k (k0, v0)) eqn:H0; [discriminate|]. intros F.
    destruct (bytes_ltb k k0); cbn [filter].
    + rewrite has_key_self, H0, F. reflexivity.
    + rewrite H0. apply IH. exact F.
Qed.

Lemma filter_mset_same k v m : filter (has_key k) (mset k v m) = [(k, v)].
Proof.
  unfold mset. apply filter_minsert_fresh. apply filter_mremove_same.
Qed.

Lemma filter_mset_other k v k' m : k <> k' -> filter (has_key k') (mset k v m) = filter (has_key k') m.
Proof.
  intros N. unfold mset. rewrite filter_minsert_other by exact N.
  apply filter_mremove_other. exact N.
Qed.
