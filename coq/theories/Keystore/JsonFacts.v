(* Lemmas about the data encodings of Keystore/Json.v: hex and UUID text round trips, map updates. *)
From Coq Require Import String Ascii.
From Coq Require Import List NArith ZArith Lia Bool Arith.
From Coq Require Import ZifyN ZifyNat ZifyBool.
From Coq Require Import Init.Byte.
From FFS Require Import Base.Res Base.Bytes Keystore.Json.
Import ListNotations.
Local Open Scope N_scope.

(* ---------- hex ---------- *)
Lemma hex_val_digit_nat (k : nat) : (k < 16)%nat -> hex_val (hex_digit (N.of_nat k)) = Some (N.of_nat k).
Proof. do 16 (destruct k as [|k]; [reflexivity|]). lia. Qed.

Lemma hex_val_digit (n : N) : n < 16 -> hex_val (hex_digit n) = Some n.
Proof. intros H. rewrite <- (N2Nat.id n). apply hex_val_digit_nat. lia. Qed.

Lemma b2n_hex_digit_nat (k : nat) : (k < 16)%nat ->
  b2n (hex_digit (N.of_nat k)) = (if N.of_nat k <? 10 then 48 + N.of_nat k else 87 + N.of_nat k).
Proof. do 16 (destruct k as [|k]; [reflexivity|]). lia. Qed.

Lemma hex_digit_not_x (n : N) : n < 16 -> b2n (hex_digit n) <> 120.
Proof.
  intros H. rewrite <- (N2Nat.id n). rewrite b2n_hex_digit_nat by lia.
  destruct (N.of_nat (N.to_nat n) <? 10) eqn:E; lia.
Qed.

Lemma byte_split (x : byte) : n2b (b2n x / 16 * 16 + b2n x mod 16) = x.
Proof.
  replace (b2n x / 16 * 16 + b2n x mod 16) with (b2n x).
  - apply n2b_b2n.
  - pose proof (N.div_mod (b2n x) 16). lia.
Qed.

Lemma hi_lt (x : byte) : b2n x / 16 < 16.
Proof. pose proof (b2n_lt x). apply N.div_lt_upper_bound; lia. Qed.
Lemma lo_lt (x : byte) : b2n x mod 16 < 16.
Proof. apply N.mod_lt. lia. Qed.

Lemma hex_decode_encode (b : bytes) : hex_decode (hex_encode b) = Some b.
Proof.
  induction b as [|x b IH]; [reflexivity|].
  unfold hex_encode in *. cbn [flat_map app hex_decode].
  rewrite (hex_val_digit _ (hi_lt x)), (hex_val_digit _ (lo_lt x)), IH, byte_split. reflexivity.
Qed.

Lemma trim0x_hex_encode (b : bytes) : trim0x (hex_encode b) = hex_encode b.
Proof.
  destruct b as [|x b]; [reflexivity|]. unfold hex_encode. cbn [flat_map app trim0x].
  destruct (b2n (hex_digit (b2n x mod 16)) =? 120) eqn:E.
  - apply N.eqb_eq in E. exfalso. exact (hex_digit_not_x _ (lo_lt x) E).
  - rewrite andb_false_r. reflexivity.
Qed.

Lemma hex_encode_length (b : bytes) : length (hex_encode b) = (2 * length b)%nat.
Proof. induction b as [|x b IH]; [reflexivity|]. unfold hex_encode in *. cbn [flat_map app length]. rewrite IH. lia. Qed.

(* ---------- UUID text ---------- *)
Lemma hex_digit_ok (n : N) : n < 16 -> match hex_val (hex_digit n) with Some _ => true | None => false end = true.
Proof. intros H. rewrite hex_val_digit by exact H. reflexivity. Qed.

Lemma uuid_string_ok (u : bytes) : length u = 16%nat -> uuid_text_ok (uuid_string u) = true.
Proof.
  intros L. do 17 (destruct u as [|? u]; try discriminate). clear L.
  unfold uuid_string, hex_encode. cbn [flat_map app firstn skipn]. unfold uuid_text_ok.
  cbn [length Nat.eqb andb Nat.eqb orb b2n].
  repeat rewrite hex_digit_ok by (apply hi_lt || apply lo_lt).
  reflexivity.
Qed.

(* ---------- maps ---------- *)
Definition has_key (k : bytes) (m : bytes * json) : bool := bytes_eqb (fst m) k.

Lemma bytes_eqb_refl (a : bytes) : bytes_eqb a a = true.
Proof. destruct (bytes_eqb_spec a a); congruence. Qed.
Lemma bytes_eqb_sym (a b : bytes) : bytes_eqb a b = bytes_eqb b a.
Proof. destruct (bytes_eqb_spec a b), (bytes_eqb_spec b a); congruence. Qed.

Lemma filter_mremove_same k m : filter (has_key k) (mremove k m) = [].
Proof.
  induction m as [|[k' v'] m IH]; [reflexivity|]. cbn [mremove].
  destruct (bytes_eqb k k') eqn:E; [exact IH|]. cbn [filter]. unfold has_key at 1. cbn [fst].
  rewrite (bytes_eqb_sym k' k), E. exact IH.
Qed.

Lemma filter_mremove_other k k' m : k <> k' -> filter (has_key k') (mremove k m) = filter (has_key k') m.
Proof.
  intros N. induction m as [|[k0 v0] m IH]; [reflexivity|]. cbn [mremove filter].
  destruct (bytes_eqb_spec k k0) as [->|N0].
  - unfold has_key at 2. cbn [fst]. destruct (bytes_eqb_spec k0 k'); [congruence|]. exact IH.
  - cbn [filter]. rewrite IH. reflexivity.
Qed.

Lemma has_key_self k v : has_key k (k, v) = true.
Proof. unfold has_key. cbn [fst]. apply bytes_eqb_refl. Qed.
Lemma has_key_other k k' v : k <> k' -> has_key k' (k, v) = false.
Proof. intros N. unfold has_key. cbn [fst]. destruct (bytes_eqb_spec k k'); congruence. Qed.

Lemma filter_minsert_other k v k' m : k <> k' -> filter (has_key k') (minsert k v m) = filter (has_key k') m.
Proof.
  intros N. induction m as [|[k0 v0] m IH]; cbn [minsert filter].
  - rewrite has_key_other by exact N. reflexivity.
  - destruct (bytes_ltb k k0); cbn [filter].
    + rewrite has_key_other by exact N. reflexivity.
    + rewrite IH. reflexivity.
Qed.

Lemma filter_minsert_fresh k v m : filter (has_key k) m = [] -> filter (has_key k) (minsert k v m) = [(k, v)].
Proof.
  induction m as [|[k0 v0] m IH]; cbn [minsert filter].
  - rewrite has_key_self. reflexivity.
  - destruct (has_key k (k0, v0)) eqn:H0; [discriminate|]. intros F.
    destruct (bytes_ltb k k0); cbn [filter].
    + rewrite has_key_self, H0, F. reflexivity.
    + rewrite H0. apply IH. exact F.
Qed.

Lemma filter_mset_same k v m : filter (has_key k) (mset k v m) = [(k, v)].
Proof.
  unfold mset. apply filter_minsert_fresh. apply filter_mremove_same.
Qed.

Lemma filter_mset_other k v k' m : k <> k' -> filter (has_key k') (mset k v m) = filter (has_key k') m.
Proof.
  intros N. unfold mset. rewrite filter_minsert_other by exact N.
  apply filter_mremove_other. exact N.
Qed.

(* ---------- induction over JSON trees ---------- *)
Section json_ind'.
  Variable Q : json -> Prop.
  Hypothesis HNull : Q JNull.
  Hypothesis HBool : forall b, Q (JBool b).
  Hypothesis HNum : forall l, Q (JNum l).
  Hypothesis HStr : forall s, Q (JStr s).
  Hypothesis HArr : forall l, Forall Q l -> Q (JArr l).
  Hypothesis HObj : forall ms, Forall (fun m => Q (snd m)) ms -> Q (JObj ms).

  Fixpoint json_ind' (j : json) : Q j :=
    match j with
    | JNull => HNull
    | JBool b => HBool b
    | JNum l => HNum l
    | JStr s => HStr s
    | JArr l => HArr l ((fix go (l : list json) : Forall Q l :=
                           match l with
                           | [] => Forall_nil _
                           | x :: t => Forall_cons x (json_ind' x) (go t)
                           end) l)
    | JObj ms => HObj ms ((fix go (ms : list (bytes * json)) : Forall (fun m => Q (snd m)) ms :=
                             match ms with
                             | [] => Forall_nil _
                             | m :: t => Forall_cons m (json_ind' (snd m)) (go t)
                             end) ms)
    end.
End json_ind'.

(* ---------- more about maps ---------- *)
Lemma mget_mremove_same k m : mget k (mremove k m) = None.
Proof.
  induction m as [|[k' v'] m IH]; [reflexivity|]. cbn [mremove].
  destruct (bytes_eqb k k') eqn:E; [exact IH|]. cbn [mget]. rewrite E. exact IH.
Qed.
Lemma mget_mremove_other k k' m : k <> k' -> mget k (mremove k' m) = mget k m.
Proof.
  intros N. induction m as [|[k0 v0] m IH]; [reflexivity|]. cbn [mremove mget].
  destruct (bytes_eqb_spec k' k0) as [->|N0].
  - destruct (bytes_eqb_spec k k0); [congruence|]. exact IH.
  - cbn [mget]. rewrite IH. reflexivity.
Qed.
Lemma mget_minsert_fresh k v m : mget k m = None -> mget k (minsert k v m) = Some v.
Proof.
  induction m as [|[k0 v0] m IH]; cbn [minsert mget].
  - rewrite bytes_eqb_refl. reflexivity.
  - destruct (bytes_eqb k k0) eqn:E; [discriminate|]. intros H.
    destruct (bytes_ltb k k0); cbn [mget].
    + rewrite bytes_eqb_refl. reflexivity.
    + rewrite E. apply IH. exact H.
Qed.
Lemma mget_minsert_other k k' v m : k <> k' -> mget k (minsert k' v m) = mget k m.
Proof.
  intros N. induction m as [|[k0 v0] m IH]; cbn [minsert mget].
  - destruct (bytes_eqb_spec k k'); [congruence|]. reflexivity.
  - destruct (bytes_ltb k' k0); cbn [mget].
    + destruct (bytes_eqb_spec k k'); [congruence|]. reflexivity.
    + rewrite IH. reflexivity.
Qed.
Lemma mget_mset_same k v m : mget k (mset k v m) = Some v.
Proof. unfold mset. apply mget_minsert_fresh. apply mget_mremove_same. Qed.
Lemma mget_mset_other k k' v m : k <> k' -> mget k (mset k' v m) = mget k m.
Proof. intros N. unfold mset. rewrite mget_minsert_other by exact N. apply mget_mremove_other. exact N. Qed.

Lemma mget_In k v m : mget k m = Some v -> In (k, v) m.
Proof.
  induction m as [|[k0 v0] m IH]; cbn [mget]; [discriminate|].
  destruct (bytes_eqb_spec k k0) as [->|].
  - intros H; injection H as ->. left; reflexivity.
  - intros H. right. apply IH. exact H.
Qed.

Lemma In_mremove e k m : In e (mremove k m) -> In e m.
Proof.
  induction m as [|[k0 v0] m IH]; cbn [mremove]; [tauto|].
  destruct (bytes_eqb k k0); cbn [In]; intuition.
Qed.
Lemma In_minsert e k v m : In e (minsert k v m) -> e = (k, v) \/ In e m.
Proof.
  induction m as [|[k0 v0] m IH]; cbn [minsert In]; [intuition|].
  destruct (bytes_ltb k k0); cbn [In]; intuition.
Qed.
Lemma In_mset e k v m : In e (mset k v m) -> e = (k, v) \/ In e m.
Proof. unfold mset. intros H. apply In_minsert in H as [H|H]; [left; exact H|right; eapply In_mremove; exact H]. Qed.

Lemma In_mremove_other k v k0 m : In (k, v) m -> k <> k0 -> In (k, v) (mremove k0 m).
Proof.
  intros I N. induction m as [|[k1 v1] m IH]; [destruct I|]. cbn [mremove].
  destruct I as [E|I].
  - injection E as -> ->. destruct (bytes_eqb_spec k0 k); [congruence|]. left; reflexivity.
  - destruct (bytes_eqb k0 k1); [apply IH; exact I|]. right. apply IH; exact I.
Qed.
Lemma In_minsert_old e k v m : In e m -> In e (minsert k v m).
Proof.
  induction m as [|[k0 v0] m IH]; cbn [minsert]; [intros []|].
  destruct (bytes_ltb k k0); cbn [In]; intuition.
Qed.
Lemma In_mset_other k v k0 v0 m : In (k, v) m -> k <> k0 -> In (k, v) (mset k0 v0 m).
Proof. intros I N. unfold mset. apply In_minsert_old. apply In_mremove_other; assumption. Qed.

Lemma forallb_mset (p : bytes * json -> bool) k v m :
  p (k, v) = true -> forallb p m = true -> forallb p (mset k v m) = true.
Proof.
  intros Pk Pm. apply forallb_forall. intros e I. apply In_mset in I as [->|I]; [exact Pk|].
  rewrite forallb_forall in Pm. apply Pm. exact I.
Qed.

(* at most one member per key *)
Definition uniq (m : jmap) : Prop := forall k, (length (filter (has_key k) m) <= 1)%nat.

Lemma uniq_nil : uniq [].
Proof. intros k. cbn. lia. Qed.
Lemma uniq_mset k v m : uniq m -> uniq (mset k v m).
Proof.
  intros U k'. destruct (bytes_eqb_spec k k') as [->|N].
  - rewrite filter_mset_same. cbn. lia.
  - rewrite filter_mset_other by exact N. apply U.
Qed.

Lemma uniq_filter k v m : uniq m -> In (k, v) m -> filter (has_key k) m = [(k, v)].
Proof.
  intros U I. specialize (U k).
  assert (I' : In (k, v) (filter (has_key k) m)) by (apply filter_In; split; [exact I|apply has_key_self]).
  destruct (filter (has_key k) m) as [|e [|e' t]].
  - destruct I'.
  - destruct I' as [->|[]]. reflexivity.
  - cbn [length] in U. lia.
Qed.

(* ---------- text ---------- *)
Lemma json_text_ok_obj ms :
  json_text_ok (JObj ms) = forallb (fun m => utf8_valid (fst m) && json_text_ok (snd m)) ms.
Proof.
  cbn [json_text_ok]. induction ms as [|[k v] ms IH]; [reflexivity|]. cbn [forallb fst snd]. rewrite IH. reflexivity.
Qed.

Definition ascii_only (s : bytes) : Prop := Forall (fun c => b2n c < 128) s.

Lemma ascii_utf8 s : ascii_only s -> utf8_valid s = true.
Proof.
  induction 1 as [|c s Hc Hs IH]; [reflexivity|]. cbn [utf8_valid].
  replace (b2n c <? 128) with true by (symmetry; apply N.ltb_lt; exact Hc). exact IH.
Qed.

Lemma hex_digit_ascii n : n < 16 -> b2n (hex_digit n) < 128.
Proof.
  intros H. rewrite <- (N2Nat.id n). rewrite b2n_hex_digit_nat by lia.
  destruct (N.of_nat (N.to_nat n) <? 10) eqn:E; lia.
Qed.

Lemma hex_encode_ascii b : ascii_only (hex_encode b).
Proof.
  induction b as [|x b IH]; [constructor|]. unfold hex_encode in *. cbn [flat_map app].
  constructor; [apply hex_digit_ascii, hi_lt|]. constructor; [apply hex_digit_ascii, lo_lt|]. exact IH.
Qed.

Lemma ascii_only_app a b : ascii_only a -> ascii_only b -> ascii_only (a ++ b).
Proof. intros A B. apply Forall_app. split; assumption. Qed.
Lemma ascii_only_firstn n a : ascii_only a -> ascii_only (firstn n a).
Proof. intros H. unfold ascii_only in *. rewrite <- (firstn_skipn n a) in H. apply Forall_app in H. tauto. Qed.
Lemma ascii_only_skipn n a : ascii_only a -> ascii_only (skipn n a).
Proof. intros H. unfold ascii_only in *. rewrite <- (firstn_skipn n a) in H. apply Forall_app in H. tauto. Qed.

Lemma uuid_string_ascii u : ascii_only (uuid_string u).
Proof.
  unfold uuid_string. pose proof (hex_encode_ascii u) as H.
  assert (D : ascii_only [x2d]) by (constructor; [cbn; lia|constructor]).
  repeat apply ascii_only_app; auto using ascii_only_firstn, ascii_only_skipn.
Qed.
