(* C15, part 3: concrete witnesses.  A toy instance of the primitives and small key files, used for the
   non-vacuity Examples of Properties/C15.v and for the refutation of the cipher clause (the code never
   looks at crypto.cipher: known finding C15/cipher-ignored). *)
From Coq Require Import String.
From Coq Require Import List NArith ZArith Lia Bool Arith.
From Coq Require Import Init.Byte.
From FFS Require Import Base.Res Base.Bytes Keystore.Json Keystore.Prims Keystore.Model Keystore.Spec
  Keystore.ReadTypes Keystore.TotalProofs Keystore.TotalProofs2 Keystore.TotalProofs4.
Import ListNotations.
Local Open Scope string_scope.

(* KDFs return zero bytes, the "hash" is 32 zero bytes, CTR is the identity (an involution), the UUID
   parser accepts RFC 4122 text *)
Definition toy : prims := {|
  scrypt := fun _ _ _ _ _ dk => repeat x00 (Z.to_nat dk);
  scrypt_cap := fun _ _ _ _ _ dk => repeat x00 (Z.to_nat (round_up_32 dk));
  pbkdf2 := fun _ _ _ dk => repeat x00 (Z.to_nat dk);
  aes_ctr := fun _ _ x => x;
  hash := fun _ => repeat x00 32;
  pubkey := fun _ => repeat x00 64;
  json_parse := fun _ => None;
  json_print := fun _ => [];
  json_num := fun l => Some l;
  uuid_parse := fun s => if uuid_text_ok s then Some (repeat x00 16) else None
|}.

Definition k (s : string) : bytes := ascii_bytes s.
Definition zeros_hex (n : nat) : bytes := repeat x30 (2 * n).

(* a PBKDF2 file; parameters: cipher name, IV length in bytes, dklen literal, c literal *)
Definition toy_pbkdf2 (cipher : string) (ivlen : nat) (dklen c : string) : json :=
  JObj [ (k "id", JStr (k "3198bc9c-6672-5ab3-d995-4942343ae5b6"));
         (k "version", JNum (k "3"));
         (k "crypto", JObj [ (k "cipher", JStr (k cipher));
                             (k "ciphertext", JStr (k "0102"));
                             (k "cipherparams", JObj [(k "iv", JStr (zeros_hex ivlen))]);
                             (k "kdf", JStr (k "pbkdf2"));
                             (k "kdfparams", JObj [ (k "c", JNum (k c)); (k "dklen", JNum (k dklen));
                                                    (k "prf", JStr (k "hmac-sha256")); (k "salt", JStr (k "00")) ]);
                             (k "mac", JStr (zeros_hex 32)) ]) ].
Definition toy_scrypt (n r p : string) : json :=
  JObj [ (k "id", JStr (k "3198bc9c-6672-5ab3-d995-4942343ae5b6"));
         (k "version", JNum (k "3"));
         (k "crypto", JObj [ (k "cipher", JStr (k "aes-128-ctr"));
                             (k "ciphertext", JStr (k "0102"));
                             (k "cipherparams", JObj [(k "iv", JStr (zeros_hex 16))]);
                             (k "kdf", JStr (k "scrypt"));
                             (k "kdfparams", JObj [ (k "dklen", JNum (k "32")); (k "n", JNum (k n)); (k "r", JNum (k r));
                                                    (k "p", JNum (k p)); (k "salt", JStr (k "00")) ]);
                             (k "mac", JStr (zeros_hex 32)) ]) ].

Definition good := toy_pbkdf2 "aes-128-ctr" 16 "32" "1".

Definition key_of (r : res wallet) : option bytes := match r with Ok w => Some (PrivateKey w) | _ => None end.

(* a conforming file is read, and the specification derives the same key *)
Example good_is_read : key_of (read_wallet_tree toy good []) = Some [x01; x02].
Proof. vm_compute. reflexivity. Qed.
Example good_is_wellformed : v3_wellformed good = true.
Proof. vm_compute. reflexivity. Qed.
Example good_is_standard : v3_decrypt toy good [] = Ok [x01; x02].
Proof. vm_compute. reflexivity. Qed.
Example good_scrypt_is_read : key_of (read_wallet_tree toy (toy_scrypt "4" "1" "1") []) = Some [x01; x02].
Proof. vm_compute. reflexivity. Qed.

(* MAC-valid but malformed files: each hypothesis of [malformed_rejected_mac_valid] is satisfiable, and
   the outcome is an error *)
Definition is_mac_valid_with (bad : content -> bool) (t : json) : bool :=
  match decode_content toy t with Some c => mac_valid toy c [] && bad c | None => false end.

Example iv_2_bytes : is_mac_valid_with iv_bad (toy_pbkdf2 "aes-128-ctr" 2 "32" "1") = true
                     /\ cls (read_wallet_tree toy (toy_pbkdf2 "aes-128-ctr" 2 "32" "1") []) = 1%nat.
Proof. vm_compute. split; reflexivity. Qed.
Example dklen_minus_1 : is_mac_valid_with dklen_bad (toy_pbkdf2 "aes-128-ctr" 16 "-1" "1") = true
                     /\ cls (read_wallet_tree toy (toy_pbkdf2 "aes-128-ctr" 16 "-1" "1") []) = 1%nat.
Proof. vm_compute. split; reflexivity. Qed.
Example scrypt_r_0 : is_some (decode_content toy (toy_scrypt "4" "0" "1")) = true
                     /\ match decode_content toy (toy_scrypt "4" "0" "1") with Some c => cost_bad c | None => false end = true
                     /\ cls (read_wallet_tree toy (toy_scrypt "4" "0" "1") []) = 1%nat.
Proof. vm_compute. repeat split; reflexivity. Qed.
Example structure_bad : decode_content toy (JArr []) = None /\ cls (read_wallet_tree toy (JArr []) []) = 1%nat.
Proof. vm_compute. split; reflexivity. Qed.
Example total_on_null : cls (read_wallet_tree toy JNull []) = 1%nat /\ cls (ReadWalletFile toy [] []) = 1%nat.
Proof. vm_compute. split; reflexivity. Qed.

(* ---------- the cipher clause is refuted ---------- *)
Definition foreign_cipher := toy_pbkdf2 "aes-256-cbc" 16 "32" "1".

Theorem malformed_rejected_cipher_refuted :
  exists (P : prims) (t : json) (pw : bytes) (c : content) (w : wallet),
    decode_content P t = Some c /\ mac_valid P c pw = true /\ cipher_bad c = true /\
    read_wallet_tree P t pw = Ok w.
Proof.
  destruct (read_wallet_tree toy foreign_cipher []) as [w| |] eqn:E;
    [| vm_compute in E; discriminate | vm_compute in E; discriminate].
  destruct (decode_content toy foreign_cipher) as [c|] eqn:D; [| vm_compute in D; discriminate].
  exists toy, foreign_cipher, [], c, w. repeat split; auto.
  - assert (H : match decode_content toy foreign_cipher with Some c => mac_valid toy c [] | None => false end = true)
      by (vm_compute; reflexivity).
    rewrite D in H. exact H.
  - assert (H : match decode_content toy foreign_cipher with Some c => cipher_bad c | None => false end = true)
      by (vm_compute; reflexivity).
    rewrite D in H. exact H.
Qed.

(* ... and the specification refuses that file, so against the full standard a foreign key is returned *)
Theorem no_foreign_key_cipher_refuted :
  exists (P : prims) (t : json) (pw : bytes) (w : wallet),
    v3_wellformed t = true /\ read_wallet_tree P t pw = Ok w /\ v3_decrypt P t pw = Err SInvalid.
Proof.
  destruct (read_wallet_tree toy foreign_cipher []) as [w| |] eqn:E;
    [| vm_compute in E; discriminate | vm_compute in E; discriminate].
  exists toy, foreign_cipher, [], w. repeat split; auto; vm_compute; reflexivity.
Qed.

(* a leniently formed document (member name in another case): read by the code, not a document of the
   strict specification, yet its decoded content is V3-conforming and yields the key *)
Definition lenient :=
  match good with
  | JObj (i :: v :: (_, c) :: _) => JObj [i; v; (k "Crypto", c)]
  | _ => JNull
  end.
Example lenient_is_read : key_of (read_wallet_tree toy lenient []) = Some [x01; x02]
  /\ v3_wellformed lenient = false /\ v3_decrypt_gen false toy lenient [] = Err SInvalid
  /\ match decode_content toy lenient with Some c => content_key toy c [] | None => None end = Some [x01; x02].
Proof. vm_compute. repeat split; reflexivity. Qed.

(* ---------- the statements at the level of ReadWalletFile (bytes in, lexer oracle) ---------- *)
Theorem no_foreign_key_bytes (b : bool) P bytes pw w :
  ReadWalletFile P bytes pw = Ok w ->
  exists t cf,
    json_parse P bytes = Some t /\
    decode_content P t = Some (cf, w_crypto w, w_kdfparams w) /\
    content_key P (cf, w_crypto w, w_kdfparams w) pw = Some (PrivateKey w) /\
    (v3_wellformed t = true -> (b = true -> cc_cipher (w_crypto w) = cipherAES128ctr) ->
     v3_decrypt_gen b P t pw = Ok (PrivateKey w)).
Proof.
  unfold ReadWalletFile. destruct (json_parse P bytes) as [t|]; [|discriminate].
  intros H. destruct (accept_content P t pw w H) as (cf & Hd & Hk).
  exists t, cf. repeat split; auto. intros Hwf Hc. apply no_foreign_key_gen; assumption.
Qed.

Theorem malformed_rejected_bytes P bytes pw :
  cost_capped_bytes P bytes = true ->
  match json_parse P bytes with
  | None => True                                   (* not JSON *)
  | Some t =>
      match decode_content P t with
      | None => True                               (* structure malformed / unknown kdf *)
      | Some c => (core_bad c || iv_bad c || dklen_bad c || cost_bad c || prf_bad c || negb (mac_valid P c pw)) = true
      end
  end ->
  exists e, ReadWalletFile P bytes pw = Err e.
Proof.
  unfold ReadWalletFile, cost_capped_bytes. destruct (json_parse P bytes) as [t|]; [|eauto].
  apply malformed_rejected.
Qed.

(* without the cap: the malformations tested before the KDF call *)
Theorem malformed_rejected_early_bytes P bytes pw :
  match json_parse P bytes with
  | None => True
  | Some t =>
      match decode_content P t with
      | None => True
      | Some c => (core_bad c || dklen_bad c || cost_bad c || prf_bad c) = true
      end
  end ->
  exists e, ReadWalletFile P bytes pw = Err e.
Proof.
  unfold ReadWalletFile. destruct (json_parse P bytes) as [t|]; [|eauto].
  apply malformed_rejected_early.
Qed.
