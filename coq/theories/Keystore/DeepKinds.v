(* C15, wave 6: syntactic predicates on the JSON tree of a key file -- "a V3 member below the top level is
   of the wrong JSON kind / is not hexadecimal / is not an int64 integer literal".  Definitions only (used by
   the theorems of Keystore/TotalProofs9.v and, as an oracle on the implementation, by Keystore/RunC15.v).
   Member names are matched the way encoding/json matches them ([is_field]: letter case folded). *)
From Coq Require Import String.
From Coq Require Import List NArith ZArith Bool.
From Coq Require Import Init.Byte.
From FFS Require Import Base.Bytes Keystore.Json.
Import ListNotations.
Local Open Scope string_scope.
Local Open Scope list_scope.

(* ---------- what "wrong" means for a leaf, on the tree ---------- *)
(* a Go string field: a JSON string (null leaves the field alone) *)
Definition bad_string (v : json) : bool :=
  match v with JStr _ | JNull => false | _ => true end.
(* a HexBytesPlain field: a JSON string of hexadecimal digit pairs after an optional 0x *)
Definition bad_hex (v : json) : bool :=
  match v with
  | JStr s => match hex_decode (trim0x s) with Some _ => false | None => true end
  | JNull => false
  | _ => true
  end.
(* a Go int field: a JSON number whose literal is an integer inside int64 *)
Definition bad_int (v : json) : bool :=
  match v with
  | JNum l => match parse_int64 l with Some _ => false | None => true end
  | JNull => false
  | _ => true
  end.

Definition bad_member (name : string) (bad : json -> bool) (m : bytes * json) : bool :=
  is_field (fst m) name && bad (snd m).

(* a struct-valued member: not an object (null is a no-op), or an object with a bad member *)
Definition bad_struct (bad_m : bytes * json -> bool) (v : json) : bool :=
  match v with JObj ms => existsb bad_m ms | JNull => false | _ => true end.

Definition bad_cipherparams : json -> bool := bad_struct (bad_member "iv" bad_hex).

(* members of cryptoCommon *)
Definition bad_crypto_member (m : bytes * json) : bool :=
  bad_member "cipher" bad_string m || bad_member "ciphertext" bad_hex m
  || bad_member "cipherparams" bad_cipherparams m || bad_member "kdf" bad_string m || bad_member "mac" bad_hex m.

(* members of kdfparams that both KDF structs have *)
Definition bad_kdfparam_common (m : bytes * json) : bool :=
  bad_member "dklen" bad_int m || bad_member "salt" bad_hex m.
Definition bad_kdfparam_scrypt (m : bytes * json) : bool :=
  bad_kdfparam_common m || bad_member "n" bad_int m || bad_member "r" bad_int m || bad_member "p" bad_int m.
Definition bad_kdfparam_pbkdf2 (m : bytes * json) : bool :=
  bad_kdfparam_common m || bad_member "c" bad_int m || bad_member "prf" bad_string m.

(* a top-level member matched to "crypto" whose value is an object with a bad member *)
Definition deep_bad (bad_cm : bytes * json -> bool) (m : bytes * json) : bool :=
  is_field (fst m) "crypto" && match snd m with JObj cms => existsb bad_cm cms | _ => false end.

Definition bad_crypto_top : bytes * json -> bool := deep_bad bad_crypto_member.
Definition bad_kdfparams_top (bad_kp : bytes * json -> bool) : bytes * json -> bool :=
  deep_bad (bad_member "kdfparams" (bad_struct bad_kp)).

(* the whole document: not an object, or one of the two kdf-independent families *)
Definition deep_struct_bad (t : json) : bool :=
  match t with
  | JObj ms => existsb bad_crypto_top ms || existsb (bad_kdfparams_top bad_kdfparam_common) ms
  | _ => true
  end.
