(* C15, part 6: the bridge for leniently formed documents.

   encoding/json reads documents the strict specification Keystore/Spec.v does not define (case variants
   of member names, duplicate members, null / absent members, 0x-prefixed hex).  For those documents
   there is no "same document" to give to the specification; but the wallet the code returns can be
   marshalled again ([JSON_tree], the model of JSON()), and THAT document is a strict V3 document.  The
   theorem of this file: for every document [t] (lenient or not), every password and every behaviour of
   the primitives whose UUID parser returns 16 bytes,

       read_wallet_tree P t pw = Ok w  ->  v3_decrypt_gen false P (JSON_tree w) pw = Ok (PrivateKey w)

   i.e. every key the code returns is the key an independent strict V3 reader derives from the
   re-marshalled wallet (with the cipher test too when the file declares aes-128-ctr).

   Ingredients: (1) the two decoding passes of ReadWalletFile (walletFileCommon, then
   walletFileScrypt / walletFilePbkdf2) agree on id/version and on the cryptoCommon members (a
   simulation between the two folds over the member lists); (2) every integer field of a decoded file is
   an int64 (fold invariant), and [parse_int64 (print_Z z) = Some z] on int64 (Keystore/IntText.v);
   (3) a decoded id has 16 bytes (fold invariant, from the one law about the UUID parser), so its text
   form is RFC-4122 text; (4) the specification evaluated on the marshalled tree. *)
From Coq Require Import String.
From Coq Require Import List NArith ZArith Lia Bool Arith.
From Coq Require Import Init.Byte.
From FFS Require Import Base.Res Base.Bytes Keystore.Json Keystore.JsonFacts Keystore.IntText Keystore.Prims
  Keystore.Model Keystore.Spec Keystore.ReadTypes Keystore.TotalProofs Keystore.TotalProofs2 Keystore.ProofsNew.
Import ListNotations.
Local Open Scope string_scope.
Local Open Scope list_scope.

(* the one law about the UUID parser the bridge uses (google/uuid returns a [16]byte) *)
Definition uuid_parse_16 (P : prims) : Prop := forall s u, uuid_parse P s = Some u -> length u = 16%nat.

Lemma prim_laws_uuid_16 (P : prims) : prim_laws P -> uuid_parse_16 P.
Proof. intros L. exact (uuid_parse_len P L). Qed.

(* ---------- folds over member lists: invariants and simulations ---------- *)
Lemma fold_inv {S : Type} (step : S -> bytes -> json -> res S) (I : S -> Prop) :
  (forall st k v st', step st k v = Ok st' -> I st -> I st') ->
  forall ms st st', fold_members step ms st = Ok st' -> I st -> I st'.
Proof.
  intros Hs. induction ms as [|[k v] ms IH]; intros st st' H Hi; cbn [fold_members] in H.
  - injection H as <-. exact Hi.
  - apply bind_ok_inv in H as (st1 & H1 & H2). eapply IH; [exact H2|]. eapply Hs; eassumption.
Qed.

Lemma dec_object_inv {S : Type} (step : S -> bytes -> json -> res S) (I : S -> Prop) :
  (forall st k v st', step st k v = Ok st' -> I st -> I st') ->
  forall v st st', dec_object step st v = Ok st' -> I st -> I st'.
Proof.
  intros Hs v st st' H Hi. destruct v; cbn [dec_object] in H; try discriminate.
  - injection H as <-. exact Hi.
  - eapply fold_inv; eassumption.
Qed.

Lemma fold_sim {S1 S2 : Type} (s1 : S1 -> bytes -> json -> res S1) (s2 : S2 -> bytes -> json -> res S2)
      (R : S1 -> S2 -> Prop) :
  (forall a b k v a' b', R a b -> s1 a k v = Ok a' -> s2 b k v = Ok b' -> R a' b') ->
  forall ms a b a' b', R a b -> fold_members s1 ms a = Ok a' -> fold_members s2 ms b = Ok b' -> R a' b'.
Proof.
  intros Hs. induction ms as [|[k v] ms IH]; intros a b a' b' Hr H1 H2; cbn [fold_members] in H1, H2.
  - injection H1 as <-. injection H2 as <-. exact Hr.
  - apply bind_ok_inv in H1 as (a1 & H1 & H1'). apply bind_ok_inv in H2 as (b1 & H2 & H2').
    eapply IH; [|exact H1'|exact H2']. eapply Hs; eassumption.
Qed.

Lemma dec_object_sim {S1 S2 : Type} (s1 : S1 -> bytes -> json -> res S1) (s2 : S2 -> bytes -> json -> res S2)
      (R : S1 -> S2 -> Prop) :
  (forall a b k v a' b', R a b -> s1 a k v = Ok a' -> s2 b k v = Ok b' -> R a' b') ->
  forall v a b a' b', R a b -> dec_object s1 a v = Ok a' -> dec_object s2 b v = Ok b' -> R a' b'.
Proof.
  intros Hs v a b a' b' Hr H1 H2. destruct v; cbn [dec_object] in H1, H2; try discriminate.
  - injection H1 as <-. injection H2 as <-. exact Hr.
  - eapply fold_sim; eassumption.
Qed.

(* ---------- (1) the two passes agree on the core fields and on cryptoCommon ---------- *)
Lemma crypto_step_sim {K : Type} (sp : K -> bytes -> json -> res K) :
  forall (a : crypto_common) (b : crypto_common * K) k v a' b',
    a = fst b -> step_crypto_only a k v = Ok a' -> step_crypto_with sp b k v = Ok b' -> a' = fst b'.
Proof.
  intros a [cc kp] k v a' b' -> H1 H2. unfold step_crypto_only in H1. unfold step_crypto_with in H2.
  cbn [fst snd] in *.
  destruct (step_crypto_common cc k v) as [r|].
  - subst r. cbn [bind] in H2. injection H2 as <-. reflexivity.
  - injection H1 as <-. destruct (is_field k "kdfparams").
    + apply bind_ok_inv in H2 as (kp' & _ & H2). injection H2 as <-. reflexivity.
    + injection H2 as <-. reflexivity.
Qed.

Lemma wallet_step_sim {C1 C2 : Type} (P : prims) (sc1 : C1 -> bytes -> json -> res C1)
      (sc2 : C2 -> bytes -> json -> res C2) (R : C1 -> C2 -> Prop) :
  (forall a b k v a' b', R a b -> sc1 a k v = Ok a' -> sc2 b k v = Ok b' -> R a' b') ->
  forall (a : core_fields * C1) (b : core_fields * C2) k v a' b',
    (fst a = fst b /\ R (snd a) (snd b)) ->
    step_wallet P sc1 a k v = Ok a' -> step_wallet P sc2 b k v = Ok b' ->
    (fst a' = fst b' /\ R (snd a') (snd b')).
Proof.
  intros Hs [cf c1] [cf' c2] k v a' b' [E Hr] H1 H2. cbn [fst snd] in E, Hr. subst cf'.
  unfold step_wallet in H1, H2. cbn [fst snd] in H1, H2.
  destruct (step_core P cf k v) as [r|].
  - apply bind_ok_inv in H1 as (x & Hx & H1). apply bind_ok_inv in H2 as (y & Hy & H2).
    injection H1 as <-. injection H2 as <-. cbn [fst snd]. split; [congruence|exact Hr].
  - destruct (is_field k "crypto").
    + apply bind_ok_inv in H1 as (x & Hx & H1). apply bind_ok_inv in H2 as (y & Hy & H2).
      injection H1 as <-. injection H2 as <-. cbn [fst snd]. split; [reflexivity|].
      eapply dec_object_sim; eassumption.
    + injection H1 as <-. injection H2 as <-. cbn [fst snd]. split; [reflexivity|exact Hr].
Qed.

Lemma passes_agree {K : Type} (P : prims) (sp : K -> bytes -> json -> res K) (zero : K) t cf cc0 cf' cc kp :
  unmarshal_wallet P step_crypto_only zero_cc t = Ok (cf, cc0) ->
  unmarshal_wallet P (step_crypto_with sp) (zero_cc, zero) t = Ok (cf', (cc, kp)) ->
  cf = cf' /\ cc0 = cc.
Proof.
  unfold unmarshal_wallet. intros H1 H2.
  assert (H0 : fst (zero_core, zero_cc) = fst (zero_core, (zero_cc, zero)) /\
               snd (zero_core, zero_cc) = fst (snd (zero_core, (zero_cc, zero)))) by (split; reflexivity).
  pose proof (dec_object_sim _ _ (fun (a : core_fields * crypto_common) (b : core_fields * (crypto_common * K)) =>
                                    fst a = fst b /\ snd a = fst (snd b))
                (wallet_step_sim P _ _ (fun a b => a = fst b) (crypto_step_sim sp))
                t _ _ _ _ H0 H1 H2) as H.
  exact H.
Qed.

(* ---------- (2) decoded integers are int64 ---------- *)
Lemma dec_int_range cur v z : dec_int cur v = Ok z -> is_int64 cur -> is_int64 z.
Proof.
  destruct v; cbn [dec_int]; try discriminate.
  - intros H; injection H as <-. auto.
  - destruct (parse_int64 lit) eqn:E; [|discriminate]. intros H _; injection H as <-.
    eapply parse_int64_range; exact E.
Qed.

Definition sp_ints (s : scrypt_params) : Prop :=
  is_int64 (sp_dklen s) /\ is_int64 (sp_n s) /\ is_int64 (sp_p s) /\ is_int64 (sp_r s).
Definition pp_ints (p : pbkdf2_params) : Prop := is_int64 (pp_dklen p) /\ is_int64 (pp_c p).
Definition kdf_ints (k : kdf_params) : Prop :=
  match k with KScrypt s => sp_ints s | KPbkdf2 p => pp_ints p end.

Lemma is_int64_0 : is_int64 0.
Proof. unfold is_int64, int64_min, int64_max. lia. Qed.

Ltac open_fields H :=
  repeat match type of H with
         | context [if is_field ?k ?n then _ else _] => destruct (is_field k n); cbv beta iota in H
         end.
Ltac inv_ok :=
  repeat match goal with
         | H : bind _ _ = Ok _ |- _ =>
             let a := fresh "a" in let H1 := fresh "Hb" in let H2 := fresh "Hc" in
             apply bind_ok_inv in H; destruct H as (a & H1 & H2)
         | H : Ok _ = Ok _ |- _ => injection H as <-
         end.

Lemma step_scrypt_ints st k v st' : step_scrypt_params st k v = Ok st' -> sp_ints st -> sp_ints st'.
Proof.
  intros H (I1 & I2 & I3 & I4). unfold step_scrypt_params in H. open_fields H; inv_ok;
    unfold sp_ints; cbn [sp_dklen sp_n sp_p sp_r]; refine (conj _ (conj _ (conj _ _)));
    first [assumption | eapply dec_int_range; eassumption].
Qed.

Lemma step_pbkdf2_ints st k v st' : step_pbkdf2_params st k v = Ok st' -> pp_ints st -> pp_ints st'.
Proof.
  intros H (I1 & I2). unfold step_pbkdf2_params in H. open_fields H; inv_ok;
    unfold pp_ints; cbn [pp_dklen pp_c]; refine (conj _ _);
    first [assumption | eapply dec_int_range; eassumption].
Qed.

Lemma crypto_with_inv {K : Type} (sp : K -> bytes -> json -> res K) (I : K -> Prop) :
  (forall st k v st', sp st k v = Ok st' -> I st -> I st') ->
  forall (st : crypto_common * K) k v st', step_crypto_with sp st k v = Ok st' -> I (snd st) -> I (snd st').
Proof.
  intros Hs [cc kp] k v st' H Hi. unfold step_crypto_with in H. cbn [fst snd] in *.
  destruct (step_crypto_common cc k v) as [r|].
  - apply bind_ok_inv in H as (x & _ & H). injection H as <-. exact Hi.
  - destruct (is_field k "kdfparams").
    + apply bind_ok_inv in H as (kp' & Hd & H). injection H as <-. cbn [snd].
      eapply dec_object_inv; eassumption.
    + injection H as <-. exact Hi.
Qed.

(* ---------- (3) a decoded id has 16 bytes ---------- *)
Definition id_16 (cf : core_fields) : Prop :=
  match cf_id cf with Some u => length u = 16%nat | None => True end.

Lemma step_core_id P (LU : uuid_parse_16 P) cf k v r cf' :
  step_core P cf k v = Some r -> r = Ok cf' -> id_16 cf -> id_16 cf'.
Proof.
  unfold step_core. intros H Hr Hi.
  destruct (is_field k "id").
  - injection H as <-. apply bind_ok_inv in Hr as (u & Hu & Hr). injection Hr as <-.
    unfold id_16. cbn [cf_id]. unfold id_16 in Hi.
    destruct v; cbn [dec_uuid] in Hu; try discriminate.
    + injection Hu as <-. exact I.
    + destruct s as [|c s].
      * injection Hu as <-. destruct (cf_id cf); [exact Hi|reflexivity].
      * destruct (uuid_parse P (c :: s)) as [u'|] eqn:E; [|discriminate]. injection Hu as <-.
        eapply LU; exact E.
  - destruct (is_field k "version"); [|discriminate].
    injection H as <-. apply bind_ok_inv in Hr as (z & _ & Hr). injection Hr as <-. exact Hi.
Qed.

(* an invariant of the whole typed pass: the id has 16 bytes and the kdf parameters satisfy [I] *)
Lemma wallet_step_inv {C : Type} P (LU : uuid_parse_16 P) (sc : C -> bytes -> json -> res C) (I : C -> Prop) :
  (forall st k v st', sc st k v = Ok st' -> I st -> I st') ->
  forall (st : core_fields * C) k v st',
    step_wallet P sc st k v = Ok st' -> (id_16 (fst st) /\ I (snd st)) -> (id_16 (fst st') /\ I (snd st')).
Proof.
  intros Hs [cf c] k v st' H [Hi Hc]. unfold step_wallet in H. cbn [fst snd] in *.
  destruct (step_core P cf k v) as [r|] eqn:E.
  - apply bind_ok_inv in H as (cf' & Hr & H). injection H as <-. cbn [fst snd]. split; [|exact Hc].
    eapply step_core_id; eassumption.
  - destruct (is_field k "crypto").
    + apply bind_ok_inv in H as (c' & Hd & H). injection H as <-. cbn [fst snd]. split; [exact Hi|].
      eapply dec_object_inv; eassumption.
    + injection H as <-. split; assumption.
Qed.

Lemma unmarshal_typed_inv {K : Type} P (LU : uuid_parse_16 P) (sp : K -> bytes -> json -> res K) (Inv : K -> Prop)
      (zero : K) t cf cc kp :
  (forall st k v st', sp st k v = Ok st' -> Inv st -> Inv st') -> Inv zero ->
  unmarshal_wallet P (step_crypto_with sp) (zero_cc, zero) t = Ok (cf, (cc, kp)) ->
  id_16 cf /\ Inv kp.
Proof.
  intros Hs Hz H. unfold unmarshal_wallet in H.
  assert (H0 : id_16 (fst (zero_core, (zero_cc, zero))) /\ Inv (snd (snd (zero_core, (zero_cc, zero)))))
    by (split; [exact Logic.I|exact Hz]).
  exact (dec_object_inv _ (fun st : core_fields * (crypto_common * K) => id_16 (fst st) /\ Inv (snd (snd st)))
           (wallet_step_inv P LU _ (fun c => Inv (snd c)) (crypto_with_inv sp Inv Hs)) t _ _ H H0).
Qed.

(* ---------- what an accepted read went through ---------- *)
Lemma read_inv P t pw w :
  read_wallet_tree P t pw = Ok w ->
  exists cf cc0,
    unmarshal_wallet P step_crypto_only zero_cc t = Ok (cf, cc0) /\
    cf_version cf = 3%Z /\ cf_id cf <> None /\
    ((cc_kdf cc0 = kdfTypeScrypt /\ exists sp,
        unmarshal_wallet P (step_crypto_with step_scrypt_params) (zero_cc, zero_sp) t = Ok (w_core w, (w_crypto w, sp)) /\
        w_kdfparams w = KScrypt sp)
     \/
     (cc_kdf cc0 = kdfTypePbkdf2 /\ exists pp,
        unmarshal_wallet P (step_crypto_with step_pbkdf2_params) (zero_cc, zero_pp) t = Ok (w_core w, (w_crypto w, pp)) /\
        w_kdfparams w = KPbkdf2 pp)).
Proof.
  unfold read_wallet_tree.
  destruct (unmarshal_wallet P step_crypto_only zero_cc t) as [[cf cc0]|e|]; cbn [bind]; try (intros; discriminate).
  destruct (unmarshal_metadata P t) as [md|e|]; cbn [bind]; try (intros; discriminate).
  destruct (cf_id cf) eqn:Eid; [|intros; discriminate].
  destruct (cf_version cf =? version3)%Z eqn:Ev; cbn [negb]; [|intros; discriminate].
  apply Z.eqb_eq in Ev. unfold version3 in Ev.
  intros H. exists cf, cc0. split; [reflexivity|]. split; [exact Ev|]. split; [rewrite Eid; discriminate|].
  destruct (bytes_eqb (cc_kdf cc0) kdfTypeScrypt) eqn:Ks.
  - left. split; [apply bytes_eqb_eq; exact Ks|].
    unfold readScryptWalletFile in H.
    assert (H' : (do (cf, ck) <- unmarshal_wallet P (step_crypto_with step_scrypt_params) (zero_cc, zero_sp) t;
                  do key <- scrypt_decrypt P (fst ck) (snd ck) pw;
                  Ok {| w_core := cf; w_metadata := match md with Some m => m | None => [] end;
                        w_crypto := fst ck; w_kdfparams := KScrypt (snd ck); w_private := key |}) = Ok w)
      by (destruct t; try exact H; discriminate).
    clear H. apply bind_ok_inv in H' as ([cf' [cc sp]] & Hu & H').
    apply bind_ok_inv in H' as (key & Hd & H'). injection H' as <-. cbn [w_core w_crypto w_kdfparams fst snd].
    exists sp. split; [exact Hu|reflexivity].
  - destruct (bytes_eqb (cc_kdf cc0) kdfTypePbkdf2) eqn:Kp; [|discriminate].
    right. split; [apply bytes_eqb_eq; exact Kp|].
    unfold readPbkdf2WalletFile in H.
    assert (H' : (do (cf, ck) <- unmarshal_wallet P (step_crypto_with step_pbkdf2_params) (zero_cc, zero_pp) t;
                  do key <- pbkdf2_decrypt P (fst ck) (snd ck) pw;
                  Ok {| w_core := cf; w_metadata := match md with Some m => m | None => [] end;
                        w_crypto := fst ck; w_kdfparams := KPbkdf2 (snd ck); w_private := key |}) = Ok w)
      by (destruct t; try exact H; discriminate).
    clear H. apply bind_ok_inv in H' as ([cf' [cc pp]] & Hu & H').
    apply bind_ok_inv in H' as (key & Hd & H'). injection H' as <-. cbn [w_core w_crypto w_kdfparams fst snd].
    exists pp. split; [exact Hu|reflexivity].
Qed.

(* the kdf name of the crypto object and the kind of kdfparams belong together *)
Definition kdf_tag_ok (cc : crypto_common) (kp : kdf_params) : Prop :=
  match kp with KScrypt _ => cc_kdf cc = kdfTypeScrypt | KPbkdf2 _ => cc_kdf cc = kdfTypePbkdf2 end.

(* the shape of every wallet the read path returns *)
Theorem read_wallet_shape P (LU : uuid_parse_16 P) t pw w :
  read_wallet_tree P t pw = Ok w ->
  cf_version (w_core w) = 3%Z /\
  (exists u, cf_id (w_core w) = Some u /\ length u = 16%nat) /\
  kdf_tag_ok (w_crypto w) (w_kdfparams w) /\ kdf_ints (w_kdfparams w).
Proof.
  intros H. destruct (read_inv P t pw w H) as (cf & cc0 & H1 & Hv & Hid & [(Hk & sp & H2 & Hp)|(Hk & pp & H2 & Hp)]).
  - destruct (passes_agree P _ _ t _ _ _ _ _ H1 H2) as [E1 E2]. rewrite E1 in Hv, Hid. rewrite E2 in Hk.
    destruct (unmarshal_typed_inv P LU step_scrypt_params sp_ints zero_sp t _ _ _ step_scrypt_ints
                (conj is_int64_0 (conj is_int64_0 (conj is_int64_0 is_int64_0))) H2) as [Hi Hs].
    split; [exact Hv|]. split.
    + unfold id_16 in Hi. destruct (cf_id (w_core w)) as [u|]; [|congruence]. exists u. split; [reflexivity|exact Hi].
    + rewrite Hp. split; [exact Hk|exact Hs].
  - destruct (passes_agree P _ _ t _ _ _ _ _ H1 H2) as [E1 E2]. rewrite E1 in Hv, Hid. rewrite E2 in Hk.
    destruct (unmarshal_typed_inv P LU step_pbkdf2_params pp_ints zero_pp t _ _ _ step_pbkdf2_ints
                (conj is_int64_0 is_int64_0) H2) as [Hi Hs].
    split; [exact Hv|]. split.
    + unfold id_16 in Hi. destruct (cf_id (w_core w)) as [u|]; [|congruence]. exists u. split; [reflexivity|exact Hi].
    + rewrite Hp. split; [exact Hk|exact Hs].
Qed.

(* ---------- (4) the strict specification on the re-marshalled wallet ---------- *)
(* the members the specification looks at are exactly the ones marshalWalletJSON sets last (id, version,
   crypto), whatever the metadata map holds -- also entries whose keys are case variants of those names *)
Lemma spec_on_marshalled (b : bool) P pw (u : bytes) (md : jmap) (cc : crypto_common) (kp : kdf_params) key dk :
  length u = 16%nat ->
  kdf_ints kp -> kdf_tag_ok cc kp ->
  length (cc_iv cc) = 16%nat ->
  content_dk P kp pw = Some dk ->
  hash P (skipn 16 dk ++ cc_ciphertext cc) = cc_mac cc ->
  (b = true -> cc_cipher cc = cipherAES128ctr) ->
  v3_decrypt_gen b P (marshalWalletJSON {| w_core := {| cf_id := Some u; cf_version := 3 |}; w_metadata := md;
                                            w_crypto := cc; w_kdfparams := kp; w_private := key |}) pw
  = Ok (aes_ctr P (firstn 16 dk) (cc_iv cc) (cc_ciphertext cc)).
Proof.
  intros Lu Hints Htag Liv Hdk Hmac Hc.
  destruct cc as [cipher ct iv kdf mac]. cbn [cc_cipher cc_ciphertext cc_iv cc_kdf cc_mac] in *.
  unfold v3_decrypt_gen, marshalWalletJSON.
  cbn [w_core w_metadata w_crypto w_kdfparams w_private cf_id cf_version].
  unfold str_field, obj_field.
  rewrite (field_mset_other "version" (jkey "crypto")) by (vm_compute; discriminate).
  rewrite (field_mset_same "version").
  rewrite (field_mset_other "id" (jkey "crypto")) by (vm_compute; discriminate).
  rewrite (field_mset_other "id" (jkey "version")) by (vm_compute; discriminate).
  rewrite (field_mset_same "id").
  rewrite (field_mset_same "crypto").
  unfold crypto_json, jint.
  change (bytes_eqb (print_Z 3) (ascii_bytes "3")) with true. cbn [negb].
  rewrite (uuid_string_ok u Lu). cbn [negb].
  unfold hex_field, str_field, obj_field, crypto_common_members.
  cbn [w_crypto w_kdfparams cc_cipher cc_ciphertext cc_iv cc_kdf cc_mac app].
  change (field "cipher" _) with (Some (JStr cipher)).
  change (field "ciphertext" _) with (Some (jhex ct)).
  change (field "cipherparams" _) with (Some (JObj [(jkey "iv", jhex iv)])).
  change (field "kdf" _) with (Some (JStr kdf)).
  change (field "mac" _) with (Some (jhex mac)).
  change (field "kdfparams" _) with (Some (kdfparams_json kp)).
  unfold jhex. rewrite !hex_decode_encode.
  assert (Hbc : b && negb (bytes_eqb cipher (ascii_bytes "aes-128-ctr")) = false).
  { destruct b; [|reflexivity]. rewrite (Hc eq_refl). reflexivity. }
  destruct kp as [[dklen n p r salt]|[dklen c prf salt]]; cbn [kdfparams_json sp_dklen sp_n sp_p sp_r sp_salt pp_dklen pp_c pp_prf pp_salt];
    rewrite Hbc;
    change (field "iv" [(jkey "iv", JStr (hex_encode iv))]) with (Some (JStr (hex_encode iv)));
    cbv beta iota; rewrite hex_decode_encode, Liv; cbn [Nat.eqb negb];
    unfold kdf_tag_ok in Htag; cbn [cc_kdf] in Htag; subst kdf; unfold derive_key.
  - change (bytes_eqb kdfTypeScrypt (ascii_bytes "scrypt")) with true. cbv iota.
    unfold int_field, hex_field.
    change (field "dklen" _) with (Some (jint dklen)).
    change (field "n" _) with (Some (jint n)).
    change (field "r" _) with (Some (jint r)).
    change (field "p" _) with (Some (jint p)).
    match goal with |- context [field "salt" ?l] => change (field "salt" l) with (Some (JStr (hex_encode salt))) end.
    unfold jint. cbv beta iota.
    destruct Hints as (I1 & I2 & I3 & I4). cbn [sp_dklen sp_n sp_p sp_r] in *.
    rewrite !parse_print_int64 by assumption. rewrite hex_decode_encode.
    unfold content_dk, dklen_of, cost_params_ok, prf_ok in Hdk. cbn [sp_dklen sp_n sp_p sp_r sp_salt] in Hdk.
    rewrite andb_true_r in Hdk.
    destruct ((dklen =? 32)%Z && scrypt_pre n r p 32); [|discriminate]. injection Hdk as <-.
    rewrite Hmac, bytes_eqb_refl. reflexivity.
  - change (bytes_eqb kdfTypePbkdf2 (ascii_bytes "scrypt")) with false.
    change (bytes_eqb kdfTypePbkdf2 (ascii_bytes "pbkdf2")) with true. cbv iota.
    unfold int_field, hex_field, str_field.
    change (field "dklen" _) with (Some (jint dklen)).
    change (field "c" _) with (Some (jint c)).
    change (field "prf" _) with (Some (JStr prf)).
    match goal with |- context [field "salt" ?l] => change (field "salt" l) with (Some (JStr (hex_encode salt))) end.
    unfold jint. cbv beta iota.
    destruct Hints as (I1 & I2). cbn [pp_dklen pp_c] in *.
    rewrite !parse_print_int64 by assumption. rewrite hex_decode_encode.
    unfold content_dk, dklen_of, cost_params_ok, prf_ok in Hdk. cbn [pp_dklen pp_c pp_prf pp_salt] in Hdk.
    unfold prfHmacSHA256 in Hdk.
    destruct ((dklen =? 32)%Z && pbkdf2_pre c 32 && bytes_eqb prf (ascii_bytes "hmac-sha256")); [|discriminate].
    injection Hdk as <-.
    rewrite Hmac, bytes_eqb_refl. reflexivity.
Qed.

(* ---------- the bridge ---------- *)
(* [w'] = the returned wallet after any Metadata() assignments by the caller *)
Theorem lenient_read_then_strict_md (b : bool) P (LU : uuid_parse_16 P) t pw w w' :
  read_wallet_tree P t pw = Ok w -> same_but_metadata w' w ->
  (b = true -> cc_cipher (w_crypto w) = cipherAES128ctr) ->
  v3_decrypt_gen b P (JSON_tree w') pw = Ok (PrivateKey w).
Proof.
  intros H S Hc.
  destruct (read_wallet_shape P LU t pw w H) as (Hv & (u & Hid & Lu) & Htag & Hints).
  destruct (accept_content P t pw w H) as (cf0 & _ & Hk).
  unfold content_key in Hk.
  destruct ((cf_version cf0 =? 3)%Z && is_some (cf_id cf0) && (length (cc_iv (w_crypto w)) =? 16)%nat) eqn:E; [|discriminate].
  apply andb_true_iff in E as [_ Liv]. apply Nat.eqb_eq in Liv.
  destruct (content_dk P (w_kdfparams w) pw) as [dk|] eqn:Hdk; [|discriminate].
  destruct (bytes_eqb (hash P (skipn 16 dk ++ cc_ciphertext (w_crypto w))) (cc_mac (w_crypto w))) eqn:Hmac; [|discriminate].
  apply bytes_eqb_eq in Hmac. injection Hk as Hk.
  rewrite (same_but_metadata_eta _ _ S). unfold JSON_tree.
  destruct w as [[id ver] md cc kp key]. cbn [w_core w_crypto w_kdfparams w_private cf_id cf_version PrivateKey] in *.
  subst ver. rewrite Hid. rewrite <- Hk.
  apply spec_on_marshalled; assumption.
Qed.

Theorem lenient_read_then_strict (b : bool) P (LU : uuid_parse_16 P) t pw w :
  read_wallet_tree P t pw = Ok w ->
  (b = true -> cc_cipher (w_crypto w) = cipherAES128ctr) ->
  v3_decrypt_gen b P (JSON_tree w) pw = Ok (PrivateKey w).
Proof. intros H. apply (lenient_read_then_strict_md b P LU t pw w w H). repeat split. Qed.

(* at the level of ReadWalletFile: every key returned for ANY byte string is the key the strict
   specification derives from the re-marshalled wallet (the model of JSON()), also after any Metadata()
   assignments; together with the content statement of part 2 *)
Theorem no_foreign_key_any_document (b : bool) P (LU : uuid_parse_16 P) bytes pw w extras :
  ReadWalletFile P bytes pw = Ok w ->
  (b = true -> cc_cipher (w_crypto w) = cipherAES128ctr) ->
  v3_decrypt_gen b P (JSON_tree (assign_all w extras)) pw = Ok (PrivateKey w).
Proof.
  unfold ReadWalletFile. destruct (json_parse P bytes) as [t|]; [|discriminate].
  intros H Hc. eapply lenient_read_then_strict_md; try eassumption. apply assign_all_same.
Qed.
