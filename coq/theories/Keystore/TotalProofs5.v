(* C15, round 3 — on strictly formed, unambiguous documents the read path of pkg/keystorev3 and the
   independent V3 specification (without its cipher test, which the code does not make: known finding
   C15/cipher-ignored) accept exactly the same (document, password) pairs and return the same key; and the
   read path reports an error exactly when the specification derives no key.  Packages b-c07's
   [read_is_standard] (specification => code) with [no_foreign_key_gen] (code => specification) and
   totality. *)
From Coq Require Import String.
From Coq Require Import List NArith ZArith Lia Bool Arith.
From Coq Require Import Init.Byte.
From FFS Require Import Base.Res Base.Bytes Keystore.Json Keystore.Prims Keystore.Model Keystore.Spec
  Keystore.ReadTypes Keystore.TotalProofs Keystore.TotalProofs4 Keystore.ProofsFresh Keystore.ProofsRead Keystore.Toy.
Import ListNotations.

Theorem read_iff_spec (P : prims) :
  crypto_laws P -> uuid_accepts_text P ->
  forall (t : json) (pw k : bytes),
    v3_wellformed t = true -> unambiguous t = true -> nums_ok P t = true -> doc_alloc_ok t = true ->
    ((exists w, read_wallet_tree P t pw = Ok w /\ PrivateKey w = k) <-> v3_decrypt_gen false P t pw = Ok k).
Proof.
  intros L LU t pw k Hwf U N Hcap. split.
  - intros (w & R & <-). apply (no_foreign_key_gen false P t pw w Hwf R). discriminate.
  - intros D. destruct (read_is_standard P L LU false t pw k D U N Hcap) as (w & R & K & _).
    exists w. split; assumption.
Qed.

Theorem read_err_iff_spec (P : prims) :
  crypto_laws P -> uuid_accepts_text P ->
  forall (t : json) (pw : bytes),
    v3_wellformed t = true -> unambiguous t = true -> nums_ok P t = true -> doc_alloc_ok t = true ->
    ((exists e, read_wallet_tree P t pw = Err e) <-> (forall k, v3_decrypt_gen false P t pw <> Ok k)).
Proof.
  intros L LU t pw Hwf U N Hcap. split.
  - intros (e & R) k D.
    destruct (proj2 (read_iff_spec P L LU t pw k Hwf U N Hcap) D) as (w & R' & _). congruence.
  - intros H. destruct (read_wallet_tree P t pw) as [w | e |] eqn:R.
    + exfalso. apply (H (PrivateKey w)). apply (proj1 (read_iff_spec P L LU t pw (PrivateKey w) Hwf U N Hcap)).
      exists w. split; [assumption | reflexivity].
    + exists e. reflexivity.
    + exfalso. revert R. apply read_wallet_tree_total. apply wellformed_capped; assumption.
Qed.

(* non-vacuity: a file created by the model's NewWalletFileCustomBytesLight under the toy primitives (which
   satisfy crypto_laws and uuid_accepts_text) meets the three guards, is read, and is rejected under another
   password — both sides of both equivalences are inhabited *)
Definition iff_doc : option json :=
  match create_all toy [MkCustomLight [x70; x77] [x01; x02; x03]] (map (fun n => n2b (N.of_nat n)) (seq 0 70)) with
  | Ok ([w], _) => Some (JSON_tree w)
  | _ => None
  end.

Example read_iff_spec_nonvacuous :
  crypto_laws toy /\ uuid_accepts_text toy /\
  match iff_doc with
  | Some t =>
      v3_wellformed t = true /\ unambiguous t = true /\ nums_ok toy t = true /\ doc_alloc_ok t = true /\
      v3_decrypt_gen false toy t [x70; x77] = Ok [x01; x02; x03] /\
      (match read_wallet_tree toy t [x70; x77] with Ok w => PrivateKey w | _ => [] end) = [x01; x02; x03] /\
      (match read_wallet_tree toy t [x70] with Err _ => true | _ => false end) = true /\
      (match v3_decrypt_gen false toy t [x70] with Ok _ => false | _ => true end) = true
  | None => False
  end.
Proof.
  split; [exact toy_crypto_laws|]. split; [exact toy_uuid_accepts_text|].
  vm_compute. repeat split; reflexivity.
Qed.
