(* C07, standard files are read correctly: every document the V3 specification decrypts is read by
   the model to the same key (and its id), provided the member names of the objects involved are not
   ambiguous under encoding/json's case-insensitive matching and every number in the document fits a
   float64 (the document is also unmarshalled into map[string]interface{}). *)
From Coq Require Import String.
From Coq Require Import List NArith ZArith Lia Bool Arith.
From Coq Require Import Init.Byte.
From FFS Require Import Base.Res Base.Bytes Keystore.Json Keystore.JsonFacts Keystore.Prims Keystore.Model Keystore.Spec.
From FFS Require Import Keystore.ProofsNew.
Import ListNotations.
Local Open Scope string_scope.
Local Open Scope list_scope.

Ltac smp := cbn [bind negb orb andb fst snd].

(* ---------- generic facts about decoding an object member by member ---------- *)
Lemma fold_members_total {S : Type} (step : S -> bytes -> json -> res S) ms :
  (forall st k v, In (k, v) ms -> exists st', step st k v = Ok st') ->
  forall st, exists st', fold_members step ms st = Ok st'.
Proof.
  induction ms as [|[k v] ms IH]; intros H st; cbn [fold_members].
  - eexists; reflexivity.
  - destruct (H st k v (or_introl eq_refl)) as [st1 E]. rewrite E. smp.
    apply IH. intros st0 k0 v0 I. apply H. right; exact I.
Qed.

(* a projection that every "hit" member sets to [val] and every other member leaves alone ends up
   as [val] when there is a hit *)
Lemma fold_members_set {S A : Type} (step : S -> bytes -> json -> res S) (proj : S -> A)
      (hit : bytes -> bool) (val : A) ms :
  (forall st k v st', In (k, v) ms -> hit k = true -> step st k v = Ok st' -> proj st' = val) ->
  (forall st k v st', In (k, v) ms -> hit k = false -> step st k v = Ok st' -> proj st' = proj st) ->
  forall st st', fold_members step ms st = Ok st' ->
    (existsb (fun m => hit (fst m)) ms = true -> proj st' = val) /\
    (existsb (fun m => hit (fst m)) ms = false -> proj st' = proj st).
Proof.
  induction ms as [|[k v] ms IH]; intros H1 H2 st st'; cbn [fold_members existsb].
  - intros E; injection E as <-. split; [discriminate|reflexivity].
  - destruct (step st k v) as [st1| |] eqn:E1; smp; try discriminate. intros E.
    assert (H1' : forall st k v st', In (k, v) ms -> hit k = true -> step st k v = Ok st' -> proj st' = val)
      by (intros; eapply H1; eauto; right; assumption).
    assert (H2' : forall st k v st', In (k, v) ms -> hit k = false -> step st k v = Ok st' -> proj st' = proj st)
      by (intros; eapply H2; eauto; right; assumption).
    destruct (IH H1' H2' st1 st' E) as [Ia Ib]. cbn [fst].
    destruct (hit k) eqn:Hk; cbn [orb].
    + split; [|discriminate]. intros _.
      destruct (existsb (fun m => hit (fst m)) ms) eqn:X; [apply Ia; reflexivity|].
      rewrite (Ib eq_refl). eapply H1; eauto. left; reflexivity.
    + split.
      * exact Ia.
      * intros X. rewrite (Ib X). eapply H2; eauto. left; reflexivity.
Qed.

(* ---------- the specification's lookups ---------- *)
Lemma filter_singleton {A} (p : A -> bool) (l : list A) x :
  filter p l = [x] -> In x l /\ p x = true /\ forall y, In y l -> p y = true -> y = x.
Proof.
  intros F. assert (I : In x (filter p l)) by (rewrite F; left; reflexivity).
  apply filter_In in I as [I Px]. split; [exact I|]. split; [exact Px|].
  intros y Iy Py. assert (Iy' : In y (filter p l)) by (apply filter_In; auto).
  rewrite F in Iy'. destruct Iy' as [<-|[]]. reflexivity.
Qed.

Lemma field_some name ms v :
  field name ms = Some v ->
  In (ascii_bytes name, v) ms /\ forall v', In (ascii_bytes name, v') ms -> v' = v.
Proof.
  rewrite field_has_key.
  destruct (filter (has_key (ascii_bytes name)) ms) as [|[k0 v0] [|? ?]] eqn:F; try discriminate.
  intros H; injection H as ->.
  apply filter_singleton in F as [I [Pk U]]. unfold has_key in Pk. cbn [fst] in Pk.
  destruct (bytes_eqb_spec k0 (ascii_bytes name)) as [->|]; [|discriminate].
  split; [exact I|]. intros v' I'. specialize (U _ I' (has_key_self _ _)). congruence.
Qed.

Lemma existsb_hit name (ms : list (bytes * json)) v :
  In (ascii_bytes name, v) ms -> existsb (fun m => is_field (fst m) name) ms = true.
Proof.
  intros I. apply existsb_exists. exists (ascii_bytes name, v). split; [exact I|]. cbn [fst].
  unfold is_field. apply bytes_eqb_refl.
Qed.

(* no member of [ms] has a name that matches one of [fields] without being equal to it *)
Definition exact_names (fields : list string) (ms : list (bytes * json)) : bool :=
  forallb (fun m => forallb (fun f => implb (is_field (fst m) f) (bytes_eqb (fst m) (ascii_bytes f))) fields) ms.

Lemma member_is fields ms f vf k v :
  exact_names fields ms = true -> In f fields -> field f ms = Some vf ->
  In (k, v) ms -> is_field k f = true -> k = ascii_bytes f /\ v = vf.
Proof.
  intros X If Ff I E. unfold exact_names in X. rewrite forallb_forall in X.
  specialize (X _ I). rewrite forallb_forall in X. specialize (X _ If). cbn [fst] in X.
  rewrite E in X. cbn [implb] in X. destruct (bytes_eqb_spec k (ascii_bytes f)) as [->|]; [|discriminate].
  split; [reflexivity|]. apply field_some in Ff as [_ U]. apply U. exact I.
Qed.

Lemma trim0x_of_hex s b : hex_decode s = Some b -> trim0x s = s.
Proof.
  destruct s as [|a [|c t]]; try reflexivity. cbn [trim0x hex_decode].
  destruct (N.eqb_spec (b2n a) 48); cbn [andb]; [|reflexivity].
  destruct (N.eqb_spec (b2n c) 120) as [E|]; [|reflexivity].
  unfold hex_val at 2. rewrite E. cbn. destruct (hex_val a); discriminate.
Qed.

Lemma dec_hex_ok cur s b : hex_decode s = Some b -> dec_hex cur (JStr s) = Ok b.
Proof. intros H. unfold dec_hex. rewrite (trim0x_of_hex _ _ H), H. reflexivity. Qed.

Lemma int_field_some name ms z :
  int_field name ms = Some z -> exists l, field name ms = Some (JNum l) /\ parse_int64 l = Some z.
Proof.
  unfold int_field. destruct (field name ms) as [[| | l | | |]|]; try discriminate. intros H. exists l. auto.
Qed.
Lemma hex_field_some name ms b :
  hex_field name ms = Some b -> exists s, field name ms = Some (JStr s) /\ hex_decode s = Some b.
Proof.
  unfold hex_field. destruct (field name ms) as [[| | | s | |]|]; try discriminate. intros H. exists s. auto.
Qed.
Lemma str_field_some name ms s : str_field name ms = Some s -> field name ms = Some (JStr s).
Proof. unfold str_field. destruct (field name ms) as [[| | | s' | |]|]; try discriminate. intros H; injection H as ->. reflexivity. Qed.
Lemma obj_field_some name ms o : obj_field name ms = Some o -> field name ms = Some (JObj o).
Proof. unfold obj_field. destruct (field name ms) as [[| | | | |o']|]; try discriminate. intros H; injection H as ->. reflexivity. Qed.

Definition scrypt_fields : list string := ["dklen"; "n"; "p"; "r"; "salt"].
Definition pbkdf2_fields : list string := ["dklen"; "c"; "prf"; "salt"].
Definition crypto_fields : list string := ["cipher"; "ciphertext"; "cipherparams"; "kdf"; "mac"; "kdfparams"].
Definition top_fields : list string := ["id"; "version"; "crypto"].

(* ---------- tactics ---------- *)
(* evaluate the name tests on a literal key *)
Ltac reduce_is_field :=
  repeat match goal with
  | |- context [is_field (ascii_bytes ?a) ?b] =>
      let r := eval vm_compute in (is_field (ascii_bytes a) b) in
      change (is_field (ascii_bytes a) b) with r
  end; cbv iota.

(* a member whose name matches field f is THE member the specification found *)
Ltac the_member X Ff :=
  match type of X with
  | exact_names ?F ?ms = true =>
    match goal with
    | I : In (?k, ?v) ms, E : is_field ?k ?f = true |- _ =>
        let H := fresh in
        assert (H : In f F) by (cbn [In scrypt_fields pbkdf2_fields crypto_fields top_fields]; auto 12);
        let Hm := fresh in
        pose proof (member_is F ms f _ k v X H Ff I E) as Hm; destruct Hm as [-> ->]; clear H
    end
  end.

(* frame: a member that does not match field f leaves its projection alone *)
Ltac frame_tac stp :=
  let st := fresh "st" in let k := fresh "k" in let v := fresh "v" in let st' := fresh "st'" in
  intros st k v st' _ Hn; unfold stp;
  repeat match goal with |- context [if is_field k ?f then _ else _] => destruct (is_field k f) eqn:? end;
  try congruence;
  try (match goal with |- bind ?r _ = _ -> _ => destruct r end; smp; intros E; inversion E; reflexivity);
  try (intros E; inversion E; reflexivity).

(* ---------- kdfparams (scrypt) ---------- *)

Lemma scrypt_params_decoded kp dkl n r p salt :
  exact_names scrypt_fields kp = true ->
  int_field "dklen" kp = Some dkl -> int_field "n" kp = Some n -> int_field "r" kp = Some r ->
  int_field "p" kp = Some p -> hex_field "salt" kp = Some salt ->
  forall st0, fold_members step_scrypt_params kp st0 =
              Ok {| sp_dklen := dkl; sp_n := n; sp_p := p; sp_r := r; sp_salt := salt |}.
Proof.
  intros X Fd Fn Fr Fp Fs st0.
  apply int_field_some in Fd as [ld [Fd Pd]]. apply int_field_some in Fn as [ln [Fn Pn]].
  apply int_field_some in Fr as [lr [Fr Pr]]. apply int_field_some in Fp as [lp [Fp Pp]].
  apply hex_field_some in Fs as [ss [Fs Ps]].
  assert (T : forall st k v, In (k, v) kp -> exists st', step_scrypt_params st k v = Ok st').
  { intros st k v I. unfold step_scrypt_params.
    destruct (is_field k "dklen") eqn:E1; [the_member X Fd; cbn [dec_int]; rewrite Pd; eexists; reflexivity|].
    destruct (is_field k "n") eqn:E2; [the_member X Fn; cbn [dec_int]; rewrite Pn; eexists; reflexivity|].
    destruct (is_field k "p") eqn:E3; [the_member X Fp; cbn [dec_int]; rewrite Pp; eexists; reflexivity|].
    destruct (is_field k "r") eqn:E4; [the_member X Fr; cbn [dec_int]; rewrite Pr; eexists; reflexivity|].
    destruct (is_field k "salt") eqn:E5; [the_member X Fs; rewrite (dec_hex_ok _ _ _ Ps); eexists; reflexivity|].
    eexists; reflexivity. }
  destruct (fold_members_total _ kp T st0) as [st' E]. rewrite E. f_equal.
  assert (Hd : sp_dklen st' = dkl).
  { refine (proj1 (fold_members_set step_scrypt_params sp_dklen (fun k => is_field k "dklen") dkl kp _ _ st0 st' E) _).
    - intros st k v st1 I Hk. the_member X Fd. unfold step_scrypt_params. reduce_is_field. cbn [dec_int]. rewrite Pd. smp.
      intros H; inversion H; reflexivity.
    - frame_tac step_scrypt_params.
    - apply field_some in Fd as [I _]. exact (existsb_hit _ _ _ I). }
  assert (Hn : sp_n st' = n).
  { refine (proj1 (fold_members_set step_scrypt_params sp_n (fun k => is_field k "n") n kp _ _ st0 st' E) _).
    - intros st k v st1 I Hk. the_member X Fn. unfold step_scrypt_params. reduce_is_field. cbn [dec_int]. rewrite Pn. smp.
      intros H; inversion H; reflexivity.
    - frame_tac step_scrypt_params.
    - apply field_some in Fn as [I _]. exact (existsb_hit _ _ _ I). }
  assert (Hp : sp_p st' = p).
  { refine (proj1 (fold_members_set step_scrypt_params sp_p (fun k => is_field k "p") p kp _ _ st0 st' E) _).
    - intros st k v st1 I Hk. the_member X Fp. unfold step_scrypt_params. reduce_is_field. cbn [dec_int]. rewrite Pp. smp.
      intros H; inversion H; reflexivity.
    - frame_tac step_scrypt_params.
    - apply field_some in Fp as [I _]. exact (existsb_hit _ _ _ I). }
  assert (Hr : sp_r st' = r).
  { refine (proj1 (fold_members_set step_scrypt_params sp_r (fun k => is_field k "r") r kp _ _ st0 st' E) _).
    - intros st k v st1 I Hk. the_member X Fr. unfold step_scrypt_params. reduce_is_field. cbn [dec_int]. rewrite Pr. smp.
      intros H; inversion H; reflexivity.
    - frame_tac step_scrypt_params.
    - apply field_some in Fr as [I _]. exact (existsb_hit _ _ _ I). }
  assert (Hs : sp_salt st' = salt).
  { refine (proj1 (fold_members_set step_scrypt_params sp_salt (fun k => is_field k "salt") salt kp _ _ st0 st' E) _).
    - intros st k v st1 I Hk. the_member X Fs. unfold step_scrypt_params. reduce_is_field. rewrite (dec_hex_ok _ _ _ Ps). smp.
      intros H; inversion H; reflexivity.
    - frame_tac step_scrypt_params.
    - apply field_some in Fs as [I _]. exact (existsb_hit _ _ _ I). }
  destruct st'; cbn in *; subst; reflexivity.
Qed.
