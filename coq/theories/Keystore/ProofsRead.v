(* C07, standard files are read correctly: every document the V3 specification decrypts is read by
   the model to the same key (and its id), provided the member names of the objects involved are not
   ambiguous under encoding/json's case-insensitive matching and every number in the document fits a
   float64 (the document is also unmarshalled into map[string]interface{}). *)
From Coq Require Import String.
From Coq Require Import List NArith ZArith Lia Bool Arith.
From Coq Require Import Init.Byte.
From FFS Require Import Base.Res Base.Bytes Keystore.Json Keystore.JsonFacts Keystore.Prims Keystore.Model Keystore.Spec.
From FFS Require Import Keystore.ProofsNew.
(* only for [doc_alloc_ok], the allocation cap of scrypt.Key in the specification's vocabulary *)
From FFS Require Keystore.ReadTypes.
Notation doc_alloc_ok := Keystore.ReadTypes.doc_alloc_ok.
Import ListNotations.
Local Open Scope string_scope.
Local Open Scope list_scope.

Ltac smp := cbn [bind negb orb andb fst snd].

(* ---------- generic facts about decoding an object member by member ---------- *)
Lemma fold_members_total {S : Type} (step : S -> bytes -> json -> res S) ms :
  (forall st k v, In (k, v) ms -> exists st', step st k v = Ok st') ->
  forall st, exists st', fold_members step ms st = Ok st'.
Proof.
  induction ms as [|[k v] ms IH]; intros H st; cbn [fold_members].
  - eexists; reflexivity.
  - destruct (H st k v (or_introl eq_refl)) as [st1 E]. rewrite E. smp.
    apply IH. intros st0 k0 v0 I. apply H. right; exact I.
Qed.

(* a projection that every "hit" member sets to [val] and every other member leaves alone ends up
   as [val] when there is a hit *)
Lemma fold_members_set {S A : Type} (step : S -> bytes -> json -> res S) (proj : S -> A)
      (hit : bytes -> bool) (val : A) ms :
  (forall st k v st', In (k, v) ms -> hit k = true -> step st k v = Ok st' -> proj st' = val) ->
  (forall st k v st', In (k, v) ms -> hit k = false -> step st k v = Ok st' -> proj st' = proj st) ->
  forall st st', fold_members step ms st = Ok st' ->
    (existsb (fun m => hit (fst m)) ms = true -> proj st' = val) /\
    (existsb (fun m => hit (fst m)) ms = false -> proj st' = proj st).
Proof.
  induction ms as [|[k v] ms IH]; intros H1 H2 st st'; cbn [fold_members existsb].
  - intros E; injection E as <-. split; [discriminate|reflexivity].
  - destruct (step st k v) as [st1| |] eqn:E1; smp; try discriminate. intros E.
    assert (H1' : forall st k v st', In (k, v) ms -> hit k = true -> step st k v = Ok st' -> proj st' = val)
      by (intros; eapply H1; eauto; right; assumption).
    assert (H2' : forall st k v st', In (k, v) ms -> hit k = false -> step st k v = Ok st' -> proj st' = proj st)
      by (intros; eapply H2; eauto; right; assumption).
    destruct (IH H1' H2' st1 st' E) as [Ia Ib]. cbn [fst].
    destruct (hit k) eqn:Hk; cbn [orb].
    + split; [|discriminate]. intros _.
      destruct (existsb (fun m => hit (fst m)) ms) eqn:X; [apply Ia; reflexivity|].
      rewrite (Ib eq_refl). eapply H1; eauto. left; reflexivity.
    + split.
      * exact Ia.
      * intros X. rewrite (Ib X). eapply H2; eauto. left; reflexivity.
Qed.

(* ---------- the specification's lookups ---------- *)
Lemma filter_singleton {A} (p : A -> bool) (l : list A) x :
  filter p l = [x] -> In x l /\ p x = true /\ forall y, In y l -> p y = true -> y = x.
Proof.
  intros F. assert (I : In x (filter p l)) by (rewrite F; left; reflexivity).
  apply filter_In in I as [I Px]. split; [exact I|]. split; [exact Px|].
  intros y Iy Py. assert (Iy' : In y (filter p l)) by (apply filter_In; auto).
  rewrite F in Iy'. destruct Iy' as [<-|[]]. reflexivity.
Qed.

Lemma field_some name ms v :
  field name ms = Some v ->
  In (ascii_bytes name, v) ms /\ forall v', In (ascii_bytes name, v') ms -> v' = v.
Proof.
  rewrite field_has_key.
  destruct (filter (has_key (ascii_bytes name)) ms) as [|[k0 v0] [|? ?]] eqn:F; try discriminate.
  intros H; injection H as ->.
  apply filter_singleton in F as [I [Pk U]]. unfold has_key in Pk. cbn [fst] in Pk.
  destruct (bytes_eqb_spec k0 (ascii_bytes name)) as [->|]; [|discriminate].
  split; [exact I|]. intros v' I'. specialize (U _ I' (has_key_self _ _)). congruence.
Qed.

Lemma existsb_hit name (ms : list (bytes * json)) v :
  In (ascii_bytes name, v) ms -> existsb (fun m => is_field (fst m) name) ms = true.
Proof.
  intros I. apply existsb_exists. exists (ascii_bytes name, v). split; [exact I|]. cbn [fst].
  unfold is_field. apply bytes_eqb_refl.
Qed.

(* no member of [ms] has a name that matches one of [fields] without being equal to it *)
Definition exact_names (fields : list string) (ms : list (bytes * json)) : bool :=
  forallb (fun m => forallb (fun f => implb (is_field (fst m) f) (bytes_eqb (fst m) (ascii_bytes f))) fields) ms.

Lemma member_is fields ms f vf k v :
  exact_names fields ms = true -> In f fields -> field f ms = Some vf ->
  In (k, v) ms -> is_field k f = true -> k = ascii_bytes f /\ v = vf.
Proof.
  intros X If Ff I E. unfold exact_names in X. rewrite forallb_forall in X.
  specialize (X _ I). rewrite forallb_forall in X. specialize (X _ If). cbn [fst] in X.
  rewrite E in X. cbn [implb] in X. destruct (bytes_eqb_spec k (ascii_bytes f)) as [->|]; [|discriminate].
  split; [reflexivity|]. apply field_some in Ff as [_ U]. apply U. exact I.
Qed.

Lemma trim0x_of_hex s b : hex_decode s = Some b -> trim0x s = s.
Proof.
  destruct s as [|a [|c t]]; try reflexivity. cbn [trim0x hex_decode].
  destruct (N.eqb_spec (b2n a) 48); cbn [andb]; [|reflexivity].
  destruct (N.eqb_spec (b2n c) 120) as [E|]; [|reflexivity].
  unfold hex_val at 2. rewrite E. cbn. destruct (hex_val a); discriminate.
Qed.

Lemma dec_hex_ok cur s b : hex_decode s = Some b -> dec_hex cur (JStr s) = Ok b.
Proof. intros H. unfold dec_hex. rewrite (trim0x_of_hex _ _ H), H. reflexivity. Qed.

Lemma int_field_some name ms z :
  int_field name ms = Some z -> exists l, field name ms = Some (JNum l) /\ parse_int64 l = Some z.
Proof.
  unfold int_field. destruct (field name ms) as [[| | l | | |]|]; try discriminate. intros H. exists l. auto.
Qed.
Lemma hex_field_some name ms b :
  hex_field name ms = Some b -> exists s, field name ms = Some (JStr s) /\ hex_decode s = Some b.
Proof.
  unfold hex_field. destruct (field name ms) as [[| | | s | |]|]; try discriminate. intros H. exists s. auto.
Qed.
Lemma str_field_some name ms s : str_field name ms = Some s -> field name ms = Some (JStr s).
Proof. unfold str_field. destruct (field name ms) as [[| | | s' | |]|]; try discriminate. intros H; injection H as ->. reflexivity. Qed.
Lemma obj_field_some name ms o : obj_field name ms = Some o -> field name ms = Some (JObj o).
Proof. unfold obj_field. destruct (field name ms) as [[| | | | |o']|]; try discriminate. intros H; injection H as ->. reflexivity. Qed.

Definition scrypt_fields : list string := ["dklen"; "n"; "p"; "r"; "salt"].
Definition pbkdf2_fields : list string := ["dklen"; "c"; "prf"; "salt"].
Definition crypto_fields : list string := ["cipher"; "ciphertext"; "cipherparams"; "kdf"; "mac"; "kdfparams"].
Definition top_fields : list string := ["id"; "version"; "crypto"].

(* ---------- tactics ---------- *)
(* evaluate the name tests on a literal key *)
Ltac reduce_is_field :=
  repeat match goal with
  | |- context [is_field (ascii_bytes ?a) ?b] =>
      let r := eval vm_compute in (is_field (ascii_bytes a) b) in
      change (is_field (ascii_bytes a) b) with r
  end; cbv iota.

(* a member whose name matches field f is THE member the specification found *)
Ltac the_member X Ff :=
  match type of X with
  | exact_names ?F ?ms = true =>
    match goal with
    | I : In (?k, ?v) ms, E : is_field ?k ?f = true |- _ =>
        let H := fresh in
        assert (H : In f F) by (cbn [In scrypt_fields pbkdf2_fields crypto_fields top_fields]; auto 12);
        let Hm := fresh in
        pose proof (member_is F ms f _ k v X H Ff I E) as Hm; destruct Hm as [-> ->]; clear H
    end
  end.

(* frame: a member that does not match field f leaves its projection alone *)
Ltac frame_tac stp :=
  let st := fresh "st" in let k := fresh "k" in let v := fresh "v" in let st' := fresh "st'" in
  let Hnm := fresh "Hnm" in intros st k v st' _ Hnm; unfold stp;
  repeat match goal with |- context [if is_field k ?f then _ else _] => destruct (is_field k f) eqn:? end;
  try congruence;
  try (match goal with |- bind ?r _ = _ -> _ => destruct r end; smp;
       let Q := fresh in intros Q; inversion Q; reflexivity);
  try (let Q := fresh in intros Q; inversion Q; reflexivity).

(* ---------- kdfparams (scrypt) ---------- *)

Lemma scrypt_params_decoded kp dkl n r p salt :
  exact_names scrypt_fields kp = true ->
  int_field "dklen" kp = Some dkl -> int_field "n" kp = Some n -> int_field "r" kp = Some r ->
  int_field "p" kp = Some p -> hex_field "salt" kp = Some salt ->
  forall st0, fold_members step_scrypt_params kp st0 =
              Ok {| sp_dklen := dkl; sp_n := n; sp_p := p; sp_r := r; sp_salt := salt |}.
Proof.
  intros X Fd Fn Fr Fp Fs st0.
  apply int_field_some in Fd as [ld [Fd Pd]]. apply int_field_some in Fn as [ln [Fn Pn]].
  apply int_field_some in Fr as [lr [Fr Pr]]. apply int_field_some in Fp as [lp [Fp Pp]].
  apply hex_field_some in Fs as [ss [Fs Ps]].
  assert (T : forall st k v, In (k, v) kp -> exists st', step_scrypt_params st k v = Ok st').
  { intros st k v I. unfold step_scrypt_params.
    destruct (is_field k "dklen") eqn:E1; [the_member X Fd; cbn [dec_int]; rewrite Pd; eexists; reflexivity|].
    destruct (is_field k "n") eqn:E2; [the_member X Fn; cbn [dec_int]; rewrite Pn; eexists; reflexivity|].
    destruct (is_field k "p") eqn:E3; [the_member X Fp; cbn [dec_int]; rewrite Pp; eexists; reflexivity|].
    destruct (is_field k "r") eqn:E4; [the_member X Fr; cbn [dec_int]; rewrite Pr; eexists; reflexivity|].
    destruct (is_field k "salt") eqn:E5; [the_member X Fs; rewrite (dec_hex_ok _ _ _ Ps); eexists; reflexivity|].
    eexists; reflexivity. }
  destruct (fold_members_total _ kp T st0) as [st' E]. rewrite E. f_equal.
  assert (Hd : sp_dklen st' = dkl).
  { refine (proj1 (fold_members_set step_scrypt_params sp_dklen (fun k => is_field k "dklen") dkl kp _ _ st0 st' E) _).
    - intros st k v st1 I Hk. the_member X Fd. unfold step_scrypt_params. reduce_is_field. cbn [dec_int]. rewrite Pd. smp.
      intros H; inversion H; reflexivity.
    - frame_tac step_scrypt_params.
    - apply field_some in Fd as [I _]. exact (existsb_hit _ _ _ I). }
  assert (Hn : sp_n st' = n).
  { refine (proj1 (fold_members_set step_scrypt_params sp_n (fun k => is_field k "n") n kp _ _ st0 st' E) _).
    - intros st k v st1 I Hk. the_member X Fn. unfold step_scrypt_params. reduce_is_field. cbn [dec_int]. rewrite Pn. smp.
      intros H; inversion H; reflexivity.
    - frame_tac step_scrypt_params.
    - apply field_some in Fn as [I _]. exact (existsb_hit _ _ _ I). }
  assert (Hp : sp_p st' = p).
  { refine (proj1 (fold_members_set step_scrypt_params sp_p (fun k => is_field k "p") p kp _ _ st0 st' E) _).
    - intros st k v st1 I Hk. the_member X Fp. unfold step_scrypt_params. reduce_is_field. cbn [dec_int]. rewrite Pp. smp.
      intros H; inversion H; reflexivity.
    - frame_tac step_scrypt_params.
    - apply field_some in Fp as [I _]. exact (existsb_hit _ _ _ I). }
  assert (Hr : sp_r st' = r).
  { refine (proj1 (fold_members_set step_scrypt_params sp_r (fun k => is_field k "r") r kp _ _ st0 st' E) _).
    - intros st k v st1 I Hk. the_member X Fr. unfold step_scrypt_params. reduce_is_field. cbn [dec_int]. rewrite Pr. smp.
      intros H; inversion H; reflexivity.
    - frame_tac step_scrypt_params.
    - apply field_some in Fr as [I _]. exact (existsb_hit _ _ _ I). }
  assert (Hs : sp_salt st' = salt).
  { refine (proj1 (fold_members_set step_scrypt_params sp_salt (fun k => is_field k "salt") salt kp _ _ st0 st' E) _).
    - intros st k v st1 I Hk. the_member X Fs. unfold step_scrypt_params. reduce_is_field. rewrite (dec_hex_ok _ _ _ Ps). smp.
      intros H; inversion H; reflexivity.
    - frame_tac step_scrypt_params.
    - apply field_some in Fs as [I _]. exact (existsb_hit _ _ _ I). }
  destruct st'; cbn in *; subst; reflexivity.
Qed.

Ltac kill_decs :=
  repeat match goal with
  | |- context [dec_string ?a ?b] => destruct (dec_string a b)
  | |- context [dec_hex ?a ?b] => destruct (dec_hex a b)
  | |- context [dec_int ?a ?b] => destruct (dec_int a b)
  | |- context [dec_uuid ?P ?a ?b] => destruct (dec_uuid P a b)
  | |- context [dec_object ?s ?a ?b] => destruct (dec_object s a b)
  end.

Ltac frame_gen unf :=
  let st := fresh "st" in let k := fresh "k" in let v := fresh "v" in let st' := fresh "st'" in
  let Hnm := fresh "Hnm" in
  intros st k v st' _ Hnm; unf;
  repeat match goal with |- context [if is_field k ?f then _ else _] => destruct (is_field k f) eqn:? end;
  try congruence; cbv beta iota; kill_decs; smp; cbv beta iota; smp;
  try (let Q := fresh in intros Q; inversion Q; reflexivity).

(* ---------- kdfparams (pbkdf2) ---------- *)
Lemma pbkdf2_params_decoded kp dkl c prf salt :
  exact_names pbkdf2_fields kp = true ->
  int_field "dklen" kp = Some dkl -> int_field "c" kp = Some c -> str_field "prf" kp = Some prf ->
  hex_field "salt" kp = Some salt ->
  forall st0, fold_members step_pbkdf2_params kp st0 =
              Ok {| pp_dklen := dkl; pp_c := c; pp_prf := prf; pp_salt := salt |}.
Proof.
  intros X Fd Fc Fp Fs st0.
  apply int_field_some in Fd as [ld [Fd Pd]]. apply int_field_some in Fc as [lc [Fc Pc]].
  apply str_field_some in Fp. apply hex_field_some in Fs as [ss [Fs Ps]].
  assert (T : forall st k v, In (k, v) kp -> exists st', step_pbkdf2_params st k v = Ok st').
  { intros st k v I. unfold step_pbkdf2_params.
    destruct (is_field k "dklen") eqn:E1; [the_member X Fd; cbn [dec_int]; rewrite Pd; eexists; reflexivity|].
    destruct (is_field k "c") eqn:E2; [the_member X Fc; cbn [dec_int]; rewrite Pc; eexists; reflexivity|].
    destruct (is_field k "prf") eqn:E3; [the_member X Fp; cbn [dec_string]; eexists; reflexivity|].
    destruct (is_field k "salt") eqn:E5; [the_member X Fs; rewrite (dec_hex_ok _ _ _ Ps); eexists; reflexivity|].
    eexists; reflexivity. }
  destruct (fold_members_total _ kp T st0) as [st' E]. rewrite E. f_equal.
  assert (Hd : pp_dklen st' = dkl).
  { refine (proj1 (fold_members_set step_pbkdf2_params pp_dklen (fun k => is_field k "dklen") dkl kp _ _ st0 st' E) _).
    - intros st k v st1 I Hk. the_member X Fd. unfold step_pbkdf2_params. reduce_is_field. cbn [dec_int]. rewrite Pd. smp.
      intros H; inversion H; reflexivity.
    - frame_gen ltac:(unfold step_pbkdf2_params).
    - apply field_some in Fd as [I _]. exact (existsb_hit _ _ _ I). }
  assert (Hc : pp_c st' = c).
  { refine (proj1 (fold_members_set step_pbkdf2_params pp_c (fun k => is_field k "c") c kp _ _ st0 st' E) _).
    - intros st k v st1 I Hk. the_member X Fc. unfold step_pbkdf2_params. reduce_is_field. cbn [dec_int]. rewrite Pc. smp.
      intros H; inversion H; reflexivity.
    - frame_gen ltac:(unfold step_pbkdf2_params).
    - apply field_some in Fc as [I _]. exact (existsb_hit _ _ _ I). }
  assert (Hp : pp_prf st' = prf).
  { refine (proj1 (fold_members_set step_pbkdf2_params pp_prf (fun k => is_field k "prf") prf kp _ _ st0 st' E) _).
    - intros st k v st1 I Hk. the_member X Fp. unfold step_pbkdf2_params. reduce_is_field. cbn [dec_string]. smp.
      intros H; inversion H; reflexivity.
    - frame_gen ltac:(unfold step_pbkdf2_params).
    - apply field_some in Fp as [I _]. exact (existsb_hit _ _ _ I). }
  assert (Hs : pp_salt st' = salt).
  { refine (proj1 (fold_members_set step_pbkdf2_params pp_salt (fun k => is_field k "salt") salt kp _ _ st0 st' E) _).
    - intros st k v st1 I Hk. the_member X Fs. unfold step_pbkdf2_params. reduce_is_field. rewrite (dec_hex_ok _ _ _ Ps). smp.
      intros H; inversion H; reflexivity.
    - frame_gen ltac:(unfold step_pbkdf2_params).
    - apply field_some in Fs as [I _]. exact (existsb_hit _ _ _ I). }
  destruct st'; cbn in *; subst; reflexivity.
Qed.

(* ---------- cipherparams ---------- *)
Lemma cipherparams_decoded cp iv :
  exact_names ["iv"] cp = true -> hex_field "iv" cp = Some iv ->
  forall st0, fold_members step_cipherparams cp st0 = Ok iv.
Proof.
  intros X Fi st0. apply hex_field_some in Fi as [s [Fi Pi]].
  assert (T : forall st k v, In (k, v) cp -> exists st', step_cipherparams st k v = Ok st').
  { intros st k v I. unfold step_cipherparams.
    destruct (is_field k "iv") eqn:E1; [the_member X Fi; rewrite (dec_hex_ok _ _ _ Pi); eexists; reflexivity|].
    eexists; reflexivity. }
  destruct (fold_members_total _ cp T st0) as [st' E]. rewrite E. f_equal.
  refine (proj1 (fold_members_set step_cipherparams (fun x => x) (fun k => is_field k "iv") iv cp _ _ st0 st' E) _).
  - intros st k v st1 I Hk. the_member X Fi. unfold step_cipherparams. reduce_is_field. rewrite (dec_hex_ok _ _ _ Pi).
    intros H; inversion H; reflexivity.
  - intros st k v st1 _ Hk. unfold step_cipherparams. rewrite Hk. intros H; inversion H; reflexivity.
  - apply field_some in Fi as [I _]. exact (existsb_hit _ _ _ I).
Qed.

(* ---------- crypto ---------- *)
Section Crypto.
Variables (c cp : list (bytes * json)) (cipher ct iv kdf mac : bytes).
Hypothesis X : exact_names crypto_fields c = true.
Hypothesis Fcipher : field "cipher" c = Some (JStr cipher).
Variable sct : bytes.
Hypothesis Fct : field "ciphertext" c = Some (JStr sct).
Hypothesis Pct : hex_decode sct = Some ct.
Hypothesis Fcp : field "cipherparams" c = Some (JObj cp).
Hypothesis Dcp : forall st0, fold_members step_cipherparams cp st0 = Ok iv.
Hypothesis Fkdf : field "kdf" c = Some (JStr kdf).
Variable smac : bytes.
Hypothesis Fmac : field "mac" c = Some (JStr smac).
Hypothesis Pmac : hex_decode smac = Some mac.

Definition cc_target : crypto_common :=
  {| cc_cipher := cipher; cc_ciphertext := ct; cc_iv := iv; cc_kdf := kdf; cc_mac := mac |}.

Ltac common_total :=
  match goal with
  | I : In (?k, ?v) c |- _ =>
    destruct (is_field k "cipher") eqn:E1; [the_member X Fcipher; cbn [dec_string]; smp; eexists; reflexivity|];
    destruct (is_field k "ciphertext") eqn:E2; [the_member X Fct; rewrite (dec_hex_ok _ _ _ Pct); smp; eexists; reflexivity|];
    destruct (is_field k "cipherparams") eqn:E3; [the_member X Fcp; cbn [dec_object]; rewrite Dcp; smp; eexists; reflexivity|];
    destruct (is_field k "kdf") eqn:E4; [the_member X Fkdf; cbn [dec_string]; smp; eexists; reflexivity|];
    destruct (is_field k "mac") eqn:E5; [the_member X Fmac; rewrite (dec_hex_ok _ _ _ Pmac); smp; eexists; reflexivity|]
  end.

(* walletFileCommon.Crypto *)
Lemma crypto_only_decoded : forall st0, fold_members step_crypto_only c st0 = Ok cc_target.
Proof.
  intros st0.
  assert (T : forall st k v, In (k, v) c -> exists st', step_crypto_only st k v = Ok st').
  { intros st k v I. unfold step_crypto_only, step_crypto_common. common_total. eexists; reflexivity. }
  destruct (fold_members_total _ c T st0) as [st' E]. rewrite E. f_equal.
  assert (H1 : cc_cipher st' = cipher).
  { refine (proj1 (fold_members_set step_crypto_only cc_cipher (fun k => is_field k "cipher") cipher c _ _ st0 st' E) _).
    - intros st k v st1 I Hk. the_member X Fcipher. unfold step_crypto_only, step_crypto_common. reduce_is_field. cbn [dec_string]. smp.
      intros H; inversion H; reflexivity.
    - frame_gen ltac:(unfold step_crypto_only, step_crypto_common).
    - apply field_some in Fcipher as [I _]. exact (existsb_hit _ _ _ I). }
  assert (H2 : cc_ciphertext st' = ct).
  { refine (proj1 (fold_members_set step_crypto_only cc_ciphertext (fun k => is_field k "ciphertext") ct c _ _ st0 st' E) _).
    - intros st k v st1 I Hk. the_member X Fct. unfold step_crypto_only, step_crypto_common. reduce_is_field. rewrite (dec_hex_ok _ _ _ Pct). smp.
      intros H; inversion H; reflexivity.
    - frame_gen ltac:(unfold step_crypto_only, step_crypto_common).
    - apply field_some in Fct as [I _]. exact (existsb_hit _ _ _ I). }
  assert (H3 : cc_iv st' = iv).
  { refine (proj1 (fold_members_set step_crypto_only cc_iv (fun k => is_field k "cipherparams") iv c _ _ st0 st' E) _).
    - intros st k v st1 I Hk. the_member X Fcp. unfold step_crypto_only, step_crypto_common. reduce_is_field. cbn [dec_object]. rewrite Dcp. smp.
      intros H; inversion H; reflexivity.
    - frame_gen ltac:(unfold step_crypto_only, step_crypto_common).
    - apply field_some in Fcp as [I _]. exact (existsb_hit _ _ _ I). }
  assert (H4 : cc_kdf st' = kdf).
  { refine (proj1 (fold_members_set step_crypto_only cc_kdf (fun k => is_field k "kdf") kdf c _ _ st0 st' E) _).
    - intros st k v st1 I Hk. the_member X Fkdf. unfold step_crypto_only, step_crypto_common. reduce_is_field. cbn [dec_string]. smp.
      intros H; inversion H; reflexivity.
    - frame_gen ltac:(unfold step_crypto_only, step_crypto_common).
    - apply field_some in Fkdf as [I _]. exact (existsb_hit _ _ _ I). }
  assert (H5 : cc_mac st' = mac).
  { refine (proj1 (fold_members_set step_crypto_only cc_mac (fun k => is_field k "mac") mac c _ _ st0 st' E) _).
    - intros st k v st1 I Hk. the_member X Fmac. unfold step_crypto_only, step_crypto_common. reduce_is_field. rewrite (dec_hex_ok _ _ _ Pmac). smp.
      intros H; inversion H; reflexivity.
    - frame_gen ltac:(unfold step_crypto_only, step_crypto_common).
    - apply field_some in Fmac as [I _]. exact (existsb_hit _ _ _ I). }
  unfold cc_target. destruct st'; cbn in *; subst; reflexivity.
Qed.

(* cryptoScrypt / cryptoPbkdf2 *)
Variable K : Type.
Variable step_params : K -> bytes -> json -> res K.
Variable kp : list (bytes * json).
Variable target : K.
Hypothesis Fkp : field "kdfparams" c = Some (JObj kp).
Hypothesis Dkp : forall st0, fold_members step_params kp st0 = Ok target.

Lemma crypto_with_decoded : forall st0, fold_members (step_crypto_with step_params) c st0 = Ok (cc_target, target).
Proof.
  intros st0.
  assert (T : forall st k v, In (k, v) c -> exists st', step_crypto_with step_params st k v = Ok st').
  { intros st k v I. unfold step_crypto_with, step_crypto_common. common_total.
    destruct (is_field k "kdfparams") eqn:E6; [the_member X Fkp; cbn [dec_object]; rewrite Dkp; smp; eexists; reflexivity|].
    eexists; reflexivity. }
  destruct (fold_members_total _ c T st0) as [st' E]. rewrite E. f_equal.
  assert (H1 : cc_cipher (fst st') = cipher).
  { refine (proj1 (fold_members_set (step_crypto_with step_params) (fun s => cc_cipher (fst s)) (fun k => is_field k "cipher") cipher c _ _ st0 st' E) _).
    - intros st k v st1 I Hk. the_member X Fcipher. unfold step_crypto_with, step_crypto_common. reduce_is_field. cbn [dec_string]. smp.
      intros H; inversion H; reflexivity.
    - frame_gen ltac:(unfold step_crypto_with, step_crypto_common).
    - apply field_some in Fcipher as [I _]. exact (existsb_hit _ _ _ I). }
  assert (H2 : cc_ciphertext (fst st') = ct).
  { refine (proj1 (fold_members_set (step_crypto_with step_params) (fun s => cc_ciphertext (fst s)) (fun k => is_field k "ciphertext") ct c _ _ st0 st' E) _).
    - intros st k v st1 I Hk. the_member X Fct. unfold step_crypto_with, step_crypto_common. reduce_is_field. rewrite (dec_hex_ok _ _ _ Pct). smp.
      intros H; inversion H; reflexivity.
    - frame_gen ltac:(unfold step_crypto_with, step_crypto_common).
    - apply field_some in Fct as [I _]. exact (existsb_hit _ _ _ I). }
  assert (H3 : cc_iv (fst st') = iv).
  { refine (proj1 (fold_members_set (step_crypto_with step_params) (fun s => cc_iv (fst s)) (fun k => is_field k "cipherparams") iv c _ _ st0 st' E) _).
    - intros st k v st1 I Hk. the_member X Fcp. unfold step_crypto_with, step_crypto_common. reduce_is_field. cbn [dec_object]. rewrite Dcp. smp.
      intros H; inversion H; reflexivity.
    - frame_gen ltac:(unfold step_crypto_with, step_crypto_common).
    - apply field_some in Fcp as [I _]. exact (existsb_hit _ _ _ I). }
  assert (H4 : cc_kdf (fst st') = kdf).
  { refine (proj1 (fold_members_set (step_crypto_with step_params) (fun s => cc_kdf (fst s)) (fun k => is_field k "kdf") kdf c _ _ st0 st' E) _).
    - intros st k v st1 I Hk. the_member X Fkdf. unfold step_crypto_with, step_crypto_common. reduce_is_field. cbn [dec_string]. smp.
      intros H; inversion H; reflexivity.
    - frame_gen ltac:(unfold step_crypto_with, step_crypto_common).
    - apply field_some in Fkdf as [I _]. exact (existsb_hit _ _ _ I). }
  assert (H5 : cc_mac (fst st') = mac).
  { refine (proj1 (fold_members_set (step_crypto_with step_params) (fun s => cc_mac (fst s)) (fun k => is_field k "mac") mac c _ _ st0 st' E) _).
    - intros st k v st1 I Hk. the_member X Fmac. unfold step_crypto_with, step_crypto_common. reduce_is_field. rewrite (dec_hex_ok _ _ _ Pmac). smp.
      intros H; inversion H; reflexivity.
    - frame_gen ltac:(unfold step_crypto_with, step_crypto_common).
    - apply field_some in Fmac as [I _]. exact (existsb_hit _ _ _ I). }
  assert (H6 : snd st' = target).
  { refine (proj1 (fold_members_set (step_crypto_with step_params) snd (fun k => is_field k "kdfparams") target c _ _ st0 st' E) _).
    - intros st k v st1 I Hk. the_member X Fkp. unfold step_crypto_with, step_crypto_common. reduce_is_field. cbn [dec_object]. rewrite Dkp. smp.
      intros H; inversion H; reflexivity.
    - frame_gen ltac:(unfold step_crypto_with, step_crypto_common).
    - apply field_some in Fkp as [I _]. exact (existsb_hit _ _ _ I). }
  unfold cc_target. destruct st' as [[] ?]; cbn in *; subst; reflexivity.
Qed.
End Crypto.

(* ---------- the document ---------- *)
Section Top.
Variables (P : prims) (top c : list (bytes * json)) (id u lv : bytes) (ver : Z).
Hypothesis X : exact_names top_fields top = true.
Hypothesis Fid : field "id" top = Some (JStr id).
Hypothesis Nid : id <> [].
Hypothesis Pid : uuid_parse P id = Some u.
Hypothesis Fver : field "version" top = Some (JNum lv).
Hypothesis Pver : parse_int64 lv = Some ver.
Hypothesis Fc : field "crypto" top = Some (JObj c).
Variable C : Type.
Variable step_crypto : C -> bytes -> json -> res C.
Variable target : C.
Hypothesis Dc : forall st0, fold_members step_crypto c st0 = Ok target.

Lemma dec_uuid_id cur : dec_uuid P cur (JStr id) = Ok (Some u).
Proof. unfold dec_uuid. destruct id; [congruence|]. rewrite Pid. reflexivity. Qed.

Lemma wallet_decoded zero :
  unmarshal_wallet P step_crypto zero (JObj top) = Ok ({| cf_id := Some u; cf_version := ver |}, target).
Proof.
  unfold unmarshal_wallet. cbn [dec_object]. set (st0 := (zero_core, zero)).
  assert (T : forall st k v, In (k, v) top -> exists st', step_wallet P step_crypto st k v = Ok st').
  { intros st k v I. unfold step_wallet, step_core.
    destruct (is_field k "id") eqn:E1; [the_member X Fid; rewrite dec_uuid_id; smp; eexists; reflexivity|].
    destruct (is_field k "version") eqn:E2; [the_member X Fver; cbn [dec_int]; rewrite Pver; smp; eexists; reflexivity|].
    destruct (is_field k "crypto") eqn:E3; [the_member X Fc; cbn [dec_object]; rewrite Dc; smp; eexists; reflexivity|].
    eexists; reflexivity. }
  destruct (fold_members_total _ top T st0) as [st' E]. rewrite E. f_equal.
  assert (H1 : cf_id (fst st') = Some u).
  { refine (proj1 (fold_members_set (step_wallet P step_crypto) (fun s => cf_id (fst s)) (fun k => is_field k "id") (Some u) top _ _ st0 st' E) _).
    - intros st k v st1 I Hk. the_member X Fid. unfold step_wallet, step_core. reduce_is_field. rewrite dec_uuid_id. smp.
      intros H; inversion H; reflexivity.
    - frame_gen ltac:(unfold step_wallet, step_core).
    - apply field_some in Fid as [I _]. exact (existsb_hit _ _ _ I). }
  assert (H2 : cf_version (fst st') = ver).
  { refine (proj1 (fold_members_set (step_wallet P step_crypto) (fun s => cf_version (fst s)) (fun k => is_field k "version") ver top _ _ st0 st' E) _).
    - intros st k v st1 I Hk. the_member X Fver. unfold step_wallet, step_core. reduce_is_field. cbn [dec_int]. rewrite Pver. smp.
      intros H; inversion H; reflexivity.
    - frame_gen ltac:(unfold step_wallet, step_core).
    - apply field_some in Fver as [I _]. exact (existsb_hit _ _ _ I). }
  assert (H3 : snd st' = target).
  { refine (proj1 (fold_members_set (step_wallet P step_crypto) snd (fun k => is_field k "crypto") target top _ _ st0 st' E) _).
    - intros st k v st1 I Hk. the_member X Fc. unfold step_wallet, step_core. reduce_is_field. cbn [dec_object]. rewrite Dc. smp.
      intros H; inversion H; reflexivity.
    - frame_gen ltac:(unfold step_wallet, step_core).
    - apply field_some in Fc as [I _]. exact (existsb_hit _ _ _ I). }
  destruct st' as [[] ?]; cbn in *; subst; reflexivity.
Qed.
End Top.

(* ---------- json.Unmarshal into map[string]interface{} ---------- *)
(* every number literal of the document converts to a float64 *)
Fixpoint nums_ok (P : prims) (j : json) : bool :=
  match j with
  | JNum l => match json_num P l with Some _ => true | None => false end
  | JArr l => forallb (nums_ok P) l
  | JObj ms => forallb (fun m => nums_ok P (snd m)) ms
  | _ => true
  end.

Lemma dec_iface_total P j : nums_ok P j = true ->
  exists j', dec_iface P j = Ok j' /\ (forall ms, j = JObj ms -> exists m, j' = JObj m).
Proof.
  induction j as [| b | l | s | l IH | ms IH] using json_ind'; intros N.
  - eexists; split; [reflexivity|]; discriminate.
  - eexists; split; [reflexivity|]; discriminate.
  - cbn [nums_ok] in N. cbn [dec_iface]. destruct (json_num P l); [|discriminate].
    eexists; split; [reflexivity|]; discriminate.
  - eexists; split; [reflexivity|]; discriminate.
  - cbn [nums_ok] in N. cbn [dec_iface].
    assert (G : exists l', (fix go (l : list json) : res (list json) :=
                  match l with
                  | [] => Ok []
                  | x :: t => do x' <- dec_iface P x; do t' <- go t; Ok (x' :: t')
                  end) l = Ok l').
    { induction IH as [|x t Hx Ht IHt]; [eexists; reflexivity|].
      cbn [forallb] in N. apply andb_prop in N as [N1 N2].
      destruct (Hx N1) as [x' [Ex _]]. destruct (IHt N2) as [t' Et].
      rewrite Ex. smp. rewrite Et. smp. eexists; reflexivity. }
    destruct G as [l' G]. rewrite G. smp. eexists; split; [reflexivity|]; discriminate.
  - cbn [nums_ok] in N. cbn [dec_iface].
    assert (G : forall acc, exists m, (fix go (ms : list (bytes * json)) (acc : jmap) : res jmap :=
                 match ms with
                 | [] => Ok acc
                 | (k, x) :: t => do x' <- dec_iface P x; go t (mset k x' acc)
                 end) ms acc = Ok m).
    { induction IH as [|[k x] t Hx Ht IHt]; intros acc; [eexists; reflexivity|].
      cbn [forallb snd] in N. apply andb_prop in N as [N1 N2]. cbn [snd] in Hx.
      destruct (Hx N1) as [x' [Ex _]]. rewrite Ex. smp. apply IHt. exact N2. }
    destruct (G []) as [m G']. rewrite G'. smp. eexists; split; [reflexivity|].
    intros ms' _. eexists; reflexivity.
Qed.

Lemma unmarshal_metadata_ok P top : nums_ok P (JObj top) = true ->
  exists m, unmarshal_metadata P (JObj top) = Ok (Some m).
Proof.
  intros N. destruct (dec_iface_total P (JObj top) N) as [j' [E O]].
  destruct (O top eq_refl) as [m ->]. exists m. unfold unmarshal_metadata. rewrite E. reflexivity.
Qed.

(* ---------- assembling ---------- *)
(* no member name of the document, its crypto object, cipherparams or kdfparams differs from one of
   the field names the Go structs declare only by letter case (or by the Unicode characters that fold
   to ASCII letters) *)
Definition unambiguous (doc : json) : bool :=
  match doc with
  | JObj top =>
      exact_names top_fields top &&
      match obj_field "crypto" top with
      | Some c =>
          exact_names crypto_fields c &&
          match obj_field "cipherparams" c with Some cp => exact_names ["iv"] cp | None => true end &&
          match obj_field "kdfparams" c with
          | Some kp => exact_names scrypt_fields kp && exact_names pbkdf2_fields kp
          | None => true
          end
      | None => true
      end
  | _ => true
  end.

Lemma uuid_text_nonempty s : uuid_text_ok s = true -> s <> [].
Proof. intros H ->. discriminate. Qed.

Lemma scrypt_pre_split N r p d : scrypt_pre N r p d = true ->
  scrypt_dom r p d = true /\ scrypt_params_ok N r p = true /\ (0 < r)%Z /\ (0 < p)%Z.
Proof.
  unfold scrypt_pre. intros H. apply andb_prop in H as [D K]. split; [exact D|]. split; [exact K|].
  unfold scrypt_dom in D. apply andb_prop in D as [D _]. apply andb_prop in D as [A B].
  apply Z.ltb_lt in A, B. auto.
Qed.

Section ReadStandard.
Variable P : prims.
Hypothesis L : crypto_laws P.
Hypothesis LU : uuid_accepts_text P.

Lemma decryptCommon_spec (c : crypto_common) dk :
  length dk = 32%nat -> length (cc_iv c) = 16%nat ->
  bytes_eqb (hash P (skipn 16 dk ++ cc_ciphertext c)) (cc_mac c) = true ->
  decryptCommon P c dk = Ok (aes_ctr P (firstn 16 dk) (cc_iv c) (cc_ciphertext c)).
Proof.
  intros Ld Li M. unfold decryptCommon. rewrite Ld. cbn [Nat.eqb negb].
  rewrite ProofsMac.slice_hi_half by exact Ld. smp. unfold generateMac. rewrite M. cbn [negb].
  rewrite ProofsMac.slice_lo_half by exact Ld. smp.
  unfold aes128CtrDecrypt, aes_key_ok. rewrite firstn_length, Ld. cbn [Nat.min Nat.eqb orb negb].
  rewrite Li. cbn [Nat.eqb negb]. unfold call_ctr, ctr_iv_pre. rewrite Li. reflexivity.
Qed.

Theorem read_is_standard_core (check_cipher : bool) doc pw key md :
  v3_decrypt_gen check_cipher P doc pw = Ok key ->
  unambiguous doc = true ->
  (forall id, v3_id doc = Some id -> uuid_parse P id <> None) ->
  unmarshal_metadata P doc = Ok (Some md) ->
  doc_alloc_ok doc = true ->
  exists w, read_wallet_tree P doc pw = Ok w /\ PrivateKey w = key /\ Metadata w = md /\
            exists id, v3_id doc = Some id /\ GetID w = uuid_parse P id /\ GetID w <> None.
Proof.
  unfold v3_decrypt_gen. destruct doc as [| | | | |top]; try discriminate.
  destruct (field "version" top) as [[| | lv | | |]|] eqn:Fver; try discriminate.
  destruct (str_field "id" top) as [id|] eqn:Fid; try discriminate.
  destruct (obj_field "crypto" top) as [c|] eqn:Fc; try discriminate.
  destruct (bytes_eqb_spec lv (ascii_bytes "3")) as [->|]; cbn [negb]; [|discriminate].
  destruct (uuid_text_ok id) eqn:Tid; cbn [negb]; [|discriminate].
  destruct (str_field "cipher" c) as [cipher|] eqn:Fcipher; try discriminate.
  destruct (hex_field "ciphertext" c) as [ct|] eqn:Fct; try discriminate.
  destruct (obj_field "cipherparams" c) as [cp|] eqn:Fcp; try discriminate.
  destruct (str_field "kdf" c) as [kdf|] eqn:Fkdf; try discriminate.
  destruct (obj_field "kdfparams" c) as [kp|] eqn:Fkp; try discriminate.
  destruct (hex_field "mac" c) as [mac|] eqn:Fmac; try discriminate.
  destruct (check_cipher && negb (bytes_eqb cipher (ascii_bytes "aes-128-ctr"))); [discriminate|].
  destruct (hex_field "iv" cp) as [iv|] eqn:Fiv; try discriminate.
  destruct (length iv =? 16)%nat eqn:Liv; cbn [negb]; [|discriminate]. apply Nat.eqb_eq in Liv.
  destruct (derive_key P kdf kp pw) as [dk|] eqn:Dk; try discriminate.
  destruct (bytes_eqb (hash P (skipn 16 dk ++ ct)) mac) eqn:M; [|discriminate].
  intros H; injection H as <-.
  (* the allocation cap, on the members the specification reads *)
  assert (Hcap : doc_alloc_ok (JObj top) = true ->
                 match int_field "n" kp, int_field "r" kp with Some n, Some r => scrypt_alloc_ok n r | _, _ => true end = true).
  { unfold Keystore.ReadTypes.doc_alloc_ok. rewrite Fc, Fkp. exact (fun H => H). }
  (* unambiguity, per object *)
  unfold unambiguous. rewrite Fc, Fcp, Fkp. intros U.
  apply andb_prop in U as [Utop U]. apply andb_prop in U as [U Ukp]. apply andb_prop in U as [Uc Ucp].
  apply andb_prop in Ukp as [Uks Ukp].
  intros LUid Emd Hcap0. apply Hcap in Hcap0. clear Hcap.
  (* the pieces *)
  assert (Vid : v3_id (JObj top) = Some id) by (unfold v3_id; rewrite Fid; reflexivity).
  destruct (uuid_parse P id) as [u|] eqn:Pid; [|exfalso; exact (LUid id Vid Pid)].
  pose proof (uuid_text_nonempty _ Tid) as Nid.
  apply str_field_some in Fid. apply obj_field_some in Fc.
  apply str_field_some in Fcipher. apply str_field_some in Fkdf.
  apply hex_field_some in Fct as [sct [Fct Pct]]. apply hex_field_some in Fmac as [smac [Fmac Pmac]].
  apply obj_field_some in Fcp. apply obj_field_some in Fkp.
  pose proof (cipherparams_decoded cp iv Ucp Fiv) as Dcp.
  assert (Pver : parse_int64 (ascii_bytes "3") = Some 3%Z) by reflexivity.
  pose proof (crypto_only_decoded c cp cipher ct iv kdf mac Uc Fcipher sct Fct Pct Fcp Dcp Fkdf smac Fmac Pmac) as Dco.
  unfold read_wallet_tree.
  rewrite (wallet_decoded P top c id u (ascii_bytes "3") 3 Utop Fid Nid Pid Fver Pver Fc _ step_crypto_only _ Dco zero_cc).
  smp. rewrite Emd. smp. cbn [cf_id cf_version]. change (3 =? version3)%Z with true. cbn [negb].
  unfold cc_target at 1 2. cbn [cc_kdf].
  unfold derive_key in Dk.
  change (ascii_bytes "scrypt") with kdfTypeScrypt in Dk. change (ascii_bytes "pbkdf2") with kdfTypePbkdf2 in Dk.
  destruct (bytes_eqb kdf kdfTypeScrypt) eqn:Ks.
  - (* scrypt *)
    destruct (int_field "dklen" kp) as [dkl|] eqn:Fd; try discriminate.
    destruct (int_field "n" kp) as [n|] eqn:Fn; try discriminate.
    destruct (int_field "r" kp) as [r|] eqn:Fr; try discriminate.
    destruct (int_field "p" kp) as [p|] eqn:Fp; try discriminate.
    destruct (hex_field "salt" kp) as [salt|] eqn:Fs; try discriminate.
    destruct (dkl =? 32)%Z eqn:D32; cbn [andb] in Dk; [|discriminate]. apply Z.eqb_eq in D32. subst dkl.
    destruct (scrypt_pre n r p 32) eqn:Pre; [|discriminate]. injection Dk as <-.
    pose proof (scrypt_params_decoded kp 32 n r p salt Uks Fd Fn Fr Fp Fs) as Dsp.
    pose proof (crypto_with_decoded c cp cipher ct iv kdf mac Uc Fcipher sct Fct Pct Fcp Dcp Fkdf smac Fmac Pmac
                  _ step_scrypt_params kp _ Fkp Dsp) as Dcw.
    unfold readScryptWalletFile.
    rewrite (wallet_decoded P top c id u (ascii_bytes "3") 3 Utop Fid Nid Pid Fver Pver Fc _ _ _ Dcw (zero_cc, zero_sp)).
    smp. unfold scrypt_decrypt. cbn [sp_dklen sp_r sp_p sp_n sp_salt]. change (32 =? derivedKeyLen)%Z with true. cbn [negb].
    destruct (scrypt_pre_split _ _ _ _ Pre) as [Dom [Pok [Rpos Ppos]]].
    replace (r <=? 0)%Z with false by (symmetry; apply Z.leb_gt; exact Rpos).
    replace (p <=? 0)%Z with false by (symmetry; apply Z.leb_gt; exact Ppos). cbn [orb].
    unfold call_scrypt. rewrite Dom, Pok, Hcap0. cbn [negb]. smp. cbn [gs_data].
    rewrite (decryptCommon_spec (cc_target cipher ct iv kdf mac) (scrypt P pw salt n r p 32)).
    + smp. eexists. split; [reflexivity|]. split; [reflexivity|]. split; [reflexivity|].
      exists id. unfold v3_id, str_field. rewrite Fid. unfold GetID. cbn [w_core cf_id]. rewrite Pid.
      repeat split; congruence.
    + apply (cl_scrypt_len P L). exact Pre.
    + exact Liv.
    + exact M.
  - (* pbkdf2 *)
    destruct (bytes_eqb kdf kdfTypePbkdf2) eqn:Kp; [|discriminate].
    destruct (int_field "dklen" kp) as [dkl|] eqn:Fd; try discriminate.
    destruct (int_field "c" kp) as [cnt|] eqn:Fcnt; try discriminate.
    destruct (str_field "prf" kp) as [prf|] eqn:Fprf; try discriminate.
    destruct (hex_field "salt" kp) as [salt|] eqn:Fs; try discriminate.
    destruct (dkl =? 32)%Z eqn:D32; cbn [andb] in Dk; [|discriminate]. apply Z.eqb_eq in D32. subst dkl.
    destruct (pbkdf2_pre cnt 32) eqn:Pre; cbn [andb] in Dk; [|discriminate].
    destruct (bytes_eqb_spec prf (ascii_bytes "hmac-sha256")) as [->|]; [|discriminate]. injection Dk as <-.
    pose proof (pbkdf2_params_decoded kp 32 cnt _ salt Ukp Fd Fcnt Fprf Fs) as Dpp.
    pose proof (crypto_with_decoded c cp cipher ct iv kdf mac Uc Fcipher sct Fct Pct Fcp Dcp Fkdf smac Fmac Pmac
                  _ step_pbkdf2_params kp _ Fkp Dpp) as Dcw.
    unfold readPbkdf2WalletFile.
    rewrite (wallet_decoded P top c id u (ascii_bytes "3") 3 Utop Fid Nid Pid Fver Pver Fc _ _ _ Dcw (zero_cc, zero_pp)).
    smp. unfold pbkdf2_decrypt. cbn [pp_dklen pp_c pp_prf pp_salt].
    change (bytes_eqb (ascii_bytes "hmac-sha256") prfHmacSHA256) with true. cbn [negb].
    change (32 =? derivedKeyLen)%Z with true. cbn [negb].
    assert (Cpos : (0 < cnt)%Z).
    { unfold pbkdf2_pre in Pre. apply andb_prop in Pre as [A _]. apply Z.ltb_lt in A. exact A. }
    replace (cnt <=? 0)%Z with false by (symmetry; apply Z.leb_gt; exact Cpos).
    unfold call_pbkdf2. rewrite Pre. cbn [negb]. smp.
    rewrite (decryptCommon_spec (cc_target cipher ct iv kdf mac) (pbkdf2 P pw salt cnt 32)).
    + smp. eexists. split; [reflexivity|]. split; [reflexivity|]. split; [reflexivity|].
      exists id. unfold v3_id, str_field. rewrite Fid. unfold GetID. cbn [w_core cf_id]. rewrite Pid.
      repeat split; congruence.
    + apply (cl_pbkdf2_len P L). exact Pre.
    + exact Liv.
    + exact M.
Qed.

Theorem read_is_standard (check_cipher : bool) doc pw key :
  v3_decrypt_gen check_cipher P doc pw = Ok key ->
  unambiguous doc = true -> nums_ok P doc = true -> doc_alloc_ok doc = true ->
  exists w, read_wallet_tree P doc pw = Ok w /\ PrivateKey w = key /\
            exists id, v3_id doc = Some id /\ GetID w = uuid_parse P id /\ GetID w <> None.
Proof.
  intros D U N Hcap.
  assert (O : exists top, doc = JObj top).
  { unfold v3_decrypt_gen in D. destruct doc; try discriminate. eexists; reflexivity. }
  destruct O as [top ->]. destruct (unmarshal_metadata_ok P top N) as [md Emd].
  destruct (read_is_standard_core check_cipher _ pw key md D U) as [w [R [K [_ I]]]].
  - intros id Vid. unfold v3_decrypt_gen in D.
    destruct (field "version" top) as [[| | lv | | |]|]; try discriminate.
    unfold v3_id in Vid.
    destruct (str_field "id" top) as [id'|] eqn:Fid; try discriminate. injection Vid as <-.
    destruct (obj_field "crypto" top); try discriminate.
    destruct (negb (bytes_eqb lv (ascii_bytes "3"))); try discriminate.
    destruct (uuid_text_ok id') eqn:T; cbn [negb] in D; try discriminate.
    exact (LU id' T).
  - exact Emd.
  - exact Hcap.
  - exists w. auto.
Qed.

End ReadStandard.
