(* Web3 Secret Storage Definition, version 3 — decryption of a key file, written from the definition
   (https://ethereum.org/developers/docs/data-structures-and-encoding/web3-secret-storage):

     { "version": 3, "id": <uuid>,
       "crypto": { "cipher": "aes-128-ctr", "cipherparams": { "iv": hex }, "ciphertext": hex,
                   "kdf": "scrypt", "kdfparams": { "dklen": 32, "n", "r", "p", "salt": hex }
                 | "kdf": "pbkdf2", "kdfparams": { "dklen": 32, "c", "prf": "hmac-sha256", "salt": hex },
                   "mac": hex } }

     DK  = KDF(password, kdfparams)                               (32 bytes)
     the file is accepted for the password iff  keccak256(DK[16..32] ++ ciphertext) = mac
     key = AES-128-CTR(DK[0..16], iv, ciphertext)

   The document is read strictly: member names are exact and must occur exactly once in their
   object, numbers are integer literals, hex strings carry no prefix, cost parameters must lie in the
   domain of the KDF (scrypt: N > 1 a power of two, r, p > 0, r*p < 2^30; PBKDF2: c >= 1), the IV has
   16 bytes.  Members not named here are ignored.  This is the "independent V3 implementation" of
   C07/C15; it shares no code with Keystore/Model.v (only the data encodings of Keystore/Json.v and
   the primitives of Keystore/Prims.v). *)
From Coq Require Import String.
From Coq Require Import List NArith ZArith Lia Bool Arith.
From Coq Require Import Init.Byte.
From FFS Require Import Base.Res Base.Bytes Keystore.Json Keystore.Prims.
Import ListNotations.
Local Open Scope string_scope.
Local Open Scope list_scope.

Definition SInvalid := 1%nat.   (* not a V3 document the standard defines *)
Definition SMac := 2%nat.       (* MAC mismatch: wrong password or modified file *)

(* the value of the member called [name], provided there is exactly one *)
Definition field (name : string) (ms : list (bytes * json)) : option json :=
  match filter (fun m => bytes_eqb (fst m) (ascii_bytes name)) ms with
  | [(_, v)] => Some v
  | _ => None
  end.

Definition str_field (name : string) (ms : list (bytes * json)) : option bytes :=
  match field name ms with Some (JStr s) => Some s | _ => None end.
Definition hex_field (name : string) (ms : list (bytes * json)) : option bytes :=
  match field name ms with Some (JStr s) => hex_decode s | _ => None end.
Definition int_field (name : string) (ms : list (bytes * json)) : option Z :=
  match field name ms with Some (JNum l) => parse_int64 l | _ => None end.
Definition obj_field (name : string) (ms : list (bytes * json)) : option (list (bytes * json)) :=
  match field name ms with Some (JObj o) => Some o | _ => None end.

(* DK = KDF(password, kdfparams); None = parameters outside the standard *)
Definition derive_key (P : prims) (kdf : bytes) (kp : list (bytes * json)) (pw : bytes) : option bytes :=
  if bytes_eqb kdf (ascii_bytes "scrypt") then
    match int_field "dklen" kp, int_field "n" kp, int_field "r" kp, int_field "p" kp, hex_field "salt" kp with
    | Some dklen, Some n, Some r, Some p, Some salt =>
        if (dklen =? 32)%Z && scrypt_pre n r p 32 then Some (scrypt P pw salt n r p 32) else None
    | _, _, _, _, _ => None
    end
  else if bytes_eqb kdf (ascii_bytes "pbkdf2") then
    match int_field "dklen" kp, int_field "c" kp, str_field "prf" kp, hex_field "salt" kp with
    | Some dklen, Some c, Some prf, Some salt =>
        if (dklen =? 32)%Z && pbkdf2_pre c 32 && bytes_eqb prf (ascii_bytes "hmac-sha256")
        then Some (pbkdf2 P pw salt c 32) else None
    | _, _, _, _ => None
    end
  else None.

(* [check_cipher = false] drops the requirement cipher = "aes-128-ctr" (pkg/keystorev3 never looks at
   the member: known finding C15/cipher-ignored); the standard is [check_cipher = true] *)
Definition v3_decrypt_gen (check_cipher : bool) (P : prims) (doc : json) (pw : bytes) : res bytes :=
  match doc with
  | JObj top =>
      match field "version" top, str_field "id" top, obj_field "crypto" top with
      | Some (JNum v), Some id, Some c =>
          if negb (bytes_eqb v (ascii_bytes "3")) then Err SInvalid
          else if negb (uuid_text_ok id) then Err SInvalid
          else
            match str_field "cipher" c, hex_field "ciphertext" c, obj_field "cipherparams" c,
                  str_field "kdf" c, obj_field "kdfparams" c, hex_field "mac" c with
            | Some cipher, Some ct, Some cp, Some kdf, Some kp, Some mac =>
                if check_cipher && negb (bytes_eqb cipher (ascii_bytes "aes-128-ctr")) then Err SInvalid
                else
                  match hex_field "iv" cp with
                  | Some iv =>
                      if negb (length iv =? 16)%nat then Err SInvalid
                      else
                        match derive_key P kdf kp pw with
                        | Some dk =>
                            if bytes_eqb (hash P (skipn 16 dk ++ ct)) mac
                            then Ok (aes_ctr P (firstn 16 dk) iv ct)
                            else Err SMac
                        | None => Err SInvalid
                        end
                  | None => Err SInvalid
                  end
            | _, _, _, _, _, _ => Err SInvalid
            end
      | _, _, _ => Err SInvalid
      end
  | _ => Err SInvalid
  end.

Definition v3_decrypt : prims -> json -> bytes -> res bytes := v3_decrypt_gen true.

(* the id of a document the standard accepts *)
Definition v3_id (doc : json) : option bytes :=
  match doc with JObj top => str_field "id" top | _ => None end.
