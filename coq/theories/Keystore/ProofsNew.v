(* C07, a new wallet file is a standard V3 document: the specification decrypts the file produced
   by any of the four constructors (after any Metadata() assignments) to the key, using the
   parameters the file declares. *)
From Coq Require Import String.
From Coq Require Import List NArith ZArith Lia Bool Arith.
From Coq Require Import Init.Byte.
From FFS Require Import Base.Res Base.Bytes Keystore.Json Keystore.JsonFacts Keystore.Prims Keystore.Model Keystore.Spec.
From FFS Require Import Keystore.ProofsFresh Keystore.ProofsMac.
Import ListNotations.
Local Open Scope string_scope.
Local Open Scope list_scope.

Ltac smp := cbn [bind negb orb andb w_core w_metadata w_crypto w_kdfparams w_private fst snd gs_data gs_spare].

(* ---------- the specification's member lookup on maps built with mset ---------- *)
Lemma field_has_key name ms :
  field name ms = match filter (has_key (ascii_bytes name)) ms with [(_, v)] => Some v | _ => None end.
Proof. reflexivity. Qed.

Lemma field_mset_same name v m : field name (mset (ascii_bytes name) v m) = Some v.
Proof. rewrite field_has_key, filter_mset_same. reflexivity. Qed.

Lemma field_mset_other name k v m : k <> ascii_bytes name -> field name (mset k v m) = field name m.
Proof. intros N. rewrite !field_has_key, filter_mset_other by exact N. reflexivity. Qed.

(* ---------- shape of a created wallet ---------- *)
Lemma set_byte_length i f u : length (set_byte i f u) = length u.
Proof.
  unfold set_byte. destruct (nth_error u i) as [b|] eqn:E.
  - rewrite !app_length, firstn_length, skipn_length. cbn [length].
    assert (i < length u)%nat by (apply nth_error_Some; congruence). lia.
  - rewrite !app_length, firstn_length, skipn_length. cbn [length].
    apply nth_error_None in E. lia.
Qed.

Lemma scrypt_pre_dklen N r p a b : (0 <= a)%Z -> (0 <= b)%Z -> scrypt_pre N r p a = scrypt_pre N r p b.
Proof.
  intros A B. unfold scrypt_pre, scrypt_dom.
  replace (0 <=? a)%Z with true by (symmetry; apply Z.leb_le; exact A).
  replace (0 <=? b)%Z with true by (symmetry; apply Z.leb_le; exact B). reflexivity.
Qed.

(* what a created wallet looks like: everything is determined by salt, IV, UUID bytes *)
Definition created_wallet (P : prims) (pw key : bytes) (n p : Z) (salt iv id : bytes) : wallet :=
  let dk := scrypt P pw salt n defaultR p 32 in
  let ct := aes_ctr P (firstn 16 dk) iv key in
  {| w_core := {| cf_id := Some id; cf_version := version3 |};
     w_metadata := [];
     w_crypto := {| cc_cipher := cipherAES128ctr; cc_ciphertext := ct; cc_iv := iv; cc_kdf := kdfTypeScrypt;
                    cc_mac := hash P (skipn 16 dk ++ ct) |};
     w_kdfparams := KScrypt {| sp_dklen := 32; sp_n := n; sp_p := p; sp_r := defaultR; sp_salt := salt |};
     w_private := key |}.

Section WithLaws.
Variable P : prims.
Hypothesis L : crypto_laws P.

Lemma call_scrypt_16 pw salt n r p g :
  call_scrypt P pw salt n r p 16 = Ok g ->
  scrypt_pre n r p 32 = true /\ gs_data g ++ gs_spare g = scrypt P pw salt n r p 32 /\
  length (scrypt P pw salt n r p 32) = 32%nat.
Proof.
  unfold call_scrypt.
  destruct (scrypt_dom r p 16) eqn:D; smp; [|discriminate].
  destruct (scrypt_params_ok n r p) eqn:K; smp; [|discriminate].
  destruct (scrypt_alloc_ok n r) eqn:Al; smp; [|discriminate].
  intros H; injection H as <-. smp.
  assert (Pre16 : scrypt_pre n r p 16 = true) by (unfold scrypt_pre; rewrite D, K; reflexivity).
  assert (Pre32 : scrypt_pre n r p 32 = true) by (rewrite (scrypt_pre_dklen n r p 32 16) by lia; exact Pre16).
  split; [exact Pre32|].
  rewrite <- (cl_scrypt_cap_prefix P L pw salt n r p 16 Pre16).
  rewrite (cl_scrypt_cap_blocks P L pw salt n r p 16 Pre16).
  change (round_up_32 16) with 32%Z. change (Z.to_nat 16) with 16%nat.
  split; [apply firstn_skipn|]. apply (cl_scrypt_len P L); exact Pre32.
Qed.

Lemma reslice_whole g lo hi dk :
  gs_data g ++ gs_spare g = dk -> (lo <= hi)%nat -> (hi <= length dk)%nat ->
  exists g', reslice g lo hi = Ok g' /\ gs_data g' = firstn (hi - lo) (skipn lo dk).
Proof.
  intros W A B. unfold reslice. rewrite W.
  replace (lo <=? hi)%nat with true by (symmetry; apply Nat.leb_le; exact A).
  replace (hi <=? length dk)%nat with true by (symmetry; apply Nat.leb_le; exact B).
  eexists; split; reflexivity.
Qed.

Lemma new_bytes_shape pw key n p rnd w rest :
  newScryptWalletFileBytes P pw key n p rnd = Ok (w, rest) ->
  exists salt iv id,
    w = created_wallet P pw key n p salt iv id /\
    scrypt_pre n defaultR p 32 = true /\
    length salt = 32%nat /\ length iv = 16%nat /\ length id = 16%nat.
Proof.
  unfold newScryptWalletFileBytes.
  destruct (mustReadBytes 32 rnd) as [[salt r1]| |] eqn:E1; smp; try discriminate.
  unfold mustGenerateDerivedScryptKey.
  destruct (call_scrypt P pw salt n defaultR p 16) as [g| |] eqn:C; smp; try discriminate.
  destruct (call_scrypt_16 _ _ _ _ _ _ C) as [Pre [W Len]].
  destruct (mustReadBytes 16 r1) as [[iv r2]| |] eqn:E2; smp; try discriminate.
  destruct (reslice_whole g 0 16 _ W) as [ek [Rk Dk]]; [lia|lia|]. rewrite Rk; smp. rewrite Dk.
  cbn [skipn Nat.sub].
  apply mustReadBytes_ok in E1 as [_ L1]. apply mustReadBytes_ok in E2 as [_ L2].
  unfold mustAES128CtrEncrypt, aes_key_ok. rewrite firstn_length, Len. cbn [Nat.min Nat.eqb orb negb].
  unfold call_ctr, ctr_iv_pre. rewrite L2. cbn [Nat.eqb negb]. smp.
  destruct (reslice_whole g 16 32 _ W) as [mk [Rm Dm]]; [lia|lia|]. rewrite Rm; smp. rewrite Dm.
  replace (firstn (32 - 16) (skipn 16 (scrypt P pw salt n defaultR p 32))) with (skipn 16 (scrypt P pw salt n defaultR p 32))
    by (symmetry; apply firstn_all2; rewrite skipn_length; lia).
  unfold new_uuid. destruct (mustReadBytes 16 r2) as [[raw r3]| |] eqn:E3; smp; try discriminate.
  apply mustReadBytes_ok in E3 as [_ L3].
  intros H; injection H as <- <-.
  eexists salt, iv, _. split; [reflexivity|]. repeat split; auto.
  rewrite !set_byte_length. exact L3.
Qed.

(* ---------- the specification on the marshalled document ---------- *)
Definition int_ok (z : Z) : Prop := parse_int64 (print_Z z) = Some z.

Lemma spec_on_created pw key n p salt iv id (md : jmap) :
  int_ok n -> int_ok p -> scrypt_pre n defaultR p 32 = true ->
  length iv = 16%nat -> length id = 16%nat ->
  let w0 := created_wallet P pw key n p salt iv id in
  let w := {| w_core := w_core w0; w_metadata := md; w_crypto := w_crypto w0; w_kdfparams := w_kdfparams w0;
              w_private := w_private w0 |} in
  v3_decrypt P (marshalWalletJSON w) pw = Ok key.
Proof.
  intros In Ip Pre Liv Lid w0 w.
  assert (Len : length (scrypt P pw salt n defaultR p 32) = 32%nat) by (apply (cl_scrypt_len P L); exact Pre).
  unfold v3_decrypt, v3_decrypt_gen, marshalWalletJSON. subst w w0. unfold created_wallet. smp.
  cbn [cf_id cf_version w_core].
  unfold str_field, obj_field.
  rewrite (field_mset_other "version" (jkey "crypto")) by (vm_compute; discriminate).
  rewrite (field_mset_same "version").
  rewrite (field_mset_other "id" (jkey "crypto")) by (vm_compute; discriminate).
  rewrite (field_mset_other "id" (jkey "version")) by (vm_compute; discriminate).
  rewrite (field_mset_same "id").
  rewrite (field_mset_same "crypto").
  unfold crypto_json, jint.
  change (bytes_eqb (print_Z version3) (ascii_bytes "3")) with true. cbn [negb].
  rewrite (uuid_string_ok id Lid). cbn [negb].
  unfold hex_field, str_field, obj_field, crypto_common_members, kdfparams_json. smp.
  cbn [cc_cipher cc_ciphertext cc_iv cc_kdf cc_mac w_crypto w_kdfparams].
  change (field "cipher" _) with (Some (JStr cipherAES128ctr)).
  change (field "ciphertext" _) with (Some (jhex (aes_ctr P (firstn 16 (scrypt P pw salt n defaultR p 32)) iv key))).
  change (field "cipherparams" _) with (Some (JObj [(jkey "iv", jhex iv)])).
  change (field "kdf" _) with (Some (JStr kdfTypeScrypt)).
  change (field "mac" _) with (Some (jhex (hash P (skipn 16 (scrypt P pw salt n defaultR p 32) ++ aes_ctr P (firstn 16 (scrypt P pw salt n defaultR p 32)) iv key)))).
  match goal with |- context [field "kdfparams" ?l] =>
    change (field "kdfparams" l) with (Some (JObj [ (jkey "dklen", jint 32); (jkey "n", jint n); (jkey "p", jint p);
                        (jkey "r", jint defaultR); (jkey "salt", jhex salt) ])) end.
  unfold jhex. rewrite !hex_decode_encode.
  change (bytes_eqb cipherAES128ctr (ascii_bytes "aes-128-ctr")) with true. cbn [andb negb].
  change (field "iv" [(jkey "iv", JStr (hex_encode iv))]) with (Some (JStr (hex_encode iv))).
  cbv beta iota.
  rewrite hex_decode_encode, Liv. cbn [Nat.eqb negb].
  unfold derive_key. change (bytes_eqb kdfTypeScrypt (ascii_bytes "scrypt")) with true. cbn iota.
  unfold int_field, hex_field.
  change (field "dklen" _) with (Some (jint 32)).
  change (field "n" _) with (Some (jint n)).
  change (field "r" _) with (Some (jint defaultR)).
  change (field "p" _) with (Some (jint p)).
  match goal with |- context [field "salt" ?l] => change (field "salt" l) with (Some (JStr (hex_encode salt))) end.
  cbv beta iota. unfold jint. cbv beta iota. rewrite In, Ip. change (parse_int64 (print_Z 32)) with (Some 32%Z).
  change (parse_int64 (print_Z defaultR)) with (Some defaultR).
  rewrite hex_decode_encode. change (32 =? 32)%Z with true. rewrite Pre. cbn [andb].
  rewrite bytes_eqb_refl.
  rewrite (cl_ctr_involutive P L).
  - reflexivity.
  - unfold aes128_key_pre. rewrite firstn_length, Len. reflexivity.
  - unfold ctr_iv_pre. rewrite Liv. reflexivity.
Qed.

(* ---------- Metadata() assignments leave everything else alone ---------- *)
Definition assign (w : wallet) (e : bytes * json) : wallet := set_metadata w (fst e) (snd e).
Definition assign_all (w : wallet) (extras : list (bytes * json)) : wallet := fold_left assign extras w.

Definition same_but_metadata (w w0 : wallet) : Prop :=
  w_core w = w_core w0 /\ w_crypto w = w_crypto w0 /\ w_kdfparams w = w_kdfparams w0 /\ w_private w = w_private w0.

Lemma assign_all_same w extras : same_but_metadata (assign_all w extras) w.
Proof.
  unfold assign_all. revert w. induction extras as [|e t IH]; intros w; cbn [fold_left].
  - repeat split.
  - destruct (IH (assign w e)) as [A [B [C D]]]. repeat split; assumption.
Qed.

Lemma same_but_metadata_eta w w0 : same_but_metadata w w0 ->
  w = {| w_core := w_core w0; w_metadata := w_metadata w; w_crypto := w_crypto w0; w_kdfparams := w_kdfparams w0;
         w_private := w_private w0 |}.
Proof. destruct w; unfold same_but_metadata; cbn. intros [-> [-> [-> ->]]]. reflexivity. Qed.

Definition pw_of (c : creation) : bytes :=
  match c with MkLight pw _ | MkStandard pw _ | MkCustomLight pw _ | MkCustomStandard pw _ => pw end.
Definition key_of (c : creation) : bytes :=
  match c with
  | MkLight _ kp | MkStandard _ kp => kp_private kp
  | MkCustomLight _ k | MkCustomStandard _ k => k
  end.
(* the cost preset each constructor uses *)
Definition n_of (c : creation) : Z :=
  match c with MkLight _ _ => nLight | _ => nStandard end.

Lemma create_shape c rnd w rest :
  create P c rnd = Ok (w, rest) ->
  exists salt iv id,
    same_but_metadata w (created_wallet P (pw_of c) (key_of c) (n_of c) pDefault salt iv id) /\
    scrypt_pre (n_of c) defaultR pDefault 32 = true /\
    length salt = 32%nat /\ length iv = 16%nat /\ length id = 16%nat.
Proof.
  destruct c as [pw kp|pw kp|pw key|pw key]; cbn [create pw_of key_of n_of];
    unfold NewWalletFileLight, NewWalletFileStandard, NewWalletFileCustomBytesLight, NewWalletFileCustomBytesStandard,
           newScryptWalletFileSecp256k1.
  1,2: destruct (newScryptWalletFileBytes P pw (kp_private kp) _ pDefault rnd) as [[wf r]| |] eqn:E; smp; try discriminate;
       intros H; injection H as <- <-; apply new_bytes_shape in E as [salt [iv [id [-> [Pre [A [B C]]]]]]];
       exists salt, iv, id; split; [repeat split|auto].
  1,2: intros E; apply new_bytes_shape in E as [salt [iv [id [-> [Pre [A [B C]]]]]]];
       exists salt, iv, id; split; [repeat split|auto].
Qed.

(* C07_new_is_standard *)
Theorem new_is_standard c rnd w rest extras :
  create P c rnd = Ok (w, rest) ->
  let w' := assign_all w extras in
  v3_decrypt P (JSON_tree w') (pw_of c) = Ok (key_of c) /\
  (* the file declares exactly the parameters that were used *)
  w_kdfparams w' = KScrypt {| sp_dklen := 32; sp_n := n_of c; sp_p := pDefault; sp_r := defaultR; sp_salt := wallet_salt w' |} /\
  cc_cipher (w_crypto w') = cipherAES128ctr /\ cc_kdf (w_crypto w') = kdfTypeScrypt /\
  cc_ciphertext (w_crypto w') = aes_ctr P (enc_key P w' (pw_of c)) (cc_iv (w_crypto w')) (key_of c) /\
  cc_mac (w_crypto w') = hash P (mac_key P w' (pw_of c) ++ cc_ciphertext (w_crypto w')) /\
  w_private w' = key_of c.
Proof.
  intros C w'. apply create_shape in C as [salt [iv [id [S [Pre [A [B D]]]]]]].
  assert (S' : same_but_metadata w' (created_wallet P (pw_of c) (key_of c) (n_of c) pDefault salt iv id)).
  { destruct (assign_all_same w extras) as [E1 [E2 [E3 E4]]]. destruct S as [F1 [F2 [F3 F4]]].
    subst w'. repeat split; congruence. }
  split.
  - rewrite (same_but_metadata_eta _ _ S'). unfold JSON_tree.
    apply (spec_on_created (pw_of c) (key_of c) (n_of c) pDefault salt iv id (w_metadata w')); auto.
    + destruct c; reflexivity.
    + reflexivity.
  - destruct S' as [F1 [F2 [F3 F4]]].
    unfold enc_key, mac_key, derived_key, wallet_salt. rewrite F2, F3, F4. cbn. auto 10.
Qed.

(* creation succeeds whenever the random source delivers 64 bytes *)
Theorem create_total c rnd : (64 <= length rnd)%nat -> exists w rest, create P c rnd = Ok (w, rest).
Proof.
  intros Hl.
  assert (G : forall pw key n, scrypt_dom defaultR pDefault 16 = true -> scrypt_params_ok n defaultR pDefault = true ->
              scrypt_alloc_ok n defaultR = true ->
              exists w rest, newScryptWalletFileBytes P pw key n pDefault rnd = Ok (w, rest)).
  { intros pw key n D K Al. unfold newScryptWalletFileBytes, mustReadBytes.
    replace (32 <=? length rnd)%nat with true by (symmetry; apply Nat.leb_le; lia). smp.
    unfold mustGenerateDerivedScryptKey.
    destruct (call_scrypt P pw (firstn 32 rnd) n defaultR pDefault 16) as [g| |] eqn:C.
    2,3: unfold call_scrypt in C; rewrite D, K, Al in C; discriminate.
    destruct (call_scrypt_16 _ _ _ _ _ _ C) as [Pre [W Len]]. smp.
    rewrite skipn_length. replace (16 <=? length rnd - 32)%nat with true by (symmetry; apply Nat.leb_le; lia). smp.
    destruct (reslice_whole g 0 16 _ W) as [ek [Rk Dk]]; [lia|lia|]. rewrite Rk; smp. rewrite Dk.
    unfold mustAES128CtrEncrypt, aes_key_ok. rewrite firstn_length, skipn_length, Len. cbn [Nat.sub Nat.min Nat.eqb orb negb].
    unfold call_ctr, ctr_iv_pre. rewrite firstn_length, skipn_length.
    replace (Nat.min 16 (length rnd - 32)) with 16%nat by lia. cbn [Nat.eqb negb]. smp.
    destruct (reslice_whole g 16 32 _ W) as [mk [Rm Dm]]; [lia|lia|]. rewrite Rm; smp.
    unfold new_uuid, mustReadBytes. rewrite !skipn_length.
    replace (16 <=? length rnd - 32 - 16)%nat with true by (symmetry; apply Nat.leb_le; lia). smp.
    eexists _, _. reflexivity. }
  destruct c as [pw kp|pw kp|pw key|pw key]; cbn [create];
    unfold NewWalletFileLight, NewWalletFileStandard, NewWalletFileCustomBytesLight, NewWalletFileCustomBytesStandard,
           newScryptWalletFileSecp256k1.
  1,2: match goal with |- context [newScryptWalletFileBytes P ?pw ?k ?n pDefault _] =>
         destruct (G pw k n) as [w [rest E]]; [reflexivity|reflexivity|reflexivity|]; rewrite E; smp; eexists _, _; reflexivity end.
  1,2: apply G; reflexivity.
Qed.

End WithLaws.
