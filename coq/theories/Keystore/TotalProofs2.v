(* C15, part 2: what an accepted key file must look like.  A wallet is returned only if the decoded
   content of the file satisfies the V3 acceptance conditions and the key is the one the V3 definition
   derives from that content; hence every file whose version/id, kdf, prf, dklen, cost parameters, IV or
   structure is malformed is an error.  No law about the primitives is needed (decryptCommon itself
   tests the length of the derived key). *)
From Coq Require Import String.
From Coq Require Import List NArith ZArith Lia Bool Arith.
From Coq Require Import Init.Byte.
From FFS Require Import Base.Res Base.Bytes Keystore.Json Keystore.Prims Keystore.Model Keystore.ReadTypes
  Keystore.TotalProofs.
Import ListNotations.

Lemma bind_ok_inv {A B} (r : res A) (f : A -> res B) b :
  bind r f = Ok b -> exists a, r = Ok a /\ f a = Ok b.
Proof. destruct r; simpl; intros H; try (intros; discriminate). eauto. Qed.

Lemma bytes_eqb_eq a b : bytes_eqb a b = true -> a = b.
Proof. destruct (bytes_eqb_spec a b); [auto|discriminate]. Qed.

Lemma slice_32_hi dk : length dk = 32%nat -> slice dk 16 32 = Ok (skipn 16 dk).
Proof.
  intros H. rewrite slice_ok by lia. f_equal. apply firstn_all2. rewrite skipn_length. lia.
Qed.
Lemma slice_32_lo dk : length dk = 32%nat -> slice dk 0 16 = Ok (firstn 16 dk).
Proof. intros H. rewrite slice_ok by lia. reflexivity. Qed.

(* decryptCommon succeeds only with a 32-byte key whose second half authenticates the ciphertext, a
   16-byte IV, and returns the AES-128-CTR decryption under the first half *)
Lemma decryptCommon_ok P c dk key :
  decryptCommon P c dk = Ok key ->
  length dk = 32%nat /\
  hash P (skipn 16 dk ++ cc_ciphertext c) = cc_mac c /\
  length (cc_iv c) = 16%nat /\
  key = aes_ctr P (firstn 16 dk) (cc_iv c) (cc_ciphertext c).
Proof.
  unfold decryptCommon. destruct (length dk =? 32)%nat eqn:E; cbn [negb]; [|intros; discriminate].
  apply Nat.eqb_eq in E. rewrite (slice_32_hi dk E). cbn [bind]. unfold generateMac.
  destruct (bytes_eqb (hash P (skipn 16 dk ++ cc_ciphertext c)) (cc_mac c)) eqn:Em; cbn [negb]; [|intros; discriminate].
  rewrite (slice_32_lo dk E). cbn [bind]. unfold aes128CtrDecrypt, call_ctr, ctr_iv_pre.
  destruct (aes_key_ok (firstn 16 dk)); cbn [negb]; [|intros; discriminate].
  destruct (length (cc_iv c) =? 16)%nat eqn:Ei; cbn [negb]; [|intros; discriminate].
  intros H; injection H as <-. apply Nat.eqb_eq in Ei. apply bytes_eqb_eq in Em. auto.
Qed.

Lemma scrypt_decrypt_ok P c kp pw key :
  scrypt_decrypt P c kp pw = Ok key ->
  length (cc_iv c) = 16%nat /\
  content_dk P (KScrypt kp) pw = Some (scrypt P pw (sp_salt kp) (sp_n kp) (sp_r kp) (sp_p kp) 32) /\
  hash P (skipn 16 (scrypt P pw (sp_salt kp) (sp_n kp) (sp_r kp) (sp_p kp) 32) ++ cc_ciphertext c) = cc_mac c /\
  key = aes_ctr P (firstn 16 (scrypt P pw (sp_salt kp) (sp_n kp) (sp_r kp) (sp_p kp) 32)) (cc_iv c) (cc_ciphertext c).
Proof.
  unfold scrypt_decrypt.
  destruct (sp_dklen kp =? derivedKeyLen)%Z eqn:E1; simpl; [|intros; discriminate].
  destruct ((sp_r kp <=? 0)%Z || (sp_p kp <=? 0)%Z) eqn:E2; [intros; discriminate|].
  unfold call_scrypt. pose proof (scrypt_guards_in_dom kp E1 E2) as Hd. rewrite Hd. simpl.
  destruct (scrypt_params_ok (sp_n kp) (sp_r kp) (sp_p kp)) eqn:E3; simpl; [|intros; discriminate].
  destruct (scrypt_alloc_ok (sp_n kp) (sp_r kp)); simpl; [|intros; discriminate].
  apply Z.eqb_eq in E1. unfold derivedKeyLen in E1. rewrite E1 in *.
  intros H. apply decryptCommon_ok in H as (_ & Hm & Hi & Hk).
  repeat split; auto.
  unfold content_dk, dklen_of, cost_params_ok, prf_ok, scrypt_pre. rewrite E1, Hd, E3. reflexivity.
Qed.

Lemma pbkdf2_decrypt_ok P c kp pw key :
  pbkdf2_decrypt P c kp pw = Ok key ->
  length (cc_iv c) = 16%nat /\
  content_dk P (KPbkdf2 kp) pw = Some (pbkdf2 P pw (pp_salt kp) (pp_c kp) 32) /\
  hash P (skipn 16 (pbkdf2 P pw (pp_salt kp) (pp_c kp) 32) ++ cc_ciphertext c) = cc_mac c /\
  key = aes_ctr P (firstn 16 (pbkdf2 P pw (pp_salt kp) (pp_c kp) 32)) (cc_iv c) (cc_ciphertext c).
Proof.
  unfold pbkdf2_decrypt.
  destruct (bytes_eqb (pp_prf kp) prfHmacSHA256) eqn:E0; simpl; [|intros; discriminate].
  destruct (pp_dklen kp =? derivedKeyLen)%Z eqn:E1; simpl; [|intros; discriminate].
  destruct (pp_c kp <=? 0)%Z eqn:E2; [intros; discriminate|].
  unfold call_pbkdf2. pose proof (pbkdf2_guards_in_pre kp E1 E2) as Hd. rewrite Hd. simpl.
  apply Z.eqb_eq in E1. unfold derivedKeyLen in E1. rewrite E1 in *.
  intros H. apply decryptCommon_ok in H as (_ & Hm & Hi & Hk).
  repeat split; auto.
  unfold content_dk, dklen_of, cost_params_ok, prf_ok. rewrite E1, Hd, E0. reflexivity.
Qed.

Local Opaque skipn firstn.

(* ---------- an accepted file has V3-conforming content, and the key is the V3 key of that content ---------- *)
Theorem accept_content P t pw w :
  read_wallet_tree P t pw = Ok w ->
  exists cf, decode_content P t = Some (cf, w_crypto w, w_kdfparams w) /\
             content_key P (cf, w_crypto w, w_kdfparams w) pw = Some (PrivateKey w).
Proof.
  unfold read_wallet_tree, decode_content, decode_common.
  destruct (unmarshal_wallet P step_crypto_only zero_cc t) as [[cf cc0]|e|]; simpl; try (intros; discriminate).
  destruct (unmarshal_metadata P t) as [md|e|]; simpl; try (intros; discriminate).
  destruct (cf_id cf) eqn:Eid; [|intros; discriminate].
  destruct (cf_version cf =? version3)%Z eqn:Ev; simpl; [|intros; discriminate].
  unfold version3 in Ev.
  destruct (bytes_eqb (cc_kdf cc0) kdfTypeScrypt).
  - (* scrypt *)
    unfold readScryptWalletFile, decode_scrypt. intros H.
    assert (H' : (do (cf, ck) <- unmarshal_wallet P (step_crypto_with step_scrypt_params) (zero_cc, zero_sp) t;
                  do key <- scrypt_decrypt P (fst ck) (snd ck) pw;
                  Ok {| w_core := cf; w_metadata := match md with Some m => m | None => [] end;
                        w_crypto := fst ck; w_kdfparams := KScrypt (snd ck); w_private := key |}) = Ok w)
      by (destruct t; try exact H; discriminate).
    clear H. apply bind_ok_inv in H' as ([cf' [cc sp]] & Hu & H').
    apply bind_ok_inv in H' as (key & Hd & H'). injection H' as <-. simpl in *.
    rewrite Hu. exists cf. split; [reflexivity|].
    apply scrypt_decrypt_ok in Hd as (Hi & Hdk & Hm & Hk).
    unfold content_key, PrivateKey. simpl. rewrite Ev, Eid, Hi, Hdk, Hm. simpl.
    destruct (bytes_eqb_spec (cc_mac cc) (cc_mac cc)); [|contradiction]. rewrite Hk. reflexivity.
  - destruct (bytes_eqb (cc_kdf cc0) kdfTypePbkdf2); [|intros; discriminate].
    unfold readPbkdf2WalletFile, decode_pbkdf2. intros H.
    assert (H' : (do (cf, ck) <- unmarshal_wallet P (step_crypto_with step_pbkdf2_params) (zero_cc, zero_pp) t;
                  do key <- pbkdf2_decrypt P (fst ck) (snd ck) pw;
                  Ok {| w_core := cf; w_metadata := match md with Some m => m | None => [] end;
                        w_crypto := fst ck; w_kdfparams := KPbkdf2 (snd ck); w_private := key |}) = Ok w)
      by (destruct t; try exact H; discriminate).
    clear H. apply bind_ok_inv in H' as ([cf' [cc pp]] & Hu & H').
    apply bind_ok_inv in H' as (key & Hd & H'). injection H' as <-. simpl in *.
    rewrite Hu. exists cf. split; [reflexivity|].
    apply pbkdf2_decrypt_ok in Hd as (Hi & Hdk & Hm & Hk).
    unfold content_key, PrivateKey. simpl. rewrite Ev, Eid, Hi, Hdk, Hm. simpl.
    destruct (bytes_eqb_spec (cc_mac cc) (cc_mac cc)); [|contradiction]. rewrite Hk. reflexivity.
Qed.

(* the acceptance conditions, spelled out *)
Lemma content_key_some P c pw k :
  content_key P c pw = Some k ->
  core_bad c = false /\ iv_bad c = false /\ dklen_bad c = false /\ cost_bad c = false /\ prf_bad c = false /\
  mac_valid P c pw = true.
Proof.
  destruct c as [[cf cc] kp]. unfold content_key, core_bad, iv_bad, dklen_bad, cost_bad, prf_bad, mac_valid.
  destruct ((cf_version cf =? 3)%Z && is_some (cf_id cf)) eqn:E1; simpl; [|intros; discriminate].
  destruct (length (cc_iv cc) =? 16)%nat eqn:E2; simpl; [|intros; discriminate].
  unfold content_dk.
  destruct (dklen_of kp =? 32)%Z eqn:E3; simpl; [|intros; discriminate].
  destruct (cost_params_ok kp) eqn:E4; simpl; [|intros; discriminate].
  destruct (prf_ok kp) eqn:E5; simpl; [|intros; discriminate].
  destruct kp; simpl;
    match goal with |- (if ?b then _ else _) = _ -> _ => destruct b eqn:E6; [|intros; discriminate] end;
    intros _; repeat split; reflexivity.
Qed.

(* ---------- malformed files are errors ---------- *)
(* [decode_content P t = None]: the structure is malformed (not an object, a member of the wrong JSON
   kind, undecodable hex, a non-integer number, an unparseable id) or the kdf is unknown *)
Theorem malformed_rejected P t pw :
  cost_capped P t = true ->
  match decode_content P t with
  | None => True
  | Some c => (core_bad c || iv_bad c || dklen_bad c || cost_bad c || prf_bad c || negb (mac_valid P c pw)) = true
  end ->
  exists e, read_wallet_tree P t pw = Err e.
Proof.
  intros Hc H. destruct (read_wallet_tree P t pw) as [w|e|] eqn:E.
  - exfalso. apply accept_content in E as (cf & Hd & Hk). rewrite Hd in H.
    apply content_key_some in Hk as (H1 & H2 & H3 & H4 & H5 & H6).
    rewrite H1, H2, H3, H4, H5, H6 in H. discriminate.
  - eauto.
  - exfalso. revert E. apply read_wallet_tree_total. exact Hc.
Qed.

(* the form of the property text: the MAC is valid, one of the listed malformations is present *)
Corollary malformed_rejected_mac_valid P t pw c :
  cost_capped P t = true ->
  decode_content P t = Some c -> mac_valid P c pw = true ->
  (iv_bad c = true \/ dklen_bad c = true \/ cost_bad c = true \/ prf_bad c = true \/ core_bad c = true) ->
  exists e, read_wallet_tree P t pw = Err e.
Proof.
  intros Hc Hd _ H. apply malformed_rejected; [exact Hc|]. rewrite Hd.
  destruct H as [H|[H|[H|[H|H]]]]; rewrite H; repeat rewrite orb_true_r; reflexivity.
Qed.

(* a document that does not decode is capped by definition: no guard *)
Corollary structure_rejected P t pw :
  decode_content P t = None -> exists e, read_wallet_tree P t pw = Err e.
Proof.
  intros H. apply malformed_rejected; [unfold cost_capped; rewrite H; reflexivity|]. rewrite H. exact I.
Qed.

(* ---------- where exactly the read path can panic ---------- *)
(* A panic is reached only after every test that precedes the KDF call has passed: the document decodes,
   version 3, an id, kdf scrypt, dklen 32, r, p, N inside the library's parameter limits -- and the work
   area is beyond the allocation cap.  (The MAC and the IV are looked at after the KDF call.) *)
Theorem read_panic_content P t pw :
  read_wallet_tree P t pw = Panic ->
  exists cf cc sp, decode_content P t = Some (cf, cc, KScrypt sp) /\
    core_bad (cf, cc, KScrypt sp) = false /\ dklen_bad (cf, cc, KScrypt sp) = false /\
    cost_bad (cf, cc, KScrypt sp) = false /\ scrypt_alloc_ok (sp_n sp) (sp_r sp) = false.
Proof.
  unfold read_wallet_tree, decode_content, decode_common.
  destruct (unmarshal_wallet P step_crypto_only zero_cc t) as [[cf cc0]|e|] eqn:E; simpl; try (intros; discriminate).
  2:{ exfalso. revert E. apply unmarshal_wallet_np. apply step_crypto_only_np. }
  pose proof (unmarshal_metadata_np P t) as Hm.
  destruct (unmarshal_metadata P t) as [md|e|]; simpl; try (intros; discriminate); [|contradiction].
  destruct (cf_id cf) eqn:Eid; [|intros; discriminate].
  assert (Ht : t <> JNull).
  { intros ->. apply null_has_no_id in E. congruence. }
  destruct (cf_version cf =? version3)%Z eqn:Ev; simpl; [|intros; discriminate].
  destruct (bytes_eqb (cc_kdf cc0) kdfTypeScrypt).
  - unfold readScryptWalletFile, decode_scrypt. intros H.
    assert (H' : (do (cf, ck) <- unmarshal_wallet P (step_crypto_with step_scrypt_params) (zero_cc, zero_sp) t;
                  do key <- scrypt_decrypt P (fst ck) (snd ck) pw;
                  Ok {| w_core := cf; w_metadata := match md with Some m => m | None => [] end;
                        w_crypto := fst ck; w_kdfparams := KScrypt (snd ck); w_private := key |}) = Panic)
      by (destruct t; try exact H; contradiction).
    clear H.
    destruct (unmarshal_wallet P (step_crypto_with step_scrypt_params) (zero_cc, zero_sp) t) as [[cf2 [cc sp]]|e|] eqn:E2;
      cbn [bind fst snd] in H'; [|discriminate|].
    2:{ exfalso. revert E2. apply unmarshal_wallet_np. intros. apply step_crypto_with_np. apply step_scrypt_params_np. }
    destruct (scrypt_decrypt P cc sp pw) as [key|e|] eqn:Ed; cbn [bind] in H'; try discriminate.
    apply scrypt_decrypt_panic_iff in Ed as (D & Pre & A).
    exists cf, cc, sp. split; [reflexivity|].
    unfold core_bad, dklen_bad, cost_bad, dklen_of, cost_params_ok. unfold version3 in Ev.
    rewrite Ev, Eid, D, Pre, A. repeat split; reflexivity.
  - destruct (bytes_eqb (cc_kdf cc0) kdfTypePbkdf2); [|intros; discriminate].
    intros H. exfalso. revert H. apply readPbkdf2_np. exact Ht.
Qed.

(* hence the malformations that the code tests before the KDF call need no cap: a wrong version / missing
   id, dklen <> 32, cost parameters outside the KDF's domain, another prf, a document that does not
   decode are errors whatever n and r say *)
Theorem malformed_rejected_early P t pw :
  match decode_content P t with
  | None => True
  | Some c => (core_bad c || dklen_bad c || cost_bad c || prf_bad c) = true
  end ->
  exists e, read_wallet_tree P t pw = Err e.
Proof.
  intros H. destruct (read_wallet_tree P t pw) as [w|e|] eqn:E.
  - exfalso. apply accept_content in E as (cf & Hd & Hk). rewrite Hd in H.
    apply content_key_some in Hk as (H1 & H2 & H3 & H4 & H5 & H6).
    rewrite H1, H3, H4, H5 in H. discriminate.
  - eauto.
  - exfalso. apply read_panic_content in E as (cf & cc & sp & Hd & H1 & H3 & H4 & _). rewrite Hd in H.
    rewrite H1, H3, H4 in H. discriminate.
Qed.

(* an accepted file is within the cap *)
Lemma scrypt_decrypt_ok_capped P c kp pw key :
  scrypt_decrypt P c kp pw = Ok key -> scrypt_alloc_ok (sp_n kp) (sp_r kp) = true.
Proof.
  unfold scrypt_decrypt, call_scrypt.
  destruct (sp_dklen kp =? derivedKeyLen)%Z; simpl; [|intros; discriminate].
  destruct ((sp_r kp <=? 0)%Z || (sp_p kp <=? 0)%Z); [intros; discriminate|].
  destruct (scrypt_dom (sp_r kp) (sp_p kp) (sp_dklen kp)); simpl; [|intros; discriminate].
  destruct (scrypt_params_ok (sp_n kp) (sp_r kp) (sp_p kp)); simpl; [|intros; discriminate].
  destruct (scrypt_alloc_ok (sp_n kp) (sp_r kp)); simpl; [reflexivity|intros; discriminate].
Qed.

Theorem accept_capped P t pw w :
  read_wallet_tree P t pw = Ok w -> kdf_cost_capped (w_kdfparams w) = true.
Proof.
  unfold read_wallet_tree.
  destruct (unmarshal_wallet P step_crypto_only zero_cc t) as [[cf cc0]|e|]; simpl; try (intros; discriminate).
  destruct (unmarshal_metadata P t) as [md|e|]; simpl; try (intros; discriminate).
  destruct (cf_id cf) eqn:Eid; [|intros; discriminate].
  destruct (cf_version cf =? version3)%Z eqn:Ev; simpl; [|intros; discriminate].
  destruct (bytes_eqb (cc_kdf cc0) kdfTypeScrypt).
  - unfold readScryptWalletFile. intros H.
    assert (H' : (do (cf, ck) <- unmarshal_wallet P (step_crypto_with step_scrypt_params) (zero_cc, zero_sp) t;
                  do key <- scrypt_decrypt P (fst ck) (snd ck) pw;
                  Ok {| w_core := cf; w_metadata := match md with Some m => m | None => [] end;
                        w_crypto := fst ck; w_kdfparams := KScrypt (snd ck); w_private := key |}) = Ok w)
      by (destruct t; try exact H; discriminate).
    clear H. apply bind_ok_inv in H' as ([cf' [cc sp]] & Hu & H').
    apply bind_ok_inv in H' as (key & Hd & H'). injection H' as <-. cbn [w_kdfparams kdf_cost_capped snd fst] in *.
    exact (scrypt_decrypt_ok_capped P _ _ _ _ Hd).
  - destruct (bytes_eqb (cc_kdf cc0) kdfTypePbkdf2); [|intros; discriminate].
    unfold readPbkdf2WalletFile. intros H.
    assert (H' : (do (cf, ck) <- unmarshal_wallet P (step_crypto_with step_pbkdf2_params) (zero_cc, zero_pp) t;
                  do key <- pbkdf2_decrypt P (fst ck) (snd ck) pw;
                  Ok {| w_core := cf; w_metadata := match md with Some m => m | None => [] end;
                        w_crypto := fst ck; w_kdfparams := KPbkdf2 (snd ck); w_private := key |}) = Ok w)
      by (destruct t; try exact H; discriminate).
    clear H. apply bind_ok_inv in H' as ([cf' [cc pp]] & Hu & H').
    apply bind_ok_inv in H' as (key & Hd & H'). injection H' as <-. reflexivity.
Qed.

(* hence an accepted document is within the cap *)
Corollary accept_cost_capped P t pw w : read_wallet_tree P t pw = Ok w -> cost_capped P t = true.
Proof.
  intros H. pose proof (accept_capped P t pw w H) as Hc.
  apply accept_content in H as (cf & Hd & _). unfold cost_capped. rewrite Hd. exact Hc.
Qed.
