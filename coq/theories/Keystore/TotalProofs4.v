(* C15, part 4: on strictly formed documents ([v3_wellformed]) the typed decoding of the model and the
   strict reading of the specification (Keystore/Spec.v) see the same members, so the key an accepted
   file yields is the key the independent V3 specification derives from the same document and
   password. *)
From Coq Require Import String.
From Coq Require Import List NArith ZArith Lia Bool Arith.
From Coq Require Import Init.Byte.
From FFS Require Import Base.Res Base.Bytes Keystore.Json Keystore.Prims Keystore.Model Keystore.Spec
  Keystore.ReadTypes Keystore.TotalProofs Keystore.TotalProofs2.
Import ListNotations.
Local Open Scope string_scope.
Local Open Scope list_scope.

(* ---------- field names ---------- *)
Lemma bytes_eqb_refl a : bytes_eqb a a = true.
Proof. destruct (bytes_eqb_spec a a); [reflexivity|contradiction]. Qed.

Lemma is_field_exact f : is_field (ascii_bytes f) f = true.
Proof. unfold is_field. apply bytes_eqb_refl. Qed.

Lemma is_field_excl k a b :
  is_field k a = true -> is_field k b = true -> fold_name (ascii_bytes a) = fold_name (ascii_bytes b).
Proof. unfold is_field. intros H1 H2. apply bytes_eqb_eq in H1, H2. congruence. Qed.

Ltac excl :=
  match goal with
  | H1 : is_field ?k ?a = true, H2 : is_field ?k ?b = true |- _ =>
      let H := fresh in pose proof (is_field_excl k a b H1 H2) as H; vm_compute in H; discriminate H
  end.

(* ---------- a member list in which a field occurs exactly once under its exact name ---------- *)
Lemma filter_sub {A} (p q : A -> bool) (l : list A) x :
  (forall y, q y = true -> p y = true) -> filter p l = [x] -> q x = true -> filter q l = [x].
Proof.
  intros Hqp. induction l as [|a l IH]; simpl; [discriminate|].
  destruct (p a) eqn:Ep.
  - intros H Hq. injection H as -> Hl. rewrite Hq. f_equal.
    clear IH. induction l as [|b l IH]; [reflexivity|]. simpl in *.
    destruct (p b) eqn:Epb; [discriminate|].
    destruct (q b) eqn:Eqb; [apply Hqp in Eqb; congruence|]. apply IH; exact Hl.
  - intros H Hq. destruct (q a) eqn:Eqa; [apply Hqp in Eqa; congruence|]. apply IH; assumption.
Qed.

Lemma exact_once_inv ms f :
  exact_once ms f = true ->
  exists v, filter (fun m => is_field (fst m) f) ms = [(ascii_bytes f, v)] /\ field f ms = Some v.
Proof.
  unfold exact_once. destruct (filter (fun m => is_field (fst m) f) ms) as [|[k v] [|? ?]] eqn:E; try discriminate.
  intros H. apply bytes_eqb_eq in H. subst k. exists v. split; [reflexivity|].
  unfold field.
  rewrite (filter_sub (fun m => is_field (fst m) f) (fun m => bytes_eqb (fst m) (ascii_bytes f)) ms (ascii_bytes f, v)).
  - reflexivity.
  - intros [k' v'] Hk. simpl in *. apply bytes_eqb_eq in Hk. subst k'. apply is_field_exact.
  - exact E.
  - simpl. apply bytes_eqb_refl.
Qed.

(* ---------- how a fold over the members treats such a field ---------- *)
Section Fold.
  Context {S A : Type}.
  Variable step : S -> bytes -> json -> res S.
  Variable f : string.
  Variable g : S -> A.
  Variable dec : A -> json -> res A.

  Definition field_step_ok : Prop :=
    (forall st k v st1, step st k v = Ok st1 -> is_field k f = true -> dec (g st) v = Ok (g st1)) /\
    (forall st k v st1, step st k v = Ok st1 -> is_field k f = false -> g st1 = g st).

  Hypothesis Hok : field_step_ok.

  Lemma fold_frame ms : forall st st',
    fold_members step ms st = Ok st' -> filter (fun m => is_field (fst m) f) ms = [] -> g st' = g st.
  Proof.
    induction ms as [|[k v] t IH]; intros st st' H Hf; simpl in *.
    - injection H as <-. reflexivity.
    - destruct (is_field k f) eqn:E; [discriminate|].
      apply bind_ok_inv in H as (st1 & H1 & H2).
      rewrite (IH _ _ H2 Hf). eapply (proj2 Hok); eassumption.
  Qed.

  Lemma fold_unique ms : forall st st' k0 v0,
    fold_members step ms st = Ok st' -> filter (fun m => is_field (fst m) f) ms = [(k0, v0)] ->
    dec (g st) v0 = Ok (g st').
  Proof.
    induction ms as [|[k v] t IH]; intros st st' k0 v0 H Hf; simpl in *; [discriminate|].
    apply bind_ok_inv in H as (st1 & H1 & H2).
    destruct (is_field k f) eqn:E.
    - injection Hf as -> -> Hf. rewrite (fold_frame _ _ _ H2 Hf). eapply (proj1 Hok); eassumption.
    - rewrite <- (proj2 Hok _ _ _ _ H1 E). eapply IH; eassumption.
  Qed.
End Fold.

(* ---------- the decoders on values of the right kind ---------- *)
Lemma hex_no_prefix s b : hex_decode s = Some b -> trim0x s = s.
Proof.
  destruct s as [|a [|c t]]; try reflexivity. simpl.
  destruct ((b2n a =? 48)%N && (b2n c =? 120)%N) eqn:E; [|reflexivity].
  apply andb_true_iff in E as [_ E]. apply N.eqb_eq in E.
  unfold hex_val. rewrite E. simpl. destruct (_ : option N); discriminate.
Qed.

(* ---------- the step functions satisfy [field_step_ok] for each of their fields ---------- *)
Ltac open_step H :=
  repeat match type of H with
         | context [if is_field ?k ?n then _ else _] => destruct (is_field k n) eqn:?; cbv beta iota in H
         end.
Ltac close_step H :=
  try excl; try discriminate;
  first
    [ injection H as <-; reflexivity
    | let z := fresh "z" in let Hd := fresh "Hd" in let He := fresh "He" in
      apply bind_ok_inv in H; destruct H as (z & Hd & He); injection He as <-; first [exact Hd | reflexivity] ].

Ltac field_ok unf :=
  split; intros st k v st1 H Hf; unf H; open_step H; close_step H.

Lemma sp_dklen_ok : field_step_ok step_scrypt_params "dklen" sp_dklen dec_int.
Proof. field_ok ltac:(fun H => unfold step_scrypt_params in H). Qed.
Lemma sp_n_ok : field_step_ok step_scrypt_params "n" sp_n dec_int.
Proof. field_ok ltac:(fun H => unfold step_scrypt_params in H). Qed.
Lemma sp_r_ok : field_step_ok step_scrypt_params "r" sp_r dec_int.
Proof. field_ok ltac:(fun H => unfold step_scrypt_params in H). Qed.
Lemma sp_p_ok : field_step_ok step_scrypt_params "p" sp_p dec_int.
Proof. field_ok ltac:(fun H => unfold step_scrypt_params in H). Qed.
Lemma sp_salt_ok : field_step_ok step_scrypt_params "salt" sp_salt dec_hex.
Proof. field_ok ltac:(fun H => unfold step_scrypt_params in H). Qed.

Lemma pp_dklen_ok : field_step_ok step_pbkdf2_params "dklen" pp_dklen dec_int.
Proof. field_ok ltac:(fun H => unfold step_pbkdf2_params in H). Qed.
Lemma pp_c_ok : field_step_ok step_pbkdf2_params "c" pp_c dec_int.
Proof. field_ok ltac:(fun H => unfold step_pbkdf2_params in H). Qed.
Lemma pp_prf_ok : field_step_ok step_pbkdf2_params "prf" pp_prf dec_string.
Proof. field_ok ltac:(fun H => unfold step_pbkdf2_params in H). Qed.
Lemma pp_salt_ok : field_step_ok step_pbkdf2_params "salt" pp_salt dec_hex.
Proof. field_ok ltac:(fun H => unfold step_pbkdf2_params in H). Qed.

Lemma cp_iv_ok : field_step_ok step_cipherparams "iv" (fun iv : bytes => iv) dec_hex.
Proof.
  split; intros st k v st1 H Hf; unfold step_cipherparams in H; rewrite Hf in H.
  - exact H.
  - injection H as <-. reflexivity.
Qed.

Ltac inv_binds :=
  repeat match goal with
         | H : bind _ _ = Ok _ |- _ =>
             let a := fresh "a" in let H1 := fresh "Hb" in let H2 := fresh "Hc" in
             apply bind_ok_inv in H; destruct H as (a & H1 & H2)
         | H : Ok _ = Ok _ |- _ => injection H as <-
         end.
Ltac field_ok2 unf :=
  split; intros st k v st1 H Hf; unf H; open_step H; try excl; try discriminate;
  inv_binds; first [assumption | reflexivity].

Lemma cc_kdf_ok : field_step_ok step_crypto_only "kdf" cc_kdf dec_string.
Proof. field_ok2 ltac:(fun H => unfold step_crypto_only, step_crypto_common in H). Qed.

Section CryptoWith.
  Context {K : Type}.
  Variable sp : K -> bytes -> json -> res K.
  Let stepc := step_crypto_with sp.

  Lemma cw_ciphertext_ok : field_step_ok stepc "ciphertext" (fun s : crypto_common * K => cc_ciphertext (fst s)) dec_hex.
  Proof. field_ok2 ltac:(fun H => unfold stepc, step_crypto_with, step_crypto_common in H). Qed.
  Lemma cw_cipher_ok : field_step_ok stepc "cipher" (fun s : crypto_common * K => cc_cipher (fst s)) dec_string.
  Proof. field_ok2 ltac:(fun H => unfold stepc, step_crypto_with, step_crypto_common in H). Qed.
  Lemma cw_mac_ok : field_step_ok stepc "mac" (fun s : crypto_common * K => cc_mac (fst s)) dec_hex.
  Proof. field_ok2 ltac:(fun H => unfold stepc, step_crypto_with, step_crypto_common in H). Qed.
  Lemma cw_cipherparams_ok :
    field_step_ok stepc "cipherparams" (fun s : crypto_common * K => cc_iv (fst s)) (dec_object step_cipherparams).
  Proof. field_ok2 ltac:(fun H => unfold stepc, step_crypto_with, step_crypto_common in H). Qed.
  Lemma cw_kdfparams_ok : field_step_ok stepc "kdfparams" (fun s : crypto_common * K => snd s) (dec_object sp).
  Proof. field_ok2 ltac:(fun H => unfold stepc, step_crypto_with, step_crypto_common in H). Qed.
End CryptoWith.

Section Wallet.
  Context {C : Type}.
  Variable P : prims.
  Variable sc : C -> bytes -> json -> res C.
  Let stepw := step_wallet P sc.

  Lemma sw_version_ok : field_step_ok stepw "version" (fun s : core_fields * C => cf_version (fst s)) dec_int.
  Proof. field_ok2 ltac:(fun H => unfold stepw, step_wallet, step_core in H). Qed.
  Lemma sw_crypto_ok : field_step_ok stepw "crypto" (fun s : core_fields * C => snd s) (dec_object sc).
  Proof. field_ok2 ltac:(fun H => unfold stepw, step_wallet, step_core in H). Qed.
End Wallet.

(* ---------- reading a field off the result of a fold, in the terms of the specification ---------- *)
Section Get.
  Context {S : Type}.
  Variable step : S -> bytes -> json -> res S.
  Variable ms : list (bytes * json).
  Variables st st' : S.
  Hypothesis Hfold : fold_members step ms st = Ok st'.
  Variable f : string.
  Hypothesis Honce : exact_once ms f = true.

  Lemma get_value {A} (g : S -> A) dec v :
    field_step_ok step f g dec -> field f ms = Some v -> dec (g st) v = Ok (g st').
  Proof.
    intros Hok Hv. destruct (exact_once_inv ms f Honce) as (v' & Hfil & Hv').
    rewrite Hv in Hv'. injection Hv' as <-.
    eapply fold_unique; eassumption.
  Qed.

  Lemma get_int (g : S -> Z) z :
    field_step_ok step f g dec_int -> int_field f ms = Some z -> g st' = z.
  Proof.
    intros Hok. unfold int_field. destruct (field f ms) as [[]|] eqn:E; try discriminate. intros Hp.
    pose proof (get_value g dec_int _ Hok E) as H. simpl in H. rewrite Hp in H. congruence.
  Qed.

  Lemma get_hex (g : S -> bytes) b :
    field_step_ok step f g dec_hex -> hex_field f ms = Some b -> g st' = b.
  Proof.
    intros Hok. unfold hex_field. destruct (field f ms) as [[]|] eqn:E; try discriminate. intros Hp.
    pose proof (get_value g dec_hex _ Hok E) as H. simpl in H.
    rewrite (hex_no_prefix _ _ Hp), Hp in H. congruence.
  Qed.

  Lemma get_str (g : S -> bytes) s :
    field_step_ok step f g dec_string -> str_field f ms = Some s -> g st' = s.
  Proof.
    intros Hok. unfold str_field. destruct (field f ms) as [[]|] eqn:E; try discriminate. intros Hp.
    pose proof (get_value g dec_string _ Hok E) as H. simpl in H. congruence.
  Qed.

  Lemma get_obj {A} (g : S -> A) (sub : A -> bytes -> json -> res A) o :
    field_step_ok step f g (dec_object sub) -> obj_field f ms = Some o -> fold_members sub o (g st) = Ok (g st').
  Proof.
    intros Hok. unfold obj_field. destruct (field f ms) as [[]|] eqn:E; try discriminate. intros Hp.
    injection Hp as ->. exact (get_value g (dec_object sub) _ Hok E).
  Qed.
End Get.

Lemma wf_int_inv name ms : wf_int name ms = true -> exists z, int_field name ms = Some z.
Proof.
  unfold wf_int, int_field. destruct (field name ms) as [[]|]; try discriminate.
  destruct (parse_int64 lit); [eauto|discriminate].
Qed.
Lemma wf_hex_inv name ms : wf_hex name ms = true -> exists b, hex_field name ms = Some b.
Proof. unfold wf_hex. destruct (hex_field name ms); [eauto|discriminate]. Qed.
Lemma wf_str_inv name ms : wf_str name ms = true -> exists b, str_field name ms = Some b.
Proof. unfold wf_str. destruct (str_field name ms); [eauto|discriminate]. Qed.

Lemma exact_members_in fs ms f : exact_members fs ms = true -> In f fs -> exact_once ms f = true.
Proof. unfold exact_members. rewrite forallb_forall. auto. Qed.

Ltac split_andb :=
  repeat match goal with
         | H : _ && _ = true |- _ => apply andb_true_iff in H; destruct H
         end.
Ltac have_once ms f Hex := assert (exact_once ms f = true) by (apply (exact_members_in _ _ _ Hex); simpl; tauto).

(* the crypto object, read by a typed pass with kdfparams, in the terms of the specification *)
Lemma crypto_typed {K} (sp : K -> bytes -> json -> res K) (zero : K) cr cc kpar ct mac cp iv kp :
  fold_members (step_crypto_with sp) cr (zero_cc, zero) = Ok (cc, kpar) ->
  exact_members ["cipher"; "ciphertext"; "cipherparams"; "kdf"; "kdfparams"; "mac"] cr = true ->
  hex_field "ciphertext" cr = Some ct -> hex_field "mac" cr = Some mac ->
  obj_field "cipherparams" cr = Some cp -> exact_members ["iv"] cp = true -> hex_field "iv" cp = Some iv ->
  obj_field "kdfparams" cr = Some kp ->
  cc_ciphertext cc = ct /\ cc_mac cc = mac /\ cc_iv cc = iv /\ fold_members sp kp zero = Ok kpar.
Proof.
  intros Hf Hex Hct Hmac Hcp Hexiv Hiv Hkp.
  have_once cr "ciphertext" Hex. have_once cr "mac" Hex. have_once cr "cipherparams" Hex. have_once cr "kdfparams" Hex. have_once cp "iv" Hexiv.
  repeat split.
  - exact (get_hex _ _ _ _ Hf "ciphertext" H _ ct (cw_ciphertext_ok sp) Hct).
  - exact (get_hex _ _ _ _ Hf "mac" H0 _ mac (cw_mac_ok sp) Hmac).
  - pose proof (get_obj _ _ _ _ Hf "cipherparams" H1 _ _ cp (cw_cipherparams_ok sp) Hcp) as Hcpf. simpl in Hcpf.
    exact (get_hex _ _ _ _ Hcpf "iv" H3 _ iv cp_iv_ok Hiv).
  - exact (get_obj _ _ _ _ Hf "kdfparams" H2 _ _ kp (cw_kdfparams_ok sp) Hkp).
Qed.

Lemma print_Z_3 v : v = print_Z 3 -> bytes_eqb v (ascii_bytes "3") = true.
Proof. intros ->. vm_compute. reflexivity. Qed.

Theorem wellformed_content_is_standard (b : bool) P t pw c key :
  v3_wellformed t = true -> decode_content P t = Some c -> content_key P c pw = Some key ->
  (b = true -> cipher_bad c = false) ->
  v3_decrypt_gen b P t pw = Ok key.
Proof.
  intros Hwf Hdec Hkey Hciph.
  destruct t as [| | | | |top]; try discriminate.
  cbn [v3_wellformed] in Hwf.
  apply andb_true_iff in Hwf as [Hex Hwf].
  destruct (field "version" top) as [[| |v| | |]|] eqn:Fv; try discriminate.
  destruct (str_field "id" top) as [id|] eqn:Fid; try discriminate.
  destruct (obj_field "crypto" top) as [cr|] eqn:Fc; try discriminate.
  destruct (obj_field "cipherparams" cr) as [cp|] eqn:Fcp; [|split_andb; discriminate].
  destruct (str_field "kdf" cr) as [kdf|] eqn:Fkdf; [|split_andb; discriminate].
  destruct (obj_field "kdfparams" cr) as [kp|] eqn:Fkp; [|split_andb; discriminate].
  destruct (parse_int64 v) as [z|] eqn:Pv; [|split_andb; discriminate].
  split_andb.
  match goal with H : wf_str "cipher" cr = true |- _ => apply wf_str_inv in H; destruct H as (cipher & Fcipher) end.
  match goal with H : wf_hex "ciphertext" cr = true |- _ => apply wf_hex_inv in H; destruct H as (ct & Fct) end.
  match goal with H : wf_hex "mac" cr = true |- _ => apply wf_hex_inv in H; destruct H as (mac & Fmac) end.
  match goal with H : wf_hex "iv" cp = true |- _ => apply wf_hex_inv in H; destruct H as (iv & Fiv) end.
  match goal with H : bytes_eqb v (print_Z z) = true |- _ => apply bytes_eqb_eq in H; rename H into Hv end.
  match goal with H : exact_members _ cr = true |- _ => rename H into Hexcr end.
  match goal with H : exact_members _ cp = true |- _ => rename H into Hexcp end.
  match goal with H : wf_kdfparams kdf kp = true |- _ => rename H into Hwkp end.
  have_once top "version" Hex. have_once top "crypto" Hex. have_once cr "kdf" Hexcr.
  (* first pass *)
  unfold decode_content in Hdec.
  destruct (decode_common P (JObj top)) as [[cf cc0]| |] eqn:Dc; try discriminate.
  unfold decode_common, unmarshal_wallet in Dc. cbn [dec_object] in Dc.
  assert (Hz : cf_version cf = z).
  { apply (get_int _ _ _ _ Dc "version" ltac:(assumption) (fun s => cf_version (fst s)) z (sw_version_ok P step_crypto_only)).
    unfold int_field. rewrite Fv. exact Pv. }
  pose proof (get_obj _ _ _ _ Dc "crypto" ltac:(assumption) _ _ cr (sw_crypto_ok P step_crypto_only) Fc) as Dcr.
  cbn [snd] in Dcr.
  assert (Hkdf : cc_kdf cc0 = kdf).
  { exact (get_str _ _ _ _ Dcr "kdf" ltac:(assumption) _ kdf cc_kdf_ok Fkdf). }
  (* the specification, up to the key derivation *)
  unfold v3_decrypt_gen. rewrite Fv, Fid, Fc.
  (* version = 3 *)
  destruct c as [[cf' cc] kpar].
  assert (Hcf : cf' = cf).
  { destruct (bytes_eqb (cc_kdf cc0) kdfTypeScrypt); [destruct (decode_scrypt P (JObj top)) as [[? [? ?]]| |]; congruence|].
    destruct (bytes_eqb (cc_kdf cc0) kdfTypePbkdf2); [destruct (decode_pbkdf2 P (JObj top)) as [[? [? ?]]| |]; congruence|].
    discriminate. }
  subst cf'.
  unfold content_key in Hkey.
  destruct ((cf_version cf =? 3)%Z && is_some (cf_id cf) && (length (cc_iv cc) =? 16)%nat) eqn:Hcore; [|discriminate].
  apply andb_true_iff in Hcore as [Hcore Hivl]. apply andb_true_iff in Hcore as [Hver _].
  apply Z.eqb_eq in Hver. rewrite Hz in Hver. subst z.
  rewrite (print_Z_3 v Hv). cbn [negb].
  match goal with H : uuid_text_ok id = true |- _ => rewrite H end. cbn [negb].
  rewrite Fcipher, Fct, Fcp, Fkdf, Fkp, Fmac.
  assert (Hbc : b && negb (bytes_eqb cipher (ascii_bytes "aes-128-ctr")) = false).
  { destruct b; [|reflexivity]. cbn [andb]. specialize (Hciph eq_refl). unfold cipher_bad, cipherAES128ctr in Hciph.
    have_once cr "cipher" Hexcr.
    assert (Hcc : cc_cipher cc = cipher).
    { destruct (bytes_eqb (cc_kdf cc0) kdfTypeScrypt).
      - destruct (decode_scrypt P (JObj top)) as [[cf2 [cc2 sp]]| |] eqn:Ds; try discriminate.
        injection Hdec as <- <-.
        unfold decode_scrypt, unmarshal_wallet in Ds. cbn [dec_object] in Ds.
        pose proof (get_obj _ _ _ _ Ds "crypto" ltac:(assumption) _ _ cr (sw_crypto_ok P _) Fc) as Dcr2.
        cbn [snd] in Dcr2.
        exact (get_str _ _ _ _ Dcr2 "cipher" ltac:(assumption) _ cipher (cw_cipher_ok _) Fcipher).
      - destruct (bytes_eqb (cc_kdf cc0) kdfTypePbkdf2); [|discriminate].
        destruct (decode_pbkdf2 P (JObj top)) as [[cf2 [cc2 pp]]| |] eqn:Ds; try discriminate.
        injection Hdec as <- <-.
        unfold decode_pbkdf2, unmarshal_wallet in Ds. cbn [dec_object] in Ds.
        pose proof (get_obj _ _ _ _ Ds "crypto" ltac:(assumption) _ _ cr (sw_crypto_ok P _) Fc) as Dcr2.
        cbn [snd] in Dcr2.
        exact (get_str _ _ _ _ Dcr2 "cipher" ltac:(assumption) _ cipher (cw_cipher_ok _) Fcipher). }
    rewrite <- Hcc. exact Hciph. }
  rewrite Hbc. rewrite Fiv.
  destruct (content_dk P kpar pw) as [dk|] eqn:Hdk; [|discriminate].
  destruct (bytes_eqb (hash P (skipn 16 dk ++ cc_ciphertext cc)) (cc_mac cc)) eqn:Hmac; [|discriminate].
  injection Hkey as <-.
  rewrite Hkdf in Hdec. unfold wf_kdfparams in Hwkp. unfold derive_key.
  unfold kdfTypeScrypt, kdfTypePbkdf2 in *.
  destruct (bytes_eqb kdf (ascii_bytes "scrypt")) eqn:Ks.
  - (* scrypt *)
    destruct (decode_scrypt P (JObj top)) as [[cf2 [cc2 sp]]| |] eqn:Ds; try discriminate.
    injection Hdec as <- <-.
    unfold decode_scrypt, unmarshal_wallet in Ds. cbn [dec_object] in Ds.
    pose proof (get_obj _ _ _ _ Ds "crypto" ltac:(assumption) _ _ cr (sw_crypto_ok P _) Fc) as Dcr2.
    cbn [snd] in Dcr2.
    destruct (crypto_typed _ _ _ _ _ _ _ _ _ _ Dcr2 Hexcr Fct Fmac Fcp Hexcp Fiv Fkp) as (Ect & Emac & Eiv & Dkp).
    split_andb.
    match goal with H : wf_int "dklen" kp = true |- _ => apply wf_int_inv in H; destruct H as (zdk & Fdk) end.
    match goal with H : wf_int "n" kp = true |- _ => apply wf_int_inv in H; destruct H as (zn & Fn) end.
    match goal with H : wf_int "r" kp = true |- _ => apply wf_int_inv in H; destruct H as (zr & Fr) end.
    match goal with H : wf_int "p" kp = true |- _ => apply wf_int_inv in H; destruct H as (zp & Fp) end.
    match goal with H : wf_hex "salt" kp = true |- _ => apply wf_hex_inv in H; destruct H as (salt & Fsalt) end.
    match goal with H : exact_members _ kp = true |- _ => rename H into Hexkp end.
    have_once kp "dklen" Hexkp. have_once kp "n" Hexkp. have_once kp "r" Hexkp. have_once kp "p" Hexkp. have_once kp "salt" Hexkp.
    rewrite Fdk, Fn, Fr, Fp, Fsalt.
    pose proof (get_int _ _ _ _ Dkp "dklen" ltac:(assumption) _ _ sp_dklen_ok Fdk) as E1.
    pose proof (get_int _ _ _ _ Dkp "n" ltac:(assumption) _ _ sp_n_ok Fn) as E2.
    pose proof (get_int _ _ _ _ Dkp "r" ltac:(assumption) _ _ sp_r_ok Fr) as E3.
    pose proof (get_int _ _ _ _ Dkp "p" ltac:(assumption) _ _ sp_p_ok Fp) as E4.
    pose proof (get_hex _ _ _ _ Dkp "salt" ltac:(assumption) _ _ sp_salt_ok Fsalt) as E5.
    unfold content_dk, dklen_of, cost_params_ok, prf_ok in Hdk. rewrite E1, E2, E3, E4, E5 in Hdk.
    rewrite andb_true_r in Hdk.
    match type of Hdk with (if ?b then _ else _) = _ => destruct b eqn:Hb; [|discriminate] end.
    injection Hdk as <-.
    rewrite Eiv in Hivl. rewrite Hivl. cbn [negb].
    rewrite <- Ect, <- Emac, <- Eiv. rewrite Hmac. reflexivity.
  - destruct (bytes_eqb kdf (ascii_bytes "pbkdf2")) eqn:Kp; [|discriminate].
    destruct (decode_pbkdf2 P (JObj top)) as [[cf2 [cc2 pp]]| |] eqn:Ds; try discriminate.
    injection Hdec as <- <-.
    unfold decode_pbkdf2, unmarshal_wallet in Ds. cbn [dec_object] in Ds.
    pose proof (get_obj _ _ _ _ Ds "crypto" ltac:(assumption) _ _ cr (sw_crypto_ok P _) Fc) as Dcr2.
    cbn [snd] in Dcr2.
    destruct (crypto_typed _ _ _ _ _ _ _ _ _ _ Dcr2 Hexcr Fct Fmac Fcp Hexcp Fiv Fkp) as (Ect & Emac & Eiv & Dkp).
    split_andb.
    match goal with H : wf_int "dklen" kp = true |- _ => apply wf_int_inv in H; destruct H as (zdk & Fdk) end.
    match goal with H : wf_int "c" kp = true |- _ => apply wf_int_inv in H; destruct H as (zc & Fcc) end.
    match goal with H : wf_hex "salt" kp = true |- _ => apply wf_hex_inv in H; destruct H as (salt & Fsalt) end.
    match goal with H : wf_str "prf" kp = true |- _ => apply wf_str_inv in H; destruct H as (prf & Fprf) end.
    match goal with H : exact_members _ kp = true |- _ => rename H into Hexkp end.
    have_once kp "dklen" Hexkp. have_once kp "c" Hexkp. have_once kp "prf" Hexkp. have_once kp "salt" Hexkp.
    rewrite Fdk, Fcc, Fprf, Fsalt.
    pose proof (get_int _ _ _ _ Dkp "dklen" ltac:(assumption) _ _ pp_dklen_ok Fdk) as E1.
    pose proof (get_int _ _ _ _ Dkp "c" ltac:(assumption) _ _ pp_c_ok Fcc) as E2.
    pose proof (get_str _ _ _ _ Dkp "prf" ltac:(assumption) _ _ pp_prf_ok Fprf) as E3.
    pose proof (get_hex _ _ _ _ Dkp "salt" ltac:(assumption) _ _ pp_salt_ok Fsalt) as E5.
    unfold content_dk, dklen_of, cost_params_ok, prf_ok in Hdk. rewrite E1, E2, E3, E5 in Hdk.
    unfold prfHmacSHA256 in Hdk.
    match type of Hdk with (if ?b then _ else _) = _ => destruct b eqn:Hb; [|discriminate] end.
    injection Hdk as <-.
    rewrite Eiv in Hivl. rewrite Hivl. cbn [negb].
    rewrite <- Ect, <- Emac, <- Eiv. rewrite Hmac. reflexivity.
Qed.

(* ---------- the allocation cap: the strict reading of "n" and "r" is what the scrypt pass decodes ---------- *)
Lemma wellformed_alloc P t cf cc sp :
  v3_wellformed t = true -> decode_content P t = Some (cf, cc, KScrypt sp) ->
  doc_alloc_ok t = scrypt_alloc_ok (sp_n sp) (sp_r sp).
Proof.
  intros Hwf Hdec.
  destruct t as [| | | | |top]; try discriminate.
  cbn [v3_wellformed] in Hwf.
  apply andb_true_iff in Hwf as [Hex Hwf].
  destruct (field "version" top) as [[| |v| | |]|] eqn:Fv; try discriminate.
  destruct (str_field "id" top) as [id|] eqn:Fid; try discriminate.
  destruct (obj_field "crypto" top) as [cr|] eqn:Fc; try discriminate.
  destruct (obj_field "cipherparams" cr) as [cp|] eqn:Fcp; [|split_andb; discriminate].
  destruct (str_field "kdf" cr) as [kdf|] eqn:Fkdf; [|split_andb; discriminate].
  destruct (obj_field "kdfparams" cr) as [kp|] eqn:Fkp; [|split_andb; discriminate].
  split_andb.
  match goal with H : exact_members _ cr = true |- _ => rename H into Hexcr end.
  match goal with H : wf_kdfparams kdf kp = true |- _ => rename H into Hwkp end.
  have_once top "crypto" Hex. have_once cr "kdf" Hexcr. have_once cr "kdfparams" Hexcr.
  unfold doc_alloc_ok. rewrite Fc, Fkp.
  unfold decode_content in Hdec.
  destruct (decode_common P (JObj top)) as [[cf0 cc0]| |] eqn:Dc; try discriminate.
  unfold decode_common, unmarshal_wallet in Dc. cbn [dec_object] in Dc.
  pose proof (get_obj _ _ _ _ Dc "crypto" ltac:(assumption) _ _ cr (sw_crypto_ok P step_crypto_only) Fc) as Dcr.
  cbn [snd] in Dcr.
  assert (Hkdf : cc_kdf cc0 = kdf).
  { exact (get_str _ _ _ _ Dcr "kdf" ltac:(assumption) _ kdf cc_kdf_ok Fkdf). }
  rewrite Hkdf in Hdec. unfold wf_kdfparams in Hwkp.
  destruct (bytes_eqb kdf kdfTypeScrypt) eqn:Ks.
  2:{ destruct (bytes_eqb kdf kdfTypePbkdf2); [|discriminate].
      destruct (decode_pbkdf2 P (JObj top)) as [[? [? ?]]| |]; discriminate. }
  destruct (decode_scrypt P (JObj top)) as [[cf2 [cc2 sp2]]| |] eqn:Ds; try discriminate.
  injection Hdec as <- <- <-.
  unfold decode_scrypt, unmarshal_wallet in Ds. cbn [dec_object] in Ds.
  pose proof (get_obj _ _ _ _ Ds "crypto" ltac:(assumption) _ _ cr (sw_crypto_ok P _) Fc) as Dcr2.
  cbn [snd] in Dcr2.
  pose proof (get_obj _ _ _ _ Dcr2 "kdfparams" ltac:(assumption) _ _ kp (cw_kdfparams_ok step_scrypt_params) Fkp) as Dkp.
  cbn [snd] in Dkp.
  split_andb.
  match goal with H : wf_int "n" kp = true |- _ => apply wf_int_inv in H; destruct H as (zn & Fn) end.
  match goal with H : wf_int "r" kp = true |- _ => apply wf_int_inv in H; destruct H as (zr & Fr) end.
  match goal with H : exact_members _ kp = true |- _ => rename H into Hexkp end.
  have_once kp "n" Hexkp. have_once kp "r" Hexkp.
  rewrite Fn, Fr.
  rewrite (get_int _ _ _ _ Dkp "n" ltac:(assumption) _ _ sp_n_ok Fn).
  rewrite (get_int _ _ _ _ Dkp "r" ltac:(assumption) _ _ sp_r_ok Fr).
  reflexivity.
Qed.

Lemma wellformed_capped P t : v3_wellformed t = true -> doc_alloc_ok t = true -> cost_capped P t = true.
Proof.
  intros Hwf Hc. unfold cost_capped.
  destruct (decode_content P t) as [[[cf cc] [sp|pp]]|] eqn:Hd; try reflexivity.
  cbn [kdf_cost_capped]. rewrite <- (wellformed_alloc P t cf cc sp Hwf Hd). exact Hc.
Qed.

(* ---------- no foreign key, against the independent specification ---------- *)
Theorem no_foreign_key_gen (b : bool) P t pw w :
  v3_wellformed t = true -> read_wallet_tree P t pw = Ok w ->
  (b = true -> cc_cipher (w_crypto w) = cipherAES128ctr) ->
  v3_decrypt_gen b P t pw = Ok (PrivateKey w).
Proof.
  intros Hwf Hr Hc. apply accept_content in Hr as (cf & Hd & Hk).
  eapply wellformed_content_is_standard; try eassumption.
  intros Hb. unfold cipher_bad. rewrite (Hc Hb). rewrite bytes_eqb_refl. reflexivity.
Qed.
