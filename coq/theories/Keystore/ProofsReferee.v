(* C07, answers to the referee report (design/reviews/C07.md):
   I1  the address: what comes back is the "address" metadata entry of the creating key pair;
   I2  tamper / wrong-password statements with the colliding pair NAMED (no bare [collision (hash P)],
       which is true of every 32-byte hash by counting);
   I3  error-form statements: reading never panics within the cost cap, and a tampered file / another
       password / a changed MAC is an ERROR unless the two named MAC inputs collide under the hash;
   I5  the unconditional rejection of a changed MAC;
   I6  a PBKDF2 document meets the hypotheses of [read_is_standard] (c = 1 and c = 4096). *)
From Coq Require Import String.
From Coq Require Import List NArith ZArith Lia Bool Arith.
From Coq Require Import Init.Byte.
From FFS Require Import Base.Res Base.Bytes Keystore.Json Keystore.JsonFacts Keystore.Prims Keystore.Model Keystore.Spec
  Keystore.ReadTypes Keystore.ProofsFresh Keystore.ProofsMac Keystore.ProofsNew Keystore.ProofsRead Keystore.ProofsRound
  Keystore.ProofsPw Keystore.Toy.
From FFS Require Keystore.TotalProofs Keystore.TotalProofs2.
Import ListNotations.
Local Open Scope string_scope.
Local Open Scope list_scope.

(* ================= I2: the colliding pair, named ================= *)
(* two accepted (document, password) pairs with the same MAC: the two MAC inputs have the same digest
   -- unconditionally --, and either they are the same input (same ciphertext, same MAC key) or they
   are two different byte strings: THE collision, not some collision *)
Theorem tamper_explicit P t1 pw1 w1 t2 pw2 w2 :
  read_wallet_tree P t1 pw1 = Ok w1 -> read_wallet_tree P t2 pw2 = Ok w2 ->
  cc_mac (w_crypto w1) = cc_mac (w_crypto w2) ->
  let x1 := mac_key P w1 pw1 ++ cc_ciphertext (w_crypto w1) in
  let x2 := mac_key P w2 pw2 ++ cc_ciphertext (w_crypto w2) in
  hash P x1 = hash P x2 /\
  ((cc_ciphertext (w_crypto w1) = cc_ciphertext (w_crypto w2) /\ mac_key P w1 pw1 = mac_key P w2 pw2) \/ x1 <> x2).
Proof.
  intros R1 R2 E x1 x2.
  apply accept_needs_mac in R1 as [_ [_ [L1 [M1 _]]]]. apply accept_needs_mac in R2 as [_ [_ [L2 [M2 _]]]].
  split; [subst x1 x2; congruence|].
  destruct (bytes_eqb_spec x1 x2) as [Q|Q]; [left|right; exact Q].
  subst x1 x2. apply app_eq_len in Q; [tauto|]. unfold mac_key. rewrite !skipn_length. lia.
Qed.

(* the same document accepted under two passwords *)
Theorem wrong_password_explicit P t pw pw' w w' :
  read_wallet_tree P t pw = Ok w -> read_wallet_tree P t pw' = Ok w' ->
  w_crypto w' = w_crypto w /\ w_kdfparams w' = w_kdfparams w /\
  let ct := cc_ciphertext (w_crypto w) in
  hash P (mac_key P w pw ++ ct) = hash P (mac_key P w pw' ++ ct) /\
  (mac_key P w pw = mac_key P w pw' \/ mac_key P w pw ++ ct <> mac_key P w pw' ++ ct).
Proof.
  intros R1 R2. destruct (read_same_doc P t pw pw' w w' R1 R2) as [_ [C [K _]]].
  split; [congruence|]. split; [congruence|]. intros ct.
  assert (Mk : mac_key P w' pw' = mac_key P w pw') by (unfold mac_key, derived_key; rewrite K; reflexivity).
  destruct (tamper_explicit P t pw w t pw' w' R1 R2) as [H D]; [congruence|].
  cbv zeta in H, D. rewrite <- C, Mk in H, D. split; [exact H|].
  destruct D as [[_ D]|D]; [left; exact D|right; exact D].
Qed.

(* ================= I3 / I5: error-form statements ================= *)
(* DK for declared parameters, without a wallet around them *)
Definition dk_of (P : prims) (kp : kdf_params) (pw : bytes) : bytes :=
  match kp with
  | KScrypt s => scrypt P pw (sp_salt s) (sp_n s) (sp_r s) (sp_p s) 32
  | KPbkdf2 p => pbkdf2 P pw (pp_salt p) (pp_c p) 32
  end.

Lemma mac_key_dk_of P w pw : mac_key P w pw = skipn 16 (dk_of P (w_kdfparams w) pw).
Proof. reflexivity. Qed.

(* reading never panics within the cost cap (the allocation cap of scrypt.Key, see Properties/C15.v) *)
Theorem read_never_panics P data pw : cost_capped_bytes P data = true -> ReadWalletFile P data pw <> Panic.
Proof. apply TotalProofs.ReadWalletFile_total. Qed.

(* what an accepted read decoded *)
Lemma accepted_content P t pw w cf cc kp :
  read_wallet_tree P t pw = Ok w -> decode_content P t = Some (cf, cc, kp) -> cc = w_crypto w /\ kp = w_kdfparams w.
Proof.
  intros R D. apply TotalProofs2.accept_content in R as (cf' & D' & _). rewrite D in D'. injection D' as _ -> ->. auto.
Qed.

(* Tampering is an ERROR unless the named pair collides.  A file was accepted (t1, pw1, w1).  Any
   document t2 within the cost cap -- the same file with ciphertext, salt, n, r, p, c, dklen, kdf, IV
   changed in any way, or any other document -- whose MAC member (as decoded) still equals the accepted
   file's, read with any password pw2: if the MAC input it leads to, DK(pw2, declared parameters)[16..32]
   ++ ciphertext, does not have the same digest as the accepted file's MAC input, the result is an error
   (not a key, not a panic).  For a collision-resistant hash the hypothesis holds whenever the two inputs
   differ; nothing is assumed about the hash here. *)
Theorem tamper_rejected P t1 pw1 w1 t2 pw2 cf2 cc2 kp2 :
  read_wallet_tree P t1 pw1 = Ok w1 ->
  cost_capped P t2 = true ->
  decode_content P t2 = Some (cf2, cc2, kp2) ->
  cc_mac cc2 = cc_mac (w_crypto w1) ->
  hash P (skipn 16 (dk_of P kp2 pw2) ++ cc_ciphertext cc2) <> hash P (mac_key P w1 pw1 ++ cc_ciphertext (w_crypto w1)) ->
  exists e, read_wallet_tree P t2 pw2 = Err e.
Proof.
  intros R1 Hcap D Em Hne.
  destruct (read_wallet_tree P t2 pw2) as [w2|e|] eqn:R2.
  - exfalso. destruct (accepted_content P t2 pw2 w2 cf2 cc2 kp2 R2 D) as [-> ->].
    apply accept_needs_mac in R1 as [_ [_ [_ [M1 _]]]]. apply accept_needs_mac in R2 as [_ [_ [_ [M2 _]]]].
    apply Hne. rewrite <- mac_key_dk_of. congruence.
  - eauto.
  - exfalso. revert R2. apply TotalProofs.read_wallet_tree_total. exact Hcap.
Qed.

(* another password on the SAME document *)
Corollary wrong_password_rejected P t pw w pw' :
  read_wallet_tree P t pw = Ok w ->
  hash P (mac_key P w pw' ++ cc_ciphertext (w_crypto w)) <> hash P (mac_key P w pw ++ cc_ciphertext (w_crypto w)) ->
  exists e, read_wallet_tree P t pw' = Err e.
Proof.
  intros R Hne. pose proof (TotalProofs2.accept_cost_capped P t pw w R) as Hcap.
  pose proof R as R'. apply TotalProofs2.accept_content in R' as (cf & D & _).
  apply (tamper_rejected P t pw w t pw' cf (w_crypto w) (w_kdfparams w) R Hcap D eq_refl).
  rewrite <- mac_key_dk_of. exact Hne.
Qed.

(* I5: a changed MAC -- everything else (ciphertext, KDF parameters, password) as in an accepted file --
   is rejected UNCONDITIONALLY: no hypothesis on the hash *)
Theorem mac_changed_rejected P t1 pw w1 t2 cf2 cc2 :
  read_wallet_tree P t1 pw = Ok w1 ->
  decode_content P t2 = Some (cf2, cc2, w_kdfparams w1) ->
  cc_ciphertext cc2 = cc_ciphertext (w_crypto w1) ->
  cc_mac cc2 <> cc_mac (w_crypto w1) ->
  exists e, read_wallet_tree P t2 pw = Err e.
Proof.
  intros R1 D Ec Hne.
  assert (Hcap : cost_capped P t2 = true).
  { unfold cost_capped. rewrite D. exact (TotalProofs2.accept_capped P t1 pw w1 R1). }
  destruct (read_wallet_tree P t2 pw) as [w2|e|] eqn:R2.
  - exfalso. destruct (accepted_content P t2 pw w2 cf2 cc2 _ R2 D) as [-> Ek].
    apply accept_needs_mac in R1 as [_ [_ [_ [M1 _]]]]. apply accept_needs_mac in R2 as [_ [_ [_ [M2 _]]]].
    apply Hne. rewrite <- M1, <- M2, Ec. rewrite !mac_key_dk_of, <- Ek. reflexivity.
  - eauto.
  - exfalso. revert R2. apply TotalProofs.read_wallet_tree_total. exact Hcap.
Qed.

(* and the positive reading of I5(a): same ciphertext and MAC key => same MAC *)
Corollary same_input_same_mac P t1 pw1 w1 t2 pw2 w2 :
  read_wallet_tree P t1 pw1 = Ok w1 -> read_wallet_tree P t2 pw2 = Ok w2 ->
  cc_ciphertext (w_crypto w1) = cc_ciphertext (w_crypto w2) -> mac_key P w1 pw1 = mac_key P w2 pw2 ->
  cc_mac (w_crypto w1) = cc_mac (w_crypto w2).
Proof.
  intros R1 R2 Ec Ek.
  apply accept_needs_mac in R1 as [_ [_ [_ [M1 _]]]]. apply accept_needs_mac in R2 as [_ [_ [_ [M2 _]]]].
  rewrite <- M1, <- M2, Ec, Ek. reflexivity.
Qed.

(* ================= I1: the address ================= *)
Section Address.
Variable P : prims.
Hypothesis L : crypto_laws P.
Hypothesis LJ : forall t, json_text_ok t = true -> json_parse P (json_print P t) = Some t.
Hypothesis LU : forall u, length u = 16%nat -> uuid_parse P (uuid_string u) = Some u.
Hypothesis LN : forall z, json_num P (print_Z z) <> None.

Definition address_key : bytes := ascii_bytes "address".

Lemma In_assign_all k v w extras :
  In (k, v) (w_metadata w) -> Forall (fun e => fst e <> k) extras -> In (k, v) (w_metadata (assign_all w extras)).
Proof.
  unfold assign_all. revert w. induction extras as [|e tl IH]; intros w I F; cbn [fold_left]; [exact I|].
  inversion F as [|? ? Hd Tl]; subst. apply IH; [|exact Tl].
  unfold assign, set_metadata. cbn [w_metadata]. apply In_mset_other; [exact I|]. intros E. apply Hd. symmetry. exact E.
Qed.

Lemma created_has_address (light : bool) pw kp rnd w rest :
  create P (if light then MkLight pw kp else MkStandard pw kp) rnd = Ok (w, rest) ->
  In (address_key, JStr (hex_encode (kp_address kp))) (w_metadata w).
Proof.
  destruct light; cbn [create]; unfold NewWalletFileLight, NewWalletFileStandard, newScryptWalletFileSecp256k1;
    (destruct (newScryptWalletFileBytes P pw (kp_private kp) _ pDefault rnd) as [[wf r]| |] eqn:E; smp; try discriminate);
    intros H; injection H as <- <-; apply (new_bytes_shape P L) in E as [salt [iv [id [-> _]]]];
    unfold set_metadata, created_wallet; cbn [w_metadata]; left; reflexivity.
Qed.

(* A wallet made from a key pair carries the pair's address as metadata entry "address"; when the file is
   read back that entry is returned (unless the caller reassigned it), and if the pair's address is the
   address of its private key -- what secp256k1.KeyPair guarantees -- it is the hex of the address of the
   key pair the read wallet hands out *)
Theorem roundtrip_address (light : bool) pw kp rnd w rest extras :
  let c := if light then MkLight pw kp else MkStandard pw kp in
  create P c rnd = Ok (w, rest) -> Forall (extra_ok P) extras ->
  Forall (fun e => fst e <> address_key) extras ->
  exists wr, ReadWalletFile P (JSON P (assign_all w extras)) pw = Ok wr /\
    PrivateKey wr = kp_private kp /\
    mget address_key (Metadata wr) = Some (JStr (hex_encode (kp_address kp))) /\
    (kp_address kp = address_of_key P (kp_private kp) ->
     mget address_key (Metadata wr) = Some (JStr (hex_encode (kp_address (KeyPair P wr))))).
Proof.
  intros c C Fx Fa.
  destruct (roundtrip P L LJ LU LN c rnd w rest extras C Fx) as (wr & R & K & A & _ & _ & M).
  assert (Epw : pw_of c = pw) by (destruct light; reflexivity).
  assert (Ekey : key_of c = kp_private kp) by (destruct light; reflexivity).
  rewrite Epw in R. rewrite Ekey in K, A.
  exists wr. split; [exact R|]. split; [exact K|].
  assert (G : mget address_key (Metadata wr) = Some (JStr (hex_encode (kp_address kp)))).
  { apply M; [|discriminate|reflexivity].
    unfold Metadata. apply In_assign_all; [|exact Fa]. apply (created_has_address light pw kp rnd w rest C). }
  split; [exact G|]. intros Ha. rewrite G, A, <- Ha. reflexivity.
Qed.
End Address.

(* ================= I6: a PBKDF2 document meets the hypotheses of read_is_standard ================= *)
Definition kb (s : string) : bytes := ascii_bytes s.
Definition toy_pbkdf2_doc (c : Z) (pw key : bytes) : json :=
  let salt := [x05; x06; x07] in
  let iv := repeat x09 16 in
  let dk := pbkdf2 toy pw salt c 32 in
  let ct := aes_ctr toy (firstn 16 dk) iv key in
  JObj [ (kb "version", JNum (kb "3"));
         (kb "id", JStr (kb "3198bc9c-6672-5ab3-d995-4942343ae5b6"));
         (kb "crypto", JObj [ (kb "kdf", JStr (kb "pbkdf2"));
                              (kb "kdfparams", JObj [ (kb "salt", JStr (hex_encode salt)); (kb "prf", JStr (kb "hmac-sha256"));
                                                      (kb "c", JNum (print_Z c)); (kb "dklen", JNum (kb "32")) ]);
                              (kb "cipher", JStr (kb "aes-128-ctr"));
                              (kb "cipherparams", JObj [(kb "iv", JStr (hex_encode iv))]);
                              (kb "ciphertext", JStr (hex_encode ct));
                              (kb "mac", JStr (hex_encode (hash toy (skipn 16 dk ++ ct)))) ]) ].

Example pbkdf2_read_is_standard_nonvacuous :
  let pw := [x70; x77] in
  let key := [x01; x02; x03; x04] in
  (* c = 1 and c = 4096: the standard decrypts, the guards hold, the code reads the same key, another
     password is refused by both *)
  v3_decrypt toy (toy_pbkdf2_doc 1 pw key) pw = Ok key /\ v3_decrypt toy (toy_pbkdf2_doc 4096 pw key) pw = Ok key /\
  unambiguous (toy_pbkdf2_doc 4096 pw key) = true /\ nums_ok toy (toy_pbkdf2_doc 4096 pw key) = true /\
  doc_alloc_ok (toy_pbkdf2_doc 4096 pw key) = true /\
  match read_wallet_tree toy (toy_pbkdf2_doc 4096 pw key) pw with Ok w => PrivateKey w = key | _ => False end /\
  match read_wallet_tree toy (toy_pbkdf2_doc 1 pw key) pw with Ok w => PrivateKey w = key | _ => False end /\
  v3_decrypt toy (toy_pbkdf2_doc 4096 pw key) [x70] = Err SMac /\
  is_err (read_wallet_tree toy (toy_pbkdf2_doc 4096 pw key) [x70]) = true.
Proof. vm_compute. repeat split; reflexivity. Qed.

(* the error-form statements are not vacuous: under the toy primitives the two MAC inputs of a file read
   with another password have different digests, and the read is an error *)
Example wrong_password_rejected_nonvacuous :
  let pw := [x70; x77] in
  let t := toy_pbkdf2_doc 4096 pw [x01; x02; x03; x04] in
  match read_wallet_tree toy t pw with
  | Ok w => bytes_eqb (hash toy (mac_key toy w [x70] ++ cc_ciphertext (w_crypto w)))
                      (hash toy (mac_key toy w pw ++ cc_ciphertext (w_crypto w))) = false
  | _ => False
  end.
Proof. vm_compute. reflexivity. Qed.
