(* C15, wave 6: structure malformations ONE AND TWO LEVELS DEEPER than TotalProofs8.v (4), stated on the JSON
   tree and not through the model's decoder:
   - a member of the crypto object (cipher, ciphertext, cipherparams, kdf, mac -- matched the way
     encoding/json matches names: any letter case, anywhere, also next to a good duplicate, also in an
     earlier or later duplicate of the crypto object itself) of the wrong JSON kind; a ciphertext / mac
     string that is not hexadecimal (after an optional 0x); a cipherparams object with an iv member of the
     wrong kind or not hexadecimal;
   - the kdfparams member: not an object; a dklen that is not an integer literal in int64 (wrong kind,
     fraction, exponent, out of range); a salt that is not a hexadecimal string -- whatever the kdf is;
     and, at the level of readScryptWalletFile / readPbkdf2WalletFile, the members that only one of the
     two KDF structs has (n, r, p / c, prf).
   Each gives an error: never a key, never a panic, no cost cap needed. *)
From Coq Require Import String.
From Coq Require Import List NArith ZArith Lia Bool Arith.
From Coq Require Import Init.Byte.
From FFS Require Import Base.Res Base.Bytes Keystore.Json Keystore.Prims Keystore.Model Keystore.Spec
  Keystore.ReadTypes Keystore.TotalProofs Keystore.TotalProofs2 Keystore.TotalProofs4 Keystore.TotalProofs3
  Keystore.TotalProofs8 Keystore.DeepKinds.
Import ListNotations.
Local Open Scope string_scope.
Local Open Scope list_scope.

(* ---------- leaves ---------- *)
Lemma bad_string_err cur v : bad_string v = true -> exists e, dec_string cur v = Err e.
Proof. destruct v; cbn; try discriminate; eauto. Qed.
Lemma bad_hex_err cur v : bad_hex v = true -> exists e, dec_hex cur v = Err e.
Proof. destruct v as [|b|l|s|l|l]; cbn; try discriminate; eauto. destruct (hex_decode (trim0x s)); [discriminate|eauto]. Qed.
Lemma bad_int_err cur v : bad_int v = true -> exists e, dec_int cur v = Err e.
Proof. destruct v as [|b|l|s|l|l]; cbn; try discriminate; eauto. destruct (parse_int64 l); [discriminate|eauto]. Qed.

Lemma bind_err {A B} (r : res A) (f : A -> res B) : (exists e, r = Err e) -> exists e, bind r f = Err e.
Proof. intros [e ->]. cbn. eauto. Qed.

Lemma is_field_other key a b :
  is_field key a = true -> fold_name (ascii_bytes a) <> fold_name (ascii_bytes b) -> is_field key b = false.
Proof.
  intros H N. destruct (is_field key b) eqn:E; [|reflexivity]. exfalso. apply N. exact (is_field_excl key a b H E).
Qed.

Ltac other H name :=
  rewrite (is_field_other _ _ name H) by (vm_compute; discriminate).

(* a struct value with a bad member is an error, whatever the current value is *)
Lemma bad_struct_err {S} (step : S -> bytes -> json -> res S) (bad_m : bytes * json -> bool) v :
  (forall st kk vv, step st kk vv <> Panic) ->
  (forall m, bad_m m = true -> forall st, exists e, step st (fst m) (snd m) = Err e) ->
  bad_struct bad_m v = true -> forall cur, exists e, dec_object step cur v = Err e.
Proof.
  intros Hnp Hb H cur. destruct v; cbn in H |- *; try discriminate; eauto.
  apply existsb_exists in H as ([key v] & Hin & Hm).
  apply (fold_members_err step key v Hnp); [|exact Hin]. intros st. exact (Hb (key, v) Hm st).
Qed.

(* ---------- cipherparams ---------- *)
Lemma bad_iv_step m : bad_member "iv" bad_hex m = true -> forall st, exists e, step_cipherparams st (fst m) (snd m) = Err e.
Proof.
  unfold bad_member. intros H st. apply andb_prop in H as [Hf Hb]. unfold step_cipherparams. rewrite Hf.
  apply bad_hex_err. exact Hb.
Qed.

Lemma bad_cipherparams_err v : bad_cipherparams v = true -> forall cur, exists e, dec_object step_cipherparams cur v = Err e.
Proof. apply bad_struct_err; [apply step_cipherparams_np|apply bad_iv_step]. Qed.

(* ---------- cryptoCommon ---------- *)
Lemma bad_crypto_member_common m :
  bad_crypto_member m = true -> forall cc, exists r e, step_crypto_common cc (fst m) (snd m) = Some r /\ r = Err e.
Proof.
  destruct m as [key v]. unfold bad_crypto_member, bad_member. cbn [fst snd]. intros H cc.
  unfold step_crypto_common.
  repeat (apply orb_prop in H as [H|H]); apply andb_prop in H as [Hf Hb].
  - rewrite Hf. destruct (bad_string_err (cc_cipher cc) v Hb) as [e He]. rewrite He. cbn. eauto.
  - other Hf "cipher". rewrite Hf. destruct (bad_hex_err (cc_ciphertext cc) v Hb) as [e He]. rewrite He. cbn. eauto.
  - other Hf "cipher". other Hf "ciphertext". rewrite Hf.
    destruct (bad_cipherparams_err v Hb (cc_iv cc)) as [e He]. rewrite He. cbn. eauto.
  - other Hf "cipher". other Hf "ciphertext". other Hf "cipherparams". rewrite Hf.
    destruct (bad_string_err (cc_kdf cc) v Hb) as [e He]. rewrite He. cbn. eauto.
  - other Hf "cipher". other Hf "ciphertext". other Hf "cipherparams". other Hf "kdf". rewrite Hf.
    destruct (bad_hex_err (cc_mac cc) v Hb) as [e He]. rewrite He. cbn. eauto.
Qed.

Lemma bad_crypto_member_only m :
  bad_crypto_member m = true -> forall cc, exists e, step_crypto_only cc (fst m) (snd m) = Err e.
Proof.
  intros H cc. destruct (bad_crypto_member_common m H cc) as (r & e & E & ->). unfold step_crypto_only. rewrite E. eauto.
Qed.

Lemma bad_crypto_member_with {K} (sp : K -> bytes -> json -> res K) m :
  bad_crypto_member m = true -> forall st, exists e, step_crypto_with sp st (fst m) (snd m) = Err e.
Proof.
  intros H st. destruct (bad_crypto_member_common m H (fst st)) as (r & e & E & ->). unfold step_crypto_with. rewrite E.
  cbn. eauto.
Qed.

(* ---------- kdfparams ---------- *)
Lemma bad_kdfparam_scrypt_step m :
  bad_kdfparam_scrypt m = true -> forall st, exists e, step_scrypt_params st (fst m) (snd m) = Err e.
Proof.
  destruct m as [key v]. unfold bad_kdfparam_scrypt, bad_kdfparam_common, bad_member. cbn [fst snd]. intros H sp.
  unfold step_scrypt_params.
  repeat (apply orb_prop in H as [H|H]); apply andb_prop in H as [Hf Hb].
  - rewrite Hf. apply bind_err, bad_int_err, Hb.
  - other Hf "dklen". other Hf "n". other Hf "p". other Hf "r". rewrite Hf. apply bind_err, bad_hex_err, Hb.
  - other Hf "dklen". rewrite Hf. apply bind_err, bad_int_err, Hb.
  - other Hf "dklen". other Hf "n". other Hf "p". rewrite Hf. apply bind_err, bad_int_err, Hb.
  - other Hf "dklen". other Hf "n". rewrite Hf. apply bind_err, bad_int_err, Hb.
Qed.

Lemma bad_kdfparam_pbkdf2_step m :
  bad_kdfparam_pbkdf2 m = true -> forall st, exists e, step_pbkdf2_params st (fst m) (snd m) = Err e.
Proof.
  destruct m as [key v]. unfold bad_kdfparam_pbkdf2, bad_kdfparam_common, bad_member. cbn [fst snd]. intros H pp.
  unfold step_pbkdf2_params.
  repeat (apply orb_prop in H as [H|H]); apply andb_prop in H as [Hf Hb].
  - rewrite Hf. apply bind_err, bad_int_err, Hb.
  - other Hf "dklen". other Hf "c". other Hf "prf". rewrite Hf. apply bind_err, bad_hex_err, Hb.
  - other Hf "dklen". rewrite Hf. apply bind_err, bad_int_err, Hb.
  - other Hf "dklen". other Hf "c". rewrite Hf. apply bind_err, bad_string_err, Hb.
Qed.

Lemma common_scrypt m : bad_kdfparam_common m = true -> bad_kdfparam_scrypt m = true.
Proof. unfold bad_kdfparam_scrypt. intros ->. reflexivity. Qed.
Lemma common_pbkdf2 m : bad_kdfparam_common m = true -> bad_kdfparam_pbkdf2 m = true.
Proof. unfold bad_kdfparam_pbkdf2. intros ->. reflexivity. Qed.

Lemma bad_struct_mono (p q : bytes * json -> bool) v :
  (forall m, p m = true -> q m = true) -> bad_struct p v = true -> bad_struct q v = true.
Proof.
  intros Hpq. destruct v; cbn; auto. intros H. apply existsb_exists in H as (m & Hin & Hm).
  apply existsb_exists. exists m. split; [exact Hin|apply Hpq; exact Hm].
Qed.

(* the kdfparams member of the crypto object, in the second pass (cryptoScrypt / cryptoPbkdf2) *)
Lemma bad_kdfparams_member_with {K} (sp : K -> bytes -> json -> res K) (bad_kp : bytes * json -> bool) m :
  (forall st kk vv, sp st kk vv <> Panic) ->
  (forall m, bad_kp m = true -> forall st, exists e, sp st (fst m) (snd m) = Err e) ->
  bad_member "kdfparams" (bad_struct bad_kp) m = true ->
  forall st, exists e, step_crypto_with sp st (fst m) (snd m) = Err e.
Proof.
  intros Hnp Hb H st. destruct m as [key v]. unfold bad_member in H. cbn [fst snd] in *.
  apply andb_prop in H as [Hf Hs]. unfold step_crypto_with, step_crypto_common.
  other Hf "cipher". other Hf "ciphertext". other Hf "cipherparams". other Hf "kdf". other Hf "mac". rewrite Hf.
  apply bind_err. apply (bad_struct_err sp bad_kp v Hnp Hb Hs).
Qed.

(* ---------- the top level ---------- *)
Lemma deep_bad_step P {C} (sc : C -> bytes -> json -> res C) (bad_cm : bytes * json -> bool) m :
  (forall st kk vv, sc st kk vv <> Panic) ->
  (forall m, bad_cm m = true -> forall st, exists e, sc st (fst m) (snd m) = Err e) ->
  deep_bad bad_cm m = true -> forall st, exists e, step_wallet P sc st (fst m) (snd m) = Err e.
Proof.
  intros Hnp Hb H st. destruct m as [key v]. unfold deep_bad in H. cbn [fst snd] in *.
  apply andb_prop in H as [Hf Hs]. unfold step_wallet, step_core.
  other Hf "id". other Hf "version". rewrite Hf.
  apply bind_err. destruct v as [|b|l|s|l|cms]; try discriminate.
  apply (bad_struct_err sc bad_cm (JObj cms) Hnp Hb). exact Hs.
Qed.

Lemma deep_bad_unmarshal P {C} (sc : C -> bytes -> json -> res C) (bad_cm : bytes * json -> bool) zero ms :
  (forall st kk vv, sc st kk vv <> Panic) ->
  (forall m, bad_cm m = true -> forall st, exists e, sc st (fst m) (snd m) = Err e) ->
  existsb (deep_bad bad_cm) ms = true -> exists e, unmarshal_wallet P sc zero (JObj ms) = Err e.
Proof.
  intros Hnp Hb H. apply existsb_exists in H as ([key v] & Hin & Hm).
  unfold unmarshal_wallet. cbn [dec_object].
  apply (fold_members_err (step_wallet P sc) key v); [|intros st; exact (deep_bad_step P sc bad_cm (key, v) Hnp Hb Hm st)|exact Hin].
  intros. apply step_wallet_np. exact Hnp.
Qed.

(* (A) a bad member of the crypto object: the first decoding pass (walletFileCommon) fails *)
Theorem crypto_member_rejected P ms pw :
  existsb bad_crypto_top ms = true -> exists e, read_wallet_tree P (JObj ms) pw = Err e.
Proof.
  intros H. unfold read_wallet_tree.
  destruct (deep_bad_unmarshal P step_crypto_only bad_crypto_member zero_cc ms step_crypto_only_np bad_crypto_member_only H)
    as [e He].
  rewrite He. cbn [bind]. eauto.
Qed.

(* (B) the two second passes *)
Theorem scrypt_kdfparams_rejected P ms pw md :
  existsb (bad_kdfparams_top bad_kdfparam_scrypt) ms = true -> exists e, readScryptWalletFile P (JObj ms) pw md = Err e.
Proof.
  intros H. unfold readScryptWalletFile.
  destruct (deep_bad_unmarshal P (step_crypto_with step_scrypt_params) _ (zero_cc, zero_sp) ms
              (fun st kk vv => step_crypto_with_np step_scrypt_params st kk vv step_scrypt_params_np)
              (fun m Hm => bad_kdfparams_member_with step_scrypt_params bad_kdfparam_scrypt m
                             step_scrypt_params_np bad_kdfparam_scrypt_step Hm) H) as [e He].
  rewrite He. cbn [bind]. eauto.
Qed.

Theorem pbkdf2_kdfparams_rejected P ms pw md :
  existsb (bad_kdfparams_top bad_kdfparam_pbkdf2) ms = true -> exists e, readPbkdf2WalletFile P (JObj ms) pw md = Err e.
Proof.
  intros H. unfold readPbkdf2WalletFile.
  destruct (deep_bad_unmarshal P (step_crypto_with step_pbkdf2_params) _ (zero_cc, zero_pp) ms
              (fun st kk vv => step_crypto_with_np step_pbkdf2_params st kk vv step_pbkdf2_params_np)
              (fun m Hm => bad_kdfparams_member_with step_pbkdf2_params bad_kdfparam_pbkdf2 m
                             step_pbkdf2_params_np bad_kdfparam_pbkdf2_step Hm) H) as [e He].
  rewrite He. cbn [bind]. eauto.
Qed.

Lemma deep_bad_mono (p q : bytes * json -> bool) ms :
  (forall m, p m = true -> q m = true) -> existsb (deep_bad p) ms = true -> existsb (deep_bad q) ms = true.
Proof.
  intros Hpq H. apply existsb_exists in H as ([key v] & Hin & Hm). apply existsb_exists. exists (key, v). split; [exact Hin|].
  unfold deep_bad in *. cbn [fst snd] in *. apply andb_prop in Hm as [Hf Hs]. rewrite Hf. cbn [andb].
  destruct v; try discriminate. apply existsb_exists in Hs as (m & Hin' & Hm'). apply existsb_exists. exists m.
  split; [exact Hin'|apply Hpq; exact Hm'].
Qed.

Lemma kdfparams_top_mono (p q : bytes * json -> bool) ms :
  (forall m, p m = true -> q m = true) ->
  existsb (bad_kdfparams_top p) ms = true -> existsb (bad_kdfparams_top q) ms = true.
Proof.
  intros Hpq. apply deep_bad_mono. intros m. unfold bad_member. intros H. apply andb_prop in H as [Hf Hs]. rewrite Hf.
  cbn [andb]. exact (bad_struct_mono p q (snd m) Hpq Hs).
Qed.

(* (C) kdfparams not an object, dklen not an int64 literal, salt not hexadecimal: an error whatever the
   kdf, the id, the version, the password are *)
Theorem kdfparams_rejected P ms pw :
  existsb (bad_kdfparams_top bad_kdfparam_common) ms = true -> exists e, read_wallet_tree P (JObj ms) pw = Err e.
Proof.
  intros H. unfold read_wallet_tree.
  destruct (unmarshal_wallet P step_crypto_only zero_cc (JObj ms)) as [[cf cc]|e|] eqn:E1; cbn [bind]; [|eauto|].
  2:{ exfalso. revert E1. apply unmarshal_wallet_np. apply step_crypto_only_np. }
  destruct (unmarshal_metadata P (JObj ms)) as [md|e|] eqn:E2; cbn [bind]; [|eauto|].
  2:{ exfalso. exact (unmarshal_metadata_np P _ E2). }
  destruct (cf_id cf); [|eauto].
  destruct (negb (cf_version cf =? version3)%Z); [eauto|].
  destruct (bytes_eqb (cc_kdf cc) kdfTypeScrypt).
  { apply scrypt_kdfparams_rejected. revert H. apply kdfparams_top_mono. exact common_scrypt. }
  destruct (bytes_eqb (cc_kdf cc) kdfTypePbkdf2); [|eauto].
  apply pbkdf2_kdfparams_rejected. revert H. apply kdfparams_top_mono. exact common_pbkdf2.
Qed.

(* (D) one statement for the whole document: what the evaluator RunC15.v uses as an oracle on ReadWalletFile *)
Theorem deep_struct_rejected P t pw :
  deep_struct_bad t = true -> exists e, read_wallet_tree P t pw = Err e.
Proof.
  destruct t as [|b|l|s|l|ms]; try (intros _; apply non_object_rejected; exact I).
  cbn [deep_struct_bad]. intros H. apply orb_prop in H as [H|H].
  - apply crypto_member_rejected. exact H.
  - apply kdfparams_rejected. exact H.
Qed.

(* (E) the KDF-specific members lifted to the whole read path, without naming the file's kdf: a file that
   is READ, and read as a scrypt (PBKDF2) wallet, has no member of scrypt's (PBKDF2's) kdfparams struct of
   the wrong kind / non-integer / non-hex -- in any duplicate of crypto or kdfparams, in any letter case *)
Lemma readScrypt_shape P ms pw md w :
  readScryptWalletFile P (JObj ms) pw md = Ok w -> exists sp, w_kdfparams w = KScrypt sp.
Proof.
  unfold readScryptWalletFile. destruct (unmarshal_wallet _ _ _ _) as [[cf ck]|e|]; cbn [bind]; try discriminate.
  destruct (scrypt_decrypt _ _ _ _); cbn [bind]; try discriminate. intros H. injection H as <-. cbn. eauto.
Qed.
Lemma readPbkdf2_shape P ms pw md w :
  readPbkdf2WalletFile P (JObj ms) pw md = Ok w -> exists pp, w_kdfparams w = KPbkdf2 pp.
Proof.
  unfold readPbkdf2WalletFile. destruct (unmarshal_wallet _ _ _ _) as [[cf ck]|e|]; cbn [bind]; try discriminate.
  destruct (pbkdf2_decrypt _ _ _ _); cbn [bind]; try discriminate. intros H. injection H as <-. cbn. eauto.
Qed.

Theorem accepted_kdfparams_clean P ms pw w :
  read_wallet_tree P (JObj ms) pw = Ok w ->
  match w_kdfparams w with
  | KScrypt _ => existsb (bad_kdfparams_top bad_kdfparam_scrypt) ms = false
  | KPbkdf2 _ => existsb (bad_kdfparams_top bad_kdfparam_pbkdf2) ms = false
  end.
Proof.
  unfold read_wallet_tree.
  destruct (unmarshal_wallet P step_crypto_only zero_cc (JObj ms)) as [[cf cc]|e|]; cbn [bind]; try discriminate.
  destruct (unmarshal_metadata P (JObj ms)) as [md|e|]; cbn [bind]; try discriminate.
  destruct (cf_id cf); try discriminate.
  destruct (negb (cf_version cf =? version3)%Z); try discriminate.
  destruct (bytes_eqb (cc_kdf cc) kdfTypeScrypt).
  { intros H. destruct (readScrypt_shape _ _ _ _ _ H) as [sp ->].
    destruct (existsb (bad_kdfparams_top bad_kdfparam_scrypt) ms) eqn:B; [|reflexivity].
    destruct (scrypt_kdfparams_rejected P ms pw md B) as [e He]. congruence. }
  destruct (bytes_eqb (cc_kdf cc) kdfTypePbkdf2); try discriminate.
  intros H. destruct (readPbkdf2_shape _ _ _ _ _ H) as [pp ->].
  destruct (existsb (bad_kdfparams_top bad_kdfparam_pbkdf2) ms) eqn:B; [|reflexivity].
  destruct (pbkdf2_kdfparams_rejected P ms pw md B) as [e He]. congruence.
Qed.

(* both constructors are reached by accepted reads *)
Example accepted_kdfparams_clean_nonvacuous :
  (match read_wallet_tree toy good [] with Ok w => match w_kdfparams w with KPbkdf2 _ => true | _ => false end | _ => false end) = true /\
  (match read_wallet_tree toy (toy_scrypt "4" "1" "1") [] with
   | Ok w => match w_kdfparams w with KScrypt _ => true | _ => false end | _ => false end) = true.
Proof. vm_compute. split; reflexivity. Qed.

(* ---------- non-vacuity: each family on a concrete document; the predicates are false on a good file;
   the documents are rejected although the toy hash makes every MAC valid ---------- *)
Definition with_crypto_member (name : string) (v : json) (t : json) : json :=
  match t with
  | JObj [i; ver; (c, JObj cms)] =>
      JObj [i; ver; (c, JObj (map (fun m => if bytes_eqb (fst m) (k name) then (fst m, v) else m) cms))]
  | _ => t
  end.

Definition top_members (t : json) : list (bytes * json) := match t with JObj ms => ms | _ => [] end.

Example deep_nonvacuous :
  let bc t := existsb bad_crypto_top (top_members t) in
  let bk t := existsb (bad_kdfparams_top bad_kdfparam_common) (top_members t) in
  let bs t := existsb (bad_kdfparams_top bad_kdfparam_scrypt) (top_members t) in
  let bp t := existsb (bad_kdfparams_top bad_kdfparam_pbkdf2) (top_members t) in
  (* the good files: no predicate holds, and they are read *)
  bc good = false /\ bk good = false /\ bp good = false /\
  bc (toy_scrypt "4" "1" "1") = false /\ bs (toy_scrypt "4" "1" "1") = false /\
  cls (read_wallet_tree toy good []) = 0%nat /\ cls (read_wallet_tree toy (toy_scrypt "4" "1" "1") []) = 0%nat /\
  (* crypto members *)
  bc (with_crypto_member "mac" (JNum (k "0")) good) = true /\
  bc (with_crypto_member "mac" (JStr (k "0g")) good) = true /\
  bc (with_crypto_member "ciphertext" (JStr (k "0x012")) good) = true /\
  bc (with_crypto_member "ciphertext" (JStr (k "0x0102")) good) = false /\
  bc (with_crypto_member "cipher" (JBool true) good) = true /\
  bc (with_crypto_member "kdf" (JArr []) good) = true /\
  bc (with_crypto_member "cipherparams" (JStr []) good) = true /\
  bc (with_crypto_member "cipherparams" (JObj [(k "IV", JNum (k "0"))]) good) = true /\
  bc (with_crypto_member "cipherparams" (JObj [(k "iv", JStr (k "zz"))]) good) = true /\
  bc (with_crypto_member "cipherparams" JNull good) = false /\
  (* a good crypto object FOLLOWED by a second one with a bad member; letter case *)
  bc (JObj (top_members good ++ [(k "CRYPTO", JObj [(k "Mac", JBool false)])])) = true /\
  cls (read_wallet_tree toy (with_crypto_member "mac" (JStr (k "0g")) good) []) = 1%nat /\
  (* kdfparams *)
  bk (with_crypto_member "kdfparams" (JArr []) good) = true /\
  bk (with_kdfparam "dklen" (JStr (k "32")) (toy_scrypt "4" "1" "1")) = true /\
  bk (with_kdfparam "dklen" (JNum (k "32.0")) (toy_scrypt "4" "1" "1")) = true /\
  bk (with_kdfparam "dklen" (JNum (k "9223372036854775808")) (toy_scrypt "4" "1" "1")) = true /\
  bk (with_kdfparam "salt" (JStr (k "0")) (toy_scrypt "4" "1" "1")) = true /\
  bk (with_kdfparam "n" (JStr (k "4")) (toy_scrypt "4" "1" "1")) = false /\
  bs (with_kdfparam "n" (JStr (k "4")) (toy_scrypt "4" "1" "1")) = true /\
  bs (with_kdfparam "r" (JNum (k "1e0")) (toy_scrypt "4" "1" "1")) = true /\
  bp (with_kdfparam "prf" (JNum (k "1")) good) = true /\
  bp (with_kdfparam "c" (JNum (k "0.5")) good) = true /\
  (* n of the wrong kind in a PBKDF2 file is ignored by the code: not claimed, and indeed read *)
  (let t := with_crypto_member "kdfparams"
              (JObj [(k "c", JNum (k "1")); (k "dklen", JNum (k "32")); (k "prf", JStr (k "hmac-sha256"));
                     (k "salt", JStr (k "00")); (k "n", JStr (k "4"))]) good in
   bp t = false /\ cls (read_wallet_tree toy t []) = 0%nat) /\
  cls (read_wallet_tree toy (with_kdfparam "dklen" (JNum (k "32.0")) (toy_scrypt "4" "1" "1")) []) = 1%nat.
Proof. vm_compute. repeat split; reflexivity. Qed.
