(* A small verified printer / parser pair for JSON trees (a prefix code, not JSON text): it shows that the
   printer-lexer law assumed of encoding/json in C07_roundtrip ([parse (print t) = Some t]) has an instance,
   so that the theorem's hypotheses are jointly satisfiable ([toy_codec] below).  Nothing here models Go. *)
From Coq Require Import List NArith Lia Bool Arith.
From Coq Require Import Init.Byte.
From FFS Require Import Base.Res Base.Bytes Keystore.Json Keystore.JsonFacts.
Import ListNotations.

(* a byte string: every byte prefixed by 01, terminated by 00 *)
Fixpoint estr (s : bytes) : bytes :=
  match s with [] => [x00] | c :: t => x01 :: c :: estr t end.

Fixpoint enc (j : json) : bytes :=
  match j with
  | JNull => [x00]
  | JBool b => [x01; if b then x01 else x00]
  | JNum l => x02 :: estr l
  | JStr s => x03 :: estr s
  | JArr l => x04 :: (fix go (l : list json) : bytes :=
                        match l with [] => [x00] | x :: t => x01 :: enc x ++ go t end) l
  | JObj ms => x05 :: (fix go (ms : list (bytes * json)) : bytes :=
                         match ms with [] => [x00] | (k, v) :: t => x01 :: estr k ++ enc v ++ go t end) ms
  end.

Definition earr (l : list json) : bytes :=
  (fix go (l : list json) : bytes := match l with [] => [x00] | x :: t => x01 :: enc x ++ go t end) l.
Definition eobj (ms : list (bytes * json)) : bytes :=
  (fix go (ms : list (bytes * json)) : bytes :=
     match ms with [] => [x00] | (k, v) :: t => x01 :: estr k ++ enc v ++ go t end) ms.

Fixpoint dstr (fuel : nat) (bs : bytes) : option (bytes * bytes) :=
  match fuel with
  | O => None
  | S f =>
    match bs with
    | x00 :: r => Some ([], r)
    | x01 :: r => match r with
                  | c :: r' => match dstr f r' with Some (s, r'') => Some (c :: s, r'') | None => None end
                  | [] => None
                  end
    | _ => None
    end
  end.

Fixpoint dec (fuel : nat) (bs : bytes) : option (json * bytes) :=
  match fuel with
  | O => None
  | S f =>
    match bs with
    | x00 :: r => Some (JNull, r)
    | x01 :: r => match r with
                  | x00 :: r' => Some (JBool false, r')
                  | x01 :: r' => Some (JBool true, r')
                  | _ => None
                  end
    | x02 :: r => match dstr (S (length r)) r with Some (l, r') => Some (JNum l, r') | None => None end
    | x03 :: r => match dstr (S (length r)) r with Some (s, r') => Some (JStr s, r') | None => None end
    | x04 :: r => match darr f r with Some (l, r') => Some (JArr l, r') | None => None end
    | x05 :: r => match dobj f r with Some (ms, r') => Some (JObj ms, r') | None => None end
    | _ => None
    end
  end
with darr (fuel : nat) (bs : bytes) : option (list json * bytes) :=
  match fuel with
  | O => None
  | S f =>
    match bs with
    | x00 :: r => Some ([], r)
    | x01 :: r => match dec f r with
                  | Some (x, r1) => match darr f r1 with Some (xs, r2) => Some (x :: xs, r2) | None => None end
                  | None => None
                  end
    | _ => None
    end
  end
with dobj (fuel : nat) (bs : bytes) : option (list (bytes * json) * bytes) :=
  match fuel with
  | O => None
  | S f =>
    match bs with
    | x00 :: r => Some ([], r)
    | x01 :: r => match dstr (S (length r)) r with
                  | Some (k, r0) =>
                    match dec f r0 with
                    | Some (v, r1) => match dobj f r1 with Some (ms, r2) => Some ((k, v) :: ms, r2) | None => None end
                    | None => None
                    end
                  | None => None
                  end
    | _ => None
    end
  end.

Definition print (t : json) : bytes := enc t.
Definition parse (b : bytes) : option json :=
  match dec (S (length b)) b with Some (t, []) => Some t | _ => None end.

Lemma dstr_estr s rest fuel : (length (estr s) <= fuel)%nat -> dstr fuel (estr s ++ rest) = Some (s, rest).
Proof.
  revert fuel. induction s as [|c s IH]; intros fuel H; cbn [estr length] in H.
  - destruct fuel; [lia|]. reflexivity.
  - destruct fuel as [|f]; [lia|]. cbn [estr app dstr]. rewrite IH by lia. reflexivity.
Qed.

Lemma dstr_estr' s rest : dstr (S (length (estr s ++ rest))) (estr s ++ rest) = Some (s, rest).
Proof. apply dstr_estr. rewrite app_length. lia. Qed.

(* fuel that suffices, following the decoder's recursion *)
Fixpoint bound (j : json) : nat :=
  match j with
  | JArr l => S ((fix go (l : list json) : nat := match l with [] => 1 | x :: t => S (Nat.max (bound x) (go t)) end) l)
  | JObj ms => S ((fix go (ms : list (bytes * json)) : nat :=
                     match ms with [] => 1 | (k, v) :: t => S (Nat.max (bound v) (go t)) end) ms)
  | _ => 1
  end.
Definition barr (l : list json) : nat :=
  (fix go (l : list json) : nat := match l with [] => 1 | x :: t => S (Nat.max (bound x) (go t)) end) l.
Definition bobj (ms : list (bytes * json)) : nat :=
  (fix go (ms : list (bytes * json)) : nat := match ms with [] => 1 | (k, v) :: t => S (Nat.max (bound v) (go t)) end) ms.

Lemma dec_enc t : forall rest fuel, (bound t <= fuel)%nat -> dec fuel (enc t ++ rest) = Some (t, rest).
Proof.
  induction t as [| b | l | s | l IH | ms IH] using json_ind'; intros rest fuel H.
  - destruct fuel; [exfalso; revert H; cbv; lia|]. reflexivity.
  - destruct fuel; [exfalso; revert H; cbv; lia|]. destruct b; reflexivity.
  - destruct fuel; [exfalso; revert H; cbv; lia|]. cbn [enc app dec]. rewrite dstr_estr'. reflexivity.
  - destruct fuel; [exfalso; revert H; cbv; lia|]. cbn [enc app dec]. rewrite dstr_estr'. reflexivity.
  - change (bound (JArr l)) with (S (barr l)) in H. destruct fuel as [|f]; [lia|].
    change (enc (JArr l)) with (x04 :: earr l). cbn [app dec].
    assert (G : forall f, (barr l <= f)%nat -> darr f (earr l ++ rest) = Some (l, rest)).
    { clear H f. induction IH as [|x t Hx Ht IHt]; intros f H.
      - destruct f; [exfalso; revert H; cbv; lia|]. reflexivity.
      - change (barr (x :: t)) with (S (Nat.max (bound x) (barr t))) in H. destruct f as [|f]; [lia|].
        change (earr (x :: t)) with (x01 :: enc x ++ earr t). cbn [app darr]. rewrite <- app_assoc.
        rewrite Hx by lia. rewrite IHt by lia. reflexivity. }
    rewrite G by lia. reflexivity.
  - change (bound (JObj ms)) with (S (bobj ms)) in H. destruct fuel as [|f]; [lia|].
    change (enc (JObj ms)) with (x05 :: eobj ms). cbn [app dec].
    assert (G : forall f, (bobj ms <= f)%nat -> dobj f (eobj ms ++ rest) = Some (ms, rest)).
    { clear H f. induction IH as [|[k v] t Hx Ht IHt]; intros f H.
      - destruct f; [exfalso; revert H; cbv; lia|]. reflexivity.
      - change (bobj ((k, v) :: t)) with (S (Nat.max (bound v) (bobj t))) in H. destruct f as [|f]; [lia|].
        change (eobj ((k, v) :: t)) with (x01 :: estr k ++ enc v ++ eobj t). cbn [app dobj]. rewrite <- !app_assoc.
        rewrite dstr_estr'. cbn [snd] in Hx. rewrite Hx by lia. rewrite IHt by lia. reflexivity. }
    rewrite G by lia. reflexivity.
Qed.

Lemma bound_le_enc t : (bound t <= length (enc t))%nat.
Proof.
  induction t as [| b | l | s | l IH | ms IH] using json_ind'; try (cbn; lia).
  - change (bound (JArr l)) with (S (barr l)). change (enc (JArr l)) with (x04 :: earr l). cbn [length].
    apply le_n_S. induction IH as [|x t Hx Ht IHt]; [cbn; lia|].
    change (barr (x :: t)) with (S (Nat.max (bound x) (barr t))).
    change (earr (x :: t)) with (x01 :: enc x ++ earr t). cbn [length]. rewrite app_length. lia.
  - change (bound (JObj ms)) with (S (bobj ms)). change (enc (JObj ms)) with (x05 :: eobj ms). cbn [length].
    apply le_n_S. induction IH as [|[k v] t Hx Ht IHt]; [cbn; lia|].
    change (bobj ((k, v) :: t)) with (S (Nat.max (bound v) (bobj t))).
    change (eobj ((k, v) :: t)) with (x01 :: estr k ++ enc v ++ eobj t). cbn [length snd] in *. rewrite !app_length. lia.
Qed.

Theorem parse_print t : parse (print t) = Some t.
Proof.
  unfold parse, print. rewrite <- (app_nil_r (enc t)) at 2.
  rewrite dec_enc; [reflexivity|]. pose proof (bound_le_enc t). lia.
Qed.
