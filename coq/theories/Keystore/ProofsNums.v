(* C07, wave 6: the [nums_ok] guard of C07_read_is_standard exercised inside Coq (last item of the referee's I6). *)
From Coq Require Import String.
From Coq Require Import List NArith ZArith Lia Bool Arith.
From Coq Require Import Init.Byte.
From FFS Require Import Base.Res Base.Bytes Keystore.Json Keystore.JsonFacts Keystore.IntText Keystore.Prims Keystore.Model
  Keystore.Spec Keystore.ReadTypes Keystore.ProofsFresh Keystore.ProofsMac Keystore.ProofsNew Keystore.ProofsRead
  Keystore.ProofsRound Keystore.Toy.
Import ListNotations.
Local Open Scope string_scope.
Local Open Scope list_scope.

(* ---------- the [nums_ok] guard exercised in Coq ---------- *)
(* Every toy instance so far had [json_num := Some], so [nums_ok] was constantly true in the Examples.
   [toy_num]: the toy with a number conversion that refuses literals longer than 8 characters (standing for
   "does not fit a float64", e.g. 1e999). *)
Definition toy_num : prims := {|
  scrypt := scrypt toy; scrypt_cap := scrypt_cap toy; pbkdf2 := pbkdf2 toy; aes_ctr := aes_ctr toy; hash := hash toy;
  pubkey := pubkey toy; json_parse := json_parse toy; json_print := json_print toy;
  json_num := fun l => if (length l <=? 8)%nat then Some l else None;
  uuid_parse := uuid_parse toy |}.
Lemma toy_num_crypto_laws : crypto_laws toy_num.
Proof. destruct toy_crypto_laws as [A B C D E]. constructor; assumption. Qed.
Lemma toy_num_uuid_accepts_text : uuid_accepts_text toy_num.
Proof. exact toy_uuid_accepts_text. Qed.

(* a created file with a small extra number meets all guards of [read_is_standard] and is read; the same
   file with a number the conversion refuses is still decrypted by the specification, still unambiguous
   and within the cap, fails [nums_ok] -- and the read path REFUSES it (the whole document is also
   unmarshalled into map[string]interface{}): the guard cannot be dropped *)
Example nums_guard_exercised :
  let pw := [x70; x77] in
  match create toy_num (MkStandard pw {| kp_private := repeat x07 32; kp_address := repeat x0a 20 |}) (repeat x2a 64) with
  | Ok (w, _) =>
      let good := JSON_tree (assign_all w [(ascii_bytes "n", JNum (ascii_bytes "5"))]) in
      let bad := JSON_tree (assign_all w [(ascii_bytes "n", JNum (ascii_bytes "123456789012"))]) in
      nums_ok toy_num good = true /\ is_ok (v3_decrypt toy_num good pw) = true /\ is_ok (read_wallet_tree toy_num good pw) = true /\
      nums_ok toy_num bad = false /\ is_ok (v3_decrypt toy_num bad pw) = true /\ unambiguous bad = true /\
      doc_alloc_ok bad = true /\ is_err (read_wallet_tree toy_num bad pw) = true
  | _ => False
  end.
Proof. vm_compute. repeat split. Qed.
