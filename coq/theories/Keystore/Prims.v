(* The primitive operations the keystore code takes from libraries, as a record of functions
   (x/crypto scrypt and pbkdf2, crypto/aes + crypto/cipher CTR, Keccak-256, btcec's public key,
   encoding/json's lexer / printer / float64 number conversion, google/uuid's parser), the
   precondition of each library call as a boolean, and the laws the theorems may use ([prim_laws]).
   Nothing here is an axiom: models and theorems are parametric in a [prims] value; RunC07.v
   instantiates it with finite tables the harness fills by calling the libraries directly. *)
From Coq Require Import List NArith ZArith Lia Bool Arith.
From Coq Require Import Init.Byte.
From FFS Require Import Base.Res Base.Bytes Keystore.Json.
Import ListNotations.

Record prims := {
  (* scrypt.Key(password, salt, N, r, p, keyLen): the returned slice (length keyLen) ... *)
  scrypt : bytes -> bytes -> Z -> Z -> Z -> Z -> bytes;
  (* ... and the content of its backing array up to the slice's capacity (x/crypto builds the output
     in whole 32-byte HMAC-SHA256 blocks and returns dk[:keyLen]; pkg/keystorev3 re-slices beyond the
     length when it creates a file) *)
  scrypt_cap : bytes -> bytes -> Z -> Z -> Z -> Z -> bytes;
  (* pbkdf2.Key(password, salt, iter, keyLen, sha256.New) *)
  pbkdf2 : bytes -> bytes -> Z -> Z -> bytes;
  (* aes.NewCipher(key); cipher.NewCTR(block, iv).XORKeyStream(dst, src) *)
  aes_ctr : bytes -> bytes -> bytes -> bytes;
  (* sha3.NewLegacyKeccak256 *)
  hash : bytes -> bytes;
  (* btcec.PrivKeyFromBytes(b).PubKey().SerializeUncompressed()[1:] *)
  pubkey : bytes -> bytes;
  (* encoding/json: syntax check + tokens -> tree (None = syntax error); Marshal of a tree;
     a number literal converted to float64 and printed again (None = out of range) *)
  json_parse : bytes -> option json;
  json_print : json -> bytes;
  json_num : bytes -> option bytes;
  (* uuid.UnmarshalText: the 16 bytes, None = rejected *)
  uuid_parse : bytes -> option bytes
}.

(* ---------- preconditions of the library calls ---------- *)
Local Open Scope Z_scope.

Definition maxInt : Z := 9223372036854775807.
Definition u64 (z : Z) : Z := z mod 18446744073709551616.

Definition is_pow2 (n : Z) : bool := (0 <? n) && (Z.land n (n - 1) =? 0).

(* inside this region scrypt.Key does not panic BEFORE or IN its parameter test (outside: integer
   division by zero for r = 0 or p = 0, slice bounds out of range for keyLen < 0).  It is not the
   whole no-panic domain: after the parameter test the library allocates its work area, see
   [scrypt_alloc_ok] below. *)
Definition scrypt_dom (r p dklen : Z) : bool := (0 <? r) && (0 <? p) && (0 <=? dklen).

(* inside the domain: the parameter limits under which scrypt.Key returns a key and not an error
   ("N must be > 1 and a power of 2", "parameters are too large"), as x/crypto tests them *)
Definition scrypt_params_ok (N r p : Z) : bool :=
  (1 <? N) && is_pow2 N &&
  negb ((1073741824 <=? u64 (u64 r * u64 p))
        || (Z.quot (Z.quot maxInt 128) p <? r)
        || (Z.quot maxInt 256 <? r)
        || (Z.quot (Z.quot maxInt 128) r <? N)).

Definition scrypt_pre (N r p dklen : Z) : bool := scrypt_dom r p dklen && scrypt_params_ok N r p.

(* After its parameter test scrypt.Key executes  xy := make([]uint32, 64*r); v := make([]uint32, 32*N*r);
   b := pbkdf2.Key(password, salt, 1, p*128*r, sha256.New).  runtime.makeslice panics ("makeslice: len out
   of range", an ordinary recoverable panic) when the byte size of the slice exceeds the runtime's
   maxAlloc; on 64-bit Linux/macOS/Windows (48 heap address bits) maxAlloc = 2^48.  Under the
   parameter limits (r*p < 2^30, hence r < 2^30) xy (256*r bytes) and b (128*r*p bytes) stay below 2^38;
   v takes 128*N*r bytes, which the limits only bound by maxInt.  So inside [scrypt_pre] the call panics
   exactly when 128*N*r > 2^48 (checked against x/crypto v0.31.0 / go1.23.5: N = 2^42 r = 1, N = 2^41
   r = 2, N = 2^40 r = 3 panic; N*r = 2^41 exactly does not panic in makeslice -- the runtime then
   tries to map 256 TiB and dies with "fatal error: out of memory", which is not a panic and is not
   modelled: at or below the cap the model assumes the allocation succeeds). *)
Definition maxAlloc : Z := 281474976710656.   (* 1 << 48 *)
Definition scrypt_alloc_ok (N r : Z) : bool := (128 * N * r <=? maxAlloc).

(* PBKDF2 is defined for a positive iteration count; pbkdf2.Key panics for keyLen < 0 *)
Definition pbkdf2_pre (c dklen : Z) : bool := (0 <? c) && (0 <=? dklen).

(* aes.NewCipher returns an error unless the key has 16, 24 or 32 bytes *)
Definition aes_key_ok (k : bytes) : bool :=
  (length k =? 16)%nat || (length k =? 24)%nat || (length k =? 32)%nat.
(* AES-128 *)
Definition aes128_key_pre (k : bytes) : bool := (length k =? 16)%nat.
(* cipher.NewCTR panics unless the IV has the block size *)
Definition ctr_iv_pre (iv : bytes) : bool := (length iv =? 16)%nat.

Definition round_up_32 (n : Z) : Z := 32 * ((n + 31) / 32).

(* ---------- laws ---------- *)
Record prim_laws (P : prims) : Prop := {
  scrypt_len : forall pw salt N r p dklen, scrypt_pre N r p dklen = true ->
    length (scrypt P pw salt N r p dklen) = Z.to_nat dklen;
  (* the backing array holds the whole blocks: asking for 16 bytes leaves the 32-byte key in memory *)
  scrypt_cap_blocks : forall pw salt N r p dklen, scrypt_pre N r p dklen = true ->
    scrypt_cap P pw salt N r p dklen = scrypt P pw salt N r p (round_up_32 dklen);
  (* a slice is the prefix of its own backing array *)
  scrypt_cap_prefix : forall pw salt N r p dklen, scrypt_pre N r p dklen = true ->
    firstn (Z.to_nat dklen) (scrypt_cap P pw salt N r p dklen) = scrypt P pw salt N r p dklen;
  pbkdf2_len : forall pw salt c dklen, pbkdf2_pre c dklen = true ->
    length (pbkdf2 P pw salt c dklen) = Z.to_nat dklen;
  ctr_len : forall k iv x, length (aes_ctr P k iv x) = length x;
  (* the single cryptographic law: CTR mode is an involution *)
  ctr_involutive : forall k iv x, aes128_key_pre k = true -> ctr_iv_pre iv = true ->
    aes_ctr P k iv (aes_ctr P k iv x) = x;
  hash_len : forall x, length (hash P x) = 32%nat;
  (* json.Marshal output is read back as the same tree when its strings are UTF-8 *)
  json_roundtrip : forall t, json_text_ok t = true -> json_parse P (json_print P t) = Some t;
  (* a printed float64 converts to itself *)
  json_num_idem : forall l l', json_num P l = Some l' -> json_num P l' = Some l';
  uuid_roundtrip : forall u, length u = 16%nat -> uuid_parse P (uuid_string u) = Some u;
  (* the textual form of RFC 4122 is accepted *)
  uuid_parse_text : forall s, uuid_text_ok s = true -> uuid_parse P s <> None;
  uuid_parse_len : forall s u, uuid_parse P s = Some u -> length u = 16%nat
}.

(* the part of the laws that concerns the cryptographic primitives only (what the theorems about
   creation and decryption use); a concrete instance is given in Keystore/Toy.v *)
Record crypto_laws (P : prims) : Prop := {
  cl_scrypt_len : forall pw salt N r p dklen, scrypt_pre N r p dklen = true ->
    length (scrypt P pw salt N r p dklen) = Z.to_nat dklen;
  cl_scrypt_cap_blocks : forall pw salt N r p dklen, scrypt_pre N r p dklen = true ->
    scrypt_cap P pw salt N r p dklen = scrypt P pw salt N r p (round_up_32 dklen);
  cl_scrypt_cap_prefix : forall pw salt N r p dklen, scrypt_pre N r p dklen = true ->
    firstn (Z.to_nat dklen) (scrypt_cap P pw salt N r p dklen) = scrypt P pw salt N r p dklen;
  cl_pbkdf2_len : forall pw salt c dklen, pbkdf2_pre c dklen = true ->
    length (pbkdf2 P pw salt c dklen) = Z.to_nat dklen;
  cl_ctr_involutive : forall k iv x, aes128_key_pre k = true -> ctr_iv_pre iv = true ->
    aes_ctr P k iv (aes_ctr P k iv x) = x
}.

Lemma prim_laws_crypto (P : prims) : prim_laws P -> crypto_laws P.
Proof.
  intros L. constructor.
  - apply (scrypt_len P L).
  - apply (scrypt_cap_blocks P L).
  - apply (scrypt_cap_prefix P L).
  - apply (pbkdf2_len P L).
  - apply (ctr_involutive P L).
Qed.

(* google/uuid accepts the textual form of RFC 4122 (the only law about it that reading needs) *)
Definition uuid_accepts_text (P : prims) : Prop := forall s, uuid_text_ok s = true -> uuid_parse P s <> None.
Lemma prim_laws_uuid (P : prims) : prim_laws P -> uuid_accepts_text P.
Proof. intros L. exact (uuid_parse_text P L). Qed.
