(* Decimal text of int64 values: what strconv.Itoa prints ([print_Z] of Keystore/Json.v) is read back
   by strconv.ParseInt ([parse_int64]) as the same value, for every int64; and [parse_int64] only
   returns int64 values.  Used by the bridge for leniently formed key files (TotalProofs6.v): the
   integers of a decoded key file are int64, so the re-marshalled document carries literals the strict
   specification reads back. *)
From Coq Require Import List NArith ZArith Lia Bool Arith.
From Coq Require Import ZifyN ZifyNat ZifyBool.
From Coq Require Import DecimalPos DecimalN.
From Coq Require Import Init.Byte.
From FFS Require Import Base.Res Base.Bytes Keystore.Json.
Import ListNotations.
Local Open Scope N_scope.

Definition int64_min : Z := (-9223372036854775808)%Z.
Definition int64_max : Z := 9223372036854775807%Z.
Definition is_int64 (z : Z) : Prop := (int64_min <= z <= int64_max)%Z.

(* the value of a digit string read left to right, as [parse_digits] accumulates it *)
Fixpoint uint_val (d : Decimal.uint) (acc : N) : N :=
  match d with
  | Decimal.Nil => acc
  | Decimal.D0 d => uint_val d (acc * 10 + 0)
  | Decimal.D1 d => uint_val d (acc * 10 + 1)
  | Decimal.D2 d => uint_val d (acc * 10 + 2)
  | Decimal.D3 d => uint_val d (acc * 10 + 3)
  | Decimal.D4 d => uint_val d (acc * 10 + 4)
  | Decimal.D5 d => uint_val d (acc * 10 + 5)
  | Decimal.D6 d => uint_val d (acc * 10 + 6)
  | Decimal.D7 d => uint_val d (acc * 10 + 7)
  | Decimal.D8 d => uint_val d (acc * 10 + 8)
  | Decimal.D9 d => uint_val d (acc * 10 + 9)
  end.

Lemma parse_digits_uint d : forall acc, parse_digits (uint_bytes d) acc = Some (uint_val d acc).
Proof.
  induction d; intros acc; cbn [uint_bytes uint_val parse_digits]; try reflexivity;
    (match goal with |- match digit_of ?c with _ => _ end = _ =>
       change (digit_of c) with (Some (b2n c - 48)) end);
    cbv beta iota; rewrite IHd; reflexivity.
Qed.

Lemma uint_val_pos d : forall p, uint_val d (Npos p) = Npos (Pos.of_uint_acc d p).
Proof.
  induction d; intros p; cbn [uint_val Pos.of_uint_acc]; try reflexivity;
    (etransitivity; [|apply IHd]); f_equal; lia.
Qed.

Lemma uint_val_0 d : uint_val d 0 = Pos.of_uint d.
Proof.
  induction d; cbn [uint_val Pos.of_uint]; try reflexivity;
    try (change (0 * 10 + 0) with 0; exact IHd);
    (match goal with |- uint_val _ ?a = _ => let v := eval vm_compute in a in change a with v end);
    apply uint_val_pos.
Qed.

Lemma parse_print_N n : parse_digits (print_N n) 0 = Some n.
Proof.
  unfold print_N. rewrite parse_digits_uint, uint_val_0.
  change (Pos.of_uint (N.to_uint n)) with (N.of_uint (N.to_uint n)).
  rewrite DecimalN.Unsigned.of_to. reflexivity.
Qed.

(* the first character of a printed natural number is a digit *)
Lemma uint_bytes_head d c t : uint_bytes d = c :: t -> (b2n c =? 45) = false.
Proof. destruct d; cbn [uint_bytes]; intros H; try discriminate; injection H as <- _; reflexivity. Qed.

Lemma print_N_nonempty n : print_N n <> [].
Proof.
  intros E. pose proof (parse_print_N n) as H. rewrite E in H. cbn in H. injection H as <-.
  vm_compute in E. discriminate.
Qed.

Theorem parse_print_int64 z : is_int64 z -> parse_int64 (print_Z z) = Some z.
Proof.
  unfold is_int64, int64_min, int64_max. intros R. unfold print_Z.
  destruct (z <? 0)%Z eqn:S.
  - unfold parse_int64. change (b2n x2d =? 45) with true. cbv beta iota.
    destruct (print_N (Z.to_N (- z))) as [|c t] eqn:E; [exfalso; exact (print_N_nonempty _ E)|].
    rewrite <- E. rewrite parse_print_N.
    replace (Z.to_N (- z) <=? 9223372036854775808) with true by lia.
    f_equal. lia.
  - unfold parse_int64.
    destruct (print_N (Z.to_N z)) as [|c t] eqn:E; [exfalso; exact (print_N_nonempty _ E)|].
    unfold print_N in E. rewrite (uint_bytes_head _ _ _ E). rewrite <- E.
    fold (print_N (Z.to_N z)). rewrite parse_print_N.
    replace (Z.to_N z <? 9223372036854775808) with true by lia.
    f_equal. lia.
Qed.

Theorem parse_int64_range s z : parse_int64 s = Some z -> is_int64 z.
Proof.
  unfold parse_int64, is_int64, int64_min, int64_max. destruct s as [|c t]; [discriminate|].
  destruct (b2n c =? 45).
  - destruct t as [|c' t']; [discriminate|].
    destruct (parse_digits (c' :: t') 0) as [n|]; [|discriminate].
    destruct (n <=? 9223372036854775808) eqn:E; [|discriminate]. intros H; injection H as <-. lia.
  - destruct (parse_digits (c :: t) 0) as [n|]; [|discriminate].
    destruct (n <? 9223372036854775808) eqn:E; [|discriminate]. intros H; injection H as <-. lia.
Qed.

(* whatever [parse_int64] reads from a printed integer is that integer (outside int64 it reads nothing) *)
Theorem parse_print_inv z z' : parse_int64 (print_Z z) = Some z' -> z' = z.
Proof.
  unfold print_Z. destruct (z <? 0)%Z eqn:S.
  - unfold parse_int64. change (b2n x2d =? 45) with true. cbv beta iota.
    destruct (print_N (Z.to_N (- z))) as [|c t] eqn:E; [discriminate|].
    rewrite <- E. rewrite parse_print_N.
    destruct (Z.to_N (- z) <=? 9223372036854775808); [|discriminate].
    intros H; injection H as <-. lia.
  - unfold parse_int64.
    destruct (print_N (Z.to_N z)) as [|c t] eqn:E; [discriminate|].
    unfold print_N in E. rewrite (uint_bytes_head _ _ _ E). rewrite <- E.
    fold (print_N (Z.to_N z)). rewrite parse_print_N.
    destruct (Z.to_N z <? 9223372036854775808); [|discriminate].
    intros H; injection H as <-. lia.
Qed.
