(* C15, part 7: exactness for EVERY document, leniently formed or not.

   Part 6 showed: a returned key is the key the strict specification derives from the re-marshalled
   wallet.  Here the converse, and the two packaged: for primitives satisfying [crypto_laws] (KDF output
   lengths) and [uuid_parse_16],

     read_wallet_tree P t pw returns a wallet with key k
       <->  t decodes (the typed decoding of encoding/json into the Go structs and the metadata map, as
            modelled: [decode_content], [unmarshal_metadata]) and the independent strict specification
            Keystore/Spec.v derives k from the canonical V3 document [content_doc c] carrying the decoded
            content c

   -- with the specification's cipher test on both sides when the file declares aes-128-ctr -- and the read
   path reports an error exactly when no key is derived that way.  So the whole read path is: lenient
   decoding, then exactly the V3 standard; there is neither a foreign key nor a spurious rejection on
   any document.  The guards [v3_wellformed], [unambiguous], [nums_ok] of part 5 are gone (the last one
   is replaced by its exact content: the metadata map decodes). *)
From Coq Require Import String.
From Coq Require Import List NArith ZArith Lia Bool Arith.
From Coq Require Import Init.Byte.
From FFS Require Import Base.Res Base.Bytes Keystore.Json Keystore.JsonFacts Keystore.IntText Keystore.Prims
  Keystore.Model Keystore.Spec Keystore.ReadTypes Keystore.TotalProofs Keystore.TotalProofs2 Keystore.ProofsNew
  Keystore.ProofsRead Keystore.TotalProofs6.
Import ListNotations.
Local Open Scope string_scope.
Local Open Scope list_scope.

(* the strict V3 document that carries a decoded content: what JSON() prints for it, no metadata *)
Definition content_wallet (c : content) : wallet :=
  let '(cf, cc, kp) := c in
  {| w_core := cf; w_metadata := []; w_crypto := cc; w_kdfparams := kp; w_private := [] |}.
Definition content_doc (c : content) : json := JSON_tree (content_wallet c).

Lemma print_Z_is_3 v : bytes_eqb (print_Z v) (ascii_bytes "3") = true -> v = 3%Z.
Proof.
  intros H. apply bytes_eqb_eq in H. symmetry. apply parse_print_inv. rewrite H. reflexivity.
Qed.

(* ---------- the specification accepts the marshalled document only if the content conforms ---------- *)
Lemma spec_on_marshalled_conv (b : bool) P pw cf md cc kp key k :
  kdf_tag_ok cc kp ->
  v3_decrypt_gen b P (marshalWalletJSON {| w_core := cf; w_metadata := md; w_crypto := cc; w_kdfparams := kp;
                                            w_private := key |}) pw = Ok k ->
  content_key P (cf, cc, kp) pw = Some k /\ (b = true -> cc_cipher cc = cipherAES128ctr).
Proof.
  intros Htag.
  destruct cc as [cipher ct iv kdf mac]. destruct cf as [id ver].
  cbn [cc_cipher cc_ciphertext cc_iv cc_kdf cc_mac] in *.
  unfold v3_decrypt_gen, marshalWalletJSON.
  cbn [w_core w_metadata w_crypto w_kdfparams w_private cf_id cf_version].
  unfold str_field, obj_field.
  rewrite (field_mset_other "version" (jkey "crypto")) by (vm_compute; discriminate).
  rewrite (field_mset_same "version").
  rewrite (field_mset_other "id" (jkey "crypto")) by (vm_compute; discriminate).
  rewrite (field_mset_other "id" (jkey "version")) by (vm_compute; discriminate).
  rewrite (field_mset_same "id").
  rewrite (field_mset_same "crypto").
  unfold crypto_json, jint.
  destruct id as [u|]; [|discriminate].
  destruct (bytes_eqb (print_Z ver) (ascii_bytes "3")) eqn:Ever; cbn [negb]; [|discriminate].
  apply print_Z_is_3 in Ever. subst ver.
  destruct (uuid_text_ok (uuid_string u)); cbn [negb]; [|discriminate].
  unfold hex_field, str_field, obj_field, crypto_common_members.
  cbn [w_crypto w_kdfparams cc_cipher cc_ciphertext cc_iv cc_kdf cc_mac app].
  change (field "cipher" _) with (Some (JStr cipher)).
  change (field "ciphertext" _) with (Some (jhex ct)).
  change (field "cipherparams" _) with (Some (JObj [(jkey "iv", jhex iv)])).
  change (field "kdf" _) with (Some (JStr kdf)).
  change (field "mac" _) with (Some (jhex mac)).
  change (field "kdfparams" _) with (Some (kdfparams_json kp)).
  unfold jhex. rewrite !hex_decode_encode.
  unfold content_key. cbn [cf_version cf_id is_some cc_iv cc_ciphertext cc_mac].
  change (3 =? 3)%Z with true. cbn [andb].
  destruct kp as [[dklen n p r salt]|[dklen c prf salt]]; cbn [kdfparams_json sp_dklen sp_n sp_p sp_r sp_salt pp_dklen pp_c pp_prf pp_salt];
    (destruct (b && negb (bytes_eqb cipher (ascii_bytes "aes-128-ctr"))) eqn:Hbc; [discriminate|]);
    change (field "iv" [(jkey "iv", JStr (hex_encode iv))]) with (Some (JStr (hex_encode iv)));
    cbv beta iota; rewrite hex_decode_encode;
    (destruct (length iv =? 16)%nat; cbn [negb]; [|discriminate]);
    unfold kdf_tag_ok in Htag; cbn [cc_kdf] in Htag; subst kdf; unfold derive_key.
  - change (bytes_eqb kdfTypeScrypt (ascii_bytes "scrypt")) with true. cbv iota.
    unfold int_field, hex_field.
    change (field "dklen" _) with (Some (jint dklen)).
    change (field "n" _) with (Some (jint n)).
    change (field "r" _) with (Some (jint r)).
    change (field "p" _) with (Some (jint p)).
    match goal with |- context [field "salt" ?l] => change (field "salt" l) with (Some (JStr (hex_encode salt))) end.
    unfold jint. cbv beta iota.
    destruct (parse_int64 (print_Z dklen)) as [z1|] eqn:E1; [apply parse_print_inv in E1; subst z1|discriminate].
    destruct (parse_int64 (print_Z n)) as [z2|] eqn:E2; [apply parse_print_inv in E2; subst z2|discriminate].
    destruct (parse_int64 (print_Z r)) as [z3|] eqn:E3; [apply parse_print_inv in E3; subst z3|discriminate].
    destruct (parse_int64 (print_Z p)) as [z4|] eqn:E4; [apply parse_print_inv in E4; subst z4|discriminate].
    rewrite hex_decode_encode.
    unfold content_dk, dklen_of, cost_params_ok, prf_ok. cbn [sp_dklen sp_n sp_p sp_r sp_salt].
    rewrite andb_true_r.
    destruct ((dklen =? 32)%Z && scrypt_pre n r p 32); [|discriminate].
    destruct (bytes_eqb (hash P (skipn 16 (scrypt P pw salt n r p 32) ++ ct)) mac); [|discriminate].
    intros H; injection H as <-. split; [reflexivity|].
    intros ->. cbn [andb] in Hbc. apply negb_false_iff in Hbc. apply bytes_eqb_eq in Hbc. exact Hbc.
  - change (bytes_eqb kdfTypePbkdf2 (ascii_bytes "scrypt")) with false.
    change (bytes_eqb kdfTypePbkdf2 (ascii_bytes "pbkdf2")) with true. cbv iota.
    unfold int_field, hex_field, str_field.
    change (field "dklen" _) with (Some (jint dklen)).
    change (field "c" _) with (Some (jint c)).
    change (field "prf" _) with (Some (JStr prf)).
    match goal with |- context [field "salt" ?l] => change (field "salt" l) with (Some (JStr (hex_encode salt))) end.
    unfold jint. cbv beta iota.
    destruct (parse_int64 (print_Z dklen)) as [z1|] eqn:E1; [apply parse_print_inv in E1; subst z1|discriminate].
    destruct (parse_int64 (print_Z c)) as [z2|] eqn:E2; [apply parse_print_inv in E2; subst z2|discriminate].
    rewrite hex_decode_encode.
    unfold content_dk, dklen_of, cost_params_ok, prf_ok. cbn [pp_dklen pp_c pp_prf pp_salt].
    unfold prfHmacSHA256.
    destruct ((dklen =? 32)%Z && pbkdf2_pre c 32 && bytes_eqb prf (ascii_bytes "hmac-sha256")); [|discriminate].
    destruct (bytes_eqb (hash P (skipn 16 (pbkdf2 P pw salt c 32) ++ ct)) mac); [|discriminate].
    intros H; injection H as <-. split; [reflexivity|].
    intros ->. cbn [andb] in Hbc. apply negb_false_iff in Hbc. apply bytes_eqb_eq in Hbc. exact Hbc.
Qed.

(* ---------- the decoded content is consistent: kdf name and kind of kdfparams ---------- *)
Lemma decode_content_tag P t cf cc kp : decode_content P t = Some (cf, cc, kp) -> kdf_tag_ok cc kp.
Proof.
  unfold decode_content, decode_common, decode_scrypt, decode_pbkdf2.
  destruct (unmarshal_wallet P step_crypto_only zero_cc t) as [[cf0 cc0]| |] eqn:H1; try discriminate.
  destruct (bytes_eqb (cc_kdf cc0) kdfTypeScrypt) eqn:Ks.
  - destruct (unmarshal_wallet P (step_crypto_with step_scrypt_params) (zero_cc, zero_sp) t) as [[cf2 [cc2 sp]]| |] eqn:H2;
      try discriminate.
    intros H; injection H as <- <- <-. destruct (passes_agree P _ _ t _ _ _ _ _ H1 H2) as [_ <-].
    apply bytes_eqb_eq. exact Ks.
  - destruct (bytes_eqb (cc_kdf cc0) kdfTypePbkdf2) eqn:Kp; [|discriminate].
    destruct (unmarshal_wallet P (step_crypto_with step_pbkdf2_params) (zero_cc, zero_pp) t) as [[cf2 [cc2 pp]]| |] eqn:H2;
      try discriminate.
    intros H; injection H as <- <- <-. destruct (passes_agree P _ _ t _ _ _ _ _ H1 H2) as [_ <-].
    apply bytes_eqb_eq. exact Kp.
Qed.

(* ---------- conforming content is decrypted ---------- *)
Section Complete.
Variable P : prims.
Hypothesis L : crypto_laws P.

Lemma scrypt_decrypt_complete cc sp pw dk :
  scrypt_alloc_ok (sp_n sp) (sp_r sp) = true ->
  content_dk P (KScrypt sp) pw = Some dk -> length (cc_iv cc) = 16%nat ->
  bytes_eqb (hash P (skipn 16 dk ++ cc_ciphertext cc)) (cc_mac cc) = true ->
  scrypt_decrypt P cc sp pw = Ok (aes_ctr P (firstn 16 dk) (cc_iv cc) (cc_ciphertext cc)).
Proof.
  intros Hal. unfold content_dk, dklen_of, cost_params_ok, prf_ok. rewrite andb_true_r.
  destruct (sp_dklen sp =? 32)%Z eqn:E1; cbn [andb]; [|discriminate].
  destruct (scrypt_pre (sp_n sp) (sp_r sp) (sp_p sp) 32) eqn:Pre; [|discriminate].
  intros H Liv Hmac. injection H as <-.
  apply Z.eqb_eq in E1.
  destruct (scrypt_pre_split _ _ _ _ Pre) as (D & K & Hr & Hp).
  unfold scrypt_decrypt, derivedKeyLen. rewrite E1. change (32 =? 32)%Z with true. cbn [negb].
  replace (sp_r sp <=? 0)%Z with false by (symmetry; apply Z.leb_gt; exact Hr).
  replace (sp_p sp <=? 0)%Z with false by (symmetry; apply Z.leb_gt; exact Hp).
  cbn [orb]. unfold call_scrypt. rewrite D, K, Hal. cbn [negb bind gs_data].
  apply (decryptCommon_spec P); [|exact Liv|exact Hmac].
  rewrite (cl_scrypt_len P L) by exact Pre. reflexivity.
Qed.

Lemma pbkdf2_decrypt_complete cc pp pw dk :
  content_dk P (KPbkdf2 pp) pw = Some dk -> length (cc_iv cc) = 16%nat ->
  bytes_eqb (hash P (skipn 16 dk ++ cc_ciphertext cc)) (cc_mac cc) = true ->
  pbkdf2_decrypt P cc pp pw = Ok (aes_ctr P (firstn 16 dk) (cc_iv cc) (cc_ciphertext cc)).
Proof.
  unfold content_dk, dklen_of, cost_params_ok, prf_ok.
  destruct (pp_dklen pp =? 32)%Z eqn:E1; cbn [andb]; [|discriminate].
  destruct (pbkdf2_pre (pp_c pp) 32) eqn:Pre; cbn [andb]; [|discriminate].
  destruct (bytes_eqb (pp_prf pp) prfHmacSHA256) eqn:Eprf; [|discriminate].
  intros H Liv Hmac. injection H as <-.
  apply Z.eqb_eq in E1.
  unfold pbkdf2_decrypt, derivedKeyLen. rewrite Eprf, E1. change (32 =? 32)%Z with true. cbn [negb].
  assert (Hc : (0 < pp_c pp)%Z).
  { unfold pbkdf2_pre in Pre. apply andb_prop in Pre as [A _]. apply Z.ltb_lt in A. exact A. }
  replace (pp_c pp <=? 0)%Z with false by (symmetry; apply Z.leb_gt; exact Hc).
  unfold call_pbkdf2. rewrite Pre. cbn [negb bind].
  apply (decryptCommon_spec P); [|exact Liv|exact Hmac].
  rewrite (cl_pbkdf2_len P L) by exact Pre. reflexivity.
Qed.

(* a document whose content decodes (both typed passes and the metadata map) and conforms to V3 for the
   password is read, to the V3 key of that content *)
Theorem content_is_read t pw c md k :
  cost_capped P t = true ->
  decode_content P t = Some c -> unmarshal_metadata P t = Ok md -> content_key P c pw = Some k ->
  exists w, read_wallet_tree P t pw = Ok w /\ PrivateKey w = k /\
            c = (w_core w, w_crypto w, w_kdfparams w).
Proof.
  destruct c as [[cf cc] kp]. intros Hcap Hd0.
  assert (Hal : kdf_cost_capped kp = true) by (unfold cost_capped in Hcap; rewrite Hd0 in Hcap; exact Hcap).
  clear Hcap. revert Hd0.
  unfold decode_content, decode_common, decode_scrypt, decode_pbkdf2, read_wallet_tree.
  destruct (unmarshal_wallet P step_crypto_only zero_cc t) as [[cf0 cc0]| |] eqn:H1; try discriminate.
  intros Hd Hm Hk. rewrite Hm. cbn [bind].
  assert (Hcf : cf = cf0).
  { destruct (bytes_eqb (cc_kdf cc0) kdfTypeScrypt).
    - destruct (unmarshal_wallet P (step_crypto_with step_scrypt_params) (zero_cc, zero_sp) t) as [[? [? ?]]| |]; congruence.
    - destruct (bytes_eqb (cc_kdf cc0) kdfTypePbkdf2); [|discriminate].
      destruct (unmarshal_wallet P (step_crypto_with step_pbkdf2_params) (zero_cc, zero_pp) t) as [[? [? ?]]| |]; congruence. }
  subst cf0.
  unfold content_key in Hk.
  destruct ((cf_version cf =? 3)%Z && is_some (cf_id cf) && (length (cc_iv cc) =? 16)%nat) eqn:E; [|discriminate].
  apply andb_true_iff in E as [E Liv]. apply andb_true_iff in E as [Ev Eid]. apply Nat.eqb_eq in Liv.
  destruct (content_dk P kp pw) as [dk|] eqn:Hdk; [|discriminate].
  destruct (bytes_eqb (hash P (skipn 16 dk ++ cc_ciphertext cc)) (cc_mac cc)) eqn:Hmac; [|discriminate].
  injection Hk as <-.
  destruct (cf_id cf) as [u|] eqn:Hid; [|discriminate].
  unfold version3. rewrite Ev. cbn [negb].
  assert (Hnn : t <> JNull).
  { intros ->. unfold unmarshal_wallet in H1. cbn [dec_object] in H1. injection H1 as <- _. discriminate. }
  destruct (bytes_eqb (cc_kdf cc0) kdfTypeScrypt).
  - destruct (unmarshal_wallet P (step_crypto_with step_scrypt_params) (zero_cc, zero_sp) t) as [[cf2 [cc2 sp]]| |] eqn:H2;
      try discriminate.
    injection Hd as -> <-. destruct (passes_agree P _ _ t _ _ _ _ _ H1 H2) as [<- _].
    assert (R : readScryptWalletFile P t pw md =
                (do (cf, ck) <- unmarshal_wallet P (step_crypto_with step_scrypt_params) (zero_cc, zero_sp) t;
                 do key <- scrypt_decrypt P (fst ck) (snd ck) pw;
                 Ok {| w_core := cf; w_metadata := match md with Some m => m | None => [] end;
                       w_crypto := fst ck; w_kdfparams := KScrypt (snd ck); w_private := key |}))
      by (destruct t; [contradiction|reflexivity..]).
    rewrite R, H2. cbn [bind fst snd].
    rewrite (scrypt_decrypt_complete cc sp pw dk Hal Hdk Liv Hmac). cbn [bind].
    eexists. split; [reflexivity|]. split; reflexivity.
  - destruct (bytes_eqb (cc_kdf cc0) kdfTypePbkdf2); [|discriminate].
    destruct (unmarshal_wallet P (step_crypto_with step_pbkdf2_params) (zero_cc, zero_pp) t) as [[cf2 [cc2 pp]]| |] eqn:H2;
      try discriminate.
    injection Hd as -> <-. destruct (passes_agree P _ _ t _ _ _ _ _ H1 H2) as [<- _].
    assert (R : readPbkdf2WalletFile P t pw md =
                (do (cf, ck) <- unmarshal_wallet P (step_crypto_with step_pbkdf2_params) (zero_cc, zero_pp) t;
                 do key <- pbkdf2_decrypt P (fst ck) (snd ck) pw;
                 Ok {| w_core := cf; w_metadata := match md with Some m => m | None => [] end;
                       w_crypto := fst ck; w_kdfparams := KPbkdf2 (snd ck); w_private := key |}))
      by (destruct t; [contradiction|reflexivity..]).
    rewrite R, H2. cbn [bind fst snd].
    rewrite (pbkdf2_decrypt_complete cc pp pw dk Hdk Liv Hmac). cbn [bind].
    eexists. split; [reflexivity|]. split; reflexivity.
Qed.
End Complete.

(* ---------- exactness for every document ---------- *)
Lemma read_metadata_ok P t pw w : read_wallet_tree P t pw = Ok w -> exists md, unmarshal_metadata P t = Ok md.
Proof.
  unfold read_wallet_tree.
  destruct (unmarshal_wallet P step_crypto_only zero_cc t) as [[cf cc0]|e|]; cbn [bind]; try discriminate.
  destruct (unmarshal_metadata P t) as [md|e|]; cbn [bind]; try discriminate. eauto.
Qed.

Lemma decode_content_core P t cf cc kp :
  decode_content P t = Some (cf, cc, kp) -> exists cc0, unmarshal_wallet P step_crypto_only zero_cc t = Ok (cf, cc0).
Proof.
  unfold decode_content, decode_common, decode_scrypt, decode_pbkdf2.
  destruct (unmarshal_wallet P step_crypto_only zero_cc t) as [[cf0 cc0]| |]; try discriminate.
  intros H. exists cc0.
  destruct (bytes_eqb (cc_kdf cc0) kdfTypeScrypt).
  - destruct (unmarshal_wallet P (step_crypto_with step_scrypt_params) (zero_cc, zero_sp) t) as [[? [? ?]]| |]; congruence.
  - destruct (bytes_eqb (cc_kdf cc0) kdfTypePbkdf2); [|discriminate].
    destruct (unmarshal_wallet P (step_crypto_with step_pbkdf2_params) (zero_cc, zero_pp) t) as [[? [? ?]]| |]; congruence.
Qed.

(* the content of an accepted document is the content of the returned wallet *)
Lemma read_content P t pw w :
  read_wallet_tree P t pw = Ok w -> decode_content P t = Some (w_core w, w_crypto w, w_kdfparams w).
Proof.
  intros H. destruct (accept_content P t pw w H) as (cf0 & Hd & _).
  destruct (decode_content_core P t _ _ _ Hd) as (cc0 & H1).
  destruct (read_inv P t pw w H) as (cf & cc0' & H1' & _ & _ & [(_ & sp & H2 & _)|(_ & pp & H2 & _)]);
    rewrite H1 in H1'; injection H1' as <- <-;
    destruct (passes_agree P _ _ t _ _ _ _ _ H1 H2) as [<- _]; exact Hd.
Qed.

Section Exact.
Variable P : prims.
Hypothesis L : crypto_laws P.
Hypothesis LU : uuid_parse_16 P.

(* For EVERY document t, password and key: the read path returns a wallet with key k (from a file
   declaring aes-128-ctr, when [b = true]) exactly when t decodes -- encoding/json's typed decoding into
   the Go structs and into the metadata map, as modelled -- and the independent strict specification
   derives k from the canonical V3 document carrying the decoded content. *)
Theorem read_iff_spec_any (b : bool) t pw k :
  cost_capped P t = true ->
  (exists w, read_wallet_tree P t pw = Ok w /\ PrivateKey w = k /\
             (b = true -> cc_cipher (w_crypto w) = cipherAES128ctr)) <->
  (exists c md, decode_content P t = Some c /\ unmarshal_metadata P t = Ok md /\
                v3_decrypt_gen b P (content_doc c) pw = Ok k).
Proof.
  intros Hcap. split.
  - intros (w & H & <- & Hc). destruct (read_metadata_ok P t pw w H) as (md & Hm).
    exists (w_core w, w_crypto w, w_kdfparams w), md. split; [apply read_content with pw; exact H|]. split; [exact Hm|].
    change (content_doc (w_core w, w_crypto w, w_kdfparams w))
      with (JSON_tree {| w_core := w_core w; w_metadata := []; w_crypto := w_crypto w; w_kdfparams := w_kdfparams w;
                         w_private := w_private w |}).
    apply (lenient_read_then_strict_md b P LU t pw w); [exact H| repeat split |exact Hc].
  - intros ([[cf cc] kp] & md & Hd & Hm & Hs).
    unfold content_doc, content_wallet, JSON_tree in Hs.
    destruct (spec_on_marshalled_conv b P pw cf [] cc kp [] k (decode_content_tag P t cf cc kp Hd) Hs) as [Hk Hc].
    destruct (content_is_read P L t pw _ md k Hcap Hd Hm Hk) as (w & R & K & E).
    exists w. split; [exact R|]. split; [exact K|]. injection E as _ -> _. exact Hc.
Qed.

(* ... and reports an error exactly when no key is derived that way (there is no third outcome) *)
Theorem read_err_iff_spec_any t pw :
  cost_capped P t = true ->
  (exists e, read_wallet_tree P t pw = Err e) <->
  (forall c md k, decode_content P t = Some c -> unmarshal_metadata P t = Ok md ->
                  v3_decrypt_gen false P (content_doc c) pw <> Ok k).
Proof.
  intros Hcap. split.
  - intros (e & R) c md k Hd Hm Hs.
    destruct (proj2 (read_iff_spec_any false t pw k Hcap)) as (w & R' & _); [eauto|]. congruence.
  - intros H. destruct (read_wallet_tree P t pw) as [w|e|] eqn:R.
    + exfalso. destruct (proj1 (read_iff_spec_any false t pw (PrivateKey w) Hcap)) as (c & md & Hd & Hm & Hs).
      * exists w. split; [exact R|]. split; [reflexivity|discriminate].
      * exact (H c md _ Hd Hm Hs).
    + eauto.
    + exfalso. revert R. apply read_wallet_tree_total. exact Hcap.
Qed.
End Exact.

(* ---------- non-vacuity ---------- *)
From FFS Require Keystore.ProofsFresh Keystore.Toy.

(* Toy.toy (which satisfies crypto_laws) with a UUID parser that returns 16 bytes *)
Definition toy16 : prims := {|
  scrypt := scrypt Toy.toy; scrypt_cap := scrypt_cap Toy.toy; pbkdf2 := pbkdf2 Toy.toy; aes_ctr := aes_ctr Toy.toy;
  hash := hash Toy.toy; pubkey := pubkey Toy.toy; json_parse := json_parse Toy.toy; json_print := json_print Toy.toy;
  json_num := json_num Toy.toy;
  uuid_parse := fun s => if uuid_text_ok s then Some (repeat x00 16) else None |}.

Lemma toy16_crypto_laws : crypto_laws toy16.
Proof.
  constructor.
  - exact (cl_scrypt_len _ Toy.toy_crypto_laws).
  - exact (cl_scrypt_cap_blocks _ Toy.toy_crypto_laws).
  - exact (cl_scrypt_cap_prefix _ Toy.toy_crypto_laws).
  - exact (cl_pbkdf2_len _ Toy.toy_crypto_laws).
  - exact (cl_ctr_involutive _ Toy.toy_crypto_laws).
Qed.

Lemma toy16_uuid_16 : uuid_parse_16 toy16.
Proof. intros s u. cbn [toy16 uuid_parse]. destruct (uuid_text_ok s); intros H; [injection H as <-; reflexivity|discriminate]. Qed.

(* a file created by the model, then written the way only encoding/json reads it: "Crypto" capitalised,
   a first "version" member that a later one overrides, a "VERSION": null member, and the ciphertext with
   a 0x prefix and upper-case hex *)
Definition upper_hex (s : bytes) : bytes :=
  map (fun c => if (97 <=? b2n c)%N && (b2n c <=? 102)%N then n2b (b2n c - 32) else c) s.
Definition lenient_crypto (v : json) : json :=
  match v with
  | JObj ms => JObj (map (fun m => if bytes_eqb (fst m) (ascii_bytes "ciphertext")
                                   then match snd m with
                                        | JStr s => (ascii_bytes "cipherText", JStr (x30 :: x78 :: upper_hex s))
                                        | _ => m
                                        end
                                   else m) ms)
  | _ => v
  end.
Definition lenient_of (t : json) : json :=
  match t with
  | JObj ms => JObj ((ascii_bytes "version", JNum (ascii_bytes "7")) ::
                     map (fun m => if bytes_eqb (fst m) (ascii_bytes "crypto")
                                   then (ascii_bytes "Crypto", lenient_crypto (snd m)) else m) ms
                     ++ [(ascii_bytes "VERSION", JNull)])
  | _ => t
  end.
Definition lenient_doc : option json :=
  match ProofsFresh.create_all toy16 [ProofsFresh.MkCustomLight [x70; x77] [x01; x02; x03]]
                               (map (fun n => n2b (N.of_nat n)) (seq 0 70)) with
  | Ok ([w], _) => Some (lenient_of (JSON_tree w))
  | _ => None
  end.

Example read_iff_spec_any_nonvacuous :
  crypto_laws toy16 /\ uuid_parse_16 toy16 /\
  match lenient_doc with
  | Some t =>
      (* not a document of the strict specification *)
      v3_wellformed t = false /\ cost_capped toy16 t = true /\
      v3_decrypt_gen false toy16 t [x70; x77] = Err SInvalid /\
      (* read by the code; the re-marshalled wallet is decrypted by the full standard to the same key *)
      match read_wallet_tree toy16 t [x70; x77] with
      | Ok w => PrivateKey w = [x01; x02; x03] /\ v3_decrypt toy16 (JSON_tree w) [x70; x77] = Ok [x01; x02; x03]
      | _ => False
      end /\
      (* the right-hand side of the equivalence holds for the right password and fails for another *)
      match decode_content toy16 t, unmarshal_metadata toy16 t with
      | Some c, Ok _ =>
          v3_decrypt toy16 (content_doc c) [x70; x77] = Ok [x01; x02; x03] /\
          v3_decrypt_gen false toy16 (content_doc c) [x70] = Err SMac
      | _, _ => False
      end /\
      (match read_wallet_tree toy16 t [x70] with Err _ => true | _ => false end) = true
  | None => False
  end.
Proof.
  split; [exact toy16_crypto_laws|]. split; [exact toy16_uuid_16|].
  vm_compute. repeat split; reflexivity.
Qed.
