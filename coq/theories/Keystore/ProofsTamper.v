(* C07, wave 6: tampering stated on a CREATED FILE with one field changed (referee issue I5 (b)).

   Until now the tamper theorems spoke about "any document t2 whose decoded content is (cf2, cc2, kp2)"
   ([decode_content] = the model's own transcription of encoding/json), so "the created file with the
   ciphertext / MAC / salt / n / r / p / dklen changed" was covered only through an unstated lemma: that
   the changed document decodes to the changed field.  Here that lemma is proved, in the form that
   matters: for every wallet [w] that marshals to a strictly formed document ([strict_wallet]: what the
   constructors and ReadWalletFile produce), whatever the read path accepts from [JSON_tree w] satisfies
   the MAC equation ON THE FIELDS OF w ([marshalled_read_mac]).  The route does not go through the typed
   decoder again: JSON_tree w is strictly formed ([marshalled_wellformed], new), on strictly formed
   documents the code accepts only what the independent specification accepts (C15: [no_foreign_key_gen]),
   and the specification on a marshalled wallet reads exactly the wallet's fields
   ([spec_on_marshalled_conv]).

   The field edits are a small alphabet [tamper]; [tamper_wallet w x] is w with that one field replaced,
   and JSON_tree of it is the document JSON() would have printed with that member different (same id,
   version, metadata, every other crypto member). *)
From Coq Require Import String.
From Coq Require Import List NArith ZArith Lia Bool Arith.
From Coq Require Import Init.Byte.
From FFS Require Import Base.Res Base.Bytes Keystore.Json Keystore.JsonFacts Keystore.IntText Keystore.Prims Keystore.Model
  Keystore.Spec Keystore.ReadTypes Keystore.ProofsFresh Keystore.ProofsMac Keystore.ProofsNew Keystore.ProofsRead
  Keystore.ProofsRound Keystore.Toy.
From FFS Require Keystore.TotalProofs Keystore.TotalProofs2 Keystore.TotalProofs4 Keystore.TotalProofs6 Keystore.TotalProofs7
  Keystore.ProofsReread Keystore.ProofsReferee.
Import ListNotations.
Local Open Scope string_scope.
Local Open Scope list_scope.

(* ---------- wallets that marshal to strictly formed documents ---------- *)
(* no metadata key is a case variant of id / version / crypto (known finding
   C07/metadata-casefold-core-field), the id has 16 bytes, the integers are int64 (Go: they are),
   the kdf name and the kind of kdfparams belong together *)
Definition strict_wallet (w : wallet) : Prop :=
  exact_names top_fields (w_metadata w) = true /\
  (exists u, cf_id (w_core w) = Some u /\ length u = 16%nat) /\
  is_int64 (cf_version (w_core w)) /\
  TotalProofs6.kdf_ints (w_kdfparams w) /\ TotalProofs6.kdf_tag_ok (w_crypto w) (w_kdfparams w).

Lemma is_field_self f : is_field (ascii_bytes f) f = true.
Proof. unfold is_field. apply bytes_eqb_refl. Qed.

Lemma exact_once_top (ms : list (bytes * json)) f v :
  In f top_fields -> exact_names top_fields ms = true ->
  filter (has_key (ascii_bytes f)) ms = [(ascii_bytes f, v)] ->
  exact_once ms f = true.
Proof.
  intros If X F. unfold exact_once.
  assert (E : filter (fun m => is_field (fst m) f) ms = filter (has_key (ascii_bytes f)) ms).
  { apply filter_ext_in. intros m Im. unfold has_key.
    unfold exact_names in X. rewrite forallb_forall in X. specialize (X m Im).
    rewrite forallb_forall in X. specialize (X f If).
    destruct (is_field (fst m) f) eqn:E1; cbn [implb] in X.
    - symmetry; exact X.
    - destruct (bytes_eqb_spec (fst m) (ascii_bytes f)) as [Q|Q]; [|reflexivity].
      rewrite Q, is_field_self in E1. discriminate. }
  rewrite E, F. apply bytes_eqb_refl.
Qed.

Lemma exact_names_drop_nil fs md : exact_names fs md = true -> exact_names fs (drop_nil md) = true.
Proof.
  unfold exact_names. rewrite !forallb_forall. intros H e I. apply H. apply In_drop_nil. exact I.
Qed.

Lemma marshalled_wellformed w : strict_wallet w -> v3_wellformed (JSON_tree w) = true.
Proof.
  intros (Hmd & (u & Hid & Lu) & Hver & Hints & Htag).
  destruct w as [[id ver] md [cipher ct iv kdf mac] kp key].
  cbn [w_core w_metadata w_crypto w_kdfparams cf_id cf_version cc_kdf] in *. subst id.
  unfold JSON_tree, marshalWalletJSON.
  cbn [w_core w_metadata w_crypto w_kdfparams w_private cf_id cf_version].
  set (vc := crypto_json _).
  set (top := mset (jkey "crypto") vc (mset (jkey "version") (jint ver) (mset (jkey "id") (JStr (uuid_string u)) (drop_nil md)))).
  assert (X : exact_names top_fields top = true).
  { unfold exact_names, top. repeat apply forallb_mset; try reflexivity. apply exact_names_drop_nil. exact Hmd. }
  cbn [v3_wellformed].
  assert (E1 : exact_members ["id"; "version"; "crypto"] top = true).
  { unfold exact_members. cbn [forallb].
    assert (A : exact_once top "id" = true).
    { apply (exact_once_top top "id" (JStr (uuid_string u))); [cbn; tauto|exact X|]. unfold top.
      rewrite (filter_mset_other (jkey "crypto")) by (vm_compute; discriminate).
      rewrite (filter_mset_other (jkey "version")) by (vm_compute; discriminate).
      apply filter_mset_same. }
    assert (B : exact_once top "version" = true).
    { apply (exact_once_top top "version" (jint ver)); [cbn; tauto|exact X|]. unfold top.
      rewrite (filter_mset_other (jkey "crypto")) by (vm_compute; discriminate).
      apply filter_mset_same. }
    assert (C : exact_once top "crypto" = true).
    { apply (exact_once_top top "crypto" vc); [cbn; tauto|exact X|]. unfold top. apply filter_mset_same. }
    rewrite A, B, C. reflexivity. }
  rewrite E1. cbn [andb].
  unfold str_field, obj_field, top.
  rewrite (field_mset_other "version" (jkey "crypto")) by (vm_compute; discriminate).
  rewrite (field_mset_same "version").
  rewrite (field_mset_other "id" (jkey "crypto")) by (vm_compute; discriminate).
  rewrite (field_mset_other "id" (jkey "version")) by (vm_compute; discriminate).
  rewrite (field_mset_same "id").
  rewrite (field_mset_same "crypto").
  unfold vc, crypto_json, jint. cbv beta iota.
  rewrite (parse_print_int64 ver Hver), bytes_eqb_refl, (uuid_string_ok u Lu). cbn [andb].
  unfold crypto_common_members.
  cbn [w_crypto w_kdfparams cc_cipher cc_ciphertext cc_iv cc_kdf cc_mac app].
  match goal with |- context [exact_members ?fs ?l] =>
    replace (exact_members fs l) with true by (vm_compute; reflexivity) end.
  unfold wf_str, wf_hex, hex_field, str_field, obj_field.
  change (field "cipher" _) with (Some (JStr cipher)).
  change (field "ciphertext" _) with (Some (jhex ct)).
  change (field "cipherparams" _) with (Some (JObj [(jkey "iv", jhex iv)])).
  change (field "kdf" _) with (Some (JStr kdf)).
  change (field "mac" _) with (Some (jhex mac)).
  change (field "kdfparams" _) with (Some (kdfparams_json kp)).
  unfold jhex. cbv beta iota. rewrite !hex_decode_encode. cbn [is_some andb].
  destruct kp as [[dklen n p r salt]|[dklen c prf salt]];
    cbn [kdfparams_json sp_dklen sp_n sp_p sp_r sp_salt pp_dklen pp_c pp_prf pp_salt]; cbv beta iota;
    change (field "iv" [(jkey "iv", JStr (hex_encode iv))]) with (Some (JStr (hex_encode iv)));
    replace (exact_members ["iv"] [(jkey "iv", JStr (hex_encode iv))]) with true by (vm_compute; reflexivity);
    cbv beta iota; rewrite hex_decode_encode; cbn [is_some andb];
    unfold TotalProofs6.kdf_tag_ok in Htag; cbn [cc_kdf] in Htag; subst kdf; unfold wf_kdfparams.
  - change (bytes_eqb kdfTypeScrypt kdfTypeScrypt) with true. cbv iota.
    match goal with |- context [exact_members ?fs ?l] =>
      replace (exact_members fs l) with true by (vm_compute; reflexivity) end.
    unfold wf_int, wf_hex, hex_field, str_field.
    change (field "dklen" _) with (Some (jint dklen)).
    change (field "n" _) with (Some (jint n)).
    change (field "r" _) with (Some (jint r)).
    change (field "p" _) with (Some (jint p)).
    match goal with |- context [field "salt" ?l] => change (field "salt" l) with (Some (JStr (hex_encode salt))) end.
    unfold jint. cbv beta iota.
    destruct Hints as (I1 & I2 & I3 & I4). cbn [sp_dklen sp_n sp_p sp_r] in *.
    rewrite !parse_print_int64 by assumption. rewrite hex_decode_encode. reflexivity.
  - change (bytes_eqb kdfTypePbkdf2 kdfTypeScrypt) with false.
    change (bytes_eqb kdfTypePbkdf2 kdfTypePbkdf2) with true. cbv iota.
    match goal with |- context [exact_members ?fs ?l] =>
      replace (exact_members fs l) with true by (vm_compute; reflexivity) end.
    unfold wf_int, wf_hex, wf_str, hex_field, str_field.
    change (field "dklen" _) with (Some (jint dklen)).
    change (field "c" _) with (Some (jint c)).
    change (field "prf" _) with (Some (JStr prf)).
    match goal with |- context [field "salt" ?l] => change (field "salt" l) with (Some (JStr (hex_encode salt))) end.
    unfold jint. cbv beta iota.
    destruct Hints as (I1 & I2). cbn [pp_dklen pp_c] in *.
    rewrite !parse_print_int64 by assumption. rewrite hex_decode_encode. reflexivity.
Qed.

(* ---------- what the read path accepts from a marshalled wallet satisfies the MAC equation on the
              wallet's own fields ---------- *)
Lemma marshalled_read_mac P w pw w2 :
  strict_wallet w -> read_wallet_tree P (JSON_tree w) pw = Ok w2 ->
  hash P (skipn 16 (ProofsReferee.dk_of P (w_kdfparams w) pw) ++ cc_ciphertext (w_crypto w)) = cc_mac (w_crypto w).
Proof.
  intros S R. pose proof (marshalled_wellformed w S) as Wf.
  pose proof (TotalProofs4.no_foreign_key_gen false P _ pw w2 Wf R ltac:(discriminate)) as D.
  destruct S as (_ & _ & _ & _ & Htag).
  destruct w as [cf md cc kp key]. cbn [w_crypto w_kdfparams] in *.
  unfold JSON_tree in D.
  destruct (TotalProofs7.spec_on_marshalled_conv false P pw cf md cc kp key _ Htag D) as [Hk _].
  unfold content_key in Hk.
  destruct ((cf_version cf =? 3)%Z && is_some (cf_id cf) && (length (cc_iv cc) =? 16)%nat); [|discriminate].
  destruct (content_dk P kp pw) as [dk|] eqn:Hdk; [|discriminate].
  assert (Edk : dk = ProofsReferee.dk_of P kp pw).
  { unfold content_dk in Hdk. destruct ((dklen_of kp =? 32)%Z && cost_params_ok kp && prf_ok kp); [|discriminate].
    injection Hdk as <-. destruct kp; reflexivity. }
  subst dk.
  destruct (bytes_eqb_spec (hash P (skipn 16 (ProofsReferee.dk_of P kp pw) ++ cc_ciphertext cc)) (cc_mac cc)) as [Q|Q];
    [exact Q|discriminate].
Qed.

Lemma marshalled_capped P w : strict_wallet w -> kdf_cost_capped (w_kdfparams w) = true -> cost_capped P (JSON_tree w) = true.
Proof.
  intros S Hc. apply TotalProofs4.wellformed_capped; [apply marshalled_wellformed; exact S|].
  rewrite ProofsReread.marshalled_alloc; [exact Hc|]. apply S.
Qed.

(* contrapositive, in error form: within the allocation cap, a marshalled wallet whose fields do not
   satisfy the MAC equation for the password is REJECTED WITH AN ERROR (not a key, not a panic) *)
Theorem marshalled_bad_mac_rejected P w pw :
  strict_wallet w -> kdf_cost_capped (w_kdfparams w) = true ->
  hash P (skipn 16 (ProofsReferee.dk_of P (w_kdfparams w) pw) ++ cc_ciphertext (w_crypto w)) <> cc_mac (w_crypto w) ->
  exists e, read_wallet_tree P (JSON_tree w) pw = Err e.
Proof.
  intros S Hc Hne. destruct (read_wallet_tree P (JSON_tree w) pw) as [w2|e|] eqn:R.
  - exfalso. apply Hne. exact (marshalled_read_mac P w pw w2 S R).
  - eauto.
  - exfalso. revert R. apply TotalProofs.read_wallet_tree_total. apply marshalled_capped; assumption.
Qed.

(* ---------- one-field edits ---------- *)
Inductive tamper :=
| TCiphertext (ct : bytes) | TMac (m : bytes) | TSalt (s : bytes)
| TN (n : Z) | TR (r : Z) | TP (p : Z) | TC (c : Z) | TDklen (d : Z).

Definition set_ct (c : crypto_common) (ct : bytes) : crypto_common :=
  {| cc_cipher := cc_cipher c; cc_ciphertext := ct; cc_iv := cc_iv c; cc_kdf := cc_kdf c; cc_mac := cc_mac c |}.
Definition set_mac (c : crypto_common) (m : bytes) : crypto_common :=
  {| cc_cipher := cc_cipher c; cc_ciphertext := cc_ciphertext c; cc_iv := cc_iv c; cc_kdf := cc_kdf c; cc_mac := m |}.

(* kdfparams with one member replaced; an edit that names a member the KDF does not have (n, r, p of a
   PBKDF2 file, c of a scrypt file) leaves the parameters alone *)
Definition tamper_kdf (k : kdf_params) (x : tamper) : kdf_params :=
  match k, x with
  | KScrypt s, TSalt v => KScrypt {| sp_dklen := sp_dklen s; sp_n := sp_n s; sp_p := sp_p s; sp_r := sp_r s; sp_salt := v |}
  | KScrypt s, TN v => KScrypt {| sp_dklen := sp_dklen s; sp_n := v; sp_p := sp_p s; sp_r := sp_r s; sp_salt := sp_salt s |}
  | KScrypt s, TR v => KScrypt {| sp_dklen := sp_dklen s; sp_n := sp_n s; sp_p := sp_p s; sp_r := v; sp_salt := sp_salt s |}
  | KScrypt s, TP v => KScrypt {| sp_dklen := sp_dklen s; sp_n := sp_n s; sp_p := v; sp_r := sp_r s; sp_salt := sp_salt s |}
  | KScrypt s, TDklen v => KScrypt {| sp_dklen := v; sp_n := sp_n s; sp_p := sp_p s; sp_r := sp_r s; sp_salt := sp_salt s |}
  | KPbkdf2 p, TSalt v => KPbkdf2 {| pp_dklen := pp_dklen p; pp_c := pp_c p; pp_prf := pp_prf p; pp_salt := v |}
  | KPbkdf2 p, TC v => KPbkdf2 {| pp_dklen := pp_dklen p; pp_c := v; pp_prf := pp_prf p; pp_salt := pp_salt p |}
  | KPbkdf2 p, TDklen v => KPbkdf2 {| pp_dklen := v; pp_c := pp_c p; pp_prf := pp_prf p; pp_salt := pp_salt p |}
  | _, _ => k
  end.
Definition tamper_cc (c : crypto_common) (x : tamper) : crypto_common :=
  match x with TCiphertext ct => set_ct c ct | TMac m => set_mac c m | _ => c end.

Definition tamper_wallet (w : wallet) (x : tamper) : wallet :=
  {| w_core := w_core w; w_metadata := w_metadata w; w_crypto := tamper_cc (w_crypto w) x;
     w_kdfparams := tamper_kdf (w_kdfparams w) x; w_private := w_private w |}.

(* the new number is an int64 (any other literal is not a Go int at all) *)
Definition tamper_ints (x : tamper) : Prop :=
  match x with TN z | TR z | TP z | TC z | TDklen z => is_int64 z | _ => True end.

Lemma tamper_strict w x : strict_wallet w -> tamper_ints x -> strict_wallet (tamper_wallet w x).
Proof.
  intros (A & B & C & D & E) Hx. unfold strict_wallet, tamper_wallet. cbn [w_core w_metadata w_crypto w_kdfparams].
  split; [exact A|]. split; [exact B|]. split; [exact C|]. split.
  - destruct (w_kdfparams w) as [s|p], x; cbn [tamper_kdf TotalProofs6.kdf_ints] in *; try exact D;
      unfold TotalProofs6.sp_ints, TotalProofs6.pp_ints in *; cbn [sp_dklen sp_n sp_p sp_r pp_dklen pp_c]; tauto.
  - unfold TotalProofs6.kdf_tag_ok in *.
    destruct (w_kdfparams w) as [s|p], x; cbn [tamper_kdf tamper_cc set_ct set_mac cc_kdf]; exact E.
Qed.

(* ---------- created files ---------- *)
Section Created.
Variable P : prims.
Hypothesis L : crypto_laws P.

Lemma is_int64_small z : (0 <= z <= 1048576)%Z -> is_int64 z.
Proof. unfold is_int64, int64_min, int64_max. lia. Qed.

(* every created wallet, after any Metadata() assignments meeting the round-trip guard, marshals strictly
   and is authentic for its password *)
Lemma created_strict c rnd w rest extras :
  create P c rnd = Ok (w, rest) -> Forall (extra_ok P) extras ->
  let w0 := assign_all w extras in
  strict_wallet w0 /\
  hash P (mac_key P w0 (pw_of c) ++ cc_ciphertext (w_crypto w0)) = cc_mac (w_crypto w0) /\
  kdf_cost_capped (w_kdfparams w0) = true.
Proof.
  intros C Fx w0.
  pose proof (create_metadata_ok P L _ _ _ _ C) as M0.
  pose proof (md_ok_assign_all P w extras M0 Fx) as [_ M']. fold w0 in M'.
  destruct (new_is_standard P L c rnd w rest extras C) as (_ & Ek & _ & Ekdf & _ & Emac & _). fold w0 in Ek, Ekdf, Emac.
  apply (create_shape P L) in C as [salt [iv [id [S [Pre [A [B D]]]]]]].
  assert (S' : same_but_metadata w0 (created_wallet P (pw_of c) (key_of c) (n_of c) pDefault salt iv id)).
  { destruct (assign_all_same w extras) as [E1 [E2 [E3 E4]]]. destruct S as [F1 [F2 [F3 F4]]].
    subst w0. repeat split; congruence. }
  destruct S' as [F1 [F2 [F3 F4]]].
  split; [|split; [symmetry; exact Emac|]].
  - unfold strict_wallet. split; [|split; [|split; [|split]]].
    + unfold exact_names. apply forallb_forall. intros e I. rewrite Forall_forall in M'. exact (proj1 (M' e I)).
    + exists id. rewrite F1. split; [reflexivity|exact D].
    + rewrite F1. cbn. apply is_int64_small. unfold version3. lia.
    + rewrite Ek. cbn. unfold TotalProofs6.sp_ints. cbn [sp_dklen sp_n sp_p sp_r].
      repeat split; apply is_int64_small; destruct c; cbn; unfold nLight, nStandard, pDefault, defaultR; lia.
    + rewrite Ek. exact Ekdf.
  - rewrite Ek. cbn [kdf_cost_capped sp_n sp_r]. destruct c; reflexivity.
Qed.

(* THE TAMPER CLAUSE ON A CREATED FILE.  A file is created (any constructor, password, key, random
   stream, Metadata() assignments meeting the round-trip guard).  One of ciphertext / salt / n / r / p /
   dklen is replaced by any other value (numbers: any int64), the result stays within the allocation cap
   of scrypt.Key, and the document JSON() would print for it is read with ANY password: the result is an
   error -- not a key, not a panic -- unless the MAC input the edited file leads to,
   DK(pw2, edited parameters)[16..32] ++ edited ciphertext, has the same Keccak digest as the MAC input of
   the original file.  (With [x] an edit that changes nothing this is the wrong-password clause for the
   created file itself.)  Nothing is assumed about the hash. *)
Theorem created_tamper_rejected c rnd w rest extras x pw2 :
  create P c rnd = Ok (w, rest) -> Forall (extra_ok P) extras ->
  let w0 := assign_all w extras in
  let wt := tamper_wallet w0 x in
  (forall m, x <> TMac m) -> tamper_ints x -> kdf_cost_capped (w_kdfparams wt) = true ->
  hash P (skipn 16 (ProofsReferee.dk_of P (w_kdfparams wt) pw2) ++ cc_ciphertext (w_crypto wt))
    <> hash P (mac_key P w0 (pw_of c) ++ cc_ciphertext (w_crypto w0)) ->
  exists e, read_wallet_tree P (JSON_tree wt) pw2 = Err e.
Proof.
  intros C Fx w0 wt Nm Hx Hc Hne.
  destruct (created_strict c rnd w rest extras C Fx) as (S & M & _). fold w0 in S, M.
  apply marshalled_bad_mac_rejected; [apply tamper_strict; assumption|exact Hc|].
  rewrite M in Hne. intros Q. apply Hne. rewrite Q.
  subst wt. unfold tamper_wallet. cbn [w_crypto]. destruct x; try reflexivity. exfalso. exact (Nm m eq_refl).
Qed.

(* a changed MAC, everything else and the password as created: rejected UNCONDITIONALLY *)
Theorem created_mac_tamper_rejected c rnd w rest extras m :
  create P c rnd = Ok (w, rest) -> Forall (extra_ok P) extras ->
  let w0 := assign_all w extras in
  m <> cc_mac (w_crypto w0) ->
  exists e, read_wallet_tree P (JSON_tree (tamper_wallet w0 (TMac m))) (pw_of c) = Err e.
Proof.
  intros C Fx w0 Hm.
  destruct (created_strict c rnd w rest extras C Fx) as (S & M & Hc). fold w0 in S, M, Hc.
  apply marshalled_bad_mac_rejected; [apply tamper_strict; [exact S|exact I]| |].
  - unfold tamper_wallet. cbn [w_kdfparams]. destruct (w_kdfparams w0); exact Hc.
  - unfold tamper_wallet. cbn [w_kdfparams w_crypto tamper_cc set_mac cc_mac cc_ciphertext].
    replace (tamper_kdf (w_kdfparams w0) (TMac m)) with (w_kdfparams w0) by (destruct (w_kdfparams w0); reflexivity).
    rewrite <- ProofsReferee.mac_key_dk_of, M. intros Q. apply Hm. symmetry. exact Q.
Qed.

(* an edit that changes nothing gives the created document back *)
Lemma tamper_same_ct w : tamper_wallet w (TCiphertext (cc_ciphertext (w_crypto w))) = w.
Proof. destruct w as [cf md [a b c d e] [s|p] key]; reflexivity. Qed.
End Created.

(* ---------- the same edits on the DOCUMENT ---------- *)
(* [edit_doc x t]: the document t with the one member the edit names replaced (crypto.ciphertext,
   crypto.mac, crypto.kdfparams.salt / n / r / p / c / dklen), everything else -- order included -- as it
   was.  A function on JSON trees that knows nothing about wallets. *)
Definition set_member (name : string) (v : json) (ms : list (bytes * json)) : list (bytes * json) :=
  map (fun m => if bytes_eqb (fst m) (ascii_bytes name) then (fst m, v) else m) ms.
Definition edit_crypto (f : list (bytes * json) -> list (bytes * json)) (t : json) : json :=
  match t with
  | JObj top => match field "crypto" top with
                | Some (JObj c) => JObj (mset (jkey "crypto") (JObj (f c)) top)
                | _ => t
                end
  | _ => t
  end.
Definition edit_kdfparams (f : list (bytes * json) -> list (bytes * json)) : json -> json :=
  edit_crypto (fun c => match field "kdfparams" c with
                        | Some (JObj kp) => set_member "kdfparams" (JObj (f kp)) c
                        | _ => c
                        end).
Definition edit_doc (x : tamper) : json -> json :=
  match x with
  | TCiphertext ct => edit_crypto (set_member "ciphertext" (jhex ct))
  | TMac m => edit_crypto (set_member "mac" (jhex m))
  | TSalt s => edit_kdfparams (set_member "salt" (jhex s))
  | TN z => edit_kdfparams (set_member "n" (jint z))
  | TR z => edit_kdfparams (set_member "r" (jint z))
  | TP z => edit_kdfparams (set_member "p" (jint z))
  | TC z => edit_kdfparams (set_member "c" (jint z))
  | TDklen z => edit_kdfparams (set_member "dklen" (jint z))
  end.

Lemma mremove_minsert k v m : mremove k (minsert k v m) = mremove k m.
Proof.
  induction m as [|[k' v'] t IH]; cbn [minsert mremove].
  - rewrite bytes_eqb_refl. reflexivity.
  - destruct (bytes_ltb k k'); cbn [mremove].
    + rewrite bytes_eqb_refl. reflexivity.
    + destruct (bytes_eqb k k'); [exact IH|rewrite IH; reflexivity].
Qed.
Lemma mremove_idem k m : mremove k (mremove k m) = mremove k m.
Proof.
  induction m as [|[k' v'] t IH]; cbn [mremove]; [reflexivity|].
  destruct (bytes_eqb k k') eqn:E; [exact IH|]. cbn [mremove]. rewrite E, IH. reflexivity.
Qed.
Lemma mset_mset k v v' m : mset k v' (mset k v m) = mset k v' m.
Proof. unfold mset. rewrite mremove_minsert, mremove_idem. reflexivity. Qed.

(* JSON() of the edited wallet IS the edited document *)
Lemma edit_doc_marshalled w x : edit_doc x (JSON_tree w) = JSON_tree (tamper_wallet w x).
Proof.
  destruct w as [cf md [cipher ct iv kdf mac] kp key].
  unfold JSON_tree, marshalWalletJSON, tamper_wallet.
  cbn [w_core w_metadata w_crypto w_kdfparams w_private].
  destruct kp as [[dklen n p r salt]|[dklen c prf salt]], x;
    cbn [edit_doc]; unfold edit_kdfparams, edit_crypto; rewrite (field_mset_same "crypto");
    unfold crypto_json; rewrite mset_mset; reflexivity.
Qed.

(* ---------- the statements on documents and bytes ---------- *)
Section CreatedDoc.
Variable P : prims.
Hypothesis L : crypto_laws P.

(* a created file, as the document JSON() prints, with ONE MEMBER EDITED ([edit_doc], a function on the
   JSON tree), read with any password; and the same for any bytes that lex to that edited document *)
Theorem created_doc_tamper_rejected c rnd w rest extras x pw2 :
  create P c rnd = Ok (w, rest) -> Forall (extra_ok P) extras ->
  let w0 := assign_all w extras in
  let kp' := tamper_kdf (w_kdfparams w0) x in
  let ct' := cc_ciphertext (tamper_cc (w_crypto w0) x) in
  (forall m, x <> TMac m) -> tamper_ints x -> kdf_cost_capped kp' = true ->
  hash P (skipn 16 (ProofsReferee.dk_of P kp' pw2) ++ ct') <> hash P (mac_key P w0 (pw_of c) ++ cc_ciphertext (w_crypto w0)) ->
  (exists e, read_wallet_tree P (edit_doc x (JSON_tree w0)) pw2 = Err e) /\
  (forall data, json_parse P data = Some (edit_doc x (JSON_tree w0)) -> exists e, ReadWalletFile P data pw2 = Err e).
Proof.
  intros C Fx w0 kp' ct' Nm Hx Hc Hne.
  assert (R : exists e, read_wallet_tree P (edit_doc x (JSON_tree w0)) pw2 = Err e).
  { rewrite edit_doc_marshalled. exact (created_tamper_rejected P L c rnd w rest extras x pw2 C Fx Nm Hx Hc Hne). }
  split; [exact R|]. intros data Hd. unfold ReadWalletFile. rewrite Hd. exact R.
Qed.

Theorem created_doc_mac_tamper_rejected c rnd w rest extras m :
  create P c rnd = Ok (w, rest) -> Forall (extra_ok P) extras ->
  let w0 := assign_all w extras in
  m <> cc_mac (w_crypto w0) ->
  (exists e, read_wallet_tree P (edit_doc (TMac m) (JSON_tree w0)) (pw_of c) = Err e) /\
  (forall data, json_parse P data = Some (edit_doc (TMac m) (JSON_tree w0)) -> exists e, ReadWalletFile P data (pw_of c) = Err e).
Proof.
  intros C Fx w0 Hm.
  assert (R : exists e, read_wallet_tree P (edit_doc (TMac m) (JSON_tree w0)) (pw_of c) = Err e).
  { rewrite edit_doc_marshalled. exact (created_mac_tamper_rejected P L c rnd w rest extras m C Fx Hm). }
  split; [exact R|]. intros data Hd. unfold ReadWalletFile. rewrite Hd. exact R.
Qed.
End CreatedDoc.

(* ---------- files produced elsewhere: the same for every wallet that was READ ---------- *)
(* (t, pw) was accepted -- a scrypt or PBKDF2 file from anywhere, strictly or leniently formed -- and gave
   w0.  JSON() of w0 with one member edited is rejected under the same conditions.  Guard: no metadata
   key of w0 (i.e. no unknown top-level member of t) is a case variant of id / version / crypto. *)
Theorem read_doc_tamper_rejected P (LU : TotalProofs6.uuid_parse_16 P) t pw w0 x pw2 :
  read_wallet_tree P t pw = Ok w0 -> exact_names top_fields (w_metadata w0) = true ->
  let kp' := tamper_kdf (w_kdfparams w0) x in
  let cc' := tamper_cc (w_crypto w0) x in
  tamper_ints x -> kdf_cost_capped kp' = true ->
  hash P (skipn 16 (ProofsReferee.dk_of P kp' pw2) ++ cc_ciphertext cc') <> cc_mac cc' ->
  exists e, read_wallet_tree P (edit_doc x (JSON_tree w0)) pw2 = Err e.
Proof.
  intros R Hmd kp' cc' Hx Hc Hne. rewrite edit_doc_marshalled.
  destruct (TotalProofs6.read_wallet_shape P LU t pw w0 R) as (Hv & Hid & Htag & Hints).
  apply marshalled_bad_mac_rejected; [apply tamper_strict; [|exact Hx]|exact Hc|exact Hne].
  unfold strict_wallet. split; [exact Hmd|]. split; [exact Hid|]. split; [|split; assumption].
  rewrite Hv. unfold is_int64, int64_min, int64_max. lia.
Qed.

(* ---------- non-vacuity ---------- *)
(* Keystore/Toy.v's scrypt puts only the password and the salt into the 32 derived bytes, so an edited n,
   r or p would go unnoticed by IT (the theorems' digest hypothesis fails there -- correctly).  [toy_mix]
   is the same toy with a scrypt whose second half depends on N, r, p, the password and the salt. *)
Definition nb (z : Z) : byte := n2b (Z.to_N (z mod 251)).
Definition mix_seed (pw salt : bytes) (N r p : Z) : bytes :=
  gen pw 8 ++ repeat x55 8 ++ [nb N; nb r; nb p] ++ gen pw 4 ++ salt.
Definition toy_mix : prims := {|
  scrypt := fun pw salt N r p dk => gen (mix_seed pw salt N r p) (Z.to_nat dk);
  scrypt_cap := fun pw salt N r p dk => gen (mix_seed pw salt N r p) (Z.to_nat (round_up_32 dk));
  pbkdf2 := pbkdf2 toy; aes_ctr := aes_ctr toy; hash := hash toy; pubkey := pubkey toy;
  json_parse := json_parse toy; json_print := json_print toy; json_num := json_num toy; uuid_parse := uuid_parse toy |}.

Lemma toy_mix_crypto_laws : crypto_laws toy_mix.
Proof.
  destruct toy_crypto_laws as [_ _ _ D E].
  constructor; cbn [toy_mix scrypt scrypt_cap pbkdf2 aes_ctr]; intros.
  - apply gen_go_length.
  - reflexivity.
  - unfold gen. apply gen_go_prefix.
    unfold scrypt_pre, scrypt_dom in H. apply andb_prop in H as [H _]. apply andb_prop in H as [_ H].
    apply Z.leb_le in H. unfold round_up_32.
    pose proof (Z.mul_div_le (dklen + 31) 32). pose proof (Z.mod_pos_bound (dklen + 31) 32).
    pose proof (Z.div_mod (dklen + 31) 32). lia.
  - apply D. assumption.
  - apply E; assumption.
Qed.

(* a standard-preset file is created; ciphertext with its first byte changed, salt with its first byte
   changed, n doubled, r = 4, p = 2: each edited document meets every hypothesis of
   [created_doc_tamper_rejected] with the ORIGINAL password (cap; digests differ, decided by evaluation)
   and is refused; so is the unedited document under another password, and a changed MAC; the unedited
   document with the password is accepted *)
Definition nv_c : creation := MkStandard [x70; x77] {| kp_private := repeat x07 32; kp_address := repeat x0a 20 |}.
Definition nv_edits (w : wallet) : list tamper :=
  [ TCiphertext (match cc_ciphertext (w_crypto w) with b :: r => flip b :: r | [] => [x00] end);
    TSalt (match wallet_salt w with b :: r => flip b :: r | [] => [x00] end);
    TN 2048; TR 4; TP 2 ].
Definition nv_check (w0 : wallet) (pw2 : bytes) (x : tamper) : bool :=
  let kp' := tamper_kdf (w_kdfparams w0) x in
  let ct' := cc_ciphertext (tamper_cc (w_crypto w0) x) in
  kdf_cost_capped kp' &&
  negb (bytes_eqb (hash toy_mix (skipn 16 (ProofsReferee.dk_of toy_mix kp' pw2) ++ ct'))
                  (hash toy_mix (mac_key toy_mix w0 [x70; x77] ++ cc_ciphertext (w_crypto w0)))) &&
  is_err (read_wallet_tree toy_mix (edit_doc x (JSON_tree w0)) pw2).

Example created_tamper_nonvacuous :
  crypto_laws toy_mix /\
  match create toy_mix nv_c (repeat x2a 64) with
  | Ok (w, _) =>
      let w0 := assign_all w [(ascii_bytes "note", JStr (ascii_bytes "x"))] in
      Forall (extra_ok toy_mix) [(ascii_bytes "note", JStr (ascii_bytes "x"))] /\
      is_ok (read_wallet_tree toy_mix (JSON_tree w0) [x70; x77]) = true /\
      forallb (nv_check w0 [x70; x77]) (nv_edits w0) = true /\
      nv_check w0 [x70] (TCiphertext (cc_ciphertext (w_crypto w0))) = true /\
      edit_doc (TCiphertext (cc_ciphertext (w_crypto w0))) (JSON_tree w0) = JSON_tree w0 /\
      is_err (read_wallet_tree toy_mix (edit_doc (TMac (repeat x00 32)) (JSON_tree w0)) [x70; x77]) = true /\
      bytes_eqb (repeat x00 32) (cc_mac (w_crypto w0)) = false
  | _ => False
  end.
Proof.
  split; [exact toy_mix_crypto_laws|].
  destruct (create toy_mix nv_c (repeat x2a 64)) as [[w r]| |] eqn:C; [|vm_compute in C; discriminate..].
  assert (C' : create toy_mix nv_c (repeat x2a 64) = Ok (w, r)) by exact C.
  vm_compute in C. injection C as <- <-.
  split; [|split; [|split; [|split; [|split; [|split]]]]].
  - constructor; [|constructor]. unfold extra_ok. cbn [fst snd]. repeat split; vm_compute; reflexivity.
  - vm_compute. reflexivity.
  - vm_compute. reflexivity.
  - vm_compute. reflexivity.
  - vm_compute. reflexivity.
  - vm_compute. reflexivity.
  - vm_compute. reflexivity.
Qed.
