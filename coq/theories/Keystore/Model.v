(* Executable model of pkg/keystorev3 (wallet.go, walletfile.go, scrypt.go, pbkdf2.go, aes128ctr.go)
   as it stands on /repo main after the C15 repairs 5907a4c, 8b9f058, f9284a2, e53319d.
   One definition per Go function, same order of checks.  Library calls go through the call sites of
   the first section: each carries the library's precondition (Keystore/Prims.v) and is [Panic]
   outside it (for scrypt.Key this includes the allocation of its work area: [scrypt_alloc_ok]).
   A wallet file enters as the tree delivered by the encoding/json lexer ([json_parse]
   of Prims.v); the typed decoding that encoding/json performs into the Go structs is modelled here
   (case-insensitive field match, members applied in document order so the last duplicate wins and
   nested structs merge, null leaves a field unchanged, wrong JSON kind is an error, custom
   UnmarshalJSON/UnmarshalText of HexBytesPlain and UUID).  Random bytes are an explicit input
   stream.  No proofs in this file. *)
From Coq Require Import String.
From Coq Require Import List NArith ZArith Lia Bool Arith.
From Coq Require Import Init.Byte.
From FFS Require Import Base.Res Base.Bytes Keystore.Json Keystore.Prims.
Import ListNotations.
Local Open Scope string_scope.
Local Open Scope list_scope.

(* error classes (the Go error texts in comments) *)
Definition EJson := 1%nat.        (* "invalid wallet file" / "invalid scrypt wallet file" / "invalid pbkdf2 keystore": json.Unmarshal failed *)
Definition EMissingID := 2%nat.   (* "missing keyfile id" *)
Definition EVersion := 3%nat.     (* "incorrect keyfile version (only V3 supported)" *)
Definition EKdf := 4%nat.         (* "unsupported kdf" *)
Definition EDkLen := 5%nat.       (* "derived key length %d != 32" *)
Definition EScryptRP := 6%nat.    (* "r=%d and p=%d must be positive" *)
Definition EScryptLib := 7%nat.   (* "invalid scrypt keystore: %s" (error returned by scrypt.Key) *)
Definition EPrf := 8%nat.         (* "unsupported prf" *)
Definition EPbkdf2C := 9%nat.     (* "iteration count %d must be positive" *)
Definition EMac := 10%nat.        (* "invalid password provided" *)
Definition EAes := 11%nat.        (* "AES initialization failed" *)
Definition EIv := 12%nat.         (* "invalid IV length" *)

(* constants of wallet.go, walletfile.go, scrypt.go, pbkdf2.go *)
Definition nLight : Z := 4096.        (* 1 << 12 *)
Definition nStandard : Z := 1024.     (* 1 << 10 *)
Definition pDefault : Z := 1.
Definition defaultR : Z := 8.
Definition version3 : Z := 3.
Definition derivedKeyLen : Z := 32.
Definition cipherAES128ctr : bytes := ascii_bytes "aes-128-ctr".
Definition kdfTypeScrypt : bytes := ascii_bytes "scrypt".
Definition kdfTypePbkdf2 : bytes := ascii_bytes "pbkdf2".
Definition prfHmacSHA256 : bytes := ascii_bytes "hmac-sha256".

(* ================= library call sites ================= *)

(* a Go byte slice of which the code may read the spare capacity: content, then the bytes of the
   backing array between len and cap *)
Record gslice := { gs_data : bytes; gs_spare : bytes }.

(* s[lo:hi] on a slice: legal up to the capacity *)
Definition reslice (g : gslice) (lo hi : nat) : res gslice :=
  let whole := gs_data g ++ gs_spare g in
  if (lo <=? hi)%nat && (hi <=? length whole)%nat
  then Ok {| gs_data := firstn (hi - lo) (skipn lo whole); gs_spare := skipn hi whole |}
  else Panic.

(* scrypt.Key(password, salt, N, r, p, keyLen) *)
Definition call_scrypt (P : prims) (pw salt : bytes) (N r p dklen : Z) : res gslice :=
  if negb (scrypt_dom r p dklen) then Panic
  else if negb (scrypt_params_ok N r p) then Err EScryptLib
  else if negb (scrypt_alloc_ok N r) then Panic   (* make([]uint32, 32*N*r): makeslice: len out of range *)
  else Ok {| gs_data := scrypt P pw salt N r p dklen;
             gs_spare := skipn (Z.to_nat dklen) (scrypt_cap P pw salt N r p dklen) |}.

(* pbkdf2.Key(password, salt, c, keyLen, sha256.New) *)
Definition call_pbkdf2 (P : prims) (pw salt : bytes) (c dklen : Z) : res bytes :=
  if negb (pbkdf2_pre c dklen) then Panic else Ok (pbkdf2 P pw salt c dklen).

(* cipher.NewCTR(block, iv) followed by XORKeyStream(dst, src) with len(dst) = len(src) *)
Definition call_ctr (P : prims) (key iv data : bytes) : res bytes :=
  if negb (ctr_iv_pre iv) then Panic else Ok (aes_ctr P key iv data).

(* ================= wallet.go ================= *)

(* mustReadBytes(size, rand.Reader): the next [size] bytes of the random stream; a short read panics *)
Definition mustReadBytes (size : nat) (rnd : bytes) : res (bytes * bytes) :=
  if (size <=? length rnd)%nat then Ok (firstn size rnd, skipn size rnd) else Panic.

(* generateMac *)
Definition generateMac (P : prims) (derivedKeyMacBytes cipherText : bytes) : bytes :=
  hash P (derivedKeyMacBytes ++ cipherText).

(* ================= aes128ctr.go ================= *)

Definition mustAES128CtrEncrypt (P : prims) (key iv plaintext : bytes) : res bytes :=
  if negb (aes_key_ok key) then Panic            (* aes.NewCipher error -> panic *)
  else call_ctr P key iv plaintext.

Definition aes128CtrDecrypt (P : prims) (key iv ciphertext : bytes) : res bytes :=
  if negb (aes_key_ok key) then Err EAes         (* aes.NewCipher error *)
  else if negb (length iv =? 16)%nat then Err EIv  (* len(iv) != block.BlockSize() *)
  else call_ctr P key iv ciphertext.

(* ================= walletfile.go: the structs ================= *)

Record core_fields := { cf_id : option bytes (* *fftypes.UUID: 16 bytes or nil *); cf_version : Z }.
Record crypto_common := {
  cc_cipher : bytes; cc_ciphertext : bytes; cc_iv : bytes (* cipherparams.iv *); cc_kdf : bytes; cc_mac : bytes }.
Record scrypt_params := { sp_dklen : Z; sp_n : Z; sp_p : Z; sp_r : Z; sp_salt : bytes }.
Record pbkdf2_params := { pp_dklen : Z; pp_c : Z; pp_prf : bytes; pp_salt : bytes }.
Inductive kdf_params := KScrypt (s : scrypt_params) | KPbkdf2 (p : pbkdf2_params).

(* walletFileScrypt / walletFilePbkdf2 behind the WalletFile interface *)
Record wallet := {
  w_core : core_fields;
  w_metadata : jmap;            (* map[string]interface{}: values as the JSON they marshal to *)
  w_crypto : crypto_common;
  w_kdfparams : kdf_params;
  w_private : bytes }.

Definition zero_core : core_fields := {| cf_id := None; cf_version := 0 |}.
Definition zero_cc : crypto_common :=
  {| cc_cipher := []; cc_ciphertext := []; cc_iv := []; cc_kdf := []; cc_mac := [] |}.
Definition zero_sp : scrypt_params := {| sp_dklen := 0; sp_n := 0; sp_p := 0; sp_r := 0; sp_salt := [] |}.
Definition zero_pp : pbkdf2_params := {| pp_dklen := 0; pp_c := 0; pp_prf := []; pp_salt := [] |}.

(* ---------- json.Unmarshal into these structs ---------- *)

(* string field *)
Definition dec_string (cur : bytes) (v : json) : res bytes :=
  match v with JStr s => Ok s | JNull => Ok cur | _ => Err EJson end.

(* int field *)
Definition dec_int (cur : Z) (v : json) : res Z :=
  match v with
  | JNum l => match parse_int64 l with Some z => Ok z | None => Err EJson end
  | JNull => Ok cur
  | _ => Err EJson
  end.

(* ethtypes.HexBytesPlain.UnmarshalJSON: a JSON string (null reads as ""), optional 0x, hex *)
Definition dec_hex (cur : bytes) (v : json) : res bytes :=
  match v with
  | JStr s => match hex_decode (trim0x s) with Some b => Ok b | None => Err EJson end
  | JNull => Ok []
  | _ => Err EJson
  end.

(* *fftypes.UUID with UnmarshalText: null -> nil; "" leaves the (freshly allocated) value alone *)
Definition dec_uuid (P : prims) (cur : option bytes) (v : json) : res (option bytes) :=
  match v with
  | JNull => Ok None
  | JStr s =>
      let base := match cur with Some u => u | None => repeat x00 16 end in
      match s with
      | [] => Ok (Some base)
      | _ => match uuid_parse P s with Some u => Ok (Some u) | None => Err EJson end
      end
  | _ => Err EJson
  end.

Fixpoint fold_members {S : Type} (step : S -> bytes -> json -> res S)
         (ms : list (bytes * json)) (st : S) : res S :=
  match ms with
  | [] => Ok st
  | (k, v) :: t => do st' <- step st k v; fold_members step t st'
  end.

(* struct value: object members applied in order onto the current value, null is a no-op *)
Definition dec_object {S : Type} (step : S -> bytes -> json -> res S) (cur : S) (v : json) : res S :=
  match v with
  | JObj ms => fold_members step ms cur
  | JNull => Ok cur
  | _ => Err EJson
  end.

Definition step_cipherparams (iv : bytes) (k : bytes) (v : json) : res bytes :=
  if is_field k "iv" then dec_hex iv v else Ok iv.

(* cryptoCommon; None = the key matches none of its fields *)
Definition step_crypto_common (cc : crypto_common) (k : bytes) (v : json) : option (res crypto_common) :=
  if is_field k "cipher" then
    Some (do s <- dec_string (cc_cipher cc) v;
          Ok {| cc_cipher := s; cc_ciphertext := cc_ciphertext cc; cc_iv := cc_iv cc; cc_kdf := cc_kdf cc; cc_mac := cc_mac cc |})
  else if is_field k "ciphertext" then
    Some (do b <- dec_hex (cc_ciphertext cc) v;
          Ok {| cc_cipher := cc_cipher cc; cc_ciphertext := b; cc_iv := cc_iv cc; cc_kdf := cc_kdf cc; cc_mac := cc_mac cc |})
  else if is_field k "cipherparams" then
    Some (do iv <- dec_object step_cipherparams (cc_iv cc) v;
          Ok {| cc_cipher := cc_cipher cc; cc_ciphertext := cc_ciphertext cc; cc_iv := iv; cc_kdf := cc_kdf cc; cc_mac := cc_mac cc |})
  else if is_field k "kdf" then
    Some (do s <- dec_string (cc_kdf cc) v;
          Ok {| cc_cipher := cc_cipher cc; cc_ciphertext := cc_ciphertext cc; cc_iv := cc_iv cc; cc_kdf := s; cc_mac := cc_mac cc |})
  else if is_field k "mac" then
    Some (do b <- dec_hex (cc_mac cc) v;
          Ok {| cc_cipher := cc_cipher cc; cc_ciphertext := cc_ciphertext cc; cc_iv := cc_iv cc; cc_kdf := cc_kdf cc; cc_mac := b |})
  else None.

(* walletFileCommon.Crypto: kdfparams is not a field of cryptoCommon and is skipped *)
Definition step_crypto_only (cc : crypto_common) (k : bytes) (v : json) : res crypto_common :=
  match step_crypto_common cc k v with Some r => r | None => Ok cc end.

Definition step_scrypt_params (sp : scrypt_params) (k : bytes) (v : json) : res scrypt_params :=
  if is_field k "dklen" then
    do z <- dec_int (sp_dklen sp) v; Ok {| sp_dklen := z; sp_n := sp_n sp; sp_p := sp_p sp; sp_r := sp_r sp; sp_salt := sp_salt sp |}
  else if is_field k "n" then
    do z <- dec_int (sp_n sp) v; Ok {| sp_dklen := sp_dklen sp; sp_n := z; sp_p := sp_p sp; sp_r := sp_r sp; sp_salt := sp_salt sp |}
  else if is_field k "p" then
    do z <- dec_int (sp_p sp) v; Ok {| sp_dklen := sp_dklen sp; sp_n := sp_n sp; sp_p := z; sp_r := sp_r sp; sp_salt := sp_salt sp |}
  else if is_field k "r" then
    do z <- dec_int (sp_r sp) v; Ok {| sp_dklen := sp_dklen sp; sp_n := sp_n sp; sp_p := sp_p sp; sp_r := z; sp_salt := sp_salt sp |}
  else if is_field k "salt" then
    do b <- dec_hex (sp_salt sp) v; Ok {| sp_dklen := sp_dklen sp; sp_n := sp_n sp; sp_p := sp_p sp; sp_r := sp_r sp; sp_salt := b |}
  else Ok sp.

Definition step_pbkdf2_params (pp : pbkdf2_params) (k : bytes) (v : json) : res pbkdf2_params :=
  if is_field k "dklen" then
    do z <- dec_int (pp_dklen pp) v; Ok {| pp_dklen := z; pp_c := pp_c pp; pp_prf := pp_prf pp; pp_salt := pp_salt pp |}
  else if is_field k "c" then
    do z <- dec_int (pp_c pp) v; Ok {| pp_dklen := pp_dklen pp; pp_c := z; pp_prf := pp_prf pp; pp_salt := pp_salt pp |}
  else if is_field k "prf" then
    do s <- dec_string (pp_prf pp) v; Ok {| pp_dklen := pp_dklen pp; pp_c := pp_c pp; pp_prf := s; pp_salt := pp_salt pp |}
  else if is_field k "salt" then
    do b <- dec_hex (pp_salt pp) v; Ok {| pp_dklen := pp_dklen pp; pp_c := pp_c pp; pp_prf := pp_prf pp; pp_salt := b |}
  else Ok pp.

(* cryptoScrypt / cryptoPbkdf2: the embedded cryptoCommon fields plus kdfparams *)
Definition step_crypto_with {K : Type} (step_params : K -> bytes -> json -> res K)
           (st : crypto_common * K) (k : bytes) (v : json) : res (crypto_common * K) :=
  match step_crypto_common (fst st) k v with
  | Some r => do cc <- r; Ok (cc, snd st)
  | None =>
      if is_field k "kdfparams" then do kp <- dec_object step_params (snd st) v; Ok (fst st, kp)
      else Ok st
  end.

(* walletFileCoreFields; None = the key matches none of its fields *)
Definition step_core (P : prims) (cf : core_fields) (k : bytes) (v : json) : option (res core_fields) :=
  if is_field k "id" then
    Some (do u <- dec_uuid P (cf_id cf) v; Ok {| cf_id := u; cf_version := cf_version cf |})
  else if is_field k "version" then
    Some (do z <- dec_int (cf_version cf) v; Ok {| cf_id := cf_id cf; cf_version := z |})
  else None.

(* walletFileCommon / walletFileScrypt / walletFilePbkdf2: promoted core fields plus "crypto"
   (metadata and privateKey are unexported and invisible to encoding/json) *)
Definition step_wallet {C : Type} (P : prims) (step_crypto : C -> bytes -> json -> res C)
           (st : core_fields * C) (k : bytes) (v : json) : res (core_fields * C) :=
  match step_core P (fst st) k v with
  | Some r => do cf <- r; Ok (cf, snd st)
  | None =>
      if is_field k "crypto" then do c <- dec_object step_crypto (snd st) v; Ok (fst st, c)
      else Ok st
  end.

(* json.Unmarshal(jsonWallet, &w) for a struct value w *)
Definition unmarshal_wallet {C : Type} (P : prims) (step_crypto : C -> bytes -> json -> res C)
           (zero : C) (t : json) : res (core_fields * C) :=
  dec_object (step_wallet P step_crypto) (zero_core, zero) t.

(* json.Unmarshal into interface{} values: numbers become float64 (an out-of-range literal is an
   error), objects become maps (last duplicate wins) *)
Fixpoint dec_iface (P : prims) (v : json) : res json :=
  match v with
  | JNum l => match json_num P l with Some l' => Ok (JNum l') | None => Err EJson end
  | JArr l =>
      do l' <- (fix go (l : list json) : res (list json) :=
                  match l with
                  | [] => Ok []
                  | x :: t => do x' <- dec_iface P x; do t' <- go t; Ok (x' :: t')
                  end) l;
      Ok (JArr l')
  | JObj ms =>
      do m <- (fix go (ms : list (bytes * json)) (acc : jmap) : res jmap :=
                 match ms with
                 | [] => Ok acc
                 | (k, x) :: t => do x' <- dec_iface P x; go t (mset k x' acc)
                 end) ms [];
      Ok (JObj m)
  | _ => Ok v
  end.

(* json.Unmarshal(jsonWallet, &w.metadata) with a nil map[string]interface{}; None = still nil *)
Definition unmarshal_metadata (P : prims) (t : json) : res (option jmap) :=
  match t with
  | JObj _ => match dec_iface P t with
              | Ok (JObj m) => Ok (Some m)
              | Ok _ => Err EJson
              | Err e => Err e
              | Panic => Panic
              end
  | JNull => Ok None
  | _ => Err EJson
  end.

(* ---------- decryptCommon ---------- *)
Definition decryptCommon (P : prims) (c : crypto_common) (derivedKey : bytes) : res bytes :=
  if negb (length derivedKey =? 32)%nat then Err EDkLen
  else
    do macKey <- slice derivedKey 16 32;
    let derivedMac := generateMac P macKey (cc_ciphertext c) in
    if negb (bytes_eqb derivedMac (cc_mac c)) then Err EMac
    else
      do encryptKey <- slice derivedKey 0 16;
      aes128CtrDecrypt P encryptKey (cc_iv c) (cc_ciphertext c).

(* ================= scrypt.go ================= *)

(* (w *walletFileScrypt) decrypt *)
Definition scrypt_decrypt (P : prims) (c : crypto_common) (kp : scrypt_params) (password : bytes) : res bytes :=
  if negb (sp_dklen kp =? derivedKeyLen)%Z then Err EDkLen
  else if (sp_r kp <=? 0)%Z || (sp_p kp <=? 0)%Z then Err EScryptRP
  else
    do dk <- call_scrypt P password (sp_salt kp) (sp_n kp) (sp_r kp) (sp_p kp) (sp_dklen kp);
    decryptCommon P c (gs_data dk).

(* readScryptWalletFile: var w *walletFileScrypt; json.Unmarshal(jsonWallet, &w); w.metadata = metadata *)
Definition readScryptWalletFile (P : prims) (t : json) (password : bytes) (metadata : option jmap) : res wallet :=
  match t with
  | JNull => Panic      (* w stays nil; w.metadata = ... dereferences it *)
  | _ =>
      do (cf, ck) <- unmarshal_wallet P (step_crypto_with step_scrypt_params) (zero_cc, zero_sp) t;
      do key <- scrypt_decrypt P (fst ck) (snd ck) password;
      Ok {| w_core := cf; w_metadata := match metadata with Some m => m | None => [] end;
            w_crypto := fst ck; w_kdfparams := KScrypt (snd ck); w_private := key |}
  end.

(* mustGenerateDerivedScryptKey: asks for 16 bytes (the callers then read [16:32] out of the
   capacity); an error from scrypt.Key panics *)
Definition mustGenerateDerivedScryptKey (P : prims) (password salt : bytes) (n p : Z) : res gslice :=
  match call_scrypt P password salt n defaultR p 16 with
  | Ok b => Ok b
  | Err _ => Panic
  | Panic => Panic
  end.

(* uuid.NewRandomFromReader: 16 bytes, version 4, variant 10; a short read panics (uuid.Must) *)
Definition set_byte (i : nat) (f : N -> N) (u : bytes) : bytes :=
  firstn i u ++ match nth_error u i with Some b => [n2b (f (b2n b))] | None => [] end ++ skipn (S i) u.
Definition new_uuid (rnd : bytes) : res (bytes * bytes) :=
  do (raw, rest) <- mustReadBytes 16 rnd;
  Ok (set_byte 8 (fun b => N.lor (N.land b 63) 128) (set_byte 6 (fun b => N.lor (N.land b 15) 64) raw), rest).

(* newScryptWalletFileBytes; returns the wallet and the unread rest of the random stream *)
Definition newScryptWalletFileBytes (P : prims) (password privateKey : bytes) (n p : Z) (rnd : bytes)
  : res (wallet * bytes) :=
  do (salt, rnd1) <- mustReadBytes 32 rnd;
  do derivedKey <- mustGenerateDerivedScryptKey P password salt n p;
  do (iv, rnd2) <- mustReadBytes 16 rnd1;
  do encryptKey <- reslice derivedKey 0 16;
  do cipherText <- mustAES128CtrEncrypt P (gs_data encryptKey) iv privateKey;
  do macKey <- reslice derivedKey 16 32;
  let mac := generateMac P (gs_data macKey) cipherText in
  do (id, rnd3) <- new_uuid rnd2;
  Ok ({| w_core := {| cf_id := Some id; cf_version := version3 |};
         w_metadata := [];
         w_crypto := {| cc_cipher := cipherAES128ctr; cc_ciphertext := cipherText; cc_iv := iv;
                        cc_kdf := kdfTypeScrypt; cc_mac := mac |};
         w_kdfparams := KScrypt {| sp_dklen := 32; sp_n := n; sp_p := p; sp_r := defaultR; sp_salt := salt |};
         w_private := privateKey |}, rnd3).

(* wf.Metadata()[k] = v *)
Definition set_metadata (w : wallet) (k : bytes) (v : json) : wallet :=
  {| w_core := w_core w; w_metadata := mset k v (w_metadata w); w_crypto := w_crypto w;
     w_kdfparams := w_kdfparams w; w_private := w_private w |}.

(* secp256k1.KeyPair as far as this package uses it: PrivateKeyBytes() and Address *)
Record keypair := { kp_private : bytes; kp_address : bytes }.

(* newScryptWalletFileSecp256k1 *)
Definition newScryptWalletFileSecp256k1 (P : prims) (password : bytes) (kp : keypair) (n p : Z) (rnd : bytes)
  : res (wallet * bytes) :=
  do (wf, rest) <- newScryptWalletFileBytes P password (kp_private kp) n p rnd;
  Ok (set_metadata wf (ascii_bytes "address") (JStr (hex_encode (kp_address kp))), rest).

(* ================= pbkdf2.go ================= *)

(* (w *walletFilePbkdf2) decrypt *)
Definition pbkdf2_decrypt (P : prims) (c : crypto_common) (kp : pbkdf2_params) (password : bytes) : res bytes :=
  if negb (bytes_eqb (pp_prf kp) prfHmacSHA256) then Err EPrf
  else if negb (pp_dklen kp =? derivedKeyLen)%Z then Err EDkLen
  else if (pp_c kp <=? 0)%Z then Err EPbkdf2C
  else
    do dk <- call_pbkdf2 P password (pp_salt kp) (pp_c kp) (pp_dklen kp);
    decryptCommon P c dk.

Definition readPbkdf2WalletFile (P : prims) (t : json) (password : bytes) (metadata : option jmap) : res wallet :=
  match t with
  | JNull => Panic
  | _ =>
      do (cf, ck) <- unmarshal_wallet P (step_crypto_with step_pbkdf2_params) (zero_cc, zero_pp) t;
      do key <- pbkdf2_decrypt P (fst ck) (snd ck) password;
      Ok {| w_core := cf; w_metadata := match metadata with Some m => m | None => [] end;
            w_crypto := fst ck; w_kdfparams := KPbkdf2 (snd ck); w_private := key |}
  end.

(* ================= wallet.go: the public functions ================= *)

Definition NewWalletFileLight (P : prims) (password : bytes) (kp : keypair) (rnd : bytes) :=
  newScryptWalletFileSecp256k1 P password kp nLight pDefault rnd.
Definition NewWalletFileStandard (P : prims) (password : bytes) (kp : keypair) (rnd : bytes) :=
  newScryptWalletFileSecp256k1 P password kp nStandard pDefault rnd.
(* sic: both custom-bytes variants use nStandard *)
Definition NewWalletFileCustomBytesLight (P : prims) (password privateKey : bytes) (rnd : bytes) :=
  newScryptWalletFileBytes P password privateKey nStandard pDefault rnd.
Definition NewWalletFileCustomBytesStandard (P : prims) (password privateKey : bytes) (rnd : bytes) :=
  newScryptWalletFileBytes P password privateKey nStandard pDefault rnd.

(* ReadWalletFile after the lexer *)
Definition read_wallet_tree (P : prims) (t : json) (password : bytes) : res wallet :=
  do (cf, cc) <- unmarshal_wallet P step_crypto_only zero_cc t;
  do metadata <- unmarshal_metadata P t;
  match cf_id cf with
  | None => Err EMissingID
  | Some _ =>
      if negb (cf_version cf =? version3)%Z then Err EVersion
      else if bytes_eqb (cc_kdf cc) kdfTypeScrypt then readScryptWalletFile P t password metadata
      else if bytes_eqb (cc_kdf cc) kdfTypePbkdf2 then readPbkdf2WalletFile P t password metadata
      else Err EKdf
  end.

Definition ReadWalletFile (P : prims) (jsonWallet password : bytes) : res wallet :=
  match json_parse P jsonWallet with
  | None => Err EJson
  | Some t => read_wallet_tree P t password
  end.

(* ================= walletfile.go: accessors and marshalling ================= *)

Definition PrivateKey (w : wallet) : bytes := w_private w.
Definition GetID (w : wallet) : option bytes := cf_id (w_core w).
Definition GetVersion (w : wallet) : Z := cf_version (w_core w).
Definition Metadata (w : wallet) : jmap := w_metadata w.

(* KeyPair().Address: secp256k1.KeyPairFromBytes -> last 20 bytes of Keccak(public key) *)
Definition address_of_key (P : prims) (key : bytes) : bytes := skipn 12 (hash P (pubkey P key)).
Definition KeyPair (P : prims) (w : wallet) : keypair :=
  {| kp_private := w_private w; kp_address := address_of_key P (w_private w) |}.

Definition jkey (s : string) : bytes := ascii_bytes s.
Definition jhex (b : bytes) : json := JStr (hex_encode b).
Definition jint (z : Z) : json := JNum (print_Z z).

(* json.Marshal(w.Crypto) *)
Definition crypto_common_members (c : crypto_common) : list (bytes * json) :=
  [ (jkey "cipher", JStr (cc_cipher c));
    (jkey "ciphertext", jhex (cc_ciphertext c));
    (jkey "cipherparams", JObj [(jkey "iv", jhex (cc_iv c))]);
    (jkey "kdf", JStr (cc_kdf c));
    (jkey "mac", jhex (cc_mac c)) ].
Definition kdfparams_json (k : kdf_params) : json :=
  match k with
  | KScrypt s => JObj [ (jkey "dklen", jint (sp_dklen s)); (jkey "n", jint (sp_n s)); (jkey "p", jint (sp_p s));
                        (jkey "r", jint (sp_r s)); (jkey "salt", jhex (sp_salt s)) ]
  | KPbkdf2 p => JObj [ (jkey "dklen", jint (pp_dklen p)); (jkey "c", jint (pp_c p)); (jkey "prf", JStr (pp_prf p));
                        (jkey "salt", jhex (pp_salt p)) ]
  end.
Definition crypto_json (w : wallet) : json :=
  JObj (crypto_common_members (w_crypto w) ++ [(jkey "kdfparams", kdfparams_json (w_kdfparams w))]).

(* marshalWalletJSON: metadata entries whose value is nil are dropped; id, version, crypto are set last
   and cannot be overridden; json.Marshal of the map sorts the keys *)
Fixpoint drop_nil (m : jmap) : jmap :=
  match m with
  | [] => []
  | (k, v) :: t => match v with JNull => drop_nil t | _ => (k, v) :: drop_nil t end
  end.
Definition marshalWalletJSON (w : wallet) : json :=
  let jsonMap := drop_nil (w_metadata w) in
  let jsonMap := mset (jkey "id") (match cf_id (w_core w) with Some u => JStr (uuid_string u) | None => JNull end) jsonMap in
  let jsonMap := mset (jkey "version") (jint (cf_version (w_core w))) jsonMap in
  let jsonMap := mset (jkey "crypto") (crypto_json w) jsonMap in
  JObj jsonMap.

(* JSON(): the document as a tree, and as the bytes json.Marshal prints *)
Definition JSON_tree (w : wallet) : json := marshalWalletJSON w.
Definition JSON (P : prims) (w : wallet) : bytes := json_print P (marshalWalletJSON w).
