(* A concrete (cryptographically worthless) instance of [prims] that satisfies [crypto_laws]: it shows
   that the hypotheses of the C07 theorems can be met, and lets the non-vacuity examples run the model
   and the specification end to end inside Coq. *)
From Coq Require Import String.
From Coq Require Import List NArith ZArith Lia Bool Arith.
From Coq Require Import ZifyN ZifyNat ZifyBool.
From Coq Require Import Init.Byte.
From FFS Require Import Base.Res Base.Bytes Keystore.Json Keystore.Prims.
Import ListNotations.

(* the first n bytes of  seed, 01, seed, 01, ... *)
Fixpoint gen_go (seed cur : bytes) (n : nat) : bytes :=
  match n with
  | O => []
  | S n' => match cur with
            | [] => x01 :: gen_go seed seed n'
            | c :: cur' => c :: gen_go seed cur' n'
            end
  end.
Definition gen (seed : bytes) (n : nat) : bytes := gen_go seed seed n.

Lemma gen_go_length seed cur n : length (gen_go seed cur n) = n.
Proof. revert cur; induction n as [|n IH]; intros cur; [reflexivity|]. destruct cur; simpl; rewrite IH; reflexivity. Qed.

Lemma gen_go_prefix seed cur m n : (m <= n)%nat -> firstn m (gen_go seed cur n) = gen_go seed cur m.
Proof.
  revert cur n; induction m as [|m IH]; intros cur n H; [reflexivity|].
  destruct n as [|n]; [lia|]. destruct cur; simpl; rewrite IH by lia; reflexivity.
Qed.

Definition flip (b : byte) : byte := n2b (255 - b2n b).
Lemma flip_flip b : flip (flip b) = b.
Proof.
  unfold flip. pose proof (b2n_lt b). rewrite b2n_n2b by lia.
  replace (255 - (255 - b2n b))%N with (b2n b) by lia. apply n2b_b2n.
Qed.

Definition toy_uuid_parse (s : bytes) : option bytes :=
  if uuid_text_ok s then
    match hex_decode (filter (fun c => negb (b2n c =? 45)%N) s) with Some u => Some u | None => Some (gen s 16) end
  else None.

Definition toy : prims := {|
  scrypt := fun pw salt N r p dk => gen (pw ++ salt ++ [n2b (Z.to_N (N mod 251))]) (Z.to_nat dk);
  scrypt_cap := fun pw salt N r p dk => gen (pw ++ salt ++ [n2b (Z.to_N (N mod 251))]) (Z.to_nat (round_up_32 dk));
  pbkdf2 := fun pw salt c dk => gen (salt ++ pw ++ [n2b (Z.to_N (c mod 251))]) (Z.to_nat dk);
  aes_ctr := fun k iv x => map flip x;
  hash := fun x => gen x 32;
  pubkey := fun k => gen k 64;
  json_parse := fun _ => None;
  json_print := fun _ => [];
  json_num := fun l => Some l;
  uuid_parse := toy_uuid_parse
|}.

Lemma toy_crypto_laws : crypto_laws toy.
Proof.
  constructor; cbn [toy scrypt scrypt_cap pbkdf2 aes_ctr]; intros.
  - apply gen_go_length.
  - reflexivity.
  - unfold gen. apply gen_go_prefix.
    unfold scrypt_pre, scrypt_dom in H. apply andb_prop in H as [H _]. apply andb_prop in H as [_ H].
    apply Z.leb_le in H. unfold round_up_32.
    pose proof (Z.mul_div_le (dklen + 31) 32). pose proof (Z.mod_pos_bound (dklen + 31) 32).
    pose proof (Z.div_mod (dklen + 31) 32). lia.
  - apply gen_go_length.
  - rewrite map_map. rewrite <- (map_id x) at 2. apply map_ext. apply flip_flip.
Qed.

Lemma toy_uuid_accepts_text : uuid_accepts_text toy.
Proof.
  intros s H. cbn [toy uuid_parse]. unfold toy_uuid_parse. rewrite H.
  destruct (hex_decode (filter (fun c => negb (b2n c =? 45)%N) s)); discriminate.
Qed.

(* ---------- with a verified printer / parser: every law C07_roundtrip asks for ---------- *)
From FFS Require Import Keystore.JsonFacts Keystore.Codec.

Definition toy_codec : prims := {|
  scrypt := scrypt toy; scrypt_cap := scrypt_cap toy; pbkdf2 := pbkdf2 toy; aes_ctr := aes_ctr toy;
  hash := hash toy; pubkey := pubkey toy;
  json_parse := Codec.parse; json_print := Codec.print;
  json_num := fun l => Some l;
  uuid_parse := toy_uuid_parse
|}.

Lemma toy_codec_crypto_laws : crypto_laws toy_codec.
Proof. destruct toy_crypto_laws as [A B C D E]. constructor; assumption. Qed.

Lemma hex_digit_not_dash (n : N) : (n < 16)%N -> (b2n (hex_digit n) =? 45)%N = false.
Proof.
  intros H. apply N.eqb_neq. rewrite <- (N2Nat.id n). rewrite b2n_hex_digit_nat by lia.
  destruct (N.of_nat (N.to_nat n) <? 10)%N eqn:E; lia.
Qed.

Definition nondash (c : byte) : bool := negb (b2n c =? 45)%N.

Lemma hex_encode_nondash b : Forall (fun c => nondash c = true) (hex_encode b).
Proof.
  induction b as [|x b IH]; [constructor|]. unfold hex_encode in *. cbn [flat_map app].
  constructor; [unfold nondash; rewrite hex_digit_not_dash by apply hi_lt; reflexivity|].
  constructor; [unfold nondash; rewrite hex_digit_not_dash by apply lo_lt; reflexivity|]. exact IH.
Qed.

Lemma filter_all {A} (p : A -> bool) l : Forall (fun c => p c = true) l -> filter p l = l.
Proof. induction 1 as [|x l Hx Hl IH]; [reflexivity|]. cbn [filter]. rewrite Hx, IH. reflexivity. Qed.

Lemma Forall_firstn {A} (Q : A -> Prop) n l : Forall Q l -> Forall Q (firstn n l).
Proof. intros H. rewrite <- (firstn_skipn n l) in H. apply Forall_app in H. tauto. Qed.
Lemma Forall_skipn {A} (Q : A -> Prop) n l : Forall Q l -> Forall Q (skipn n l).
Proof. intros H. rewrite <- (firstn_skipn n l) in H. apply Forall_app in H. tauto. Qed.

Lemma uuid_pieces {A} (h : list A) :
  firstn 8 h ++ firstn 4 (skipn 8 h) ++ firstn 4 (skipn 12 h) ++ firstn 4 (skipn 16 h) ++ skipn 20 h = h.
Proof.
  change 20%nat with (16 + 4)%nat. rewrite <- (skipn_skipn' 4 16 h), firstn_skipn.
  change 16%nat with (12 + 4)%nat. rewrite <- (skipn_skipn' 4 12 h), firstn_skipn.
  change 12%nat with (8 + 4)%nat. rewrite <- (skipn_skipn' 4 8 h), firstn_skipn.
  apply firstn_skipn.
Qed.

Lemma toy_uuid_roundtrip u : length u = 16%nat -> toy_uuid_parse (uuid_string u) = Some u.
Proof.
  intros Lu. unfold toy_uuid_parse. rewrite (uuid_string_ok u Lu).
  assert (F : filter nondash (uuid_string u) = hex_encode u).
  { unfold uuid_string. pose proof (hex_encode_nondash u) as H.
    rewrite !filter_app.
    change (filter nondash [x2d]) with (@nil byte). cbn [app].
    repeat rewrite filter_all by (repeat (apply Forall_firstn || apply Forall_skipn); exact H).
    apply uuid_pieces. }
  change (fun c : byte => negb (b2n c =? 45)%N) with nondash. rewrite F, hex_decode_encode. reflexivity.
Qed.

Lemma toy_codec_laws :
  (forall t, json_text_ok t = true -> json_parse toy_codec (json_print toy_codec t) = Some t) /\
  (forall u, length u = 16%nat -> uuid_parse toy_codec (uuid_string u) = Some u) /\
  (forall z, json_num toy_codec (print_Z z) <> None).
Proof.
  split; [|split].
  - intros t _. apply Codec.parse_print.
  - exact toy_uuid_roundtrip.
  - intros z. discriminate.
Qed.
