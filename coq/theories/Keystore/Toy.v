(* A concrete (cryptographically worthless) instance of [prims] that satisfies [crypto_laws]: it shows
   that the hypotheses of the C07 theorems can be met, and lets the non-vacuity examples run the model
   and the specification end to end inside Coq. *)
From Coq Require Import String.
From Coq Require Import List NArith ZArith Lia Bool Arith.
From Coq Require Import ZifyN ZifyNat ZifyBool.
From Coq Require Import Init.Byte.
From FFS Require Import Base.Res Base.Bytes Keystore.Json Keystore.Prims.
Import ListNotations.

(* the first n bytes of  seed, 01, seed, 01, ... *)
Fixpoint gen_go (seed cur : bytes) (n : nat) : bytes :=
  match n with
  | O => []
  | S n' => match cur with
            | [] => x01 :: gen_go seed seed n'
            | c :: cur' => c :: gen_go seed cur' n'
            end
  end.
Definition gen (seed : bytes) (n : nat) : bytes := gen_go seed seed n.

Lemma gen_go_length seed cur n : length (gen_go seed cur n) = n.
Proof. revert cur; induction n as [|n IH]; intros cur; [reflexivity|]. destruct cur; simpl; rewrite IH; reflexivity. Qed.

Lemma gen_go_prefix seed cur m n : (m <= n)%nat -> firstn m (gen_go seed cur n) = gen_go seed cur m.
Proof.
  revert cur n; induction m as [|m IH]; intros cur n H; [reflexivity|].
  destruct n as [|n]; [lia|]. destruct cur; simpl; rewrite IH by lia; reflexivity.
Qed.

Definition flip (b : byte) : byte := n2b (255 - b2n b).
Lemma flip_flip b : flip (flip b) = b.
Proof.
  unfold flip. pose proof (b2n_lt b). rewrite b2n_n2b by lia.
  replace (255 - (255 - b2n b))%N with (b2n b) by lia. apply n2b_b2n.
Qed.

Definition toy_uuid_parse (s : bytes) : option bytes :=
  if uuid_text_ok s then hex_decode (filter (fun c => negb (b2n c =? 45)%N) s) else None.

Definition toy : prims := {|
  scrypt := fun pw salt N r p dk => gen (pw ++ salt ++ [n2b (Z.to_N (N mod 251))]) (Z.to_nat dk);
  scrypt_cap := fun pw salt N r p dk => gen (pw ++ salt ++ [n2b (Z.to_N (N mod 251))]) (Z.to_nat (round_up_32 dk));
  pbkdf2 := fun pw salt c dk => gen (salt ++ pw ++ [n2b (Z.to_N (c mod 251))]) (Z.to_nat dk);
  aes_ctr := fun k iv x => map flip x;
  hash := fun x => gen x 32;
  pubkey := fun k => gen k 64;
  json_parse := fun _ => None;
  json_print := fun _ => [];
  json_num := fun l => Some l;
  uuid_parse := toy_uuid_parse
|}.

Lemma toy_crypto_laws : crypto_laws toy.
Proof.
  constructor; cbn [toy scrypt scrypt_cap pbkdf2 aes_ctr]; intros.
  - apply gen_go_length.
  - reflexivity.
  - unfold gen. apply gen_go_prefix.
    unfold scrypt_pre, scrypt_dom in H. apply andb_prop in H as [H _]. apply andb_prop in H as [_ H].
    apply Z.leb_le in H. unfold round_up_32.
    pose proof (Z.mul_div_le (dklen + 31) 32). pose proof (Z.mod_pos_bound (dklen + 31) 32).
    pose proof (Z.div_mod (dklen + 31) 32). lia.
  - apply gen_go_length.
  - rewrite map_map. rewrite <- (map_id x) at 2. apply map_ext. apply flip_flip.
Qed.
