(* C07, round trip: the bytes JSON() prints for a newly created wallet (after any Metadata()
   assignments) are read back by ReadWalletFile with the same password to the same key, address and id,
   and every non-nil extra metadata entry is returned. *)
From Coq Require Import String.
From Coq Require Import List NArith ZArith Lia Bool Arith.
From Coq Require Import Init.Byte.
From FFS Require Import Base.Res Base.Bytes Keystore.Json Keystore.JsonFacts Keystore.Prims Keystore.Model Keystore.Spec.
From FFS Require Import Keystore.ProofsFresh Keystore.ProofsMac Keystore.ProofsNew Keystore.ProofsRead.
Import ListNotations.
Local Open Scope string_scope.
Local Open Scope list_scope.

Ltac smp := cbn [bind negb orb andb fst snd].

(* ---------- drop_nil ---------- *)
Lemma In_drop_nil e m : In e (drop_nil m) -> In e m.
Proof.
  induction m as [|[k v] m IH]; cbn [drop_nil]; [tauto|].
  destruct v; cbn [In]; intuition.
Qed.
Lemma In_drop_nil_keep k v m : In (k, v) m -> v <> JNull -> In (k, v) (drop_nil m).
Proof.
  intros I N. induction m as [|[k0 v0] m IH]; [destruct I|]. cbn [drop_nil].
  destruct I as [E|I].
  - injection E as -> ->. destruct v; try congruence; left; reflexivity.
  - destruct v0; try (right; apply IH; exact I). apply IH; exact I.
Qed.
Lemma filter_drop_nil_length k m : (length (filter (has_key k) (drop_nil m)) <= length (filter (has_key k) m))%nat.
Proof.
  induction m as [|[k0 v0] m IH]; [reflexivity|]. cbn [drop_nil].
  destruct v0; cbn [filter]; destruct (has_key k (k0, _)); cbn [length]; lia.
Qed.
Lemma uniq_drop_nil m : uniq m -> uniq (drop_nil m).
Proof. intros U k. pose proof (filter_drop_nil_length k m). specialize (U k). lia. Qed.

(* ---------- decoding an object into a map ---------- *)
Fixpoint dec_go (P : prims) (ms : list (bytes * json)) (acc : jmap) : res jmap :=
  match ms with
  | [] => Ok acc
  | (k, x) :: t => do x' <- dec_iface P x; dec_go P t (mset k x' acc)
  end.

Lemma dec_iface_obj P ms : dec_iface P (JObj ms) = (do m <- dec_go P ms []; Ok (JObj m)).
Proof.
  cbn [dec_iface]. f_equal. generalize (@nil (bytes * json)) as acc.
  induction ms as [|[k x] t IH]; intros acc; [reflexivity|]. cbn [dec_go]. destruct (dec_iface P x); smp; auto.
Qed.

Lemma dec_go_total P ms :
  Forall (fun m => exists x', dec_iface P (snd m) = Ok x') ms -> forall acc, exists m, dec_go P ms acc = Ok m.
Proof.
  induction 1 as [|[k x] t [x' Hx] Ht IH]; intros acc; cbn [dec_go]; [eexists; reflexivity|].
  cbn [snd] in Hx. rewrite Hx. smp. apply IH.
Qed.

Lemma dec_go_keep P ms k : filter (has_key k) ms = [] ->
  forall acc m, dec_go P ms acc = Ok m -> mget k m = mget k acc.
Proof.
  induction ms as [|[k0 x] t IH]; intros F acc m; cbn [dec_go].
  - intros H; injection H as <-. reflexivity.
  - cbn [filter] in F. destruct (has_key k (k0, x)) eqn:Hk; [discriminate|].
    destruct (dec_iface P x) as [x'| |]; smp; try discriminate. intros H.
    rewrite (IH F _ _ H). apply mget_mset_other. intros ->. rewrite has_key_self in Hk. discriminate.
Qed.

Lemma dec_go_get P ms k v v' : filter (has_key k) ms = [(k, v)] -> dec_iface P v = Ok v' ->
  forall acc m, dec_go P ms acc = Ok m -> mget k m = Some v'.
Proof.
  induction ms as [|[k0 x] t IH]; intros F D acc m; cbn [dec_go]; [discriminate|].
  cbn [filter] in F. destruct (has_key k (k0, x)) eqn:Hk.
  - injection F as -> -> F. rewrite D. smp. intros H. rewrite (dec_go_keep P t k F _ _ H). apply mget_mset_same.
  - destruct (dec_iface P x) as [x'| |]; smp; try discriminate. apply IH; assumption.
Qed.

(* ---------- the guards on Metadata() assignments ---------- *)
(* the key is not a case variant of a core field; key and value are text json.Marshal prints faithfully;
   the value is what it decodes to as interface{} (numbers are printed float64s, objects are maps) *)
Definition extra_ok (P : prims) (e : bytes * json) : Prop :=
  forallb (fun f => implb (is_field (fst e) f) (bytes_eqb (fst e) (ascii_bytes f))) top_fields = true /\
  utf8_valid (fst e) = true /\ json_text_ok (snd e) = true /\ dec_iface P (snd e) = Ok (snd e).

Definition md_ok (P : prims) (md : jmap) : Prop := uniq md /\ Forall (extra_ok P) md.

Lemma md_ok_mset P k v md : extra_ok P (k, v) -> md_ok P md -> md_ok P (mset k v md).
Proof.
  intros E [U F]. split; [apply uniq_mset; exact U|].
  apply Forall_forall. intros e I. apply In_mset in I as [->|I]; [exact E|].
  rewrite Forall_forall in F. apply F. exact I.
Qed.

Lemma md_ok_assign_all P w extras : md_ok P (w_metadata w) -> Forall (extra_ok P) extras ->
  md_ok P (w_metadata (assign_all w extras)).
Proof.
  unfold assign_all. revert w. induction extras as [|[k v] t IH]; intros w M F; cbn [fold_left]; [exact M|].
  inversion F as [|? ? Fe Ft]; subst. apply IH; [|exact Ft].
  unfold assign, set_metadata. cbn [w_metadata fst snd]. apply md_ok_mset; assumption.
Qed.

Definition protected_key (k : bytes) : bool :=
  bytes_eqb k (jkey "id") || bytes_eqb k (jkey "version") || bytes_eqb k (jkey "crypto").

Section Round.
Variable P : prims.
Hypothesis L : crypto_laws P.
(* encoding/json: what Marshal prints, the lexer reads back *)
Hypothesis LJ : forall t, json_text_ok t = true -> json_parse P (json_print P t) = Some t.
(* google/uuid: String and UnmarshalText are inverse *)
Hypothesis LU : forall u, length u = 16%nat -> uuid_parse P (uuid_string u) = Some u.
(* an integer literal converts to a float64 *)
Hypothesis LN : forall z, json_num P (print_Z z) <> None.

Section Doc.
Variables (pw key salt iv id : bytes) (n p : Z) (md : jmap).
Hypothesis Lid : length id = 16%nat.
Hypothesis Tn : num_ok (print_Z n) = true.
Hypothesis Tp : num_ok (print_Z p) = true.
Hypothesis Md : md_ok P md.

Let w0 := created_wallet P pw key n p salt iv id.
Let w' := {| w_core := w_core w0; w_metadata := md; w_crypto := w_crypto w0; w_kdfparams := w_kdfparams w0;
             w_private := w_private w0 |}.
Let doc := marshalWalletJSON w'.
Let top0 := drop_nil md.
Let vid := JStr (uuid_string id).
Let vver := jint version3.
Let vcj := crypto_json w'.
Let top := mset (jkey "crypto") vcj (mset (jkey "version") vver (mset (jkey "id") vid top0)).

Lemma doc_is_top : doc = JObj top.
Proof. reflexivity. Qed.

Lemma top0_members e : In e top0 -> extra_ok P e.
Proof. intros I. apply In_drop_nil in I. destruct Md as [_ F]. rewrite Forall_forall in F. apply F; exact I. Qed.

Lemma forallb_top (q : bytes * json -> bool) :
  q (jkey "crypto", vcj) = true -> q (jkey "version", vver) = true -> q (jkey "id", vid) = true ->
  (forall e, In e top0 -> q e = true) -> forallb q top = true.
Proof.
  intros A B C D. unfold top. repeat apply forallb_mset; auto. apply forallb_forall. exact D.
Qed.

Lemma hex_utf8 b : utf8_valid (hex_encode b) = true.
Proof. apply ascii_utf8, hex_encode_ascii. Qed.

Lemma doc_text_ok : json_text_ok doc = true.
Proof.
  rewrite doc_is_top, json_text_ok_obj. apply forallb_top.
  - cbn [fst snd]. change (utf8_valid (jkey "crypto")) with true. cbn [andb].
    unfold vcj, crypto_json, crypto_common_members, kdfparams_json, w', w0, created_wallet, jhex, jint.
    cbn [w_crypto w_kdfparams cc_cipher cc_ciphertext cc_iv cc_kdf cc_mac sp_dklen sp_n sp_p sp_r sp_salt app].
    cbn [json_text_ok]. rewrite !hex_utf8, Tn, Tp. reflexivity.
  - reflexivity.
  - cbn [fst snd]. unfold vid. cbn [json_text_ok]. rewrite (ascii_utf8 _ (uuid_string_ascii id)). reflexivity.
  - intros e I. destruct (top0_members e I) as [_ [A [B _]]]. rewrite A, B. reflexivity.
Qed.

Lemma doc_unambiguous : unambiguous doc = true.
Proof.
  rewrite doc_is_top. unfold unambiguous.
  assert (Fc : obj_field "crypto" top = Some (crypto_common_members (w_crypto w') ++ [(jkey "kdfparams", kdfparams_json (w_kdfparams w'))])).
  { unfold obj_field, top. rewrite (field_mset_same "crypto"). reflexivity. }
  rewrite Fc. apply andb_true_intro. split.
  - unfold exact_names. apply forallb_top; try reflexivity.
    intros e I. destruct (top0_members e I) as [A _]. exact A.
  - reflexivity.
Qed.

(* the allocation cap of scrypt.Key on the written document: n as given, r = defaultR *)
Lemma doc_alloc : int_ok n -> ProofsRead.doc_alloc_ok doc = scrypt_alloc_ok n defaultR.
Proof.
  intros In. rewrite doc_is_top. unfold Keystore.ReadTypes.doc_alloc_ok.
  assert (Fc : obj_field "crypto" top = Some (crypto_common_members (w_crypto w') ++ [(jkey "kdfparams", kdfparams_json (w_kdfparams w'))])).
  { unfold obj_field, top. rewrite (field_mset_same "crypto"). reflexivity. }
  rewrite Fc. unfold w', w0, created_wallet, crypto_common_members, kdfparams_json, obj_field, int_field.
  cbn [w_crypto w_kdfparams cc_cipher cc_ciphertext cc_iv cc_kdf cc_mac sp_dklen sp_n sp_p sp_r sp_salt app].
  match goal with |- context [field "kdfparams" ?l] =>
    change (field "kdfparams" l) with (Some (JObj [ (jkey "dklen", jint 32); (jkey "n", jint n); (jkey "p", jint p);
                        (jkey "r", jint defaultR); (jkey "salt", jhex salt) ])) end.
  cbv beta iota.
  change (field "n" _) with (Some (jint n)).
  change (field "r" _) with (Some (jint defaultR)).
  unfold jint. cbv beta iota. rewrite In. change (parse_int64 (print_Z defaultR)) with (Some defaultR).
  reflexivity.
Qed.

Lemma doc_id : v3_id doc = Some (uuid_string id).
Proof.
  rewrite doc_is_top. unfold v3_id, str_field, top.
  rewrite (field_mset_other "id" (jkey "crypto")) by (vm_compute; discriminate).
  rewrite (field_mset_other "id" (jkey "version")) by (vm_compute; discriminate).
  rewrite (field_mset_same "id"). reflexivity.
Qed.

Lemma uniq_top : uniq top.
Proof. unfold top. repeat apply uniq_mset. apply uniq_drop_nil. apply Md. Qed.

Lemma num_some z : exists l, json_num P (print_Z z) = Some l.
Proof. destruct (json_num P (print_Z z)) as [l|] eqn:E; [eexists; reflexivity|]. exfalso. exact (LN z E). Qed.

Lemma doc_metadata :
  exists mdr, unmarshal_metadata P doc = Ok (Some mdr) /\
    forall k v, In (k, v) md -> v <> JNull -> protected_key k = false -> mget k mdr = Some v.
Proof.
  rewrite doc_is_top.
  assert (Dec : Forall (fun m => exists x', dec_iface P (snd m) = Ok x') top).
  { apply Forall_forall. intros e I. unfold top in I.
    apply In_mset in I as [->|I]; [|apply In_mset in I as [->|I]; [|apply In_mset in I as [->|I]]]; cbn [snd].
    - assert (Nk : nums_ok P vcj = true); [|destruct (dec_iface_total P vcj Nk) as [j' [Ej _]]; eexists; exact Ej].
      unfold vcj, crypto_json, crypto_common_members, kdfparams_json, w', w0, created_wallet, jhex, jint.
      cbn [w_crypto w_kdfparams cc_cipher cc_ciphertext cc_iv cc_kdf cc_mac sp_dklen sp_n sp_p sp_r sp_salt app].
      cbn [nums_ok forallb snd].
      destruct (num_some 32) as [? ->]. destruct (num_some n) as [? ->]. destruct (num_some p) as [? ->].
      destruct (num_some defaultR) as [? ->]. reflexivity.
    - unfold vver, jint. cbn [dec_iface]. destruct (num_some version3) as [l ->]. eexists; reflexivity.
    - eexists; reflexivity.
    - destruct (top0_members e I) as [_ [_ [_ D]]]. eexists; exact D. }
  destruct (dec_go_total P top Dec []) as [mdr G].
  exists mdr. split.
  - unfold unmarshal_metadata. rewrite dec_iface_obj, G. reflexivity.
  - intros k v I Nn Pk. unfold protected_key in Pk.
    apply orb_false_iff in Pk as [Pk Pc]. apply orb_false_iff in Pk as [Pi Pv].
    assert (I0 : In (k, v) top0) by (apply In_drop_nil_keep; assumption).
    assert (It : In (k, v) top).
    { unfold top. repeat apply In_mset_other; auto; intros ->; rewrite bytes_eqb_refl in *; discriminate. }
    destruct (top0_members _ I0) as [_ [_ [_ D]]]. cbn [snd] in D.
    exact (dec_go_get P top k v v (uniq_filter k v top uniq_top It) D [] mdr G).
Qed.
End Doc.

Lemma address_entry_ok a : extra_ok P (ascii_bytes "address", JStr (hex_encode a)).
Proof.
  unfold extra_ok. cbn [fst snd]. split; [reflexivity|]. split; [reflexivity|]. split; [|reflexivity].
  cbn [json_text_ok]. apply ascii_utf8, hex_encode_ascii.
Qed.

Lemma create_metadata_ok c rnd w rest : create P c rnd = Ok (w, rest) -> md_ok P (w_metadata w).
Proof.
  assert (E0 : md_ok P []) by (split; [apply uniq_nil|constructor]).
  destruct c as [pw kp|pw kp|pw key|pw key]; cbn [create];
    unfold NewWalletFileLight, NewWalletFileStandard, NewWalletFileCustomBytesLight, NewWalletFileCustomBytesStandard,
           newScryptWalletFileSecp256k1.
  1,2: destruct (newScryptWalletFileBytes P pw (kp_private kp) _ pDefault rnd) as [[wf r]| |] eqn:E; smp; try discriminate;
       intros H; injection H as <- <-; apply (new_bytes_shape P L) in E as [salt [iv [id [-> _]]]];
       unfold set_metadata; cbn [w_metadata created_wallet]; apply md_ok_mset; [apply address_entry_ok|exact E0].
  1,2: intros E; apply (new_bytes_shape P L) in E as [salt [iv [id [-> _]]]]; exact E0.
Qed.

Theorem roundtrip c rnd w rest extras :
  create P c rnd = Ok (w, rest) -> Forall (extra_ok P) extras ->
  let w' := assign_all w extras in
  exists wr, ReadWalletFile P (JSON P w') (pw_of c) = Ok wr /\
    PrivateKey wr = key_of c /\
    kp_address (KeyPair P wr) = address_of_key P (key_of c) /\
    GetID wr = GetID w' /\ GetID wr <> None /\
    forall k v, In (k, v) (Metadata w') -> v <> JNull -> protected_key k = false -> mget k (Metadata wr) = Some v.
Proof.
  intros C Fx w'.
  pose proof (create_metadata_ok _ _ _ _ C) as M0.
  pose proof (md_ok_assign_all P w extras M0 Fx) as M'. fold w' in M'.
  apply (create_shape P L) in C as [salt [iv [id [S [Pre [A [B D]]]]]]].
  assert (S' : same_but_metadata w' (created_wallet P (pw_of c) (key_of c) (n_of c) pDefault salt iv id)).
  { destruct (assign_all_same w extras) as [E1 [E2 [E3 E4]]]. destruct S as [F1 [F2 [F3 F4]]].
    subst w'. repeat split; congruence. }
  pose proof (same_but_metadata_eta _ _ S') as Eta.
  assert (Tn : num_ok (print_Z (n_of c)) = true) by (destruct c; reflexivity).
  assert (Tp : num_ok (print_Z pDefault) = true) by reflexivity.
  set (md := w_metadata w') in *.
  pose proof (doc_text_ok (pw_of c) (key_of c) salt iv id (n_of c) pDefault md Tn Tp M') as Tx.
  pose proof (doc_unambiguous (pw_of c) (key_of c) salt iv id (n_of c) pDefault md M') as Un.
  pose proof (doc_id (pw_of c) (key_of c) salt iv id (n_of c) pDefault md) as Vid.
  destruct (doc_metadata (pw_of c) (key_of c) salt iv id (n_of c) pDefault md M') as [mdr [Emd Hmd]].
  assert (Dspec : v3_decrypt P (marshalWalletJSON w') (pw_of c) = Ok (key_of c)).
  { rewrite Eta. apply (spec_on_created P L (pw_of c) (key_of c) (n_of c) pDefault salt iv id md); auto.
    - destruct c; reflexivity.
    - reflexivity. }
  unfold ReadWalletFile, JSON. rewrite Eta. rewrite (LJ _ Tx).
  rewrite Eta in Dspec.
  destruct (read_is_standard_core P L true _ (pw_of c) (key_of c) mdr Dspec Un) as [wr [R [K [Mw [id' [V' [G Gn]]]]]]].
  - intros i Vi. rewrite Vid in Vi. injection Vi as <-. rewrite (LU id D). discriminate.
  - exact Emd.
  - rewrite (doc_alloc (pw_of c) (key_of c) salt iv id (n_of c) pDefault md) by (destruct c; reflexivity).
    destruct c; reflexivity.
  - exists wr. split; [exact R|]. split; [exact K|]. split.
    + unfold KeyPair. cbn [kp_address]. unfold PrivateKey in K. rewrite K. reflexivity.
    + rewrite Vid in V'. injection V' as <-. rewrite (LU id D) in G.
      split; [|split; [exact Gn|]].
      * rewrite G. reflexivity.
      * intros k v I Nn Pk. rewrite Mw. apply Hmd; assumption.
Qed.
End Round.

(* Without the first guard of [extra_ok] the round trip fails: a metadata key "Version" is written next
   to "version", encoding/json matches it against the struct field too, and reading the file back is an
   error (known finding C07/metadata-casefold-core-field). *)
From FFS Require Import Keystore.Toy.
Lemma roundtrip_casefold_refuted :
  exists (P : prims) (c : creation) (rnd : bytes) (w : wallet) (rest : bytes) (extras : list (bytes * json)),
    crypto_laws P /\ create P c rnd = Ok (w, rest) /\
    Forall (fun e => utf8_valid (fst e) = true /\ json_text_ok (snd e) = true /\ dec_iface P (snd e) = Ok (snd e)) extras /\
    is_err (read_wallet_tree P (JSON_tree (assign_all w extras)) (pw_of c)) = true.
Proof.
  exists toy, (MkCustomLight (ascii_bytes "pw") (repeat x07 32)), (repeat x2a 64).
  eexists _, _, [(ascii_bytes "Version", JStr (ascii_bytes "x"))].
  split; [exact toy_crypto_laws|]. split; [vm_compute; reflexivity|].
  split; [repeat constructor|]. vm_compute. reflexivity.
Qed.
