(* C15, part 1: reading a key file never panics.  Every library call of the read path
   (Keystore/Model.v: call_scrypt, call_pbkdf2, call_ctr, the two slices of the derived key, the nil
   pointer of readXWalletFile) is shown to be reached only inside its precondition -- with ONE exception
   that the guards of the code do not exclude: the work area scrypt.Key allocates after its parameter
   test (make([]uint32, 32*N*r), panics in runtime.makeslice beyond 2^48 bytes).  The totality theorems
   therefore carry the decidable guard [cost_capped] (Keystore/ReadTypes.v), and [scrypt_decrypt_panic_iff] /
   [read_panic_beyond_cap] say that this is the only way to panic.  No law about the primitives is
   needed: the statements hold for every [prims] value. *)
From Coq Require Import String.
From Coq Require Import List NArith ZArith Lia Bool Arith.
From Coq Require Import Init.Byte.
From FFS Require Import Base.Res Base.Bytes Keystore.Json Keystore.Prims Keystore.Model Keystore.ReadTypes.
Import ListNotations.

(* ---------- generic facts about [res] ---------- *)
Lemma bind_np {A B} (r : res A) (f : A -> res B) :
  r <> Panic -> (forall a, f a <> Panic) -> bind r f <> Panic.
Proof. destruct r; simpl; intros H1 H2; auto; discriminate. Qed.

Lemma fold_members_np {S} (step : S -> bytes -> json -> res S) :
  (forall st k v, step st k v <> Panic) -> forall ms st, fold_members step ms st <> Panic.
Proof.
  intros H ms. induction ms as [|[k v] t IH]; intros st; simpl; [discriminate|].
  apply bind_np; auto.
Qed.

Lemma dec_object_np {S} (step : S -> bytes -> json -> res S) cur v :
  (forall st k v, step st k v <> Panic) -> dec_object step cur v <> Panic.
Proof. intros H. destruct v; simpl; try discriminate. apply fold_members_np; exact H. Qed.

(* ---------- the field decoders are total ---------- *)
Lemma dec_string_np cur v : dec_string cur v <> Panic.
Proof. destruct v; simpl; discriminate. Qed.
Lemma dec_int_np cur v : dec_int cur v <> Panic.
Proof. destruct v; simpl; try discriminate. destruct (parse_int64 lit); discriminate. Qed.
Lemma dec_hex_np cur v : dec_hex cur v <> Panic.
Proof. destruct v; simpl; try discriminate. destruct (hex_decode (trim0x s)); discriminate. Qed.
Lemma dec_uuid_np P cur v : dec_uuid P cur v <> Panic.
Proof.
  destruct v; simpl; try discriminate. destruct s; [discriminate|].
  destruct (uuid_parse P (b :: s)); discriminate.
Qed.

Ltac np_bind := apply bind_np; [| intros; discriminate].

Lemma step_cipherparams_np iv k v : step_cipherparams iv k v <> Panic.
Proof. unfold step_cipherparams. destruct (is_field k "iv"); [apply dec_hex_np | discriminate]. Qed.

Lemma step_crypto_common_np cc k v r : step_crypto_common cc k v = Some r -> r <> Panic.
Proof.
  unfold step_crypto_common.
  destruct (is_field k "cipher"). { intros H; injection H as <-. np_bind. apply dec_string_np. }
  destruct (is_field k "ciphertext"). { intros H; injection H as <-. np_bind. apply dec_hex_np. }
  destruct (is_field k "cipherparams").
  { intros H; injection H as <-. np_bind. apply dec_object_np. apply step_cipherparams_np. }
  destruct (is_field k "kdf"). { intros H; injection H as <-. np_bind. apply dec_string_np. }
  destruct (is_field k "mac"). { intros H; injection H as <-. np_bind. apply dec_hex_np. }
  discriminate.
Qed.

Lemma step_crypto_only_np cc k v : step_crypto_only cc k v <> Panic.
Proof.
  unfold step_crypto_only. destruct (step_crypto_common cc k v) eqn:E; [|discriminate].
  eapply step_crypto_common_np; exact E.
Qed.

Lemma step_scrypt_params_np sp k v : step_scrypt_params sp k v <> Panic.
Proof.
  unfold step_scrypt_params.
  repeat match goal with
  | |- (if ?b then _ else _) <> Panic => destruct b; [np_bind; first [apply dec_int_np | apply dec_hex_np] |]
  end. discriminate.
Qed.

Lemma step_pbkdf2_params_np pp k v : step_pbkdf2_params pp k v <> Panic.
Proof.
  unfold step_pbkdf2_params.
  repeat match goal with
  | |- (if ?b then _ else _) <> Panic =>
      destruct b; [np_bind; first [apply dec_int_np | apply dec_hex_np | apply dec_string_np] |]
  end. discriminate.
Qed.

Lemma step_crypto_with_np {K} (sp : K -> bytes -> json -> res K) st k v :
  (forall s k v, sp s k v <> Panic) -> step_crypto_with sp st k v <> Panic.
Proof.
  intros H. unfold step_crypto_with. destruct (step_crypto_common (fst st) k v) eqn:E.
  - np_bind. eapply step_crypto_common_np; exact E.
  - destruct (is_field k "kdfparams"); [|discriminate]. np_bind. apply dec_object_np; exact H.
Qed.

Lemma step_core_np P cf k v r : step_core P cf k v = Some r -> r <> Panic.
Proof.
  unfold step_core.
  destruct (is_field k "id"). { intros H; injection H as <-. np_bind. apply dec_uuid_np. }
  destruct (is_field k "version"). { intros H; injection H as <-. np_bind. apply dec_int_np. }
  discriminate.
Qed.

Lemma step_wallet_np {C} P (sc : C -> bytes -> json -> res C) st k v :
  (forall c k v, sc c k v <> Panic) -> step_wallet P sc st k v <> Panic.
Proof.
  intros H. unfold step_wallet. destruct (step_core P (fst st) k v) eqn:E.
  - np_bind. eapply step_core_np; exact E.
  - destruct (is_field k "crypto"); [|discriminate]. np_bind. apply dec_object_np; exact H.
Qed.

Lemma unmarshal_wallet_np {C} P (sc : C -> bytes -> json -> res C) zero t :
  (forall c k v, sc c k v <> Panic) -> unmarshal_wallet P sc zero t <> Panic.
Proof. intros H. unfold unmarshal_wallet. apply dec_object_np. intros. apply step_wallet_np; exact H. Qed.

(* ---------- json.Unmarshal into map[string]interface{} is total ---------- *)
(* induction principle for the nested tree *)
Section JsonInd.
  Variable Pj : json -> Prop.
  Hypothesis Hnull : Pj JNull.
  Hypothesis Hbool : forall b, Pj (JBool b).
  Hypothesis Hnum : forall l, Pj (JNum l).
  Hypothesis Hstr : forall s, Pj (JStr s).
  Hypothesis Harr : forall l, Forall Pj l -> Pj (JArr l).
  Hypothesis Hobj : forall ms, Forall (fun m => Pj (snd m)) ms -> Pj (JObj ms).
  Fixpoint json_ind' (j : json) : Pj j :=
    match j with
    | JNull => Hnull
    | JBool b => Hbool b
    | JNum l => Hnum l
    | JStr s => Hstr s
    | JArr l => Harr l ((fix go (l : list json) : Forall Pj l :=
                           match l with [] => Forall_nil _ | x :: t => Forall_cons _ (json_ind' x) (go t) end) l)
    | JObj ms => Hobj ms ((fix go (ms : list (bytes * json)) : Forall (fun m => Pj (snd m)) ms :=
                             match ms with [] => Forall_nil _ | m :: t => Forall_cons _ (json_ind' (snd m)) (go t) end) ms)
    end.
End JsonInd.

Lemma dec_iface_np P v : dec_iface P v <> Panic.
Proof.
  induction v using json_ind'; try (simpl; discriminate).
  - simpl. destruct (json_num P l); discriminate.
  - (* array *)
    cbn [dec_iface]. np_bind.
    induction H as [|x t Hx Ht IH]; [discriminate|].
    apply bind_np; [exact Hx|]. intros a. np_bind. exact IH.
  - (* object *)
    cbn [dec_iface]. np_bind.
    generalize (@nil (bytes * json)) as acc.
    induction H as [|[k x] t Hx Ht IH]; intros acc; [discriminate|].
    apply bind_np; [exact Hx|]. intros a. apply IH.
Qed.

Lemma unmarshal_metadata_np P t : unmarshal_metadata P t <> Panic.
Proof.
  unfold unmarshal_metadata. destruct t; try discriminate.
  pose proof (dec_iface_np P (JObj ms)) as H.
  destruct (dec_iface P (JObj ms)) as [[]| |]; try discriminate. contradiction.
Qed.

(* ---------- the library calls are made inside their preconditions ---------- *)

(* aes128CtrDecrypt: NewCipher's error and the IV length test precede NewCTR *)
Lemma aes128CtrDecrypt_np P key iv ct : aes128CtrDecrypt P key iv ct <> Panic.
Proof.
  unfold aes128CtrDecrypt, call_ctr, ctr_iv_pre.
  destruct (aes_key_ok key); simpl; [|discriminate].
  destruct (length iv =? 16)%nat; simpl; discriminate.
Qed.

(* decryptCommon: both slices of the derived key are inside its 32 bytes *)
Lemma decryptCommon_np P c dk : decryptCommon P c dk <> Panic.
Proof.
  unfold decryptCommon. destruct (length dk =? 32)%nat eqn:E; simpl; [|discriminate].
  apply Nat.eqb_eq in E.
  rewrite (slice_ok dk 16 32) by lia. simpl.
  destruct (bytes_eqb _ (cc_mac c)); simpl; [|discriminate].
  rewrite (slice_ok dk 0 16) by lia. simpl. apply aes128CtrDecrypt_np.
Qed.

(* scrypt decrypt: dklen = 32 and r, p > 0 are tested before scrypt.Key *)
Lemma scrypt_guards_in_dom (kp : scrypt_params) :
  (sp_dklen kp =? derivedKeyLen)%Z = true -> ((sp_r kp <=? 0)%Z || (sp_p kp <=? 0)%Z) = false ->
  scrypt_dom (sp_r kp) (sp_p kp) (sp_dklen kp) = true.
Proof.
  unfold scrypt_dom, derivedKeyLen. intros H1 H2. apply Z.eqb_eq in H1. apply orb_false_iff in H2 as [H2 H3].
  apply Z.leb_gt in H2, H3. rewrite H1.
  replace (0 <? sp_r kp)%Z with true by (symmetry; apply Z.ltb_lt; lia).
  replace (0 <? sp_p kp)%Z with true by (symmetry; apply Z.ltb_lt; lia). reflexivity.
Qed.

(* ... but nothing bounds the work area scrypt.Key allocates: the call panics exactly beyond the cap *)
Lemma scrypt_decrypt_np P c kp pw :
  scrypt_alloc_ok (sp_n kp) (sp_r kp) = true -> scrypt_decrypt P c kp pw <> Panic.
Proof.
  intros Ha. unfold scrypt_decrypt.
  destruct (sp_dklen kp =? derivedKeyLen)%Z eqn:E1; simpl; [|discriminate].
  destruct ((sp_r kp <=? 0)%Z || (sp_p kp <=? 0)%Z) eqn:E2; [discriminate|].
  unfold call_scrypt. rewrite (scrypt_guards_in_dom kp E1 E2). simpl.
  destruct (scrypt_params_ok (sp_n kp) (sp_r kp) (sp_p kp)); simpl; [|discriminate].
  rewrite Ha. simpl. apply decryptCommon_np.
Qed.

Lemma scrypt_decrypt_panic_iff P c kp pw :
  scrypt_decrypt P c kp pw = Panic <->
  (sp_dklen kp = 32%Z /\ scrypt_pre (sp_n kp) (sp_r kp) (sp_p kp) 32 = true /\
   scrypt_alloc_ok (sp_n kp) (sp_r kp) = false).
Proof.
  unfold scrypt_decrypt.
  destruct (sp_dklen kp =? derivedKeyLen)%Z eqn:E1; simpl.
  2:{ split; [discriminate|]. intros (H & _). unfold derivedKeyLen in E1. apply Z.eqb_neq in E1. contradiction. }
  destruct ((sp_r kp <=? 0)%Z || (sp_p kp <=? 0)%Z) eqn:E2.
  { split; [discriminate|]. intros (_ & H & _). exfalso.
    unfold scrypt_pre, scrypt_dom in H. apply andb_prop in H as [H _]. apply andb_prop in H as [H _].
    apply andb_prop in H as [A B]. apply Z.ltb_lt in A, B. apply orb_true_iff in E2 as [E2|E2]; apply Z.leb_le in E2; lia. }
  pose proof (scrypt_guards_in_dom kp E1 E2) as Hd.
  apply Z.eqb_eq in E1. unfold derivedKeyLen in E1.
  unfold call_scrypt. rewrite Hd. simpl. unfold scrypt_pre. rewrite <- E1 at 2. rewrite Hd.
  destruct (scrypt_params_ok (sp_n kp) (sp_r kp) (sp_p kp)); simpl.
  2:{ split; [discriminate|]. intros (_ & H & _). discriminate. }
  destruct (scrypt_alloc_ok (sp_n kp) (sp_r kp)); simpl.
  - split; [intros H; exfalso; revert H; apply decryptCommon_np|]. intros (_ & _ & H). discriminate.
  - split; auto.
Qed.

(* pbkdf2 decrypt: prf, dklen = 32 and c > 0 are tested before pbkdf2.Key *)
Lemma pbkdf2_guards_in_pre (kp : pbkdf2_params) :
  (pp_dklen kp =? derivedKeyLen)%Z = true -> (pp_c kp <=? 0)%Z = false ->
  pbkdf2_pre (pp_c kp) (pp_dklen kp) = true.
Proof.
  unfold pbkdf2_pre, derivedKeyLen. intros H1 H2. apply Z.eqb_eq in H1. apply Z.leb_gt in H2. rewrite H1.
  replace (0 <? pp_c kp)%Z with true by (symmetry; apply Z.ltb_lt; lia). reflexivity.
Qed.

Lemma pbkdf2_decrypt_np P c kp pw : pbkdf2_decrypt P c kp pw <> Panic.
Proof.
  unfold pbkdf2_decrypt.
  destruct (bytes_eqb (pp_prf kp) prfHmacSHA256); simpl; [|discriminate].
  destruct (pp_dklen kp =? derivedKeyLen)%Z eqn:E1; simpl; [|discriminate].
  destruct (pp_c kp <=? 0)%Z eqn:E2; [discriminate|].
  unfold call_pbkdf2. rewrite (pbkdf2_guards_in_pre kp E1 E2). simpl.
  apply decryptCommon_np.
Qed.

(* readScryptWalletFile / readPbkdf2WalletFile panic only on a top-level null (nil pointer) *)
Lemma readScrypt_np P t pw md :
  t <> JNull ->
  match decode_scrypt P t with Ok (_, (_, sp)) => scrypt_alloc_ok (sp_n sp) (sp_r sp) | _ => true end = true ->
  readScryptWalletFile P t pw md <> Panic.
Proof.
  intros Ht Hc. unfold readScryptWalletFile.
  assert (H : (do (cf, ck) <- unmarshal_wallet P (step_crypto_with step_scrypt_params) (zero_cc, zero_sp) t;
               do key <- scrypt_decrypt P (fst ck) (snd ck) pw;
               Ok {| w_core := cf; w_metadata := match md with Some m => m | None => [] end;
                     w_crypto := fst ck; w_kdfparams := KScrypt (snd ck); w_private := key |}) <> Panic).
  { unfold decode_scrypt in Hc.
    destruct (unmarshal_wallet P (step_crypto_with step_scrypt_params) (zero_cc, zero_sp) t) as [[cf [cc sp]]|e|] eqn:E;
      cbn [bind]; [|discriminate|].
    - np_bind. apply scrypt_decrypt_np. exact Hc.
    - exfalso. revert E. apply unmarshal_wallet_np. intros. apply step_crypto_with_np. apply step_scrypt_params_np. }
  destruct t; try exact H. contradiction.
Qed.

Lemma readPbkdf2_np P t pw md : t <> JNull -> readPbkdf2WalletFile P t pw md <> Panic.
Proof.
  intros Ht. unfold readPbkdf2WalletFile.
  assert (H : (do (cf, ck) <- unmarshal_wallet P (step_crypto_with step_pbkdf2_params) (zero_cc, zero_pp) t;
               do key <- pbkdf2_decrypt P (fst ck) (snd ck) pw;
               Ok {| w_core := cf; w_metadata := match md with Some m => m | None => [] end;
                     w_crypto := fst ck; w_kdfparams := KPbkdf2 (snd ck); w_private := key |}) <> Panic).
  { apply bind_np.
    - apply unmarshal_wallet_np. intros. apply step_crypto_with_np. apply step_pbkdf2_params_np.
    - intros [cf ck]. np_bind. apply pbkdf2_decrypt_np. }
  destruct t; try exact H. contradiction.
Qed.

(* a top-level null decodes to the zero struct: no id, so the nil pointer is never dereferenced *)
Lemma null_has_no_id P {C} (sc : C -> bytes -> json -> res C) zero cf c :
  unmarshal_wallet P sc zero JNull = Ok (cf, c) -> cf_id cf = None.
Proof. unfold unmarshal_wallet. simpl. intros H; injection H as <- _. reflexivity. Qed.

Theorem read_wallet_tree_total P t pw : cost_capped P t = true -> read_wallet_tree P t pw <> Panic.
Proof.
  intros Hc. unfold read_wallet_tree.
  unfold cost_capped, decode_content, decode_common in Hc.
  destruct (unmarshal_wallet P step_crypto_only zero_cc t) as [[cf cc]|e|] eqn:E; simpl; try discriminate.
  2:{ exfalso. revert E. apply unmarshal_wallet_np. apply step_crypto_only_np. }
  pose proof (unmarshal_metadata_np P t) as Hm.
  destruct (unmarshal_metadata P t) as [md|e|]; simpl; try discriminate; [|contradiction].
  destruct (cf_id cf) eqn:Eid; [|discriminate].
  assert (Ht : t <> JNull).
  { intros ->. apply null_has_no_id in E. congruence. }
  destruct (cf_version cf =? version3)%Z; simpl; [|discriminate].
  destruct (bytes_eqb (cc_kdf cc) kdfTypeScrypt).
  { apply readScrypt_np; [exact Ht|]. destruct (decode_scrypt P t) as [[? [? ?]]| |]; auto. }
  destruct (bytes_eqb (cc_kdf cc) kdfTypePbkdf2); [apply readPbkdf2_np; exact Ht|].
  discriminate.
Qed.

Theorem ReadWalletFile_total P bytes pw : cost_capped_bytes P bytes = true -> ReadWalletFile P bytes pw <> Panic.
Proof.
  unfold ReadWalletFile, cost_capped_bytes.
  destruct (json_parse P bytes); [apply read_wallet_tree_total | discriminate].
Qed.

(* the converse reading: a panic of the read path means the document is beyond the cap -- it decodes as a
   scrypt file whose n and r ask for a work area of more than 2^48 bytes *)
Corollary read_panic_beyond_cap P t pw :
  read_wallet_tree P t pw = Panic ->
  exists cf cc sp, decode_content P t = Some (cf, cc, KScrypt sp) /\ scrypt_alloc_ok (sp_n sp) (sp_r sp) = false.
Proof.
  intros H. destruct (cost_capped P t) eqn:Hc.
  - exfalso. revert H. apply read_wallet_tree_total. exact Hc.
  - unfold cost_capped in Hc. destruct (decode_content P t) as [[[cf cc] [sp|pp]]|]; try discriminate.
    exists cf, cc, sp. split; [reflexivity|exact Hc].
Qed.

(* every library call site of the read path is entered inside the library's precondition: the
   functions that contain the call sites cannot return [Panic], and the guards that precede each call
   imply its precondition *)
Theorem calls_in_domain P :
  (forall c kp pw, scrypt_alloc_ok (sp_n kp) (sp_r kp) = true -> scrypt_decrypt P c kp pw <> Panic) /\
  (forall c kp pw, pbkdf2_decrypt P c kp pw <> Panic) /\
  (forall c dk, decryptCommon P c dk <> Panic) /\
  (forall key iv ct, aes128CtrDecrypt P key iv ct <> Panic) /\
  (forall kp : scrypt_params, (sp_dklen kp =? derivedKeyLen)%Z = true -> ((sp_r kp <=? 0)%Z || (sp_p kp <=? 0)%Z) = false ->
      scrypt_dom (sp_r kp) (sp_p kp) (sp_dklen kp) = true) /\
  (forall kp : pbkdf2_params, (pp_dklen kp =? derivedKeyLen)%Z = true -> (pp_c kp <=? 0)%Z = false ->
      pbkdf2_pre (pp_c kp) (pp_dklen kp) = true).
Proof.
  repeat split.
  - intros; apply scrypt_decrypt_np; assumption.
  - intros; apply pbkdf2_decrypt_np.
  - intros; apply decryptCommon_np.
  - intros; apply aes128CtrDecrypt_np.
  - apply scrypt_guards_in_dom.
  - apply pbkdf2_guards_in_pre.
Qed.
