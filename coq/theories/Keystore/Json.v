(* Data encodings shared by the keystore model and the V3 specification: JSON values as trees (what
   the encoding/json lexer delivers: numbers kept as literal text, strings already unescaped, object
   members in document order with duplicates), hex and decimal text, Go maps as key-sorted association
   lists, and the name folding encoding/json uses to match object keys against struct fields.
   Definitions only; the lemmas are in Keystore/JsonFacts.v. *)
From Coq Require Import String Ascii.
From Coq Require Import List NArith ZArith Lia Bool Arith.
From Coq Require Import Init.Byte.
From FFS Require Import Base.Res Base.Bytes.
Import ListNotations.

Inductive json :=
| JNull
| JBool (b : bool)
| JNum (lit : bytes)                 (* the number literal as written *)
| JStr (s : bytes)                   (* unescaped content *)
| JArr (l : list json)
| JObj (ms : list (bytes * json)).   (* members in document order *)

Fixpoint json_eqb (a b : json) : bool :=
  match a, b with
  | JNull, JNull => true
  | JBool x, JBool y => Bool.eqb x y
  | JNum x, JNum y => bytes_eqb x y
  | JStr x, JStr y => bytes_eqb x y
  | JArr x, JArr y =>
      (fix go (x y : list json) : bool :=
         match x, y with
         | [], [] => true
         | a :: x', b :: y' => json_eqb a b && go x' y'
         | _, _ => false
         end) x y
  | JObj x, JObj y =>
      (fix go (x y : list (bytes * json)) : bool :=
         match x, y with
         | [], [] => true
         | (k, a) :: x', (k', b) :: y' => bytes_eqb k k' && json_eqb a b && go x' y'
         | _, _ => false
         end) x y
  | _, _ => false
  end.

(* ---------- Go map[string]T: association list sorted by key (bytewise, as encoding/json sorts map
   keys when marshalling), keys unique ---------- *)
Fixpoint bytes_ltb (a b : bytes) : bool :=
  match a, b with
  | [], [] => false
  | [], _ :: _ => true
  | _ :: _, [] => false
  | x :: a', y :: b' =>
      if (b2n x <? b2n y)%N then true
      else if (b2n y <? b2n x)%N then false
      else bytes_ltb a' b'
  end.

Definition jmap := list (bytes * json).

(* delete(m, k) *)
Fixpoint mremove (k : bytes) (m : jmap) : jmap :=
  match m with
  | [] => []
  | (k', v') :: t => if bytes_eqb k k' then mremove k t else (k', v') :: mremove k t
  end.

(* a new key goes in front of the first greater one *)
Fixpoint minsert (k : bytes) (v : json) (m : jmap) : jmap :=
  match m with
  | [] => [(k, v)]
  | (k', v') :: t => if bytes_ltb k k' then (k, v) :: m else (k', v') :: minsert k v t
  end.

(* m[k] = v *)
Definition mset (k : bytes) (v : json) (m : jmap) : jmap := minsert k v (mremove k m).

(* m[k] *)
Fixpoint mget (k : bytes) (m : jmap) : option json :=
  match m with
  | [] => None
  | (k', v) :: t => if bytes_eqb k k' then Some v else mget k t
  end.

(* members sorted by key at every level, the last of equal keys winning: the canonical form in which
   two JSON documents are compared *)
Fixpoint canon (j : json) : json :=
  match j with
  | JArr l => JArr (map canon l)
  | JObj ms =>
      JObj ((fix go (ms : list (bytes * json)) (acc : jmap) : jmap :=
               match ms with
               | [] => acc
               | (k, v) :: t => go t (mset k (canon v) acc)
               end) ms [])
  | _ => j
  end.

(* ---------- hex text (encoding/hex) ---------- *)
Local Open Scope N_scope.

Definition hex_digit (n : N) : byte := n2b (if n <? 10 then 48 + n else 87 + n).

(* hex.EncodeToString: lower case *)
Definition hex_encode (b : bytes) : bytes :=
  flat_map (fun x => [hex_digit (b2n x / 16); hex_digit (b2n x mod 16)]) b.

Definition hex_val (c : byte) : option N :=
  let n := b2n c in
  if (48 <=? n) && (n <=? 57) then Some (n - 48)
  else if (97 <=? n) && (n <=? 102) then Some (n - 87)
  else if (65 <=? n) && (n <=? 70) then Some (n - 55)
  else None.

(* hex.DecodeString: both cases accepted, odd length or a foreign character is an error *)
Fixpoint hex_decode (s : bytes) : option bytes :=
  match s with
  | [] => Some []
  | a :: t =>
      match t with
      | b :: t' =>
          match hex_val a, hex_val b, hex_decode t' with
          | Some x, Some y, Some r => Some (n2b (x * 16 + y) :: r)
          | _, _, _ => None
          end
      | [] => None
      end
  end.

(* strings.TrimPrefix(s, "0x") *)
Definition trim0x (s : bytes) : bytes :=
  match s with
  | a :: t => match t with
              | b :: t' => if (b2n a =? 48) && (b2n b =? 120) then t' else s
              | [] => s
              end
  | [] => s
  end.

(* ---------- decimal text ---------- *)
Definition digit_of (c : byte) : option N :=
  let n := b2n c in if (48 <=? n) && (n <=? 57) then Some (n - 48) else None.

Fixpoint parse_digits (s : bytes) (acc : N) : option N :=
  match s with
  | [] => Some acc
  | c :: t => match digit_of c with Some d => parse_digits t (acc * 10 + d) | None => None end
  end.

(* strconv.ParseInt(lit, 10, 64) on a JSON number literal: only an optional minus sign followed by
   digits is an integer; fractions, exponents and values outside int64 are errors *)
Definition parse_int64 (s : bytes) : option Z :=
  match s with
  | [] => None
  | c :: t =>
      if b2n c =? 45 then
        match t with
        | [] => None
        | _ => match parse_digits t 0 with
               | Some n => if n <=? 9223372036854775808 then Some (- Z.of_N n)%Z else None
               | None => None
               end
        end
      else match parse_digits s 0 with
           | Some n => if n <? 9223372036854775808 then Some (Z.of_N n) else None
           | None => None
           end
  end.

Fixpoint uint_bytes (d : Decimal.uint) : bytes :=
  match d with
  | Decimal.Nil => []
  | Decimal.D0 d => x30 :: uint_bytes d | Decimal.D1 d => x31 :: uint_bytes d
  | Decimal.D2 d => x32 :: uint_bytes d | Decimal.D3 d => x33 :: uint_bytes d
  | Decimal.D4 d => x34 :: uint_bytes d | Decimal.D5 d => x35 :: uint_bytes d
  | Decimal.D6 d => x36 :: uint_bytes d | Decimal.D7 d => x37 :: uint_bytes d
  | Decimal.D8 d => x38 :: uint_bytes d | Decimal.D9 d => x39 :: uint_bytes d
  end.

(* strconv.Itoa *)
Definition print_N (n : N) : bytes := uint_bytes (N.to_uint n).
Definition print_Z (z : Z) : bytes :=
  if (z <? 0)%Z then x2d :: print_N (Z.to_N (- z)) else print_N (Z.to_N z).

(* ---------- encoding/json field-name matching ----------
   A key matches a struct field when the names are equal after folding (encoding/json foldName: ASCII
   letters to upper case, every other rune to the smallest member of its simple-folding orbit).  The
   only non-ASCII runes whose orbit contains an ASCII letter are U+017F (long s, C5 BF) and U+212A
   (Kelvin sign, E2 84 AA); every other non-ASCII rune stays non-ASCII, so comparing the result with
   an ASCII field name gives the same verdict as Go's function. *)
Definition up_ascii (c : byte) : byte :=
  if (97 <=? b2n c) && (b2n c <=? 122) then n2b (b2n c - 32) else c.

Fixpoint fold_name (s : bytes) : bytes :=
  match s with
  | [] => []
  | c :: t =>
      match t with
      | d :: t1 =>
          if (b2n c =? 197) && (b2n d =? 191) then x53 :: fold_name t1
          else match t1 with
               | e :: t2 =>
                   if (b2n c =? 226) && (b2n d =? 132) && (b2n e =? 170) then x4b :: fold_name t2
                   else up_ascii c :: fold_name t
               | [] => up_ascii c :: fold_name t
               end
      | [] => [up_ascii c]
      end
  end.

Definition is_field (key : bytes) (name : string) : bool :=
  bytes_eqb (fold_name key) (fold_name (ascii_bytes name)).

(* ---------- UUID text (google/uuid String): 8-4-4-4-12 lower-case hex ---------- *)
Definition uuid_string (u : bytes) : bytes :=
  let h := hex_encode u in
  firstn 8 h ++ [x2d] ++ firstn 4 (skipn 8 h) ++ [x2d] ++ firstn 4 (skipn 12 h) ++ [x2d]
  ++ firstn 4 (skipn 16 h) ++ [x2d] ++ skipn 20 h.

(* ---------- what json.Marshal can print and json.Unmarshal reads back unchanged ---------- *)
(* well-formed UTF-8 (RFC 3629: no overlong forms, no surrogates, at most U+10FFFF) *)
Definition in_rng (c : byte) (lo hi : N) : bool := (lo <=? b2n c) && (b2n c <=? hi).
Fixpoint utf8_valid (s : bytes) : bool :=
  match s with
  | [] => true
  | c :: t =>
      if b2n c <? 128 then utf8_valid t
      else match t with
           | d :: t1 =>
               if in_rng c 194 223 then in_rng d 128 191 && utf8_valid t1
               else match t1 with
                    | e :: t2 =>
                        if in_rng c 224 239 then
                          in_rng d (if b2n c =? 224 then 160 else 128) (if b2n c =? 237 then 159 else 191)
                          && in_rng e 128 191 && utf8_valid t2
                        else match t2 with
                             | f :: t3 =>
                                 in_rng c 240 244
                                 && in_rng d (if b2n c =? 240 then 144 else 128) (if b2n c =? 244 then 143 else 191)
                                 && in_rng e 128 191 && in_rng f 128 191 && utf8_valid t3
                             | [] => false
                             end
                    | [] => false
                    end
           | [] => false
           end
  end.

(* the JSON number grammar: [-] int [frac] [exp] *)
Definition is_digit (c : byte) : bool := in_rng c 48 57.
Fixpoint skip_digits (s : bytes) : bytes :=
  match s with c :: t => if is_digit c then skip_digits t else s | [] => [] end.
Definition num_ok (s : bytes) : bool :=
  let s1 := match s with c :: t => if b2n c =? 45 then t else s | [] => s end in
  match s1 with
  | [] => false
  | c :: t =>
      if negb (is_digit c) then false
      else
        let s2 := if b2n c =? 48 then t else skip_digits t in
        let s3 := match s2 with
                  | d :: t2 =>
                      if b2n d =? 46 then
                        match t2 with
                        | e :: _ => if is_digit e then Some (skip_digits t2) else None
                        | [] => None
                        end
                      else Some s2
                  | [] => Some []
                  end in
        match s3 with
        | None => false
        | Some [] => true
        | Some (e :: t3) =>
            if (b2n e =? 101) || (b2n e =? 69) then
              let s4 := match t3 with
                        | g :: t4 => if (b2n g =? 43) || (b2n g =? 45) then t4 else t3
                        | [] => []
                        end in
              match s4 with
              | d :: _ => is_digit d && match skip_digits s4 with [] => true | _ => false end
              | [] => false
              end
            else false
        end
  end.

(* strings are valid UTF-8 and numbers are JSON number literals, at every level *)
Fixpoint json_text_ok (j : json) : bool :=
  match j with
  | JNum l => num_ok l
  | JStr s => utf8_valid s
  | JArr l => forallb json_text_ok l
  | JObj ms =>
      (fix go (ms : list (bytes * json)) : bool :=
         match ms with
         | [] => true
         | (k, v) :: t => utf8_valid k && json_text_ok v && go t
         end) ms
  | _ => true
  end.

(* a UUID in the textual form of RFC 4122: 8-4-4-4-12 hex digits of either case *)
Definition uuid_text_ok (s : bytes) : bool :=
  (length s =? 36)%nat &&
  (fix go (i : nat) (s : bytes) : bool :=
     match s with
     | [] => true
     | c :: t =>
         (if (i =? 8)%nat || (i =? 13)%nat || (i =? 18)%nat || (i =? 23)%nat then b2n c =? 45
          else match hex_val c with Some _ => true | None => false end)
         && go (S i) t
     end) 0%nat s.
