(* C07/C15: wallets that were READ (any accepted file: scrypt or PBKDF2, strictly or leniently formed) are
   written back as standard V3 documents, and those are read back to the same key and id. *)
From Coq Require Import String.
From Coq Require Import List NArith ZArith Lia Bool Arith.
From Coq Require Import Init.Byte.
From FFS Require Import Base.Res Base.Bytes Keystore.Json Keystore.JsonFacts Keystore.Prims
  Keystore.Model Keystore.Spec Keystore.ReadTypes Keystore.ProofsNew Keystore.ProofsRead Keystore.TotalProofs6 Keystore.TotalProofs7.
From FFS Require Keystore.IntText Keystore.TotalProofs2.
Import ListNotations.
Local Open Scope string_scope.
Local Open Scope list_scope.

Lemma v3_id_marshalled w u : cf_id (w_core w) = Some u -> v3_id (JSON_tree w) = Some (uuid_string u).
Proof.
  intros H. unfold v3_id, JSON_tree, marshalWalletJSON, str_field. rewrite H.
  rewrite (field_mset_other "id" (jkey "crypto")) by (vm_compute; discriminate).
  rewrite (field_mset_other "id" (jkey "version")) by (vm_compute; discriminate).
  rewrite (field_mset_same "id"). reflexivity.
Qed.

(* the allocation cap of scrypt.Key read off a marshalled wallet (strict reading of crypto.kdfparams.n / .r)
   is the cap on the wallet's own parameters *)
Lemma marshalled_alloc w : kdf_ints (w_kdfparams w) -> doc_alloc_ok (JSON_tree w) = kdf_cost_capped (w_kdfparams w).
Proof.
  intros Hi. unfold JSON_tree, marshalWalletJSON, Keystore.ReadTypes.doc_alloc_ok, obj_field.
  rewrite (field_mset_same "crypto"). unfold crypto_json, crypto_common_members.
  cbn [app].
  match goal with |- context [field "kdfparams" ?l] =>
    change (field "kdfparams" l) with (Some (kdfparams_json (w_kdfparams w))) end.
  cbv beta iota.
  destruct (w_kdfparams w) as [[dklen n p r salt]|[dklen c prf salt]]; cbn [kdfparams_json kdf_cost_capped sp_dklen sp_n sp_p sp_r sp_salt].
  - unfold int_field.
    change (field "n" _) with (Some (jint n)).
    change (field "r" _) with (Some (jint r)).
    unfold jint. cbv beta iota.
    destruct Hi as (_ & Hn & _ & Hr). cbn [sp_n sp_r] in Hn, Hr.
    rewrite (Keystore.IntText.parse_print_int64 n Hn), (Keystore.IntText.parse_print_int64 r Hr). reflexivity.
  - unfold int_field. change (field "n" _) with (@None json). reflexivity.
Qed.

Section Reread.
Variable P : prims.
Hypothesis L : crypto_laws P.
Hypothesis LT : uuid_accepts_text P.
Hypothesis L16 : uuid_parse_16 P.

(* JSON() of a read wallet (after any Metadata() assignments) is a document of the full standard with
   the same key: the counterpart of C07_new_is_standard for wallets that were read *)
Theorem read_wallet_is_standard t pw w extras :
  read_wallet_tree P t pw = Ok w -> cc_cipher (w_crypto w) = cipherAES128ctr ->
  v3_decrypt P (JSON_tree (assign_all w extras)) pw = Ok (PrivateKey w).
Proof.
  intros H Hc. apply (lenient_read_then_strict_md true P L16 t pw w); [exact H|apply assign_all_same|intros _; exact Hc].
Qed.

(* ... and it is read back to the same key, under the guards of C07_read_is_standard on the metadata
   (no entry whose key is a case variant of a struct field name -- known finding
   C07/metadata-casefold-core-field --, numbers fit float64); with the String/Parse inverse law of the
   UUID library also to the same id.  No guard on the file the wallet came from. *)
Theorem read_wallet_reread t pw w extras :
  read_wallet_tree P t pw = Ok w ->
  let w' := assign_all w extras in
  unambiguous (JSON_tree w') = true -> nums_ok P (JSON_tree w') = true ->
  exists w2, read_wallet_tree P (JSON_tree w') pw = Ok w2 /\ PrivateKey w2 = PrivateKey w /\
             ((forall u, length u = 16%nat -> uuid_parse P (uuid_string u) = Some u) -> GetID w2 = GetID w).
Proof.
  intros H w' U N.
  assert (D : v3_decrypt_gen false P (JSON_tree w') pw = Ok (PrivateKey w)).
  { apply (lenient_read_then_strict_md false P L16 t pw w); [exact H|apply assign_all_same|discriminate]. }
  assert (Hal : doc_alloc_ok (JSON_tree w') = true).
  { destruct (assign_all_same w extras) as (_ & _ & Ek & _). fold w' in Ek.
    destruct (read_wallet_shape P L16 t pw w H) as (_ & _ & _ & Hi).
    rewrite marshalled_alloc by (rewrite Ek; exact Hi). rewrite Ek.
    exact (Keystore.TotalProofs2.accept_capped P t pw w H). }
  destruct (read_is_standard P L LT false _ pw _ D U N Hal) as (w2 & R & K & id & Vid & G & _).
  exists w2. split; [exact R|]. split; [exact K|].
  intros LR. destruct (read_wallet_shape P L16 t pw w H) as (_ & (u & Hid & Lu) & _).
  assert (Hid' : cf_id (w_core w') = Some u).
  { destruct (assign_all_same w extras) as [E _]. fold w' in E. rewrite E. exact Hid. }
  rewrite (v3_id_marshalled w' u Hid') in Vid. injection Vid as <-.
  rewrite G, (LR u Lu). unfold GetID. symmetry. exact Hid.
Qed.
End Reread.

(* ---------- non-vacuity ---------- *)
(* a file created by the model under [toy16] (crypto_laws, 16-byte ids), rewritten leniently inside the
   crypto object ("cipherText", 0x prefix, upper-case hex) and at top level (a first "version": 7 that the
   later member overrides, "VERSION": null): not a document of the strict specification, read by the code;
   JSON() of the returned wallet is decrypted by the full standard and read back *)
Definition lenient_of2 (t : json) : json :=
  match t with
  | JObj ms => JObj ((ascii_bytes "version", JNum (ascii_bytes "7")) ::
                     map (fun m => if bytes_eqb (fst m) (ascii_bytes "crypto")
                                   then (fst m, lenient_crypto (snd m)) else m) ms
                     ++ [(ascii_bytes "VERSION", JNull)])
  | _ => t
  end.
Definition lenient_doc2 : option json :=
  match ProofsFresh.create_all toy16 [ProofsFresh.MkCustomLight [x70; x77] [x01; x02; x03]]
                               (map (fun n => n2b (N.of_nat n)) (seq 0 70)) with
  | Ok ([w], _) => Some (lenient_of2 (JSON_tree w))
  | _ => None
  end.

Lemma toy16_uuid_accepts_text : uuid_accepts_text toy16.
Proof. intros s H. cbn [toy16 uuid_parse]. rewrite H. discriminate. Qed.

Example read_wallet_reread_nonvacuous :
  crypto_laws toy16 /\ uuid_accepts_text toy16 /\ uuid_parse_16 toy16 /\
  match lenient_doc2 with
  | Some t =>
      v3_wellformed t = false /\ v3_decrypt_gen false toy16 t [x70; x77] = Err SInvalid /\
      match read_wallet_tree toy16 t [x70; x77] with
      | Ok w =>
          let w' := assign_all w [(ascii_bytes "note", JStr (ascii_bytes "x"))] in
          cc_cipher (w_crypto w) = cipherAES128ctr /\
          v3_decrypt toy16 (JSON_tree w') [x70; x77] = Ok [x01; x02; x03] /\
          unambiguous (JSON_tree w') = true /\ nums_ok toy16 (JSON_tree w') = true /\
          match read_wallet_tree toy16 (JSON_tree w') [x70; x77] with
          | Ok w2 => PrivateKey w2 = [x01; x02; x03]
          | _ => False
          end
      | _ => False
      end
  | None => False
  end.
Proof.
  split; [exact toy16_crypto_laws|]. split; [exact toy16_uuid_accepts_text|]. split; [exact toy16_uuid_16|].
  vm_compute. repeat split; reflexivity.
Qed.
