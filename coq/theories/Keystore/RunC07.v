(* Evaluator for the correspondence check of C07: runs the model (Keystore/Model.v) and the V3
   specification (Keystore/Spec.v) on the cases written by harness/cmd/c07 and reports where they differ
   from what pkg/keystorev3 did.  The primitives are finite tables filled by the harness with direct
   calls to x/crypto, crypto/aes, btcec, encoding/json and google/uuid; Keccak-256 is Base/Keccak.v. *)
From Coq Require Import String.
From Coq Require Import List NArith ZArith Lia Bool Arith.
From Coq Require Import Init.Byte.
From FFS Require Import Base.Res Base.Bytes Base.Lit Base.Keccak.
From FFS Require Import Keystore.Json Keystore.Prims Keystore.Model Keystore.Spec.
Import ListNotations.

(* JSON trees as written by the harness: text in the byte-DSL *)
Inductive djson :=
| DNull | DBool (b : bool) | DNum (l : bdsl) | DStr (s : bdsl) | DArr (l : list djson) | DObj (ms : list (bdsl * djson)).
Fixpoint jexpand (d : djson) : json :=
  match d with
  | DNull => JNull
  | DBool b => JBool b
  | DNum l => JNum (bexpand l)
  | DStr s => JStr (bexpand s)
  | DArr l => JArr (map jexpand l)
  | DObj ms => JObj (map (fun m => (bexpand (fst m), jexpand (snd m))) ms)
  end.

(* oracle tables of one case: arguments -> what the library returned *)
Record tables := {
  t_scrypt : list (bdsl * bdsl * Z * Z * Z * Z * bdsl);      (* pw salt N r p dklen -> key *)
  t_scrypt_cap : list (bdsl * bdsl * Z * Z * Z * Z * bdsl);  (* ... -> backing array up to cap *)
  t_pbkdf2 : list (bdsl * bdsl * Z * Z * bdsl);              (* pw salt c dklen -> key *)
  t_aes : list (bdsl * bdsl * bdsl * bdsl);                  (* key iv data -> output *)
  t_pubkey : list (bdsl * bdsl);                             (* private key bytes -> 64-byte public key *)
  t_num : list (bdsl * option bdsl);                         (* number literal -> printed float64 *)
  t_uuid : list (bdsl * option bdsl)                         (* text -> 16 bytes *)
}.

Definition beq (d : bdsl) (b : bytes) : bool := bytes_eqb (bexpand d) b.

Fixpoint find_kdf (l : list (bdsl * bdsl * Z * Z * Z * Z * bdsl)) (pw salt : bytes) (N r p dk : Z) : option bytes :=
  match l with
  | [] => None
  | (pw', salt', N', r', p', dk', out) :: t =>
      if beq pw' pw && beq salt' salt && (N' =? N)%Z && (r' =? r)%Z && (p' =? p)%Z && (dk' =? dk)%Z
      then Some (bexpand out) else find_kdf t pw salt N r p dk
  end.
Fixpoint find_pbkdf2 (l : list (bdsl * bdsl * Z * Z * bdsl)) (pw salt : bytes) (c dk : Z) : option bytes :=
  match l with
  | [] => None
  | (pw', salt', c', dk', out) :: t =>
      if beq pw' pw && beq salt' salt && (c' =? c)%Z && (dk' =? dk)%Z
      then Some (bexpand out) else find_pbkdf2 t pw salt c dk
  end.
Fixpoint find_aes (l : list (bdsl * bdsl * bdsl * bdsl)) (k iv x : bytes) : option bytes :=
  match l with
  | [] => None
  | (k', iv', x', out) :: t =>
      if beq k' k && beq iv' iv && beq x' x then Some (bexpand out) else find_aes t k iv x
  end.
Fixpoint find1 {A} (l : list (bdsl * A)) (k : bytes) : option A :=
  match l with
  | [] => None
  | (k', out) :: t => if beq k' k then Some out else find1 t k
  end.

(* a lookup that misses the table answers with [fill] bytes; every case is evaluated with two different
   fills, so a miss that could influence the outcome shows up as a disagreement *)
Definition miss (fill : byte) (n : Z) : bytes := repeat fill (Z.to_nat (Z.max 0 (Z.min n 64))).

Definition mk_prims (T : tables) (fill : byte) : prims := {|
  scrypt := fun pw salt N r p dk =>
    match find_kdf (t_scrypt T) pw salt N r p dk with Some o => o | None => miss fill dk end;
  scrypt_cap := fun pw salt N r p dk =>
    match find_kdf (t_scrypt_cap T) pw salt N r p dk with Some o => o | None => miss fill (round_up_32 dk) end;
  pbkdf2 := fun pw salt c dk =>
    match find_pbkdf2 (t_pbkdf2 T) pw salt c dk with Some o => o | None => miss fill dk end;
  aes_ctr := fun k iv x =>
    match find_aes (t_aes T) k iv x with Some o => o | None => repeat fill (length x) end;
  hash := keccak256;
  pubkey := fun k => match find1 (t_pubkey T) k with Some o => bexpand o | None => repeat fill 64 end;
  json_parse := fun _ => None;       (* the evaluator starts after the lexer *)
  json_print := fun _ => [];
  json_num := fun l => match find1 (t_num T) l with Some (Some o) => Some (bexpand o) | Some None => None | None => Some [fill] end;
  uuid_parse := fun s => match find1 (t_uuid T) s with Some (Some o) => Some (bexpand o) | Some None => None | None => Some (repeat fill 16) end
|}.

Inductive variant := VLight | VStandard | VCustomLight | VCustomStandard.

Inductive case :=
(* creation: tables, variant, password, private key, keypair address (secp variants), scripted random
   stream, Metadata()[k] = v assignments made before JSON();
   observed: class of the call, JSON() as a tree, bytes of the stream consumed;
   then ReadWalletFile(JSON(), password): class, PrivateKey(), KeyPair().Address, GetID(), Metadata() *)
| CNew (T : tables) (v : variant) (pw key addr rnd : bdsl) (extras : list (bdsl * djson))
       (cls : nat) (doc : djson) (consumed : N)
       (rcls : nat) (rkey raddr rid : bdsl) (rmeta : djson)
(* reading: tables, the document as the encoding/json lexer delivers it (None = syntax error), password;
   observed: class, PrivateKey(), KeyPair().Address, GetID(), Metadata() *)
| CRead (T : tables) (doc : option djson) (pw : bdsl)
        (cls : nat) (key addr id : bdsl) (meta : djson).

Definition model_new (P : prims) (v : variant) (pw key addr rnd : bytes) : res (wallet * bytes) :=
  match v with
  | VLight => NewWalletFileLight P pw {| kp_private := key; kp_address := addr |} rnd
  | VStandard => NewWalletFileStandard P pw {| kp_private := key; kp_address := addr |} rnd
  | VCustomLight => NewWalletFileCustomBytesLight P pw key rnd
  | VCustomStandard => NewWalletFileCustomBytesStandard P pw key rnd
  end.

(* the observables of a successfully read wallet agree with what the implementation returned *)
Definition wallet_matches (P : prims) (w : wallet) (key addr id : bytes) (meta : json) : bool :=
  bytes_eqb (PrivateKey w) key
  && bytes_eqb (kp_address (KeyPair P w)) addr
  && match GetID w with Some u => bytes_eqb u id | None => false end
  && json_eqb (JObj (Metadata w)) (canon meta).

(* every non-nil entry of [m] whose key is not one of the protected core fields is an entry of [sup] *)
Definition protected_key (k : bytes) : bool :=
  bytes_eqb k (ascii_bytes "id") || bytes_eqb k (ascii_bytes "version") || bytes_eqb k (ascii_bytes "crypto").
Fixpoint meta_included (m : jmap) (sup : jmap) : bool :=
  match m with
  | [] => true
  | (k, v) :: t =>
      (if protected_key k then true else
       match v with
       | JNull => true
       | _ => match mget k sup with Some v' => json_eqb (canon v) v' | None => false end
       end) && meta_included t sup
  end.

Definition id_of_doc (P : prims) (doc : json) : option bytes :=
  match v3_id doc with Some s => uuid_parse P s | None => None end.

(* result codes: 0 = agree; 1..9 = the model differs from the implementation; >= 10 = the implementation
   fails a property oracle *)
Definition check_case (fill : byte) (c : case) : N :=
  match c with
  | CNew T v pw key addr rnd extras cls doc consumed rcls rkey raddr rid rmeta =>
      let P := mk_prims T fill in
      let pw := bexpand pw in let key := bexpand key in let addr := bexpand addr in let rnd := bexpand rnd in
      let doc := jexpand doc in
      if negb (cls =? 0)%nat then 16                          (* creation panicked *)
      else
        (* property oracle 1: the document is standard V3 and decrypts to the key under the declared parameters *)
        match v3_decrypt P doc pw with
        | Ok k => if negb (bytes_eqb k key) then 10 else
          (* property oracle 2: reading it back returns key, address, id and every extra *)
          let exp_addr := match v with VLight | VStandard => addr | _ => address_of_key P key end in
          let ext_map := fold_left (fun m e => mset (bexpand (fst e)) (jexpand (snd e)) m) extras [] in
          let id_ok := match id_of_doc P doc with Some u => bytes_eqb u (bexpand rid) | None => false end in
          let meta_ok := match canon (jexpand rmeta) with JObj m => meta_included ext_map m | _ => false end in
          if negb ((rcls =? 0)%nat && bytes_eqb (bexpand rkey) key && bytes_eqb (bexpand raddr) exp_addr && id_ok && meta_ok)
          then 11
          else
            (* correspondence: the model predicts the file, the stream consumption and the read-back *)
            match model_new P v pw key addr rnd with
            | Ok (w, rest) =>
                let w := fold_left (fun w e => set_metadata w (bexpand (fst e)) (jexpand (snd e))) extras w in
                if negb (json_eqb (canon (JSON_tree w)) (canon doc)) then 1
                else if negb (N.of_nat (length rnd - length rest) =? consumed)%N then 4
                else match read_wallet_tree P doc pw with
                     | Ok w' => if wallet_matches P w' (bexpand rkey) (bexpand raddr) (bexpand rid) (jexpand rmeta) then 0 else 2
                     | _ => 2
                     end
            | _ => 1
            end
        | _ => 10
        end
  | CRead T doc pw cls key addr id meta =>
      let P := mk_prims T fill in
      let pw := bexpand pw in
      if (cls =? 2)%nat then 15                               (* ReadWalletFile panicked *)
      else
        let spec := match doc with Some d => v3_decrypt P (jexpand d) pw | None => Err SInvalid end in
        let model := match doc with Some d => read_wallet_tree P (jexpand d) pw | None => Err EJson end in
        match spec with
        | Ok k => if negb ((cls =? 0)%nat && bytes_eqb (bexpand key) k) then 13 else
                  match model with
                  | Ok w => if wallet_matches P w (bexpand key) (bexpand addr) (bexpand id) (jexpand meta) then 0 else 3
                  | _ => 3
                  end
        | _ => if (cls =? 0)%nat then 14 else
               match model with Err _ => 0 | _ => 3 end
        end
  end.

Fixpoint mismatches_go (i : N) (l : list case) : list (N * N) :=
  match l with
  | [] => []
  | c :: t =>
      let r := check_case x00 c in
      let r := if (r =? 0)%N then (let r' := check_case xff c in if (r' =? 0)%N then 0%N else 5%N) else r in
      if (r =? 0)%N then mismatches_go (i + 1) t else (i, r) :: mismatches_go (i + 1) t
  end.
Definition mismatches (l : list case) : list (N * N) := firstn 20 (mismatches_go 0 l).

(* Keccak-256 of the model against x/crypto/sha3: (input, digest) pairs written by the harness *)
Definition keccak_mismatches (l : list (bdsl * bdsl)) : list (N * N) :=
  firstn 20 ((fix go (i : N) (l : list (bdsl * bdsl)) : list (N * N) :=
     match l with
     | [] => []
     | (x, d) :: t => if bytes_eqb (keccak256 (bexpand x)) (bexpand d) then go (i + 1)%N t else (i, 6%N) :: go (i + 1)%N t
     end) 0%N l).
