(* C15, answers to the referee report (design/reviews/C15.md):
   (1) the allocation cap of scrypt.Key: boundary examples of [scrypt_alloc_ok], the model panics just beyond
       the cap and not at it, the tests that precede the KDF call still win beyond the cap;
   (3) "MAC valid but cost parameters malformed" in the property's wording, with the MAC judged the way
       the LIBRARY computes a key for the declared parameters (x/crypto treats c <= 0 like c = 1), so that
       the hypotheses are jointly satisfiable; the parameter limits of scrypt.Key in arithmetic terms;
   (4) structure malformations stated on the JSON tree, not through the model's decoder: a top level that
       is not an object; a top-level member id / version / crypto of the wrong JSON kind;
   (5) Panic IS reachable at every call site (so "<> Panic" is not true by construction); the result of
       decryption does not depend on the cipher member, for every primitives record. *)
From Coq Require Import String.
From Coq Require Import List NArith ZArith Lia Bool Arith.
From Coq Require Import Init.Byte.
From FFS Require Import Base.Res Base.Bytes Keystore.Json Keystore.Prims Keystore.Model Keystore.Spec
  Keystore.ReadTypes Keystore.TotalProofs Keystore.TotalProofs2 Keystore.TotalProofs4 Keystore.TotalProofs3.
Import ListNotations.
Local Open Scope string_scope.
Local Open Scope list_scope.

(* ================= (1) the allocation cap ================= *)
Local Open Scope Z_scope.

(* 128*N*r <= 2^48, i.e. N*r <= 2^41 *)
Lemma scrypt_alloc_ok_iff N r : scrypt_alloc_ok N r = true <-> N * r <= 2199023255552.
Proof. unfold scrypt_alloc_ok, maxAlloc. rewrite Z.leb_le. lia. Qed.

Example alloc_boundary :
  scrypt_alloc_ok 2199023255552 1 = true /\          (* N = 2^41, r = 1: AT the cap *)
  scrypt_alloc_ok 4398046511104 1 = false /\         (* N = 2^42, r = 1 *)
  scrypt_alloc_ok 1099511627776 2 = true /\          (* N = 2^40, r = 2: at the cap *)
  scrypt_alloc_ok 1099511627776 3 = false /\         (* N = 2^40, r = 3 *)
  scrypt_alloc_ok 17179869184 128 = true /\          (* N = 2^34, r = 128: at the cap *)
  scrypt_alloc_ok 17179869184 129 = false /\
  scrypt_alloc_ok 262144 8 = true /\                 (* geth's standard N = 2^18, r = 8 (256 MiB) *)
  (* all of them pass the library's own parameter test *)
  scrypt_pre 2199023255552 1 1 32 = true /\ scrypt_pre 4398046511104 1 1 32 = true /\
  scrypt_pre 1099511627776 3 1 32 = true /\ scrypt_pre 17179869184 129 1 32 = true /\
  scrypt_pre 36028797018963968 1 1 32 = true.        (* N = 2^55 = the largest N the library admits for r = 1 *)
Proof. vm_compute. repeat split; reflexivity. Qed.
Local Close Scope Z_scope.

(* just beyond the cap the model panics -- whatever the MAC, the IV and the password are; at the cap it
   does not; and beyond the cap the tests that precede the KDF call still give errors *)
Definition with_kdfparam (name : string) (v : json) (t : json) : json :=
  match t with
  | JObj [i; ver; (c, JObj [a; b; cp; kdf; (kpn, JObj kp); mac])] =>
      JObj [i; ver; (c, JObj [a; b; cp; kdf;
                              (kpn, JObj (map (fun m => if bytes_eqb (fst m) (k name) then (fst m, v) else m) kp)); mac])]
  | _ => t
  end.

Example beyond_cap_panics :
  cls (read_wallet_tree toy (toy_scrypt "4398046511104" "1" "1") []) = 2%nat /\
  cls (read_wallet_tree toy (toy_scrypt "1099511627776" "3" "1") [x70]) = 2%nat /\
  cost_capped toy (toy_scrypt "4398046511104" "1" "1") = false /\
  (* at the cap: no panic (the model assumes the allocation succeeds; the real process would die) *)
  cost_capped toy (toy_scrypt "2199023255552" "1" "1") = true /\
  cls (read_wallet_tree toy (toy_scrypt "2199023255552" "1" "1") []) = 0%nat /\
  (* beyond the cap, but rejected before the KDF call: dklen, r = 0, N not a power of two, N over the limit *)
  cls (read_wallet_tree toy (with_kdfparam "dklen" (JNum (k "31")) (toy_scrypt "4398046511104" "1" "1")) []) = 1%nat /\
  cls (read_wallet_tree toy (toy_scrypt "4398046511104" "0" "1") []) = 1%nat /\
  cls (read_wallet_tree toy (toy_scrypt "4398046511105" "1" "1") []) = 1%nat /\
  cls (read_wallet_tree toy (toy_scrypt "72057594037927936" "1" "1") []) = 1%nat /\
  (* the strict reading of n and r sees the same cap *)
  doc_alloc_ok (toy_scrypt "4398046511104" "1" "1") = false /\ doc_alloc_ok (toy_scrypt "2199023255552" "1" "1") = true /\
  doc_alloc_ok good = true.
Proof. vm_compute. repeat split; reflexivity. Qed.

(* ================= (3) MAC valid for the library, cost parameters malformed ================= *)
(* "the MAC is valid for the given password" judged with the key the LIBRARY returns for the declared
   parameters whatever they are ([mac_valid] of ReadTypes.v requires the cost parameters to be in the
   domain, which contradicts [cost_bad]).  The primitives record is a total function: outside the
   domain it stands for what the call returns when it returns (x/crypto's pbkdf2.Key treats c <= 0
   like c = 1: the harness's MAC recomputation follows the library the same way). *)
Definition mac_valid_lib (P : prims) (c : content) (pw : bytes) : bool :=
  let '(_, cc, kp) := c in
  let dk := match kp with
            | KScrypt sp => scrypt P pw (sp_salt sp) (sp_n sp) (sp_r sp) (sp_p sp) 32
            | KPbkdf2 pp => pbkdf2 P pw (pp_salt pp) (pp_c pp) 32
            end in
  bytes_eqb (hash P (skipn 16 dk ++ cc_ciphertext cc)) (cc_mac cc).

Lemma mac_valid_is_lib P c pw : mac_valid P c pw = cost_params_ok (snd c) && mac_valid_lib P c pw.
Proof. destruct c as [[cf cc] kp]. reflexivity. Qed.

(* no cap needed: the cost parameters (and dklen, prf, version, id) are tested before the KDF call *)
Theorem malformed_cost_rejected_mac_valid_lib P t pw c :
  decode_content P t = Some c -> mac_valid_lib P c pw = true ->
  (cost_bad c = true \/ dklen_bad c = true \/ prf_bad c = true \/ core_bad c = true) ->
  exists e, read_wallet_tree P t pw = Err e.
Proof.
  intros Hd _ H. apply malformed_rejected_early. rewrite Hd.
  destruct H as [H|[H|[H|H]]]; rewrite H; repeat rewrite orb_true_r; reflexivity.
Qed.

(* both hypotheses hold together: PBKDF2 c = 0 and c = -5, scrypt r = 0, N = 3 *)
Example mac_valid_lib_cost_bad_nonvacuous :
  let both t := match decode_content toy t with Some c => mac_valid_lib toy c [] && cost_bad c | None => false end in
  both (toy_pbkdf2 "aes-128-ctr" 16 "32" "0") = true /\ both (toy_pbkdf2 "aes-128-ctr" 16 "32" "-5") = true /\
  both (toy_scrypt "4" "0" "1") = true /\ both (toy_scrypt "3" "1" "1") = true /\
  cls (read_wallet_tree toy (toy_pbkdf2 "aes-128-ctr" 16 "32" "0") []) = 1%nat.
Proof. vm_compute. repeat split; reflexivity. Qed.

(* ---------- the parameter limits of scrypt.Key in arithmetic terms ---------- *)
(* [scrypt_params_ok] transcribes x/crypto's test (uint64 wrap-around, truncated division); what it
   amounts to: N > 1 a power of two, r*p < 2^30, 128*N*r <= maxInt, 256*r <= maxInt, 128*r*p <= maxInt *)
Local Open Scope Z_scope.

Lemma pow2_of_land n : 0 < n -> Z.land n (n - 1) = 0 -> n = 2 ^ Z.log2 n.
Proof.
  intros Hn Hl.
  pose proof (Z.log2_spec n Hn) as [Hlo Hhi].
  pose proof (Z.log2_nonneg n) as Hk.
  destruct (Z.eq_dec n (2 ^ Z.log2 n)) as [E|Ne]; [exact E|exfalso].
  assert (Hlo' : 2 ^ Z.log2 n <= n - 1) by lia.
  assert (Hpos : 0 < n - 1) by (pose proof (Z.pow_pos_nonneg 2 (Z.log2 n) ltac:(lia) Hk); lia).
  assert (Hlog : Z.log2 (n - 1) = Z.log2 n).
  { apply Z.log2_unique; [exact Hk|]. split; [exact Hlo'|]. rewrite Z.pow_succ_r in Hhi by exact Hk.
    rewrite Z.pow_succ_r by exact Hk. lia. }
  assert (B1 : Z.testbit n (Z.log2 n) = true) by (apply Z.bit_log2; exact Hn).
  assert (B2 : Z.testbit (n - 1) (Z.log2 n) = true) by (rewrite <- Hlog; apply Z.bit_log2; exact Hpos).
  assert (B : Z.testbit (Z.land n (n - 1)) (Z.log2 n) = true) by (rewrite Z.land_spec, B1, B2; reflexivity).
  rewrite Hl, Z.bits_0 in B. discriminate.
Qed.

Theorem scrypt_params_ok_arith N r p :
  0 < r -> 0 < p -> r <= maxInt -> p <= maxInt -> scrypt_params_ok N r p = true ->
  1 < N /\ (exists e, 0 < e /\ N = 2 ^ e) /\ r * p < 1073741824 /\ 128 * N * r <= maxInt.
Proof.
  intros Hr Hp Hrm Hpm H. unfold scrypt_params_ok in H.
  apply andb_prop in H as [H H4]. apply andb_prop in H as [H1 H2].
  apply Z.ltb_lt in H1. unfold is_pow2 in H2. apply andb_prop in H2 as [_ H2]. apply Z.eqb_eq in H2.
  apply negb_true_iff in H4. apply orb_false_iff in H4 as [H4 Hd]. apply orb_false_iff in H4 as [H4 Hc].
  apply orb_false_iff in H4 as [Ha Hb].
  apply Z.leb_gt in Ha. apply Z.ltb_ge in Hb, Hc, Hd.
  unfold maxInt in *.
  (* r <= maxInt/128/p, with p >= 1 and r >= 1: r * p <= maxInt/128 *)
  assert (Q1 : r * p <= 72057594037927935).
  { assert (E : Z.quot 9223372036854775807 128 = 72057594037927935) by reflexivity. rewrite E in Hb.
    rewrite Z.quot_div_nonneg in Hb by lia.
    pose proof (Z.mul_div_le 72057594037927935 p Hp). nia. }
  assert (Q2 : N * r <= 72057594037927935).
  { assert (E : Z.quot 9223372036854775807 128 = 72057594037927935) by reflexivity. rewrite E in Hd.
    rewrite Z.quot_div_nonneg in Hd by lia.
    pose proof (Z.mul_div_le 72057594037927935 r Hr). nia. }
  split; [exact H1|]. split.
  - exists (Z.log2 N). split; [apply Z.log2_pos; lia|]. apply pow2_of_land; [lia|exact H2].
  - split; [|lia].
    unfold u64 in Ha. rewrite (Z.mod_small r), (Z.mod_small p) in Ha by lia.
    rewrite Z.mod_small in Ha by nia. exact Ha.
Qed.

(* the converse reading the property lists: N <= 1, N not a power of two, r*p >= 2^30 are library errors,
   stated without [scrypt_params_ok]; the read path turns each into an error (never a key, never a panic) *)
Theorem scrypt_limits_rejected P c kp pw :
  sp_r kp <= maxInt -> sp_p kp <= maxInt ->
  (sp_n kp <= 1 \/ (forall e, sp_n kp <> 2 ^ e) \/ 1073741824 <= sp_r kp * sp_p kp \/ sp_r kp <= 0 \/ sp_p kp <= 0) ->
  exists e, scrypt_decrypt P c kp pw = Err e.
Proof.
  intros Hrm Hpm H. unfold scrypt_decrypt.
  destruct (sp_dklen kp =? derivedKeyLen) eqn:E1; cbn [negb]; [|eauto].
  destruct ((sp_r kp <=? 0) || (sp_p kp <=? 0)) eqn:E2; [eauto|].
  apply orb_false_iff in E2 as [Er Ep]. apply Z.leb_gt in Er, Ep.
  unfold call_scrypt.
  assert (Hd : scrypt_dom (sp_r kp) (sp_p kp) (sp_dklen kp) = true).
  { apply scrypt_guards_in_dom; [exact E1|]. apply orb_false_iff. split; apply Z.leb_gt; assumption. }
  rewrite Hd. cbn [negb].
  destruct (scrypt_params_ok (sp_n kp) (sp_r kp) (sp_p kp)) eqn:K; cbn [negb bind]; [|eauto].
  exfalso. destruct (scrypt_params_ok_arith _ _ _ Er Ep Hrm Hpm K) as (H1 & (e & _ & H2) & H3 & _).
  destruct H as [H|[H|[H|[H|H]]]]; try lia. exact (H e H2).
Qed.
Local Close Scope Z_scope.

(* ================= (4) structure, stated on the tree ================= *)
(* a top level that is not a JSON object (null, boolean, number, string, array) is an error *)
Theorem non_object_rejected P t pw :
  match t with JObj _ => False | _ => True end -> exists e, read_wallet_tree P t pw = Err e.
Proof.
  destruct t; intros H; try contradiction; unfold read_wallet_tree, unmarshal_wallet; cbn; eauto.
Qed.

(* a top-level member that encoding/json matches to id / version / crypto (any letter case, anywhere in the
   object, also next to a good duplicate) but whose value has the wrong JSON kind *)
Definition wrong_kind_top (key : bytes) (v : json) : bool :=
  (is_field key "crypto" && match v with JObj _ | JNull => false | _ => true end)
  || (is_field key "version" && match v with JNum _ | JNull => false | _ => true end)
  || (is_field key "id" && match v with JStr _ | JNull => false | _ => true end).

Lemma fold_members_err {S} (step : S -> bytes -> json -> res S) key v :
  (forall st kk vv, step st kk vv <> Panic) ->
  (forall st, exists e, step st key v = Err e) ->
  forall ms st, In (key, v) ms -> exists e, fold_members step ms st = Err e.
Proof.
  intros Hnp Herr ms. induction ms as [|[k' v'] tl IH]; intros st Hin; [contradiction|].
  cbn [fold_members]. destruct (step st k' v') as [st'|e|] eqn:E.
  - cbn [bind]. destruct Hin as [Heq|Hin]; [|apply IH; exact Hin].
    injection Heq as -> ->. destruct (Herr st) as [e He]. congruence.
  - cbn [bind]. eauto.
  - exfalso. exact (Hnp _ _ _ E).
Qed.

Lemma wrong_kind_step P {C} (sc : C -> bytes -> json -> res C) key v :
  wrong_kind_top key v = true -> forall st, exists e, step_wallet P sc st key v = Err e.
Proof.
  unfold wrong_kind_top. intros H st. unfold step_wallet, step_core.
  destruct (is_field key "id") eqn:Fi.
  - destruct (is_field key "crypto") eqn:Fc; [excl|]. destruct (is_field key "version") eqn:Fv; [excl|].
    cbn [andb orb] in H. destruct v; try discriminate; cbn; eauto.
  - destruct (is_field key "version") eqn:Fv.
    + destruct (is_field key "crypto") eqn:Fc; [excl|].
      cbn [andb orb] in H. rewrite orb_false_r in H. destruct v; try discriminate; cbn; eauto.
    + destruct (is_field key "crypto") eqn:Fc; [|discriminate].
      cbn [andb orb] in H. rewrite !orb_false_r in H. destruct v; try discriminate; cbn; eauto.
Qed.

Theorem wrong_kind_rejected P ms pw :
  existsb (fun m => wrong_kind_top (fst m) (snd m)) ms = true ->
  exists e, read_wallet_tree P (JObj ms) pw = Err e.
Proof.
  intros H. apply existsb_exists in H as ([key v] & Hin & Hw). cbn [fst snd] in Hw.
  unfold read_wallet_tree, unmarshal_wallet. cbn [dec_object].
  destruct (fold_members_err (step_wallet P step_crypto_only) key v) with (ms := ms) (st := (zero_core, zero_cc)) as [e He].
  - intros. apply step_wallet_np. apply step_crypto_only_np.
  - apply wrong_kind_step. exact Hw.
  - exact Hin.
  - rewrite He. cbn [bind]. eauto.
Qed.

Example wrong_kind_nonvacuous :
  existsb (fun m => wrong_kind_top (fst m) (snd m))
          [(k "id", JStr (k "x")); (k "Version", JStr (k "3")); (k "crypto", JObj [])] = true /\
  existsb (fun m => wrong_kind_top (fst m) (snd m)) [(k "CRYPTO", JArr [])] = true /\
  existsb (fun m => wrong_kind_top (fst m) (snd m)) [(k "id", JNum (k "1"))] = true /\
  match good with JObj ms => existsb (fun m => wrong_kind_top (fst m) (snd m)) ms | _ => true end = false.
Proof. vm_compute. repeat split; reflexivity. Qed.

(* ================= (5) minor points ================= *)
(* Panic is reachable at every call site of the model: the totality theorems are not true by construction *)
Example call_sites_can_panic :
  cls (call_scrypt toy [] [] 4 0 1 32) = 2%nat /\            (* r = 0: integer divide by zero *)
  cls (call_scrypt toy [] [] 4 1 1 (-1)) = 2%nat /\         (* keyLen < 0: slice bounds *)
  cls (call_scrypt toy [] [] 4398046511104 1 1 32) = 2%nat /\ (* makeslice: len out of range *)
  cls (call_pbkdf2 toy [] [] 1 (-1)) = 2%nat /\             (* keyLen < 0 *)
  cls (call_pbkdf2 toy [] [] 0 32) = 2%nat /\               (* modelled as outside the domain (PBKDF2 undefined) *)
  cls (call_ctr toy (repeat x00 16) [] [x01]) = 2%nat /\    (* cipher.NewCTR: IV length *)
  cls (slice [x01; x02] 1 3) = 2%nat /\                     (* derivedKey[16:32] on a short key *)
  cls (readScryptWalletFile toy JNull [] None) = 2%nat /\   (* nil *walletFileScrypt *)
  cls (readPbkdf2WalletFile toy JNull [] None) = 2%nat /\
  cls (mustReadBytes 4 [x00]) = 2%nat.
Proof. vm_compute. repeat split; reflexivity. Qed.

(* for EVERY primitives record: decryption never looks at the cipher member (the honest form of the
   two [_refuted] theorems, whose witness uses a constant hash) *)
Definition set_cipher (c : crypto_common) (s : bytes) : crypto_common :=
  {| cc_cipher := s; cc_ciphertext := cc_ciphertext c; cc_iv := cc_iv c; cc_kdf := cc_kdf c; cc_mac := cc_mac c |}.

Theorem decrypt_ignores_cipher P c s :
  (forall dk, decryptCommon P (set_cipher c s) dk = decryptCommon P c dk) /\
  (forall kp pw, scrypt_decrypt P (set_cipher c s) kp pw = scrypt_decrypt P c kp pw) /\
  (forall kp pw, pbkdf2_decrypt P (set_cipher c s) kp pw = pbkdf2_decrypt P c kp pw).
Proof. repeat split. Qed.
