(* C07, fresh randomness: a creation reads its salt, its IV and its UUID from consecutive, disjoint
   parts of the random stream; over any history of creations the stream is partitioned into the
   parts each creation consumed, so no position is read twice. *)
From Coq Require Import String.
From Coq Require Import List NArith ZArith Lia Bool Arith.
From Coq Require Import Init.Byte.
From FFS Require Import Base.Res Base.Bytes Keystore.Json Keystore.Prims Keystore.Model.
Import ListNotations.

Lemma mustReadBytes_ok n rnd a rest :
  mustReadBytes n rnd = Ok (a, rest) -> rnd = a ++ rest /\ length a = n.
Proof.
  unfold mustReadBytes. destruct (n <=? length rnd)%nat eqn:E; [|discriminate].
  intros H; injection H as <- <-. apply Nat.leb_le in E. split.
  - symmetry; apply firstn_skipn.
  - apply firstn_length_le; exact E.
Qed.

Lemma new_uuid_ok rnd u rest :
  new_uuid rnd = Ok (u, rest) -> exists raw, rnd = raw ++ rest /\ length raw = 16%nat.
Proof.
  unfold new_uuid. destruct (mustReadBytes 16 rnd) as [[raw rest']| |] eqn:E; simpl; try discriminate.
  intros H; injection H as _ <-. exists raw. apply mustReadBytes_ok; exact E.
Qed.

Definition wallet_salt (w : wallet) : bytes :=
  match w_kdfparams w with KScrypt s => sp_salt s | KPbkdf2 p => pp_salt p end.
Definition wallet_iv (w : wallet) : bytes := cc_iv (w_crypto w).

(* what one creation consumed: salt, IV, 16 bytes for the UUID *)
Definition consumed_by (w : wallet) (raw_uuid : bytes) : bytes := wallet_salt w ++ wallet_iv w ++ raw_uuid.

Lemma new_bytes_stream P pw key n p rnd w rest :
  newScryptWalletFileBytes P pw key n p rnd = Ok (w, rest) ->
  exists raw, rnd = wallet_salt w ++ wallet_iv w ++ raw ++ rest /\
              length (wallet_salt w) = 32%nat /\ length (wallet_iv w) = 16%nat /\ length raw = 16%nat.
Proof.
  unfold newScryptWalletFileBytes.
  destruct (mustReadBytes 32 rnd) as [[salt r1]| |] eqn:E1; simpl; try discriminate.
  destruct (mustGenerateDerivedScryptKey P pw salt n p) as [dk| |]; simpl; try discriminate.
  destruct (mustReadBytes 16 r1) as [[iv r2]| |] eqn:E2; simpl; try discriminate.
  destruct (reslice dk 0 16) as [ek| |]; simpl; try discriminate.
  destruct (mustAES128CtrEncrypt P (gs_data ek) iv key) as [ct| |]; simpl; try discriminate.
  destruct (reslice dk 16 32) as [mk| |]; simpl; try discriminate.
  destruct (new_uuid r2) as [[id r3]| |] eqn:E3; simpl; try discriminate.
  intros H; injection H as <- <-.
  apply mustReadBytes_ok in E1 as [-> L1]. apply mustReadBytes_ok in E2 as [-> L2].
  apply new_uuid_ok in E3 as [raw [-> L3]].
  exists raw. unfold wallet_salt, wallet_iv; simpl. auto.
Qed.

Lemma set_metadata_salt w k v : wallet_salt (set_metadata w k v) = wallet_salt w.
Proof. reflexivity. Qed.
Lemma set_metadata_iv w k v : wallet_iv (set_metadata w k v) = wallet_iv w.
Proof. reflexivity. Qed.

Lemma new_secp_stream P pw kp n p rnd w rest :
  newScryptWalletFileSecp256k1 P pw kp n p rnd = Ok (w, rest) ->
  exists raw, rnd = wallet_salt w ++ wallet_iv w ++ raw ++ rest /\
              length (wallet_salt w) = 32%nat /\ length (wallet_iv w) = 16%nat /\ length raw = 16%nat.
Proof.
  unfold newScryptWalletFileSecp256k1.
  destruct (newScryptWalletFileBytes P pw (kp_private kp) n p rnd) as [[wf r]| |] eqn:E; simpl; try discriminate.
  intros H; injection H as <- <-. rewrite set_metadata_salt, set_metadata_iv.
  eapply new_bytes_stream; exact E.
Qed.

(* ---- histories ---- *)
Inductive creation :=
| MkLight (pw : bytes) (kp : keypair)
| MkStandard (pw : bytes) (kp : keypair)
| MkCustomLight (pw key : bytes)
| MkCustomStandard (pw key : bytes).

Definition create (P : prims) (c : creation) (rnd : bytes) : res (wallet * bytes) :=
  match c with
  | MkLight pw kp => NewWalletFileLight P pw kp rnd
  | MkStandard pw kp => NewWalletFileStandard P pw kp rnd
  | MkCustomLight pw key => NewWalletFileCustomBytesLight P pw key rnd
  | MkCustomStandard pw key => NewWalletFileCustomBytesStandard P pw key rnd
  end.

(* a process creating files one after the other from the same random source *)
Fixpoint create_all (P : prims) (cs : list creation) (rnd : bytes) : res (list wallet * bytes) :=
  match cs with
  | [] => Ok ([], rnd)
  | c :: t => do (w, r1) <- create P c rnd; do (ws, r2) <- create_all P t r1; Ok (w :: ws, r2)
  end.

Lemma create_stream P c rnd w rest :
  create P c rnd = Ok (w, rest) ->
  exists raw, rnd = wallet_salt w ++ wallet_iv w ++ raw ++ rest /\
              length (wallet_salt w) = 32%nat /\ length (wallet_iv w) = 16%nat /\ length raw = 16%nat.
Proof.
  destruct c; simpl; unfold NewWalletFileLight, NewWalletFileStandard, NewWalletFileCustomBytesLight,
    NewWalletFileCustomBytesStandard; intros H;
    first [eapply new_secp_stream; exact H | eapply new_bytes_stream; exact H].
Qed.

(* the stream is the concatenation of what each creation consumed, followed by the unread rest: the
   i-th file's salt and IV sit at offsets 64 i and 64 i + 32 — all 2 |cs| pieces pairwise disjoint *)
Theorem fresh_randomness P cs rnd ws rest :
  create_all P cs rnd = Ok (ws, rest) ->
  length ws = length cs /\
  exists raws, length raws = length ws /\ Forall (fun r => length r = 16%nat) raws /\
    Forall (fun w => length (wallet_salt w) = 32%nat /\ length (wallet_iv w) = 16%nat) ws /\
    rnd = concat (map (fun wr => consumed_by (fst wr) (snd wr)) (combine ws raws)) ++ rest.
Proof.
  revert rnd ws rest. induction cs as [|c cs IH]; intros rnd ws rest; simpl.
  - intros H; injection H as <- <-. split; [reflexivity|]. exists []. simpl. auto.
  - destruct (create P c rnd) as [[w r1]| |] eqn:E; simpl; try discriminate.
    destruct (create_all P cs r1) as [[ws' r2]| |] eqn:E2; simpl; try discriminate.
    intros H; injection H as <- <-.
    apply create_stream in E as [raw [-> [L1 [L2 L3]]]].
    destruct (IH _ _ _ E2) as [Hl [raws [Hr [Hf [Hw Hc]]]]].
    split; [simpl; congruence|]. exists (raw :: raws). simpl. repeat split; auto.
    rewrite Hc. unfold consumed_by. rewrite <- !app_assoc. reflexivity.
Qed.

(* consequence: the position of every salt and IV in the stream *)
Corollary fresh_positions P cs rnd ws rest i w :
  create_all P cs rnd = Ok (ws, rest) -> nth_error ws i = Some w ->
  firstn 32 (skipn (64 * i) rnd) = wallet_salt w /\ firstn 16 (skipn (64 * i + 32) rnd) = wallet_iv w.
Proof.
  revert rnd ws rest i. induction cs as [|c cs IH]; intros rnd ws rest i; cbn [create_all].
  - intros H; injection H as <- <-. destruct i; discriminate.
  - destruct (create P c rnd) as [[w0 r1]| |] eqn:E; cbn [bind]; try discriminate.
    destruct (create_all P cs r1) as [[ws' r2]| |] eqn:E2; cbn [bind]; try discriminate.
    intros H; injection H as <- <-.
    apply create_stream in E as [raw [-> [L1 [L2 L3]]]].
    destruct i as [|i]; cbn [nth_error].
    + intros H; injection H as <-. rewrite Nat.mul_0_r. cbn [Nat.add]. split.
      * rewrite skipn_O, firstn_app, L1, Nat.sub_diag, firstn_O, app_nil_r, <- L1. apply firstn_all.
      * replace 32%nat with (length (wallet_salt w0)) at 1 by exact L1.
        rewrite skipn_prefix. rewrite firstn_app, L2, Nat.sub_diag, firstn_O, app_nil_r, <- L2. apply firstn_all.
    + intros Hn. destruct (IH _ _ _ _ E2 Hn) as [A B].
      assert (S1 : forall k, skipn (64 + k) (wallet_salt w0 ++ wallet_iv w0 ++ raw ++ r1) = skipn k r1).
      { intros k. rewrite !app_assoc.
        replace (64 + k)%nat with (length ((wallet_salt w0 ++ wallet_iv w0) ++ raw) + k)%nat
          by (rewrite !app_length; lia).
        rewrite <- skipn_skipn'. rewrite skipn_prefix. reflexivity. }
      replace (64 * S i)%nat with (64 + 64 * i)%nat by lia.
      replace (64 + 64 * i + 32)%nat with (64 + (64 * i + 32))%nat by lia.
      rewrite !S1. auto.
Qed.
