(* Definitions used by the statements of property C15 (reading a keystore file is total) and by its
   evaluator RunC15.v: the decoded content of a key file, the V3 acceptance conditions on that content,
   the "strictly formed document" predicate under which the typed decoding of the model and the strict
   reading of Keystore/Spec.v see the same members, and the "malformed" predicates of the property
   text.  No proofs here. *)
From Coq Require Import String.
From Coq Require Import List NArith ZArith Lia Bool Arith.
From Coq Require Import Init.Byte.
From FFS Require Import Base.Res Base.Bytes Keystore.Json Keystore.Prims Keystore.Model Keystore.Spec.
Import ListNotations.
Local Open Scope string_scope.
Local Open Scope list_scope.

(* ---------- the typed decodings the read path performs ---------- *)
Definition decode_common (P : prims) (t : json) : res (core_fields * crypto_common) :=
  unmarshal_wallet P step_crypto_only zero_cc t.
Definition decode_scrypt (P : prims) (t : json) : res (core_fields * (crypto_common * scrypt_params)) :=
  unmarshal_wallet P (step_crypto_with step_scrypt_params) (zero_cc, zero_sp) t.
Definition decode_pbkdf2 (P : prims) (t : json) : res (core_fields * (crypto_common * pbkdf2_params)) :=
  unmarshal_wallet P (step_crypto_with step_pbkdf2_params) (zero_cc, zero_pp) t.

(* what a key file says, as pkg/keystorev3 decodes it: id/version (first pass), then the crypto object
   and the kdfparams of the KDF the first pass named *)
Definition content := (core_fields * crypto_common * kdf_params)%type.

Definition decode_content (P : prims) (t : json) : option content :=
  match decode_common P t with
  | Ok (cf, cc0) =>
      if bytes_eqb (cc_kdf cc0) kdfTypeScrypt then
        match decode_scrypt P t with
        | Ok (_, (cc, sp)) => Some (cf, cc, KScrypt sp)
        | _ => None
        end
      else if bytes_eqb (cc_kdf cc0) kdfTypePbkdf2 then
        match decode_pbkdf2 P t with
        | Ok (_, (cc, pp)) => Some (cf, cc, KPbkdf2 pp)
        | _ => None
        end
      else None
  | _ => None
  end.

(* ---------- Web3 Secret Storage V3 acceptance, on decoded content ---------- *)
(* cost parameters inside the KDF's domain (the property's "cost parameters"): scrypt N > 1 a power of
   two, r, p > 0, r*p < 2^30 and the library's size limits; PBKDF2 c >= 1 *)
Definition cost_params_ok (kp : kdf_params) : bool :=
  match kp with
  | KScrypt sp => scrypt_pre (sp_n sp) (sp_r sp) (sp_p sp) 32
  | KPbkdf2 pp => pbkdf2_pre (pp_c pp) 32
  end.
Definition dklen_of (kp : kdf_params) : Z :=
  match kp with KScrypt sp => sp_dklen sp | KPbkdf2 pp => pp_dklen pp end.
Definition prf_ok (kp : kdf_params) : bool :=
  match kp with KScrypt _ => true | KPbkdf2 pp => bytes_eqb (pp_prf pp) prfHmacSHA256 end.

(* DK = KDF(password, kdfparams), 32 bytes; None = parameters outside the standard *)
Definition content_dk (P : prims) (kp : kdf_params) (pw : bytes) : option bytes :=
  if (dklen_of kp =? 32)%Z && cost_params_ok kp && prf_ok kp then
    Some match kp with
         | KScrypt sp => scrypt P pw (sp_salt sp) (sp_n sp) (sp_r sp) (sp_p sp) 32
         | KPbkdf2 pp => pbkdf2 P pw (pp_salt pp) (pp_c pp) 32
         end
  else None.

Definition is_some {A} (o : option A) : bool := match o with Some _ => true | None => false end.

(* the key the V3 definition derives from this content and password (cipher not looked at):
   version 3, an id, a 16-byte IV, DK defined, keccak(DK[16..32] ++ ciphertext) = mac,
   key = AES-128-CTR(DK[0..16], iv, ciphertext) *)
Definition content_key (P : prims) (c : content) (pw : bytes) : option bytes :=
  let '(cf, cc, kp) := c in
  if (cf_version cf =? 3)%Z && is_some (cf_id cf) && (length (cc_iv cc) =? 16)%nat then
    match content_dk P kp pw with
    | Some dk =>
        if bytes_eqb (hash P (skipn 16 dk ++ cc_ciphertext cc)) (cc_mac cc)
        then Some (aes_ctr P (firstn 16 dk) (cc_iv cc) (cc_ciphertext cc))
        else None
    | None => None
    end
  else None.

(* "the MAC is valid for the given password": some 32-byte derived key exists for the declared cost
   parameters (whatever dklen / prf / IV / cipher say) and its second half authenticates the ciphertext *)
Definition mac_valid (P : prims) (c : content) (pw : bytes) : bool :=
  let '(_, cc, kp) := c in
  cost_params_ok kp &&
  let dk := match kp with
            | KScrypt sp => scrypt P pw (sp_salt sp) (sp_n sp) (sp_r sp) (sp_p sp) 32
            | KPbkdf2 pp => pbkdf2 P pw (pp_salt pp) (pp_c pp) 32
            end in
  bytes_eqb (hash P (skipn 16 dk ++ cc_ciphertext cc)) (cc_mac cc).

(* the malformations the property lists, on decoded content; [structure] = the document does not decode *)
Definition iv_bad (c : content) : bool := let '(_, cc, _) := c in negb (length (cc_iv cc) =? 16)%nat.
Definition dklen_bad (c : content) : bool := let '(_, _, kp) := c in negb (dklen_of kp =? 32)%Z.
Definition cost_bad (c : content) : bool := let '(_, _, kp) := c in negb (cost_params_ok kp).
Definition prf_bad (c : content) : bool := let '(_, _, kp) := c in negb (prf_ok kp).
Definition cipher_bad (c : content) : bool := let '(_, cc, _) := c in negb (bytes_eqb (cc_cipher cc) cipherAES128ctr).
Definition core_bad (c : content) : bool := let '(cf, _, _) := c in negb ((cf_version cf =? 3)%Z && is_some (cf_id cf)).

(* ---------- the property's "cost parameters capped so the KDF itself stays affordable" ---------- *)
(* The part of that cap which is a matter of panics and not of patience: the work area of scrypt.Key,
   make([]uint32, 32*N*r), must fit the Go runtime's allocation limit ([scrypt_alloc_ok]: 128*N*r <= 2^48);
   beyond it the real call panics in runtime.makeslice and so does the model ([call_scrypt]).  The guard
   is stated on what the code decodes from the document: the n and r of the scrypt pass of
   encoding/json when the first pass names the kdf "scrypt"; a PBKDF2 file, a document that does not
   decode, bytes that do not lex are capped. *)
Definition kdf_cost_capped (kp : kdf_params) : bool :=
  match kp with KScrypt sp => scrypt_alloc_ok (sp_n sp) (sp_r sp) | KPbkdf2 _ => true end.
Definition cost_capped (P : prims) (t : json) : bool :=
  match decode_content P t with Some (_, _, kp) => kdf_cost_capped kp | None => true end.
Definition cost_capped_bytes (P : prims) (data : bytes) : bool :=
  match json_parse P data with Some t => cost_capped P t | None => true end.

(* the same cap in the vocabulary of the strict specification (Keystore/Spec.v): the members "n" and "r"
   of crypto.kdfparams, read strictly; a document without them is capped.  On strictly formed scrypt
   documents it coincides with [cost_capped] (TotalProofs4.wellformed_alloc). *)
Definition doc_alloc_ok (doc : json) : bool :=
  match doc with
  | JObj top =>
      match obj_field "crypto" top with
      | Some c =>
          match obj_field "kdfparams" c with
          | Some kp =>
              match int_field "n" kp, int_field "r" kp with
              | Some n, Some r => scrypt_alloc_ok n r
              | _, _ => true
              end
          | None => true
          end
      | None => true
      end
  | _ => true
  end.

(* ---------- strictly formed documents ---------- *)
(* among [ms], every member whose name matches [f] the way encoding/json matches struct fields (case
   folding) is spelled exactly [f], and there is exactly one *)
Definition exact_once (ms : list (bytes * json)) (f : string) : bool :=
  match filter (fun m => is_field (fst m) f) ms with
  | [(k, _)] => bytes_eqb k (ascii_bytes f)
  | _ => false
  end.
Definition exact_members (fs : list string) (ms : list (bytes * json)) : bool :=
  forallb (exact_once ms) fs.

Definition wf_hex (name : string) (ms : list (bytes * json)) : bool := is_some (hex_field name ms).
Definition wf_str (name : string) (ms : list (bytes * json)) : bool := is_some (str_field name ms).
Definition wf_int (name : string) (ms : list (bytes * json)) : bool :=
  match field name ms with Some (JNum l) => is_some (parse_int64 l) | _ => false end.

Definition wf_kdfparams (kdf : bytes) (kp : list (bytes * json)) : bool :=
  if bytes_eqb kdf kdfTypeScrypt then
    exact_members ["dklen"; "n"; "r"; "p"; "salt"] kp
    && wf_int "dklen" kp && wf_int "n" kp && wf_int "r" kp && wf_int "p" kp && wf_hex "salt" kp
  else if bytes_eqb kdf kdfTypePbkdf2 then
    exact_members ["dklen"; "c"; "prf"; "salt"] kp
    && wf_int "dklen" kp && wf_int "c" kp && wf_str "prf" kp && wf_hex "salt" kp
  else true.

(* all members the V3 definition names are present exactly once under their exact names with the right
   JSON kinds (integers as integer literals, byte strings as plain hex), and no other member is an
   alias of one of them *)
Definition v3_wellformed (t : json) : bool :=
  match t with
  | JObj top =>
      exact_members ["id"; "version"; "crypto"] top &&
      match field "version" top, str_field "id" top, obj_field "crypto" top with
      | Some (JNum v), Some id, Some c =>
          (* the version is a canonical integer literal *)
          match parse_int64 v with Some z => bytes_eqb v (print_Z z) | None => false end && uuid_text_ok id &&
          exact_members ["cipher"; "ciphertext"; "cipherparams"; "kdf"; "kdfparams"; "mac"] c &&
          wf_str "cipher" c && wf_hex "ciphertext" c && wf_hex "mac" c &&
          match obj_field "cipherparams" c, str_field "kdf" c, obj_field "kdfparams" c with
          | Some cp, Some kdf, Some kp =>
              exact_members ["iv"] cp && wf_hex "iv" cp && wf_kdfparams kdf kp
          | _, _, _ => false
          end
      | _, _, _ => false
      end
  | _ => false
  end.
