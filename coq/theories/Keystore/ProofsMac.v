(* C07, acceptance needs the MAC: whenever the read path returns a wallet, the file's MAC equals
   Keccak(second half of the derived key ++ ciphertext) for the password given, and the key returned
   is the AES-128-CTR decryption under the first half.  Consequently a second accepted
   (file, password) pair with the same MAC but another ciphertext or another MAC key exhibits a
   collision of the hash function — stated explicitly, nothing cryptographic is assumed. *)
From Coq Require Import String.
From Coq Require Import List NArith ZArith Lia Bool Arith.
From Coq Require Import Init.Byte.
From FFS Require Import Base.Res Base.Bytes Keystore.Json Keystore.Prims Keystore.Model.
Import ListNotations.

Ltac smp := cbn [bind negb orb andb w_core w_metadata w_crypto w_kdfparams w_private fst snd].

(* DK = KDF(password, the wallet's declared parameters) *)
Definition derived_key (P : prims) (w : wallet) (pw : bytes) : bytes :=
  match w_kdfparams w with
  | KScrypt s => scrypt P pw (sp_salt s) (sp_n s) (sp_r s) (sp_p s) 32
  | KPbkdf2 p => pbkdf2 P pw (pp_salt p) (pp_c p) 32
  end.
Definition enc_key (P : prims) (w : wallet) (pw : bytes) : bytes := firstn 16 (derived_key P w pw).
Definition mac_key (P : prims) (w : wallet) (pw : bytes) : bytes := skipn 16 (derived_key P w pw).

(* the wallet's crypto section is what encoding/json decodes from the document *)
Definition decoded_from (P : prims) (t : json) (w : wallet) : Prop :=
  match w_kdfparams w with
  | KScrypt s => unmarshal_wallet P (step_crypto_with step_scrypt_params) (zero_cc, zero_sp) t = Ok (w_core w, (w_crypto w, s))
  | KPbkdf2 p => unmarshal_wallet P (step_crypto_with step_pbkdf2_params) (zero_cc, zero_pp) t = Ok (w_core w, (w_crypto w, p))
  end.

(* the declared cost parameters are inside the KDF's domain *)
Definition params_in_domain (w : wallet) : Prop :=
  match w_kdfparams w with
  | KScrypt s => sp_dklen s = 32%Z /\ scrypt_pre (sp_n s) (sp_r s) (sp_p s) 32 = true
  | KPbkdf2 p => pp_dklen p = 32%Z /\ pbkdf2_pre (pp_c p) 32 = true /\ pp_prf p = prfHmacSHA256
  end.

Lemma slice_hi_half (dk : bytes) : length dk = 32%nat -> slice dk 16 32 = Ok (skipn 16 dk).
Proof.
  intros L. rewrite slice_ok by lia. f_equal. apply firstn_all2. rewrite skipn_length. lia.
Qed.
Lemma slice_lo_half (dk : bytes) : length dk = 32%nat -> slice dk 0 16 = Ok (firstn 16 dk).
Proof. intros L. rewrite slice_ok by lia. reflexivity. Qed.

Lemma decryptCommon_ok P c dk key :
  decryptCommon P c dk = Ok key ->
  length dk = 32%nat /\
  hash P (skipn 16 dk ++ cc_ciphertext c) = cc_mac c /\
  length (cc_iv c) = 16%nat /\
  key = aes_ctr P (firstn 16 dk) (cc_iv c) (cc_ciphertext c).
Proof.
  unfold decryptCommon. destruct (length dk =? 32)%nat eqn:L; smp; [|discriminate].
  apply Nat.eqb_eq in L. rewrite slice_hi_half by exact L. smp.
  unfold generateMac. destruct (bytes_eqb_spec (hash P (skipn 16 dk ++ cc_ciphertext c)) (cc_mac c)) as [M|M]; smp; [|discriminate].
  rewrite slice_lo_half by exact L. smp. unfold aes128CtrDecrypt.
  destruct (aes_key_ok (firstn 16 dk)); smp; [|discriminate].
  destruct (length (cc_iv c) =? 16)%nat eqn:I; smp; [|discriminate].
  unfold call_ctr, ctr_iv_pre. rewrite I. smp. intros H; injection H as <-.
  apply Nat.eqb_eq in I. auto.
Qed.

Lemma scrypt_decrypt_ok P c s pw key :
  scrypt_decrypt P c s pw = Ok key ->
  sp_dklen s = 32%Z /\ scrypt_pre (sp_n s) (sp_r s) (sp_p s) 32 = true /\
  decryptCommon P c (scrypt P pw (sp_salt s) (sp_n s) (sp_r s) (sp_p s) 32) = Ok key.
Proof.
  unfold scrypt_decrypt, derivedKeyLen.
  destruct (sp_dklen s =? 32)%Z eqn:D; smp; [|discriminate]. apply Z.eqb_eq in D. rewrite D.
  destruct ((sp_r s <=? 0)%Z || (sp_p s <=? 0)%Z) eqn:RP; smp; [discriminate|].
  unfold call_scrypt.
  destruct (scrypt_dom (sp_r s) (sp_p s) 32) eqn:Dm; smp; [|discriminate].
  destruct (scrypt_params_ok (sp_n s) (sp_r s) (sp_p s)) eqn:Pk; smp; [|discriminate].
  destruct (scrypt_alloc_ok (sp_n s) (sp_r s)); smp; [|discriminate].
  intros H. split; [reflexivity|]. split; [|exact H].
  unfold scrypt_pre. rewrite Dm, Pk. reflexivity.
Qed.

Lemma pbkdf2_decrypt_ok P c p pw key :
  pbkdf2_decrypt P c p pw = Ok key ->
  pp_dklen p = 32%Z /\ pbkdf2_pre (pp_c p) 32 = true /\ pp_prf p = prfHmacSHA256 /\
  decryptCommon P c (pbkdf2 P pw (pp_salt p) (pp_c p) 32) = Ok key.
Proof.
  unfold pbkdf2_decrypt, derivedKeyLen.
  destruct (bytes_eqb_spec (pp_prf p) prfHmacSHA256) as [F|F]; smp; [|discriminate].
  destruct (pp_dklen p =? 32)%Z eqn:D; smp; [|discriminate]. apply Z.eqb_eq in D. rewrite D.
  destruct (pp_c p <=? 0)%Z eqn:C; smp; [discriminate|].
  unfold call_pbkdf2. destruct (pbkdf2_pre (pp_c p) 32) eqn:Pre; smp; [|discriminate].
  intros H. auto.
Qed.

Lemma readScrypt_ok P t pw md w :
  readScryptWalletFile P t pw md = Ok w ->
  exists s, w_kdfparams w = KScrypt s /\ decoded_from P t w /\
            scrypt_decrypt P (w_crypto w) s pw = Ok (w_private w).
Proof.
  unfold readScryptWalletFile.
  destruct (unmarshal_wallet P (step_crypto_with step_scrypt_params) (zero_cc, zero_sp) t) as [[cf [cc s]]| |] eqn:U.
  2,3: destruct t; smp; discriminate.
  assert (H0 : (do key <- scrypt_decrypt P cc s pw;
                Ok {| w_core := cf; w_metadata := match md with Some m => m | None => [] end;
                      w_crypto := cc; w_kdfparams := KScrypt s; w_private := key |}) = Ok w -> 
               exists s0, w_kdfparams w = KScrypt s0 /\ decoded_from P t w /\ scrypt_decrypt P (w_crypto w) s0 pw = Ok (w_private w)).
  { destruct (scrypt_decrypt P cc s pw) as [key| |] eqn:D; smp; try discriminate.
    intros H; injection H as <-. exists s. unfold decoded_from; smp. auto. }
  destruct t; smp; try discriminate; exact H0.
Qed.

Lemma readPbkdf2_ok P t pw md w :
  readPbkdf2WalletFile P t pw md = Ok w ->
  exists p, w_kdfparams w = KPbkdf2 p /\ decoded_from P t w /\
            pbkdf2_decrypt P (w_crypto w) p pw = Ok (w_private w).
Proof.
  unfold readPbkdf2WalletFile.
  destruct (unmarshal_wallet P (step_crypto_with step_pbkdf2_params) (zero_cc, zero_pp) t) as [[cf [cc p]]| |] eqn:U.
  2,3: destruct t; smp; discriminate.
  assert (H0 : (do key <- pbkdf2_decrypt P cc p pw;
                Ok {| w_core := cf; w_metadata := match md with Some m => m | None => [] end;
                      w_crypto := cc; w_kdfparams := KPbkdf2 p; w_private := key |}) = Ok w -> 
               exists p0, w_kdfparams w = KPbkdf2 p0 /\ decoded_from P t w /\ pbkdf2_decrypt P (w_crypto w) p0 pw = Ok (w_private w)).
  { destruct (pbkdf2_decrypt P cc p pw) as [key| |] eqn:D; smp; try discriminate.
    intros H; injection H as <-. exists p. unfold decoded_from; smp. auto. }
  destruct t; smp; try discriminate; exact H0.
Qed.

Theorem accept_needs_mac P t pw w :
  read_wallet_tree P t pw = Ok w ->
  decoded_from P t w /\ params_in_domain w /\
  length (derived_key P w pw) = 32%nat /\
  hash P (mac_key P w pw ++ cc_ciphertext (w_crypto w)) = cc_mac (w_crypto w) /\
  length (cc_iv (w_crypto w)) = 16%nat /\
  w_private w = aes_ctr P (enc_key P w pw) (cc_iv (w_crypto w)) (cc_ciphertext (w_crypto w)).
Proof.
  unfold read_wallet_tree.
  destruct (unmarshal_wallet P step_crypto_only zero_cc t) as [[cf cc]| |]; smp; try discriminate.
  destruct (unmarshal_metadata P t) as [md| |]; smp; try discriminate.
  destruct (cf_id cf); [|discriminate].
  destruct (cf_version cf =? version3)%Z; smp; [|discriminate].
  destruct (bytes_eqb (cc_kdf cc) kdfTypeScrypt).
  - intros H. apply readScrypt_ok in H as [s [K [D S]]].
    apply scrypt_decrypt_ok in S as [A [B C]]. apply decryptCommon_ok in C as [L [M [I Kk]]].
    unfold params_in_domain, derived_key, mac_key, enc_key, derived_key. rewrite K. auto 10.
  - destruct (bytes_eqb (cc_kdf cc) kdfTypePbkdf2); [|discriminate].
    intros H. apply readPbkdf2_ok in H as [p [K [D S]]].
    apply pbkdf2_decrypt_ok in S as [A [B [F C]]]. apply decryptCommon_ok in C as [L [M [I Kk]]].
    unfold params_in_domain, derived_key, mac_key, enc_key, derived_key. rewrite K. auto 10.
Qed.

Lemma app_eq_len {A} (a b x y : list A) : length a = length b -> a ++ x = b ++ y -> a = b /\ x = y.
Proof.
  revert b. induction a as [|h a IH]; intros [|h' b] L E; simpl in *; try discriminate; auto.
  injection E as -> E. injection L as L. destruct (IH _ L E) as [-> ->]. auto.
Qed.

Definition collision (H : bytes -> bytes) : Prop := exists x y, x <> y /\ H x = H y.

(* two accepted (file, password) pairs whose MAC fields agree: either the ciphertexts and the MAC keys
   agree too, or the hash function has just been shown to collide *)
Theorem tamper_needs_collision P t1 pw1 w1 t2 pw2 w2 :
  read_wallet_tree P t1 pw1 = Ok w1 -> read_wallet_tree P t2 pw2 = Ok w2 ->
  cc_mac (w_crypto w1) = cc_mac (w_crypto w2) ->
  (cc_ciphertext (w_crypto w1) = cc_ciphertext (w_crypto w2) /\ mac_key P w1 pw1 = mac_key P w2 pw2)
  \/ collision (hash P).
Proof.
  intros R1 R2 E.
  apply accept_needs_mac in R1 as [_ [_ [L1 [M1 _]]]]. apply accept_needs_mac in R2 as [_ [_ [L2 [M2 _]]]].
  destruct (bytes_eqb_spec (mac_key P w1 pw1 ++ cc_ciphertext (w_crypto w1))
                           (mac_key P w2 pw2 ++ cc_ciphertext (w_crypto w2))) as [Q|Q].
  - left. apply app_eq_len in Q.
    + tauto.
    + unfold mac_key. rewrite !skipn_length. lia.
  - right. exists (mac_key P w1 pw1 ++ cc_ciphertext (w_crypto w1)), (mac_key P w2 pw2 ++ cc_ciphertext (w_crypto w2)).
    split; [exact Q|]. congruence.
Qed.
