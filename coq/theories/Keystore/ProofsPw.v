(* C07, wrong passwords: if one document is accepted under two passwords, both runs decoded the same
   crypto section and KDF parameters, and either the MAC keys (second halves of the derived keys under
   the two passwords) coincide or the hash function has been shown to collide. *)
From Coq Require Import String.
From Coq Require Import List NArith ZArith Lia Bool Arith.
From Coq Require Import Init.Byte.
From FFS Require Import Base.Res Base.Bytes Keystore.Json Keystore.Prims Keystore.Model Keystore.ProofsMac.
Import ListNotations.

Ltac smp := cbn [bind negb orb andb w_core w_metadata w_crypto w_kdfparams w_private fst snd].

Lemma read_same_doc P t pw1 pw2 w1 w2 :
  read_wallet_tree P t pw1 = Ok w1 -> read_wallet_tree P t pw2 = Ok w2 ->
  w_core w1 = w_core w2 /\ w_crypto w1 = w_crypto w2 /\ w_kdfparams w1 = w_kdfparams w2 /\ w_metadata w1 = w_metadata w2.
Proof.
  unfold read_wallet_tree.
  destruct (unmarshal_wallet P step_crypto_only zero_cc t) as [[cf cc]| |]; smp; try discriminate.
  destruct (unmarshal_metadata P t) as [md| |]; smp; try discriminate.
  destruct (cf_id cf); [|discriminate].
  destruct (cf_version cf =? version3)%Z; smp; [|discriminate].
  destruct (bytes_eqb (cc_kdf cc) kdfTypeScrypt).
  - unfold readScryptWalletFile.
    destruct (unmarshal_wallet P (step_crypto_with step_scrypt_params) (zero_cc, zero_sp) t) as [[cf' [cc' s]]| |].
    2,3: destruct t; smp; discriminate.
    assert (G : forall pw w, (do key <- scrypt_decrypt P cc' s pw;
                Ok {| w_core := cf'; w_metadata := match md with Some m => m | None => [] end;
                      w_crypto := cc'; w_kdfparams := KScrypt s; w_private := key |}) = Ok w ->
               w_core w = cf' /\ w_crypto w = cc' /\ w_kdfparams w = KScrypt s /\
               w_metadata w = match md with Some m => m | None => [] end).
    { intros pw w. destruct (scrypt_decrypt P cc' s pw); smp; try discriminate.
      intros H; injection H as <-. auto. }
    destruct t; smp; try discriminate; intros H1 H2;
      apply G in H1 as [A1 [B1 [C1 D1]]]; apply G in H2 as [A2 [B2 [C2 D2]]]; repeat split; congruence.
  - destruct (bytes_eqb (cc_kdf cc) kdfTypePbkdf2); [|discriminate].
    unfold readPbkdf2WalletFile.
    destruct (unmarshal_wallet P (step_crypto_with step_pbkdf2_params) (zero_cc, zero_pp) t) as [[cf' [cc' s]]| |].
    2,3: destruct t; smp; discriminate.
    assert (G : forall pw w, (do key <- pbkdf2_decrypt P cc' s pw;
                Ok {| w_core := cf'; w_metadata := match md with Some m => m | None => [] end;
                      w_crypto := cc'; w_kdfparams := KPbkdf2 s; w_private := key |}) = Ok w ->
               w_core w = cf' /\ w_crypto w = cc' /\ w_kdfparams w = KPbkdf2 s /\
               w_metadata w = match md with Some m => m | None => [] end).
    { intros pw w. destruct (pbkdf2_decrypt P cc' s pw); smp; try discriminate.
      intros H; injection H as <-. auto. }
    destruct t; smp; try discriminate; intros H1 H2;
      apply G in H1 as [A1 [B1 [C1 D1]]]; apply G in H2 as [A2 [B2 [C2 D2]]]; repeat split; congruence.
Qed.

Theorem wrong_password_needs_collision P t pw pw' w w' :
  read_wallet_tree P t pw = Ok w -> read_wallet_tree P t pw' = Ok w' ->
  (mac_key P w pw = mac_key P w pw' /\ w_crypto w' = w_crypto w /\ w_kdfparams w' = w_kdfparams w)
  \/ collision (hash P).
Proof.
  intros R1 R2. destruct (read_same_doc P t pw pw' w w' R1 R2) as [_ [C [K _]]].
  destruct (tamper_needs_collision P t pw w t pw' w' R1 R2) as [[_ M]|Col]; [congruence| |right; exact Col].
  left. split; [|split; congruence].
  rewrite M. unfold mac_key, derived_key. rewrite K. reflexivity.
Qed.
