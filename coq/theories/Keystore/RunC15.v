(* Evaluator for the correspondence check of C15 (reading a keystore file is total): runs the model of
   the read path (Keystore/Model.v) and the V3 specification (Keystore/Spec.v) on the cases written by
   harness/cmd/c15 and reports where they differ from what keystorev3.ReadWalletFile did.  The KDF / AES /
   float64 / UUID primitives are finite tables filled by the harness with direct library calls;
   Keccak-256 is Base/Keccak.v.  (Self-contained on purpose: shares no definition with RunC07.v.) *)
From Coq Require Import String.
From Coq Require Import List NArith ZArith Lia Bool Arith.
From Coq Require Import Init.Byte.
From FFS Require Import Base.Res Base.Bytes Base.Lit Base.Keccak.
From FFS Require Import Keystore.Json Keystore.Prims Keystore.Model Keystore.Spec Keystore.ReadTypes Keystore.DeepKinds.
Import ListNotations.

(* JSON trees as written by the harness: text in the byte-DSL *)
Inductive djson :=
| DNull | DBool (b : bool) | DNum (l : bdsl) | DStr (s : bdsl) | DArr (l : list djson) | DObj (ms : list (bdsl * djson)).
Fixpoint jexpand (d : djson) : json :=
  match d with
  | DNull => JNull
  | DBool b => JBool b
  | DNum l => JNum (bexpand l)
  | DStr s => JStr (bexpand s)
  | DArr l => JArr (map jexpand l)
  | DObj ms => JObj (map (fun m => (bexpand (fst m), jexpand (snd m))) ms)
  end.

(* oracle tables of one case: arguments -> what the library returned *)
Record tables := {
  t_scrypt : list (bdsl * bdsl * Z * Z * Z * Z * bdsl);      (* pw salt N r p dklen -> key *)
  t_pbkdf2 : list (bdsl * bdsl * Z * Z * bdsl);              (* pw salt c dklen -> key *)
  t_aes : list (bdsl * bdsl * bdsl * bdsl);                  (* key iv data -> output *)
  t_num : list (bdsl * bool);                                (* number literal -> fits a float64 *)
  t_uuid : list (bdsl * option bdsl)                         (* text -> 16 bytes *)
}.

Definition beq (d : bdsl) (b : bytes) : bool := bytes_eqb (bexpand d) b.

Fixpoint find_scrypt (l : list (bdsl * bdsl * Z * Z * Z * Z * bdsl)) (pw salt : bytes) (N r p dk : Z) : option bytes :=
  match l with
  | [] => None
  | (pw', salt', N', r', p', dk', out) :: t =>
      if beq pw' pw && beq salt' salt && (N' =? N)%Z && (r' =? r)%Z && (p' =? p)%Z && (dk' =? dk)%Z
      then Some (bexpand out) else find_scrypt t pw salt N r p dk
  end.
Fixpoint find_pbkdf2 (l : list (bdsl * bdsl * Z * Z * bdsl)) (pw salt : bytes) (c dk : Z) : option bytes :=
  match l with
  | [] => None
  | (pw', salt', c', dk', out) :: t =>
      if beq pw' pw && beq salt' salt && (c' =? c)%Z && (dk' =? dk)%Z
      then Some (bexpand out) else find_pbkdf2 t pw salt c dk
  end.
Fixpoint find_aes (l : list (bdsl * bdsl * bdsl * bdsl)) (k iv x : bytes) : option bytes :=
  match l with
  | [] => None
  | (k', iv', x', out) :: t =>
      if beq k' k && beq iv' iv && beq x' x then Some (bexpand out) else find_aes t k iv x
  end.
Fixpoint find1 {A} (l : list (bdsl * A)) (k : bytes) : option A :=
  match l with
  | [] => None
  | (k', out) :: t => if beq k' k then Some out else find1 t k
  end.

(* a lookup that misses its table answers with [fill] bytes; every case is evaluated with two different
   fills, so a miss that could influence the outcome shows up as a disagreement (code 5) *)
Definition miss (fill : byte) (n : Z) : bytes := repeat fill (Z.to_nat (Z.max 0 (Z.min n 64))).

Definition mk_prims (T : tables) (fill : byte) : prims := {|
  scrypt := fun pw salt N r p dk =>
    match find_scrypt (t_scrypt T) pw salt N r p dk with Some o => o | None => miss fill dk end;
  scrypt_cap := fun pw salt N r p dk => miss fill (round_up_32 dk);      (* creation only *)
  pbkdf2 := fun pw salt c dk =>
    match find_pbkdf2 (t_pbkdf2 T) pw salt c dk with Some o => o | None => miss fill dk end;
  aes_ctr := fun k iv x =>
    match find_aes (t_aes T) k iv x with Some o => o | None => repeat fill (length x) end;
  hash := keccak256;
  pubkey := fun k => repeat fill 64;                                     (* not observed by C15 *)
  json_parse := fun _ => None;                                           (* the evaluator starts after the lexer *)
  json_print := fun _ => [];
  json_num := fun l => match find1 (t_num T) l with Some true => Some l | Some false => None | None => Some [fill] end;
  uuid_parse := fun s => match find1 (t_uuid T) s with Some (Some o) => Some (bexpand o) | Some None => None | None => Some (repeat fill 16) end
|}.

(* reading: tables, the document as the encoding/json lexer delivers it (None = syntax error), password;
   observed: class (0 Ok, 1 error, 2 panic, 3 no return within the deadline) and PrivateKey() *)
Inductive case :=
| CRead (T : tables) (doc : option djson) (pw : bdsl) (cls : nat) (key : bdsl).

(* result codes: 0 = agree; 1..9 = the model differs from the implementation; >= 10 = the
   implementation fails a property oracle *)
Local Open Scope N_scope.
Definition check_case (fill : byte) (c : case) : N :=
  match c with
  | CRead T doc pw cls key =>
      let P := mk_prims T fill in
      let pw := bexpand pw in
      let key := bexpand key in
      let model := match doc with Some d => read_wallet_tree P (jexpand d) pw | None => Err EJson end in
      if (cls =? 2)%nat then
        (* ReadWalletFile panicked: a violation -- unless the model panics too, which by
           TotalProofs.read_panic_beyond_cap happens only on documents beyond the allocation cap of
           scrypt.Key (128*N*r > 2^48), outside the property's quantifier ("cost parameters capped"); the
           harness runs a few of them (family scrypt-alloc-cap) to tie [scrypt_alloc_ok] to the Go runtime *)
        match model with Panic => 0 | _ => 10 end
      else if (cls =? 3)%nat then 11                          (* ReadWalletFile did not return *)
      else
        (* property oracles on the implementation, evaluated with the specification *)
        let oracle : N :=
          if (cls =? 0)%nat then
            match doc with
            | None => 12                                      (* a key out of a document that is not JSON *)
            | Some d =>
                let t := jexpand d in
                (* a key out of a document with a V3 member of the wrong JSON kind / non-hex / non-integer
                   text below the top level (Keystore/DeepKinds.v, a predicate on the tree that does not
                   use the model's decoder; TotalProofs9.deep_struct_rejected) *)
                if deep_struct_bad t then 15
                else if v3_wellformed t then
                  (* strictly formed document: the standard itself decides *)
                  match v3_decrypt_gen false P t pw with
                  | Ok k => if negb (bytes_eqb k key) then 12  (* foreign key *)
                            else match v3_decrypt P t pw with
                                 | Ok _ => 0
                                 | _ => 13                    (* cipher is not aes-128-ctr, key returned *)
                                 end
                  | _ => 12
                  end
                else
                  (* leniently formed document (member-name case, duplicates, null or absent members,
                     0x...): the decoded content must satisfy the V3 acceptance conditions and give this key *)
                  match decode_content P t with
                  | Some c =>
                      match content_key P c pw with
                      | Some k => if negb (bytes_eqb k key) then 12
                                  else if cipher_bad c then 13 else 0
                      | None => 14                            (* malformed / MAC-invalid content accepted *)
                      end
                  | None => 14
                  end
            end
          else 0 in
        if negb (oracle =? 0)%N then oracle
        else
          match model, cls with
          | Ok w, 0%nat => if bytes_eqb (PrivateKey w) key then 0 else 2
          | Err _, 1%nat => 0
          | Panic, _ => 3                                     (* the model panics where the code did not *)
          | _, _ => 1
          end
  end.

Fixpoint mismatches_go (i : N) (l : list case) : list (N * N) :=
  match l with
  | [] => []
  | c :: t =>
      let r := check_case x00 c in
      let r := if (r =? 0)%N then (let r' := check_case xff c in if (r' =? 0)%N then 0%N else 5%N) else r in
      if (r =? 0)%N then mismatches_go (i + 1) t else (i, r) :: mismatches_go (i + 1) t
  end.
Definition mismatches (l : list case) : list (N * N) := firstn 20 (mismatches_go 0 l).

(* self-test of oracle 15 (wave 6): a hypothetical implementation that returns a key for
   {"crypto":{"mac":0}} resp. for a top-level array is reported with code 15; the real outcome (an error)
   is agreement *)
Example oracle15_selftest :
  let T := {| t_scrypt := []; t_pbkdf2 := []; t_aes := []; t_num := []; t_uuid := [] |} in
  let d := DObj [(BLit "63727970746f", DObj [(BLit "6d6163", DNum (BLit "30"))])] in
  check_case x00 (CRead T (Some d) (BLit "") 0%nat (BLit "")) = 15 /\
  check_case x00 (CRead T (Some d) (BLit "") 1%nat (BLit "")) = 0 /\
  check_case x00 (CRead T (Some (DArr [])) (BLit "") 0%nat (BLit "")) = 15.
Proof. vm_compute. repeat split; reflexivity. Qed.
