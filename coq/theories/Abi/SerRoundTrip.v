(* C03, JSON round trip: feeding the serializer's JSON (as encoding/json hands it back: [ext_of]) to the
   input walk of inputparsing.go (b-c02's InputModel.walkInput, imported read-only) rebuilds exactly the
   tree that was serialized, so encoding it again yields the specification encoding of the value.
   Formatting modes: flat arrays and objects; integer renderings: all four; byte renderings: hex and
   0x-hex (base64 is not an input format); address renderings: all (nil falls back to the byte one).
   The text parser of pkg/ethtypes ([bifs] = BigIntegerFromString) is external to pkg/abi and enters with
   the two laws the round trip needs: it reads back the canonical decimal text and the 0x-hex text. *)
From Coq Require Import List NArith ZArith Bool Lia.
From Coq Require Import Init.Byte.
From FFS Require Import Base.Res Base.Bytes Abi.Types Abi.Spec Abi.ModelTypes Abi.Render Abi.RenderProofs.
From FFS Require Import Abi.DecSpec Abi.DecProofs3 Abi.DecProofs4 Abi.SerModel Abi.SerSpec Abi.SerProofs Abi.SerProofs2.
From FFS Require Import Abi.EncModel Abi.EncProofs3 Abi.InputModel Abi.InputProofs.
From FFS Require Rlp.Model.
Import ListNotations.

(* what json.Unmarshal (UseNumber) hands to the input walk for the document json.Marshal wrote *)
Fixpoint ext_of (j : jv) : ext :=
  match j with
  | JNull => XNil
  | JBool b => XBool b
  | JStr t => XStr t
  | JNumber t => XJNum t
  | JFloatInt z => XJNum (Z_dec z)
  | JArr l => XList (map ext_of l)
  | JObj m => XMap (map (fun kv => (fst kv, ext_of (snd kv))) m)
  end.

(* ---------- encoding/hex: the two models of DecodeString agree ---------- *)
Lemma hex_val_same c : InputModel.hex_val c = Render.hex_val c.
Proof. destruct c; reflexivity. Qed.

Lemma hex_decode_same t : hex_decode t = bytes_of_hex t.
Proof.
  assert (G : forall n t, (length t <= n)%nat -> hex_decode t = bytes_of_hex t).
  { induction n as [|n IH]; intros [|a [|b r]] Hn; try reflexivity; try (simpl in Hn; lia).
    cbn [hex_decode bytes_of_hex]. rewrite !hex_val_same, (IH r) by (simpl in Hn; lia). reflexivity. }
  apply (G (length t)). lia.
Qed.

Lemma trim_0x_prefixed r : trim_0x (x30 :: x78 :: r) = r.
Proof. reflexivity. Qed.

Lemma trim_0x_hex b : trim_0x (hex_of_bytes b) = hex_of_bytes b.
Proof. destruct b as [|c r]; [reflexivity|]. cbn [hex_of_bytes]. destruct c; reflexivity. Qed.

Lemma read_hex b : hex_decode (trim_0x (hex_of_bytes b)) = Some b.
Proof. rewrite trim_0x_hex, hex_decode_same. apply bytes_of_hex_hex_of_bytes. Qed.

Lemma read_0xhex b : hex_decode (trim_0x (x30 :: x78 :: hex_of_bytes b)) = Some b.
Proof. rewrite trim_0x_prefixed, hex_decode_same. apply bytes_of_hex_hex_of_bytes. Qed.

(* big.Int.SetBytes: the two models agree *)
Lemma of_be_same b : InputModel.of_be b = Z.of_N (Rlp.Model.of_be b).
Proof.
  unfold InputModel.of_be, Rlp.Model.of_be.
  assert (G : forall acc, fold_left (fun a x => a * 256 + Z.of_N (bn x))%Z b (Z.of_N acc) =
                          Z.of_N (fold_left (fun a x => a * 256 + b2n x)%N b acc)).
  { induction b as [|x r IH]; intros acc; [reflexivity|]. cbn [fold_left].
    rewrite <- IH. f_equal. unfold bn. lia. }
  exact (G 0%N).
Qed.

Lemma is_addr_of_elim z a : is_addr_of z a = true -> Z.of_N (Rlp.Model.of_be a) = z.
Proof. unfold is_addr_of. intros Ha. apply andb_true_iff in Ha as [_ Ha]. apply Z.eqb_eq in Ha. exact Ha. Qed.

Lemma of_be_addr z : (0 <= z < 2 ^ 160)%Z -> InputModel.of_be (SerModel.be_bytes 20 (Z.abs_N z)) = z.
Proof. intros Hz. rewrite of_be_same. apply is_addr_of_elim. apply is_addr_of_be. exact Hz. Qed.

(* strconv.Itoa (the input walk's default member key) and strconv.FormatInt (the serializer's default
   member name) agree on every index up to 1024 (closed by computation; tuples are narrower than that) *)
Lemma itoa_small : forallb (fun i => bytes_eqb (itoa i) (N_dec (N.of_nat i))) (seq 0 1025) = true.
Proof. vm_compute. reflexivity. Qed.
Lemma itoa_dec i : (i <= 1024)%nat -> itoa i = N_dec (N.of_nat i).
Proof.
  intros Hi. pose proof itoa_small as F. rewrite forallb_forall in F.
  destruct (bytes_eqb_spec (itoa i) (N_dec (N.of_nat i))) as [E|E]; [exact E|].
  assert (X : bytes_eqb (itoa i) (N_dec (N.of_nat i)) = true) by (apply F, in_seq; lia).
  destruct (bytes_eqb_spec (itoa i) (N_dec (N.of_nat i))); [contradiction|discriminate].
Qed.

Fixpoint widths_ok (c : tcomp) : bool :=
  match c with
  | TCElem _ _ _ _ _ => true
  | TCFixedArr _ ch _ | TCDynArr ch _ => widths_ok ch
  | TCTuple cs _ => (length cs <=? 1024)%nat && forallb widths_ok cs
  end.

Lemma lookup_map_get (g : jv -> ext) k m :
  lookup k (map (fun kv => (fst kv, g (snd kv))) m) = option_map g (map_get k m).
Proof.
  induction m as [|[k' v'] r IH]; [reflexivity|]. cbn [map fst snd lookup map_get].
  destruct (bytes_eqb k k'); [reflexivity|exact IH].
Qed.

Section RoundTrip.
  Variable H : bytes -> bytes.
  Hypothesis H_len : forall x, length (H x) = 32%nat.
  Variable fs : bfloat -> jv.
  Variable s : serializer.
  Variable bifs : bytes -> res Z.
  (* ethtypes.BigIntegerFromString reads back the canonical decimal text and the 0x-hex text *)
  Hypothesis bifs_dec : forall z, bifs (Z_dec z) = Ok z.
  Hypothesis bifs_hex : forall z, bifs ((if (z <? 0)%Z then [x2d] else []) ++ x30 :: x78 :: N_hex (Z.abs_N z)) = Ok z.
  (* the modes the clause names *)
  Hypothesis Hmode : ts s = FormatAsFlatArrays \/ ts s = FormatAsObjects.
  Hypothesis Hbs : bs s <> Base64ByteSerializer.

  Notation dn := NumericDefaultNameGenerator.
  Notation WO := (walkOutput H fs dn s).
  Notation WI := (walkInput bifs).

  (* the loops of walkInput under names *)
  Definition wi_all (ch : tcomp) : list ext -> res (list cval) :=
    fix go (l : list ext) : res (list cval) :=
      match l with
      | [] => Ok []
      | v :: r => do c <- WI ch v; do cs <- go r; Ok (c :: cs)
      end.
  Lemma wi_all_nil ch : wi_all ch [] = Ok [].
  Proof. reflexivity. Qed.
  Lemma wi_all_cons ch v r : wi_all ch (v :: r) = do c <- WI ch v; do cs <- wi_all ch r; Ok (c :: cs).
  Proof. reflexivity. Qed.
  Fixpoint wi_flat (cs : list tcomp) (l : list ext) {struct cs} : res (list cval) :=
    match cs, l with
    | t :: ts', v :: r => do c <- WI t v; do cs' <- wi_flat ts' r; Ok (c :: cs')
    | _, _ => Ok []
    end.

  Lemma WI_fixed len ch k l :
    WI (TCFixedArr len ch k) (XList l) =
    if negb (Z.of_nat (length l) =? len)%Z then Err EFixedLenMismatch
    else do children <- wi_all ch l; Ok (CV (Some (TCFixedArr len ch k)) children GNil).
  Proof. reflexivity. Qed.
  Lemma WI_dyn ch k l :
    WI (TCDynArr ch k) (XList l) = do children <- wi_all ch l; Ok (CV (Some (TCDynArr ch k)) children GNil).
  Proof. reflexivity. Qed.
  Lemma WI_tuple_list cs k l :
    WI (TCTuple cs k) (XList l) =
    if negb (length l =? length cs)%nat then Err ETupleArrayMismatch
    else do children <- wi_flat cs l; Ok (CV (Some (TCTuple cs k)) children GNil).
  Proof. reflexivity. Qed.
  Definition wi_obj (iMap : list (bytes * ext)) : list tcomp -> nat -> res (list cval) :=
    fix go (ts0 : list tcomp) (i : nat) {struct ts0} : res (list cval) :=
      match ts0 with
      | [] => Ok []
      | t :: ts' =>
          let keyName := match tc_key t with [] => itoa i | k => k end in
          match lookup keyName iMap with
          | None => Err EMissingKey
          | Some v => do c <- WI t v; do cs <- go ts' (S i); Ok (c :: cs)
          end
      end.
  Lemma WI_tuple_map cs k m :
    WI (TCTuple cs k) (XMap m) = do children <- wi_obj m cs O; Ok (CV (Some (TCTuple cs k)) children GNil).
  Proof. reflexivity. Qed.
  Lemma WI_elem e su m n k x :
    WI (TCElem e su m n k) x = do value <- read_external bifs (reader_of e) x; Ok (CV (Some (TCElem e su m n k)) [] value).
  Proof. reflexivity. Qed.

  Definition rt_child (c : tcomp) (v : val) (j : jv) : Prop :=
    WO (cv_of c v) = Ok j /\ WI c (ext_of (wire j)) = Ok (cv_of c v) /\ ext_clean (ext_of (wire j)) = true.

  Definition rt_goal (c : tcomp) : Prop :=
    ser_ok s c = true -> widths_ok c = true -> forall v, well_typed (ty_of c) v = true -> exists j, rt_child c v j.

  (* ---------- elementary ---------- *)
  Lemma rt_int z : exists t, (ext_of (wire (run_int_ser (is_ s) z)) = XStr t \/ ext_of (wire (run_int_ser (is_ s) z)) = XJNum t) /\
                             bifs t = Ok z.
  Proof.
    unfold run_int_ser. destruct (is_ s).
    - eexists; split; [left; reflexivity|apply bifs_dec].
    - eexists; split; [left; reflexivity|apply bifs_hex].
    - eexists; split; [right; reflexivity|apply bifs_dec].
    - destruct (_ || _); eexists; (split; [|apply bifs_dec]); [left|right]; reflexivity.
  Qed.

  Lemma rt_bytes b : exists t, ext_of (wire (run_byte_ser (bs s) b)) = XStr t /\ hex_decode (trim_0x t) = Some b.
  Proof.
    unfold run_byte_ser. destruct (bs s); [| |congruence].
    - eexists; split; [reflexivity|apply read_hex].
    - eexists; split; [reflexivity|apply read_0xhex].
  Qed.

  Lemma rt_elementary e su m n k : rt_goal (TCElem e su m n k).
  Proof.
    intros Hok _ v Hwt. unfold ser_ok in Hok. cbn [tc_consistent tc_no_fixed_point] in Hok.
    rewrite !andb_true_iff in Hok. destruct Hok as [[[[Hc _] Hnf] _] _].
    unfold rt_child.
    destruct e; cbn [ty_of] in Hwt; try discriminate.
    - (* int *)
      destruct v as [z| |]; cbn [well_typed] in Hwt; try discriminate. cbn [cv_of]. rewrite WO_elem.
      eexists; split; [reflexivity|]. cbn [serializeElementaryType]. rewrite WI_elem. cbn [reader_of read_external].
      destruct (rt_int z) as [t [[E|E] Hb]]; rewrite E; cbn [getIntegerFromInterface ext_clean]; rewrite Hb; split; reflexivity.
    - destruct v as [z| |]; cbn [well_typed] in Hwt; try discriminate. cbn [cv_of]. rewrite WO_elem.
      eexists; split; [reflexivity|]. cbn [serializeElementaryType]. rewrite WI_elem. cbn [reader_of read_external].
      destruct (rt_int z) as [t [[E|E] Hb]]; rewrite E; cbn [getIntegerFromInterface ext_clean]; rewrite Hb; split; reflexivity.
    - (* address *)
      destruct v as [z| |]; cbn [well_typed] in Hwt; try discriminate. cbn [cv_of]. rewrite WO_elem.
      assert (Hz : (0 <= z < 2 ^ 160)%Z) by (change (two 160) with (2 ^ 160)%Z in Hwt; lia).
      cbn [serializeElementaryType].
      replace (2 ^ 160 <=? Z.abs z)%Z with false by (symmetry; apply Z.leb_gt; lia).
      assert (Hl : length (SerModel.be_bytes 20 (Z.abs_N z)) = 20%nat) by apply be_bytes_length.
      assert (G : forall t, hex_decode (trim_0x t) = Some (SerModel.be_bytes 20 (Z.abs_N z)) ->
                            WI (TCElem EAddress su m n k) (XStr t) = Ok (CV (Some (TCElem EAddress su m n k)) [] (GBigInt z))).
      { intros t Ht. rewrite WI_elem. cbn [reader_of read_external]. unfold getUintBytesFromInterface, getBytesFromInterface_b.
        rewrite Ht. cbn [bind]. rewrite (of_be_addr z Hz). reflexivity. }
      destruct (ad s) as [[| |]|] eqn:Ead.
      + eexists; split; [reflexivity|]. cbn [run_addr_ser wire ext_of ext_clean]. split; [|reflexivity]. apply G, read_0xhex.
      + eexists; split; [reflexivity|]. cbn [run_addr_ser wire ext_of ext_clean]. split; [|reflexivity]. apply G, read_hex.
      + eexists; split; [reflexivity|]. cbn [run_addr_ser wire ext_of ext_clean]. split; [|reflexivity]. apply G.
        destruct (eip55_reads_back H H_len _ Hl) as [_ E2]. unfold eip55. rewrite trim_0x_prefixed, hex_decode_same. exact E2.
      + destruct (rt_bytes (SerModel.be_bytes 20 (Z.abs_N z))) as [t [E Ht]].
        eexists; split; [reflexivity|]. rewrite E. cbn [ext_clean]. split; [|reflexivity]. apply G, Ht.
    - (* bool *)
      destruct v as [z| |]; cbn [well_typed] in Hwt; try discriminate. cbn [cv_of]. rewrite WO_elem.
      eexists; split; [reflexivity|]. cbn [serializeElementaryType wire ext_of ext_clean]. rewrite WI_elem.
      cbn [reader_of read_external getBoolAsUnsignedIntegerFromInterface bind].
      apply orb_true_iff in Hwt as [E|E]; apply Z.eqb_eq in E; subst z; split; reflexivity.
    - (* bytes<M> / bytes *)
      assert (exists b, v = VBytes b) as [b ->].
      { destruct (m =? 0)%N; destruct v; cbn [well_typed] in Hwt; try discriminate; eauto. }
      cbn [cv_of]. rewrite WO_elem. eexists; split; [reflexivity|]. cbn [serializeElementaryType].
      destruct (rt_bytes b) as [t [E Ht]]. rewrite E, WI_elem. cbn [reader_of read_external ext_clean].
      unfold getBytesFromInterface, getBytesFromInterface_b. rewrite Ht. split; reflexivity.
    - (* function *)
      destruct v as [|b|]; cbn [well_typed] in Hwt; try discriminate. cbn [cv_of]. rewrite WO_elem.
      eexists; split; [reflexivity|]. cbn [serializeElementaryType].
      destruct (rt_bytes b) as [t [E Ht]]. rewrite E, WI_elem. cbn [reader_of read_external ext_clean].
      unfold getBytesFromInterface, getBytesFromInterface_b. rewrite Ht. split; reflexivity.
    - (* string *)
      destruct v as [|b|]; cbn [well_typed] in Hwt; try discriminate. cbn [cv_of]. rewrite WO_elem.
      eexists; split; [reflexivity|]. cbn [serializeElementaryType wire ext_of ext_clean]. rewrite WI_elem.
      split; reflexivity.
  Qed.

  (* ---------- arrays ---------- *)
  Lemma rt_array_children ch :
    (forall v, well_typed (ty_of ch) v = true -> exists j, rt_child ch v j) ->
    forall vs, forallb (well_typed (ty_of ch)) vs = true ->
    exists js, walk_all H fs s (map (cv_of ch) vs) = Ok js /\ length js = length vs /\
               wi_all ch (map ext_of (map wire js)) = Ok (map (cv_of ch) vs) /\
               forallb ext_clean (map ext_of (map wire js)) = true.
  Proof.
    intros Hch. induction vs as [|v vs IH]; intros Hwt.
    - exists []. repeat split; reflexivity.
    - cbn [forallb] in Hwt. apply andb_true_iff in Hwt as [Hv Hvs].
      destruct (Hch v Hv) as [j [Hj [Hi Hc]]]. destruct (IH Hvs) as [js [Hjs [Hl [His Hcs]]]].
      exists (j :: js). repeat split.
      + cbn [map walk_all]. rewrite Hj. cbn [bind]. rewrite Hjs. reflexivity.
      + cbn [length]. rewrite Hl. reflexivity.
      + cbn [map]. rewrite wi_all_cons, Hi. cbn [bind]. rewrite His. reflexivity.
      + cbn [map forallb]. rewrite Hc, Hcs. reflexivity.
  Qed.

  (* ---------- tuples ---------- *)
  Fixpoint rt_facts (cs : list tcomp) (vs : list val) (js : list jv) {struct cs} : Prop :=
    match cs, vs, js with
    | [], [], [] => True
    | c :: cs', v :: vs', j :: js' =>
        (well_typed (ty_of c) v = true /\ rt_child c v j) /\ rt_facts cs' vs' js'
    | _, _, _ => False
    end.

  Lemma rt_children cs :
    Forall rt_goal cs -> Forall (fun c => ser_ok s c = true) cs -> forallb widths_ok cs = true ->
    forall vs, tuple_wt (map ty_of cs) vs = true -> exists js, rt_facts cs vs js.
  Proof.
    induction 1 as [|c cs Hc _ IH]; intros Hok Hw vs Hwt.
    - destruct vs; [|discriminate]. exists []. exact I.
    - destruct vs as [|v vs]; [discriminate|]. inversion Hok as [|? ? Ho1 Ho2]; subst.
      cbn [forallb] in Hw. apply andb_true_iff in Hw as [Hw1 Hw2].
      cbn [map tuple_wt] in Hwt. apply andb_true_iff in Hwt as [Hv Hvs].
      destruct (Hc Ho1 Hw1 v Hv) as [j Hj]. destruct (IH Ho2 Hw2 vs Hvs) as [js Hjs].
      exists (j :: js). cbn [rt_facts]. repeat split; try assumption; apply Hj.
  Qed.

  Lemma rt_facts_length cs : forall vs js, rt_facts cs vs js -> length js = length cs.
  Proof.
    induction cs as [|c cs IH]; intros [|v vs] [|j js] F; cbn [rt_facts] in F; try contradiction; [reflexivity|].
    cbn [length]. rewrite (IH vs js (proj2 F)). reflexivity.
  Qed.

  Lemma rt_facts_flat cs : forall vs js, rt_facts cs vs js ->
    walk_all H fs s (tuple_cvs cs vs) = Ok js /\
    wi_flat cs (map ext_of (map wire js)) = Ok (tuple_cvs cs vs) /\
    forallb ext_clean (map ext_of (map wire js)) = true.
  Proof.
    induction cs as [|c cs IH]; intros [|v vs] [|j js] F; cbn [rt_facts] in F; try contradiction.
    - repeat split; reflexivity.
    - destruct F as [[_ [Hj [Hi Hcl]]] F']. destruct (IH vs js F') as [Hjs [His Hcs]].
      repeat split.
      + cbn [tuple_cvs walk_all]. rewrite Hj. cbn [bind]. rewrite Hjs. reflexivity.
      + cbn [map wi_flat tuple_cvs]. rewrite Hi. cbn [bind]. rewrite His. reflexivity.
      + cbn [map forallb]. rewrite Hcl, Hcs. reflexivity.
  Qed.

  (* objects: the serializer assigns each member under its effective name ... *)
  Lemma rt_facts_objgo cs : forall vs js i out, rt_facts cs vs js ->
    obj_go H fs s i (tuple_cvs cs vs) out = Ok (set_all (combine (effective_names i cs) js) out).
  Proof.
    induction cs as [|c cs IH]; intros [|v vs] [|j js] i out F; cbn [rt_facts] in F; try contradiction; [reflexivity|].
    destruct F as [[Hv [Hj _]] F'].
    destruct (cv_of_shape c v Hv) as [l [g Esh]].
    cbn [tuple_cvs]. rewrite Esh. cbn [obj_go]. rewrite <- Esh, Hj. cbn [bind].
    change (match tc_key c with [] => dn i | k => k end) with (effective_name i c).
    rewrite (IH vs js (S i) _ F'). reflexivity.
  Qed.

  (* ... and the input walk finds it there *)
  Lemma rt_facts_wiobj iMap cs : forall vs js i,
    (forall k j, In (k, j) (combine (effective_names i cs) js) -> lookup k iMap = Some (ext_of (wire j))) ->
    (i + length cs <= 1025)%nat ->
    rt_facts cs vs js -> wi_obj iMap cs i = Ok (tuple_cvs cs vs).
  Proof.
    induction cs as [|c cs IH]; intros [|v vs] [|j js] i Hget Hi F; cbn [rt_facts] in F; try contradiction; [reflexivity|].
    destruct F as [[_ [_ [Hwi _]]] F']. cbn [wi_obj tuple_cvs].
    assert (Ek : (match tc_key c with [] => itoa i | k => k end) = effective_name i c).
    { unfold effective_name. destruct (tc_key c); [|reflexivity]. apply itoa_dec. cbn [length] in Hi. lia. }
    rewrite Ek. cbn [effective_names combine] in Hget.
    rewrite (Hget (effective_name i c) j (or_introl eq_refl)), Hwi. cbn [bind].
    fold (wi_obj iMap). rewrite (IH vs js (S i)); [reflexivity| |cbn [length] in Hi; lia|exact F'].
    intros k' j' Hin. apply Hget. right. exact Hin.
  Qed.

  Lemma rt_facts_clean_map cs : forall vs js names, rt_facts cs vs js ->
    forallb (fun kv : bytes * ext => ext_clean (snd kv))
            (map (fun kv : bytes * jv => (fst kv, ext_of (snd kv)))
                 (map (fun kv : bytes * jv => (fst kv, wire (snd kv))) (combine names js))) = true.
  Proof.
    induction cs as [|c cs IH]; intros [|v vs] [|j js] names F; cbn [rt_facts] in F; try contradiction.
    - destruct names; reflexivity.
    - destruct names as [|nm names]; [reflexivity|]. destruct F as [[_ [_ [_ Hcl]]] F'].
      cbn [combine map forallb fst snd]. rewrite Hcl. exact (IH vs js names F').
  Qed.

  Theorem walkInput_walkOutput c : rt_goal c.
  Proof.
    assert (Hm : ts s <> FormatOther) by (destruct Hmode as [E|E]; rewrite E; discriminate).
    induction c as [e su m n k|len ch k IH|ch k IH|l k IH] using tcomp_ind'.
    - apply rt_elementary.
    - intros Hok Hw v Hwt. cbn [widths_ok] in Hw. specialize (IH (ser_ok_fixed s _ _ _ Hok) Hw).
      assert (Hlen : (0 <= len)%Z).
      { unfold ser_ok in Hok. cbn [tc_consistent] in Hok. rewrite !andb_true_iff in Hok. lia. }
      cbn [ty_of] in Hwt. destruct v as [| |vs]; cbn [well_typed] in Hwt; try discriminate.
      apply andb_true_iff in Hwt as [Hn Hall]. apply N.eqb_eq in Hn.
      destruct (rt_array_children ch IH vs Hall) as [js [Hjs [Hl [His Hcs]]]].
      exists (JArr js). unfold rt_child.
      change (cv_of (TCFixedArr len ch k) (VList vs)) with (CV (Some (TCFixedArr len ch k)) (map (cv_of ch) vs) GNil).
      rewrite WO_fixed, Hjs. split; [reflexivity|]. cbn [wire ext_of ext_clean]. rewrite WI_fixed, !map_length, Hl.
      replace (Z.of_nat (length vs) =? len)%Z with true by (symmetry; apply Z.eqb_eq; lia).
      cbn [negb]. rewrite His. split; [reflexivity|exact Hcs].
    - intros Hok Hw v Hwt. cbn [widths_ok] in Hw. specialize (IH (ser_ok_dyn s _ _ Hok) Hw).
      cbn [ty_of] in Hwt. destruct v as [| |vs]; cbn [well_typed] in Hwt; try discriminate.
      destruct (rt_array_children ch IH vs Hwt) as [js [Hjs [Hl [His Hcs]]]].
      exists (JArr js). unfold rt_child.
      change (cv_of (TCDynArr ch k) (VList vs)) with (CV (Some (TCDynArr ch k)) (map (cv_of ch) vs) GNil).
      rewrite WO_dyn, Hjs. split; [reflexivity|]. cbn [wire ext_of ext_clean]. rewrite WI_dyn, His.
      split; [reflexivity|exact Hcs].
    - intros Hok Hw v Hwt.
      assert (Hokl : Forall (fun c => ser_ok s c = true) l) by (eapply ser_ok_tuple; eassumption).
      cbn [widths_ok] in Hw. apply andb_true_iff in Hw as [Hwl Hw]. apply Nat.leb_le in Hwl.
      cbn [ty_of] in Hwt. destruct v as [| |vs]; try (cbn [well_typed] in Hwt; discriminate).
      rewrite DecProofs3.well_typed_tuple in Hwt. unfold rt_child. rewrite DecProofs3.cv_of_tuple, WO_tuple by exact Hm.
      destruct (rt_children l IH Hokl Hw vs Hwt) as [js F].
      pose proof (rt_facts_length l vs js F) as Hl.
      destruct Hmode as [Ets|Ets]; rewrite Ets.
      + (* flat arrays *)
        destruct (rt_facts_flat l vs js F) as [Hjs [His Hcs]].
        rewrite Hjs. cbn [bind]. eexists; split; [reflexivity|]. cbn [wire ext_of ext_clean].
        rewrite WI_tuple_list, !map_length, Hl, Nat.eqb_refl. cbn [negb]. rewrite His.
        split; [reflexivity|exact Hcs].
      + (* objects *)
        pose proof (rt_facts_objgo l vs js O [] F) as Hjs.
        unfold ser_ok in Hok. rewrite Ets in Hok. rewrite !andb_true_iff in Hok. destruct Hok as [_ Hnd].
        cbn [names_distinct] in Hnd. apply andb_true_iff in Hnd as [Hnd _].
        assert (Hfst : map fst (combine (effective_names O l) js) = effective_names O l)
          by (apply map_fst_combine; rewrite effective_names_length; lia).
        rewrite set_all_distinct in Hjs; [|rewrite Hfst; exact Hnd|intros; reflexivity].
        cbn [app] in Hjs. rewrite Hjs. cbn [bind]. eexists; split; [reflexivity|]. cbn [wire ext_of ext_clean].
        rewrite WI_tuple_map. split; [|exact (rt_facts_clean_map l vs js _ F)].
        rewrite (rt_facts_wiobj _ l vs js O); [reflexivity| |cbn; lia|exact F].
        intros k' j' Hin. rewrite lookup_map_get, map_get_wire.
        rewrite (map_get_distinct _ ltac:(rewrite Hfst; exact Hnd) k' j' Hin). reflexivity.
  Qed.

  (* ---------- serialize, parse, encode again ---------- *)
  Theorem json_roundtrip :
    forall (children : list tcomp) (v : val),
      let c := root_of children in
      ser_ok s c = true -> widths_ok c = true -> tc_wf c = true -> tc_no_zero_len c = true ->
      well_typed (ty_of c) v = true -> weight_ok v ->
      exists j, SerializeJSON H fs dn s (cv_of c v) = Ok j /\
                EncodeABIDataValues bifs children (ext_of j) = Ok (enc (ty_of c) v).
  Proof.
    intros children v c Hok Hwd Hwf Hnz Hwt Hw.
    destruct (walkInput_walkOutput c Hok Hwd v Hwt) as [j [Hj [Hi Hc]]].
    exists (wire j). split; [unfold SerializeJSON; rewrite Hj; reflexivity|].
    assert (Hnf : tc_no_fixed_point c = true).
    { unfold ser_ok in Hok. rewrite !andb_true_iff in Hok. tauto. }
    pose proof (val_of_cv_of c Hnf v Hwt) as Hval.
    pose proof (values_encode_is_spec bifs children (ext_of (wire j)) (cv_of c v) Hwf Hnf Hnz Hc Hi) as E.
    rewrite Hval in E. exact (E Hwt Hw).
  Qed.
End RoundTrip.
