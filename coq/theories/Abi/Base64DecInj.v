(* Converse of the base64 round trip of Base64Dec.v: the strict RFC 4648 reader accepts ONLY the
   canonical text, i.e. whenever [base64_decode t = Some b] the text [t] is exactly [base64 b].
   Together with [base64_decode_encode] this makes "t denotes b" and "t is the encoding of b" the
   same relation. *)
From Coq Require Import List NArith ZArith Bool Lia.
From Coq Require Import Init.Byte.
From FFS Require Import Base.Bytes Abi.Render Abi.Base64Dec.
Import ListNotations.

Local Open Scope N_scope.
Local Ltac Zify.zify_post_hook ::= Z.to_euclidean_division_equations.

(* ---------- the alphabet, read backwards: finite check over the 256 bytes ---------- *)
Definition b64_val_ok (c : byte) : bool :=
  match b64_val c with
  | Some n => (n <? 64) && (b2n c =? b2n (b64_char n))
  | None => true
  end.

Lemma b64_val_ok_all c : b64_val_ok c = true.
Proof. destruct c; vm_compute; reflexivity. Qed.

Lemma b64_val_inv c n : b64_val c = Some n -> n < 64 /\ c = b64_char n.
Proof.
  intros H. pose proof (b64_val_ok_all c) as A. unfold b64_val_ok in A. rewrite H in A.
  apply andb_true_iff in A. destruct A as [A1 A2].
  apply N.ltb_lt in A1. apply N.eqb_eq in A2. split; [exact A1|]. apply b2n_inj; exact A2.
Qed.

Lemma b64_is_pad_inv c : b64_is_pad c = true -> c = x3d.
Proof. unfold b64_is_pad. intros H. apply N.eqb_eq in H. apply b2n_inj. exact H. Qed.

Lemma base64_go_nil f : base64_go f [] = [].
Proof. destruct f; reflexivity. Qed.

(* ---------- induction four characters at a time ---------- *)
Lemma list_ind4 (P : bytes -> Prop) :
  P [] -> (forall a, P [a]) -> (forall a b, P [a; b]) -> (forall a b c, P [a; b; c]) ->
  (forall a b c d r, P r -> P (a :: b :: c :: d :: r)) ->
  forall t, P t.
Proof.
  intros H0 H1 H2 H3 H4.
  refine (fix F (t : bytes) : P t :=
            match t with
            | [] => H0
            | [a] => H1 a
            | [a; b] => H2 a b
            | [a; b; c] => H3 a b c
            | a :: b :: c :: d :: r => H4 a b c d r (F r)
            end).
Qed.

Lemma cons4 (a b c d a' b' c' d' : byte) (r r' : bytes) :
  a = a' -> b = b' -> c = c' -> d = d' -> r = r' ->
  a :: b :: c :: d :: r = a' :: b' :: c' :: d' :: r'.
Proof. intros; subst; reflexivity. Qed.

(* ---------- the sextets of the decoded bytes are the values that were read ---------- *)
Lemma sx_x va vb : va < 64 -> vb < 64 -> va * 4 + vb / 16 < 256. Proof. lia. Qed.
Lemma sx_y vb vc : vb < 64 -> vc < 64 -> (vb mod 16) * 16 + vc / 4 < 256. Proof. lia. Qed.
Lemma sx_z vc vd : vc < 64 -> vd < 64 -> (vc mod 4) * 64 + vd < 256. Proof. lia. Qed.

Lemma sx_1 va vb : va < 64 -> vb < 64 -> va = (va * 4 + vb / 16) / 4. Proof. lia. Qed.
Lemma sx_2 va vb vc : va < 64 -> vb < 64 -> vc < 64 ->
  vb = ((va * 4 + vb / 16) mod 4) * 16 + ((vb mod 16) * 16 + vc / 4) / 16.
Proof. lia. Qed.
Lemma sx_3 vb vc vd : vb < 64 -> vc < 64 -> vd < 64 ->
  vc = (((vb mod 16) * 16 + vc / 4) mod 16) * 4 + ((vc mod 4) * 64 + vd) / 64.
Proof. lia. Qed.
Lemma sx_4 vc vd : vc < 64 -> vd < 64 -> vd = ((vc mod 4) * 64 + vd) mod 64. Proof. lia. Qed.
Lemma sx_2_pad va vb : va < 64 -> vb < 64 -> vb mod 16 = 0 ->
  vb = ((va * 4 + vb / 16) mod 4) * 16.
Proof. lia. Qed.
Lemma sx_3_pad vb vc : vb < 64 -> vc < 64 -> vc mod 4 = 0 ->
  vc = (((vb mod 16) * 16 + vc / 4) mod 16) * 4.
Proof. lia. Qed.

(* ---------- the converse ---------- *)
Lemma base64_decode_canonical_go : forall t b,
  base64_decode t = Some b ->
  forall fuel, (List.length b < fuel)%nat -> t = base64_go fuel b.
Proof.
  induction t as [ |a|a b|a b c|a b c d r IH] using list_ind4; intros out H fuel L.
  - cbn [base64_decode] in H. injection H as <-. symmetry. apply base64_go_nil.
  - discriminate H.
  - discriminate H.
  - discriminate H.
  - cbn [base64_decode] in H.
    destruct (b64_val a) as [va|] eqn:Ea; [|discriminate H].
    destruct (b64_val b) as [vb|] eqn:Eb; [|discriminate H].
    apply b64_val_inv in Ea. destruct Ea as [La ->].
    apply b64_val_inv in Eb. destruct Eb as [Lb ->].
    destruct r as [|e r].
    + (* last group *)
      unfold b64_dec_last in H.
      destruct (b64_is_pad c) eqn:Pc.
      * destruct (b64_is_pad d) eqn:Pd; [|discriminate H].
        destruct (vb mod 16 =? 0) eqn:Z; [|discriminate H].
        apply N.eqb_eq in Z. injection H as <-.
        apply b64_is_pad_inv in Pc. apply b64_is_pad_inv in Pd. subst c d.
        destruct fuel as [|f]; [inversion L|].
        cbn [base64_go]. rewrite b2n_n2b by (apply sx_x; assumption).
        apply cons4; try reflexivity.
        -- f_equal. apply sx_1; assumption.
        -- f_equal. apply sx_2_pad; assumption.
      * destruct (b64_val c) as [vc|] eqn:Ec; [|discriminate H].
        apply b64_val_inv in Ec. destruct Ec as [Lc ->].
        destruct (b64_is_pad d) eqn:Pd.
        -- destruct (vc mod 4 =? 0) eqn:Z; [|discriminate H].
           apply N.eqb_eq in Z. injection H as <-.
           apply b64_is_pad_inv in Pd. subst d.
           destruct fuel as [|f]; [inversion L|].
           cbn [base64_go].
           rewrite (b2n_n2b (va * 4 + vb / 16)) by (apply sx_x; assumption).
           rewrite (b2n_n2b ((vb mod 16) * 16 + vc / 4)) by (apply sx_y; assumption).
           apply cons4; try reflexivity.
           ++ f_equal. apply sx_1; assumption.
           ++ f_equal. apply sx_2; assumption.
           ++ f_equal. apply sx_3_pad; assumption.
        -- destruct (b64_val d) as [vd|] eqn:Ed; [|discriminate H].
           apply b64_val_inv in Ed. destruct Ed as [Ld ->].
           injection H as <-. unfold b64_dec3.
           destruct fuel as [|f]; [inversion L|].
           cbn [base64_go].
           rewrite (b2n_n2b (va * 4 + vb / 16)) by (apply sx_x; assumption).
           rewrite (b2n_n2b ((vb mod 16) * 16 + vc / 4)) by (apply sx_y; assumption).
           rewrite (b2n_n2b ((vc mod 4) * 64 + vd)) by (apply sx_z; assumption).
           apply cons4.
           ++ f_equal. apply sx_1; assumption.
           ++ f_equal. apply sx_2; assumption.
           ++ f_equal. apply sx_3; assumption.
           ++ f_equal. apply sx_4; assumption.
           ++ symmetry. apply base64_go_nil.
    + (* inner group: no padding *)
      destruct (b64_val c) as [vc|] eqn:Ec; [|discriminate H].
      destruct (b64_val d) as [vd|] eqn:Ed; [|discriminate H].
      destruct (base64_decode (e :: r)) as [t'|] eqn:Er; [|discriminate H].
      apply b64_val_inv in Ec. destruct Ec as [Lc ->].
      apply b64_val_inv in Ed. destruct Ed as [Ld ->].
      injection H as <-. unfold b64_dec3. cbn [app].
      destruct fuel as [|f]; [inversion L|].
      cbn [List.length] in L.
      cbn [base64_go].
      rewrite (b2n_n2b (va * 4 + vb / 16)) by (apply sx_x; assumption).
      rewrite (b2n_n2b ((vb mod 16) * 16 + vc / 4)) by (apply sx_y; assumption).
      rewrite (b2n_n2b ((vc mod 4) * 64 + vd)) by (apply sx_z; assumption).
      apply cons4.
      * f_equal. apply sx_1; assumption.
      * f_equal. apply sx_2; assumption.
      * f_equal. apply sx_3; assumption.
      * f_equal. apply sx_4; assumption.
      * apply (IH t' eq_refl). lia.
Qed.

Theorem base64_decode_canonical : forall (t b : bytes), base64_decode t = Some b -> t = base64 b.
Proof.
  intros t b H. unfold base64. apply (base64_decode_canonical_go t b H). lia.
Qed.

Corollary base64_decode_iff : forall (t b : bytes), base64_decode t = Some b <-> t = base64 b.
Proof.
  intros t b. split.
  - apply base64_decode_canonical.
  - intros ->. apply base64_decode_encode.
Qed.

(* the reader is injective on the texts it accepts *)
Corollary base64_decode_inj : forall (t1 t2 b : bytes),
  base64_decode t1 = Some b -> base64_decode t2 = Some b -> t1 = t2.
Proof.
  intros t1 t2 b H1 H2.
  rewrite (base64_decode_canonical _ _ H1), (base64_decode_canonical _ _ H2). reflexivity.
Qed.

Print Assumptions base64_decode_iff.
