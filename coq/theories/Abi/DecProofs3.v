(* Proofs about the decoder model, part 3: the head/tail layout of the specification, walking a
   sequence of element decoders over an embedded head_tail, and the main theorem — decoding the
   specification encoding embedded anywhere in a block returns the value (DESIGN 6.0:
   E-static / E-dyn per element, S-static / S-dyn per sequence). *)
From Coq Require Import List NArith ZArith Bool Lia Arith.
From Coq Require Import ZifyN ZifyNat ZifyBool.
From Coq Require Import Init.Byte.
From FFS Require Import Base.Res Base.Bytes Abi.Types Abi.Spec Abi.ModelTypes Abi.DecModel Abi.DecSpec.
From FFS Require Import Abi.DecProofs Abi.DecProofs2.
Import ListNotations.
Local Open Scope Z_scope.

(* ---------- layout of head_tail ---------- *)
Definition item := (bool * bytes)%type.

Fixpoint hlen (items : list item) : Z :=
  match items with [] => 0 | (d, e) :: r => (if d then 32 else zlen e) + hlen r end.
Fixpoint tlen (items : list item) : Z :=
  match items with [] => 0 | (d, e) :: r => (if d then zlen e else 0) + tlen r end.

Lemma hlen_nonneg items : 0 <= hlen items.
Proof. induction items as [|[d e] r IH]; simpl; [lia|]. destruct d; unfold zlen; lia. Qed.
Lemma tlen_nonneg items : 0 <= tlen items.
Proof. induction items as [|[d e] r IH]; simpl; [lia|]. destruct d; unfold zlen; lia. Qed.

Lemma head_len_acc items a :
  fold_left (fun (a : Z) (it : bool * bytes) => a + (if fst it then 32 else blen (snd it))) items a = a + hlen items.
Proof.
  revert a; induction items as [|[d e] r IH]; intros a; simpl; [lia|].
  rewrite IH. unfold blen, zlen. destruct d; lia.
Qed.
Lemma head_len_hlen items : head_len items = hlen items.
Proof. unfold head_len. rewrite head_len_acc. lia. Qed.

Lemma zlen_app (a b : bytes) : zlen (a ++ b) = zlen a + zlen b.
Proof. unfold zlen. rewrite app_length. lia. Qed.

Lemma heads_length off items : zlen (heads off items) = hlen items.
Proof.
  revert off; induction items as [|[d e] r IH]; intros off; simpl; [reflexivity|].
  destruct d; rewrite zlen_app, IH; [rewrite zlen_word|]; reflexivity.
Qed.

Lemma tails_length items : zlen (tails items) = tlen items.
Proof.
  induction items as [|[d e] r IH]; simpl; [reflexivity|].
  unfold tails in *. simpl. destruct d; simpl; rewrite ?zlen_app, IH; reflexivity.
Qed.

Lemma head_tail_length items : zlen (head_tail items) = hlen items + tlen items.
Proof. unfold head_tail. rewrite zlen_app, heads_length, tails_length. reflexivity. Qed.

Lemma item_le items d e : In (d, e) items -> zlen e <= hlen items + tlen items.
Proof.
  induction items as [|[d' e'] r IH]; simpl; [tauto|].
  pose proof (hlen_nonneg r). pose proof (tlen_nonneg r).
  intros [E|H'].
  - injection E as -> ->. destruct d; unfold zlen; lia.
  - specialize (IH H'). destruct d'; unfold zlen in *; lia.
Qed.

(* all-static sequences: the body is the concatenation of the member encodings *)
Definition all_static (items : list item) : Prop := Forall (fun it => fst it = false) items.

Lemma heads_static off items : all_static items -> heads off items = flat_map snd items.
Proof.
  induction 1 as [|[d e] r Hd _ IH]; simpl; [reflexivity|]. simpl in Hd. subst d. rewrite IH. reflexivity.
Qed.
Lemma tails_static items : all_static items -> tails items = [].
Proof.
  induction 1 as [|[d e] r Hd _ IH]; [reflexivity|]. simpl in Hd. subst d. unfold tails in *. simpl. exact IH.
Qed.
Lemma head_tail_static items : all_static items -> head_tail items = flat_map snd items.
Proof. intros H. unfold head_tail. rewrite heads_static, tails_static, app_nil_r by exact H. reflexivity. Qed.

(* ---------- walking a list of element decoders ---------- *)
Definition dec_fn := Z -> Z -> res (Z * cval).      (* headStart, headPosition *)

Fixpoint walk_list (ds : list dec_fn) (hs hp : Z) : res (Z * list cval) :=
  match ds with
  | [] => Ok (0, [])
  | d :: r =>
      do (n, x) <- d hs hp;
      do (m, xs) <- walk_list r hs (hp + n);
      Ok (n + m, x :: xs)
  end.

Lemma walk_children_list block children hs hp :
  walkDynamicChildArrayABIBytes block children hs hp = walk_list (map (decodeABIElement block) children) hs hp.
Proof.
  revert hp; induction children as [|c r IH]; intros hp; [reflexivity|].
  cbn [walkDynamicChildArrayABIBytes map walk_list].
  destruct (decodeABIElement block c hs hp) as [[n x]| |]; cbn [bind]; try reflexivity.
  rewrite IH. reflexivity.
Qed.

Lemma loop_nat_list (d : dec_fn) n hs hp : loop_nat (d hs) n hp = walk_list (repeat d n) hs hp.
Proof.
  revert hp; induction n as [|n IH]; intros hp; [reflexivity|].
  cbn [loop_nat repeat walk_list].
  destruct (d hs hp) as [[k x]| |]; cbn [bind]; try reflexivity.
  rewrite IH. reflexivity.
Qed.

Section Walk.
  Variable block : bytes.

  (* what an element decoder must do on an embedded encoding [e] of a static / dynamic element *)
  Definition elem_ok (d : dec_fn) (dyn : bool) (e : bytes) (x : cval) : Prop :=
    if dyn then
      forall hs hp o, 0 <= o < 2 ^ 32 -> embedded block hp (word o) -> embedded block (hs + o) e ->
                      d hs hp = Ok (32, x)
    else
      forall hs hp, embedded block hp e -> d hs hp = Ok (zlen e, x).

  Inductive all_ok : list dec_fn -> list item -> list cval -> Prop :=
  | all_ok_nil : all_ok [] [] []
  | all_ok_cons d it x ds items xs :
      elem_ok d (fst it) (snd it) x -> all_ok ds items xs -> all_ok (d :: ds) (it :: items) (x :: xs).

  (* S-static *)
  Lemma walk_list_static ds items xs :
    all_ok ds items xs -> all_static items ->
    forall hs hp, embedded block hp (flat_map snd items) ->
    walk_list ds hs hp = Ok (hlen items, xs).
  Proof.
    induction 1 as [|d [dy e] x ds items xs Hd _ IH]; intros Hs hs hp He; [reflexivity|].
    inversion Hs as [|? ? Hdy Hs']; subst. simpl in Hdy. subst dy. simpl in Hd, He.
    destruct (embedded_app _ _ _ _ He) as [He1 He2].
    cbn [walk_list]. rewrite (Hd hs hp He1). cbn [bind].
    rewrite (IH Hs' hs _ He2). cbn [bind]. reflexivity.
  Qed.

  (* S-dyn: the heads still to be read sit at [hp], written for tail offset [off]; the tails still to
     be visited sit at [hs + off] *)
  Lemma walk_list_ok ds items xs :
    all_ok ds items xs ->
    forall hs hp off, 0 <= off -> off + tlen items < 2 ^ 32 ->
    embedded block hp (heads off items) -> embedded block (hs + off) (tails items) ->
    walk_list ds hs hp = Ok (hlen items, xs).
  Proof.
    induction 1 as [|d [dy e] x ds items xs Hd _ IH]; intros hs hp off Hoff Hb Hh Ht; [reflexivity|].
    simpl in Hd. pose proof (tlen_nonneg items) as Htl.
    destruct dy.
    - (* dynamic member: offset word in the head, encoding in the tail *)
      cbn [heads] in Hh. unfold tails in Ht. cbn [flat_map fst snd] in Ht. fold (tails items) in Ht.
      cbn [tlen] in Hb.
      destruct (embedded_app _ _ _ _ Hh) as [Hh1 Hh2]. rewrite zlen_word in Hh2.
      destruct (embedded_app _ _ _ _ Ht) as [Ht1 Ht2].
      cbn [walk_list]. rewrite (Hd hs hp off); [|unfold zlen in *; lia|exact Hh1|exact Ht1]. cbn [bind].
      rewrite (IH hs (hp + 32) (off + blen e)); cbn [bind hlen]; try reflexivity; unfold blen, zlen in *; try lia.
      + exact Hh2.
      + replace (hs + (off + Z.of_nat (length e))) with (hs + off + Z.of_nat (length e)) by lia. exact Ht2.
    - (* static member: encoding in the head *)
      cbn [heads] in Hh. unfold tails in Ht. cbn [flat_map fst snd app] in Ht. fold (tails items) in Ht.
      cbn [tlen] in Hb.
      destruct (embedded_app _ _ _ _ Hh) as [Hh1 Hh2].
      cbn [walk_list]. rewrite (Hd hs hp Hh1). cbn [bind].
      rewrite (IH hs (hp + zlen e) off); cbn [bind hlen]; try reflexivity; try lia; assumption.
  Qed.
End Walk.
