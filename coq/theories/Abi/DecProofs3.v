(* Proofs about the decoder model, part 3: the head/tail layout of the specification, walking a
   sequence of element decoders over an embedded head_tail, and the main theorem — decoding the
   specification encoding embedded anywhere in a block returns the value (DESIGN 6.0:
   E-static / E-dyn per element, S-static / S-dyn per sequence). *)
From Coq Require Import List NArith ZArith Bool Lia Arith.
From Coq Require Import ZifyN ZifyNat ZifyBool.
From Coq Require Import Init.Byte.
From FFS Require Import Base.Res Base.Bytes Abi.Types Abi.Spec Abi.ModelTypes Abi.DecModel Abi.DecSpec.
From FFS Require Import Abi.DecProofs Abi.DecProofs2.
Import ListNotations.
Local Open Scope Z_scope.
Local Arguments word z : simpl never.
Local Arguments be_fixedZ k z : simpl never.
Local Arguments pad_right b : simpl never.

(* ---------- layout of head_tail ---------- *)
Definition item := (bool * bytes)%type.

Fixpoint hlen (items : list item) : Z :=
  match items with [] => 0 | (d, e) :: r => (if d then 32 else zlen e) + hlen r end.
Fixpoint tlen (items : list item) : Z :=
  match items with [] => 0 | (d, e) :: r => (if d then zlen e else 0) + tlen r end.

Lemma hlen_nonneg items : 0 <= hlen items.
Proof. induction items as [|[d e] r IH]; simpl; [lia|]. destruct d; unfold zlen; lia. Qed.
Lemma tlen_nonneg items : 0 <= tlen items.
Proof. induction items as [|[d e] r IH]; simpl; [lia|]. destruct d; unfold zlen; lia. Qed.

Lemma head_len_acc items a :
  fold_left (fun (a : Z) (it : bool * bytes) => a + (if fst it then 32 else blen (snd it))) items a = a + hlen items.
Proof.
  revert a; induction items as [|[d e] r IH]; intros a; simpl; [lia|].
  rewrite IH. unfold blen, zlen. destruct d; lia.
Qed.
Lemma head_len_hlen items : head_len items = hlen items.
Proof. unfold head_len. rewrite head_len_acc. lia. Qed.

Lemma zlen_app (a b : bytes) : zlen (a ++ b) = zlen a + zlen b.
Proof. unfold zlen. rewrite app_length. lia. Qed.

Lemma heads_length off items : zlen (heads off items) = hlen items.
Proof.
  revert off; induction items as [|[d e] r IH]; intros off; [reflexivity|].
  destruct d; cbn [heads hlen]; rewrite zlen_app, IH; [rewrite zlen_word|]; reflexivity.
Qed.

Lemma tails_length items : zlen (tails items) = tlen items.
Proof.
  induction items as [|[d e] r IH]; simpl; [reflexivity|].
  unfold tails in *. simpl. destruct d; simpl; rewrite ?zlen_app, IH; reflexivity.
Qed.

Lemma head_tail_length items : zlen (head_tail items) = hlen items + tlen items.
Proof. unfold head_tail. rewrite zlen_app, heads_length, tails_length. reflexivity. Qed.

Lemma item_le items d e : In (d, e) items -> zlen e <= hlen items + tlen items.
Proof.
  induction items as [|[d' e'] r IH]; simpl; [tauto|].
  pose proof (hlen_nonneg r). pose proof (tlen_nonneg r).
  intros [E|H'].
  - injection E as -> ->. destruct d; unfold zlen; lia.
  - specialize (IH H'). destruct d'; unfold zlen in *; lia.
Qed.

(* all-static sequences: the body is the concatenation of the member encodings *)
Definition all_static (items : list item) : Prop := Forall (fun it => fst it = false) items.

Lemma heads_static off items : all_static items -> heads off items = flat_map snd items.
Proof.
  induction 1 as [|[d e] r Hd _ IH]; [reflexivity|]. cbn [fst] in Hd. subst d. cbn [heads flat_map snd]. rewrite IH. reflexivity.
Qed.
Lemma tails_static items : all_static items -> tails items = [].
Proof.
  induction 1 as [|[d e] r Hd _ IH]; [reflexivity|]. simpl in Hd. subst d. unfold tails in *. simpl. exact IH.
Qed.
Lemma head_tail_static items : all_static items -> head_tail items = flat_map snd items.
Proof. intros H. unfold head_tail. rewrite heads_static, tails_static, app_nil_r by exact H. reflexivity. Qed.

(* ---------- walking a list of element decoders ---------- *)
Definition dec_fn := Z -> Z -> res (Z * cval).      (* headStart, headPosition *)

Fixpoint walk_list (ds : list dec_fn) (hs hp : Z) : res (Z * list cval) :=
  match ds with
  | [] => Ok (0, [])
  | d :: r =>
      do (n, x) <- d hs hp;
      do (m, xs) <- walk_list r hs (hp + n);
      Ok (n + m, x :: xs)
  end.

Lemma walk_children_list block children hs hp :
  walkDynamicChildArrayABIBytes block children hs hp = walk_list (map (decodeABIElement block) children) hs hp.
Proof.
  revert hp; induction children as [|c r IH]; intros hp; [reflexivity|].
  cbn [walkDynamicChildArrayABIBytes map walk_list].
  destruct (decodeABIElement block c hs hp) as [[n x]| |]; cbn [bind]; try reflexivity.
  rewrite IH. reflexivity.
Qed.

Lemma loop_nat_list (d : dec_fn) n hs hp : loop_nat (d hs) n hp = walk_list (repeat d n) hs hp.
Proof.
  revert hp; induction n as [|n IH]; intros hp; [reflexivity|].
  cbn [loop_nat repeat walk_list].
  destruct (d hs hp) as [[k x]| |]; cbn [bind]; try reflexivity.
  rewrite IH. reflexivity.
Qed.

Section Walk.
  Variable block : bytes.

  (* what an element decoder must do on an embedded encoding [e] of a static / dynamic element *)
  Definition elem_ok (d : dec_fn) (dyn : bool) (e : bytes) (x : cval) : Prop :=
    if dyn then
      forall hs hp o, 0 <= o < 2 ^ 32 -> embedded block hp (word o) -> embedded block (hs + o) e ->
                      d hs hp = Ok (32, x)
    else
      forall hs hp, embedded block hp e -> d hs hp = Ok (zlen e, x).

  Inductive all_ok : list dec_fn -> list item -> list cval -> Prop :=
  | all_ok_nil : all_ok [] [] []
  | all_ok_cons d it x ds items xs :
      elem_ok d (fst it) (snd it) x -> all_ok ds items xs -> all_ok (d :: ds) (it :: items) (x :: xs).

  (* S-static *)
  Lemma walk_list_static ds items xs :
    all_ok ds items xs -> all_static items ->
    forall hs hp, embedded block hp (flat_map snd items) ->
    walk_list ds hs hp = Ok (hlen items, xs).
  Proof.
    induction 1 as [|d [dy e] x ds items xs Hd _ IH]; intros Hs hs hp He; [reflexivity|].
    inversion Hs as [|? ? Hdy Hs']; subst. cbn [fst] in Hdy. subst dy. cbn [fst snd elem_ok] in Hd. cbn [flat_map snd] in He.
    destruct (embedded_app _ _ _ _ He) as [He1 He2].
    cbn [walk_list]. rewrite (Hd hs hp He1). cbn [bind].
    rewrite (IH Hs' hs _ He2). cbn [bind]. reflexivity.
  Qed.

  (* S-dyn: the heads still to be read sit at [hp], written for tail offset [off]; the tails still to
     be visited sit at [hs + off] *)
  Lemma walk_list_ok ds items xs :
    all_ok ds items xs ->
    forall hs hp off, 0 <= off -> off + tlen items < 2 ^ 32 ->
    embedded block hp (heads off items) -> embedded block (hs + off) (tails items) ->
    walk_list ds hs hp = Ok (hlen items, xs).
  Proof.
    induction 1 as [|d [dy e] x ds items xs Hd _ IH]; intros hs hp off Hoff Hb Hh Ht; [reflexivity|].
    cbn [fst snd] in Hd. pose proof (tlen_nonneg items) as Htl.
    destruct dy.
    - (* dynamic member: offset word in the head, encoding in the tail *)
      cbn [heads] in Hh. unfold tails in Ht. cbn [flat_map fst snd] in Ht. fold (tails items) in Ht.
      cbn [tlen] in Hb.
      destruct (embedded_app _ _ _ _ Hh) as [Hh1 Hh2]. rewrite zlen_word in Hh2.
      destruct (embedded_app _ _ _ _ Ht) as [Ht1 Ht2].
      cbn [walk_list]. rewrite (Hd hs hp off); [|unfold zlen in *; lia|exact Hh1|exact Ht1]. cbn [bind].
      rewrite (IH hs (hp + 32) (off + blen e)); cbn [bind hlen]; try reflexivity; unfold blen, zlen in *; try lia.
      + exact Hh2.
      + replace (hs + (off + Z.of_nat (length e))) with (hs + off + Z.of_nat (length e)) by lia. exact Ht2.
    - (* static member: encoding in the head *)
      cbn [heads] in Hh. unfold tails in Ht. cbn [flat_map fst snd app] in Ht. fold (tails items) in Ht.
      cbn [tlen] in Hb.
      destruct (embedded_app _ _ _ _ Hh) as [Hh1 Hh2].
      cbn [walk_list]. rewrite (Hd hs hp Hh1). cbn [bind].
      rewrite (IH hs (hp + zlen e) off); cbn [bind hlen]; try reflexivity; try lia; assumption.
  Qed.
End Walk.

(* ---------- the specification's tuple / array helpers under names ---------- *)
Fixpoint tuple_items (ts : list ty) (vs : list val) {struct vs} : list item :=
  match ts, vs with
  | t :: ts', v :: vs' => (dynamic t, enc t v) :: tuple_items ts' vs'
  | _, _ => []
  end.

Lemma enc_tuple ts vs : enc (TTuple ts) (VList vs) = head_tail (tuple_items ts vs).
Proof.
  reflexivity.
Qed.

Fixpoint tuple_wt (ts : list ty) (vs : list val) {struct vs} : bool :=
  match ts, vs with
  | [], [] => true
  | t :: ts', v :: vs' => well_typed t v && tuple_wt ts' vs'
  | _, _ => false
  end.

Lemma well_typed_tuple ts vs : well_typed (TTuple ts) (VList vs) = tuple_wt ts vs.
Proof.
  reflexivity.
Qed.

Fixpoint tuple_cvs (cs : list tcomp) (vs : list val) {struct vs} : list cval :=
  match cs, vs with
  | c :: cs', v :: vs' => cv_of c v :: tuple_cvs cs' vs'
  | _, _ => []
  end.

Lemma cv_of_tuple cs k vs : cv_of (TCTuple cs k) (VList vs) = CV (Some (TCTuple cs k)) (tuple_cvs cs vs) GNil.
Proof.
  reflexivity.
Qed.

Definition array_items (t : ty) (vs : list val) : list item := map (fun v => (dynamic t, enc t v)) vs.

(* ---------- hypotheses on the component tree and on sizes ---------- *)
Definition good (c : tcomp) : bool :=
  tc_consistent c && wf_ty (ty_of c) && tc_no_fixed_point c && tc_no_zero_len c.

Lemma good_fixed len ch k : good (TCFixedArr len ch k) = true -> good ch = true /\ 0 < len < 2 ^ 32.
Proof.
  unfold good. cbn [tc_consistent ty_of wf_ty tc_no_fixed_point tc_no_zero_len].
  rewrite !andb_true_iff, negb_true_iff. intros [[[[[H1 H2] H3] H4] H5] [H6 H7]].
  repeat split; try assumption; lia.
Qed.

Lemma good_dyn ch k : good (TCDynArr ch k) = true -> good ch = true.
Proof. unfold good. cbn [tc_consistent ty_of wf_ty tc_no_fixed_point tc_no_zero_len]. tauto. Qed.

Lemma forallb_map' {A B} (f : B -> bool) (g : A -> B) l : forallb f (map g l) = forallb (fun x => f (g x)) l.
Proof. induction l as [|x l IH]; simpl; [reflexivity|]. rewrite IH. reflexivity. Qed.

Lemma good_tuple l k : good (TCTuple l k) = true -> Forall (fun c => good c = true) l.
Proof.
  unfold good. cbn [tc_consistent ty_of wf_ty tc_no_fixed_point tc_no_zero_len].
  rewrite !andb_true_iff, forallb_map', !forallb_forall. intros [[[H1 H2] H3] H4].
  apply Forall_forall. intros x Hx. rewrite H1, H2, H3, H4 by exact Hx. reflexivity.
Qed.

(* every list (array, tuple) in the value is shorter than 2^32 *)
Fixpoint counts_ok (v : val) : bool :=
  match v with
  | VList l => (Z.of_nat (length l) <? 2 ^ 32) && forallb counts_ok l
  | _ => true
  end.

Definition sizes_ok (t : ty) (v : val) : Prop := zlen (enc t v) < 2 ^ 32 /\ counts_ok v = true.

(* ---------- E-static / E-dyn ---------- *)
Definition elem_goal (block : bytes) (c : tcomp) : Prop :=
  forall v, well_typed (ty_of c) v = true -> sizes_ok (ty_of c) v ->
    elem_ok block (decodeABIElement block c) (dynamic (ty_of c)) (enc (ty_of c) v) (cv_of c v).

Lemma pad_right_length_ge b : zlen b <= zlen (pad_right b).
Proof. destruct (pad_right_app b) as [k [E _]]. rewrite E, zlen_app. unfold zlen. lia. Qed.

Lemma elem_elementary block e s m n k :
  good (TCElem e s m n k) = true -> elem_goal block (TCElem e s m n k).
Proof.
  intros Hg v Hwt [Hsz _]. unfold good in Hg.
  cbn [tc_consistent tc_no_fixed_point tc_no_zero_len] in Hg. rewrite !andb_true_iff in Hg.
  destruct Hg as [[[Hc Hwf] Hnf] _].
  destruct e; cbn [ty_of] in *; try discriminate.
  - (* int<M> *)
    destruct v as [z| |]; cbn [well_typed] in Hwt; try discriminate.
    cbn [wf_ty] in Hwf. cbn [dynamic enc cv_of elem_ok]. intros hs hp He.
    cbn [decodeABIElement decode_elementary decoder_of].
    rewrite (decodeABISignedInt_word block hp m _ z); [cbn [bind]; rewrite zlen_word; reflexivity| lia | lia | exact He].
  - (* uint<M> *)
    destruct v as [z| |]; cbn [well_typed] in Hwt; try discriminate.
    cbn [wf_ty] in Hwf. cbn [dynamic enc cv_of elem_ok]. intros hs hp He.
    cbn [decodeABIElement decode_elementary decoder_of].
    rewrite (decodeABIUnsignedInt_word block hp m _ z); [cbn [bind]; rewrite zlen_word; reflexivity| lia | lia | lia | exact He].
  - (* address *)
    destruct v as [z| |]; cbn [well_typed] in Hwt; try discriminate.
    cbn [default_m] in Hc. apply N.eqb_eq in Hc. subst m.
    cbn [dynamic enc cv_of elem_ok]. intros hs hp He.
    cbn [decodeABIElement decode_elementary decoder_of].
    rewrite (decodeABIUnsignedInt_word block hp 160 _ z); [cbn [bind]; rewrite zlen_word; reflexivity| reflexivity | lia | lia | exact He].
  - (* bool *)
    destruct v as [z| |]; cbn [well_typed] in Hwt; try discriminate.
    cbn [default_m] in Hc. apply N.eqb_eq in Hc. subst m.
    cbn [dynamic enc cv_of elem_ok]. intros hs hp He.
    cbn [decodeABIElement decode_elementary decoder_of].
    assert (0 <= z < two 8) by (change (two 8) with 256; lia).
    rewrite (decodeABIUnsignedInt_word block hp 8 _ z); [cbn [bind]; rewrite zlen_word; reflexivity| reflexivity | lia | lia | exact He].
  - (* bytes<M> / bytes *)
    destruct (m =? 0)%N eqn:Em.
    + apply N.eqb_eq in Em. subst m.
      destruct v as [|b|]; cbn [well_typed] in Hwt; try discriminate.
      cbn [dynamic enc cv_of elem_ok] in *. intros hs hp o Ho Hw He.
      cbn [decodeABIElement decode_elementary decoder_of]. unfold decodeABIBytes.
      rewrite (decodeABIBytes_raw_dyn block hs hp o b Ho); [reflexivity| |exact Hw|exact He].
      rewrite zlen_app, zlen_word in Hsz. pose proof (pad_right_length_ge b). lia.
    + apply N.eqb_neq in Em.
      destruct v as [|b|]; cbn [well_typed] in Hwt; try discriminate.
      cbn [wf_ty] in Hwf. cbn [dynamic enc cv_of elem_ok] in *. intros hs hp He.
      cbn [decodeABIElement decode_elementary decoder_of]. unfold decodeABIBytes.
      rewrite (decodeABIBytes_raw_fixed block hs hp m b); [cbn [bind]| lia | lia | exact He].
      unfold zlen. rewrite pad_right_small by lia. reflexivity.
  - (* function *)
    destruct v as [|b|]; cbn [well_typed] in Hwt; try discriminate.
    cbn [default_m] in Hc. apply N.eqb_eq in Hc. subst m.
    cbn [dynamic enc cv_of elem_ok] in *. intros hs hp He.
    cbn [decodeABIElement decode_elementary decoder_of]. unfold decodeABIBytes.
    rewrite (decodeABIBytes_raw_fixed block hs hp 24 b); [cbn [bind]| lia | lia | exact He].
    unfold zlen. rewrite pad_right_small by lia. reflexivity.
  - (* string *)
    destruct v as [|b|]; cbn [well_typed] in Hwt; try discriminate.
    apply N.eqb_eq in Hc. subst m.
    cbn [dynamic enc cv_of elem_ok] in *. intros hs hp o Ho Hw He.
    cbn [decodeABIElement decode_elementary decoder_of]. unfold decodeABIString.
    rewrite (decodeABIBytes_raw_dyn block hs hp o b Ho); [reflexivity| |exact Hw|exact He].
    rewrite zlen_app, zlen_word in Hsz. pose proof (pad_right_length_ge b). lia.
Qed.

(* ---------- unfolding decodeABIElement on composite components ---------- *)
Lemma dec_tuple_unfold block children k hs hp :
  decodeABIElement block (TCTuple children k) hs hp =
  (let c := TCTuple children k in
   let dyn := isDynamicType c in
   do (hs', hp') <- (if dyn then do ho <- decodeABILength block hp; Ok (hs + ho, hs + ho) else Ok (hs, hp));
   do (rd, l) <- walkDynamicChildArrayABIBytes block children hs' hp';
   Ok (if dyn then 32 else rd, CV (Some c) l GNil)).
Proof.
  cbn [decodeABIElement]. cbv zeta.
  destruct (if isDynamicType (TCTuple children k)
            then do ho <- decodeABILength block hp; Ok (hs + ho, hs + ho) else Ok (hs, hp)) as [[hs' hp']| |];
    cbn [bind]; try reflexivity.
  set (F := fix walk (l : list tcomp) (headPosition : Z) {struct l} : res (Z * list cval) :=
              match l with
              | [] => Ok (0, [])
              | ch :: r =>
                  do (n, x) <- decodeABIElement block ch hs' headPosition;
                  do (m, xs) <- walk r (headPosition + n); Ok (n + m, x :: xs)
              end).
  assert (E : forall l q, F l q = walkDynamicChildArrayABIBytes block l hs' q).
  { induction l as [|a l IH]; intros q; [reflexivity|].
    cbn [walkDynamicChildArrayABIBytes].
    change (F (a :: l) q) with
        (do (n, x) <- decodeABIElement block a hs' q; do (m, xs) <- F l (q + n); Ok (n + m, x :: xs)).
    destruct (decodeABIElement block a hs' q) as [[n x]| |]; cbn [bind]; try reflexivity.
    rewrite IH. reflexivity. }
  rewrite E. reflexivity.
Qed.

Lemma dec_fixed_unfold block len ch k hs hp :
  decodeABIElement block (TCFixedArr len ch k) hs hp =
  (let c := TCFixedArr len ch k in
   if isDynamicType c then
     do ho <- decodeABILength block hp;
     if (len >? 0) && ((len - 1) * 32 >=? zlen block - (hs + ho)) then Err ENotEnoughValue else
     if len <? 0 then Panic else
     do (_, x) <- walkDynamicChildArrayABIBytes_rep (decodeABIElement block ch) c len (hs + ho) (hs + ho);
     Ok (32, x)
   else decodeABIFixedArrayBytes block (decodeABIElement block ch) c ch len hs hp).
Proof. reflexivity. Qed.

Lemma dec_dyn_unfold block ch k hs hp :
  decodeABIElement block (TCDynArr ch k) hs hp =
  (do ho <- decodeABILength block hp;
   do x <- decodeABIDynamicArrayBytes block (decodeABIElement block ch) (TCDynArr ch k) ch (hs + ho);
   Ok (32, x)).
Proof. reflexivity. Qed.

(* ---------- a type that occupies head bytes occupies at least one word per value ---------- *)
Lemma zlen_nonneg (b : bytes) : 0 <= zlen b.
Proof. unfold zlen. lia. Qed.

Lemma zlen_flat_map_ge (items : list item) d e : In (d, e) items -> zlen e <= zlen (flat_map snd items).
Proof.
  induction items as [|[d' e'] r IH]; simpl; [tauto|]. intros [E|H'].
  - injection E as -> ->. rewrite zlen_app. pose proof (zlen_nonneg (flat_map snd r)). lia.
  - rewrite zlen_app. specialize (IH H'). pose proof (zlen_nonneg e'). lia.
Qed.

Lemma tuple_static_all ts vs : existsb dynamic ts = false -> all_static (tuple_items ts vs).
Proof.
  revert ts; induction vs as [|v vs IH]; intros [|t ts] H; try constructor.
  - cbn [existsb] in H. apply orb_false_iff in H as [H1 H2]. exact H1.
  - cbn [existsb] in H. apply orb_false_iff in H as [H1 H2]. apply IH. exact H2.
Qed.

Lemma array_static_all t vs : dynamic t = false -> all_static (array_items t vs).
Proof. intros H. unfold array_items, all_static. apply Forall_forall. intros it Hi. apply in_map_iff in Hi as [v [<- _]]. exact H. Qed.

Lemma occ_min c :
  tc_consistent c = true -> wf_ty (ty_of c) = true -> occupiesHeadBytes c = true ->
  forall v, well_typed (ty_of c) v = true -> dynamic (ty_of c) = false -> 32 <= zlen (enc (ty_of c) v).
Proof.
  induction c as [e s m n k|len ch k IH|ch k IH|l k IH] using tcomp_ind'; intros Hc Hwf Hocc v Hwt Hdyn.
  - cbn [tc_consistent] in Hc.
    destruct e; cbn [ty_of] in *; try discriminate;
      try (destruct v as [z|b|]; cbn [well_typed] in Hwt; try discriminate; cbn [enc]; rewrite zlen_word; lia).
    + destruct (m =? 0)%N eqn:Em; [discriminate|]. apply N.eqb_neq in Em.
      destruct v as [z|b|]; cbn [well_typed] in Hwt; try discriminate. cbn [enc wf_ty] in *.
      unfold zlen. rewrite pad_right_small by lia. lia.
    + destruct v as [z|b|]; cbn [well_typed] in Hwt; try discriminate. cbn [enc].
      unfold zlen. rewrite pad_right_small by lia. lia.
  - cbn [ty_of tc_consistent wf_ty occupiesHeadBytes dynamic] in *.
    rewrite !andb_true_iff in Hc. rewrite !andb_true_iff in Hocc. destruct Hc as [[Hc1 Hc2] Hc3]. destruct Hocc as [Ho1 Ho2].
    destruct v as [| |vs]; cbn [well_typed] in Hwt; try discriminate.
    apply andb_true_iff in Hwt as [Hl Hall]. cbn [enc]. fold (array_items (ty_of ch) vs).
    rewrite head_tail_static by (apply array_static_all; exact Hdyn).
    apply Z.gtb_lt in Ho1. apply N.eqb_eq in Hl.
    destruct vs as [|v0 vs]; [simpl in Hl; lia|].
    cbn [forallb] in Hall. apply andb_true_iff in Hall as [Hv0 _].
    specialize (IH Hc3 Hwf Ho2 v0 Hv0 Hdyn).
    pose proof (zlen_flat_map_ge (array_items (ty_of ch) (v0 :: vs)) (dynamic (ty_of ch)) (enc (ty_of ch) v0)
                  ltac:(left; reflexivity)). lia.
  - discriminate.
  - cbn [ty_of tc_consistent wf_ty occupiesHeadBytes dynamic] in *.
    destruct v as [| |vs]; try (cbn [well_typed] in Hwt; discriminate).
    rewrite well_typed_tuple in Hwt. rewrite enc_tuple.
    rewrite head_tail_static by (apply tuple_static_all; exact Hdyn).
    revert vs Hwt. induction l as [|c l IHl]; intros vs Hwt; [discriminate|].
    inversion IH as [|? ? IHc IHr]; subst.
    cbn [map forallb existsb] in *.
    apply andb_true_iff in Hc as [Hc1 Hc2]. apply andb_true_iff in Hwf as [Hw1 Hw2].
    apply orb_false_iff in Hdyn as [Hd1 Hd2].
    destruct vs as [|v0 vs]; [discriminate|]. cbn [tuple_wt] in Hwt. apply andb_true_iff in Hwt as [Hv0 Hvs].
    cbn [tuple_items flat_map snd]. rewrite zlen_app.
    destruct (occupiesHeadBytes c) eqn:Eo.
    + specialize (IHc Hc1 Hw1 eq_refl v0 Hv0 Hd1). pose proof (zlen_nonneg (flat_map snd (tuple_items (map ty_of l) vs))). lia.
    + cbn [orb] in Hocc. specialize (IHl IHr Hc2 Hw2 Hocc Hd2 vs Hvs). pose proof (zlen_nonneg (enc (ty_of c) v0)). lia.
Qed.

Lemma hlen_array_ge t vs :
  (forall v, In v vs -> 32 <= (if dynamic t then 32 else zlen (enc t v))) ->
  32 * Z.of_nat (length vs) <= hlen (array_items t vs).
Proof.
  induction vs as [|v vs IH]; intros H; [simpl; lia|].
  cbn [array_items map hlen length]. fold (array_items t vs).
  specialize (IH ltac:(intros; apply H; right; assumption)). specialize (H v ltac:(left; reflexivity)).
  destruct (dynamic t); lia.
Qed.

(* ---------- building all_ok from the induction hypotheses ---------- *)
Lemma items_bound items : zlen (head_tail items) < 2 ^ 32 -> Forall (fun it => zlen (snd it) < 2 ^ 32) items.
Proof.
  intros H. rewrite head_tail_length in H. apply Forall_forall. intros [d e] Hin.
  pose proof (item_le items d e Hin). simpl. lia.
Qed.

Lemma all_ok_tuple block cs :
  Forall (fun c => good c = true -> elem_goal block c) cs -> Forall (fun c => good c = true) cs ->
  forall vs, tuple_wt (map ty_of cs) vs = true ->
    Forall (fun it => zlen (snd it) < 2 ^ 32) (tuple_items (map ty_of cs) vs) ->
    forallb counts_ok vs = true ->
    all_ok block (map (decodeABIElement block) cs) (tuple_items (map ty_of cs) vs) (tuple_cvs cs vs).
Proof.
  induction 1 as [|c cs Hc _ IH]; intros Hg vs Hwt Hb Hcnt.
  - destruct vs; [constructor|discriminate].
  - destruct vs as [|v vs]; [discriminate|].
    inversion Hg as [|? ? Hgc Hgr]; subst.
    cbn [map tuple_wt tuple_items tuple_cvs forallb] in *.
    apply andb_true_iff in Hwt as [Hv Hvs]. apply andb_true_iff in Hcnt as [Hcv Hcvs].
    inversion Hb as [|? ? Hb1 Hb2]; subst. simpl in Hb1.
    constructor.
    + apply (Hc Hgc v Hv). split; assumption.
    + apply IH; assumption.
Qed.

Lemma all_ok_array block ch :
  elem_goal block ch ->
  forall vs, forallb (well_typed (ty_of ch)) vs = true ->
    Forall (fun it => zlen (snd it) < 2 ^ 32) (array_items (ty_of ch) vs) ->
    forallb counts_ok vs = true ->
    all_ok block (@repeat dec_fn (decodeABIElement block ch) (length vs)) (array_items (ty_of ch) vs) (map (cv_of ch) vs).
Proof.
  intros Hc. induction vs as [|v vs IH]; intros Hwt Hb Hcnt; [constructor|].
  cbn [forallb array_items map length repeat] in *. fold (array_items (ty_of ch) vs) in *.
  apply andb_true_iff in Hwt as [Hv Hvs]. apply andb_true_iff in Hcnt as [Hcv Hcvs].
  inversion Hb as [|? ? Hb1 Hb2]; subst. simpl in Hb1.
  constructor.
  - apply (Hc v Hv). split; assumption.
  - apply IH; assumption.
Qed.

Lemma tails_static_tlen items : all_static items -> tlen items = 0.
Proof. intros H. rewrite <- tails_length, tails_static by exact H. reflexivity. Qed.

(* embedded head_tail: the heads at the start, the tails right after them *)
Lemma embedded_head_tail block off items :
  embedded block off (head_tail items) ->
  embedded block off (heads (hlen items) items) /\ embedded block (off + hlen items) (tails items).
Proof.
  unfold head_tail. rewrite head_len_hlen. intros H. apply embedded_app in H. rewrite heads_length in H. exact H.
Qed.

Lemma good_isDynamic c : good c = true -> isDynamicType c = dynamic (ty_of c).
Proof.
  unfold good. rewrite !andb_true_iff. intros [[[H1 _] _] H2]. apply isDynamicType_dynamic; assumption.
Qed.

Lemma counts_list vs : counts_ok (VList vs) = true -> Z.of_nat (length vs) < 2 ^ 32 /\ forallb counts_ok vs = true.
Proof. cbn [counts_ok]. rewrite andb_true_iff. intros [H1 H2]. split; [lia|exact H2]. Qed.

(* ---------- the element theorem ---------- *)
Theorem decodeABIElement_enc block c : good c = true -> elem_goal block c.
Proof.
  induction c as [e s m n k|len ch k IH|ch k IH|l k IH] using tcomp_ind'; intros Hg.
  - apply elem_elementary. exact Hg.
  - (* T[k] *)
    destruct (good_fixed _ _ _ Hg) as [Hgc Hlen]. specialize (IH Hgc).
    intros v Hwt [Hsz Hcnt]. pose proof (good_isDynamic _ Hg) as Hdyn.
    cbn [ty_of] in *. destruct v as [| |vs]; cbn [well_typed] in Hwt; try discriminate.
    apply andb_true_iff in Hwt as [Hl Hall]. apply N.eqb_eq in Hl.
    assert (Hn : Z.to_nat len = length vs) by lia.
    cbn [enc] in *. fold (array_items (ty_of ch) vs) in *.
    destruct (counts_list _ Hcnt) as [_ Hcs].
    pose proof (all_ok_array block ch IH vs Hall (items_bound _ Hsz) Hcs) as Hok.
    change (cv_of (TCFixedArr len ch k) (VList vs)) with (CV (Some (TCFixedArr len ch k)) (map (cv_of ch) vs) GNil).
    cbn [dynamic] in *. destruct (dynamic (ty_of ch)) eqn:Ed; cbn [elem_ok].
    + intros hs hp o Ho Hw He. rewrite dec_fixed_unfold. cbv zeta. rewrite Hdyn.
      rewrite (decodeABILength_word _ _ _ Hw Ho). cbn [bind].
      destruct (embedded_head_tail _ _ _ He) as [Hh Ht].
      pose proof (embedded_bound _ _ _ He) as Hbd.
      rewrite head_tail_length in Hsz, Hbd.
      pose proof (tlen_nonneg (array_items (ty_of ch) vs)) as Htn.
      assert (Hge : 32 * Z.of_nat (length vs) <= hlen (array_items (ty_of ch) vs)).
      { apply hlen_array_ge. intros v _. rewrite Ed. lia. }
      replace ((len >? 0) && ((len - 1) * 32 >=? zlen block - (hs + o))) with false
        by (symmetry; apply andb_false_iff; right; rewrite Z.geb_leb; apply Z.leb_gt; lia).
      replace (len <? 0) with false by (symmetry; apply Z.ltb_ge; lia).
      unfold walkDynamicChildArrayABIBytes_rep. rewrite loop_elems_nat, loop_nat_list, Hn.
      rewrite (walk_list_ok block _ _ _ Hok (hs + o) (hs + o) (hlen (array_items (ty_of ch) vs)));
        [reflexivity|apply hlen_nonneg|lia|exact Hh|exact Ht].
    + intros hs hp He. rewrite dec_fixed_unfold. cbv zeta. rewrite Hdyn.
      unfold decodeABIFixedArrayBytes.
      pose proof (array_static_all (ty_of ch) vs Ed) as Hst.
      pose proof (embedded_bound _ _ _ He) as Hbd.
      rewrite head_tail_length, (tails_static_tlen _ Hst), Z.add_0_r in Hbd.
      assert (Hguard : (len >? 0) && occupiesHeadBytes ch && ((len - 1) * 32 >=? zlen block - hp) = false).
      { destruct (occupiesHeadBytes ch) eqn:Eo; [|rewrite andb_false_r; reflexivity].
        apply andb_false_iff; right. rewrite Z.geb_leb. apply Z.leb_gt.
        assert (32 * Z.of_nat (length vs) <= hlen (array_items (ty_of ch) vs)).
        { apply hlen_array_ge. intros v Hv. rewrite Ed.
          unfold good in Hgc. rewrite !andb_true_iff in Hgc. destruct Hgc as [[[Hc' Hw'] _] _].
          apply (occ_min ch Hc' Hw' Eo v); [|exact Ed].
          rewrite forallb_forall in Hall. apply Hall. exact Hv. }
        lia. }
      rewrite Hguard.
      replace (len <? 0) with false by (symmetry; apply Z.ltb_ge; lia).
      rewrite loop_elems_nat, loop_nat_list, Hn.
      rewrite head_tail_static in He by exact Hst.
      rewrite (walk_list_static block _ _ _ Hok Hst hs hp He). cbn [bind].
      rewrite head_tail_length, (tails_static_tlen _ Hst), Z.add_0_r. reflexivity.
  - (* T[] *)
    specialize (IH (good_dyn _ _ Hg)).
    intros v Hwt [Hsz Hcnt].
    cbn [ty_of] in *. destruct v as [| |vs]; cbn [well_typed] in Hwt; try discriminate.
    cbn [enc] in *. fold (array_items (ty_of ch) vs) in *.
    destruct (counts_list _ Hcnt) as [Hcl Hcs].
    rewrite zlen_app, zlen_word in Hsz.
    assert (Hsz' : zlen (head_tail (array_items (ty_of ch) vs)) < 2 ^ 32) by lia.
    pose proof (all_ok_array block ch IH vs Hwt (items_bound _ Hsz') Hcs) as Hok.
    change (cv_of (TCDynArr ch k) (VList vs)) with (CV (Some (TCDynArr ch k)) (map (cv_of ch) vs) GNil).
    cbn [dynamic elem_ok]. intros hs hp o Ho Hw He.
    rewrite dec_dyn_unfold. rewrite (decodeABILength_word _ _ _ Hw Ho). cbn [bind].
    unfold decodeABIDynamicArrayBytes.
    destruct (embedded_app _ _ _ _ He) as [He1 He2]. rewrite zlen_word in He2.
    rewrite (decodeABILength_word _ _ _ He1) by lia. cbn [bind].
    destruct (embedded_head_tail _ _ _ He2) as [Hh Ht].
    pose proof (embedded_bound _ _ _ He2) as Hbd. rewrite head_tail_length in Hbd, Hsz.
    pose proof (tlen_nonneg (array_items (ty_of ch) vs)) as Htn.
    (* the count guard does not fire *)
    assert (Hguard : (Z.of_nat (length vs) >? 0) && occupiesHeadBytes ch &&
                     ((Z.of_nat (length vs) - 1) * 32 >=? zlen block - (hs + o + 32)) = false).
    { destruct (occupiesHeadBytes ch) eqn:Eo; [|rewrite andb_false_r; reflexivity].
      destruct (Z.of_nat (length vs) >? 0) eqn:Ez; [|reflexivity]. cbn [andb].
      rewrite Z.geb_leb. apply Z.leb_gt.
      assert (32 * Z.of_nat (length vs) <= hlen (array_items (ty_of ch) vs)).
      { apply hlen_array_ge. intros v Hv. destruct (dynamic (ty_of ch)) eqn:Ed; [lia|].
        unfold good in Hg. cbn [tc_consistent ty_of wf_ty] in Hg. rewrite !andb_true_iff in Hg.
        destruct Hg as [[[Hc Hw'] _] _].
        apply (occ_min ch Hc Hw' Eo v); [|exact Ed].
        rewrite forallb_forall in Hwt. apply Hwt. exact Hv. }
      lia. }
    rewrite Hguard.
    rewrite loop_elems_nat, loop_nat_list, Nat2Z.id.
    rewrite (walk_list_ok block _ _ _ Hok (hs + o + 32) (hs + o + 32) (hlen (array_items (ty_of ch) vs)));
      [reflexivity|apply hlen_nonneg|lia|exact Hh|exact Ht].
  - (* tuples *)
    pose proof (good_tuple _ _ Hg) as Hgl. pose proof (good_isDynamic _ Hg) as Hdyn.
    intros v Hwt [Hsz Hcnt].
    cbn [ty_of] in *. destruct v as [| |vs]; try (cbn [well_typed] in Hwt; discriminate).
    rewrite well_typed_tuple in Hwt. rewrite enc_tuple in *. rewrite cv_of_tuple.
    destruct (counts_list _ Hcnt) as [_ Hcs].
    pose proof (all_ok_tuple block l IH Hgl vs Hwt (items_bound _ Hsz) Hcs) as Hok.
    destruct (dynamic (TTuple (map ty_of l))) eqn:Ed; cbn [elem_ok].
    + intros hs hp o Ho Hw He. rewrite dec_tuple_unfold. cbv zeta. rewrite Hdyn.
      rewrite (decodeABILength_word _ _ _ Hw Ho). cbn [bind].
      rewrite walk_children_list.
      destruct (embedded_head_tail _ _ _ He) as [Hh Ht].
      rewrite head_tail_length in Hsz.
      rewrite (walk_list_ok block _ _ _ Hok (hs + o) (hs + o) (hlen (tuple_items (map ty_of l) vs)));
        [reflexivity|apply hlen_nonneg|lia|exact Hh|exact Ht].
    + intros hs hp He. rewrite dec_tuple_unfold. cbv zeta. rewrite Hdyn. cbn [bind].
      rewrite walk_children_list.
      cbn [dynamic] in Ed.
      pose proof (tuple_static_all (map ty_of l) vs Ed) as Hst.
      rewrite head_tail_static in He by exact Hst.
      rewrite (walk_list_static block _ _ _ Hok Hst hs hp He). cbn [bind].
      rewrite head_tail_length, (tails_static_tlen _ Hst), Z.add_0_r. reflexivity.
Qed.
