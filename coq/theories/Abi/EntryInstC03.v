(* C12: the call-data round trip of Properties/C12.v (C12_calldata_roundtrip), which is parametric in the
   data codec's round-trip law, instantiated with the encoder model of C02 (Abi/EncModel.v, theorem
   EncProofs3.encode_is_spec) and the decoder model of C03 (Abi/DecModel.v, theorem
   DecProofs4.DecodeABIData_enc, imported read-only):  for every entry whose parameter list is a valid
   type list without fixed-point members and without T[0], and every well-typed argument tuple within
   the sizes both models accept,
       EncodeCallData e x = selector ++ enc((T1..Tn), x)   and   DecodeCallData e (that) = the tree of x. *)
From Coq Require Import List NArith ZArith Lia Bool Arith.
From Coq Require Import Init.Byte.
From FFS Require Import Base.Res Base.Bytes Abi.Types Abi.ModelTypes Abi.EntryModel Abi.EntrySpec.
From FFS Require Import Abi.EntryProofs Abi.EntryInst.
From FFS Require Abi.Spec Abi.EncModel Abi.EncProofs3 Abi.DecModel Abi.DecSpec Abi.DecProofs3 Abi.DecProofs4.
Import ListNotations.

Theorem calldata_roundtrip_codec (H : bytes -> bytes) :
  (forall m, length (H m) = 32%nat) ->
  forall (e : entry) (cs : list tcomp) (x : cval),
    tree_children (e_inputs e) = Ok cs -> all_suffix_canonical cs ->
    let tc := TCTuple cs [] in
    tc_wf tc = true -> tc_no_fixed_point tc = true -> tc_no_zero_len tc = true ->
    typed_as tc x = true -> EncProofs3.values_ok x = true ->
    Spec.well_typed (ty_of tc) (val_of x) = true -> EncProofs3.weight_ok (val_of x) ->
    (DecModel.zlen (Spec.enc (ty_of tc) (val_of x)) < 2 ^ 32)%Z -> DecProofs3.counts_ok (val_of x) = true ->
    exists b,
      EncodeCallData H EncModel.EncodeABIData e x = Ok b /\
      b = selector_spec H (e_name e) (map ty_of cs) ++ Spec.enc (TTuple (map ty_of cs)) (val_of x) /\
      DecodeCallData H DecModel.DecodeABIData e b = Ok (DecSpec.cv_of tc (val_of x)).
Proof.
  intros Hlen e cs x Ht Hs tc Hwf Hnf Hnz Hty Hv Hwt Hw Hsz Hc.
  pose proof (calldata_is_spec H Hlen e cs x Ht Hs Hwf Hnf Hnz Hty Hv Hwt Hw) as He.
  eexists. split; [exact He|]. split; [reflexivity|].
  eapply calldata_roundtrip; [exact He|].
  intros id d tree Hid Hd Htree.
  unfold TypeComponentTree in Htree. rewrite Ht in Htree. cbn [bind] in Htree. injection Htree as <-.
  unfold EncModel.EncodeABIData in Hd.
  rewrite (EncProofs3.encode_is_spec x tc Hwf Hnf Hnz Hty Hv Hwt Hw) in Hd. cbn [bind fst] in Hd.
  injection Hd as <-.
  unfold tc_wf in Hwf. apply andb_prop in Hwf as [Hcons Hwfty].
  pose proof (DecProofs4.DecodeABIData_enc cs [] (val_of x) id [] Hcons Hwfty Hnf Hnz Hwt Hsz Hc) as Hdec.
  rewrite app_nil_r in Hdec.
  assert (Hz : DecModel.zlen id = 4%Z) by (unfold DecModel.zlen; rewrite Hid; reflexivity).
  rewrite Hz in Hdec. exact Hdec.
Qed.
