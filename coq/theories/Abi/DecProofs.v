(* Proofs about the decoder model, part 1: isDynamicType agrees with the specification's [dynamic];
   the binary early-exit element loop equals the obvious loop over a unary count. *)
From Coq Require Import List NArith ZArith Bool Lia.
From Coq Require Import Init.Byte.
From FFS Require Import Base.Res Base.Bytes Abi.Types Abi.Spec Abi.ModelTypes Abi.DecModel.
Import ListNotations.

(* ---------- isDynamicType = Types.dynamic ---------- *)
Lemma existsb_map {A B} (f : B -> bool) (g : A -> B) l : existsb f (map g l) = existsb (fun x => f (g x)) l.
Proof. induction l as [|x l IH]; simpl; [reflexivity|]. rewrite IH. reflexivity. Qed.

Lemma existsb_ext_Forall {A} (f g : A -> bool) l :
  Forall (fun x => f x = g x) l -> existsb f l = existsb g l.
Proof. induction 1 as [|x l H _ IH]; simpl; [reflexivity|]. rewrite H, IH. reflexivity. Qed.

Lemma isDynamicType_dynamic c :
  tc_consistent c = true -> tc_no_zero_len c = true -> isDynamicType c = dynamic (ty_of c).
Proof.
  induction c as [e s m n k|len ch k IH|ch k IH|l k IH] using tcomp_ind'; intros Hc Hz.
  - simpl in *. destruct e; simpl; try reflexivity.
    destruct s; simpl in Hc; destruct (m =? 0)%N eqn:E; simpl in *; try reflexivity; discriminate.
  - simpl in *. apply andb_prop in Hz as [Hz1 Hz2]. apply andb_prop in Hc as [_ Hc].
    destruct (len =? 0)%Z; [discriminate|]. apply IH; assumption.
  - reflexivity.
  - simpl in *. rewrite existsb_map. apply existsb_ext_Forall.
    rewrite forallb_forall in Hc, Hz. rewrite Forall_forall in *. intros x Hx.
    apply IH; auto.
Qed.

(* ---------- the element loop over a unary count ---------- *)
Fixpoint loop_nat (f : Z -> res (Z * cval)) (n : nat) (pos : Z) : res (Z * list cval) :=
  match n with
  | O => Ok (0%Z, [])
  | S n' =>
      do (k, x) <- f pos;
      do (rd, xs) <- loop_nat f n' (pos + k)%Z;
      Ok ((k + rd)%Z, x :: xs)
  end.

Fixpoint iter_nat {St} (n : nat) (step : St -> res St) (r : res St) : res St :=
  match n with O => r | S n' => iter_nat n' step (bind r step) end.

Lemma iter_nat_not_ok {St} n (step : St -> res St) r : (forall x, r <> Ok x) -> iter_nat n step r = r.
Proof.
  revert r; induction n as [|n IH]; intros r H; simpl; [reflexivity|].
  destruct r as [x| |]; [exfalso; eapply H; reflexivity| |]; simpl; apply IH; intros; discriminate.
Qed.

Lemma iter_nat_add {St} a b (step : St -> res St) r : iter_nat (a + b) step r = iter_nat b step (iter_nat a step r).
Proof. revert r; induction a as [|a IH]; intros r; simpl; [reflexivity|]. apply IH. Qed.

Lemma iter_res_nat {St} p (step : St -> res St) r : iter_res p step r = iter_nat (Pos.to_nat p) step r.
Proof.
  revert r; induction p as [p IH|p IH|]; intros r.
  - destruct r as [x| |].
    + cbn [iter_res]. rewrite !IH. rewrite Pos2Nat.inj_xI.
      replace (S (2 * Pos.to_nat p)) with (Pos.to_nat p + (Pos.to_nat p + 1))%nat by lia.
      rewrite !iter_nat_add. simpl. reflexivity.
    + simpl. symmetry. apply iter_nat_not_ok. intros; discriminate.
    + simpl. symmetry. apply iter_nat_not_ok. intros; discriminate.
  - destruct r as [x| |].
    + cbn [iter_res]. rewrite !IH. rewrite Pos2Nat.inj_xO.
      replace (2 * Pos.to_nat p)%nat with (Pos.to_nat p + Pos.to_nat p)%nat by lia.
      rewrite iter_nat_add. reflexivity.
    + simpl. symmetry. apply iter_nat_not_ok. intros; discriminate.
    + simpl. symmetry. apply iter_nat_not_ok. intros; discriminate.
  - destruct r; reflexivity.
Qed.

(* the accumulating iteration, n steps from (pos, rd, acc) *)
Lemma iter_nat_loop f n : forall pos rd acc,
  iter_nat n (loop_step f) (Ok (pos, rd, acc)) =
  match loop_nat f n pos with
  | Ok (rd', xs) => Ok ((pos + rd')%Z, (rd + rd')%Z, rev xs ++ acc)
  | Err e => Err e
  | Panic => Panic
  end.
Proof.
  induction n as [|n IH]; intros pos rd acc.
  - simpl. rewrite !Z.add_0_r. reflexivity.
  - cbn [iter_nat loop_nat]. cbn [bind loop_step].
    destruct (f pos) as [[k x]| |]; cbn [bind].
    + rewrite IH. destruct (loop_nat f n (pos + k)%Z) as [[rd' xs]| |]; cbn [bind]; try reflexivity.
      f_equal. f_equal; [f_equal; lia|]. simpl. rewrite <- app_assoc. reflexivity.
    + apply iter_nat_not_ok. intros; discriminate.
    + apply iter_nat_not_ok. intros; discriminate.
Qed.

Lemma loop_elems_nat f count pos : loop_elems f count pos = loop_nat f (Z.to_nat count) pos.
Proof.
  unfold loop_elems. destruct count as [|p|p]; try reflexivity.
  rewrite iter_res_nat, iter_nat_loop. rewrite Z2Nat.inj_pos.
  destruct (loop_nat f (Pos.to_nat p) pos) as [[rd xs]| |]; cbn [bind]; try reflexivity.
  rewrite app_nil_r, rev_involutive. reflexivity.
Qed.
