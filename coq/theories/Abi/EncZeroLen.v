(* C02, wave 6: the guard [tc_no_zero_len] of the encoder theorem relaxed to its exact form.  The
   value-driven dynamic flag of encodeABIChildren differs from the specification's [dynamic] only for
   a fixed array of length 0 whose ELEMENT type is dynamic; T[0] with a static T is encoded as the
   specification says (the empty string, static).  [tc_zero_len_static]: every T[0] in the tree has
   a static T.  The proof is EncProofs3.encode_is_spec with the one case changed. *)
From Coq Require Import List NArith ZArith Bool Arith Lia.
From Coq Require Import ZifyNat ZifyN ZifyBool.
From Coq Require Import Init.Byte.
From FFS Require Import Base.Res Base.Bytes Abi.Types Abi.Spec Abi.ModelTypes Abi.EncModel Abi.InputModel.
From FFS Require Import Abi.EncProofs Abi.EncProofs2 Abi.EncProofs3 Abi.InputProofs.
Import ListNotations.

Fixpoint tc_zero_len_static (t : tcomp) : bool :=
  match t with
  | TCElem _ _ _ _ _ => true
  | TCFixedArr len c _ => (negb (len =? 0)%Z || negb (dynamic (ty_of c))) && tc_zero_len_static c
  | TCDynArr c _ => tc_zero_len_static c
  | TCTuple l _ => forallb tc_zero_len_static l
  end.

Lemma no_zero_len_static t : tc_no_zero_len t = true -> tc_zero_len_static t = true.
Proof.
  induction t as [e s m n k|len c k IH|c k IH|ts k IH] using tcomp_ind'; cbn [tc_no_zero_len tc_zero_len_static]; intros H.
  - reflexivity.
  - apply andb_prop in H as [H1 H2]. rewrite H1, (IH H2). reflexivity.
  - exact (IH H).
  - induction IH as [|t r Ht _ IHr]; [reflexivity|]. cbn [forallb] in *. apply andb_prop in H as [H1 H2].
    rewrite (Ht H1), (IHr H2). reflexivity.
Qed.

Definition enc_correct_z (x : cval) : Prop :=
  forall tc, tc_wf tc = true -> tc_no_fixed_point tc = true -> tc_zero_len_static tc = true ->
    typed_as tc x = true -> values_ok x = true ->
    well_typed (ty_of tc) (val_of x) = true -> weight_ok (val_of x) ->
    encodeABIData x = Ok (enc (ty_of tc) (val_of x), dynamic (ty_of tc)).

(* children of an array: all of one component *)
Lemma array_children_z c' l :
  Forall enc_correct_z l ->
  tc_wf c' = true -> tc_no_fixed_point c' = true -> tc_zero_len_static c' = true ->
  forallb (typed_as c') l = true -> forallb values_ok l = true ->
  forallb (well_typed (ty_of c')) (map val_of l) = true ->
  weight_ok (VList (map val_of l)) ->
  let g := fun y => (enc (ty_of c') (val_of y), dynamic (ty_of c')) in
  pass1 encodeABIData l = Ok (map g l) /\
  sw (map g l) = map (fun v => (dynamic (ty_of c'), enc (ty_of c') v)) (map val_of l) /\
  existsb snd (map g l) = negb (length l =? 0)%nat && dynamic (ty_of c') /\
  len_ok (32 + hl (map g l) + tl (map g l)) /\ len_ok (length l).
Proof.
  intros IH W NF NZ TA VO WT WO g.
  assert (HW : (length l + list_sum (map weight (map val_of l)) < weight (VList (map val_of l)))%nat)
    by (cbn [weight]; rewrite map_length; lia).
  split; [|split; [|split; [|split]]].
  - apply pass1_map. rewrite Forall_forall in IH |- *. intros y Hy.
    rewrite forallb_forall in TA, VO, WT.
    apply (IH y Hy c' W NF NZ (TA y Hy) (VO y Hy)).
    + apply WT. apply in_map. exact Hy.
    + unfold weight_ok in *. cbn [weight] in WO.
      assert (weight (val_of y) <= list_sum (map weight (map val_of l)))%nat.
      { clear -Hy. induction l as [|a r IHr]; [contradiction|]. cbn [map]. rewrite list_sum_cons. destruct Hy as [->|Hy]; [lia|]. specialize (IHr Hy). lia. }
      lia.
  - unfold sw. rewrite !map_map. reflexivity.
  - clear. induction l as [|a r IHr]; [reflexivity|]. cbn [map existsb snd length Nat.eqb negb andb].
    destruct (dynamic (ty_of c')); [reflexivity|]. cbn [orb]. rewrite IHr. rewrite andb_false_r. reflexivity.
  - pose proof (hltl_le (map g l)) as H.
    assert (list_sum (map (fun c => 32 + length (fst c)) (map g l)) <= 64 * (length l + list_sum (map weight (map val_of l))))%nat.
    { unfold g. clear. induction l as [|a r IHr]; cbn [map length fst]; rewrite ?list_sum_cons; [simpl; lia|].
      pose proof (enc_length_bound (val_of a) (ty_of c')). unfold bytes in *. lia. }
    unfold weight_ok in WO. unfold len_ok.
    assert (64 * 2 ^ 248 + 32 < two 256)%Z by (vm_compute; reflexivity).
    lia.
  - apply len_ok_of_weight. unfold weight_ok in WO. lia.
Qed.

(* children of a tuple: one component per position *)
Fixpoint titems (ts : list tcomp) (l : list cval) : list (bytes * bool) :=
  match ts, l with
  | t :: ts', y :: l' => (enc (ty_of t) (val_of y), dynamic (ty_of t)) :: titems ts' l'
  | _, _ => []
  end.

Fixpoint tuple_typed_as (ts : list tcomp) (l : list cval) : bool :=
  match ts, l with
  | [], [] => true
  | t :: ts', y :: l' => typed_as t y && tuple_typed_as ts' l'
  | _, _ => false
  end.

Lemma typed_as_tuple ts k c l v :
  typed_as (TCTuple ts k) (CV c l v) = opt_tcomp_eqb c (Some (TCTuple ts k)) && tuple_typed_as ts l.
Proof.
  cbn [typed_as]. f_equal. revert ts. induction l as [|y r IH]; intros [|t ts]; try reflexivity.
  cbn [tuple_typed_as]. f_equal. apply IH.
Qed.

Lemma tuple_children_z l : Forall enc_correct_z l -> forall ts,
  forallb tc_wf ts = true -> forallb tc_no_fixed_point ts = true -> forallb tc_zero_len_static ts = true ->
  tuple_typed_as ts l = true -> forallb values_ok l = true ->
  tuple_typed (map ty_of ts) (map val_of l) = true ->
  (Z.of_nat (list_sum (map weight (map val_of l))) < 2 ^ 248)%Z ->
  pass1 encodeABIData l = Ok (titems ts l) /\
  sw (titems ts l) = tuple_items (map ty_of ts) (map val_of l) /\
  existsb snd (titems ts l) = existsb dynamic (map ty_of ts) /\
  (list_sum (map (fun c => 32 + length (fst c)) (titems ts l)) <= 64 * (length l + list_sum (map weight (map val_of l))))%nat.
Proof.
  induction 1 as [|y r Hy _ IH]; intros [|t ts] W NF NZ TA VO WT WO; cbn [tuple_typed_as] in TA; try discriminate.
  - repeat split; reflexivity.
  - cbn [forallb map] in *. rewrite list_sum_cons in WO.
    apply andb_prop in W as [W1 W2]. apply andb_prop in NF as [NF1 NF2]. apply andb_prop in NZ as [NZ1 NZ2].
    apply andb_prop in TA as [TA1 TA2]. apply andb_prop in VO as [VO1 VO2].
    cbn [tuple_typed] in WT. apply andb_prop in WT as [WT1 WT2].
    assert (E : encodeABIData y = Ok (enc (ty_of t) (val_of y), dynamic (ty_of t))).
    { apply Hy; auto. unfold weight_ok. lia. }
    destruct (IH ts W2 NF2 NZ2 TA2 VO2 WT2 ltac:(lia)) as (P1 & S1 & X1 & L1).
    cbn [titems pass1]. rewrite E. cbn [bind]. rewrite P1. cbn [bind].
    split; [reflexivity|]. split; [|split].
    + cbn [sw map tuple_items fst snd]. fold (sw (titems ts r)). rewrite S1. reflexivity.
    + cbn [existsb snd]. rewrite X1. reflexivity.
    + cbn [map length fst]. rewrite !list_sum_cons.
      pose proof (enc_length_bound (val_of y) (ty_of t)). unfold bytes in *. lia.
Qed.

Theorem encode_is_spec_z : forall x, enc_correct_z x.
Proof.
  induction x as [|c l v IH] using cval_ind'; intros tc W NF NZ TA VO WT WO.
  - discriminate.
  - destruct tc as [e s m n k|len c' k|c' k|ts k].
    + (* elementary *)
      cbn [typed_as] in TA. apply andb_prop in TA as [TC TA].
      destruct c as [c|]; [|discriminate]. cbn [opt_tcomp_eqb] in TC. apply tcomp_eqb_eq in TC. subst c.
      destruct l; [|discriminate]. cbn [encodeABIData val_of]. cbn [val_of] in WT, WO. cbn [values_ok] in VO.
      apply elementary_is_spec; auto.
      * intros b [->| ->]; cbn [gval_to_val] in WO; unfold weight_ok in WO; cbn [weight] in WO; apply len_ok_of_weight; lia.
      * unfold value_kind_ok in VO. destruct e; cbn [tc_no_fixed_point] in NF; try discriminate;
          cbn [reader_of] in *; destruct v; try discriminate; exact I.
    + (* T[k] *)
      cbn [typed_as] in TA. apply andb_prop in TA as [TC TA].
      destruct c as [c|]; [|discriminate]. cbn [opt_tcomp_eqb] in TC. apply tcomp_eqb_eq in TC. subst c.
      apply tc_wf_fixedarr in W as [Hlen W]. cbn [tc_no_fixed_point] in NF. cbn [tc_zero_len_static] in NZ.
      apply andb_prop in NZ as [NZ0 NZ]. cbn [values_ok] in VO.
      cbn [val_of ty_of] in *. cbn [well_typed] in WT. apply andb_prop in WT as [WL WT].
      destruct (array_children_z c' l IH W NF NZ TA VO WT WO) as (P1 & S1 & X1 & L1 & L2).
      cbn [encodeABIData]. rewrite (children_layout _ _ _ _ _ P1 L1 L2). cbn [app orb enc dynamic].
      rewrite S1, X1. f_equal. f_equal.
      apply N.eqb_eq in WL. rewrite map_length in WL.
      destruct (length l =? 0)%nat eqn:L0; [|reflexivity].
      apply Nat.eqb_eq in L0. cbn [negb andb].
      apply orb_prop in NZ0 as [NZ0|NZ0].
      { apply negb_true_iff in NZ0. apply Z.eqb_neq in NZ0. lia. }
      apply negb_true_iff in NZ0. symmetry. exact NZ0.
    + (* T[] *)
      cbn [typed_as] in TA. apply andb_prop in TA as [TC TA].
      destruct c as [c|]; [|discriminate]. cbn [opt_tcomp_eqb] in TC. apply tcomp_eqb_eq in TC. subst c.
      apply tc_wf_dynarr in W. cbn [tc_no_fixed_point] in NF. cbn [tc_zero_len_static] in NZ. cbn [values_ok] in VO.
      cbn [val_of ty_of] in *. cbn [well_typed] in WT.
      destruct (array_children_z c' l IH W NF NZ TA VO WT WO) as (P1 & S1 & X1 & L1 & L2).
      cbn [encodeABIData]. rewrite (children_layout _ _ _ _ _ P1 L1 L2). cbn [app orb enc dynamic].
      rewrite S1, map_length. reflexivity.
    + (* tuple *)
      rewrite typed_as_tuple in TA. apply andb_prop in TA as [TC TA].
      destruct c as [c|]; [|discriminate]. cbn [opt_tcomp_eqb] in TC. apply tcomp_eqb_eq in TC. subst c.
      apply tc_wf_tuple in W. cbn [tc_no_fixed_point] in NF. cbn [tc_zero_len_static] in NZ. cbn [values_ok] in VO.
      cbn [val_of ty_of] in *. rewrite well_typed_tuple in WT.
      assert (WO' : (Z.of_nat (list_sum (map weight (map val_of l))) < 2 ^ 248)%Z)
        by (unfold weight_ok in WO; cbn [weight] in WO; lia).
      destruct (tuple_children_z l IH ts W NF NZ TA VO WT WO') as (P1 & S1 & X1 & L1).
      assert (L1' : len_ok (32 + hl (titems ts l) + tl (titems ts l))).
      { pose proof (hltl_le (titems ts l)). unfold weight_ok in WO. cbn [weight] in WO. rewrite map_length in WO.
        unfold len_ok. assert (64 * 2 ^ 248 + 32 < two 256)%Z by (vm_compute; reflexivity). lia. }
      assert (L2 : len_ok (length l)).
      { apply len_ok_of_weight. unfold weight_ok in WO. cbn [weight] in WO. rewrite map_length in WO. lia. }
      cbn [encodeABIData]. rewrite (children_layout _ _ _ _ _ P1 L1' L2). cbn [app orb dynamic].
      rewrite enc_tuple, S1, X1. reflexivity.
Qed.

Section WalkZ.
Variable bifs : bytes -> res Z.

Theorem values_encode_is_spec_z params input x :
  let root := root_of params in
  tc_wf root = true -> tc_no_fixed_point root = true -> tc_zero_len_static root = true ->
  ext_clean input = true ->
  walkInput bifs root input = Ok x ->
  well_typed (ty_of root) (val_of x) = true -> weight_ok (val_of x) ->
  EncodeABIDataValues bifs params input = Ok (enc (ty_of root) (val_of x)).
Proof.
  intros root W NF NZ C H WT WO. unfold EncodeABIDataValues. fold root. rewrite H. cbn [bind].
  destruct (walkInput_shape bifs root input x H) as [T V]. unfold EncodeABIData.
  rewrite (encode_is_spec_z x root W NF NZ T (V C) WT WO). reflexivity.
Qed.
End WalkZ.
