(* C11, fourth part: what a decoded tree looks like, for the stability clause.

   [decoded_facts]: for a valid component tree without fixed-point leaves, a tree x returned by the
   decoder (a) is shaped like the component tree ([typed_as]), (b) holds at every leaf the Go value
   kind the encoder asserts ([values_ok]), (c) is exactly the tree [cv_of c (val_of x)] that C03's
   round-trip theorem speaks about, and (d) if the encoder accepts it and its bool leaves hold 0 or
   1, its value [val_of x] is well typed in the sense of the specification - which is what C02's
   encoder theorem needs to identify the encoder's output with the specification encoding. *)
From Coq Require Import List NArith ZArith Bool Lia ZifyBool ZifyN ZifyNat.
From Coq Require Import Init.Byte.
From FFS Require Import Base.Res Base.Bytes Abi.Types Abi.Spec Abi.ModelTypes Abi.DecModel Abi.DecSpec Abi.EncModel.
From FFS Require Import Abi.DecProofs Abi.DecTotalProofs2 Abi.EncProofs Abi.EncProofs3.
Import ListNotations.
Local Open Scope Z_scope.

(* ---------- equality tests are reflexive ---------- *)
Lemma bytes_eqb_refl b : bytes_eqb b b = true.
Proof. destruct (bytes_eqb_spec b b); congruence. Qed.

Lemma tcomp_eqb_refl' c : tcomp_eqb c c = true.
Proof.
  induction c as [e s m n k|len ch k IH|ch k IH|l k IH] using tcomp_ind'; cbn [tcomp_eqb].
  - rewrite !bytes_eqb_refl, !N.eqb_refl. destruct e; reflexivity.
  - rewrite Z.eqb_refl, IH, bytes_eqb_refl. reflexivity.
  - rewrite IH, bytes_eqb_refl. reflexivity.
  - rewrite bytes_eqb_refl, andb_true_r. induction IH as [|x r Hx Hr IHr]; [reflexivity|]. rewrite Hx, IHr. reflexivity.
Qed.

(* ---------- the nested tuple recursions, named ---------- *)
Fixpoint tta (ts : list tcomp) (l : list cval) : bool :=
  match ts, l with
  | [], [] => true
  | t :: ts', y :: l' => typed_as t y && tta ts' l'
  | _, _ => false
  end.
Lemma typed_as_tuple' ts k c l v :
  typed_as (TCTuple ts k) (CV c l v) = opt_tcomp_eqb c (Some (TCTuple ts k)) && tta ts l.
Proof.
  cbn [typed_as]. f_equal. revert ts. induction l as [|y r IH]; intros [|t ts]; try reflexivity.
  cbn [tta]. f_equal. apply IH.
Qed.

Fixpoint cvgo (cs : list tcomp) (vs : list val) : list cval :=
  match cs, vs with
  | c' :: cs', v' :: vs' => cv_of c' v' :: cvgo cs' vs'
  | _, _ => []
  end.
Lemma cv_of_tuple cs k vs : cv_of (TCTuple cs k) (VList vs) = CV (Some (TCTuple cs k)) (cvgo cs vs) GNil.
Proof.
  cbn [cv_of]. f_equal. revert cs. induction vs as [|v r IH]; intros [|c cs]; try reflexivity.
  cbn [cvgo]. f_equal. apply IH.
Qed.

Fixpoint wtgo (ts : list ty) (vs : list val) : bool :=
  match ts, vs with
  | [], [] => true
  | t :: ts', v :: vs' => well_typed t v && wtgo ts' vs'
  | _, _ => false
  end.
Lemma well_typed_tuple ts vs : well_typed (TTuple ts) (VList vs) = wtgo ts vs.
Proof.
  cbn [well_typed]. revert ts. induction vs as [|v r IH]; intros [|t ts]; try reflexivity.
  cbn [wtgo]. f_equal. apply IH.
Qed.

(* ---------- the predicates ---------- *)
(* every bool leaf holds 0 or 1 *)
Fixpoint bools_ok (x : cval) : bool :=
  match x with
  | CVNil => true
  | CV (Some (TCElem EBool _ _ _ _)) _ v => match v with GBigInt z => (z =? 0) || (z =? 1) | _ => false end
  | CV (Some (TCElem _ _ _ _ _)) _ _ => true
  | CV _ l _ => forallb bools_ok l
  end.

Definition encodes (x : cval) : Prop := exists r, encodeABIData x = Ok r.

Definition facts (c : tcomp) (x : cval) : Prop :=
  typed_as c x = true /\ values_ok x = true /\ cv_of c (val_of x) = x /\
  (encodes x -> bools_ok x = true -> well_typed (ty_of c) (val_of x) = true).

(* ---------- encoder success propagates to the children ---------- *)
Lemma pass1_ok {A} (f : A -> res (bytes * bool)) l cs : pass1 f l = Ok cs -> Forall (fun y => exists r, f y = Ok r) l.
Proof.
  revert cs. induction l as [|y r IH]; intros cs; [constructor|].
  cbn [pass1]. destruct (f y) as [x| |] eqn:E; cbn [bind]; try discriminate.
  match goal with |- (do xs <- ?G; _) = _ -> _ => destruct G as [xs| |] eqn:E2 end; cbn [bind]; try discriminate.
  intros _. constructor; [eauto|]. eapply IH. reflexivity.
Qed.

Lemma encodes_children c l v :
  match c with TCElem _ _ _ _ _ => False | _ => True end ->
  encodes (CV (Some c) l v) -> Forall encodes l.
Proof.
  intros Hc [r Hr]. cbn [encodeABIData] in Hr.
  assert (G : forall kd il, encodeABIChildren encodeABIData l kd il = Ok r -> Forall encodes l).
  { intros kd il. unfold encodeABIChildren.
    destruct (pass1 encodeABIData l) as [cs| |] eqn:E; cbn [bind]; try discriminate.
    intros _. exact (pass1_ok _ _ _ E). }
  destruct c; try contradiction; eapply G; eauto.
Qed.

(* ---------- elementary leaves ---------- *)

Lemma decodeABIBytes_raw_length block hs hp m b : (m <> 0)%N ->
  decodeABIBytes_raw block hs hp m = Ok b -> length b = N.to_nat m.
Proof.
  intros Hm. unfold decodeABIBytes_raw. replace (m =? 0)%N with false by lia. cbn [bind].
  destruct (hp + Z.of_N m >? zlen block); [discriminate|].
  destruct (zslice block hp (zlen block)) as [rest| |]; cbn [bind]; try discriminate.
  intros E; injection E as <-. rewrite app_length, firstn_length, repeat_length. lia.
Qed.

Lemma typed_as_leaf c v : match c with TCElem _ _ _ _ _ => True | _ => False end ->
  typed_as c (CV (Some c) [] v) = true.
Proof. destruct c; try contradiction. intros _. cbn [typed_as opt_tcomp_eqb]. rewrite tcomp_eqb_refl'. reflexivity. Qed.

Lemma elem_facts block e s m n k hs hp x :
  let c := TCElem e s m n k in
  tc_wf c = true -> tc_no_fixed_point c = true ->
  decode_elementary block c hs hp = Ok x -> facts c x.
Proof.
  intros c Hw Hnf. subst c. unfold tc_wf in Hw. apply andb_true_iff in Hw as [Hc Hty].
  cbn [tc_consistent ty_of wf_ty tc_no_fixed_point] in *. cbn [decode_elementary].
  assert (Hu : forall x, decodeABIUnsignedInt block hp m (TCElem e s m n k) = Ok x ->
                 exists z, x = CV (Some (TCElem e s m n k)) [] (GBigInt z)).
  { intros x0. unfold decodeABIUnsignedInt. destruct (hp + 32 >? zlen block); [discriminate|].
    destruct (zslice block (hp + (32 - Z.of_N (m / 8))) (hp + 32)) as [w| |]; cbn [bind]; try discriminate.
    intros E. injection E as <-. eauto. }
  assert (Hs : forall x, decodeABISignedInt block hp (TCElem e s m n k) = Ok x ->
                 exists z, x = CV (Some (TCElem e s m n k)) [] (GBigInt z)).
  { intros x0. unfold decodeABISignedInt. destruct (hp + 32 >? zlen block); [discriminate|].
    destruct (zslice block hp (hp + 32)) as [w| |]; cbn [bind]; try discriminate.
    intros E. injection E as <-. eauto. }
  assert (Hb : forall b, decodeABIBytes_raw block hs hp m = Ok b -> (m <> 0)%N -> length b = N.to_nat m)
    by (intros b E Hm; eapply decodeABIBytes_raw_length; eauto).
  unfold facts.
  destruct e; cbn [decoder_of]; cbn [tc_consistent ty_of wf_ty tc_no_fixed_point default_m] in Hc, Hty, Hnf; try discriminate.
  - (* int *)
    intros E. destruct (Hs _ E) as [z ->]. split; [apply typed_as_leaf; exact I|]. split; [reflexivity|]. split; [reflexivity|].
    intros [r Hr] _. cbn [encodeABIData encoder_of encode_elementary] in Hr. cbn [val_of gval_to_val ty_of well_typed].
    destruct (Z_le_dec (- two (m - 1)) z) as [H1|H1]; [destruct (Z_lt_dec z (two (m - 1))) as [H2|H2]; [lia|]|];
      (destruct (signed_rejects m z) as [er Her]; [unfold wf_m; lia|lia|congruence]).
  - (* uint *)
    intros E. destruct (Hu _ E) as [z ->]. split; [apply typed_as_leaf; exact I|]. split; [reflexivity|]. split; [reflexivity|].
    intros [r Hr] _. cbn [encodeABIData encoder_of encode_elementary] in Hr. cbn [val_of gval_to_val ty_of well_typed].
    destruct (Z_le_dec 0 z) as [H1|H1]; [destruct (Z_lt_dec z (two m)) as [H2|H2]; [lia|]|];
      (destruct (unsigned_rejects m z) as [er Her]; [lia|congruence]).
  - (* address *)
    intros E. destruct (Hu _ E) as [z ->]. split; [apply typed_as_leaf; exact I|]. split; [reflexivity|]. split; [reflexivity|].
    intros [r Hr] _. cbn [encodeABIData encoder_of encode_elementary] in Hr. cbn [val_of gval_to_val ty_of well_typed].
    cbn [default_m] in Hc. assert (m = 160%N) by lia. subst m.
    destruct (Z_le_dec 0 z) as [H1|H1]; [destruct (Z_lt_dec z (two 160)) as [H2|H2]; [lia|]|];
      (destruct (unsigned_rejects 160 z) as [er Her]; [lia|congruence]).
  - (* bool *)
    intros E. destruct (Hu _ E) as [z ->]. split; [apply typed_as_leaf; exact I|]. split; [reflexivity|]. split; [reflexivity|].
    intros _ Hbool. cbn [bools_ok] in Hbool. cbn [val_of gval_to_val ty_of well_typed]. exact Hbool.
  - (* bytes / bytes<M> *)
    unfold decodeABIBytes. destruct (decodeABIBytes_raw block hs hp m) as [b| |] eqn:Eb; cbn [bind]; try discriminate.
    intros E; injection E as <-. split; [apply typed_as_leaf; exact I|]. split; [reflexivity|]. split; [reflexivity|].
    intros _ _. cbn [val_of gval_to_val ty_of]. destruct (m =? 0)%N eqn:Em; cbn [well_typed]; [reflexivity|].
    rewrite (Hb b eq_refl) by lia. lia.
  - (* function *)
    unfold decodeABIBytes. destruct (decodeABIBytes_raw block hs hp m) as [b| |] eqn:Eb; cbn [bind]; try discriminate.
    intros E; injection E as <-. split; [apply typed_as_leaf; exact I|]. split; [reflexivity|]. split; [reflexivity|].
    intros _ _. cbn [val_of gval_to_val ty_of well_typed]. rewrite (Hb b eq_refl) by lia.
    assert (m = 24%N) by lia. subst m. reflexivity.
  - (* string *)
    unfold decodeABIString. destruct (decodeABIBytes_raw block hs hp m) as [b| |] eqn:Eb; cbn [bind]; try discriminate.
    intros E; injection E as <-. split; [apply typed_as_leaf; exact I|]. split; [reflexivity|]. split; [reflexivity|].
    intros _ _. reflexivity.
Qed.

(* ---------- lists of children ---------- *)
Lemma loop_nat_Forall (P : cval -> Prop) f n :
  (forall pos k x, f pos = Ok (k, x) -> P x) ->
  forall pos rd xs, loop_nat f n pos = Ok (rd, xs) -> Forall P xs /\ length xs = n.
Proof.
  intros Hf. induction n as [|n IH]; intros pos rd xs; cbn [loop_nat].
  - intros E; injection E as _ <-. split; [constructor|reflexivity].
  - destruct (f pos) as [[k x]| |] eqn:Ef; cbn [bind]; try discriminate.
    destruct (loop_nat f n (pos + k)) as [[rd' xs']| |] eqn:El; cbn [bind]; try discriminate.
    intros E; injection E as _ <-. destruct (IH _ _ _ El) as [H1 H2].
    split; [constructor; eauto|cbn [length]; lia].
Qed.

Lemma loop_elems_Forall (P : cval -> Prop) f count pos rd xs :
  (forall pos k x, f pos = Ok (k, x) -> P x) ->
  loop_elems f count pos = Ok (rd, xs) -> Forall P xs /\ length xs = Z.to_nat count.
Proof. intros Hf. rewrite loop_elems_nat. apply loop_nat_Forall, Hf. Qed.

Lemma Forall_forallb {A} (p : A -> bool) l : Forall (fun x => p x = true) l -> forallb p l = true.
Proof. intros Hf. apply forallb_forall. rewrite Forall_forall in Hf. exact Hf. Qed.

Lemma facts_array c ch xs :
  (exists k, c = TCDynArr ch k) \/ (exists len k, c = TCFixedArr len ch k /\ 0 <= len /\ length xs = Z.to_nat len) ->
  Forall (facts ch) xs -> facts c (CV (Some c) xs GNil).
Proof.
  intros Hc Hf.
  assert (Hne : match c with TCElem _ _ _ _ _ => False | _ => True end)
    by (destruct Hc as [[k ->]|[len [k [-> _]]]]; exact I).
  assert (Hval : val_of (CV (Some c) xs GNil) = VList (map val_of xs)) by (destruct c; try contradiction; reflexivity).
  assert (Hta : forallb (typed_as ch) xs = true).
  { apply Forall_forallb. eapply Forall_impl; [|exact Hf]. intros a Ha. apply Ha. }
  assert (Hvo : forallb values_ok xs = true).
  { apply Forall_forallb. eapply Forall_impl; [|exact Hf]. intros a Ha. apply Ha. }
  assert (Hcv : map (cv_of ch) (map val_of xs) = xs).
  { clear -Hf. induction Hf as [|a r Ha Hr IH]; [reflexivity|]. cbn [map]. rewrite IH.
    destruct Ha as (_ & _ & -> & _). reflexivity. }
  assert (Hwt : encodes (CV (Some c) xs GNil) -> bools_ok (CV (Some c) xs GNil) = true ->
                forallb (well_typed (ty_of ch)) (map val_of xs) = true).
  { intros He Hb. pose proof (encodes_children c xs GNil Hne He) as Hec.
    assert (Hbs : forallb bools_ok xs = true) by (destruct c; try contradiction; exact Hb).
    rewrite forallb_forall in Hbs. apply forallb_forall. intros v Hv. apply in_map_iff in Hv as [a [<- Ha]].
    rewrite Forall_forall in Hf, Hec. destruct (Hf a Ha) as (_ & _ & _ & W). apply W; auto. }
  unfold facts. rewrite Hval.
  destruct Hc as [[k ->]|[len [k [-> [Hl Hn]]]]].
  - split; [cbn [typed_as opt_tcomp_eqb]; rewrite tcomp_eqb_refl', Hta; reflexivity|].
    split; [exact Hvo|]. split; [cbn [cv_of]; rewrite Hcv; reflexivity|].
    intros He Hb. cbn [ty_of well_typed]. auto.
  - split; [cbn [typed_as opt_tcomp_eqb]; rewrite tcomp_eqb_refl', Hta; reflexivity|].
    split; [exact Hvo|]. split; [cbn [cv_of]; rewrite Hcv; reflexivity|].
    intros He Hb. cbn [ty_of well_typed]. rewrite (Hwt He Hb), andb_true_r. rewrite map_length. lia.
Qed.

Lemma facts_tuple cs k xs :
  Forall2 facts cs xs -> facts (TCTuple cs k) (CV (Some (TCTuple cs k)) xs GNil).
Proof.
  intros Hf. unfold facts.
  assert (Hval : val_of (CV (Some (TCTuple cs k)) xs GNil) = VList (map val_of xs)) by reflexivity.
  rewrite Hval. clear Hval. rewrite typed_as_tuple', cv_of_tuple. cbn [ty_of]. rewrite well_typed_tuple.
  cbn [opt_tcomp_eqb]. rewrite tcomp_eqb_refl'. cbn [andb values_ok].
  split; [|split; [|split]].
  - induction Hf as [|c a cs' xs' Ha Hr IH]; [reflexivity|]. cbn [tta]. rewrite IH. destruct Ha as (-> & _). reflexivity.
  - induction Hf as [|c a cs' xs' Ha Hr IH]; [reflexivity|]. cbn [forallb]. rewrite IH. destruct Ha as (_ & -> & _). reflexivity.
  - f_equal. induction Hf as [|c a cs' xs' Ha Hr IH]; [reflexivity|]. cbn [map cvgo]. rewrite IH. destruct Ha as (_ & _ & -> & _). reflexivity.
  - intros He Hb. pose proof (encodes_children (TCTuple cs k) xs GNil I He) as Hec. cbn [bools_ok] in Hb.
    clear He. induction Hf as [|c a cs' xs' Ha Hr IH]; [reflexivity|].
    cbn [map wtgo forallb] in *. apply andb_true_iff in Hb as [Hb1 Hb2]. inversion Hec as [|? ? He1 He2]; subst.
    destruct Ha as (_ & _ & _ & W). rewrite (W He1 Hb1), (IH Hb2 He2). reflexivity.
Qed.

(* ---------- component-tree validity splits ---------- *)
Lemma tc_wf_inv_fixed len ch k : tc_wf (TCFixedArr len ch k) = true -> 0 <= len /\ tc_wf ch = true.
Proof.
  unfold tc_wf. cbn [tc_consistent ty_of wf_ty]. intros H. apply andb_true_iff in H as [H W].
  apply andb_true_iff in H as [H C]. apply andb_true_iff in H as [A B]. split; [lia|]. rewrite C, W. reflexivity.
Qed.
Lemma tc_wf_inv_dyn ch k : tc_wf (TCDynArr ch k) = true -> tc_wf ch = true.
Proof. unfold tc_wf. cbn [tc_consistent ty_of wf_ty]. auto. Qed.
Lemma tc_wf_inv_tuple l k : tc_wf (TCTuple l k) = true -> Forall (fun c => tc_wf c = true) l.
Proof.
  unfold tc_wf. cbn [tc_consistent ty_of wf_ty]. intros H. apply andb_true_iff in H as [H1 H2].
  rewrite forallb_forall in H1, H2. apply Forall_forall. intros x Hx. apply andb_true_iff. split; [auto|].
  apply H2. apply in_map, Hx.
Qed.

(* ---------- the induction over the component tree ---------- *)
Section DecodedFacts.
  Variable block : bytes.

  Lemma decoded_facts c : tc_wf c = true -> tc_no_fixed_point c = true -> forall hs hp n x,
    decodeABIElement block c hs hp = Ok (n, x) -> facts c x.
  Proof.
    induction c as [e s m n0 k|len ch k IH|ch k IH|l k IH] using tcomp_ind'; intros Hw Hnf hs hp n x.
    - cbn [decodeABIElement].
      destruct (decode_elementary block (TCElem e s m n0 k) hs hp) as [y| |] eqn:Ey; cbn [bind]; try discriminate.
      intros E; injection E as _ <-. eapply elem_facts; eauto.
    - destruct (tc_wf_inv_fixed _ _ _ Hw) as [Hl Hwc]. cbn [tc_no_fixed_point] in Hnf. cbn [decodeABIElement].
      destruct (isDynamicType (TCFixedArr len ch k)).
      + destruct (decodeABILength block hp) as [ho| |]; cbn [bind]; try discriminate.
        destruct ((len >? 0) && ((len - 1) * 32 >=? zlen block - (hs + ho))); [discriminate|].
        destruct (len <? 0); [discriminate|].
        unfold walkDynamicChildArrayABIBytes_rep.
        destruct (loop_elems (decodeABIElement block ch (hs + ho)) len (hs + ho)) as [[rd xs]| |] eqn:El; cbn [bind]; try discriminate.
        intros E; injection E as _ <-.
        destruct (loop_elems_Forall (facts ch) _ _ _ _ _ (fun pos k0 y Hy => IH Hwc Hnf _ _ _ _ Hy) El) as [Hf Hn].
        apply (facts_array _ ch); [right; exists len, k; auto|exact Hf].
      + unfold decodeABIFixedArrayBytes.
        destruct ((len >? 0) && occupiesHeadBytes ch && ((len - 1) * 32 >=? zlen block - hp)); [discriminate|].
        destruct (len <? 0); [discriminate|].
        destruct (loop_elems (decodeABIElement block ch hs) len hp) as [[rd xs]| |] eqn:El; cbn [bind]; try discriminate.
        intros E; injection E as _ <-.
        destruct (loop_elems_Forall (facts ch) _ _ _ _ _ (fun pos k0 y Hy => IH Hwc Hnf _ _ _ _ Hy) El) as [Hf Hn].
        apply (facts_array _ ch); [right; exists len, k; auto|exact Hf].
    - pose proof (tc_wf_inv_dyn _ _ Hw) as Hwc. cbn [tc_no_fixed_point] in Hnf. cbn [decodeABIElement].
      destruct (decodeABILength block hp) as [ho| |]; cbn [bind]; try discriminate.
      unfold decodeABIDynamicArrayBytes.
      destruct (decodeABILength block (hs + ho)) as [al| |]; cbn [bind]; try discriminate.
      destruct ((al >? 0) && occupiesHeadBytes ch && ((al - 1) * 32 >=? zlen block - (hs + ho + 32))); [discriminate|].
      destruct (loop_elems (decodeABIElement block ch (hs + ho + 32)) al (hs + ho + 32)) as [[rd xs]| |] eqn:El; cbn [bind]; try discriminate.
      intros E; injection E as _ <-.
      destruct (loop_elems_Forall (facts ch) _ _ _ _ _ (fun pos k0 y Hy => IH Hwc Hnf _ _ _ _ Hy) El) as [Hf Hn].
      apply (facts_array _ ch); [left; exists k; reflexivity|exact Hf].
    - pose proof (tc_wf_inv_tuple _ _ Hw) as Hwl. cbn [tc_no_fixed_point] in Hnf. cbn [decodeABIElement].
      match goal with |- (do p <- ?A; _) = _ -> _ => destruct A as [[hs' hp']| |] end; cbn [bind]; try discriminate.
      match goal with |- (do p <- ?A; _) = _ -> _ => destruct A as [[rd xs]| |] eqn:Ew end; cbn [bind]; try discriminate.
      intros E; injection E as _ <-. apply facts_tuple.
      clear hs hp n Hw. revert hp' rd xs Ew. rewrite forallb_forall in Hnf.
      induction IH as [|y r Hy Hr IHr]; intros hp' rd xs.
      + intros E; injection E as _ <-. constructor.
      + destruct (decodeABIElement block y hs' hp') as [[n1 x1]| |] eqn:E1; cbn [bind]; try discriminate.
        match goal with |- (do p <- ?A; _) = _ -> _ => destruct A as [[m1 xs1]| |] eqn:E2 end; cbn [bind]; try discriminate.
        intros E; injection E as _ <-. inversion Hwl as [|? ? Hw1 Hw2]; subst. constructor.
        * eapply Hy; eauto. apply Hnf. left. reflexivity.
        * eapply IHr; eauto. intros z Hz. apply Hnf. right. exact Hz.
  Qed.

  Lemma walk_facts l : Forall (fun c => tc_wf c = true) l -> forallb tc_no_fixed_point l = true ->
    forall hs hp rd xs, walkDynamicChildArrayABIBytes block l hs hp = Ok (rd, xs) -> Forall2 facts l xs.
  Proof.
    induction l as [|y r IH]; intros Hw Hnf hs hp rd xs; cbn [walkDynamicChildArrayABIBytes].
    - intros E; injection E as _ <-. constructor.
    - cbn [forallb] in Hnf. apply andb_true_iff in Hnf as [N1 N2]. inversion Hw as [|? ? W1 W2]; subst.
      destruct (decodeABIElement block y hs hp) as [[n1 x1]| |] eqn:E1; cbn [bind]; try discriminate.
      destruct (walkDynamicChildArrayABIBytes block r hs (hp + n1)) as [[m1 xs1]| |] eqn:E2; cbn [bind]; try discriminate.
      intros E; injection E as _ <-. constructor; [eapply decoded_facts; eauto|eapply IH; eauto].
  Qed.
End DecodedFacts.

Theorem DecodeABIData_facts c b off x :
  tc_wf c = true -> tc_no_fixed_point c = true -> DecodeABIData c b off = Ok x -> facts c x.
Proof.
  intros Hw Hnf. destruct c as [| | |l k]; try discriminate.
  unfold DecodeABIData, walkTupleABIBytes.
  destruct (walkDynamicChildArrayABIBytes b l off off) as [[rd xs]| |] eqn:E; cbn [bind]; try discriminate.
  intros E1; injection E1 as <-. apply facts_tuple. eapply walk_facts; eauto.
  apply tc_wf_inv_tuple in Hw. exact Hw.
Qed.

(* ------------------------------------------------------------------------------------------------
   stability: decoding the re-encoding of a decoded tree
   ------------------------------------------------------------------------------------------------ *)
(* every sequence inside a value is shorter than 2^32 (array counts travel in words the decoder
   refuses above 32 bits) *)
Fixpoint list_counts_ok (v : val) : bool :=
  match v with
  | VList l => (Z.of_nat (length l) <? 2 ^ 32) && forallb list_counts_ok l
  | _ => true
  end.

(* the round-trip statement of C03 for the top-level decoder (a parameter tuple), in the form
   b-c03 is proving it (Abi/DecProofs3.v DecodeABIData_enc): the specification encoding of a well
   typed value, embedded anywhere, decodes to the canonical tree of that value; the two size guards
   are forced by decodeABILength's 32-bit cap *)
Definition decode_inverts_enc : Prop :=
  forall (children : list tcomp) (k : bytes) (v : val) (pre post : bytes),
    let c := TCTuple children k in
    tc_consistent c = true -> wf_ty (ty_of c) = true ->
    tc_no_fixed_point c = true -> tc_no_zero_len c = true ->
    well_typed (ty_of c) v = true ->
    zlen (enc (ty_of c) v) < 2 ^ 32 -> list_counts_ok v = true ->
    DecodeABIData c (pre ++ enc (ty_of c) v ++ post) (zlen pre) = Ok (cv_of c v).

Theorem stable_given_roundtrip :
  decode_inverts_enc ->
  forall c bs off x e,
    tc_wf c = true -> tc_no_fixed_point c = true -> tc_no_zero_len c = true ->
    DecodeABIData c bs off = Ok x -> EncodeABIData x = Ok e ->
    bools_ok x = true -> weight_ok (val_of x) ->
    zlen e < 2 ^ 32 -> list_counts_ok (val_of x) = true ->
    DecodeABIData c e 0 = Ok x.
Proof.
  intros RT c bs off x e Hw Hnf Hnz Hd He Hb Hwt Hlen Hcnt.
  destruct (DecodeABIData_facts c bs off x Hw Hnf Hd) as (Hta & Hvo & Hcv & Hwty).
  unfold EncodeABIData in He. destruct (encodeABIData x) as [[e' d]| |] eqn:Ee; cbn [bind] in He; try discriminate.
  injection He as <-. cbn [fst] in *.
  assert (Hwell : well_typed (ty_of c) (val_of x) = true) by (apply Hwty; [eexists; eauto|exact Hb]).
  pose proof (encode_is_spec x c Hw Hnf Hnz Hta Hvo Hwell Hwt) as Hspec.
  rewrite Hspec in Ee. injection Ee as <- _.
  destruct c as [| | |l k]; try discriminate.
  pose proof Hw as Hw'. unfold tc_wf in Hw'. apply andb_true_iff in Hw' as [Hc Hty].
  pose proof (RT l k (val_of x) [] [] Hc Hty Hnf Hnz Hwell Hlen Hcnt) as R.
  cbn [app] in R. rewrite app_nil_r in R. change (zlen []) with 0 in R. rewrite R, Hcv. reflexivity.
Qed.

(* fixed-point leaves break stability: fixed8x1 decoded from the word -1 is -0.1; the encoder takes
   the absolute value, so the re-encoding (the word 1) decodes to +0.1 *)
Theorem stable_fixed_refuted :
  exists (c : tcomp) (bs : bytes) (x : cval) (e : bytes),
    tc_wf c = true /\ DecodeABIData c bs 0 = Ok x /\ EncodeABIData x = Ok e /\
    match DecodeABIData c e 0 with Ok x' => cval_eqb x x' | _ => false end = false.
Proof.
  pose (leaf := TCElem EFixed [x38; x78; x31] 8 1 []).
  exists (TCTuple [leaf] []), (repeat xff 32).
  exists (CV (Some (TCTuple [leaf] [])) [CV (Some leaf) [] (GBigFloat (BFin (-14757395258967641293) (-67) 64))] GNil).
  exists (repeat x00 31 ++ [x01]).
  split; [vm_compute; reflexivity|]. split; [vm_compute; reflexivity|]. split; vm_compute; reflexivity.
Qed.
