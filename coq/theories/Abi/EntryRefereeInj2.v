(* C12, answers to the referee report, part 5 (issue 6, full): the canonical spelling is injective on
   ALL valid types, tuples included, hence the signature string identifies (name, parameter types).

   Method: a prefix statement read left to right.  Every type is a base type (elementary or tuple)
   wrapped in array dimensions; [P t]: if [canonical t ++ r = canonical t' ++ r'] where each of r, r'
   is empty or starts with ',' or ')', then t = t' and r = r'.  Elementary names are the maximal
   alphanumeric prefix (then C13's [spelling_unique]); dimensions are read off one by one; tuple members
   by the statement itself (nested induction). *)
From Coq Require Import String.
From Coq Require Import List NArith ZArith Lia Bool Arith.
From Coq Require Import Init.Byte.
From FFS Require Import Base.Res Base.Bytes Abi.Types Abi.EntrySpec.
From FFS Require Import AbiType.Model AbiType.Spec AbiType.ProofsDec AbiType.ProofsArr AbiType.ProofsLeaf
  AbiType.ProofsMain AbiType.ProofsOracle.
From FFS Require Import Abi.EntryRefereeInj.
Import ListNotations.

Definition ch_rparen : byte := x29.

Definition is_alnum (b : byte) : bool := is_lower b || is_digit b.
Definition alnum (s : bytes) : Prop := Forall (fun b => is_alnum b = true) s.
(* empty, or starts with a byte that is not alphanumeric *)
Definition brk (s : bytes) : Prop := match s with [] => True | c :: _ => is_alnum c = false end.
(* empty, or starts with ',' or ')' *)
Definition stop (r : bytes) : Prop := match r with [] => True | c :: _ => c = ch_comma \/ c = ch_rparen end.

Lemma stop_brk r : stop r -> brk r.
Proof. destruct r as [|c r]; [trivial|]. intros [->| ->]; reflexivity. Qed.

Lemma span_unique a : forall a' s s', alnum a -> alnum a' -> brk s -> brk s' -> a ++ s = a' ++ s' -> a = a' /\ s = s'.
Proof.
  induction a as [|x a IH]; intros [|x' a'] s s' Ha Ha' Hs Hs' E; cbn [app] in E.
  - split; [reflexivity|exact E].
  - exfalso. subst s. cbn [brk] in Hs. inversion Ha' as [|? ? Hx _]; subst. congruence.
  - exfalso. subst s'. cbn [brk] in Hs'. inversion Ha as [|? ? Hx _]; subst. congruence.
  - injection E as -> E. inversion Ha; inversion Ha'; subst. destruct (IH a' s s') as [-> ->]; auto.
Qed.

Lemma alnum_app a b : alnum a -> alnum b -> alnum (a ++ b).
Proof. intros Ha Hb. apply Forall_app. split; assumption. Qed.
Lemma alnum_dec n : alnum (dec n).
Proof. eapply Forall_impl; [|apply dec_digits]. intros b Hb. unfold is_alnum. rewrite Hb. apply orb_true_r. Qed.
Lemma alnum_const s : forallb is_alnum s = true -> alnum s.
Proof. intros Hs. apply Forall_forall. intros b Hb. rewrite forallb_forall in Hs. apply Hs, Hb. Qed.

Ltac solve_alnum :=
  first [ apply alnum_dec
        | apply alnum_const; vm_compute; reflexivity
        | apply alnum_app; [solve_alnum|solve_alnum] ].

Lemma canonical_leaf_alnum t : is_leaf t = true -> alnum (canonical t).
Proof. destruct t; cbn [is_leaf canonical]; try discriminate; intros _; solve_alnum. Qed.

Lemma leaf_head t : is_leaf t = true -> exists c rest, canonical t = c :: rest /\ is_alnum c = true.
Proof.
  intros Hl. pose proof (canonical_leaf_alnum t Hl) as Ha. pose proof (canonical_nonempty t) as Hn.
  destruct (canonical t) as [|c rest]; [contradiction|]. inversion Ha; subst. eauto.
Qed.

(* ---------- base type + dimensions ---------- *)
Definition is_base (t : ty) : bool := match t with TFixedArr _ _ | TDynArr _ => false | _ => true end.

Lemma wrap_snoc t ds d : wrap_ty t (ds ++ [d]) = wrap1_ty (wrap_ty t ds) d.
Proof. unfold wrap_ty. rewrite fold_left_app. reflexivity. Qed.

Lemma ty_decomp t : exists b ds, t = wrap_ty b ds /\ is_base b = true.
Proof.
  induction t as [m|m| | |m n|m n|m| | | |t IH k|t IH|l];
    try (eexists; exists []; split; reflexivity).
  - destruct IH as (b & ds & -> & Hb). exists b, (ds ++ [Some k]). rewrite wrap_snoc. split; [reflexivity|exact Hb].
  - destruct IH as (b & ds & -> & Hb). exists b, (ds ++ [None]). rewrite wrap_snoc. split; [reflexivity|exact Hb].
Qed.

Lemma brk_dims ds r : stop r -> brk (render_dims ds ++ r).
Proof.
  destruct ds as [|d ds]; [apply stop_brk|]. intros _. rewrite render_dims_cons. cbn [app]. cbv [brk]. reflexivity.
Qed.

Lemma dim_body_inj d d' : dim_body d = dim_body d' -> d = d'.
Proof.
  destruct d as [k|], d' as [k'|]; cbn [dim_body]; intros E.
  - f_equal. apply ProofsLeaf.dec_inj. exact E.
  - exfalso. exact (dec_nonnil _ E).
  - exfalso. symmetry in E. exact (dec_nonnil _ E).
  - reflexivity.
Qed.

Lemma dims_unique ds : forall ds' r r', stop r -> stop r' ->
  render_dims ds ++ r = render_dims ds' ++ r' -> ds = ds' /\ r = r'.
Proof.
  induction ds as [|d ds IH]; intros [|d' ds'] r r' Hr Hr' E.
  - split; [reflexivity|exact E].
  - exfalso. rewrite render_dims_cons in E. cbn [render_dims flat_map app] in E. subst r.
    cbn [stop] in Hr. destruct Hr as [X|X]; cbv in X; discriminate.
  - exfalso. rewrite render_dims_cons in E. cbn [render_dims flat_map app] in E. subst r'.
    cbn [stop] in Hr'. destruct Hr' as [X|X]; cbv in X; discriminate.
  - rewrite !render_dims_cons in E. cbn [app] in E. injection E as E.
    rewrite <- !app_assoc in E. cbn [app] in E.
    destruct (split_unique _ _ _ _ _ (dim_body_no_rbrack d) (dim_body_no_rbrack d') E) as [Ed E'].
    apply dim_body_inj in Ed. subst d'. destruct (IH ds' r r' Hr Hr' E') as [-> ->]. split; reflexivity.
Qed.

(* ---------- the prefix statement ---------- *)
Definition P (t : ty) : Prop :=
  valid_type t = true -> forall t' r r', valid_type t' = true -> stop r -> stop r' ->
    canonical t ++ r = canonical t' ++ r' -> t = t' /\ r = r'.

Lemma base_cases b : is_base b = true -> is_leaf b = true \/ exists l, b = TTuple l.
Proof. destruct b; cbn; try discriminate; intros _; try (left; reflexivity). right. eauto. Qed.

Lemma base_leaf b : is_leaf b = true -> forall ds, P (wrap_ty b ds).
Proof.
  intros Hl ds Hv t' r r' Hv' Hr Hr' E.
  destruct (ty_decomp t') as (b' & ds' & -> & Hb').
  rewrite !canonical_wrap, <- !app_assoc in E.
  rewrite valid_wrap in Hv, Hv'. apply andb_prop in Hv as [Hvb _]. apply andb_prop in Hv' as [Hvb' _].
  pose proof (brk_dims ds r Hr) as B. pose proof (brk_dims ds' r' Hr') as B'.
  destruct (base_cases b' Hb') as [Hl'|[l' ->]].
  - destruct (span_unique _ _ _ _ (canonical_leaf_alnum b Hl) (canonical_leaf_alnum b' Hl') B B' E) as [Ec Es].
    assert (b = b').
    { apply (spelling_unique b b' (canonical b) []); auto.
      - apply spelling_canonical_leaf; exact Hl.
      - rewrite Ec. apply spelling_canonical_leaf; exact Hl'. }
    subst b'. destruct (dims_unique _ _ _ _ Hr Hr' Es) as [-> ->]. split; reflexivity.
  - exfalso. destruct (leaf_head b Hl) as (c & rest & Ec & Hc). rewrite Ec in E. cbn [canonical] in E.
    change (T "(") with [ch_lparen] in E. cbn [app] in E. injection E as -> _. cbv in Hc. discriminate.
Qed.

Lemma canonical_head t : exists c rest, canonical t = c :: rest /\ c <> ch_comma /\ c <> ch_rparen.
Proof.
  destruct (ty_decomp t) as (b & ds & -> & Hb). rewrite canonical_wrap.
  destruct (base_cases b Hb) as [Hl|[l ->]].
  - destruct (leaf_head b Hl) as (c & rest & -> & Hc). exists c, (rest ++ render_dims ds).
    split; [reflexivity|]. split; intros ->; cbv in Hc; discriminate.
  - cbn [canonical]. change (T "(") with [ch_lparen]. cbn [app]. eexists; eexists. split; [reflexivity|].
    split; intros X; cbv in X; discriminate.
Qed.

Lemma sepby_head x l : exists rest, sepby [ch_comma] (canonical x :: l) = canonical x ++ rest.
Proof. destruct l as [|y r]; [exists []; cbn [sepby]; rewrite app_nil_r; reflexivity|]. rewrite sepby_two. eauto. Qed.

Lemma list_unique l : Forall P l -> forallb valid_type l = true -> forall l' s s', forallb valid_type l' = true ->
  sepby [ch_comma] (map canonical l) ++ ch_rparen :: s = sepby [ch_comma] (map canonical l') ++ ch_rparen :: s' ->
  l = l' /\ s = s'.
Proof.
  induction l as [|x l0 IH]; intros HP Hv l' s s' Hv' E.
  - destruct l' as [|x' l0'].
    + cbn [map sepby app] in E. injection E as ->. split; reflexivity.
    + exfalso. cbn [map] in E. destruct (sepby_head x' (map canonical l0')) as [rest Hr]. rewrite Hr in E.
      destruct (canonical_head x') as (c & cr & Hc & _ & Hnr). rewrite Hc in E. cbn [sepby app] in E.
      injection E as E _. apply Hnr. symmetry. exact E.
  - inversion HP as [|? ? Px HP0]; subst. cbn [forallb] in Hv. apply andb_prop in Hv as [Hvx Hv0].
    destruct l' as [|x' l0'].
    + exfalso. cbn [map] in E. destruct (sepby_head x (map canonical l0)) as [rest Hr]. rewrite Hr in E.
      destruct (canonical_head x) as (c & cr & Hc & _ & Hnr). rewrite Hc in E. cbn [sepby app] in E.
      injection E as E _. apply Hnr. exact E.
    + cbn [forallb] in Hv'. apply andb_prop in Hv' as [Hvx' Hv0'].
      destruct l0 as [|y r0]; destruct l0' as [|y' r0'].
      * cbn [map sepby] in E.
        destruct (Px Hvx x' _ _ Hvx' (or_intror eq_refl : stop (ch_rparen :: s)) (or_intror eq_refl : stop (ch_rparen :: s')) E) as [-> E'].
        injection E' as ->. split; reflexivity.
      * exfalso. cbn [map] in E. rewrite sepby_two in E. change (sepby [ch_comma] [canonical x]) with (canonical x) in E.
        rewrite <- app_assoc in E. cbn [app] in E.
        destruct (Px Hvx x' _ _ Hvx' (or_intror eq_refl : stop (ch_rparen :: s)) (or_introl eq_refl : stop (ch_comma :: _)) E) as [_ E'].
        discriminate.
      * exfalso. cbn [map] in E. rewrite sepby_two in E. change (sepby [ch_comma] [canonical x']) with (canonical x') in E.
        rewrite <- app_assoc in E. cbn [app] in E.
        destruct (Px Hvx x' _ _ Hvx' (or_introl eq_refl : stop (ch_comma :: _)) (or_intror eq_refl : stop (ch_rparen :: s')) E) as [_ E'].
        discriminate.
      * cbn [map] in E. rewrite !sepby_two in E. rewrite <- !app_assoc in E. cbn [app] in E.
        destruct (Px Hvx x' _ _ Hvx' (or_introl eq_refl : stop (ch_comma :: _)) (or_introl eq_refl : stop (ch_comma :: _)) E) as [-> E'].
        injection E' as E'.
        destruct (IH HP0 Hv0 (y' :: r0') s s' Hv0' E') as [-> ->]. split; reflexivity.
Qed.

Lemma valid_tuple l : valid_type (TTuple l) = forallb valid_type l.
Proof.
  induction l as [|x l IH]; [reflexivity|]. cbn [forallb]. rewrite <- IH. unfold valid_type. cbn [wf_ty dims_ok forallb].
  destruct (wf_ty x), (dims_ok x), (forallb wf_ty l), (forallb dims_ok l); reflexivity.
Qed.

Lemma base_tuple l : Forall P l -> forall ds, P (wrap_ty (TTuple l) ds).
Proof.
  intros HP ds Hv t' r r' Hv' Hr Hr' E.
  destruct (ty_decomp t') as (b' & ds' & -> & Hb').
  rewrite !canonical_wrap, <- !app_assoc in E.
  rewrite valid_wrap in Hv, Hv'. apply andb_prop in Hv as [Hvb _]. apply andb_prop in Hv' as [Hvb' _].
  destruct (base_cases b' Hb') as [Hl'|[l' ->]].
  - exfalso. destruct (leaf_head b' Hl') as (c & rest & Ec & Hc). rewrite Ec in E. cbn [canonical] in E.
    change (T "(") with [ch_lparen] in E. cbn [app] in E. injection E as <- _. cbv in Hc. discriminate.
  - cbn [canonical] in E. change (T "(") with [ch_lparen] in E. change (T ")") with [ch_rparen] in E.
    change (T ",") with [ch_comma] in E. rewrite <- !app_assoc in E. cbn [app] in E. injection E as E.
    rewrite valid_tuple in Hvb, Hvb'.
    destruct (list_unique l HP Hvb l' _ _ Hvb' E) as [-> Es].
    destruct (dims_unique _ _ _ _ Hr Hr' Es) as [-> ->]. split; reflexivity.
Qed.

Theorem all_P t : forall ds, P (wrap_ty t ds).
Proof.
  induction t as [m|m| | |m n|m n|m| | | |t k IH|t IH|l IH] using ty_ind'; intros ds;
    try (apply base_leaf; reflexivity).
  - change (wrap_ty (TFixedArr t k) ds) with (wrap_ty t (Some k :: ds)). apply IH.
  - change (wrap_ty (TDynArr t) ds) with (wrap_ty t (None :: ds)). apply IH.
  - apply base_tuple. eapply Forall_impl; [|exact IH]. intros x Hx. exact (Hx []).
Qed.

(* the canonical spelling is injective on valid types *)
Theorem canonical_inj t t' : valid_type t = true -> valid_type t' = true -> canonical t = canonical t' -> t = t'.
Proof.
  intros V V' E. pose proof (all_P t [] V t' [] [] V' I I) as HP. cbn [wrap_ty fold_left] in HP.
  rewrite !app_nil_r in HP. destruct (HP E) as [-> _]. reflexivity.
Qed.

(* C12_signature_injective: names without '(' and valid parameter types (any, tuples included) *)
Theorem signature_spec_inj n1 n2 ts1 ts2 :
  no_byte ch_lparen n1 -> no_byte ch_lparen n2 ->
  forallb valid_type ts1 = true -> forallb valid_type ts2 = true ->
  signature_spec n1 ts1 = signature_spec n2 ts2 -> n1 = n2 /\ ts1 = ts2.
Proof.
  intros Hn1 Hn2 H1 H2 E. unfold signature_spec in E.
  change (T "(") with [ch_lparen] in E. change (T ",") with [ch_comma] in E. change (T ")") with [ch_rparen] in E.
  cbn [app] in E.
  destruct (split_unique _ _ _ _ _ Hn1 Hn2 E) as [-> E']. split; [reflexivity|].
  assert (HP : Forall P ts1) by (apply Forall_forall; intros x _; exact (all_P x [])).
  destruct (list_unique ts1 HP H1 ts2 [] [] H2 E') as [-> _]. reflexivity.
Qed.

(* ---------- at the level of the entry model ---------- *)
From FFS Require Import Abi.ModelTypes Abi.EntryModel Abi.EntryProofs.

Theorem distinct_entries_collide_all (H : bytes -> bytes) :
  (forall m, length (H m) = 32%nat) ->
  forall (e1 e2 : entry) (cs1 cs2 : list tcomp),
    tree_children (e_inputs e1) = Ok cs1 -> all_suffix_canonical cs1 ->
    tree_children (e_inputs e2) = Ok cs2 -> all_suffix_canonical cs2 ->
    no_byte ch_lparen (e_name e1) -> no_byte ch_lparen (e_name e2) ->
    forallb valid_type (map ty_of cs1) = true -> forallb valid_type (map ty_of cs2) = true ->
    (e_name e1, map ty_of cs1) <> (e_name e2, map ty_of cs2) ->
    let s1 := signature_spec (e_name e1) (map ty_of cs1) in
    let s2 := signature_spec (e_name e2) (map ty_of cs2) in
    Signature e1 = Ok s1 /\ Signature e2 = Ok s2 /\ s1 <> s2 /\
    (GenerateFunctionSelector H e1 = GenerateFunctionSelector H e2 -> firstn 4 (H s1) = firstn 4 (H s2)) /\
    (SignatureHashBytes H e1 = SignatureHashBytes H e2 -> H s1 = H s2).
Proof.
  intros Hlen e1 e2 cs1 cs2 Ht1 Hs1 Ht2 Hs2 Hn1 Hn2 Hp1 Hp2 Hne s1 s2.
  split; [exact (signature_canonical e1 cs1 Ht1 Hs1)|]. split; [exact (signature_canonical e2 cs2 Ht2 Hs2)|].
  split.
  { intros E. apply Hne. destruct (signature_spec_inj _ _ _ _ Hn1 Hn2 Hp1 Hp2 E) as [-> ->]. reflexivity. }
  destruct (selector_is_spec H Hlen e1 cs1 Ht1 Hs1) as [A1 _]. destruct (selector_is_spec H Hlen e2 cs2 Ht2 Hs2) as [A2 _].
  destruct (topic0_is_spec H e1 cs1 Ht1 Hs1) as [_ B1]. destruct (topic0_is_spec H e2 cs2 Ht2 Hs2) as [_ B2].
  split.
  - rewrite A1, A2. intros E. injection E as E. exact E.
  - rewrite B1, B2. intros E. exact E.
Qed.
