(* C11, sixth part: the memory clause at the revert-data entry point.  ABI.ParseErrorCtx tries the
   built-in Error(string) and then every error definition in order, each through
   Entry.DecodeCallDataCtx; the only allocations sized by the data are those of the decoder.
   [ParseError_c] is the entry-level model (Abi/EntryModel.v, owned by C12) observed more closely:
   the same result, together with the decoder's allocation units of every attempt.  The units are
   bounded by the sum over the definitions tried of [bound (inputs) |data|] - the number of
   definitions, their types and the length of the data; no word inside the data enters.
   (The signature string, the selector hash and the type tree built per attempt depend on the
   definition only and are not counted, as in DecCost.v.) *)
From Coq Require Import List NArith ZArith Bool Lia Arith.
From Coq Require Import Init.Byte.
From FFS Require Import Base.Res Base.Bytes Abi.Types Abi.Spec Abi.ModelTypes Abi.DecModel Abi.DecCost.
From FFS Require Import Abi.DecTotalProofs Abi.EntryModel Abi.DecTotalProofs3.
Import ListNotations.

(* no dynamic array of any parameter has an element type of zero encoded size *)
Definition params_nz (pa : list param) : Prop :=
  forall p tc, In p pa -> p_tc p = Some tc -> no_zero_size_elem tc = true.

Lemma tree_children_nz pa : forall cs, params_nz pa -> tree_children pa = Ok cs -> forallb no_zero_size_elem cs = true.
Proof.
  induction pa as [|p r IH]; intros cs Hw; cbn [tree_children].
  - intros E; injection E as <-. reflexivity.
  - destruct (p_tc p) as [tc|] eqn:Ep; [|discriminate].
    destruct (tree_children r) as [rest| |] eqn:Er; cbn [bind]; try discriminate.
    intros E; injection E as <-. cbn [forallb]. apply andb_true_iff. split.
    + apply (Hw p tc); [left; reflexivity|exact Ep].
    + apply IH; auto. intros q tq Hq. apply Hw. right. exact Hq.
Qed.

Section RevertCost.
  Variable H : bytes -> bytes.

  Notation dec := DecModel.DecodeABIData.

  (* Entry.DecodeCallDataCtx with the decoder's cost *)
  Definition Entry_DecodeCallData_c (e : entry) (b : bytes) : cres cval :=
    match GenerateFunctionSelector H e with
    | Ok id =>
        if (length b <? 4)%nat then (Err ENotEnoughSig, 0%N) else
        match slice b 0 4 with
        | Ok b4 =>
            if negb (bytes_eqb id b4) then (Err EBadSig, 0%N) else
            match TypeComponentTree (e_inputs e) with
            | Ok c => DecodeABIData_c c b 4
            | Err x => (Err x, 0%N)
            | Panic => (Panic, 0%N)
            end
        | Err x => (Err x, 0%N)
        | Panic => (Panic, 0%N)
        end
    | Err x => (Err x, 0%N)
    | Panic => (Panic, 0%N)
    end.

  Lemma twin_Entry_DecodeCallData e b :
    fst (Entry_DecodeCallData_c e b) = EntryModel.DecodeCallData H dec e b.
  Proof.
    unfold Entry_DecodeCallData_c, EntryModel.DecodeCallData.
    destruct (GenerateFunctionSelector H e) as [id| |]; cbn [bind fst]; try reflexivity.
    destruct (length b <? 4)%nat; [reflexivity|].
    destruct (slice b 0 4) as [b4| |]; cbn [bind fst]; try reflexivity.
    destruct (negb (bytes_eqb id b4)); [reflexivity|].
    unfold DecodeABIData_params.
    destruct (TypeComponentTree (e_inputs e)) as [c| |]; cbn [bind fst]; try reflexivity.
    apply twin_DecodeABIData.
  Qed.

  (* what one attempt may request: the bound of the definition's inputs *)
  Definition entry_bound (e : entry) (n : N) : N :=
    match TypeComponentTree (e_inputs e) with
    | Ok c => bound c n
    | _ => 0%N
    end.

  Lemma Entry_DecodeCallData_alloc e b :
    params_wf (e_inputs e) -> params_nz (e_inputs e) ->
    (alloc (Entry_DecodeCallData_c e b) <= entry_bound e (N.of_nat (length b)))%N.
  Proof.
    intros Hw Hnz. unfold Entry_DecodeCallData_c, entry_bound, alloc.
    destruct (GenerateFunctionSelector H e) as [id| |]; cbn [snd]; try lia.
    destruct (length b <? 4)%nat; cbn [snd]; [lia|].
    destruct (slice b 0 4) as [b4| |]; cbn [snd]; try lia.
    destruct (negb (bytes_eqb id b4)); cbn [snd]; [lia|].
    unfold TypeComponentTree.
    destruct (tree_children (e_inputs e)) as [cs| |] eqn:Ec; cbn [bind snd]; try lia.
    apply DecodeABIData_alloc_bound; [| |lia].
    - apply tc_wf_tuple. eapply tree_children_wf; eauto.
    - cbn [no_zero_size_elem]. eapply tree_children_nz; eauto.
  Qed.

  (* ABI.ParseErrorCtx: the loop, carrying the units of the failed attempts *)
  Fixpoint parse_error_loop_c (a : list entry) (revertData : bytes) : cres (option (entry * cval)) :=
    match a with
    | [] => (Ok None, 0%N)
    | e :: r =>
        if etype_eqb (e_type e) TyError then
          let x := Entry_DecodeCallData_c e revertData in
          match fst x with
          | Ok cv => (Ok (Some (e, cv)), snd x)
          | Err _ => let y := parse_error_loop_c r revertData in (fst y, (snd x + snd y)%N)
          | Panic => (Panic, snd x)
          end
        else parse_error_loop_c r revertData
    end.

  Definition ParseError_c (a : list entry) (revertData : bytes) : cres (option (entry * cval)) :=
    parse_error_loop_c (default_error :: a) revertData.

  Lemma twin_parse_error_loop a d : fst (parse_error_loop_c a d) = parse_error_loop H dec a d.
  Proof.
    induction a as [|e r IH]; cbn [parse_error_loop_c parse_error_loop]; [reflexivity|].
    destruct (etype_eqb (e_type e) TyError); [|exact IH].
    rewrite <- twin_Entry_DecodeCallData.
    destruct (fst (Entry_DecodeCallData_c e d)); cbn [fst]; auto.
  Qed.

  Theorem twin_ParseError a d : fst (ParseError_c a d) = ParseError H dec a d.
  Proof. apply twin_parse_error_loop. Qed.

  (* the definitions an attempt is made for: those of type error *)
  Fixpoint entries_bound (a : list entry) (n : N) : N :=
    match a with
    | [] => 0%N
    | e :: r => ((if etype_eqb (e_type e) TyError then entry_bound e n else 0) + entries_bound r n)%N
    end.

  Lemma parse_error_loop_alloc a d :
    (forall e, In e a -> params_wf (e_inputs e)) -> (forall e, In e a -> params_nz (e_inputs e)) ->
    (alloc (parse_error_loop_c a d) <= entries_bound a (N.of_nat (length d)))%N.
  Proof.
    intros Hw Hnz. induction a as [|e r IH]; cbn [parse_error_loop_c entries_bound]; [cbn; lia|].
    assert (IH' : (alloc (parse_error_loop_c r d) <= entries_bound r (N.of_nat (length d)))%N).
    { apply IH; intros e' He'; [apply Hw|apply Hnz]; right; exact He'. }
    destruct (etype_eqb (e_type e) TyError); [|unfold alloc in *; lia].
    pose proof (Entry_DecodeCallData_alloc e d (Hw e (or_introl eq_refl)) (Hnz e (or_introl eq_refl))) as He.
    unfold alloc in *.
    destruct (fst (Entry_DecodeCallData_c e d)); cbn [snd]; lia.
  Qed.

  Lemma default_error_wf : params_wf (e_inputs default_error).
  Proof. intros p tc [<-|[]] E. cbn in E. injection E as <-. reflexivity. Qed.

  Lemma default_error_nz : params_nz (e_inputs default_error).
  Proof. intros p tc [<-|[]] E. cbn in E. injection E as <-. reflexivity. Qed.

  Theorem ParseError_alloc_bound a d :
    (forall e, In e a -> params_wf (e_inputs e)) -> (forall e, In e a -> params_nz (e_inputs e)) ->
    (alloc (ParseError_c a d) <= entries_bound (default_error :: a) (N.of_nat (length d)))%N.
  Proof.
    intros Hw Hnz. unfold ParseError_c. apply parse_error_loop_alloc.
    - intros e [<-|He]; [apply default_error_wf|auto].
    - intros e [<-|He]; [apply default_error_nz|auto].
  Qed.
End RevertCost.

(* the bound of the attempts is monotone in the data length, like [bound] *)
Lemma entries_bound_mono a n n' : (n <= n')%N -> (entries_bound a n <= entries_bound a n')%N.
Proof.
  intros Hn. induction a as [|e r IH]; cbn [entries_bound]; [lia|].
  assert (He : (entry_bound e n <= entry_bound e n')%N).
  { unfold entry_bound. destruct (TypeComponentTree (e_inputs e)); try lia. apply bound_mono, Hn. }
  destruct (etype_eqb (e_type e) TyError); lia.
Qed.
