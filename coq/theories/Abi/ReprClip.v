(* C02, wave 6: the guard [not_longer] of "accepted => well typed, enc of the denoted value" removed.
   The code accepts a bytes<M> / function input longer than M bytes and encodes its first M bytes
   (encodeABIBytes: b[0:fixedLength]).  [clip t v] (spec side: a function of the type and the value
   only) cuts every bytes<M> / function value of v to its first M / 24 bytes and leaves everything
   else alone.  Then for EVERY accepted input: the value v it denotes, cut this way, is well typed,
   and the bytes returned are enc(type, clip v); and clip v = v whenever no byte string in v is
   over-long (in particular for every well-typed v).  So the accepted outputs are characterised
   completely: nothing but the documented truncation of over-long fixed byte strings separates
   "accepted" from "enc of the value denoted". *)
From Coq Require Import List NArith ZArith Bool Arith Lia.
From Coq Require Import ZifyNat ZifyN ZifyBool.
From Coq Require Import Init.Byte.
From FFS Require Import Base.Res Base.Bytes Abi.Types Abi.Spec Abi.ModelTypes Abi.EncModel Abi.InputModel.
From FFS Require Import Abi.EncProofs Abi.EncProofs2 Abi.EncProofs3 Abi.EncProofs4 Abi.InputProofs Abi.ReprSpec Abi.ReprProofs Abi.ReprWalk Abi.ReprTyped.
From FFS Require Import Abi.EncZeroLen.
Import ListNotations.

(* ---------- spec side: the truncation ---------- *)

Fixpoint tuple_clip (f : ty -> val -> val) (ts : list ty) (vs : list val) : list val :=
  match ts, vs with
  | t :: ts', v :: vs' => f t v :: tuple_clip f ts' vs'
  | _, _ => vs
  end.

Fixpoint clip (t : ty) (v : val) {struct v} : val :=
  match t, v with
  | TBytesN m, VBytes b => VBytes (firstn (N.to_nat m) b)
  | TFunction, VBytes b => VBytes (firstn 24 b)
  | TFixedArr t' _, VList vs | TDynArr t', VList vs => VList (map (clip t') vs)
  | TTuple ts, VList vs =>
      VList ((fix go (ts : list ty) (vs : list val) {struct vs} : list val :=
                match ts, vs with
                | t :: ts', v :: vs' => clip t v :: go ts' vs'
                | _, _ => vs
                end) ts vs)
  | _, _ => v
  end.

Lemma clip_tuple ts vs : clip (TTuple ts) (VList vs) = VList (tuple_clip clip ts vs).
Proof.
  cbn [clip]. f_equal. revert ts. induction vs as [|v r IH]; intros [|t ts]; try reflexivity.
  cbn [tuple_clip]. rewrite IH. reflexivity.
Qed.

(* no over-long byte string: nothing is cut *)
Lemma clip_not_longer t : forall v, not_longer t v = true -> clip t v = v.
Proof.
  induction t as [m|m| | |m n|m n|m| | | |t k IH|t IH|l IH] using ty_ind'; intros v H;
    destruct v as [z|b|vs]; try reflexivity.
  - cbn [not_longer] in H. cbn [clip]. rewrite firstn_all2; [reflexivity|lia].
  - cbn [not_longer] in H. cbn [clip]. apply Nat.leb_le in H. rewrite firstn_all2; [reflexivity|lia].
  - cbn [not_longer] in H. cbn [clip]. f_equal.
    induction vs as [|v r IHr]; [reflexivity|]. cbn [forallb map] in *. apply andb_prop in H as [H1 H2]. rewrite (IH v H1), (IHr H2). reflexivity.
  - cbn [not_longer] in H. cbn [clip]. f_equal.
    induction vs as [|v r IHr]; [reflexivity|]. cbn [forallb map] in *. apply andb_prop in H as [H1 H2]. rewrite (IH v H1), (IHr H2). reflexivity.
  - rewrite not_longer_tuple in H. rewrite clip_tuple. f_equal. revert vs H.
    induction IH as [|t r Ht _ IHr]; intros [|v vs] H; try reflexivity.
    cbn [tuple_not_longer] in H. apply andb_prop in H as [H1 H2]. cbn [tuple_clip]. rewrite (Ht v H1), (IHr vs H2). reflexivity.
Qed.

Lemma clip_well_typed t v : well_typed t v = true -> clip t v = v.
Proof. intros H. apply clip_not_longer. apply well_typed_not_longer. exact H. Qed.

(* cutting does not add weight *)
Lemma list_sum_le_map {A} (f g : A -> nat) l : Forall (fun a => f a <= g a)%nat l -> (list_sum (map f l) <= list_sum (map g l))%nat.
Proof. induction 1 as [|a r Ha _ IH]; [reflexivity|]. cbn [map]. rewrite !list_sum_cons. lia. Qed.

Lemma clip_weight v : forall t, (weight (clip t v) <= weight v)%nat.
Proof.
  induction v as [z|b|l IH] using val_ind'; intros t.
  - destruct t; cbn [clip]; lia.
  - destruct t; cbn [clip weight]; try lia; rewrite firstn_length; lia.
  - destruct t; try (cbn [clip]; lia).
    + cbn [clip weight]. rewrite !map_length, map_map.
      pose proof (list_sum_le_map (fun x => weight (clip t x)) weight l) as H.
      assert (F : Forall (fun a => weight (clip t a) <= weight a)%nat l).
      { rewrite Forall_forall in IH |- *. intros a Ha. apply IH. exact Ha. }
      specialize (H F). lia.
    + cbn [clip weight]. rewrite !map_length, map_map.
      pose proof (list_sum_le_map (fun x => weight (clip t x)) weight l) as H.
      assert (F : Forall (fun a => weight (clip t a) <= weight a)%nat l).
      { rewrite Forall_forall in IH |- *. intros a Ha. apply IH. exact Ha. }
      specialize (H F). lia.
    + rewrite clip_tuple. cbn [weight].
      assert (G : forall ts, (length (tuple_clip clip ts l) = length l /\
                  list_sum (map weight (tuple_clip clip ts l)) <= list_sum (map weight l))%nat).
      { induction IH as [|a r Ha _ IHr]; intros [|t0 ts]; cbn [tuple_clip]; try (split; reflexivity).
        destruct (IHr ts) as [L S]. cbn [length map]. rewrite !list_sum_cons. specialize (Ha t0). split; lia. }
      destruct (G l0) as [L S]. lia.
Qed.

(* ---------- model side: the same cut on a value tree ---------- *)

Definition clip_gval (tc : tcomp) (g : gval) : gval :=
  match tc, g with
  | TCElem (EBytes | EFunction) _ m _ _, GBytes b => if (m =? 0)%N then g else GBytes (firstn (N.to_nat m) b)
  | _, _ => g
  end.

Fixpoint clip_cval (x : cval) : cval :=
  match x with
  | CVNil => CVNil
  | CV c l g => CV c (map clip_cval l) (match c with Some tc => clip_gval tc g | None => g end)
  end.

Lemma pass1_ext {A} (f : A -> res (bytes * bool)) (h : A -> A) l :
  Forall (fun y => f (h y) = f y) l -> pass1 f (map h l) = pass1 f l.
Proof. induction 1 as [|y r Hy _ IH]; [reflexivity|]. cbn [pass1 map]. rewrite Hy. fold (pass1 f). rewrite IH. reflexivity. Qed.

Lemma children_ext {A} (f : A -> res (bytes * bool)) (h : A -> A) l known incl :
  Forall (fun y => f (h y) = f y) l -> encodeABIChildren f (map h l) known incl = encodeABIChildren f l known incl.
Proof. intros F. unfold encodeABIChildren. rewrite (pass1_ext f h l F), map_length. reflexivity. Qed.

Lemma bytes_clip_same m b : (m =? 0)%N = false ->
  encodeABIBytes m (GBytes (firstn (N.to_nat m) b)) = encodeABIBytes m (GBytes b).
Proof.
  intros M0. unfold encodeABIBytes. rewrite M0. cbv zeta. rewrite firstn_length.
  destruct (length b <? N.to_nat m)%nat eqn:L.
  - apply Nat.ltb_lt in L. replace (Nat.min (N.to_nat m) (length b) <? N.to_nat m)%nat with true by (symmetry; apply Nat.ltb_lt; lia). reflexivity.
  - apply Nat.ltb_ge in L. replace (Nat.min (N.to_nat m) (length b) <? N.to_nat m)%nat with false by (symmetry; apply Nat.ltb_ge; lia).
    cbn [orb]. destruct (32 <? N.to_nat m)%nat; [reflexivity|].
    unfold slice. rewrite firstn_length. cbn [Nat.leb skipn]. rewrite Nat.sub_0_r.
    replace (N.to_nat m <=? Nat.min (N.to_nat m) (length b))%nat with true by (symmetry; apply Nat.leb_le; lia).
    replace (N.to_nat m <=? length b)%nat with true by (symmetry; apply Nat.leb_le; lia).
    rewrite firstn_firstn, Nat.min_id. reflexivity.
Qed.

(* the encoder does not see the cut *)
Lemma encode_clip_same : forall x, encodeABIData (clip_cval x) = encodeABIData x.
Proof.
  induction x as [|c l g IH] using cval_ind'; [reflexivity|].
  destruct c as [tc|]; [|reflexivity]. cbn [clip_cval].
  destruct tc as [e s m n k|len c' k|c' k|ts k]; cbn [encodeABIData].
  - destruct e; cbn [clip_gval]; try reflexivity; destruct g; try reflexivity;
      (destruct (m =? 0)%N eqn:M0; [reflexivity|]); cbn [encoder_of encode_elementary]; apply bytes_clip_same; exact M0.
  - apply children_ext. exact IH.
  - apply children_ext. exact IH.
  - apply children_ext. exact IH.
Qed.

Lemma tuple_typed_as_clip ts : forall l,
  Forall (fun y => forall tc, typed_as tc y = true -> typed_as tc (clip_cval y) = true) l ->
  tuple_typed_as ts l = true -> tuple_typed_as ts (map clip_cval l) = true.
Proof.
  induction ts as [|t ts IHt]; intros [|y l] F H; try discriminate; try reflexivity.
  cbn [tuple_typed_as map] in *. apply andb_prop in H as [H1 H2]. inversion F as [|y' l' Fy Fl]; subst.
  rewrite (Fy t H1), (IHt l Fl H2). reflexivity.
Qed.

Lemma typed_as_clip : forall x tc, typed_as tc x = true -> typed_as tc (clip_cval x) = true.
Proof.
  induction x as [|c l g IH] using cval_ind'; intros tc H; [discriminate|].
  destruct tc as [e s m n k|len c' k|c' k|ts k].
  - cbn [typed_as clip_cval] in *. apply andb_prop in H as [H1 H2]. rewrite H1. destruct l; [reflexivity|discriminate].
  - cbn [typed_as clip_cval] in *. apply andb_prop in H as [H1 H2]. rewrite H1. cbn [andb].
    rewrite forallb_forall in H2. apply forallb_forall. intros y Hy. apply in_map_iff in Hy as (y0 & <- & Hy0).
    rewrite Forall_forall in IH. apply (IH y0 Hy0). apply H2. exact Hy0.
  - cbn [typed_as clip_cval] in *. apply andb_prop in H as [H1 H2]. rewrite H1. cbn [andb].
    rewrite forallb_forall in H2. apply forallb_forall. intros y Hy. apply in_map_iff in Hy as (y0 & <- & Hy0).
    rewrite Forall_forall in IH. apply (IH y0 Hy0). apply H2. exact Hy0.
  - cbn [clip_cval]. rewrite typed_as_tuple in *. apply andb_prop in H as [H1 H2]. rewrite H1. cbn [andb].
    apply tuple_typed_as_clip; assumption.
Qed.

Lemma values_ok_clip : forall x, values_ok x = true -> values_ok (clip_cval x) = true.
Proof.
  induction x as [|c l g IH] using cval_ind'; intros H; [discriminate|].
  assert (G : forallb values_ok l = true -> forallb values_ok (map clip_cval l) = true).
  { intros H2. rewrite forallb_forall in H2. apply forallb_forall. intros y Hy. apply in_map_iff in Hy as (y0 & <- & Hy0).
    rewrite Forall_forall in IH. apply (IH y0 Hy0). apply H2. exact Hy0. }
  destruct c as [tc|]; [|exact (G H)].
  destruct tc as [e s m n k|len c' k|c' k|ts k]; cbn [values_ok clip_cval] in *; try exact (G H).
  unfold value_kind_ok in *. destruct e; cbn [clip_gval reader_of] in *; try exact H;
    destruct g; try discriminate; destruct (m =? 0)%N; reflexivity.
Qed.

Lemma tuple_val_clip ts : forall l,
  Forall (fun y => forall tc, tc_wf tc = true -> typed_as tc y = true -> values_ok y = true ->
                     val_of (clip_cval y) = clip (ty_of tc) (val_of y)) l ->
  forallb tc_wf ts = true -> tuple_typed_as ts l = true -> forallb values_ok l = true ->
  map val_of (map clip_cval l) = tuple_clip clip (map ty_of ts) (map val_of l).
Proof.
  induction ts as [|t ts IHt]; intros [|y l] F W H V; try discriminate; try reflexivity.
  cbn [tuple_typed_as map forallb tuple_clip] in *. apply andb_prop in H as [H1 H2]. apply andb_prop in W as [W1 W2].
  apply andb_prop in V as [V1 V2]. inversion F as [|y' l' Fy Fl]; subst.
  rewrite (Fy t W1 H1 V1), (IHt l Fl W2 H2 V2). reflexivity.
Qed.

(* ... and holds the cut value *)
Lemma val_of_clip : forall x tc, tc_wf tc = true -> typed_as tc x = true -> values_ok x = true ->
  val_of (clip_cval x) = clip (ty_of tc) (val_of x).
Proof.
  induction x as [|c l g IH] using cval_ind'; intros tc W H V; [discriminate|].
  assert (G : forall c', tc_wf c' = true -> forallb (typed_as c') l = true -> forallb values_ok l = true ->
                map val_of (map clip_cval l) = map (clip (ty_of c')) (map val_of l)).
  { intros c' W' T' V'. rewrite !map_map. apply map_ext_in. intros y Hy. rewrite Forall_forall in IH.
    rewrite forallb_forall in T', V'. apply (IH y Hy c' W' (T' y Hy) (V' y Hy)). }
  destruct tc as [e s m n k|len c' k|c' k|ts k].
  - cbn [typed_as] in H. apply andb_prop in H as [TC _].
    destruct c as [c|]; [|discriminate]. cbn [opt_tcomp_eqb] in TC. apply tcomp_eqb_eq in TC. subst c.
    cbn [clip_cval val_of values_ok] in *. unfold tc_wf in W. apply andb_prop in W as [CS _]. cbn [tc_consistent] in CS.
    unfold value_kind_ok in V.
    destruct e; cbn [reader_of clip_gval ty_of] in *; destruct g; try discriminate; cbn [gval_to_val clip]; try reflexivity.
    + destruct f; reflexivity.
    + destruct f; reflexivity.
    + destruct (m =? 0)%N; reflexivity.
    + apply N.eqb_eq in CS. subst m. reflexivity.
  - cbn [typed_as] in H. apply andb_prop in H as [TC TA].
    destruct c as [c|]; [|discriminate]. cbn [opt_tcomp_eqb] in TC. apply tcomp_eqb_eq in TC. subst c.
    apply tc_wf_fixedarr in W as [_ W]. cbn [clip_cval val_of values_ok ty_of clip] in *. rewrite (G c' W TA V). reflexivity.
  - cbn [typed_as] in H. apply andb_prop in H as [TC TA].
    destruct c as [c|]; [|discriminate]. cbn [opt_tcomp_eqb] in TC. apply tcomp_eqb_eq in TC. subst c.
    apply tc_wf_dynarr in W. cbn [clip_cval val_of values_ok ty_of clip] in *. rewrite (G c' W TA V). reflexivity.
  - rewrite typed_as_tuple in H. apply andb_prop in H as [TC TA].
    destruct c as [c|]; [|discriminate]. cbn [opt_tcomp_eqb] in TC. apply tcomp_eqb_eq in TC. subst c.
    apply tc_wf_tuple in W. cbn [clip_cval val_of values_ok ty_of] in *. rewrite clip_tuple.
    rewrite (tuple_val_clip ts l IH W TA V). reflexivity.
Qed.

Lemma clip_id_elem t :
  match t with TBytesN _ | TFunction | TFixedArr _ _ | TDynArr _ | TTuple _ => False | _ => True end ->
  forall v, clip t v = v.
Proof. destruct t; intros H v; try contradiction; destruct v; reflexivity. Qed.

(* ---------- what the walk builds and the encoder accepts holds, once cut, a well-typed value ---------- *)
Section Clip.
Variable bifs : bytes -> res Z.

Definition accepted_clip_typed (tc : tcomp) : Prop :=
  tc_wf tc = true -> tc_no_fixed_point tc = true ->
  forall input x, ext_clean input = true -> walkInput bifs tc input = Ok x -> enc_ok x ->
    well_typed (ty_of tc) (clip (ty_of tc) (val_of x)) = true.

Lemma ctyped_array child
  (IH : forall input x, ext_clean input = true -> walkInput bifs child input = Ok x -> enc_ok x ->
          well_typed (ty_of child) (clip (ty_of child) (val_of x)) = true) l :
  forall cs,
  (fix go (l : list ext) : res (list cval) :=
     match l with
     | [] => Ok []
     | v :: r => do c <- walkInput bifs child v; do cs <- go r; Ok (c :: cs)
     end) l = Ok cs ->
  forallb ext_clean l = true -> Forall enc_ok cs ->
  forallb (well_typed (ty_of child)) (map (clip (ty_of child)) (map val_of cs)) = true /\ length cs = length l.
Proof.
  induction l as [|v r IHr]; intros cs H C EO.
  - injection H as <-. split; reflexivity.
  - destruct (walkInput bifs child v) as [a| |] eqn:E; cbn [bind] in H; try discriminate.
    match type of H with (do cs0 <- ?G; _) = _ => destruct G as [l'| |] eqn:E2 end; cbn [bind] in H; try discriminate.
    injection H as <-. cbn [forallb] in C. apply andb_prop in C as [C1 C2]. cbn [map forallb] in *.
    inversion EO as [|a' l'' EA EL]; subst.
    destruct (IHr l' eq_refl C2 EL) as [WT LE]. rewrite (IH v a C1 E EA), WT. cbn [length]. rewrite LE. split; reflexivity.
Qed.

Lemma ctyped_tuple_seq ts
  (IH : Forall (fun t => forall input x, ext_clean input = true -> walkInput bifs t input = Ok x -> enc_ok x ->
          well_typed (ty_of t) (clip (ty_of t) (val_of x)) = true) ts) :
  forall l cs, length l = length ts ->
  (fix go (ts : list tcomp) (l : list ext) {struct ts} : res (list cval) :=
     match ts, l with
     | t :: ts', v :: r => do c <- walkInput bifs t v; do cs <- go ts' r; Ok (c :: cs)
     | _, _ => Ok []
     end) ts l = Ok cs ->
  forallb ext_clean l = true -> Forall enc_ok cs ->
  tuple_typed (map ty_of ts) (tuple_clip clip (map ty_of ts) (map val_of cs)) = true.
Proof.
  induction IH as [|t r Ht _ IHr]; intros [|v l] cs LE H C EO; try discriminate.
  - injection H as <-. reflexivity.
  - destruct (walkInput bifs t v) as [a| |] eqn:E; cbn [bind] in H; try discriminate.
    match type of H with (do cs0 <- ?G; _) = _ => destruct G as [l'| |] eqn:E2 end; cbn [bind] in H; try discriminate.
    injection H as <-. cbn [forallb] in C. apply andb_prop in C as [C1 C2]. cbn [map tuple_clip tuple_typed] in *.
    inversion EO as [|a' l'' EA EL]; subst. cbn [length] in LE.
    rewrite (Ht v a C1 E EA), (IHr l l' ltac:(lia) E2 C2 EL). reflexivity.
Qed.

Lemma ctyped_tuple_obj m ts
  (IH : Forall (fun t => forall input x, ext_clean input = true -> walkInput bifs t input = Ok x -> enc_ok x ->
          well_typed (ty_of t) (clip (ty_of t) (val_of x)) = true) ts) :
  forallb (fun kv => ext_clean (snd kv)) m = true ->
  forall i cs,
  (fix go (ts : list tcomp) (i : nat) {struct ts} : res (list cval) :=
     match ts with
     | [] => Ok []
     | t :: ts' =>
         let keyName := match tc_key t with [] => itoa i | k :: l => k :: l end in
         match lookup keyName m with
         | None => Err EMissingKey
         | Some v => do c <- walkInput bifs t v; do cs <- go ts' (S i); Ok (c :: cs)
         end
     end) ts i = Ok cs ->
  Forall enc_ok cs ->
  tuple_typed (map ty_of ts) (tuple_clip clip (map ty_of ts) (map val_of cs)) = true.
Proof.
  intros C. induction IH as [|t r Ht _ IHr]; intros i cs H EO.
  - injection H as <-. reflexivity.
  - cbv zeta in H. destruct (lookup _ m) as [v|] eqn:LK; [|discriminate].
    destruct (walkInput bifs t v) as [a| |] eqn:E; cbn [bind] in H; try discriminate.
    match type of H with (do cs0 <- ?G; _) = _ => destruct G as [l'| |] eqn:E2 end; cbn [bind] in H; try discriminate.
    injection H as <-. cbn [map tuple_clip tuple_typed] in *.
    inversion EO as [|a' l'' EA EL]; subst.
    rewrite (Ht v a (lookup_clean _ _ _ C LK) E EA), (IHr (S i) l' E2 EL). reflexivity.
Qed.

Theorem accepted_clip_is_typed tc : accepted_clip_typed tc.
Proof.
  induction tc as [e s m n k|len c k IH|c k IH|ts k IH] using tcomp_ind'; intros W NF input x C H EO; cbn [walkInput] in H.
  - destruct (read_external bifs (reader_of e) input) as [g| |] eqn:E; cbn [bind] in H; try discriminate. injection H as <-.
    destruct e; cbn [tc_no_fixed_point] in NF; try discriminate.
    1-4, 7: rewrite clip_id_elem by exact I;
            (eapply (accepted_is_typed bifs _ W NF input _ C); [cbn [walkInput]; rewrite E; reflexivity|exact EO|]);
            cbn [ty_of val_of]; destruct (gval_to_val n g); reflexivity.
    + (* bytes / bytes<M> *)
      destruct EO as [r EO]. cbn [encodeABIData] in EO. cbn [val_of] in *.
      cbn [reader_of read_external] in E. unfold getBytesFromInterface in E.
      destruct (getBytesFromInterface_b input) as [b| |]; cbn [bind] in E; try discriminate. injection E as <-.
      cbn [gval_to_val ty_of encoder_of encode_elementary] in *. destruct (m =? 0)%N eqn:M0; [reflexivity|].
      cbn [clip well_typed]. unfold encodeABIBytes in EO. rewrite M0 in EO. cbv zeta in EO.
      destruct ((length b <? N.to_nat m)%nat || (32 <? N.to_nat m)%nat) eqn:G; [discriminate|].
      apply orb_false_elim in G as [G _]. apply Nat.ltb_ge in G. rewrite firstn_length. lia.
    + (* function *)
      destruct EO as [r EO]. cbn [encodeABIData] in EO. cbn [val_of] in *.
      unfold tc_wf in W. apply andb_prop in W as [CS WF]. cbn [tc_consistent default_m] in CS.
      cbn [reader_of read_external] in E. unfold getBytesFromInterface in E.
      destruct (getBytesFromInterface_b input) as [b| |]; cbn [bind] in E; try discriminate. injection E as <-.
      cbn [gval_to_val ty_of encoder_of encode_elementary] in *. apply N.eqb_eq in CS. subst m.
      cbn [clip well_typed]. unfold encodeABIBytes in EO. change (24 =? 0)%N with false in EO. cbv zeta in EO.
      destruct ((length b <? N.to_nat 24)%nat || (32 <? N.to_nat 24)%nat) eqn:G; [discriminate|].
      apply orb_false_elim in G as [G _]. apply Nat.ltb_ge in G. change (N.to_nat 24) with 24%nat in G.
      rewrite firstn_length. apply Nat.eqb_eq. lia.
  - apply tc_wf_fixedarr in W as [L0 W]. cbn [tc_no_fixed_point] in NF.
    destruct (as_slice input) as [iArray|] eqn:SL; [|discriminate].
    destruct (negb (Z.of_nat (length iArray) =? len)%Z) eqn:LE; [discriminate|]. apply negb_false_iff in LE. apply Z.eqb_eq in LE.
    match type of H with (do cs0 <- ?G; _) = _ => destruct G as [a| |] eqn:E2 end; cbn [bind] in H; try discriminate.
    injection H as <-. apply children_enc_ok in EO; [|reflexivity]. cbn [val_of ty_of clip well_typed] in *.
    destruct (ctyped_array c (IH W NF) iArray a E2 (as_slice_clean _ _ C SL) EO) as [WT LN].
    rewrite WT, !map_length, LN. rewrite andb_true_r. apply N.eqb_eq. lia.
  - apply tc_wf_dynarr in W. cbn [tc_no_fixed_point] in NF.
    destruct (as_slice input) as [iArray|] eqn:SL; [|discriminate].
    match type of H with (do cs0 <- ?G; _) = _ => destruct G as [a| |] eqn:E2 end; cbn [bind] in H; try discriminate.
    injection H as <-. apply children_enc_ok in EO; [|reflexivity]. cbn [val_of ty_of clip well_typed] in *.
    exact (proj1 (ctyped_array c (IH W NF) iArray a E2 (as_slice_clean _ _ C SL) EO)).
  - apply tc_wf_tuple in W. cbn [tc_no_fixed_point] in NF.
    assert (IH' : Forall (fun t => forall input x, ext_clean input = true -> walkInput bifs t input = Ok x -> enc_ok x ->
          well_typed (ty_of t) (clip (ty_of t) (val_of x)) = true) ts).
    { clear H. induction IH as [|t r Ht _ IHr]; [constructor|]. cbn [forallb] in NF, W.
      apply andb_prop in NF as [N1 N2]. apply andb_prop in W as [W1 W2].
      constructor; [exact (Ht W1 N1)|exact (IHr W2 N2)]. }
    destruct (as_slice input) as [iArray|] eqn:SL.
    + destruct (negb (length iArray =? length ts)%nat) eqn:LE; [discriminate|].
      apply negb_false_iff in LE. apply Nat.eqb_eq in LE.
      match type of H with (do cs0 <- ?G; _) = _ => destruct G as [a| |] eqn:E2 end; cbn [bind] in H; try discriminate.
      injection H as <-. apply children_enc_ok in EO; [|reflexivity]. cbn [val_of ty_of] in *.
      rewrite clip_tuple, well_typed_tuple.
      exact (ctyped_tuple_seq ts IH' iArray a LE E2 (as_slice_clean _ _ C SL) EO).
    + destruct input; try discriminate. cbn [ext_clean] in C.
      match type of H with (do cs0 <- ?G; _) = _ => destruct G as [a| |] eqn:E2 end; cbn [bind] in H; try discriminate.
      injection H as <-. apply children_enc_ok in EO; [|reflexivity]. cbn [val_of ty_of] in *.
      rewrite clip_tuple, well_typed_tuple.
      exact (ctyped_tuple_obj m ts IH' C 0%nat a E2 EO).
Qed.
End Clip.

(* ---------- the converse of denoted_value_encoded without [not_longer] ---------- *)
Section Final.
Variable bifs : bytes -> res Z.
Variable D : bytes -> Z -> Prop.
Hypothesis bifs_sound : forall s z, bifs s = Ok z -> D s z.

Theorem accepted_is_denoted_clip params input b :
  let root := root_of params in
  tc_wf root = true -> tc_no_fixed_point root = true -> tc_zero_len_static root = true ->
  ext_clean input = true ->
  EncodeABIDataValues bifs params input = Ok b ->
  exists v, repr (int_denotes D) root input v /\
            well_typed (ty_of root) (clip (ty_of root) v) = true /\
            (weight_ok (clip (ty_of root) v) -> b = enc (ty_of root) (clip (ty_of root) v)) /\
            (not_longer (ty_of root) v = true -> clip (ty_of root) v = v).
Proof.
  intros root W NF NZ C H. unfold EncodeABIDataValues in H. fold root in H.
  destruct (walkInput bifs root input) as [x| |] eqn:E; cbn [bind] in H; try discriminate.
  exists (val_of x). split; [exact (walk_sound bifs D bifs_sound root NF input x C E)|].
  assert (EO : enc_ok x).
  { unfold EncodeABIData in H. destruct (encodeABIData x) as [r| |] eqn:EE; cbn [bind] in H; try discriminate. exists r. exact EE. }
  pose proof (accepted_clip_is_typed bifs root W NF input x C E EO) as WT.
  split; [exact WT|]. split; [|apply clip_not_longer].
  intros WO.
  destruct (walkInput_shape bifs root input x E) as [T V]. specialize (V C).
  pose proof (val_of_clip x root W T V) as VC.
  pose proof (encode_is_spec_z (clip_cval x) root W NF NZ (typed_as_clip x root T) (values_ok_clip x V)) as S.
  rewrite VC in S. specialize (S WT WO). rewrite encode_clip_same in S.
  unfold EncodeABIData in H. rewrite S in H. cbn [bind fst] in H. congruence.
Qed.
End Final.

(* completeness with the relaxed T[0] guard *)
Section Complete.
Variable bifs : bytes -> res Z.
Variable I : ext -> Z -> Prop.
Hypothesis I_read : forall x z, I x z -> int_read bifs x z.

Theorem denoted_value_encoded_z params input v :
  let root := root_of params in
  tc_wf root = true -> tc_no_fixed_point root = true -> tc_zero_len_static root = true ->
  repr I root input v -> well_typed (ty_of root) v = true -> weight_ok v ->
  EncodeABIDataValues bifs params input = Ok (enc (ty_of root) v).
Proof.
  intros root W NF NZ R WT WO. destruct (walk_complete bifs I I_read root input v R) as (x & H & V & K).
  unfold EncodeABIDataValues. fold root. rewrite H. cbn [bind].
  destruct (walkInput_shape bifs root input x H) as [T _]. unfold EncodeABIData. subst v.
  rewrite (encode_is_spec_z x root W NF NZ T K WT WO). reflexivity.
Qed.
End Complete.
