(* Proofs about Abi/EntryModel.v (C12), part 1: canonical rendering, signature, selector, topic,
   call-data framing, cross rejection, revert-data attribution.  Everything is parametric in the
   hash function and in the data codec (Section variables; the laws a theorem needs are explicit
   hypotheses of that theorem). *)
From Coq Require Import String.
From Coq Require Import List NArith ZArith Lia Bool Arith.
From Coq Require Import Init.Byte.
From FFS Require Import Base.Res Base.Bytes Abi.Types Abi.ModelTypes Abi.EntryModel Abi.EntrySpec.
From FFS Require Import AbiType.Spec.
Import ListNotations.

(* ------------------------------------------------------------------------------------------------
   typeComponent.String is the canonical spelling
   ------------------------------------------------------------------------------------------------ *)

Lemma dec_digits_dec_fuel f n acc : dec_digits f n acc = dec_fuel f n ++ acc.
Proof.
  revert n acc. induction f as [|f IH]; intros n acc; [reflexivity|].
  cbn [dec_digits dec_fuel]. destruct (n <? 10)%N eqn:E.
  - apply N.ltb_lt in E. rewrite N.mod_small by exact E. reflexivity.
  - rewrite IH, <- app_assoc. reflexivity.
Qed.

Lemma fmt_N_dec n : fmt_N n = dec n.
Proof. unfold fmt_N, dec. rewrite dec_digits_dec_fuel, app_nil_r. reflexivity. Qed.

Lemma fmt_Z_dec z : (0 <= z)%Z -> fmt_Z z = dec (Z.to_N z).
Proof.
  intros Hz. unfold fmt_Z. destruct (z <? 0)%Z eqn:E; [apply Z.ltb_lt in E; lia|]. apply fmt_N_dec.
Qed.

(* What type parsing establishes about the text fields of a component tree (and the renderer
   relies on): [elementarySuffix] is the canonical decimal of M (MxN for fixed-point types), empty
   for suffix-less types and for dynamic "bytes"; array lengths are not negative.
   (parseABIParameterComponents after fixes 72abd47 / dff070b; C13.) *)
Fixpoint suffix_canonical (t : tcomp) : Prop :=
  match t with
  | TCElem e s m n _ =>
      match e with
      | EInt | EUInt => s = dec m
      | EFixed | EUFixed => s = dec m ++ T "x" ++ dec n
      | EBytes => s = if (m =? 0)%N then [] else dec m
      | EAddress | EBool | EFunction | EString => s = []
      end
  | TCFixedArr len c _ => (0 <= len)%Z /\ suffix_canonical c
  | TCDynArr c _ => suffix_canonical c
  | TCTuple l _ => (fix all (l : list tcomp) : Prop :=
                      match l with [] => True | c :: r => suffix_canonical c /\ all r end) l
  end.

Fixpoint all_suffix_canonical (l : list tcomp) : Prop :=
  match l with [] => True | c :: r => suffix_canonical c /\ all_suffix_canonical r end.

Lemma suffix_canonical_tuple l k : suffix_canonical (TCTuple l k) = all_suffix_canonical l.
Proof. induction l; reflexivity. Qed.

(* the comma-separated rendering loop vs. [sepby] *)
Fixpoint commas (i : nat) (l : list bytes) : bytes :=
  match l with
  | [] => []
  | c :: r => (if (0 <? i)%nat then [ch_comma] else []) ++ c ++ commas (S i) r
  end.

Lemma commas_pos i l : (0 < i)%nat -> commas i l = flat_map (fun c => ch_comma :: c) l.
Proof.
  revert i. induction l as [|c r IH]; intros i Hi; [reflexivity|].
  cbn [commas flat_map]. replace (0 <? i)%nat with true by (symmetry; apply Nat.ltb_lt; exact Hi).
  rewrite IH by lia. reflexivity.
Qed.

Lemma sepby_cons2 sep (c d : bytes) r : sepby sep (c :: d :: r) = c ++ sep ++ sepby sep (d :: r).
Proof. reflexivity. Qed.

Lemma sepby_flat (l : list bytes) c : sepby [ch_comma] (c :: l) = c ++ flat_map (fun c => ch_comma :: c) l.
Proof.
  revert c. induction l as [|d r IH]; intros c.
  - cbn [sepby flat_map]. rewrite app_nil_r. reflexivity.
  - rewrite sepby_cons2, IH. reflexivity.
Qed.

Lemma commas_sepby l : commas O l = sepby (T ",") l.
Proof.
  destruct l as [|c r]; [reflexivity|].
  change (T ",") with [ch_comma]. rewrite sepby_flat. cbn [commas]. rewrite commas_pos by lia. reflexivity.
Qed.

Definition tuple_go :=
  fix go (i : nat) (l : list tcomp) : bytes :=
    match l with
    | [] => []
    | c :: r => (if (0 <? i)%nat then [ch_comma] else []) ++ tc_string c ++ go (S i) r
    end.

Lemma tuple_go_commas l i : tuple_go i l = commas i (map tc_string l).
Proof.
  revert i. induction l as [|c r IH]; intros i; [reflexivity|].
  cbn [tuple_go map commas]. fold tuple_go. rewrite IH. reflexivity.
Qed.

Lemma tc_string_tuple l k :
  tc_string (TCTuple l k) = [ch_lparen] ++ commas O (map tc_string l) ++ [ch_rparen].
Proof. rewrite <- tuple_go_commas. reflexivity. Qed.

Lemma ekind_name_T :
  ekind_name EInt = T "int" /\ ekind_name EUInt = T "uint" /\ ekind_name EAddress = T "address" /\
  ekind_name EBool = T "bool" /\ ekind_name EFixed = T "fixed" /\ ekind_name EUFixed = T "ufixed" /\
  ekind_name EBytes = T "bytes" /\ ekind_name EFunction = T "function" /\ ekind_name EString = T "string".
Proof. repeat split; reflexivity. Qed.

Lemma map_tc_string_canonical l :
  Forall (fun c => suffix_canonical c -> tc_string c = canonical (ty_of c)) l ->
  all_suffix_canonical l -> map tc_string l = map canonical (map ty_of l).
Proof.
  induction 1 as [|c r Pc Pr IH]; intros Hs; [reflexivity|].
  destruct Hs as [Hc Hr]. cbn [map]. rewrite Pc by exact Hc. rewrite IH by exact Hr. reflexivity.
Qed.

Theorem tc_string_canonical t : suffix_canonical t -> tc_string t = canonical (ty_of t).
Proof.
  induction t as [e s m n k|len c k IH|c k IH|l k IH] using tcomp_ind'; intros Hs.
  - cbn [suffix_canonical] in Hs. cbn [tc_string ty_of].
    destruct e; subst s; cbn [canonical]; try reflexivity.
    destruct (m =? 0)%N; reflexivity.
  - destruct Hs as [Hl Hc]. cbn [tc_string ty_of canonical]. rewrite IH by exact Hc.
    rewrite fmt_Z_dec by exact Hl. reflexivity.
  - cbn [suffix_canonical] in Hs. cbn [tc_string ty_of canonical]. rewrite IH by exact Hs. reflexivity.
  - rewrite suffix_canonical_tuple in Hs. rewrite tc_string_tuple. cbn [ty_of canonical].
    rewrite commas_sepby. rewrite (map_tc_string_canonical l IH Hs). reflexivity.
Qed.

(* ------------------------------------------------------------------------------------------------
   Entry.Signature
   ------------------------------------------------------------------------------------------------ *)

Lemma tree_children_spec pa cs :
  tree_children pa = Ok cs <-> map p_tc pa = map Some cs.
Proof.
  revert cs. induction pa as [|p r IH]; intros cs; cbn [tree_children map].
  - split; [intros E; injection E as <-; reflexivity|]. destruct cs; [reflexivity|discriminate].
  - destruct (p_tc p) as [tc|] eqn:Ep.
    + destruct (tree_children r) as [rest| |] eqn:Er; cbn [bind].
      * split.
        -- intros E; injection E as <-. cbn [map]. f_equal. apply IH. reflexivity.
        -- destruct cs as [|c cs']; [discriminate|]. cbn [map]. intros E. injection E as -> E'.
           apply IH in E'. injection E' as ->. reflexivity.
      * split; [discriminate|]. destruct cs as [|c cs']; [discriminate|]. cbn [map]. intros E.
        injection E as _ E'. apply IH in E'. discriminate.
      * split; [discriminate|]. destruct cs as [|c cs']; [discriminate|]. cbn [map]. intros E.
        injection E as _ E'. apply IH in E'. discriminate.
    + split; [discriminate|]. destruct cs; discriminate.
Qed.

Lemma tree_children_not_panic pa : tree_children pa <> Panic.
Proof.
  induction pa as [|p r IH]; cbn [tree_children]; [discriminate|].
  destruct (p_tc p); [|discriminate]. destruct (tree_children r); cbn [bind]; try discriminate. congruence.
Qed.

Lemma sig_inputs_commas pa cs i :
  tree_children pa = Ok cs -> sig_inputs i pa = Ok (commas i (map tc_string cs)).
Proof.
  revert cs i. induction pa as [|p r IH]; intros cs i; cbn [tree_children sig_inputs].
  - intros E; injection E as <-. reflexivity.
  - unfold SignatureString. destruct (p_tc p) as [tc|]; [|discriminate].
    destruct (tree_children r) as [rest| |] eqn:Er; cbn [bind]; try discriminate.
    intros E; injection E as <-. rewrite (IH rest (S i) eq_refl). reflexivity.
Qed.

Lemma sig_inputs_err pa i : (forall cs, tree_children pa <> Ok cs) -> exists c, sig_inputs i pa = Err c.
Proof.
  revert i. induction pa as [|p r IH]; intros i Hn; cbn [tree_children sig_inputs] in *.
  - exfalso. apply (Hn []). reflexivity.
  - unfold SignatureString. destruct (p_tc p) as [tc|]; cbn [bind]; [|eauto].
    destruct (IH (S i)) as [c Hc].
    + intros cs E. apply (Hn (tc :: cs)). rewrite E. reflexivity.
    + rewrite Hc. cbn [bind]. eauto.
Qed.

(* C12_signature_canonical *)
Theorem signature_canonical e cs :
  tree_children (e_inputs e) = Ok cs -> all_suffix_canonical cs ->
  Signature e = Ok (signature_spec (e_name e) (map ty_of cs)).
Proof.
  intros Ht Hs. unfold Signature. rewrite (sig_inputs_commas _ _ O Ht). cbn [bind].
  unfold signature_spec. rewrite commas_sepby.
  rewrite (map_tc_string_canonical cs); [reflexivity| |exact Hs].
  apply Forall_forall. intros c _. apply tc_string_canonical.
Qed.

(* an entry with a parameter that does not validate has no signature (and nothing below works) *)
Lemma signature_invalid e :
  (forall cs, tree_children (e_inputs e) <> Ok cs) -> exists c, Signature e = Err c.
Proof.
  intros Hn. unfold Signature. destruct (sig_inputs_err (e_inputs e) O Hn) as [c Hc]. rewrite Hc. cbn [bind]. eauto.
Qed.

Lemma signature_ok_inv e s : Signature e = Ok s -> exists cs, tree_children (e_inputs e) = Ok cs.
Proof.
  intros Hs. destruct (tree_children (e_inputs e)) as [cs|c|] eqn:E; [eauto| |].
  - destruct (signature_invalid e) as [c' Hc']; [intros cs Hcs; congruence|congruence].
  - exfalso. exact (tree_children_not_panic _ E).
Qed.

(* ------------------------------------------------------------------------------------------------
   selector, topic0, call-data framing, cross rejection
   ------------------------------------------------------------------------------------------------ *)
Section Framing.
  Variable H : bytes -> bytes.
  Hypothesis H_len : forall m, length (H m) = 32%nat.
  Variable encode_cv : cval -> res bytes.
  Variable decode_data : tcomp -> bytes -> Z -> res cval.

  Lemma slice_0_4 (b : bytes) : (4 <= length b)%nat -> slice b 0 4 = Ok (firstn 4 b).
  Proof. intros Hl. rewrite slice_ok by lia. reflexivity. Qed.

  (* C12_selector / C12_topic0: the model's selector and topic are the specification's, for every
     entry whose parameter types validate *)
  Theorem selector_is_spec e cs :
    tree_children (e_inputs e) = Ok cs -> all_suffix_canonical cs ->
    GenerateFunctionSelector H e = Ok (selector_spec H (e_name e) (map ty_of cs)) /\
    FunctionSelectorBytes H e = Ok (selector_spec H (e_name e) (map ty_of cs)).
  Proof.
    intros Ht Hs. unfold FunctionSelectorBytes, GenerateFunctionSelector.
    rewrite (signature_canonical e cs Ht Hs). cbn [bind].
    rewrite slice_0_4 by (rewrite H_len; lia). split; reflexivity.
  Qed.

  Theorem topic0_is_spec e cs :
    tree_children (e_inputs e) = Ok cs -> all_suffix_canonical cs ->
    SignatureHash H e = Ok (topic0_spec H (e_name e) (map ty_of cs)) /\
    SignatureHashBytes H e = topic0_spec H (e_name e) (map ty_of cs).
  Proof.
    intros Ht Hs. unfold SignatureHashBytes, SignatureHash.
    rewrite (signature_canonical e cs Ht Hs). cbn [bind]. split; reflexivity.
  Qed.

  Lemma selector_length e id : GenerateFunctionSelector H e = Ok id -> length id = 4%nat.
  Proof.
    unfold GenerateFunctionSelector. destruct (Signature e) as [s| |]; cbn [bind]; try discriminate.
    intros E. apply slice_length in E. exact E.
  Qed.

  Lemma selector_not_panic e : GenerateFunctionSelector H e <> Panic.
  Proof.
    unfold GenerateFunctionSelector. destruct (Signature e) as [s|c|] eqn:Es; cbn [bind]; try discriminate.
    - rewrite slice_0_4 by (rewrite H_len; lia). discriminate.
    - unfold Signature in Es. destruct (sig_inputs 0 (e_inputs e)) as [ps|c|] eqn:Ei; cbn [bind] in Es; try discriminate.
      exfalso. destruct (tree_children (e_inputs e)) as [cs|c|] eqn:Et.
      + rewrite (sig_inputs_commas _ _ O Et) in Ei. discriminate.
      + destruct (sig_inputs_err (e_inputs e) O) as [c' Hc']; [intros cs E; congruence|congruence].
      + exact (tree_children_not_panic _ Et).
  Qed.

  (* C12_calldata_guard: call data is decoded only when it starts with the entry's own selector *)
  Theorem calldata_guard e b v :
    DecodeCallData H decode_data e b = Ok v ->
    exists id, GenerateFunctionSelector H e = Ok id /\ firstn 4 b = id /\ (4 <= length b)%nat /\
               DecodeABIData_params decode_data (e_inputs e) b 4 = Ok v.
  Proof.
    unfold DecodeCallData. intros Hd.
    destruct (GenerateFunctionSelector H e) as [id| |] eqn:Es; cbn [bind] in Hd; try discriminate.
    destruct (length b <? 4)%nat eqn:El; try discriminate.
    apply Nat.ltb_ge in El. rewrite slice_0_4 in Hd by exact El. cbn [bind] in Hd.
    destruct (bytes_eqb_spec id (firstn 4 b)) as [E|E]; cbn [negb] in Hd; try discriminate.
    exists id. split; [reflexivity|]. split; [symmetry; exact E|]. split; [exact El|exact Hd].
  Qed.

  (* the converse: data that starts with the selector is handed to the data decoder at offset 4 *)
  Lemma calldata_accept e id d :
    GenerateFunctionSelector H e = Ok id ->
    DecodeCallData H decode_data e (id ++ d) = DecodeABIData_params decode_data (e_inputs e) (id ++ d) 4.
  Proof.
    intros Es. pose proof (selector_length e id Es) as Hl. unfold DecodeCallData. rewrite Es. cbn [bind].
    replace (length (id ++ d) <? 4)%nat with false
      by (symmetry; apply Nat.ltb_ge; rewrite app_length; lia).
    rewrite slice_0_4 by (rewrite app_length; lia). cbn [bind].
    rewrite firstn_app, Hl, Nat.sub_diag, firstn_O, app_nil_r, <- Hl, firstn_all.
    destruct (bytes_eqb_spec id id) as [_|N]; [reflexivity|congruence].
  Qed.

  Lemma encode_calldata_inv e cv b :
    EncodeCallData H encode_cv e cv = Ok b ->
    exists id d, GenerateFunctionSelector H e = Ok id /\ encode_cv cv = Ok d /\ b = id ++ d.
  Proof.
    unfold EncodeCallData. destruct (GenerateFunctionSelector H e) as [id| |]; cbn [bind]; try discriminate.
    destruct (encode_cv cv) as [d| |]; cbn [bind]; try discriminate.
    intros E; injection E as <-. eauto.
  Qed.

  (* C12_calldata_roundtrip: whatever the data codec's round-trip law gives for the argument tuple
     placed after four bytes carries over to call data *)
  Theorem calldata_roundtrip e cv b cv' :
    EncodeCallData H encode_cv e cv = Ok b ->
    (forall id d tree, length id = 4%nat -> encode_cv cv = Ok d -> TypeComponentTree (e_inputs e) = Ok tree ->
                       decode_data tree (id ++ d) 4 = Ok cv') ->
    DecodeCallData H decode_data e b = Ok cv'.
  Proof.
    intros He Hrt. destruct (encode_calldata_inv _ _ _ He) as (id & d & Es & Ed & ->).
    rewrite (calldata_accept e id d Es). unfold DecodeABIData_params.
    destruct (TypeComponentTree (e_inputs e)) as [tree|c|] eqn:Et; cbn [bind].
    - apply Hrt; auto. exact (selector_length e id Es).
    - exfalso. unfold GenerateFunctionSelector in Es.
      destruct (Signature e) as [s| |] eqn:Esig; cbn [bind] in Es; try discriminate.
      destruct (signature_ok_inv e s Esig) as [cs Hcs]. unfold TypeComponentTree in Et. rewrite Hcs in Et. discriminate.
    - exfalso. unfold TypeComponentTree in Et. destruct (tree_children (e_inputs e)) eqn:E'; cbn [bind] in Et; try discriminate.
      exact (tree_children_not_panic _ E').
  Qed.

  (* C12_cross_reject: call data of an entry with another selector is refused *)
  Theorem cross_reject e1 e2 cv b id2 :
    EncodeCallData H encode_cv e1 cv = Ok b ->
    GenerateFunctionSelector H e2 = Ok id2 ->
    GenerateFunctionSelector H e1 <> Ok id2 ->
    DecodeCallData H decode_data e2 b = Err EBadSig.
  Proof.
    intros He E2 Hne. destruct (encode_calldata_inv _ _ _ He) as (id1 & d & E1 & Ed & ->).
    pose proof (selector_length e1 id1 E1) as Hl. unfold DecodeCallData. rewrite E2. cbn [bind].
    replace (length (id1 ++ d) <? 4)%nat with false
      by (symmetry; apply Nat.ltb_ge; rewrite app_length; lia).
    rewrite slice_0_4 by (rewrite app_length; lia). cbn [bind].
    rewrite firstn_app, Hl, Nat.sub_diag, firstn_O, app_nil_r, <- Hl, firstn_all.
    destruct (bytes_eqb_spec id2 id1) as [E|N]; [|reflexivity].
    exfalso. apply Hne. rewrite E1, E. reflexivity.
  Qed.

  (* any data whose first four bytes are not the selector is refused, whatever follows *)
  Theorem foreign_selector_refused e b :
    (forall id, GenerateFunctionSelector H e = Ok id -> firstn 4 b <> id \/ (length b < 4)%nat) ->
    exists c, DecodeCallData H decode_data e b = Err c.
  Proof.
    intros Hf. unfold DecodeCallData.
    destruct (GenerateFunctionSelector H e) as [id|c|] eqn:Es; cbn [bind]; [|eauto|].
    - destruct (length b <? 4)%nat eqn:El; [eauto|]. apply Nat.ltb_ge in El.
      rewrite slice_0_4 by exact El. cbn [bind].
      destruct (bytes_eqb_spec id (firstn 4 b)) as [E|N]; cbn [negb]; [|eauto].
      exfalso. destruct (Hf id eq_refl) as [Hn|Hn]; [congruence|lia].
    - exfalso. exact (selector_not_panic e Es).
  Qed.

  (* ----------------------------------------------------------------------------------------------
     revert data
     ---------------------------------------------------------------------------------------------- *)

  (* C12_error_attribution: revert data is attributed to an error definition of the ABI (or the
     built-in Error(string)) whose selector it carries, with the arguments decoded from the bytes
     after the selector -- and to the first such definition *)
  Lemma parse_error_loop_found a d e v :
    parse_error_loop H decode_data a d = Ok (Some (e, v)) ->
    exists pre post, a = pre ++ e :: post /\ e_type e = TyError /\
      DecodeCallData H decode_data e d = Ok v /\
      (forall e', In e' pre -> e_type e' = TyError -> exists c, DecodeCallData H decode_data e' d = Err c).
  Proof.
    induction a as [|x r IH]; cbn [parse_error_loop]; [discriminate|].
    destruct (etype_eqb (e_type x) TyError) eqn:Et.
    - destruct (DecodeCallData H decode_data x d) as [cv|c|] eqn:Ed.
      + intros E; injection E as <- <-. exists [], r. repeat split; auto.
        * destruct (e_type x); try discriminate; reflexivity.
        * intros e' [].
      + intros E. destruct (IH E) as (pre & post & -> & Hty & Hd & Hpre).
        exists (x :: pre), post. repeat split; auto.
        intros e' [<-|Hin] Hte; [eauto|]. apply Hpre; assumption.
      + discriminate.
    - intros E. destruct (IH E) as (pre & post & -> & Hty & Hd & Hpre).
      exists (x :: pre), post. repeat split; auto.
      intros e' [<-|Hin] Hte; [|apply Hpre; assumption].
      rewrite Hte in Et. discriminate.
  Qed.

  Lemma parse_error_loop_none a d :
    parse_error_loop H decode_data a d = Ok None ->
    forall e, In e a -> e_type e = TyError -> exists c, DecodeCallData H decode_data e d = Err c.
  Proof.
    induction a as [|x r IH]; cbn [parse_error_loop]; [intros _ e []|].
    destruct (etype_eqb (e_type x) TyError) eqn:Et.
    - destruct (DecodeCallData H decode_data x d) as [cv|c|] eqn:Ed; try discriminate.
      intros E e [<-|Hin] Hte; [eauto|]. apply IH; assumption.
    - intros E e [<-|Hin] Hte; [rewrite Hte in Et; discriminate|]. apply IH; assumption.
  Qed.

  Theorem error_attribution a d e v :
    ParseError H decode_data a d = Ok (Some (e, v)) ->
    In e (default_error :: a) /\ e_type e = TyError /\
    exists id, GenerateFunctionSelector H e = Ok id /\ firstn 4 d = id /\ (4 <= length d)%nat /\
               DecodeABIData_params decode_data (e_inputs e) d 4 = Ok v.
  Proof.
    unfold ParseError. intros E. destruct (parse_error_loop_found _ _ _ _ E) as (pre & post & Ha & Hty & Hd & _).
    split; [rewrite Ha; apply in_or_app; right; left; reflexivity|]. split; [exact Hty|].
    exact (calldata_guard e d v Hd).
  Qed.

  Theorem error_attribution_first a d e v :
    ParseError H decode_data a d = Ok (Some (e, v)) ->
    exists pre post, default_error :: a = pre ++ e :: post /\
      forall e', In e' pre -> e_type e' = TyError -> exists c, DecodeCallData H decode_data e' d = Err c.
  Proof.
    unfold ParseError. intros E. destruct (parse_error_loop_found _ _ _ _ E) as (pre & post & Ha & Hty & Hd & Hpre).
    exists pre, post. split; assumption.
  Qed.

  Theorem error_not_found a d :
    ParseError H decode_data a d = Ok None ->
    forall e, In e (default_error :: a) -> e_type e = TyError ->
              exists c, DecodeCallData H decode_data e d = Err c.
  Proof. unfold ParseError. apply parse_error_loop_none. Qed.

  (* completeness: if some error definition accepts the data and no decoder call panics, the data is
     attributed (to the first accepting definition) *)
  Theorem error_found a d :
    (forall e, In e (default_error :: a) -> DecodeCallData H decode_data e d <> Panic) ->
    (exists e v, In e (default_error :: a) /\ e_type e = TyError /\ DecodeCallData H decode_data e d = Ok v) ->
    exists e v, ParseError H decode_data a d = Ok (Some (e, v)).
  Proof.
    unfold ParseError. generalize (default_error :: a). clear a. intros a Hnp (e & v & Hin & Hty & Hd).
    induction a as [|x r IH]; [destruct Hin|]. cbn [parse_error_loop].
    destruct (etype_eqb (e_type x) TyError) eqn:Et.
    - destruct (DecodeCallData H decode_data x d) as [cv|c|] eqn:Ed.
      + eauto.
      + destruct Hin as [<-|Hin]; [congruence|]. apply IH; [intros e' He'; apply Hnp; right; exact He'|exact Hin].
      + exfalso. apply (Hnp x); [left; reflexivity|exact Ed].
    - destruct Hin as [<-|Hin]; [rewrite Hty in Et; discriminate|].
      apply IH; [intros e' He'; apply Hnp; right; exact He'|exact Hin].
  Qed.

  (* the string form: when ErrorString answers with ok = true, the text is Name(...) of the attributed
     definition *)
  Theorem error_string_attributed format_args a d s :
    ErrorString H decode_data format_args a d = Ok (s, true) ->
    exists e v parsed, ParseError H decode_data a d = Ok (Some (e, v)) /\ format_args v = Some parsed /\
      s = e_name e ++ [ch_lparen] ++ join_args O parsed ++ [ch_rparen].
  Proof.
    unfold ErrorString. destruct (ParseError H decode_data a d) as [[[e v]|]| |]; cbn [bind]; try discriminate.
    unfold FormatErrorString. destruct (format_args v) as [parsed|] eqn:Ef; [|discriminate].
    intros E. injection E as <- _. exists e, v, parsed. repeat split. exact Ef.
  Qed.
End Framing.
