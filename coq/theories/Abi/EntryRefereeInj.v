(* C12, answers to the referee report, part 3 (issue 6): the signature string identifies the entry's
   (name, parameter types) -- proved here for parameter lists WITHOUT tuple types (arrays of any
   dimension over elementary types): distinct (name, type list) give distinct signature strings, so
   between "distinct entries" and "distinct selectors / topics" only a collision of the hash remains.
   The general statement (tuple members included) is in Abi/EntryRefereeInj2.v, which reuses the
   helpers of this file. *)
From Coq Require Import String.
From Coq Require Import List NArith ZArith Lia Bool Arith.
From Coq Require Import Init.Byte.
From FFS Require Import Base.Res Base.Bytes Abi.Types Abi.EntrySpec.
From FFS Require Import AbiType.Spec AbiType.ProofsArr AbiType.ProofsMain AbiType.ProofsOracle.
Import ListNotations.

Definition ch_comma : byte := x2c.
Definition ch_lparen : byte := x28.

Lemma no_byte_app c a b : no_byte c a -> no_byte c b -> no_byte c (a ++ b).
Proof. intros Ha Hb. apply Forall_app. split; assumption. Qed.

Lemma no_byte_app_inv c a b : no_byte c (a ++ b) -> no_byte c a /\ no_byte c b.
Proof. intros Hab. apply Forall_app in Hab. exact Hab. Qed.

Lemma no_byte_not_in c a b : ~ no_byte c (a ++ c :: b).
Proof.
  intros Hn. apply no_byte_app_inv in Hn as [_ Hn]. inversion Hn as [|? ? Hc _]; subst.
  rewrite byte_eqb_refl in Hc. discriminate.
Qed.

(* the first occurrence of a separator splits uniquely *)
Lemma split_unique c a b a' b' :
  no_byte c a -> no_byte c a' -> a ++ c :: b = a' ++ c :: b' -> a = a' /\ b = b'.
Proof.
  intros Ha Ha' E. assert (a = a').
  { rewrite <- (until_stop c a b Ha), <- (until_stop c a' b' Ha'), E. reflexivity. }
  subst a'. apply app_inv_head in E. injection E as ->. split; reflexivity.
Qed.

(* the canonical spelling of a tuple-free type contains no comma *)
Lemma canonical_no_comma t : tuple_free_ty t = true -> no_byte ch_comma (canonical t).
Proof.
  assert (D : forall n, no_byte ch_comma (dec n)) by (intros n; apply dec_no_byte; left; vm_compute; reflexivity).
  assert (K : forall s, forallb (fun b => negb (byte_eqb b ch_comma)) s = true -> no_byte ch_comma s).
  { intros s Hs. apply Forall_forall. intros b Hb. rewrite forallb_forall in Hs. apply negb_true_iff, Hs, Hb. }
  induction t as [m|m| | |m n|m n|m| | | |t k IH|t IH|l IH] using ty_ind'; cbn [tuple_free_ty canonical]; intros HF;
    try discriminate;
    repeat (apply no_byte_app); try apply D; try (apply K; vm_compute; reflexivity); try (apply IH; exact HF).
Qed.

Lemma canonical_nonempty t : canonical t <> [].
Proof.
  destruct t; cbn [canonical]; try discriminate;
    intros E; apply app_eq_nil in E as [_ E]; discriminate.
Qed.

(* on valid tuple-free types the canonical spelling is injective (it is an input spelling, and a text
   spells at most one valid type: C13) *)
Lemma canonical_inj_tuple_free t t' :
  valid_type t = true -> valid_type t' = true -> tuple_free_ty t = true -> tuple_free_ty t' = true ->
  canonical t = canonical t' -> t = t'.
Proof.
  intros V V' F F' E. apply (spelling_unique t t' (canonical t) []); auto.
  - apply spelling_canonical_tuple_free; exact F.
  - rewrite E. apply spelling_canonical_tuple_free; exact F'.
Qed.

Definition item_ok (x : bytes) : Prop := no_byte ch_comma x /\ x <> [].

Lemma sepby_two (x y : bytes) r : sepby [ch_comma] (x :: y :: r) = x ++ ch_comma :: sepby [ch_comma] (y :: r).
Proof. reflexivity. Qed.

Lemma sepby_inj l1 : forall l2, Forall item_ok l1 -> Forall item_ok l2 ->
  sepby [ch_comma] l1 = sepby [ch_comma] l2 -> l1 = l2.
Proof.
  induction l1 as [|x l1 IH]; intros l2 H1 H2 E.
  - destruct l2 as [|x' [|y' r']]; [reflexivity| |].
    + inversion H2 as [|? ? [_ Hne] _]; subst. cbn [sepby] in E. congruence.
    + inversion H2 as [|? ? [_ Hne] _]; subst. rewrite sepby_two in E. symmetry in E.
      apply app_eq_nil in E as [E _]. contradiction.
  - inversion H1 as [|? ? [Hx Hxne] H1']; subst.
    destruct l1 as [|y r].
    + destruct l2 as [|x' [|y' r']].
      * cbn [sepby] in E. contradiction.
      * cbn [sepby] in E. subst. reflexivity.
      * rewrite sepby_two in E. change (sepby [ch_comma] [x]) with x in E. exfalso. rewrite E in Hx. exact (no_byte_not_in _ _ _ Hx).
    + destruct l2 as [|x' [|y' r']].
      * rewrite sepby_two in E. apply app_eq_nil in E as [E _]. contradiction.
      * inversion H2 as [|? ? [Hx' _] _]; subst. rewrite sepby_two in E. change (sepby [ch_comma] [x']) with x' in E.
        exfalso. rewrite <- E in Hx'. exact (no_byte_not_in _ _ _ Hx').
      * inversion H2 as [|? ? [Hx' _] H2']; subst. rewrite !sepby_two in E.
        destruct (split_unique _ _ _ _ _ Hx Hx' E) as [-> E']. f_equal. apply IH; assumption.
Qed.

Definition plain_type (t : ty) : Prop := valid_type t = true /\ tuple_free_ty t = true.

Lemma map_canonical_inj ts1 : forall ts2, Forall plain_type ts1 -> Forall plain_type ts2 ->
  map canonical ts1 = map canonical ts2 -> ts1 = ts2.
Proof.
  induction ts1 as [|t r IH]; intros [|t' r'] H1 H2 E; try discriminate; [reflexivity|].
  cbn [map] in E. injection E as Et Er.
  inversion H1 as [|? ? [V F] H1']; subst. inversion H2 as [|? ? [V' F'] H2']; subst.
  f_equal; [apply canonical_inj_tuple_free; assumption|apply IH; assumption].
Qed.

Lemma items_ok ts : Forall plain_type ts -> Forall item_ok (map canonical ts).
Proof.
  induction 1 as [|t r [V F] Hr IH]; cbn [map]; constructor; [|exact IH].
  split; [apply canonical_no_comma; exact F|apply canonical_nonempty].
Qed.

(* C12_signature_injective_plain: names without '(' and valid tuple-free parameter types *)
Theorem signature_spec_inj_plain n1 n2 ts1 ts2 :
  no_byte ch_lparen n1 -> no_byte ch_lparen n2 ->
  Forall plain_type ts1 -> Forall plain_type ts2 ->
  signature_spec n1 ts1 = signature_spec n2 ts2 -> n1 = n2 /\ ts1 = ts2.
Proof.
  intros Hn1 Hn2 H1 H2 E. unfold signature_spec in E.
  change (T "(") with [ch_lparen] in E. change (T ",") with [ch_comma] in E. cbn [app] in E.
  destruct (split_unique _ _ _ _ _ Hn1 Hn2 E) as [-> E']. split; [reflexivity|].
  apply app_inv_tail in E'. apply map_canonical_inj; try assumption.
  apply sepby_inj; [apply items_ok; assumption|apply items_ok; assumption|exact E'].
Qed.

(* ---------- at the level of the entry model ---------- *)
From FFS Require Import Abi.ModelTypes Abi.EntryModel Abi.EntryProofs.

(* Two entries that differ in (name, parameter types) and nevertheless have the same selector, or the
   same event topic, exhibit a collision of the hash (on its first four bytes / on the whole digest)
   between two DIFFERENT signature strings: nothing but the hash stands between "distinct entries" and
   "distinct selectors". *)
Theorem distinct_entries_collide (H : bytes -> bytes) :
  (forall m, length (H m) = 32%nat) ->
  forall (e1 e2 : entry) (cs1 cs2 : list tcomp),
    tree_children (e_inputs e1) = Ok cs1 -> all_suffix_canonical cs1 ->
    tree_children (e_inputs e2) = Ok cs2 -> all_suffix_canonical cs2 ->
    no_byte ch_lparen (e_name e1) -> no_byte ch_lparen (e_name e2) ->
    Forall plain_type (map ty_of cs1) -> Forall plain_type (map ty_of cs2) ->
    (e_name e1, map ty_of cs1) <> (e_name e2, map ty_of cs2) ->
    let s1 := signature_spec (e_name e1) (map ty_of cs1) in
    let s2 := signature_spec (e_name e2) (map ty_of cs2) in
    Signature e1 = Ok s1 /\ Signature e2 = Ok s2 /\ s1 <> s2 /\
    (GenerateFunctionSelector H e1 = GenerateFunctionSelector H e2 -> firstn 4 (H s1) = firstn 4 (H s2)) /\
    (SignatureHashBytes H e1 = SignatureHashBytes H e2 -> H s1 = H s2).
Proof.
  intros Hlen e1 e2 cs1 cs2 Ht1 Hs1 Ht2 Hs2 Hn1 Hn2 Hp1 Hp2 Hne s1 s2.
  split; [exact (signature_canonical e1 cs1 Ht1 Hs1)|]. split; [exact (signature_canonical e2 cs2 Ht2 Hs2)|].
  split.
  { intros E. apply Hne. destruct (signature_spec_inj_plain _ _ _ _ Hn1 Hn2 Hp1 Hp2 E) as [-> ->]. reflexivity. }
  destruct (selector_is_spec H Hlen e1 cs1 Ht1 Hs1) as [A1 _]. destruct (selector_is_spec H Hlen e2 cs2 Ht2 Hs2) as [A2 _].
  destruct (topic0_is_spec H e1 cs1 Ht1 Hs1) as [_ B1]. destruct (topic0_is_spec H e2 cs2 Ht2 Hs2) as [_ B2].
  split.
  - rewrite A1, A2. intros E. injection E as E. exact E.
  - rewrite B1, B2. intros E. exact E.
Qed.
