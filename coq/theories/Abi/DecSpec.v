(* The value tree the decoder is expected to build for a spec value [v] of component [c]
   (the "returns exactly that value" of C03, including the Go representation of each leaf:
   integers as big.Int, bytes<M>/bytes/function as []byte, string as string).  Shares no code with
   DecModel.v.  Fixed-point leaves are outside the identity claim and map to [GOther]. *)
From Coq Require Import List NArith ZArith Bool.
From Coq Require Import Init.Byte.
From FFS Require Import Base.Bytes Abi.Types Abi.Spec Abi.ModelTypes.
Import ListNotations.

Fixpoint cv_of (c : tcomp) (v : val) {struct v} : cval :=
  match c, v with
  | TCElem e _ _ _ _, VNum z =>
      match e with
      | EInt | EUInt | EAddress | EBool => CV (Some c) [] (GBigInt z)
      | _ => CV (Some c) [] GOther
      end
  | TCElem e _ _ _ _, VBytes b =>
      match e with
      | EBytes | EFunction => CV (Some c) [] (GBytes b)
      | EString => CV (Some c) [] (GString b)
      | _ => CV (Some c) [] GOther
      end
  | TCFixedArr _ ch _, VList vs | TCDynArr ch _, VList vs => CV (Some c) (map (cv_of ch) vs) GNil
  | TCTuple cs _, VList vs =>
      CV (Some c) ((fix go (cs : list tcomp) (vs : list val) {struct vs} : list cval :=
                      match cs, vs with
                      | c' :: cs', v' :: vs' => cv_of c' v' :: go cs' vs'
                      | _, _ => []
                      end) cs vs) GNil
  | _, _ => CVNil
  end.
