(* Proofs about the encoder model, part 2: the three passes of encodeABIChildren produce the
   head/tail layout of the specification. *)
From Coq Require Import List NArith ZArith Bool Arith Lia.
From Coq Require Import ZifyNat ZifyN ZifyBool.
From Coq Require Import Init.Byte.
From FFS Require Import Base.Res Base.Bytes Abi.Types Abi.Spec Abi.ModelTypes Abi.EncModel Abi.EncProofs.
Import ListNotations.

(* (data, dynamic) pairs of the model vs (dynamic, data) items of the specification *)
Definition sw (cs : list (bytes * bool)) : list (bool * bytes) := map (fun c => (snd c, fst c)) cs.

Fixpoint hl (cs : list (bytes * bool)) : nat :=
  match cs with [] => 0 | (d, true) :: r => 32 + hl r | (d, false) :: r => length d + hl r end.
Fixpoint tl (cs : list (bytes * bool)) : nat :=
  match cs with [] => 0 | (d, true) :: r => length d + tl r | (d, false) :: r => tl r end.

Lemma pass2_spec cs h t d :
  pass2 cs h t d = ((h + hl cs)%nat, (t + tl cs)%nat, d || existsb snd cs).
Proof.
  revert h t d. induction cs as [|[x [|]] r IH]; intros h t d; cbn [pass2 hl tl existsb snd].
  - rewrite !Nat.add_0_r, orb_false_r. reflexivity.
  - rewrite IH. rewrite orb_true_r. cbn [orb]. repeat (f_equal; try lia).
  - rewrite IH. repeat (f_equal; try lia).
Qed.

Lemma head_len_fold items a :
  fold_left (fun (a : Z) (it : bool * bytes) => (a + (if fst it then 32 else blen (snd it)))%Z) items a
  = (a + head_len items)%Z.
Proof.
  unfold head_len. revert a. induction items as [|it r IH]; intros a; cbn [fold_left]; [lia|].
  rewrite IH, (IH (0 + _)%Z). lia.
Qed.

Lemma head_len_cons it r :
  head_len (it :: r) = ((if fst it then 32 else blen (snd it)) + head_len r)%Z.
Proof.
  unfold head_len at 1. cbn [fold_left]. rewrite head_len_fold. lia.
Qed.

Lemma head_len_sw cs : head_len (sw cs) = Z.of_nat (hl cs).
Proof.
  induction cs as [|[x [|]] r IH]; [reflexivity| |]; cbn [sw map]; fold (sw r);
    rewrite head_len_cons, IH; cbn [fst snd hl]; unfold blen; lia.
Qed.

Lemma tails_length cs : length (tails (sw cs)) = tl cs.
Proof.
  unfold tails. induction cs as [|[x [|]] r IH]; [reflexivity| |]; cbn [sw map flat_map fst snd tl].
  - rewrite app_length. fold (sw r). rewrite IH. reflexivity.
  - cbn [app]. fold (sw r). exact IH.
Qed.

Lemma heads_length off cs : length (heads off (sw cs)) = hl cs.
Proof.
  revert off. induction cs as [|[x [|]] r IH]; intros off; [reflexivity| |]; cbn [sw map heads fst snd hl]; fold (sw r).
  - rewrite app_length, word_length, IH. reflexivity.
  - rewrite app_length, IH. reflexivity.
Qed.

Lemma head_tail_length cs : length (head_tail (sw cs)) = (hl cs + tl cs)%nat.
Proof. unfold head_tail. rewrite app_length, heads_length, tails_length. reflexivity. Qed.

Lemma split_len {A} (l : list A) a b : length l = (a + b)%nat ->
  exists l1 l2, l = l1 ++ l2 /\ length l1 = a /\ length l2 = b.
Proof.
  intros H. exists (firstn a l), (skipn a l). split; [symmetry; apply firstn_skipn|].
  split; [rewrite firstn_length; lia|rewrite skipn_length; lia].
Qed.

(* pass 3 on a block seen as  A ++ Zh ++ B ++ Zt : the heads go over Zh, the tails over Zt *)
Lemma pass3_spec cs : forall (A Zh B Zt : bytes),
  length Zh = hl cs -> length Zt = tl cs ->
  len_ok (length (A ++ Zh ++ B ++ Zt)) ->
  pass3 cs (A ++ Zh ++ B ++ Zt) (length A) (length A + length Zh + length B)
  = Ok (A ++ heads (Z.of_nat (length A + length Zh + length B)) (sw cs) ++ B ++ tails (sw cs)).
Proof.
  induction cs as [|[d [|]] r IH]; intros A Zh B Zt HZh HZt HL; cbn [pass3 hl tl] in *.
  - destruct Zh; [|discriminate]. destruct Zt; [|discriminate]. reflexivity.
  - (* dynamic child: offset word in the head, data in the tail *)
    destruct (split_len Zh 32 (hl r) HZh) as (Zh1 & Zh2 & -> & H1 & H2).
    destruct (split_len Zt (length d) (tl r) HZt) as (Zt1 & Zt2 & -> & H3 & H4).
    set (to := (length A + length (Zh1 ++ Zh2) + length B)%nat).
    assert (Hto : (0 <= Z.of_nat to < two 256)%Z).
    { unfold len_ok in HL. rewrite !app_length in HL. unfold to. rewrite app_length. lia. }
    rewrite <- (app_assoc Zh1 Zh2). rewrite (fill_at_app A Zh1 _ (Z.of_nat to) H1 Hto). cbn [bind].
    (* regroup so that the tail area starts at [to] *)
    replace (A ++ word (Z.of_nat to) ++ Zh2 ++ B ++ Zt1 ++ Zt2)
      with ((A ++ word (Z.of_nat to) ++ Zh2 ++ B) ++ Zt1 ++ Zt2) by (rewrite <- !app_assoc; reflexivity).
    assert (Hlen : length (A ++ word (Z.of_nat to) ++ Zh2 ++ B) = to).
    { rewrite !app_length, word_length. unfold to. rewrite app_length. lia. }
    rewrite <- Hlen at 2. rewrite (copy_at_app _ Zt1 Zt2 d H3). cbn [bind].
    (* induction hypothesis with A' = A ++ word, B' = B ++ d *)
    replace ((A ++ word (Z.of_nat to) ++ Zh2 ++ B) ++ d ++ Zt2)
      with ((A ++ word (Z.of_nat to)) ++ Zh2 ++ (B ++ d) ++ Zt2) by (rewrite <- !app_assoc; reflexivity).
    replace (length A + 32)%nat with (length (A ++ word (Z.of_nat to))) by (rewrite app_length, word_length; reflexivity).
    replace (to + length d)%nat with (length (A ++ word (Z.of_nat to)) + length Zh2 + length (B ++ d))%nat
      by (rewrite !app_length, word_length; unfold to; rewrite app_length; lia).
    rewrite IH; [|exact H2|exact H4|].
    + cbn [sw map heads tails flat_map fst snd]. fold (sw r). fold (tails (sw r)).
      rewrite !app_length, word_length. unfold blen.
      replace (Z.of_nat (length A + 32 + length Zh2 + (length B + length d)))
        with (Z.of_nat to + Z.of_nat (length d))%Z by (unfold to; rewrite app_length; lia).
      rewrite <- !app_assoc. reflexivity.
    + unfold len_ok in *. rewrite !app_length in *. rewrite word_length. lia.
  - (* static child: data in the head *)
    destruct (split_len Zh (length d) (hl r) HZh) as (Zh1 & Zh2 & -> & H1 & H2).
    rewrite <- (app_assoc Zh1 Zh2). rewrite (copy_at_app A Zh1 _ d H1). cbn [bind].
    replace (A ++ d ++ Zh2 ++ B ++ Zt) with ((A ++ d) ++ Zh2 ++ B ++ Zt) by (rewrite <- !app_assoc; reflexivity).
    replace (length A + length d)%nat with (length (A ++ d)) by (rewrite app_length; reflexivity).
    replace (length A + length (Zh1 ++ Zh2) + length B)%nat with (length (A ++ d) + length Zh2 + length B)%nat
      by (rewrite !app_length; lia).
    rewrite IH; [|exact H2|exact HZt|].
    + cbn [sw map heads tails flat_map fst snd app]. fold (sw r). fold (tails (sw r)).
      rewrite <- !app_assoc. reflexivity.
    + unfold len_ok in *. rewrite !app_length in *. lia.
Qed.

(* encodeABIChildren once pass 1 has succeeded *)
Lemma children_layout {A} (f : A -> res (bytes * bool)) (children : list A) cs known includeLen :
  pass1 f children = Ok cs ->
  len_ok (32 + hl cs + tl cs) -> len_ok (length children) ->
  encodeABIChildren f children known includeLen
  = Ok ((if includeLen then word (Z.of_nat (length children)) else []) ++ head_tail (sw cs),
        known || existsb snd cs).
Proof.
  intros P1 HL HC. unfold encodeABIChildren. rewrite P1. cbn [bind].
  rewrite pass2_spec. cbn [Nat.add].
  assert (P3 : pass3 cs (make (hl cs + tl cs)) 0 (hl cs) = Ok (head_tail (sw cs))).
  { pose proof (pass3_spec cs [] (make (hl cs)) [] (make (tl cs)) (make_length _) (make_length _)) as H.
    cbn [app length Nat.add] in H. rewrite make_length, Nat.add_0_r in H.
    rewrite make_app. rewrite H.
    - unfold head_tail. rewrite head_len_sw. reflexivity.
    - unfold len_ok in *. rewrite app_length, !make_length. lia. }
  destruct includeLen.
  - rewrite <- Nat.add_assoc. rewrite fill_make_prefix; [|lia|unfold len_ok in HC; lia]. cbn [bind].
    replace (32 + (hl cs + tl cs) - 32)%nat with (hl cs + tl cs)%nat by lia.
    unfold slice. rewrite app_length, word_length, make_length.
    replace ((32 <=? 32 + (hl cs + tl cs))%nat && (32 + (hl cs + tl cs) <=? 32 + (hl cs + tl cs))%nat) with true
      by (symmetry; apply andb_true_intro; split; apply Nat.leb_le; lia).
    cbn [bind]. replace (32 + (hl cs + tl cs) - 32)%nat with (hl cs + tl cs)%nat by lia.
    rewrite skipn_app, word_length. rewrite (skipn_all2 (word _)) by (rewrite word_length; lia).
    replace (32 - 32)%nat with 0%nat by reflexivity. cbn [skipn app].
    rewrite firstn_all2 by (rewrite make_length; lia). rewrite P3. cbn [bind].
    rewrite firstn_app, word_length. rewrite (firstn_all2 (word _)) by (rewrite word_length; lia).
    replace (32 - 32)%nat with 0%nat by reflexivity. cbn [firstn]. rewrite app_nil_r. reflexivity.
  - cbn [Nat.add]. rewrite P3. reflexivity.
Qed.

Lemma pass1_map {A} (f : A -> res (bytes * bool)) (g : A -> bytes * bool) l :
  Forall (fun y => f y = Ok (g y)) l -> pass1 f l = Ok (map g l).
Proof.
  induction 1 as [|y r Hy _ IH]; [reflexivity|]. cbn [pass1 map]. rewrite Hy. cbn [bind]. rewrite IH. reflexivity.
Qed.

(* an error or panic of a child is the result of the parent (pass 1 stops at the first one) *)
Lemma pass1_ok_all {A} (f : A -> res (bytes * bool)) l cs :
  pass1 f l = Ok cs -> Forall2 (fun y c => f y = Ok c) l cs.
Proof.
  revert cs. induction l as [|y r IH]; intros cs H; cbn [pass1] in H.
  - injection H as <-. constructor.
  - destruct (f y) eqn:E; cbn [bind] in H; try discriminate.
    destruct (pass1 f r) eqn:E2; cbn [bind] in H; try discriminate. injection H as <-.
    constructor; [exact E|]. apply IH. reflexivity.
Qed.

Lemma children_ok_inv {A} (f : A -> res (bytes * bool)) l known includeLen r :
  encodeABIChildren f l known includeLen = Ok r -> exists cs, pass1 f l = Ok cs.
Proof.
  unfold encodeABIChildren. destruct (pass1 f l); cbn [bind]; try discriminate. eauto.
Qed.
