(* Reading back the text renderings of Render.v: decimal and hexadecimal integers, hex of bytes,
   the EIP-55 form. *)
From Coq Require Import List NArith ZArith Bool Lia Arith Decimal Hexadecimal DecimalN HexadecimalN DecimalPos HexadecimalPos.
From Coq Require Import ZifyN ZifyNat ZifyBool.
From Coq Require Import Init.Byte.
From FFS Require Import Base.Bytes Abi.Render.
Import ListNotations.

(* ---------- decimal ---------- *)
Lemma bytes_uint_uint_bytes d : bytes_uint (uint_bytes d) = Some d.
Proof. induction d; cbn [uint_bytes bytes_uint]; try reflexivity; rewrite IHd; reflexivity. Qed.

Lemma uint_bytes_nonnil d : d <> Decimal.Nil -> uint_bytes d <> [].
Proof. destruct d; cbn [uint_bytes]; intros H; try discriminate. congruence. Qed.

Lemma uint_bytes_not_minus d r : uint_bytes d <> x2d :: r.
Proof. destruct d; cbn [uint_bytes]; discriminate. Qed.

Lemma N_to_uint_nonnil n : N.to_uint n <> Decimal.Nil.
Proof. destruct n; simpl; [discriminate|]. apply DecimalPos.Unsigned.to_uint_nonnil. Qed.

Lemma parse_N_dec_N_dec n : parse_N_dec (N_dec n) = Some n.
Proof.
  unfold parse_N_dec, N_dec. pose proof (uint_bytes_nonnil _ (N_to_uint_nonnil n)) as Hn.
  destruct (uint_bytes (N.to_uint n)) eqn:E; [congruence|]. rewrite <- E.
  rewrite bytes_uint_uint_bytes, DecimalN.Unsigned.of_to. reflexivity.
Qed.

Lemma parse_Z_dec_Z_dec z : parse_Z_dec (Z_dec z) = Some z.
Proof.
  unfold Z_dec. destruct (Z.ltb_spec z 0) as [Hn|Hp].
  - cbn [parse_Z_dec]. rewrite parse_N_dec_N_dec. f_equal. lia.
  - unfold parse_Z_dec. pose proof (parse_N_dec_N_dec (Z.abs_N z)) as P.
    unfold N_dec in *. destruct (uint_bytes (N.to_uint (Z.abs_N z))) as [|c r] eqn:E.
    + discriminate P.
    + destruct c; try (rewrite P; f_equal; lia).
      exfalso. exact (uint_bytes_not_minus _ _ E).
Qed.

(* ---------- hexadecimal ---------- *)
Lemma bytes_hex_uint_hex_uint_bytes d : bytes_hex_uint (hex_uint_bytes d) = Some d.
Proof. induction d; cbn [hex_uint_bytes bytes_hex_uint]; try reflexivity; rewrite IHd; reflexivity. Qed.

Lemma hex_uint_bytes_nonnil d : d <> Hexadecimal.Nil -> hex_uint_bytes d <> [].
Proof. destruct d; cbn [hex_uint_bytes]; intros H; try discriminate. congruence. Qed.

Lemma N_to_hex_uint_nonnil n : N.to_hex_uint n <> Hexadecimal.Nil.
Proof. destruct n; simpl; [discriminate|]. apply HexadecimalPos.Unsigned.to_uint_nonnil. Qed.

Lemma parse_N_hex_N_hex n : parse_N_hex (N_hex n) = Some n.
Proof.
  unfold parse_N_hex, N_hex. pose proof (hex_uint_bytes_nonnil _ (N_to_hex_uint_nonnil n)) as Hn.
  destruct (hex_uint_bytes (N.to_hex_uint n)) eqn:E; [congruence|]. rewrite <- E.
  rewrite bytes_hex_uint_hex_uint_bytes, HexadecimalN.Unsigned.of_to. reflexivity.
Qed.

Lemma parse_Z_0xhex_render z :
  parse_Z_0xhex ((if (z <? 0)%Z then [x2d] else []) ++ x30 :: x78 :: N_hex (Z.abs_N z)) = Some z.
Proof.
  destruct (Z.ltb_spec z 0) as [Hn|Hp]; cbn [List.app]; unfold parse_Z_0xhex; cbv beta iota; rewrite parse_N_hex_N_hex; f_equal; lia.
Qed.

(* ---------- hex of byte strings ---------- *)
Lemma hex_val_hex_digit n : (n < 16)%N -> hex_val (hex_digit n) = Some n.
Proof.
  intros H. assert (C : (n = 0 \/ n = 1 \/ n = 2 \/ n = 3 \/ n = 4 \/ n = 5 \/ n = 6 \/ n = 7 \/ n = 8 \/ n = 9 \/
                       n = 10 \/ n = 11 \/ n = 12 \/ n = 13 \/ n = 14 \/ n = 15)%N) by lia.
  repeat (destruct C as [->|C]; [reflexivity|]). subst; reflexivity.
Qed.

Lemma bytes_of_hex_hex_of_bytes b : bytes_of_hex (hex_of_bytes b) = Some b.
Proof.
  induction b as [|c r IH]; [reflexivity|]. cbn [hex_of_bytes bytes_of_hex].
  pose proof (b2n_lt c) as Hc.
  rewrite !hex_val_hex_digit by (try apply N.mod_lt; try apply N.div_lt_upper_bound; lia).
  rewrite IH. f_equal. f_equal. rewrite (N.mul_comm _ 16), <- N.div_mod by lia. apply n2b_b2n.
Qed.

Lemma hex_of_bytes_length b : length (hex_of_bytes b) = (2 * length b)%nat.
Proof. induction b as [|c r IH]; [reflexivity|]. cbn [hex_of_bytes length]. rewrite IH. lia. Qed.
