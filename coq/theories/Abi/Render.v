(* Text renderings used by the JSON output serializer and their readers: decimal and hexadecimal
   integers (big.Int.String / Text(16), strconv.FormatInt), hex and base64 of byte strings
   (encoding/hex, encoding/base64 StdEncoding), the EIP-55 mixed-case address form.  These are the
   standard formats written directly (library behaviour, not firefly-signer code); the serializer
   model (SerModel.v) selects among them, the denotation oracle (SerSpec.v) reads them back. *)
From Coq Require Import List NArith ZArith Bool Decimal Hexadecimal.
From Coq Require Import Init.Byte.
From FFS Require Import Base.Bytes.
Import ListNotations.

(* ---------- decimal ---------- *)
Fixpoint uint_bytes (d : Decimal.uint) : bytes :=
  match d with
  | Decimal.Nil => []
  | Decimal.D0 r => x30 :: uint_bytes r | Decimal.D1 r => x31 :: uint_bytes r
  | Decimal.D2 r => x32 :: uint_bytes r | Decimal.D3 r => x33 :: uint_bytes r
  | Decimal.D4 r => x34 :: uint_bytes r | Decimal.D5 r => x35 :: uint_bytes r
  | Decimal.D6 r => x36 :: uint_bytes r | Decimal.D7 r => x37 :: uint_bytes r
  | Decimal.D8 r => x38 :: uint_bytes r | Decimal.D9 r => x39 :: uint_bytes r
  end.

Fixpoint bytes_uint (b : bytes) : option Decimal.uint :=
  match b with
  | [] => Some Decimal.Nil
  | c :: r =>
      match bytes_uint r with
      | None => None
      | Some d =>
          match c with
          | x30 => Some (Decimal.D0 d) | x31 => Some (Decimal.D1 d) | x32 => Some (Decimal.D2 d)
          | x33 => Some (Decimal.D3 d) | x34 => Some (Decimal.D4 d) | x35 => Some (Decimal.D5 d)
          | x36 => Some (Decimal.D6 d) | x37 => Some (Decimal.D7 d) | x38 => Some (Decimal.D8 d)
          | x39 => Some (Decimal.D9 d)
          | _ => None
          end
      end
  end.

Definition N_dec (n : N) : bytes := uint_bytes (N.to_uint n).
Definition Z_dec (z : Z) : bytes :=
  if (z <? 0)%Z then x2d :: N_dec (Z.abs_N z) else N_dec (Z.abs_N z).

(* a non-empty digit string *)
Definition parse_N_dec (b : bytes) : option N :=
  match b with
  | [] => None
  | _ => match bytes_uint b with Some d => Some (N.of_uint d) | None => None end
  end.
(* optional '-' then digits *)
Definition parse_Z_dec (b : bytes) : option Z :=
  match b with
  | x2d :: r => match parse_N_dec r with Some n => Some (- Z.of_N n)%Z | None => None end
  | _ => match parse_N_dec b with Some n => Some (Z.of_N n) | None => None end
  end.

(* ---------- hexadecimal ---------- *)
Fixpoint hex_uint_bytes (d : Hexadecimal.uint) : bytes :=
  match d with
  | Hexadecimal.Nil => []
  | Hexadecimal.D0 r => x30 :: hex_uint_bytes r | Hexadecimal.D1 r => x31 :: hex_uint_bytes r
  | Hexadecimal.D2 r => x32 :: hex_uint_bytes r | Hexadecimal.D3 r => x33 :: hex_uint_bytes r
  | Hexadecimal.D4 r => x34 :: hex_uint_bytes r | Hexadecimal.D5 r => x35 :: hex_uint_bytes r
  | Hexadecimal.D6 r => x36 :: hex_uint_bytes r | Hexadecimal.D7 r => x37 :: hex_uint_bytes r
  | Hexadecimal.D8 r => x38 :: hex_uint_bytes r | Hexadecimal.D9 r => x39 :: hex_uint_bytes r
  | Hexadecimal.Da r => x61 :: hex_uint_bytes r | Hexadecimal.Db r => x62 :: hex_uint_bytes r
  | Hexadecimal.Dc r => x63 :: hex_uint_bytes r | Hexadecimal.Dd r => x64 :: hex_uint_bytes r
  | Hexadecimal.De r => x65 :: hex_uint_bytes r | Hexadecimal.Df r => x66 :: hex_uint_bytes r
  end.

(* reader: both letter cases *)
Fixpoint bytes_hex_uint (b : bytes) : option Hexadecimal.uint :=
  match b with
  | [] => Some Hexadecimal.Nil
  | c :: r =>
      match bytes_hex_uint r with
      | None => None
      | Some d =>
          match c with
          | x30 => Some (Hexadecimal.D0 d) | x31 => Some (Hexadecimal.D1 d) | x32 => Some (Hexadecimal.D2 d)
          | x33 => Some (Hexadecimal.D3 d) | x34 => Some (Hexadecimal.D4 d) | x35 => Some (Hexadecimal.D5 d)
          | x36 => Some (Hexadecimal.D6 d) | x37 => Some (Hexadecimal.D7 d) | x38 => Some (Hexadecimal.D8 d)
          | x39 => Some (Hexadecimal.D9 d)
          | x61 | x41 => Some (Hexadecimal.Da d) | x62 | x42 => Some (Hexadecimal.Db d)
          | x63 | x43 => Some (Hexadecimal.Dc d) | x64 | x44 => Some (Hexadecimal.Dd d)
          | x65 | x45 => Some (Hexadecimal.De d) | x66 | x46 => Some (Hexadecimal.Df d)
          | _ => None
          end
      end
  end.

Definition N_hex (n : N) : bytes := hex_uint_bytes (N.to_hex_uint n).

Definition parse_N_hex (b : bytes) : option N :=
  match b with
  | [] => None
  | _ => match bytes_hex_uint b with Some d => Some (N.of_hex_uint d) | None => None end
  end.
(* optional '-', then "0x", then digits *)
Definition parse_Z_0xhex (b : bytes) : option Z :=
  match b with
  | x2d :: x30 :: x78 :: r => match parse_N_hex r with Some n => Some (- Z.of_N n)%Z | None => None end
  | x30 :: x78 :: r => match parse_N_hex r with Some n => Some (Z.of_N n) | None => None end
  | _ => None
  end.

(* ---------- hex of byte strings (encoding/hex, lower case) ---------- *)
Definition hex_digit (n : N) : byte := n2b (if (n <? 10)%N then 48 + n else 87 + n)%N.
Fixpoint hex_of_bytes (b : bytes) : bytes :=
  match b with
  | [] => []
  | c :: r => hex_digit (b2n c / 16) :: hex_digit (b2n c mod 16) :: hex_of_bytes r
  end.

Definition hex_val (c : byte) : option N :=
  let n := b2n c in
  if (48 <=? n)%N && (n <=? 57)%N then Some (n - 48)%N
  else if (97 <=? n)%N && (n <=? 102)%N then Some (n - 87)%N
  else if (65 <=? n)%N && (n <=? 70)%N then Some (n - 55)%N
  else None.
Fixpoint bytes_of_hex (h : bytes) : option bytes :=
  match h with
  | [] => Some []
  | a :: b :: r =>
      match hex_val a, hex_val b, bytes_of_hex r with
      | Some x, Some y, Some t => Some (n2b (x * 16 + y) :: t)
      | _, _, _ => None
      end
  | _ => None
  end.

(* ---------- base64, standard alphabet with padding ---------- *)
Definition b64_char (n : N) : byte :=
  n2b (if (n <? 26)%N then 65 + n
       else if (n <? 52)%N then 97 + (n - 26)
       else if (n <? 62)%N then 48 + (n - 52)
       else if (n =? 62)%N then 43 else 47)%N.
Fixpoint base64_go (fuel : nat) (b : bytes) : bytes :=
  match fuel with
  | O => []
  | S f =>
      match b with
      | [] => []
      | [a] =>
          let x := b2n a in
          [b64_char (x / 4); b64_char ((x mod 4) * 16); x3d; x3d]
      | [a; c] =>
          let x := b2n a in let y := b2n c in
          [b64_char (x / 4); b64_char ((x mod 4) * 16 + y / 16); b64_char ((y mod 16) * 4); x3d]
      | a :: c :: d :: r =>
          let x := b2n a in let y := b2n c in let z := b2n d in
          b64_char (x / 4) :: b64_char ((x mod 4) * 16 + y / 16)
            :: b64_char ((y mod 16) * 4 + z / 64) :: b64_char (z mod 64) :: base64_go f r
      end
  end%N.
Definition base64 (b : bytes) : bytes := base64_go (S (length b)) b.

(* ---------- EIP-55: upper-case the hex letters whose digest nibble is >= 8; [H] is Keccak-256 ---------- *)
Definition to_upper (c : byte) : byte :=
  let n := b2n c in if (97 <=? n)%N && (n <=? 122)%N then n2b (n - 32) else c.
Definition to_lower (c : byte) : byte :=
  let n := b2n c in if (65 <=? n)%N && (n <=? 90)%N then n2b (n + 32) else c.

Fixpoint eip55_go (hexaddr hexhash : bytes) : bytes :=
  match hexaddr, hexhash with
  | a :: ar, h :: hr =>
      (match hex_val h with
       | Some d => if (8 <=? d)%N then to_upper a else to_lower a
       | None => to_lower a
       end) :: eip55_go ar hr
  | _, _ => []
  end.
Definition eip55 (H : bytes -> bytes) (addr : bytes) : bytes :=
  let hexaddr := hex_of_bytes addr in
  let hexhash := hex_of_bytes (H hexaddr) in
  x30 :: x78 :: eip55_go hexaddr (firstn 40 hexhash).
