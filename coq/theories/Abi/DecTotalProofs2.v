(* C11, second part: every tree the decoder returns can be serialised (Abi/SerModel.v walkOutput
   never panics on it, for every formatting mode and every built-in value serializer).

   [ser_ok x]: every node of x carries a component, and every elementary node holds the Go value
   type its component's serializer asserts (with an address below 2^160, which is what keeps
   big.Int.FillBytes(addr[:]) from panicking). *)
From Coq Require Import List NArith ZArith Bool Lia ZifyBool ZifyN ZifyNat.
From Coq Require Import Init.Byte.
From FFS Require Import Base.Res Base.Bytes Abi.Types Abi.Spec Abi.ModelTypes Abi.DecModel Abi.SerModel.
From FFS Require Import Abi.DecProofs.
From FFS Require Rlp.Model Rlp.Proofs.
Import ListNotations.
Local Open Scope Z_scope.

Definition elem_val_ok (e : ekind) (v : gval) : bool :=
  match e, v with
  | (EInt | EUInt | EBool), GBigInt _ => true
  | EAddress, GBigInt i => Z.abs i <? 2 ^ 160
  | (EFixed | EUFixed), GBigFloat _ => true
  | (EBytes | EFunction), GBytes _ => true
  | EString, GString _ => true
  | _, _ => false
  end.

Fixpoint ser_ok (x : cval) : bool :=
  match x with
  | CVNil => false
  | CV None _ _ => false
  | CV (Some c) l v =>
      match c with
      | TCElem e _ _ _ _ => elem_val_ok e v
      | _ => forallb ser_ok l
      end
  end.

(* ------------------------------------------------------------------------------------------------
   the serializer does not panic on such trees
   ------------------------------------------------------------------------------------------------ *)
Section Ser.
  Variable H : bytes -> bytes.
  Variable fs : bfloat -> jv.
  Variable dn : nat -> bytes.
  Variable s : serializer.

  Lemma serializeElementaryType_total e v : elem_val_ok e v = true -> serializeElementaryType H fs s e v <> Panic.
  Proof.
    destruct e, v; cbn [elem_val_ok serializeElementaryType]; try discriminate; intros Hv.
    replace (2 ^ 160 <=? Z.abs z) with false by lia. destruct (ad s); discriminate.
  Qed.

  Lemma walkOutput_total x : ser_ok x = true -> walkOutput H fs dn s x <> Panic.
  Proof.
    induction x as [|c l v IH] using cval_ind'; [discriminate|].
    destruct c as [c|]; [|discriminate]. cbn [ser_ok].
    assert (Harr : forallb ser_ok l = true ->
              (fix go (l : list cval) : res (list jv) :=
                 match l with
                 | [] => Ok []
                 | y :: r => do v <- walkOutput H fs dn s y; do vs <- go r; Ok (v :: vs)
                 end) l <> Panic).
    { clear c v. induction IH as [|y r Hy Hr IHr]; [discriminate|].
      cbn [forallb]. intros Hf. apply andb_true_iff in Hf as [H1 H2].
      specialize (Hy H1). specialize (IHr H2).
      destruct (walkOutput H fs dn s y); cbn [bind]; try congruence.
      match goal with |- (do vs <- ?G; _) <> _ => destruct G end; cbn [bind]; congruence. }
    destruct c as [e sf m n k|len ch k|ch k|cs k]; cbn [walkOutput].
    - apply serializeElementaryType_total.
    - intros Hf. specialize (Harr Hf). match goal with |- (do l0 <- ?G; _) <> _ => destruct G end; cbn [bind]; congruence.
    - intros Hf. specialize (Harr Hf). match goal with |- (do l0 <- ?G; _) <> _ => destruct G end; cbn [bind]; congruence.
    - intros Hf. destruct (ts s).
      + (* objects *)
        assert (G : forall i out,
                 (fix go (i : nat) (l : list cval) (out : list (bytes * jv)) : res (list (bytes * jv)) :=
                    match l with
                    | [] => Ok out
                    | CVNil :: _ => Panic
                    | CV None _ _ :: r => go (S i) r out
                    | (CV (Some cc) _ _ as y) :: r =>
                        let name := match tc_key cc with [] => dn i | k => k end in
                        do v <- walkOutput H fs dn s y;
                        go (S i) r (map_set name v out)
                    end) i l out <> Panic).
        { clear Harr. induction IH as [|y r Hy Hr IHr]; intros i out; [discriminate|].
          cbn [forallb] in Hf. apply andb_true_iff in Hf as [H1 H2].
          destruct y as [|[cc|] yl yv]; try discriminate.
          specialize (Hy H1). destruct (walkOutput H fs dn s (CV (Some cc) yl yv)); cbn [bind]; try congruence.
          apply IHr; auto. }
        specialize (G O []). match goal with |- (do m0 <- ?G0; _) <> _ => destruct G0 end; cbn [bind]; congruence.
      + specialize (Harr Hf). match goal with |- (do l0 <- ?G; _) <> _ => destruct G end; cbn [bind]; congruence.
      + assert (G : forall i,
                 (fix go (i : nat) (l : list cval) : res (list jv) :=
                    match l with
                    | [] => Ok []
                    | CVNil :: _ => Panic
                    | CV None _ _ :: _ => Err EBadABITypeComponent
                    | (CV (Some cc) _ _ as y) :: r =>
                        let name := match tc_key cc with [] => dn i | k => k end in
                        do v <- walkOutput H fs dn s y;
                        do vs <- go (S i) r;
                        Ok (JObj [(s_name, JStr name); (s_type, JStr (tc_string cc)); (s_value, v)] :: vs)
                    end) i l <> Panic).
        { clear Harr. induction IH as [|y r Hy Hr IHr]; intros i; [discriminate|].
          cbn [forallb] in Hf. apply andb_true_iff in Hf as [H1 H2].
          destruct y as [|[cc|] yl yv]; try discriminate.
          specialize (Hy H1). destruct (walkOutput H fs dn s (CV (Some cc) yl yv)); cbn [bind]; try congruence.
          specialize (IHr H2 (S i)).
          match goal with |- (do vs <- ?G0; _) <> _ => destruct G0 end; cbn [bind]; congruence. }
        specialize (G O). match goal with |- (do l0 <- ?G0; _) <> _ => destruct G0 end; cbn [bind]; congruence.
      + discriminate.
  Qed.
End Ser.

(* ------------------------------------------------------------------------------------------------
   decoded trees are [ser_ok]
   ------------------------------------------------------------------------------------------------ *)
Fixpoint ser_valid (c : tcomp) : bool :=
  match c with
  | TCElem e _ m _ _ => match e with EAddress => (m <=? 160)%N | _ => true end
  | TCFixedArr _ ch _ | TCDynArr ch _ => ser_valid ch
  | TCTuple l _ => forallb ser_valid l
  end.

Lemma tc_wf_ser_valid c : tc_wf c = true -> ser_valid c = true.
Proof.
  unfold tc_wf. induction c as [e s m n k|len ch k IH|ch k IH|l k IH] using tcomp_ind'; intros H.
  - apply andb_true_iff in H as [H1 H2]. cbn [ser_valid].
    destruct e; auto. cbn [tc_consistent default_m] in H1. lia.
  - cbn [tc_consistent ty_of wf_ty ser_valid] in *. apply IH. lia.
  - cbn [tc_consistent ty_of wf_ty ser_valid] in *. apply IH, H.
  - cbn [tc_consistent ty_of wf_ty ser_valid] in *.
    apply andb_true_iff in H as [H1 H2]. rewrite forallb_forall in *.
    rewrite Forall_forall in IH. intros x Hx. apply IH; auto.
    apply andb_true_iff. split; [apply H1, Hx|]. apply H2. apply in_map, Hx.
Qed.

Lemma zslice_length b lo hi r : zslice b lo hi = Ok r -> length r = Z.to_nat (hi - lo).
Proof.
  unfold zslice. destruct ((0 <=? lo) && (lo <=? hi) && (hi <=? zlen b)) eqn:E; [|discriminate].
  intros Hr. injection Hr as <-. rewrite firstn_length, skipn_length. unfold zlen in E. lia.
Qed.

Lemma of_beZ_lt w : of_beZ w < 256 ^ Z.of_nat (length w).
Proof.
  unfold of_beZ. pose proof (Rlp.Proofs.of_be_lt w) as H.
  apply N2Z.inj_lt in H. rewrite N2Z.inj_pow in H. rewrite nat_N_Z in H. exact H.
Qed.

Lemma decode_elementary_ser_ok block e s m n k hs hp x :
  ser_valid (TCElem e s m n k) = true ->
  decode_elementary block (TCElem e s m n k) hs hp = Ok x -> ser_ok x = true.
Proof.
  intros Hv. cbn [ser_valid] in Hv. cbn [decode_elementary].
  assert (Hu : forall x, decodeABIUnsignedInt block hp m (TCElem e s m n k) = Ok x ->
                 exists z, x = CV (Some (TCElem e s m n k)) [] (GBigInt z) /\
                           (e = EAddress -> Z.abs z < 2 ^ 160)).
  { intros x0. unfold decodeABIUnsignedInt. destruct (hp + 32 >? zlen block); [discriminate|].
    destruct (zslice block (hp + (32 - Z.of_N (m / 8))) (hp + 32)) as [w| |] eqn:Ew; cbn [bind]; try discriminate.
    intros E. injection E as <-. eexists; split; [reflexivity|]. intros ->.
    apply zslice_length in Ew. pose proof (of_beZ_lt w) as Hl. assert (0 <= of_beZ w) by (unfold of_beZ; lia).
    assert ((m / 8 <= 20)%N) by (apply N.div_le_upper_bound; lia).
    assert (Z.of_nat (length w) <= 20) by lia.
    assert (256 ^ Z.of_nat (length w) <= 256 ^ 20) by (apply Z.pow_le_mono_r; lia).
    change (2 ^ 160) with (256 ^ 20). lia. }
  assert (Hs : forall x, decodeABISignedInt block hp (TCElem e s m n k) = Ok x ->
                 exists z, x = CV (Some (TCElem e s m n k)) [] (GBigInt z)).
  { intros x0. unfold decodeABISignedInt. destruct (hp + 32 >? zlen block); [discriminate|].
    destruct (zslice block hp (hp + 32)) as [w| |]; cbn [bind]; try discriminate.
    intros E. injection E as <-. eauto. }
  destruct e; cbn [decoder_of].
  - intros E. destruct (Hs _ E) as [z ->]. reflexivity.
  - intros E. destruct (Hu _ E) as [z [-> _]]. reflexivity.
  - intros E. destruct (Hu _ E) as [z [-> Hz]]. cbn [ser_ok elem_val_ok]. specialize (Hz eq_refl). lia.
  - intros E. destruct (Hu _ E) as [z [-> _]]. reflexivity.
  - unfold decodeABISignedFloat. destruct (decodeABISignedInt block hp (TCElem EFixed s m n k)) as [y| |] eqn:Ey; cbn [bind]; try discriminate.
    destruct (Hs _ eq_refl) as [z ->]. unfold intToFixed. destruct (n =? 0)%N; [discriminate|]. intros E; injection E as <-. reflexivity.
  - unfold decodeABIUnsignedFloat. destruct (decodeABIUnsignedInt block hp m (TCElem EUFixed s m n k)) as [y| |] eqn:Ey; cbn [bind]; try discriminate.
    destruct (Hu _ eq_refl) as [z [-> _]]. unfold intToFixed. destruct (n =? 0)%N; [discriminate|]. intros E; injection E as <-. reflexivity.
  - unfold decodeABIBytes. destruct (decodeABIBytes_raw block hs hp m); cbn [bind]; try discriminate. intros E; injection E as <-. reflexivity.
  - unfold decodeABIBytes. destruct (decodeABIBytes_raw block hs hp m); cbn [bind]; try discriminate. intros E; injection E as <-. reflexivity.
  - unfold decodeABIString. destruct (decodeABIBytes_raw block hs hp m); cbn [bind]; try discriminate. intros E; injection E as <-. reflexivity.
Qed.

Lemma loop_nat_forall (P : cval -> bool) f n :
  (forall pos k x, f pos = Ok (k, x) -> P x = true) ->
  forall pos rd xs, loop_nat f n pos = Ok (rd, xs) -> forallb P xs = true.
Proof.
  intros Hf. induction n as [|n IH]; intros pos rd xs; cbn [loop_nat].
  - intros E; injection E as _ <-. reflexivity.
  - destruct (f pos) as [[k x]| |] eqn:Ef; cbn [bind]; try discriminate.
    destruct (loop_nat f n (pos + k)) as [[rd' xs']| |] eqn:El; cbn [bind]; try discriminate.
    intros E; injection E as _ <-. cbn [forallb]. rewrite (Hf _ _ _ Ef), (IH _ _ _ El). reflexivity.
Qed.

Lemma loop_elems_forall (P : cval -> bool) f count pos rd xs :
  (forall pos k x, f pos = Ok (k, x) -> P x = true) ->
  loop_elems f count pos = Ok (rd, xs) -> forallb P xs = true.
Proof. intros Hf. rewrite loop_elems_nat. apply loop_nat_forall, Hf. Qed.

Section Decoded.
  Variable block : bytes.

  Lemma decoded_ser_ok c : ser_valid c = true -> forall hs hp n x,
    decodeABIElement block c hs hp = Ok (n, x) -> ser_ok x = true.
  Proof.
    induction c as [e s m n0 k|len ch k IH|ch k IH|l k IH] using tcomp_ind'; intros Hv hs hp n x.
    - cbn [decodeABIElement].
      destruct (decode_elementary block (TCElem e s m n0 k) hs hp) as [y| |] eqn:Ey; cbn [bind]; try discriminate.
      intros E; injection E as _ <-. eapply decode_elementary_ser_ok; eauto.
    - cbn [ser_valid] in Hv. cbn [decodeABIElement].
      destruct (isDynamicType (TCFixedArr len ch k)).
      + destruct (decodeABILength block hp) as [ho| |]; cbn [bind]; try discriminate.
        destruct ((len >? 0) && ((len - 1) * 32 >=? zlen block - (hs + ho))); [discriminate|].
        destruct (len <? 0); [discriminate|].
        unfold walkDynamicChildArrayABIBytes_rep.
        destruct (loop_elems (decodeABIElement block ch (hs + ho)) len (hs + ho)) as [[rd xs]| |] eqn:El; cbn [bind]; try discriminate.
        intros E; injection E as _ <-. cbn [ser_ok].
        eapply loop_elems_forall; [|exact El]. intros pos k0 y Hy. eapply IH; eauto.
      + unfold decodeABIFixedArrayBytes.
        destruct ((len >? 0) && occupiesHeadBytes ch && ((len - 1) * 32 >=? zlen block - hp)); [discriminate|].
        destruct (len <? 0); [discriminate|].
        destruct (loop_elems (decodeABIElement block ch hs) len hp) as [[rd xs]| |] eqn:El; cbn [bind]; try discriminate.
        intros E; injection E as _ <-. cbn [ser_ok].
        eapply loop_elems_forall; [|exact El]. intros pos k0 y Hy. eapply IH; eauto.
    - cbn [ser_valid] in Hv. cbn [decodeABIElement].
      destruct (decodeABILength block hp) as [ho| |]; cbn [bind]; try discriminate.
      unfold decodeABIDynamicArrayBytes.
      destruct (decodeABILength block (hs + ho)) as [al| |]; cbn [bind]; try discriminate.
      destruct ((al >? 0) && occupiesHeadBytes ch && ((al - 1) * 32 >=? zlen block - (hs + ho + 32))); [discriminate|].
      destruct (loop_elems (decodeABIElement block ch (hs + ho + 32)) al (hs + ho + 32)) as [[rd xs]| |] eqn:El; cbn [bind]; try discriminate.
      intros E; injection E as _ <-. cbn [ser_ok].
      eapply loop_elems_forall; [|exact El]. intros pos k0 y Hy. eapply IH; eauto.
    - cbn [ser_valid] in Hv. cbn [decodeABIElement].
      match goal with |- (do p <- ?A; _) = _ -> _ => destruct A as [[hs' hp']| |] end; cbn [bind]; try discriminate.
      match goal with |- (do p <- ?A; _) = _ -> _ => destruct A as [[rd xs]| |] eqn:Ew end; cbn [bind]; try discriminate.
      intros E; injection E as _ <-. cbn [ser_ok].
      clear hs hp n. revert hp' rd xs Ew. rewrite forallb_forall in Hv.
      induction IH as [|y r Hy Hr IHr]; intros hp' rd xs.
      + intros E; injection E as _ <-. reflexivity.
      + destruct (decodeABIElement block y hs' hp') as [[n1 x1]| |] eqn:E1; cbn [bind]; try discriminate.
        match goal with |- (do p <- ?A; _) = _ -> _ => destruct A as [[m1 xs1]| |] eqn:E2 end; cbn [bind]; try discriminate.
        intros E; injection E as _ <-. cbn [forallb].
        rewrite (Hy (Hv y (or_introl eq_refl)) _ _ _ _ E1).
        rewrite (IHr (fun z Hz => Hv z (or_intror Hz)) _ _ _ E2). reflexivity.
  Qed.

  Lemma walk_ser_ok l : forallb ser_valid l = true -> forall hs hp rd xs,
    walkDynamicChildArrayABIBytes block l hs hp = Ok (rd, xs) -> forallb ser_ok xs = true.
  Proof.
    induction l as [|y r IH]; intros Hv hs hp rd xs; cbn [walkDynamicChildArrayABIBytes].
    - intros E; injection E as _ <-. reflexivity.
    - cbn [forallb] in Hv. apply andb_true_iff in Hv as [H1 H2].
      destruct (decodeABIElement block y hs hp) as [[n1 x1]| |] eqn:E1; cbn [bind]; try discriminate.
      destruct (walkDynamicChildArrayABIBytes block r hs (hp + n1)) as [[m1 xs1]| |] eqn:E2; cbn [bind]; try discriminate.
      intros E; injection E as _ <-. cbn [forallb].
      rewrite (decoded_ser_ok y H1 _ _ _ _ E1), (IH H2 _ _ _ _ E2). reflexivity.
  Qed.
End Decoded.

Theorem DecodeABIData_ser_ok c b off x : tc_wf c = true -> DecodeABIData c b off = Ok x -> ser_ok x = true.
Proof.
  intros Hw. apply tc_wf_ser_valid in Hw. destruct c as [| | |l k]; try discriminate.
  unfold DecodeABIData, walkTupleABIBytes.
  destruct (walkDynamicChildArrayABIBytes b l off off) as [[rd xs]| |] eqn:E; cbn [bind]; try discriminate.
  intros E1; injection E1 as <-. cbn [ser_ok]. eapply walk_ser_ok; eauto.
Qed.

Theorem DecodeCallData_ser_ok id c b x : tc_wf c = true -> DecodeCallData id c b = Ok x -> ser_ok x = true.
Proof.
  intros Hw. unfold DecodeCallData. destruct (length b <? 4)%nat; [discriminate|].
  destruct (negb (bytes_eqb id (firstn 4 b))); [discriminate|]. apply DecodeABIData_ser_ok, Hw.
Qed.

(* the statement used by Properties/C11.v: serialising a decoded tree never panics, whatever the
   formatting mode, value serializers, default-name generator, float serializer and hash function *)
Theorem decoded_serializable c b off x :
  tc_wf c = true -> DecodeABIData c b off = Ok x ->
  forall H fs dn s, SerializeJSON H fs dn s x <> Panic /\ SerializeInterface H fs dn s x <> Panic.
Proof.
  intros Hw Hd H fs dn s. pose proof (walkOutput_total H fs dn s x (DecodeABIData_ser_ok c b off x Hw Hd)) as Hn.
  unfold SerializeJSON, SerializeInterface. split; auto.
  destruct (walkOutput H fs dn s x); cbn [bind]; congruence.
Qed.

Theorem decoded_calldata_serializable id c b x :
  tc_wf c = true -> DecodeCallData id c b = Ok x ->
  forall H fs dn s, SerializeJSON H fs dn s x <> Panic /\ SerializeInterface H fs dn s x <> Panic.
Proof.
  intros Hw Hd H fs dn s. pose proof (walkOutput_total H fs dn s x (DecodeCallData_ser_ok id c b x Hw Hd)) as Hn.
  unfold SerializeJSON, SerializeInterface. split; auto.
  destruct (walkOutput H fs dn s x); cbn [bind]; congruence.
Qed.
