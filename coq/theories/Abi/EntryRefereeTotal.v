(* C12, answers to the referee report, part 4: the no-panic hypotheses of C12_error_found(_named) and
   C12_event_refuse #4 discharged for the decoder model of C03, with C11's totality theorems
   (Abi/DecTotalProofs3.v, imported read-only): for entries whose parameters have valid type trees
   ([params_wf]: Entry.Validate passed). *)
From Coq Require Import List NArith ZArith Lia Bool Arith.
From Coq Require Import Init.Byte.
From FFS Require Import Base.Res Base.Bytes Abi.Types Abi.ModelTypes Abi.EntryModel Abi.EntrySpec.
From FFS Require Import Abi.EntryProofs Abi.EntryProofsEvent Abi.EntryReferee.
From FFS Require Abi.DecModel Abi.DecTotalProofs3.
Import ListNotations.

Lemma default_error_wf : DecTotalProofs3.params_wf (e_inputs default_error).
Proof. intros p tc [<-|[]] E. cbn in E. injection E as <-. reflexivity. Qed.

Theorem error_found_codec (H : bytes -> bytes) :
  (forall m, length (H m) = 32%nat) ->
  forall (a : list entry) (d : bytes),
    (forall e, In e a -> DecTotalProofs3.params_wf (e_inputs e)) ->
    (exists e v, In e (default_error :: a) /\ e_type e = TyError /\ DecodeCallData H DecModel.DecodeABIData e d = Ok v) ->
    exists pre e post v,
      default_error :: a = pre ++ e :: post /\ e_type e = TyError /\
      ParseError H DecModel.DecodeABIData a d = Ok (Some (e, v)) /\
      DecodeCallData H DecModel.DecodeABIData e d = Ok v /\
      GenerateFunctionSelector H e = Ok (firstn 4 d) /\
      (forall e', In e' pre -> e_type e' = TyError -> exists c, DecodeCallData H DecModel.DecodeABIData e' d = Err c).
Proof.
  intros Hlen a d Hw Hex. apply error_found_named; [|exact Hex].
  intros e [<-|Hin]; apply (DecTotalProofs3.Entry_DecodeCallData_total H Hlen); [exact default_error_wf|apply Hw; exact Hin].
Qed.

Theorem event_too_few_topics_codec (H : bytes -> bytes) (e : entry) (topics : list bytes) (data : bytes) :
  DecTotalProofs3.params_wf (e_inputs e) ->
  (length topics < topics_needed (e_anonymous e) (map p_indexed (e_inputs e)))%nat ->
  exists c, DecodeEventData H DecModel.DecodeABIData DecModel.decode_elementary e topics data = Err c.
Proof.
  intros Hw Hlt.
  pose proof (DecTotalProofs3.DecodeEventData_total H e topics data Hw) as Hnp.
  destruct (DecodeEventData H DecModel.DecodeABIData DecModel.decode_elementary e topics data) as [r|c|] eqn:Ed; [|eauto|congruence].
  exfalso. exact (event_refuse_too_few_topics H _ _ e topics data r Hlt Ed).
Qed.
