(* C11, answer to the referee's row "quantifier: valid ABI definition": no model of the type-string
   parser exists, so [tc_wf] is tied to the parser by reading only.  What can be proved: [tc_wf] is not
   narrower than the ABI specification's own notion of a valid type - every type that is well formed
   per the specification ([wf_ty], Abi/Types.v) and whose fixed-array lengths fit 32 bits (the parser's
   ParseUint(…, 32)) has the component tree [tc_of_ty t] (Abi/RunC11.v: the tree the harness hands to
   the model for that type), that tree is [tc_wf], and it denotes t again.  So the theorems of
   Properties/C11.v, stated for every [tc_wf] tree, cover every specification-valid type. *)
From Coq Require Import List NArith ZArith Bool Lia ZifyBool ZifyN ZifyNat.
From Coq Require Import Init.Byte.
From FFS Require Import Base.Res Base.Bytes Abi.Types Abi.Spec Abi.ModelTypes Abi.EntryModel Abi.RunC11.
Import ListNotations.

Fixpoint arr_lens_32 (t : ty) : bool :=
  match t with
  | TFixedArr t k => (k <? 2 ^ 32)%N && arr_lens_32 t
  | TDynArr t => arr_lens_32 t
  | TTuple l => forallb arr_lens_32 l
  | _ => true
  end.

Lemma dec_digits_nonempty f : forall n acc, acc <> [] -> dec_digits f n acc <> [].
Proof.
  induction f as [|f IH]; intros n acc Ha; cbn [dec_digits]; [exact Ha|].
  cbv zeta. destruct (n <? 10)%N; [discriminate|]. apply IH. discriminate.
Qed.

Lemma dec_suffix_nonempty m : dec_suffix m <> [].
Proof.
  unfold dec_suffix, fmt_N. cbn [dec_digits]. cbv zeta.
  destruct (m <? 10)%N; [discriminate|]. apply dec_digits_nonempty. discriminate.
Qed.

Theorem spec_types_are_wf t :
  wf_ty t = true -> arr_lens_32 t = true -> tc_wf (tc_of_ty t) = true /\ ty_of (tc_of_ty t) = t.
Proof.
  unfold tc_wf.
  induction t as [m|m| | |m n|m n|m| | | |t k IH|t IH|l IH] using ty_ind'; intros Hw Ha;
    cbn [tc_of_ty tc_consistent ty_of wf_ty default_m arr_lens_32] in *.
  - split; [exact Hw|reflexivity].
  - split; [exact Hw|reflexivity].
  - split; reflexivity.
  - split; reflexivity.
  - split; [exact Hw|reflexivity].
  - split; [exact Hw|reflexivity].
  - assert (Hm : (m =? 0)%N = false) by lia. rewrite Hm.
    pose proof (dec_suffix_nonempty m) as Hs. destruct (dec_suffix m); [congruence|].
    cbn [wf_ty]. split; [exact Hw|reflexivity].
  - split; reflexivity.
  - split; reflexivity.
  - split; reflexivity.
  - apply andb_true_iff in Ha as [Hk Ha]. destruct (IH Hw Ha) as [I1 I2].
    apply andb_true_iff in I1 as [I1 I3]. rewrite I2, N2Z.id.
    split; [|reflexivity]. rewrite I1, Hw.
    replace (0 <=? Z.of_N k)%Z with true by lia.
    replace (Z.of_N k <? 2 ^ 32)%Z with true by lia. reflexivity.
  - destruct (IH Hw Ha) as [I1 I2]. rewrite I2 in *. split; [exact I1|reflexivity].
  - assert (G : forallb tc_consistent (map tc_of_ty l) = true /\ map ty_of (map tc_of_ty l) = l).
    { induction IH as [|x r Hx Hr IHr]; [split; reflexivity|].
      cbn [forallb map] in *. apply andb_true_iff in Hw as [W1 W2]. apply andb_true_iff in Ha as [A1 A2].
      destruct (Hx W1 A1) as [X1 X2]. apply andb_true_iff in X1 as [X1 _].
      destruct (IHr W2 A2) as [R1 R2]. rewrite X1, R1, X2, R2. split; reflexivity. }
    destruct G as [G1 G2]. rewrite G1, G2. cbn [wf_ty]. rewrite Hw. split; reflexivity.
Qed.
