(* Proofs for C11 over the decoder model (Abi/DecModel.v) and its cost twin (Abi/DecCost.v):

   - [twin_element], [twin_DecodeABIData], [twin_DecodeCallData]: the twin returns exactly the
     model's result (so every statement about [fst (…_c …)] is a statement about the model);
   - [element_total_bound]: for every valid component tree, every block and all non-negative
     offsets, decoding never panics, consumes a non-negative number of head bytes, and - when no
     dynamic array has an element type of zero encoded size - requests at most [bound c |block|]
     allocation units. *)
From Coq Require Import List NArith ZArith Bool Lia ZifyBool ZifyN ZifyNat.
From Coq Require Import Init.Byte.
From FFS Require Import Base.Res Base.Bytes Abi.Types Abi.Spec Abi.ModelTypes Abi.DecModel Abi.DecCost.
Import ListNotations.
Local Open Scope Z_scope.

(* ------------------------------------------------------------------------------------------------
   monad plumbing
   ------------------------------------------------------------------------------------------------ *)
Lemma cbind_fst {A B} (r : cres A) (f : A -> cres B) :
  fst (cbind r f) = bind (fst r) (fun a => fst (f a)).
Proof. destruct r as [[a|e|] c]; simpl; auto. destruct (f a); reflexivity. Qed.

Lemma charge_fst {A} n (r : cres A) : fst (charge n r) = fst r.
Proof. reflexivity. Qed.

Lemma bind_ext {A B} (r r' : res A) (f g : A -> res B) :
  r = r' -> (forall a, f a = g a) -> bind r f = bind r' g.
Proof. intros -> H. destruct r'; simpl; auto. Qed.

(* cost of a bind: at most the sum *)
Lemma cbind_snd_le {A B} (r : cres A) (f : A -> cres B) (k1 k2 : N) :
  (snd r <= k1)%N -> (forall a, fst r = Ok a -> (snd (f a) <= k2)%N) -> (snd (cbind r f) <= k1 + k2)%N.
Proof.
  destruct r as [[a|e|] c]; simpl; intros H1 H2; try lia.
  specialize (H2 a eq_refl). destruct (f a); simpl in *. lia.
Qed.

Lemma cbind_not_panic {A B} (r : cres A) (f : A -> cres B) :
  fst r <> Panic -> (forall a, fst r = Ok a -> fst (f a) <> Panic) -> fst (cbind r f) <> Panic.
Proof.
  destruct r as [[a|e|] c]; simpl; intros H1 H2; try congruence.
  specialize (H2 a eq_refl). destruct (f a); simpl in *. exact H2.
Qed.

Lemma cbind_ok {A B} (r : cres A) (f : A -> cres B) b :
  fst (cbind r f) = Ok b -> exists a, fst r = Ok a /\ fst (f a) = Ok b.
Proof.
  destruct r as [[a|e|] c]; simpl; try discriminate.
  intros H. exists a. split; auto. destruct (f a); exact H.
Qed.

(* ------------------------------------------------------------------------------------------------
   the twin is the model
   ------------------------------------------------------------------------------------------------ *)
Section Twin.
  Variable f : Z -> cres (Z * cval).
  Let f' := fun p => fst (f p).

  Lemma loop_step_c_fst s : fst (loop_step_c f s) = bind (fst s) (loop_step f').
  Proof.
    destruct s as [[[[pos rd] acc]|e|] k]; simpl; auto.
    unfold f'. destruct (f pos) as [[[n ch]|e|] c]; reflexivity.
  Qed.

  Lemma iter_res_not_ok {S} p (step : S -> res S) r :
    (forall s, r <> Ok s) -> iter_res p step r = r.
  Proof. destruct p, r; simpl; intros H; auto; exfalso; eapply H; reflexivity. Qed.

  Lemma iter_c_fst p : forall s, fst (iter_c p (loop_step_c f) s) = iter_res p (loop_step f') (fst s).
  Proof.
    induction p as [p IH|p IH|]; intros s.
    - (* xI *)
      destruct s as [[st|e|] k]; [|reflexivity..].
      change (fst (loop_step_c f (iter_c p (loop_step_c f) (iter_c p (loop_step_c f) (Ok st, k)))) =
              bind (iter_res p (loop_step f') (iter_res p (loop_step f') (Ok st))) (loop_step f')).
      rewrite loop_step_c_fst, IH, IH. reflexivity.
    - destruct s as [[st|e|] k]; [|reflexivity..].
      change (fst (iter_c p (loop_step_c f) (iter_c p (loop_step_c f) (Ok st, k))) =
              iter_res p (loop_step f') (iter_res p (loop_step f') (Ok st))).
      rewrite IH, IH. reflexivity.
    - destruct s as [[st|e|] k]; [|reflexivity..].
      change (fst (loop_step_c f (Ok st, k)) = bind (Ok st) (loop_step f')).
      apply loop_step_c_fst.
  Qed.

  Lemma loop_elems_c_fst count pos : fst (loop_elems_c f count pos) = loop_elems f' count pos.
  Proof.
    unfold loop_elems_c, loop_elems. destruct count; try reflexivity.
    pose proof (iter_c_fst p (Ok (pos, 0, []), 0%N)) as H. simpl fst in H. rewrite <- H.
    destruct (iter_c p (loop_step_c f) (Ok (pos, 0, []), 0%N)) as [[[[a b] c]|e|] k]; reflexivity.
  Qed.
End Twin.

Lemma loop_elems_ext f g count pos : (forall p, f p = g p) -> loop_elems f count pos = loop_elems g count pos.
Proof.
  intros H. unfold loop_elems. destruct count; auto.
  assert (E : forall p0 r, iter_res p0 (loop_step f) r = iter_res p0 (loop_step g) r).
  { assert (S : forall st, loop_step f st = loop_step g st).
    { intros [[a b] c]. unfold loop_step. rewrite H. reflexivity. }
    induction p0 as [q IH|q IH|]; intros [st|e|]; simpl; auto.
    - rewrite IH, IH. apply bind_ext; auto.
    - rewrite IH, IH. reflexivity. }
  rewrite E. reflexivity.
Qed.

Section TwinElement.
  Variable block : bytes.

  Lemma twin_elementary c hs hp : fst (decode_elementary_c block c hs hp) = decode_elementary block c hs hp.
  Proof. reflexivity. Qed.

  Lemma twin_element c : forall hs hp,
    fst (decodeABIElement_c block c hs hp) = decodeABIElement block c hs hp.
  Proof.
    induction c as [e s m n k|len ch k IH|ch k IH|l k IH] using tcomp_ind'; intros hs hp.
    - cbn [decodeABIElement_c decodeABIElement]. rewrite cbind_fst. apply bind_ext; auto.
    - cbn [decodeABIElement_c decodeABIElement].
      destruct (isDynamicType (TCFixedArr len ch k)).
      + rewrite cbind_fst. apply bind_ext; auto. intros ho.
        destruct ((len >? 0) && ((len - 1) * 32 >=? zlen block - (hs + ho))); auto.
        destruct (len <? 0); auto.
        rewrite charge_fst, cbind_fst. apply bind_ext; [|intros [a b]; reflexivity].
        unfold walkDynamicChildArrayABIBytes_rep_c, walkDynamicChildArrayABIBytes_rep.
        rewrite charge_fst, cbind_fst. apply bind_ext; [|intros [a b]; reflexivity].
        rewrite loop_elems_c_fst. apply loop_elems_ext. intros p. apply IH.
      + unfold decodeABIFixedArrayBytes_c, decodeABIFixedArrayBytes.
        destruct ((len >? 0) && occupiesHeadBytes ch && ((len - 1) * 32 >=? zlen block - hp)); auto.
        destruct (len <? 0); auto.
        rewrite charge_fst, cbind_fst. apply bind_ext; [|intros [a b]; reflexivity].
        rewrite loop_elems_c_fst. apply loop_elems_ext. intros p. apply IH.
    - cbn [decodeABIElement_c decodeABIElement].
      rewrite cbind_fst. apply bind_ext; auto. intros ho.
      rewrite cbind_fst. apply bind_ext; auto.
      unfold decodeABIDynamicArrayBytes_c, decodeABIDynamicArrayBytes.
      rewrite cbind_fst. apply bind_ext; auto. intros al.
      destruct ((al >? 0) && occupiesHeadBytes ch && ((al - 1) * 32 >=? zlen block - (hs + ho + 32))); auto.
      rewrite charge_fst, cbind_fst. apply bind_ext; [|intros [a b]; reflexivity].
      rewrite loop_elems_c_fst. apply loop_elems_ext. intros p. apply IH.
    - cbn [decodeABIElement_c decodeABIElement].
      rewrite cbind_fst. apply bind_ext; auto. intros [hs' hp'].
      rewrite charge_fst, cbind_fst. apply bind_ext; [|intros [a b]; reflexivity].
      clear hs hp. revert hp'. induction IH as [|x r Hx Hr IHr]; intros hp'; auto.
      rewrite cbind_fst. apply bind_ext; [apply Hx|]. intros [n0 x0].
      rewrite cbind_fst. apply bind_ext; [apply IHr|]. intros [m0 xs]. reflexivity.
  Qed.

  Lemma twin_walk l : forall hs hp,
    fst (walkDynamicChildArrayABIBytes_c block l hs hp) = walkDynamicChildArrayABIBytes block l hs hp.
  Proof.
    induction l as [|x r IH]; intros hs hp; auto.
    cbn [walkDynamicChildArrayABIBytes_c walkDynamicChildArrayABIBytes].
    rewrite cbind_fst. apply bind_ext; [apply twin_element|]. intros [n0 x0].
    rewrite cbind_fst. apply bind_ext; [apply IH|]. intros [m0 xs]. reflexivity.
  Qed.
End TwinElement.

Lemma twin_DecodeABIData c b off : fst (DecodeABIData_c c b off) = DecodeABIData c b off.
Proof.
  destruct c; auto. unfold DecodeABIData_c, DecodeABIData.
  rewrite cbind_fst. apply bind_ext; [|intros [a x]; reflexivity].
  unfold walkTupleABIBytes_c, walkTupleABIBytes.
  rewrite charge_fst, cbind_fst. apply bind_ext; [apply twin_walk|]. intros [a x]. reflexivity.
Qed.

Lemma twin_DecodeCallData id c b : fst (DecodeCallData_c id c b) = DecodeCallData id c b.
Proof.
  unfold DecodeCallData_c, DecodeCallData.
  destruct (length b <? 4)%nat; auto. destruct (negb (bytes_eqb id (firstn 4 b))); auto.
  apply twin_DecodeABIData.
Qed.

(* ------------------------------------------------------------------------------------------------
   validity of a component tree as far as the decoder needs it (implied by [tc_wf])
   ------------------------------------------------------------------------------------------------ *)
Fixpoint dec_valid (c : tcomp) : bool :=
  match c with
  | TCElem e _ m _ _ =>
      match decoder_of e with
      | DecUnsignedInt | DecUnsignedFloat => (m <=? 256)%N
      | _ => true
      end
  | TCFixedArr len ch _ => (0 <=? len) && dec_valid ch
  | TCDynArr ch _ => dec_valid ch
  | TCTuple l _ => forallb dec_valid l
  end.

Lemma tc_wf_dec_valid c : tc_wf c = true -> dec_valid c = true.
Proof.
  unfold tc_wf. induction c as [e s m n k|len ch k IH|ch k IH|l k IH] using tcomp_ind'; intros H.
  - apply andb_true_iff in H as [H1 H2]. cbn [dec_valid].
    destruct e; cbn [decoder_of]; auto; cbn [tc_consistent ty_of wf_ty default_m] in *; lia.
  - cbn [tc_consistent ty_of wf_ty dec_valid] in *.
    apply andb_true_iff. split; [lia|]. apply IH. lia.
  - cbn [tc_consistent ty_of wf_ty dec_valid] in *. apply IH, H.
  - cbn [tc_consistent ty_of wf_ty dec_valid] in *.
    apply andb_true_iff in H as [H1 H2]. rewrite forallb_forall in *.
    rewrite Forall_forall in IH. intros x Hx. apply IH; auto.
    apply andb_true_iff. split; [apply H1, Hx|]. apply H2. apply in_map, Hx.
Qed.

(* ------------------------------------------------------------------------------------------------
   elementary steps
   ------------------------------------------------------------------------------------------------ *)
Lemma zlen_nonneg b : 0 <= zlen b.
Proof. unfold zlen. lia. Qed.

Lemma zslice_ok b lo hi : 0 <= lo -> lo <= hi -> hi <= zlen b ->
  exists r, zslice b lo hi = Ok r /\ length r = Z.to_nat (hi - lo).
Proof.
  intros H1 H2 H3. unfold zslice.
  replace ((0 <=? lo) && (lo <=? hi) && (hi <=? zlen b)) with true by lia.
  eexists. split; [reflexivity|].
  rewrite firstn_length, skipn_length. unfold zlen in H3. lia.
Qed.

Lemma of_beZ_nonneg b : 0 <= of_beZ b.
Proof. unfold of_beZ. lia. Qed.

Lemma decodeABILength_spec block off : 0 <= off ->
  decodeABILength block off <> Panic /\
  (forall i, decodeABILength block off = Ok i -> 0 <= i < 2 ^ 32 /\ off + 32 <= zlen block).
Proof.
  intros H. unfold decodeABILength.
  destruct (off + 32 >? zlen block) eqn:E; [split; [discriminate|intros; discriminate]|].
  destruct (zslice_ok block off (off + 32)) as [w [Hw _]]; try lia.
  rewrite Hw. cbn [bind].
  destruct (2 ^ 32 <=? of_beZ w) eqn:E2; split; try discriminate.
  intros i Hi. injection Hi as <-. pose proof (of_beZ_nonneg w). lia.
Qed.

Lemma decodeABIBytes_raw_spec block hs hp m : 0 <= hs -> 0 <= hp ->
  decodeABIBytes_raw block hs hp m <> Panic /\
  (forall b, decodeABIBytes_raw block hs hp m = Ok b ->
     (N.of_nat (length b) <= (if (m =? 0)%N then N.of_nat (length block) else m))%N).
Proof.
  intros Hhs Hhp. unfold decodeABIBytes_raw.
  destruct (m =? 0)%N eqn:Em.
  - destruct (decodeABILength_spec block hp Hhp) as [P1 O1].
    destruct (decodeABILength block hp) as [o|e|] eqn:E1; try congruence; cbn [bind];
      [|split; [discriminate|intros; discriminate]].
    destruct (O1 o eq_refl) as [Ho _].
    assert (Hd : 0 <= hs + o) by lia.
    destruct (decodeABILength_spec block (hs + o) Hd) as [P2 O2].
    destruct (decodeABILength block (hs + o)) as [bl|e|] eqn:E2; try congruence; cbn [bind];
      [|split; [discriminate|intros; discriminate]].
    destruct (O2 bl eq_refl) as [Hbl _].
    destruct (hs + o + 32 + bl >? zlen block) eqn:E3; [split; [discriminate|intros; discriminate]|].
    destruct (zslice_ok block (hs + o + 32) (zlen block)) as [rest [Hr Hl]]; try lia.
    rewrite Hr. cbn [bind]. split; [discriminate|].
    intros b Hb. injection Hb as <-. rewrite app_length, firstn_length, repeat_length.
    unfold zlen in *. lia.
  - cbn [bind].
    destruct (hp + Z.of_N m >? zlen block) eqn:E3; [split; [discriminate|intros; discriminate]|].
    destruct (zslice_ok block hp (zlen block)) as [rest [Hr Hl]]; try lia.
    rewrite Hr. cbn [bind]. split; [discriminate|].
    intros b Hb. injection Hb as <-. rewrite app_length, firstn_length, repeat_length. lia.
Qed.

Lemma decodeABIUnsignedInt_spec block hp m c : 0 <= hp -> (m <= 256)%N ->
  decodeABIUnsignedInt block hp m c <> Panic /\
  (forall x, decodeABIUnsignedInt block hp m c = Ok x -> exists z, x = CV (Some c) [] (GBigInt z)).
Proof.
  intros Hhp Hm. unfold decodeABIUnsignedInt.
  destruct (hp + 32 >? zlen block) eqn:E; [split; [discriminate|intros; discriminate]|].
  assert (Z.of_N (m / 8) <= 32).
  { assert ((m / 8 <= 32)%N) by (apply N.div_le_upper_bound; lia). lia. }
  destruct (zslice_ok block (hp + (32 - Z.of_N (m / 8))) (hp + 32)) as [w [Hw _]]; try lia.
  rewrite Hw. cbn [bind]. split; [discriminate|].
  intros x Hx. injection Hx as <-. eauto.
Qed.

Lemma decodeABISignedInt_spec block hp c : 0 <= hp ->
  decodeABISignedInt block hp c <> Panic /\
  (forall x, decodeABISignedInt block hp c = Ok x -> exists z, x = CV (Some c) [] (GBigInt z)).
Proof.
  intros Hhp. unfold decodeABISignedInt.
  destruct (hp + 32 >? zlen block) eqn:E; [split; [discriminate|intros; discriminate]|].
  destruct (zslice_ok block hp (hp + 32)) as [w [Hw _]]; try lia.
  rewrite Hw. cbn [bind]. split; [discriminate|].
  intros x Hx. injection Hx as <-. eauto.
Qed.

Lemma intToFixed_of_int n c z : intToFixed n (CV (Some c) [] (GBigInt z)) <> Panic /\
  elem_units (intToFixed n (CV (Some c) [] (GBigInt z))) = 0%N.
Proof. unfold intToFixed. destruct (n =? 0)%N; split; try discriminate; reflexivity. Qed.

(* the bound of an elementary component *)
Lemma decode_elementary_spec block e s m n k hs hp :
  let c := TCElem e s m n k in
  dec_valid c = true -> 0 <= hs -> 0 <= hp ->
  decode_elementary block c hs hp <> Panic /\
  (1 + elem_units (decode_elementary block c hs hp) <= bound c (N.of_nat (length block)))%N.
Proof.
  intros c Hv Hhs Hhp. subst c. cbn [dec_valid] in Hv. cbn [decode_elementary bound].
  destruct (decoder_of e) eqn:Ed.
  - destruct (decodeABISignedInt_spec block hp (TCElem e s m n k) Hhp) as [Hp Hok].
    split; auto. destruct (decodeABISignedInt block hp (TCElem e s m n k)) as [x|e0|]; cbn; try lia.
    destruct (Hok x eq_refl) as [z ->]. cbn. lia.
  - destruct (decodeABIUnsignedInt_spec block hp m (TCElem e s m n k) Hhp) as [Hp Hok]; [lia|].
    split; auto. destruct (decodeABIUnsignedInt block hp m (TCElem e s m n k)) as [x|e0|]; cbn; try lia.
    destruct (Hok x eq_refl) as [z ->]. cbn. lia.
  - unfold decodeABISignedFloat.
    destruct (decodeABISignedInt_spec block hp (TCElem e s m n k) Hhp) as [Hp Hok].
    destruct (decodeABISignedInt block hp (TCElem e s m n k)) as [x|e0|]; cbn [bind]; try congruence.
    + destruct (Hok x eq_refl) as [z ->].
      destruct (intToFixed_of_int n (TCElem e s m n k) z) as [H1 H2]. rewrite H2. split; auto. lia.
    + split; [discriminate|]. cbn. lia.
  - unfold decodeABIUnsignedFloat.
    destruct (decodeABIUnsignedInt_spec block hp m (TCElem e s m n k) Hhp) as [Hp Hok]; [lia|].
    destruct (decodeABIUnsignedInt block hp m (TCElem e s m n k)) as [x|e0|]; cbn [bind]; try congruence.
    + destruct (Hok x eq_refl) as [z ->].
      destruct (intToFixed_of_int n (TCElem e s m n k) z) as [H1 H2]. rewrite H2. split; auto. lia.
    + split; [discriminate|]. cbn. lia.
  - unfold decodeABIBytes.
    destruct (decodeABIBytes_raw_spec block hs hp m Hhs Hhp) as [Hp Hok].
    destruct (decodeABIBytes_raw block hs hp m) as [b|e0|]; cbn [bind]; try congruence.
    + split; [discriminate|]. cbn [elem_units]. specialize (Hok b eq_refl). lia.
    + split; [discriminate|]. cbn [elem_units]. destruct (m =? 0)%N; lia.
  - unfold decodeABIString.
    destruct (decodeABIBytes_raw_spec block hs hp m Hhs Hhp) as [Hp Hok].
    destruct (decodeABIBytes_raw block hs hp m) as [b|e0|]; cbn [bind]; try congruence.
    + split; [discriminate|]. cbn [elem_units]. specialize (Hok b eq_refl). lia.
    + split; [discriminate|]. cbn [elem_units]. destruct (m =? 0)%N; lia.
Qed.

(* ------------------------------------------------------------------------------------------------
   [good NZ r Q k]: the costed computation r does not panic, its value satisfies Q, and (when NZ
   holds) it requested at most k units.  Compositional rules.
   ------------------------------------------------------------------------------------------------ *)
Definition good {A} (NZ : Prop) (r : cres A) (Q : A -> Prop) (k : N) : Prop :=
  fst r <> Panic /\ (forall a, fst r = Ok a -> Q a) /\ (NZ -> (snd r <= k)%N).

Lemma good_ret {A} NZ (a : A) (Q : A -> Prop) : Q a -> good NZ (Ok a, 0%N) Q 0.
Proof.
  intros H. split; [discriminate|]. split.
  - intros a' E. injection E as <-. exact H.
  - simpl. lia.
Qed.

Lemma good_err {A} NZ e (Q : A -> Prop) : good NZ (Err e, 0%N) Q 0.
Proof. split; [discriminate|]. split; [discriminate|]. simpl. lia. Qed.

Lemma good_weaken {A} (NZ NZ' : Prop) (r : cres A) (Q Q' : A -> Prop) k k' :
  good NZ r Q k -> (NZ' -> NZ) -> (forall a, Q a -> Q' a) -> (NZ' -> (k <= k')%N) -> good NZ' r Q' k'.
Proof. intros [H1 [H2 H3]] Hn Hq Hk. repeat split; auto. intros H. specialize (H3 (Hn H)). specialize (Hk H). lia. Qed.

Lemma good_lift {A} NZ (r : res A) (Q : A -> Prop) :
  r <> Panic -> (forall a, r = Ok a -> Q a) -> good NZ (lift r) Q 0.
Proof. intros H1 H2. repeat split; auto. simpl. lia. Qed.

Lemma good_charge {A} NZ n (r : cres A) (Q : A -> Prop) k :
  good NZ r Q k -> good NZ (charge n r) Q (n + k).
Proof. intros [H1 [H2 H3]]. repeat split; auto. intros H. specialize (H3 H). simpl. lia. Qed.

Lemma good_bind {A B} NZ (r : cres A) (f : A -> cres B) (Q : A -> Prop) (Q' : B -> Prop) k1 k2 :
  good NZ r Q k1 -> (forall a, Q a -> good NZ (f a) Q' k2) -> good NZ (cbind r f) Q' (k1 + k2).
Proof.
  intros [H1 [H2 H3]] Hf. repeat split.
  - apply cbind_not_panic; auto. intros a E. apply (Hf a (H2 a E)).
  - intros b E. apply cbind_ok in E as [a [Ea Eb]]. destruct (Hf a (H2 a Ea)) as [_ [G _]]. auto.
  - intros H. apply cbind_snd_le; auto. intros a E. destruct (Hf a (H2 a E)) as [_ [_ G]]. auto.
Qed.

(* ------------------------------------------------------------------------------------------------
   the element loop
   ------------------------------------------------------------------------------------------------ *)
Section Loop.
  Variable NZ : Prop.
  Variable f : Z -> cres (Z * cval).
  Variable K : N.
  Hypothesis Hf : forall pos, 0 <= pos -> good NZ (f pos) (fun nx => 0 <= fst nx) K.

  Definition linv (s : cstate) : Prop :=
    match fst s with
    | Ok (pos, rd, _) => 0 <= pos /\ 0 <= rd
    | Err _ => True
    | Panic => False
    end.

  Lemma loop_step_c_inv s : linv s -> linv (loop_step_c f s) /\ (NZ -> (snd (loop_step_c f s) <= snd s + K)%N).
  Proof.
    destruct s as [[[[pos rd] acc]|e|] k]; unfold linv; simpl; intros H; try tauto.
    - destruct H as [Hp Hr]. destruct (Hf pos Hp) as [H1 [H2 H3]].
      destruct (f pos) as [[[n ch]|e|] c]; simpl in *; try congruence.
      + specialize (H2 _ eq_refl). simpl in H2. split; [lia|]. intros Hn. specialize (H3 Hn). lia.
      + split; auto. intros Hn. specialize (H3 Hn). lia.
    - split; auto. intros; lia.
  Qed.

  Lemma iter_c_inv p : forall s, linv s ->
    linv (iter_c p (loop_step_c f) s) /\ (NZ -> (snd (iter_c p (loop_step_c f) s) <= snd s + Npos p * K)%N).
  Proof.
    induction p as [p IH|p IH|]; intros s Hs.
    - destruct s as [[st|e|] k]; [|split; [exact Hs|intros; simpl; lia]..].
      change (iter_c p~1 (loop_step_c f) (Ok st, k))
        with (loop_step_c f (iter_c p (loop_step_c f) (iter_c p (loop_step_c f) (Ok st, k)))).
      destruct (IH _ Hs) as [I1 C1]. destruct (IH _ I1) as [I2 C2].
      destruct (loop_step_c_inv _ I2) as [I3 C3]. split; auto.
      intros Hn. specialize (C1 Hn). specialize (C2 Hn). specialize (C3 Hn). simpl snd in *. lia.
    - destruct s as [[st|e|] k]; [|split; [exact Hs|intros; simpl; lia]..].
      change (iter_c p~0 (loop_step_c f) (Ok st, k))
        with (iter_c p (loop_step_c f) (iter_c p (loop_step_c f) (Ok st, k))).
      destruct (IH _ Hs) as [I1 C1]. destruct (IH _ I1) as [I2 C2]. split; auto.
      intros Hn. specialize (C1 Hn). specialize (C2 Hn). simpl snd in *. lia.
    - destruct s as [[st|e|] k]; [|split; [exact Hs|intros; simpl; lia]..].
      change (iter_c 1 (loop_step_c f) (Ok st, k)) with (loop_step_c f (Ok st, k)).
      destruct (loop_step_c_inv _ Hs) as [I C]. split; auto. intros Hn. specialize (C Hn). simpl snd in *. lia.
  Qed.

  Lemma loop_elems_c_good count pos : 0 <= pos ->
    good NZ (loop_elems_c f count pos) (fun rl => 0 <= fst rl) (Z.to_N count * K).
  Proof.
    intros Hp. unfold loop_elems_c. destruct count as [|p|p].
    - apply good_ret. simpl. lia.
    - assert (I0 : linv (Ok (pos, 0, []), 0%N)) by (unfold linv; simpl; lia).
      destruct (iter_c_inv p _ I0) as [I C].
      destruct (iter_c p (loop_step_c f) (Ok (pos, 0, []), 0%N)) as [[[[a b] c]|e|] k]; unfold linv in I; simpl in I, C.
      + repeat split; try discriminate.
        * intros x E. injection E as <-. simpl. lia.
        * intros Hn. specialize (C Hn). simpl. lia.
      + repeat split; try discriminate. intros Hn. specialize (C Hn). simpl. lia.
      + contradiction.
    - apply good_ret. simpl. lia.
  Qed.
End Loop.

Lemma isDynamic_occupies c : dec_valid c = true -> isDynamicType c = true -> occupiesHeadBytes c = true.
Proof.
  induction c as [e s m n k|len ch k IH|ch k IH|l k IH] using tcomp_ind'; intros Hv Hd; try reflexivity.
  - cbn [dec_valid] in Hv. apply andb_true_iff in Hv as [Hl Hv]. cbn [isDynamicType occupiesHeadBytes] in *.
    destruct (len =? 0) eqn:E; [discriminate|]. rewrite (IH Hv Hd). lia.
  - cbn [dec_valid isDynamicType occupiesHeadBytes] in *. rewrite forallb_forall in Hv.
    apply existsb_exists in Hd as [x [Hx Hdx]]. apply existsb_exists. exists x. split; auto.
    rewrite Forall_forall in IH. apply IH; auto.
Qed.

(* ------------------------------------------------------------------------------------------------
   the main induction
   ------------------------------------------------------------------------------------------------ *)
Section Main.
  Variable block : bytes.
  Let N0 : N := N.of_nat (length block).

  Definition nonneg_head (nx : Z * cval) : Prop := 0 <= fst nx.

  Lemma good_length NZ off : 0 <= off ->
    good NZ (lift (decodeABILength block off)) (fun i => 0 <= i < 2 ^ 32 /\ off + 32 <= zlen block) 0.
  Proof. intros H. destruct (decodeABILength_spec block off H). apply good_lift; auto. Qed.

  Lemma count_le_bound al off : 0 <= off -> 0 <= al ->
    (al >? 0) && true && ((al - 1) * 32 >=? zlen block - off) = false ->
    (Z.to_N al <= N0 / 32 + 1)%N.
  Proof.
    intros Ho Ha G. subst N0. unfold zlen in G.
    assert (al = 0 \/ (al - 1) * 32 < Z.of_nat (length block)) as [->|H] by lia; [lia|].
    assert (al - 1 <= Z.of_nat (length block) / 32) by (apply Z.div_le_lower_bound; lia).
    assert (E : Z.of_N (N.of_nat (length block) / 32) = Z.of_nat (length block) / 32).
    { rewrite N2Z.inj_div. rewrite nat_N_Z. reflexivity. }
    lia.
  Qed.

  Lemma mul_bound_mono (a b k : N) : (a <= b)%N -> (1 + a + (a * k + 0) <= 1 + b + b * k)%N.
  Proof. intros H. nia. Qed.

  Lemma element_good c : dec_valid c = true -> forall hs hp, 0 <= hs -> 0 <= hp ->
    good (no_zero_size_elem c = true) (decodeABIElement_c block c hs hp) nonneg_head (bound c N0).
  Proof.
    induction c as [e s m n k|len ch k IH|ch k IH|l k IH] using tcomp_ind'; intros Hv hs hp Hhs Hhp.
    - (* elementary *)
      cbn [decodeABIElement_c].
      destruct (decode_elementary_spec block e s m n k hs hp Hv Hhs Hhp) as [Hp Hb].
      eapply good_weaken with (Q := nonneg_head) (k := (bound (TCElem e s m n k) N0 + 0)%N); [|intros HH; exact HH|intros aa HH; exact HH|intros; lia].
      eapply good_bind with (Q := fun _ => True).
      + unfold decode_elementary_c. repeat split; auto.
      + intros x _. apply good_ret. unfold nonneg_head. simpl. lia.
    - (* fixed array *)
      cbn [dec_valid] in Hv. apply andb_true_iff in Hv as [Hlen Hv].
      assert (Hl : 0 <= len) by lia. clear Hlen.
      cbn [decodeABIElement_c no_zero_size_elem bound].
      assert (Hch : forall hs', 0 <= hs' -> forall pos, 0 <= pos ->
                good (no_zero_size_elem ch = true) (decodeABIElement_c block ch hs' pos) (fun nx => 0 <= fst nx) (bound ch N0)).
      { intros hs' H1 pos H2. apply IH; auto. }
      set (K := fixed_count len (occupiesHeadBytes ch) N0).
      destruct (isDynamicType (TCFixedArr len ch k)) eqn:Edyn.
      + assert (Hocc : occupiesHeadBytes ch = true).
        { cbn [isDynamicType] in Edyn. destruct (len =? 0); [discriminate|]. apply isDynamic_occupies; auto. }
        eapply good_weaken with (Q := nonneg_head) (k := (0 + (1 + 2 * K + K * bound ch N0))%N);
          [|intros HH; exact HH|intros aa HH; exact HH|intros; lia].
        eapply good_bind; [apply good_length; auto|]. intros ho [Hho _].
        destruct ((len >? 0) && ((len - 1) * 32 >=? zlen block - (hs + ho))) eqn:G.
        * apply (good_weaken (no_zero_size_elem ch = true) _ _ nonneg_head nonneg_head 0%N _);
            [apply good_err|auto|auto|intros; lia].
        * replace (len <? 0) with false by lia.
          assert (HK : Z.to_N len = K).
          { unfold K, fixed_count. rewrite Hocc.
            assert ((Z.to_N len <= N0 / 32 + 1)%N); [|lia].
            apply (count_le_bound len (hs + ho)); [lia|lia|first [lia|rewrite andb_true_r; exact G]]. }
          eapply good_weaken with (Q := nonneg_head)
            (k := (Z.to_N len + ((1 + Z.to_N len) + (Z.to_N len * bound ch N0 + 0) + 0))%N);
            [|intros HH; exact HH|intros aa HH; exact HH|intros; rewrite HK; lia].
          apply good_charge.
          eapply good_bind with (Q := fun _ => True).
          -- unfold walkDynamicChildArrayABIBytes_rep_c. apply good_charge.
             eapply good_bind; [apply loop_elems_c_good; [apply Hch|]; lia|].
             intros [rd chs] _. apply good_ret. exact I.
          -- intros [a x] _. apply good_ret. unfold nonneg_head. simpl. lia.
      + unfold decodeABIFixedArrayBytes_c.
        destruct ((len >? 0) && occupiesHeadBytes ch && ((len - 1) * 32 >=? zlen block - hp)) eqn:G.
        * apply (good_weaken (no_zero_size_elem ch = true) _ _ nonneg_head nonneg_head 0%N _);
            [apply good_err|auto|auto|intros; lia].
        * replace (len <? 0) with false by lia.
          assert (HK : Z.to_N len = K).
          { unfold K, fixed_count. destruct (occupiesHeadBytes ch) eqn:Hocc; [|reflexivity].
            assert ((Z.to_N len <= N0 / 32 + 1)%N); [|lia].
            apply (count_le_bound len hp); [lia|lia|first [lia|exact G]]. }
          eapply good_weaken with (Q := nonneg_head)
            (k := ((1 + Z.to_N len) + (Z.to_N len * bound ch N0 + 0))%N);
            [|intros HH; exact HH|intros aa HH; exact HH|intros; rewrite HK; lia].
          apply good_charge.
          eapply good_bind; [apply loop_elems_c_good; [apply Hch|]; lia|].
          intros [rd chs] Hrd. apply good_ret. exact Hrd.
    - (* dynamic array *)
      cbn [dec_valid] in Hv.
      cbn [decodeABIElement_c no_zero_size_elem bound].
      set (B := (1 + (N0 / 32 + 1) + (N0 / 32 + 1) * bound ch N0)%N).
      eapply good_weaken with (Q := nonneg_head) (k := (0 + ((0 + B) + 0))%N); [|intros HH; exact HH|intros aa HH; exact HH|intros; lia].
      eapply good_bind; [apply good_length; auto|]. intros ho [Hho _].
      eapply good_bind with (Q := fun _ => True).
      + unfold decodeABIDynamicArrayBytes_c.
        eapply good_bind; [apply good_length; lia|]. intros al [Hal Hoff].
        destruct ((al >? 0) && occupiesHeadBytes ch && ((al - 1) * 32 >=? zlen block - (hs + ho + 32))) eqn:G.
        * apply (good_weaken (occupiesHeadBytes ch && no_zero_size_elem ch = true) _ _ (fun _ => True) (fun _ => True) 0%N B);
            [apply good_err|auto|auto|intros; lia].
        * eapply good_weaken with (Q := fun _ => True)
            (k := ((1 + Z.to_N al) + (Z.to_N al * bound ch N0 + 0))%N); [| | |].
          -- apply good_charge.
             eapply good_bind with (Q := fun rl => 0 <= fst rl).
             ++ apply loop_elems_c_good; [|lia].
                intros pos Hpos. apply IH; auto. lia.
             ++ intros [rd chs] _. apply good_ret. exact I.
          -- intros H. apply andb_true_iff in H. tauto.
          -- auto.
          -- intros H. apply andb_true_iff in H as [Hocc _]. rewrite Hocc in G.
             subst B. apply mul_bound_mono. apply (count_le_bound al (hs + ho + 32)); auto; lia.
      + intros x _. apply good_ret. unfold nonneg_head. simpl. lia.
    - (* tuple *)
      cbn [dec_valid] in Hv. rewrite forallb_forall in Hv.
      cbn [decodeABIElement_c no_zero_size_elem bound].
      set (S := fold_right (fun ch acc => (bound ch N0 + acc)%N) 0%N l).
      eapply good_weaken with (Q := nonneg_head)
        (k := (0 + ((1 + N.of_nat (length l)) + (S + 0)))%N); [|intros HH; exact HH|intros aa HH; exact HH|intros; lia].
      eapply good_bind with (Q := fun hh => 0 <= fst hh /\ 0 <= snd hh).
      + destruct (isDynamicType (TCTuple l k)).
        * destruct (decodeABILength_spec block hp Hhp) as [P1 O1].
          apply good_lift.
          -- destruct (decodeABILength block hp); simpl; congruence.
          -- intros [a b] E. destruct (decodeABILength block hp) as [o| |]; simpl in E; try discriminate.
             injection E as <- <-. destruct (O1 o eq_refl). simpl. lia.
        * apply good_lift; [discriminate|]. intros [a b] E. injection E as <- <-. simpl. lia.
      + intros [hs' hp'] [Hs' Hp']. simpl in Hs', Hp'.
        apply good_charge.
        eapply good_bind with (Q := fun rl => 0 <= fst rl).
        * subst S. clear Hhp hp Hhs hs. revert hp' Hp'.
          induction IH as [|x r Hx Hr IHr]; intros hp' Hp'.
          -- apply good_ret. simpl. lia.
          -- cbn [fold_right forallb].
             set (NZl := (no_zero_size_elem x && forallb no_zero_size_elem r = true)).
             set (Sr := fold_right (fun ch acc => (bound ch N0 + acc)%N) 0%N r).
             assert (Hnz1 : NZl -> no_zero_size_elem x = true)
               by (unfold NZl; intros H; apply andb_true_iff in H; tauto).
             assert (Hnz2 : NZl -> forallb no_zero_size_elem r = true)
               by (unfold NZl; intros H; apply andb_true_iff in H; tauto).
             apply (good_weaken NZl NZl _ (fun rl => 0 <= fst rl) (fun rl => 0 <= fst rl)
                      (bound x N0 + (Sr + 0))%N (bound x N0 + Sr)%N);
               [|exact (fun H => H)|exact (fun a H => H)|intros; lia].
             eapply good_bind with (Q := nonneg_head).
             ++ apply (good_weaken (no_zero_size_elem x = true) NZl _ nonneg_head nonneg_head (bound x N0) (bound x N0));
                  [apply Hx; auto; apply Hv; left; reflexivity|exact Hnz1|exact (fun a H => H)|intros; lia].
             ++ intros [n0 x0] Hn0. unfold nonneg_head in Hn0. simpl in Hn0.
                eapply good_bind with (Q := fun rl => 0 <= fst rl).
                ** apply (good_weaken (forallb no_zero_size_elem r = true) NZl _
                            (fun rl => 0 <= fst rl) (fun rl => 0 <= fst rl) Sr Sr);
                     [apply IHr; [intros y Hy; apply Hv; right; exact Hy|lia]
                     |exact Hnz2|exact (fun a H => H)|intros; lia].
                ** intros [m0 xs] Hm0. simpl in Hm0. apply good_ret. simpl. lia.
        * intros [rd l0] Hrd. simpl in Hrd. apply good_ret. unfold nonneg_head. cbn [fst].
          destruct (isDynamicType (TCTuple l k)); lia.
  Qed.
End Main.

(* ------------------------------------------------------------------------------------------------
   entry points
   ------------------------------------------------------------------------------------------------ *)
Section Entry.
  Variable block : bytes.
  Let N0 : N := N.of_nat (length block).

  Lemma walk_good l : forallb dec_valid l = true -> forall hs hp, 0 <= hs -> 0 <= hp ->
    good (forallb no_zero_size_elem l = true) (walkDynamicChildArrayABIBytes_c block l hs hp)
         (fun rl => 0 <= fst rl) (fold_right (fun ch acc => (bound ch N0 + acc)%N) 0%N l).
  Proof.
    induction l as [|x r IH]; intros Hv hs hp Hhs Hhp.
    - apply good_ret. simpl. lia.
    - cbn [forallb] in Hv. apply andb_true_iff in Hv as [Hx Hr].
      cbn [walkDynamicChildArrayABIBytes_c fold_right forallb].
      set (NZl := (no_zero_size_elem x && forallb no_zero_size_elem r = true)).
      set (Sr := fold_right (fun ch acc => (bound ch N0 + acc)%N) 0%N r).
      assert (Hnz1 : NZl -> no_zero_size_elem x = true)
        by (unfold NZl; intros H; apply andb_true_iff in H; tauto).
      assert (Hnz2 : NZl -> forallb no_zero_size_elem r = true)
        by (unfold NZl; intros H; apply andb_true_iff in H; tauto).
      apply (good_weaken NZl NZl _ (fun rl => 0 <= fst rl) (fun rl => 0 <= fst rl)
               (bound x N0 + (Sr + 0))%N (bound x N0 + Sr)%N);
        [|exact (fun H => H)|exact (fun a H => H)|intros; lia].
      eapply good_bind with (Q := nonneg_head).
      + apply (good_weaken (no_zero_size_elem x = true) NZl _ nonneg_head nonneg_head (bound x N0) (bound x N0));
          [apply element_good; auto|exact Hnz1|exact (fun a H => H)|intros; lia].
      + intros [n0 x0] Hn0. unfold nonneg_head in Hn0. simpl in Hn0.
        eapply good_bind with (Q := fun rl => 0 <= fst rl).
        * apply (good_weaken (forallb no_zero_size_elem r = true) NZl _
                   (fun rl => 0 <= fst rl) (fun rl => 0 <= fst rl) Sr Sr);
            [apply IH; auto; lia|exact Hnz2|exact (fun a H => H)|intros; lia].
        * intros [m0 xs] Hm0. simpl in Hm0. apply good_ret. simpl. lia.
  Qed.

  Lemma DecodeABIData_good c off : dec_valid c = true -> 0 <= off ->
    good (no_zero_size_elem c = true) (DecodeABIData_c c block off) (fun _ => True) (bound c N0).
  Proof.
    intros Hv Ho. destruct c as [e s m n k|len ch k|ch k|l k].
    - apply (good_weaken True _ _ (fun _ => True) (fun _ => True) 0%N _); [apply good_err|auto|auto|intros; lia].
    - apply (good_weaken True _ _ (fun _ => True) (fun _ => True) 0%N _); [apply good_err|auto|auto|intros; lia].
    - apply (good_weaken True _ _ (fun _ => True) (fun _ => True) 0%N _); [apply good_err|auto|auto|intros; lia].
    - cbn [dec_valid] in Hv. unfold DecodeABIData_c, walkTupleABIBytes_c. cbn [no_zero_size_elem bound].
      set (S := fold_right (fun ch acc => (bound ch N0 + acc)%N) 0%N l).
      apply (good_weaken (forallb no_zero_size_elem l = true) _ _ (fun _ => True) (fun _ => True)
               ((1 + N.of_nat (length l)) + (S + 0) + 0)%N _);
        [|exact (fun H => H)|exact (fun a H => H)|intros; lia].
      eapply good_bind with (Q := fun _ => True).
      + apply good_charge. eapply good_bind; [apply walk_good; auto|].
        intros [rd l0] _. apply good_ret. exact I.
      + intros [a x] _. apply good_ret. exact I.
  Qed.
End Entry.

(* ------------------------------------------------------------------------------------------------
   the statements used by Properties/C11.v
   ------------------------------------------------------------------------------------------------ *)
Theorem decodeABIElement_total block c hs hp :
  tc_wf c = true -> 0 <= hs -> 0 <= hp ->
  decodeABIElement block c hs hp <> Panic /\
  (forall n v, decodeABIElement block c hs hp = Ok (n, v) -> 0 <= n).
Proof.
  intros Hw Hs Hp. destruct (element_good block c (tc_wf_dec_valid c Hw) hs hp Hs Hp) as [H1 [H2 _]].
  rewrite twin_element in H1, H2. split; auto. intros n v E. apply (H2 (n, v) E).
Qed.

Theorem DecodeABIData_total c b off : tc_wf c = true -> 0 <= off -> DecodeABIData c b off <> Panic.
Proof.
  intros Hw Ho. destruct (DecodeABIData_good b c off (tc_wf_dec_valid c Hw) Ho) as [H1 _].
  rewrite twin_DecodeABIData in H1. exact H1.
Qed.

Theorem DecodeCallData_total id c b : tc_wf c = true -> DecodeCallData id c b <> Panic.
Proof.
  intros Hw. unfold DecodeCallData.
  destruct (length b <? 4)%nat; [discriminate|]. destruct (negb (bytes_eqb id (firstn 4 b))); [discriminate|].
  apply DecodeABIData_total; auto. lia.
Qed.

Theorem DecodeABIData_alloc_bound c b off :
  tc_wf c = true -> no_zero_size_elem c = true -> 0 <= off ->
  (alloc (DecodeABIData_c c b off) <= bound c (N.of_nat (length b)))%N.
Proof.
  intros Hw Hnz Ho. destruct (DecodeABIData_good b c off (tc_wf_dec_valid c Hw) Ho) as [_ [_ H3]].
  apply H3, Hnz.
Qed.

Theorem DecodeCallData_alloc_bound id c b :
  tc_wf c = true -> no_zero_size_elem c = true ->
  (alloc (DecodeCallData_c id c b) <= bound c (N.of_nat (length b)))%N.
Proof.
  intros Hw Hnz. unfold DecodeCallData_c, alloc.
  destruct (length b <? 4)%nat; [simpl; lia|]. destruct (negb (bytes_eqb id (firstn 4 b))); [simpl; lia|].
  apply DecodeABIData_alloc_bound; auto. lia.
Qed.

(* the shape of the bound: a polynomial in the data length whose degree is the nesting depth of
   dynamic arrays; nothing but the type and the length enters *)
Lemma bound_dyn ch k n : bound (TCDynArr ch k) n = (1 + (n / 32 + 1) + (n / 32 + 1) * bound ch n)%N.
Proof. reflexivity. Qed.
Lemma bound_fixed len ch k n :
  bound (TCFixedArr len ch k) n =
  (let c := fixed_count len (occupiesHeadBytes ch) n in 1 + 2 * c + c * bound ch n)%N.
Proof. reflexivity. Qed.
Lemma bound_tuple l k n :
  bound (TCTuple l k) n = (1 + N.of_nat (length l) + fold_right (fun ch acc => bound ch n + acc) 0 l)%N.
Proof. reflexivity. Qed.

Lemma bound_mono c : forall n n', (n <= n')%N -> (bound c n <= bound c n')%N.
Proof.
  induction c as [e s m n0 k|len ch k IH|ch k IH|l k IH] using tcomp_ind'; intros n n' H.
  - cbn [bound]. destruct (decoder_of e); try lia; destruct (m =? 0)%N; lia.
  - cbn [bound]. specialize (IH n n' H).
    assert (n / 32 <= n' / 32)%N by (apply N.div_le_mono; lia).
    assert (fixed_count len (occupiesHeadBytes ch) n <= fixed_count len (occupiesHeadBytes ch) n')%N
      by (unfold fixed_count; destruct (occupiesHeadBytes ch); lia).
    nia.
  - cbn [bound]. specialize (IH n n' H).
    assert (n / 32 <= n' / 32)%N by (apply N.div_le_mono; lia). nia.
  - cbn [bound]. induction IH as [|x r Hx Hr IHr]; cbn [fold_right length]; [lia|].
    specialize (Hx n n' H). lia.
Qed.
