(* C11, third part: the entry points of abi.go (model Abi/EntryModel.v, owned by C12) instantiated
   with the decoder model never panic: event logs (any topic list, any topic width, any data) and
   revert data (any list of error definitions).  Uses C12's functional description of the event
   decoder (EntryProofsEvent.DecodeEventData_spec). *)
From Coq Require Import List NArith ZArith Bool Lia Arith.
From Coq Require Import Init.Byte.
From FFS Require Import Base.Res Base.Bytes Abi.Types Abi.Spec Abi.ModelTypes Abi.DecModel Abi.DecCost.
From FFS Require Import Abi.DecTotalProofs Abi.EntryModel Abi.EntryProofs Abi.EntryProofsEvent Abi.EntryInst.
Import ListNotations.

(* every parameter of the entry that has a component tree has a valid one (Entry.Validate passed) *)
Definition params_wf (pa : list param) : Prop :=
  forall p tc, In p pa -> p_tc p = Some tc -> tc_wf tc = true.

Lemma tc_wf_tuple l k : Forall (fun c => tc_wf c = true) l -> tc_wf (TCTuple l k) = true.
Proof.
  intros Hf. unfold tc_wf in *. cbn [tc_consistent ty_of wf_ty].
  apply andb_true_iff. split; apply forallb_forall.
  - intros x Hx. rewrite Forall_forall in Hf. specialize (Hf x Hx). apply andb_true_iff in Hf. tauto.
  - intros t Ht. apply in_map_iff in Ht as [x [<- Hx]]. rewrite Forall_forall in Hf.
    specialize (Hf x Hx). apply andb_true_iff in Hf. tauto.
Qed.

Lemma tree_children_wf pa : forall cs, params_wf pa -> tree_children pa = Ok cs -> Forall (fun c => tc_wf c = true) cs.
Proof.
  induction pa as [|p r IH]; intros cs Hw; cbn [tree_children].
  - intros E; injection E as <-. constructor.
  - destruct (p_tc p) as [tc|] eqn:Ep; [|discriminate].
    destruct (tree_children r) as [rest| |] eqn:Er; cbn [bind]; try discriminate.
    intros E; injection E as <-. constructor.
    + apply (Hw p tc); [left; reflexivity|exact Ep].
    + apply IH; auto. intros q tq Hq. apply Hw. right. exact Hq.
Qed.

Section EntryTotal.
  Variable H : bytes -> bytes.

  Notation dec := DecModel.DecodeABIData.
  Notation dece := DecModel.decode_elementary.

  Lemma topicToValue_total topic tc : tc_wf tc = true -> topicToValue dece topic tc <> Panic.
  Proof.
    intros Hw. destruct tc as [e s m n k| | |]; cbn [topicToValue]; try discriminate.
    destruct (fixed32 e); [|discriminate].
    apply tc_wf_dec_valid in Hw.
    destruct (decode_elementary_spec topic e s m n k 0 0 Hw) as [Hp _]; try lia. exact Hp.
  Qed.

  Lemma topic_phase_total (l : ins) : Forall (fun c => tc_wf c = true) (map fst l) ->
    forall tps, topic_phase dece l tps <> Panic.
  Proof.
    induction l as [|[tc [|]] r IH]; intros Hf tps; cbn [topic_phase]; [discriminate| |].
    - cbn [map fst] in Hf. inversion Hf as [|? ? H1 H2]; subst.
      destruct tps as [|t ts]; [discriminate|].
      pose proof (topicToValue_total t tc H1) as Ht.
      destruct (topicToValue dece t tc); cbn [bind]; try congruence.
      specialize (IH H2 ts). destruct (topic_phase dece r ts); cbn [bind]; congruence.
    - cbn [map fst] in Hf. inversion Hf as [|? ? H1 H2]; subst.
      specialize (IH H2 tps). destruct (topic_phase dece r tps); cbn [bind]; congruence.
  Qed.

  Lemma zip_inputs_fst_in cs pa x : In x (map fst (zip_inputs cs pa)) -> In x cs.
  Proof.
    revert pa. induction cs as [|c cs' IH]; intros [|p pa']; cbn [zip_inputs map]; intros Hx; try (exfalso; exact Hx).
    cbn [fst] in Hx. destruct Hx as [<-|Hx]; [left; reflexivity|right; eapply IH; eauto].
  Qed.

  Lemma data_args_in (l : ins) x : In x (data_args l) -> In x (map fst l).
  Proof.
    unfold data_args. intros Hx. apply in_map_iff in Hx as [[a b] [<- Hin]].
    apply filter_In in Hin as [Hin _]. apply in_map_iff. exists (a, b). auto.
  Qed.

  (* event logs *)
  Theorem DecodeEventData_total e topics data :
    params_wf (e_inputs e) -> DecodeEventData H dec dece e topics data <> Panic.
  Proof.
    intros Hw. rewrite DecodeEventData_spec. unfold event_spec.
    pose proof (tree_children_not_panic (e_inputs e)) as Hc.
    destruct (tree_children (e_inputs e)) as [cs| |] eqn:Ec; cbn [bind]; try congruence.
    pose proof (tree_children_wf _ _ Hw Ec) as Hcs.
    unfold sig_topic_guard.
    assert (Hg : forall r : res nat,
              (r = Ok O \/ r = Ok 1%nat \/ exists c, r = Err c) ->
              (do tix <- r;
               do slots <- topic_phase dece (zip_inputs cs (e_inputs e)) (skipn tix topics);
               do children <-
                  (if (0 <? length (data_args (zip_inputs cs (e_inputs e))))%nat
                   then do dv <- dec (TCTuple (data_args (zip_inputs cs (e_inputs e))) []) data 0%Z;
                        match dv with
                        | CVNil => Panic
                        | CV _ vs _ =>
                            if (length vs <=? length (data_args (zip_inputs cs (e_inputs e))))%nat
                            then Ok (merge slots vs)
                            else event_fill vs 0 (rev (dmap_of (zip_inputs cs (e_inputs e)) 0 0)) (map slot_default slots)
                        end
                   else Ok (merge slots []));
               Ok (CV (Some (TCTuple cs [])) children GNil)) <> Panic).
    { intros r Hr.
      assert (Hl : Forall (fun c => tc_wf c = true) (map fst (zip_inputs cs (e_inputs e)))).
      { apply Forall_forall. intros x Hx. rewrite Forall_forall in Hcs. apply Hcs. eapply zip_inputs_fst_in; eauto. }
      assert (Hphase : forall tix,
                (do slots <- topic_phase dece (zip_inputs cs (e_inputs e)) (skipn tix topics);
                 do children <-
                    (if (0 <? length (data_args (zip_inputs cs (e_inputs e))))%nat
                     then do dv <- dec (TCTuple (data_args (zip_inputs cs (e_inputs e))) []) data 0%Z;
                          match dv with
                          | CVNil => Panic
                          | CV _ vs _ =>
                              if (length vs <=? length (data_args (zip_inputs cs (e_inputs e))))%nat
                              then Ok (merge slots vs)
                              else event_fill vs 0 (rev (dmap_of (zip_inputs cs (e_inputs e)) 0 0)) (map slot_default slots)
                          end
                     else Ok (merge slots []));
                 Ok (CV (Some (TCTuple cs [])) children GNil)) <> Panic).
      { intros tix. pose proof (topic_phase_total _ Hl (skipn tix topics)) as Hp.
        destruct (topic_phase dece (zip_inputs cs (e_inputs e)) (skipn tix topics)) as [slots| |]; cbn [bind]; try congruence.
        destruct (0 <? length (data_args (zip_inputs cs (e_inputs e))))%nat; [|discriminate].
        assert (Hd : tc_wf (TCTuple (data_args (zip_inputs cs (e_inputs e))) []) = true).
        { apply tc_wf_tuple. apply Forall_forall. intros x Hx. rewrite Forall_forall in Hl. apply Hl, data_args_in, Hx. }
        pose proof (DecodeABIData_total _ data 0%Z Hd ltac:(lia)) as Hn.
        destruct (dec (TCTuple (data_args (zip_inputs cs (e_inputs e))) []) data 0%Z) as [dv| |] eqn:Ed; cbn [bind]; try congruence.
        destruct dv as [|c vs g].
        - exfalso. unfold DecModel.DecodeABIData, DecModel.walkTupleABIBytes in Ed.
          destruct (DecModel.walkDynamicChildArrayABIBytes data (data_args (zip_inputs cs (e_inputs e))) 0 0) as [[rd0 l0]| |]; cbn [bind] in Ed; discriminate.
        - rewrite (DecModel_decode_len _ _ _ _ _ _ _ Ed). rewrite Nat.leb_refl. discriminate. }
      destruct Hr as [->|[->|[c ->]]]; cbn [bind]; auto. discriminate. }
    apply Hg. destruct (e_anonymous e); auto.
    destruct topics as [|t0 ts]; [right; right; eauto|].
    destruct (bytes_eqb t0 (SignatureHashBytes H e)); [auto|right; right; eauto].
  Qed.

  (* call data / revert data through the entry level (selector computed from the signature) *)
  Hypothesis H_len : forall x, length (H x) = 32%nat.

  Lemma GenerateFunctionSelector_total e : GenerateFunctionSelector H e <> Panic.
  Proof.
    unfold GenerateFunctionSelector, Signature.
    destruct (tree_children (e_inputs e)) as [cs| |] eqn:Ec.
    - rewrite (sig_inputs_commas _ _ O Ec). cbn [bind]. unfold slice. rewrite H_len. discriminate.
    - destruct (sig_inputs_err (e_inputs e) O) as [c Hc]; [intros cs E; congruence|]. rewrite Hc. discriminate.
    - exfalso. eapply tree_children_not_panic; eauto.
  Qed.

  Theorem Entry_DecodeCallData_total e b : params_wf (e_inputs e) -> EntryModel.DecodeCallData H dec e b <> Panic.
  Proof.
    intros Hw. unfold EntryModel.DecodeCallData.
    pose proof (GenerateFunctionSelector_total e) as Hs.
    destruct (GenerateFunctionSelector H e) as [id| |]; cbn [bind]; try congruence.
    destruct (length b <? 4)%nat eqn:El; [discriminate|]. apply Nat.ltb_ge in El.
    unfold slice. replace (0 <=? 4)%nat with true by reflexivity.
    replace (4 <=? length b)%nat with true by (symmetry; apply Nat.leb_le; lia). cbn [andb bind].
    destruct (negb (bytes_eqb id (firstn (4 - 0) (skipn 0 b)))); [discriminate|].
    unfold DecodeABIData_params, TypeComponentTree.
    pose proof (tree_children_not_panic (e_inputs e)) as Hc.
    destruct (tree_children (e_inputs e)) as [cs| |] eqn:Ec; cbn [bind]; try congruence.
    apply DecodeABIData_total; [|lia]. apply tc_wf_tuple. eapply tree_children_wf; eauto.
  Qed.

  Theorem ParseError_total (a : list entry) revertData :
    (forall e, In e a -> params_wf (e_inputs e)) -> ParseError H dec a revertData <> Panic.
  Proof.
    intros Hw. unfold ParseError.
    assert (Hall : forall e, In e (default_error :: a) -> params_wf (e_inputs e)).
    { intros e [<-|He]; [|auto]. intros p tc [<-|[]] E. cbn in E. injection E as <-. reflexivity. }
    clear Hw. induction (default_error :: a) as [|e r IH]; cbn [parse_error_loop]; [discriminate|].
    assert (Hr : parse_error_loop H dec r revertData <> Panic) by (apply IH; intros e' He'; apply Hall; right; exact He').
    destruct (etype_eqb (e_type e) TyError); auto.
    pose proof (Entry_DecodeCallData_total e revertData (Hall e (or_introl eq_refl))) as Hd.
    destruct (EntryModel.DecodeCallData H dec e revertData); congruence.
  Qed.

  Theorem ErrorString_total (format_args : cval -> option (list bytes)) (a : list entry) revertData :
    (forall e, In e a -> params_wf (e_inputs e)) -> ErrorString H dec format_args a revertData <> Panic.
  Proof.
    intros Hw. unfold ErrorString. pose proof (ParseError_total a revertData Hw) as Hp.
    destruct (ParseError H dec a revertData) as [[[e cv]|]| |]; cbn [bind]; congruence.
  Qed.
End EntryTotal.

(* ------------------------------------------------------------------------------------------------
   the trees returned by the event and revert entry points can be serialised as well
   ------------------------------------------------------------------------------------------------ *)
From FFS Require Import Abi.SerModel Abi.DecTotalProofs2.

Section EntrySerializable.
  Variable H : bytes -> bytes.

  Notation dec := DecModel.DecodeABIData.
  Notation dece := DecModel.decode_elementary.

  Lemma topicToValue_ser_ok topic tc v : tc_wf tc = true -> topicToValue dece topic tc = Ok v -> ser_ok v = true.
  Proof.
    intros Hw. apply tc_wf_ser_valid in Hw.
    destruct tc as [e s m n k| | |]; cbn [topicToValue].
    - destruct (fixed32 e).
      + intros E. eapply decode_elementary_ser_ok; eauto.
      + intros E; injection E as <-. reflexivity.
    - intros E; injection E as <-. reflexivity.
    - intros E; injection E as <-. reflexivity.
    - intros E; injection E as <-. reflexivity.
  Qed.

  Definition slots_ok (slots : list (option cval)) : Prop :=
    Forall (fun s => match s with Some v => ser_ok v = true | None => True end) slots.

  Lemma topic_phase_ser_ok (l : ins) : Forall (fun c => tc_wf c = true) (map fst l) ->
    forall tps slots, topic_phase dece l tps = Ok slots -> slots_ok slots.
  Proof.
    induction l as [|[tc [|]] r IH]; intros Hf tps slots; cbn [topic_phase].
    - intros E; injection E as <-. constructor.
    - cbn [map fst] in Hf. inversion Hf as [|? ? H1 H2]; subst.
      destruct tps as [|t ts]; [discriminate|].
      destruct (topicToValue dece t tc) as [v| |] eqn:Ev; cbn [bind]; try discriminate.
      destruct (topic_phase dece r ts) as [rest| |] eqn:Er; cbn [bind]; try discriminate.
      intros E; injection E as <-. constructor; [eapply topicToValue_ser_ok; eauto|eapply IH; eauto].
    - cbn [map fst] in Hf. inversion Hf as [|? ? H1 H2]; subst.
      destruct (topic_phase dece r tps) as [rest| |] eqn:Er; cbn [bind]; try discriminate.
      intros E; injection E as <-. constructor; [exact I|eapply IH; eauto].
  Qed.

  Lemma merge_ser_ok slots : slots_ok slots -> forall vs, forallb ser_ok vs = true ->
    (n_free slots <= length vs)%nat -> forallb ser_ok (merge slots vs) = true.
  Proof.
    induction 1 as [|[v|] r Hs Hr IH]; intros vs Hv Hn; cbn [merge]; [reflexivity| |].
    - cbn [forallb]. rewrite Hs. apply IH; auto.
    - unfold n_free in Hn. cbn [filter length] in Hn.
      destruct vs as [|d ds]; [cbn [length] in Hn; lia|].
      cbn [forallb] in *. apply andb_true_iff in Hv as [H1 H2]. rewrite H1. apply IH; auto.
      cbn [length] in Hn. unfold n_free. lia.
  Qed.

  Theorem DecodeEventData_ser_ok e topics data x :
    params_wf (e_inputs e) -> DecodeEventData H dec dece e topics data = Ok x -> ser_ok x = true.
  Proof.
    intros Hw. rewrite DecodeEventData_spec. unfold event_spec.
    destruct (tree_children (e_inputs e)) as [cs| |] eqn:Ec; cbn [bind]; try discriminate.
    pose proof (tree_children_wf _ _ Hw Ec) as Hcs.
    destruct (sig_topic_guard H e topics) as [tix| |]; cbn [bind]; try discriminate.
    set (l := zip_inputs cs (e_inputs e)).
    assert (Hl : Forall (fun c => tc_wf c = true) (map fst l)).
    { apply Forall_forall. intros y Hy. rewrite Forall_forall in Hcs. apply Hcs. eapply zip_inputs_fst_in; eauto. }
    destruct (topic_phase dece l (skipn tix topics)) as [slots| |] eqn:Et; cbn [bind]; try discriminate.
    pose proof (topic_phase_ser_ok l Hl _ _ Et) as Hso.
    destruct (topic_phase_shape _ _ _ _ Et) as (_ & Hfree & _).
    destruct (0 <? length (data_args l))%nat eqn:E0.
    - assert (Hd : tc_wf (TCTuple (data_args l) []) = true).
      { apply tc_wf_tuple. apply Forall_forall. intros y Hy. rewrite Forall_forall in Hl. apply Hl, data_args_in, Hy. }
      destruct (dec (TCTuple (data_args l) []) data 0%Z) as [dv| |] eqn:Ed; cbn [bind]; try discriminate.
      pose proof (DecodeABIData_ser_ok _ _ _ _ Hd Ed) as Hdv.
      destruct dv as [|c vs g]; [discriminate|].
      rewrite (DecModel_decode_len _ _ _ _ _ _ _ Ed), Nat.leb_refl. cbn [bind].
      intros E; injection E as <-. cbn [ser_ok].
      assert (Hc : c = Some (TCTuple (data_args l) [])).
      { unfold DecModel.DecodeABIData, DecModel.walkTupleABIBytes in Ed.
        destruct (DecModel.walkDynamicChildArrayABIBytes data (data_args l) 0 0) as [[rd0 l0]| |]; cbn [bind] in Ed; try discriminate.
        injection Ed as <- _ _. reflexivity. }
      subst c. cbn [ser_ok] in Hdv.
      apply merge_ser_ok; auto. rewrite Hfree, (DecModel_decode_len _ _ _ _ _ _ _ Ed). lia.
    - cbn [bind]. intros E; injection E as <-. cbn [ser_ok].
      apply merge_ser_ok; auto. apply Nat.ltb_ge in E0. cbn [length]. lia.
  Qed.

  Theorem Entry_DecodeCallData_ser_ok e b x :
    params_wf (e_inputs e) -> EntryModel.DecodeCallData H dec e b = Ok x -> ser_ok x = true.
  Proof.
    intros Hw. unfold EntryModel.DecodeCallData.
    destruct (GenerateFunctionSelector H e) as [id| |]; cbn [bind]; try discriminate.
    destruct (length b <? 4)%nat; [discriminate|].
    destruct (slice b 0 4) as [b4| |]; cbn [bind]; try discriminate.
    destruct (negb (bytes_eqb id b4)); [discriminate|].
    unfold DecodeABIData_params, TypeComponentTree.
    destruct (tree_children (e_inputs e)) as [cs| |] eqn:Ec; cbn [bind]; try discriminate.
    apply DecodeABIData_ser_ok. apply tc_wf_tuple. eapply tree_children_wf; eauto.
  Qed.

  Theorem ParseError_ser_ok (a : list entry) revertData e x :
    (forall e, In e a -> params_wf (e_inputs e)) ->
    ParseError H dec a revertData = Ok (Some (e, x)) -> ser_ok x = true.
  Proof.
    intros Hw. unfold ParseError.
    assert (Hall : forall e, In e (default_error :: a) -> params_wf (e_inputs e)).
    { intros e0 [<-|He]; [|auto]. intros p tc [<-|[]] E. cbn in E. injection E as <-. reflexivity. }
    clear Hw. induction (default_error :: a) as [|e0 r IH]; cbn [parse_error_loop]; [discriminate|].
    assert (Hr : parse_error_loop H dec r revertData = Ok (Some (e, x)) -> ser_ok x = true)
      by (apply IH; intros e' He'; apply Hall; right; exact He').
    destruct (etype_eqb (e_type e0) TyError); auto.
    destruct (EntryModel.DecodeCallData H dec e0 revertData) as [cv| |] eqn:Ed; auto; try discriminate.
    intros E; injection E as <- <-. eapply Entry_DecodeCallData_ser_ok; eauto. apply Hall. left. reflexivity.
  Qed.
End EntrySerializable.

(* the statements used by Properties/C11.v *)
Theorem event_tree_serializable :
  forall (H : bytes -> bytes) (e : entry) (topics : list bytes) (data : bytes) (x : cval),
    params_wf (e_inputs e) ->
    DecodeEventData H DecModel.DecodeABIData DecModel.decode_elementary e topics data = Ok x ->
    forall (H' : bytes -> bytes) (fs : bfloat -> jv) (dn : nat -> bytes) (s : serializer),
      SerializeJSON H' fs dn s x <> Panic /\ SerializeInterface H' fs dn s x <> Panic.
Proof.
  intros H e topics data x Hw Hd H' fs dn s.
  pose proof (walkOutput_total H' fs dn s x (DecodeEventData_ser_ok H e topics data x Hw Hd)) as Hn.
  unfold SerializeJSON, SerializeInterface. split; auto. destruct (walkOutput H' fs dn s x); cbn [bind]; congruence.
Qed.

Theorem revert_tree_serializable :
  forall (H : bytes -> bytes) (a : list entry) (revertData : bytes) (e : entry) (x : cval),
    (forall e, In e a -> params_wf (e_inputs e)) ->
    ParseError H DecModel.DecodeABIData a revertData = Ok (Some (e, x)) ->
    forall (H' : bytes -> bytes) (fs : bfloat -> jv) (dn : nat -> bytes) (s : serializer),
      SerializeJSON H' fs dn s x <> Panic /\ SerializeInterface H' fs dn s x <> Panic.
Proof.
  intros H a rd e x Hw Hd H' fs dn s.
  pose proof (walkOutput_total H' fs dn s x (ParseError_ser_ok H a rd e x Hw Hd)) as Hn.
  unfold SerializeJSON, SerializeInterface. split; auto. destruct (walkOutput H' fs dn s x); cbn [bind]; congruence.
Qed.

Theorem revert_total :
  forall (H : bytes -> bytes), (forall x, length (H x) = 32%nat) ->
  forall (format_args : cval -> option (list bytes)) (a : list entry) (revertData : bytes),
    (forall e, In e a -> params_wf (e_inputs e)) ->
    ParseError H DecModel.DecodeABIData a revertData <> Panic /\
    ErrorString H DecModel.DecodeABIData format_args a revertData <> Panic.
Proof.
  intros H HH fa a rd Hw. split; [apply ParseError_total|apply ErrorString_total]; assumption.
Qed.
