(* Refutations: the full statement "every well-typed value is encoded as the specification says" is
   false of the faithful model for fixed-point types (known findings C02/fixed-...).  Witnesses are run
   through the executable model. *)
From Coq Require Import String.
From Coq Require Import List NArith ZArith Bool Arith Lia.
From Coq Require Import Init.Byte.
From FFS Require Import Base.Res Base.Bytes Abi.Types Abi.Spec Abi.ModelTypes Abi.EncModel Abi.InputModel.
Import ListNotations.
Local Open Scope string_scope.

Definition fx (e : ekind) (sfx : string) (m n : N) : tcomp := TCElem e (ascii_bytes sfx) m n [].
Definition enc_text (tc : tcomp) (lit : string) : res bytes :=
  EncodeABIDataValues BigIntegerFromString [tc] (XList [XStr (ascii_bytes lit)]).
(* the specification's encoding of the one-parameter list holding the scaled value z = literal * 10^N *)
Definition spec_of (tc : tcomp) (z : Z) : bytes := enc (TTuple [ty_of tc]) (VList [VNum z]).
Definition typed (tc : tcomp) (z : Z) : bool := well_typed (TTuple [ty_of tc]) (VList [VNum z]).

Definition res_is (r : res bytes) (b : bytes) : bool := match r with Ok x => bytes_eqb x b | _ => false end.

(* D02b: "-1.5" as fixed128x18 is well typed (-1.5 * 10^18) but is encoded as +1.5 *)
Lemma fixed_sign_lost :
  let tc := fx EFixed "128x18" 128 18 in
  typed tc (-1500000000000000000) = true /\
  res_is (enc_text tc "-1.5") (spec_of tc 1500000000000000000) = true /\
  res_is (enc_text tc "-1.5") (spec_of tc (-1500000000000000000)) = false.
Proof. cbv zeta. repeat split; vm_compute; reflexivity. Qed.

(* D02c: "12.8" as ufixed8x1 is well typed (128 < 2^8) but is rejected *)
Lemma ufixed_range_signed :
  let tc := fx EUFixed "8x1" 8 1 in
  typed tc 128 = true /\ is_err (enc_text tc "12.8") = true.
Proof. cbv zeta. split; vm_compute; reflexivity. Qed.

(* D02d: a 27-digit literal with 18 fractional digits is well typed for ufixed128x18 but its low
   digits are lost *)
Lemma fixed_precision_lost :
  let tc := fx EUFixed "128x18" 128 18 in
  typed tc 123456789123456789123456789 = true /\
  is_ok (enc_text tc "123456789.123456789123456789") = true /\
  res_is (enc_text tc "123456789.123456789123456789") (spec_of tc 123456789123456789123456789) = false.
Proof. cbv zeta. repeat split; vm_compute; reflexivity. Qed.

(* ... while a short literal is encoded as the specification says *)
Lemma fixed_short_literal_ok :
  let tc := fx EFixed "128x18" 128 18 in
  res_is (enc_text tc "1.5") (spec_of tc 1500000000000000000) = true.
Proof. vm_compute. reflexivity. Qed.

(* ---------- inputs for the non-vacuity examples of Properties/C02.v ---------- *)
From FFS Require Import Abi.EncProofs3.

Definition ex_params : list tcomp :=
  match ex_tc with TCTuple l _ => l | _ => [] end.
(* the value ex_val as external input: tuples as object / array, integers as JSON number, hex text,
   Go int8 and big.Int, bytes as hex text and []byte *)
Definition ex_input : ext :=
  XList [XList [XList [XMap [(ascii_bytes "u", XInt KInt8 (-128)); (ascii_bytes "b", XStr (ascii_bytes "0x616161616161616161616161616161616161616161616161616161616161616161"))];
                       XList [XBytes []; XJNum (ascii_bytes "1.27e2")]]];
         XStr (ascii_bytes "0xffffffffffffffffffffffffffffffffffffffffffffffffffffffffffffffff");
         XStr (ascii_bytes "010203"); XStr (ascii_bytes "hi")].
