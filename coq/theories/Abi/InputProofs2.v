(* The executable BigIntegerFromString of Abi/InputModel.v reads canonical decimal texts and 0x-hex
   texts (either case) as the integer they denote (Horner value of their digits).  This instantiates
   the parser law of the integer theorems for the two text spellings the property names; the full
   denotation of every accepted spelling is C19's subject. *)
From Coq Require Import List NArith ZArith Bool Arith Lia.
From Coq Require Import ZifyNat ZifyN ZifyBool.
From Coq Require Import Init.Byte.
From FFS Require Import Base.Res Base.Bytes Abi.ModelTypes Abi.EncModel Abi.InputModel.
Import ListNotations.

(* value of a digit list in a base, most significant first *)
Definition horner (base : N) (ds : list N) (acc : N) : N := fold_left (fun a d => a * base + d)%N ds acc.

(* a text character and the digit it stands for *)
Definition digit_char (base : N) (c : byte) (d : N) : Prop :=
  digit_val c = d /\ (d < base)%N /\ b2n c <> 95%N.

Lemma scan_digits_all base cs ds : Forall2 (digit_char base) cs ds ->
  forall acc count prev inval,
  scan_digits base true cs acc count prev inval
  = (horner base ds acc, (count + length cs)%nat, inval, match cs with [] => prev | _ => PDig end, []).
Proof.
  induction 1 as [|c d cs ds (V & L & U) _ IH]; intros acc count prev inval; cbn [scan_digits horner fold_left length].
  - rewrite Nat.add_0_r. reflexivity.
  - unfold bn. replace (b2n c =? 95)%N with false by (symmetry; apply N.eqb_neq; exact U). cbn [andb].
    rewrite V. replace (base <=? d)%N with false by (symmetry; apply N.leb_gt; exact L).
    rewrite IH. unfold horner. cbn [fold_left]. replace (S count + length cs)%nat with (count + S (length cs))%nat by lia.
    destruct cs; reflexivity.
Qed.

(* decimal digit characters *)
Definition dec_char (d : N) : byte := n2b (48 + d).
Lemma dec_char_ok d : (d < 10)%N -> digit_char 10 (dec_char d) d.
Proof.
  intros H. unfold digit_char, dec_char, digit_val, bn. rewrite b2n_n2b by lia.
  replace ((48 <=? 48 + d) && (48 + d <=? 57))%N with true by (symmetry; apply andb_true_intro; split; apply N.leb_le; lia).
  repeat split; lia.
Qed.

Definition minus : byte := x2d.

(* canonical decimal text: optional '-', digits, first digit non-zero (or the single digit 0) *)
Theorem decimal_text_exact (neg : bool) (d0 : N) (ds : list N) :
  (0 < d0 < 10)%N -> Forall (fun d => d < 10)%N ds ->
  BigIntegerFromString ((if neg then [minus] else []) ++ map dec_char (d0 :: ds))
  = Ok (let v := Z.of_N (horner 10 (d0 :: ds) 0) in if neg then (- v)%Z else v).
Proof.
  intros H0 Hds. unfold BigIntegerFromString.
  assert (F : Forall2 (digit_char 10) (map dec_char (d0 :: ds)) (d0 :: ds)).
  { constructor; [apply dec_char_ok; lia|]. induction Hds; cbn [map]; constructor; [apply dec_char_ok; assumption|assumption]. }
  assert (S0 : set_string0 ((if neg then [minus] else []) ++ map dec_char (d0 :: ds))
               = Some (let v := Z.of_N (horner 10 (d0 :: ds) 0) in if neg then (- v)%Z else v)).
  { unfold set_string0.
    assert (C0 : b2n (dec_char d0) = (48 + d0)%N) by (unfold dec_char; apply b2n_n2b; lia).
    assert (NS : is_b (dec_char d0) 45 = false /\ is_b (dec_char d0) 43 = false /\ is_b (dec_char d0) 48 = false).
    { unfold is_b, bn. rewrite C0. repeat split; apply N.eqb_neq; lia. }
    destruct NS as (N1 & N2 & N3).
    destruct neg; cbn [app map].
    - replace (is_b minus 45) with true by reflexivity. rewrite N3.
      rewrite (scan_digits_all 10 _ _ F). cbn [orb]. cbn [map length Nat.add Nat.eqb]. reflexivity.
    - rewrite N1, N2, N3. rewrite (scan_digits_all 10 _ _ F). cbn [orb]. cbn [map length Nat.add Nat.eqb]. reflexivity. }
  rewrite S0. reflexivity.
Qed.

Lemma zero_text_exact : BigIntegerFromString [x30] = Ok 0%Z.
Proof. reflexivity. Qed.

(* hex digit characters, either case *)
Definition hex_char (upper : bool) (d : N) : byte :=
  if (d <? 10)%N then n2b (48 + d) else if upper then n2b (65 + d - 10) else n2b (97 + d - 10).
Lemma hex_char_ok u d : (d < 16)%N -> digit_char 16 (hex_char u d) d.
Proof.
  intros H. unfold digit_char, hex_char, digit_val, bn.
  destruct (d <? 10)%N eqn:E; [apply N.ltb_lt in E|apply N.ltb_ge in E; destruct u]; rewrite b2n_n2b by lia.
  - replace ((48 <=? 48 + d) && (48 + d <=? 57))%N with true by (symmetry; apply andb_true_intro; split; apply N.leb_le; lia).
    repeat split; lia.
  - replace ((48 <=? 65 + d - 10) && (65 + d - 10 <=? 57))%N with false by (symmetry; apply andb_false_iff; right; apply N.leb_gt; lia).
    replace ((97 <=? 65 + d - 10) && (65 + d - 10 <=? 122))%N with false by (symmetry; apply andb_false_iff; left; apply N.leb_gt; lia).
    replace ((65 <=? 65 + d - 10) && (65 + d - 10 <=? 90))%N with true by (symmetry; apply andb_true_intro; split; apply N.leb_le; lia).
    repeat split; lia.
  - replace ((48 <=? 97 + d - 10) && (97 + d - 10 <=? 57))%N with false by (symmetry; apply andb_false_iff; right; apply N.leb_gt; lia).
    replace ((97 <=? 97 + d - 10) && (97 + d - 10 <=? 122))%N with true by (symmetry; apply andb_true_intro; split; apply N.leb_le; lia).
    repeat split; lia.
Qed.

(* "0x" / "-0x" followed by at least one hex digit, digits in any mix of cases, leading zeros allowed *)
Theorem hex_text_exact (neg : bool) (ds : list (bool * N)) :
  ds <> [] -> Forall (fun ud => snd ud < 16)%N ds ->
  BigIntegerFromString ((if neg then [minus] else []) ++ x30 :: x78 :: map (fun ud => hex_char (fst ud) (snd ud)) ds)
  = Ok (let v := Z.of_N (horner 16 (map snd ds) 0) in if neg then (- v)%Z else v).
Proof.
  intros NE Hds. unfold BigIntegerFromString.
  assert (F : Forall2 (digit_char 16) (map (fun ud => hex_char (fst ud) (snd ud)) ds) (map snd ds)).
  { clear NE. induction Hds; cbn [map]; [constructor|constructor; [apply hex_char_ok; assumption|assumption]]. }
  assert (L : length (map (fun ud => hex_char (fst ud) (snd ud)) ds) <> 0%nat) by (destruct ds; [contradiction|discriminate]).
  assert (S0 : set_string0 ((if neg then [minus] else []) ++ x30 :: x78 :: map (fun ud => hex_char (fst ud) (snd ud)) ds)
               = Some (let v := Z.of_N (horner 16 (map snd ds) 0) in if neg then (- v)%Z else v)).
  { unfold set_string0. destruct neg; cbn [app].
    - replace (is_b minus 45) with true by reflexivity.
      replace (is_b x30 48) with true by reflexivity.
      replace (is_b x78 98 || is_b x78 66) with false by reflexivity.
      replace (is_b x78 111 || is_b x78 79) with false by reflexivity.
      replace (is_b x78 120 || is_b x78 88) with true by reflexivity.
      rewrite (scan_digits_all 16 _ _ F). cbn [orb Nat.add].
      destruct (length _) eqn:E; [contradiction|]. cbn [Nat.eqb].
      destruct (map (fun ud => hex_char (fst ud) (snd ud)) ds); [discriminate|]. reflexivity.
    - replace (is_b x30 45) with false by reflexivity. replace (is_b x30 43) with false by reflexivity.
      replace (is_b x30 48) with true by reflexivity.
      replace (is_b x78 98 || is_b x78 66) with false by reflexivity.
      replace (is_b x78 111 || is_b x78 79) with false by reflexivity.
      replace (is_b x78 120 || is_b x78 88) with true by reflexivity.
      rewrite (scan_digits_all 16 _ _ F). cbn [orb Nat.add].
      destruct (length _) eqn:E; [contradiction|]. cbn [Nat.eqb].
      destruct (map (fun ud => hex_char (fst ud) (snd ud)) ds); [discriminate|]. reflexivity. }
  rewrite S0. reflexivity.
Qed.
