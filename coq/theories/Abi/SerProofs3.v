(* Proofs about the serializer model, part 3: the statements in the form used by Properties/C03.v
   (SerializeJSON = walkOutput followed by json.Marshal's view), and the composition with the decoder. *)
From Coq Require Import List NArith ZArith Bool Lia.
From Coq Require Import Init.Byte.
From FFS Require Import Base.Res Base.Bytes Abi.Types Abi.Spec Abi.ModelTypes Abi.Render.
From FFS Require Import Abi.DecModel Abi.DecSpec Abi.SerModel Abi.SerSpec.
From FFS Require Import Abi.DecProofs2 Abi.DecProofs3 Abi.DecProofs4 Abi.SerProofs Abi.SerProofs2.
Import ListNotations.
Local Open Scope Z_scope.

Theorem serialize_denotes :
  forall (H : bytes -> bytes), (forall x, length (H x) = 32%nat) ->
  forall (fs : bfloat -> jv) (s : serializer), ts s <> FormatOther ->
  forall (c : tcomp) (v : val), ser_ok s c = true -> well_typed (ty_of c) v = true ->
    exists j, SerializeJSON H fs NumericDefaultNameGenerator s (cv_of c v) = Ok j /\ denotes H s c v j = true.
Proof.
  intros H HL fs s Hm c v Hok Hwt.
  destruct (walkOutput_denotes H HL fs s Hm c Hok v Hwt) as [j [Hj Hd]].
  exists (wire j). split; [unfold SerializeJSON; rewrite Hj; reflexivity|exact Hd].
Qed.

Theorem decode_then_serialize :
  forall (H : bytes -> bytes), (forall x, length (H x) = 32%nat) ->
  forall (fs : bfloat -> jv) (s : serializer), ts s <> FormatOther ->
  forall (children : list tcomp) (k : bytes) (v : val) (pre post : bytes),
    let c := TCTuple children k in
    ser_ok s c = true -> tc_no_zero_len c = true -> well_typed (ty_of c) v = true ->
    zlen (enc (ty_of c) v) < 2 ^ 32 -> counts_ok v = true ->
    exists x j, DecodeABIData c (pre ++ enc (ty_of c) v ++ post) (zlen pre) = Ok x /\
                SerializeJSON H fs NumericDefaultNameGenerator s x = Ok j /\ denotes H s c v j = true.
Proof.
  intros H HL fs s Hm children k v pre post c Hok Hz Hwt Hsz Hcnt.
  destruct (serialize_denotes H HL fs s Hm c v Hok Hwt) as [j [Hj Hd]].
  exists (cv_of c v), j. split; [|split; assumption].
  unfold ser_ok in Hok. rewrite !andb_true_iff in Hok. destruct Hok as [[[[H1 H2] H3] _] _].
  apply DecodeABIData_enc; assumption.
Qed.
