(* Proofs about the serializer model, part 2: serialising the tree of a well-typed value yields, in
   every formatting mode and with every built-in integer / byte / address serializer, JSON that the
   denotation oracle reads back to that value, with member names (default = index), order and type
   labels as in the ABI definition. *)
From Coq Require Import List NArith ZArith Bool Lia Arith.
From Coq Require Import ZifyN ZifyNat ZifyBool.
From Coq Require Import Init.Byte.
From FFS Require Import Base.Res Base.Bytes Abi.Types Abi.Spec Abi.ModelTypes Abi.Render Abi.RenderProofs.
From FFS Require Import Abi.DecSpec Abi.SerModel Abi.SerSpec Abi.SerProofs Abi.DecProofs3.
Import ListNotations.
Local Arguments word z : simpl never.

Lemma bytes_eqb_refl b : bytes_eqb b b = true.
Proof. destruct (bytes_eqb_spec b b); congruence. Qed.

(* ---------- the suffix literal is the canonical one (what the type parser accepts after the
   leading-zero fix), so typeComponent.String() is the canonical type label ---------- *)
Fixpoint tc_canonical (c : tcomp) : bool :=
  match c with
  | TCElem e s m n _ =>
      match e with
      | EInt | EUInt => bytes_eqb s (N_dec m)
      | EFixed | EUFixed => bytes_eqb s (N_dec m ++ [x78] ++ N_dec n)
      | EBytes => bytes_eqb s (if (m =? 0)%N then [] else N_dec m)
      | _ => match s with [] => true | _ => false end
      end
  | TCFixedArr _ ch _ | TCDynArr ch _ => tc_canonical ch
  | TCTuple l _ => forallb tc_canonical l
  end.

Lemma tc_string_sig c : tc_canonical c = true -> tc_consistent c = true -> tc_string c = ty_sig (ty_of c).
Proof.
  induction c as [e s m n k|len ch k IH|ch k IH|l k IH] using tcomp_ind'; intros Hcan Hcon.
  - cbn [tc_canonical] in Hcan. cbn [tc_string ty_of].
    destruct e; cbn [ekind_name ty_sig];
      try (destruct (bytes_eqb_spec s (N_dec m)) as [->|]; [reflexivity|discriminate]);
      try (destruct s; [rewrite app_nil_r; reflexivity|discriminate]).
    + destruct (bytes_eqb_spec s (N_dec m ++ [x78] ++ N_dec n)) as [->|]; [reflexivity|discriminate].
    + destruct (bytes_eqb_spec s (N_dec m ++ [x78] ++ N_dec n)) as [->|]; [reflexivity|discriminate].
    + destruct (m =? 0)%N; cbn [ty_sig];
        match type of Hcan with bytes_eqb s ?x = true => destruct (bytes_eqb_spec s x) as [->|]; [|discriminate] end;
        [rewrite app_nil_r|]; reflexivity.
  - cbn [tc_canonical tc_consistent tc_string ty_of ty_sig] in *.
    rewrite !andb_true_iff in Hcon. destruct Hcon as [[H0 _] Hc].
    rewrite (IH Hcan Hc). unfold Z_dec. replace (len <? 0)%Z with false by (symmetry; apply Z.ltb_ge; lia).
    replace (Z.abs_N len) with (Z.to_N len) by lia. reflexivity.
  - cbn [tc_canonical tc_consistent tc_string ty_of ty_sig] in *. rewrite (IH Hcan Hcon). reflexivity.
  - cbn [tc_canonical tc_consistent tc_string ty_of ty_sig] in *.
    change ([x28] ++ ?x) with (x28 :: x). f_equal. f_equal.
    generalize true as first. induction l as [|c l IHl]; intros first; [reflexivity|].
    inversion IH as [|? ? IHc IHr]; subst. cbn [forallb map] in *.
    apply andb_true_iff in Hcan as [Hc1 Hc2]. apply andb_true_iff in Hcon as [Hk1 Hk2].
    rewrite (IHc Hc1 Hk1), (IHl IHr Hc2 Hk2). reflexivity.
Qed.

(* ---------- maps with distinct keys ---------- *)
Definition set_all (kvs : list (bytes * jv)) (out : list (bytes * jv)) : list (bytes * jv) :=
  fold_left (fun m kv => map_set (fst kv) (snd kv) m) kvs out.

Lemma map_set_new k v m : existsb (bytes_eqb k) (map fst m) = false -> map_set k v m = m ++ [(k, v)].
Proof.
  induction m as [|[k' v'] r IH]; intros Hn; [reflexivity|].
  cbn [map fst existsb] in Hn. apply orb_false_iff in Hn as [H1 H2].
  cbn [map_set]. rewrite H1, (IH H2). reflexivity.
Qed.

Lemma existsb_app {A} (f : A -> bool) a b : existsb f (a ++ b) = existsb f a || existsb f b.
Proof. induction a as [|x a IH]; simpl; [reflexivity|]. rewrite IH, orb_assoc. reflexivity. Qed.

Lemma bytes_eqb_sym a b : bytes_eqb a b = bytes_eqb b a.
Proof. destruct (bytes_eqb_spec a b), (bytes_eqb_spec b a); congruence. Qed.

(* assigning fresh, pairwise distinct keys appends them in order *)
Lemma set_all_distinct kvs : forall out,
  names_distinct_list (map fst kvs) = true ->
  (forall k, In k (map fst kvs) -> existsb (bytes_eqb k) (map fst out) = false) ->
  set_all kvs out = out ++ kvs.
Proof.
  induction kvs as [|[k v] r IH]; intros out Hd Hf; [symmetry; apply app_nil_r|].
  cbn [map fst names_distinct_list] in Hd. apply andb_true_iff in Hd as [Hk Hr]. apply negb_true_iff in Hk.
  unfold set_all in *. cbn [fold_left fst snd].
  rewrite map_set_new by (apply Hf; left; reflexivity).
  rewrite IH; [rewrite <- app_assoc; reflexivity|exact Hr|].
  intros k' Hin. rewrite map_app, existsb_app. cbn [map fst existsb]. rewrite orb_false_r.
  apply orb_false_iff. split; [apply Hf; right; exact Hin|].
  (* k' is in the rest, k is not *)
  destruct (bytes_eqb_spec k' k) as [->|]; [|reflexivity].
  assert (existsb (bytes_eqb k) (map fst r) = true)
    by (apply existsb_exists; exists k; split; [exact Hin|apply bytes_eqb_refl]).
  congruence.
Qed.

Lemma map_get_first k v m : map_get k ((k, v) :: m) = Some v.
Proof. cbn [map_get]. rewrite bytes_eqb_refl. reflexivity. Qed.

(* with distinct keys every entry is found under its key *)
Lemma map_get_distinct m : names_distinct_list (map fst m) = true ->
  forall k v, In (k, v) m -> map_get k m = Some v.
Proof.
  induction m as [|[k' v'] r IH]; intros Hd k v Hin; [destruct Hin|].
  cbn [map fst names_distinct_list] in Hd. apply andb_true_iff in Hd as [Hk Hr]. apply negb_true_iff in Hk.
  destruct Hin as [E|Hin].
  - injection E as -> ->. apply map_get_first.
  - cbn [map_get]. destruct (bytes_eqb_spec k k') as [->|].
    + assert (existsb (bytes_eqb k') (map fst r) = true)
        by (apply existsb_exists; exists k'; split; [apply in_map_iff; exists (k', v); auto|apply bytes_eqb_refl]).
      congruence.
    + apply IH; assumption.
Qed.

Lemma map_get_wire k m :
  map_get k (map (fun kv => (fst kv, wire (snd kv))) m) = option_map wire (map_get k m).
Proof.
  induction m as [|[k' v'] r IH]; [reflexivity|]. cbn [map fst snd map_get].
  destruct (bytes_eqb k k'); [reflexivity|exact IH].
Qed.

(* a well-typed value's tree always carries its component *)
Lemma cv_of_shape c v : well_typed (ty_of c) v = true -> exists l g, cv_of c v = CV (Some c) l g.
Proof.
  destruct c as [e s m n k|len ch k|ch k|cs k]; intros Hwt.
  - destruct e; cbn [ty_of] in Hwt; try (destruct (m =? 0)%N);
      destruct v; cbn [well_typed] in Hwt; try discriminate; cbn [cv_of]; eauto.
  - destruct v; cbn [ty_of well_typed] in Hwt; try discriminate. cbn [cv_of]. eauto.
  - destruct v; cbn [ty_of well_typed] in Hwt; try discriminate. cbn [cv_of]. eauto.
  - destruct v; try (cbn [ty_of well_typed] in Hwt; discriminate). rewrite cv_of_tuple. eauto.
Qed.

Section Main.
  Variable H : bytes -> bytes.
  Hypothesis H_len : forall x, length (H x) = 32%nat.
  Variable fs : bfloat -> jv.
  Variable s : serializer.
  Hypothesis Hmode : ts s <> FormatOther.

  Notation dn := NumericDefaultNameGenerator.
  Notation WO := (walkOutput H fs dn s).

  (* the nested loops of walkOutput under names *)
  Fixpoint walk_all (l : list cval) : res (list jv) :=
    match l with
    | [] => Ok []
    | y :: r => do v <- WO y; do vs <- walk_all r; Ok (v :: vs)
    end.

  Fixpoint obj_go (i : nat) (l : list cval) (out : list (bytes * jv)) : res (list (bytes * jv)) :=
    match l with
    | [] => Ok out
    | CVNil :: _ => Panic
    | CV None _ _ :: r => obj_go (S i) r out
    | (CV (Some cc) _ _ as y) :: r =>
        let name := match tc_key cc with [] => dn i | k => k end in
        do v <- WO y;
        obj_go (S i) r (map_set name v out)
    end.

  Fixpoint sd_go (i : nat) (l : list cval) : res (list jv) :=
    match l with
    | [] => Ok []
    | CVNil :: _ => Panic
    | CV None _ _ :: _ => Err EBadABITypeComponent
    | (CV (Some cc) _ _ as y) :: r =>
        let name := match tc_key cc with [] => dn i | k => k end in
        do v <- WO y;
        do vs <- sd_go (S i) r;
        Ok (JObj [(s_name, JStr name); (s_type, JStr (tc_string cc)); (s_value, v)] :: vs)
    end.

  Lemma WO_fixed len ch k l g : WO (CV (Some (TCFixedArr len ch k)) l g) = do js <- walk_all l; Ok (JArr js).
  Proof. reflexivity. Qed.
  Lemma WO_dyn ch k l g : WO (CV (Some (TCDynArr ch k)) l g) = do js <- walk_all l; Ok (JArr js).
  Proof. reflexivity. Qed.
  Lemma WO_tuple cs k l g :
    WO (CV (Some (TCTuple cs k)) l g) =
    match ts s with
    | FormatAsObjects => do m <- obj_go O l []; Ok (JObj m)
    | FormatAsFlatArrays => do js <- walk_all l; Ok (JArr js)
    | FormatAsSelfDescribingArrays => do js <- sd_go O l; Ok (JArr js)
    | FormatOther => Err EUnknownTupleSerializer
    end.
  Proof. cbn [walkOutput]. destruct (ts s); reflexivity. Qed.
  Lemma WO_elem e su m n k l g : WO (CV (Some (TCElem e su m n k)) l g) = serializeElementaryType H fs s e g.
  Proof. reflexivity. Qed.

  (* ---------- the hypotheses on the component tree ---------- *)
  Definition ser_ok (c : tcomp) : bool :=
    tc_consistent c && wf_ty (ty_of c) && tc_no_fixed_point c && tc_canonical c &&
    match ts s with FormatAsObjects => names_distinct c | _ => true end.

  Lemma ser_ok_fixed len ch k : ser_ok (TCFixedArr len ch k) = true -> ser_ok ch = true.
  Proof.
    unfold ser_ok. cbn [tc_consistent ty_of wf_ty tc_no_fixed_point tc_canonical names_distinct].
    rewrite !andb_true_iff. intros [[[[[[H1 H2] H3] H4] H5] H6] H7]. repeat split; assumption.
  Qed.
  Lemma ser_ok_dyn ch k : ser_ok (TCDynArr ch k) = true -> ser_ok ch = true.
  Proof. unfold ser_ok. cbn [tc_consistent ty_of wf_ty tc_no_fixed_point tc_canonical names_distinct]. tauto. Qed.
  Lemma ser_ok_tuple l k : ser_ok (TCTuple l k) = true -> Forall (fun c => ser_ok c = true) l.
  Proof.
    unfold ser_ok. cbn [tc_consistent ty_of wf_ty tc_no_fixed_point tc_canonical names_distinct].
    rewrite !andb_true_iff, forallb_map', !forallb_forall. intros [[[[H1 H2] H3] H4] H5].
    apply Forall_forall. intros x Hx. rewrite H1, H2, H3, H4 by exact Hx. cbn [andb].
    destruct (ts s); try reflexivity.
    apply andb_true_iff in H5 as [_ H5]. rewrite forallb_forall in H5. apply H5. exact Hx.
  Qed.

  Definition child_ok (c : tcomp) (v : val) (j : jv) : Prop :=
    WO (cv_of c v) = Ok j /\ denotes H s c v (wire j) = true.

  Definition ser_goal (c : tcomp) : Prop :=
    ser_ok c = true -> forall v, well_typed (ty_of c) v = true -> exists j, child_ok c v j.

  (* ---------- elementary ---------- *)
  Lemma ser_elementary e su m n k : ser_goal (TCElem e su m n k).
  Proof.
    intros Hok v Hwt. unfold ser_ok in Hok. cbn [tc_consistent tc_no_fixed_point] in Hok.
    rewrite !andb_true_iff in Hok. destruct Hok as [[[[Hc _] Hnf] _] _].
    unfold child_ok.
    destruct e; cbn [ty_of] in Hwt; try discriminate.
    - destruct v as [z| |]; cbn [well_typed] in Hwt; try discriminate. cbn [cv_of]. rewrite WO_elem.
      eexists; split; [reflexivity|]. cbn [denotes]. apply denotes_int_run.
    - destruct v as [z| |]; cbn [well_typed] in Hwt; try discriminate. cbn [cv_of]. rewrite WO_elem.
      eexists; split; [reflexivity|]. cbn [denotes]. apply denotes_int_run.
    - (* address *)
      destruct v as [z| |]; cbn [well_typed] in Hwt; try discriminate. cbn [cv_of]. rewrite WO_elem.
      assert (Hz : (0 <= z < 2 ^ 160)%Z) by (change (two 160) with (2 ^ 160)%Z in Hwt; lia).
      cbn [serializeElementaryType].
      replace (2 ^ 160 <=? Z.abs z)%Z with false by (symmetry; apply Z.leb_gt; lia).
      pose proof (is_addr_of_be z Hz) as Ha.
      assert (Hl : length (be_bytes 20 (Z.abs_N z)) = 20%nat) by apply be_bytes_length.
      cbn [denotes]. unfold denotes_addr.
      destruct (ad s) as [[| |]|] eqn:Ead.
      + eexists; split; [reflexivity|]. cbn [run_addr_ser wire strip0x]. rewrite bytes_of_hex_hex_of_bytes. exact Ha.
      + eexists; split; [reflexivity|]. cbn [run_addr_ser wire]. rewrite bytes_of_hex_hex_of_bytes. exact Ha.
      + eexists; split; [reflexivity|]. cbn [run_addr_ser wire].
        destruct (eip55_reads_back H H_len _ Hl) as [E1 E2]. rewrite E1, E2, Ha, bytes_eqb_refl. reflexivity.
      + eexists; split; [reflexivity|].
        destruct (bs s); cbn [run_byte_ser wire strip0x].
        * rewrite bytes_of_hex_hex_of_bytes. exact Ha.
        * rewrite bytes_of_hex_hex_of_bytes. exact Ha.
        * replace (Z.to_N z) with (Z.abs_N z) by lia. rewrite bytes_eqb_refl.
          replace (0 <=? z)%Z with true by (symmetry; apply Z.leb_le; lia).
          replace (z <? 2 ^ 160)%Z with true by (symmetry; apply Z.ltb_lt; lia). reflexivity.
    - (* bool *)
      destruct v as [z| |]; cbn [well_typed] in Hwt; try discriminate. cbn [cv_of]. rewrite WO_elem.
      eexists; split; [reflexivity|]. cbn [wire denotes].
      apply orb_true_iff in Hwt as [E|E]; apply Z.eqb_eq in E; subst z; reflexivity.
    - (* bytes<M> / bytes *)
      assert (exists b, v = VBytes b) as [b ->].
      { destruct (m =? 0)%N; destruct v; cbn [well_typed] in Hwt; try discriminate; eauto. }
      cbn [cv_of]. rewrite WO_elem. eexists; split; [reflexivity|]. cbn [denotes]. apply denotes_bytes_run.
    - destruct v as [|b|]; cbn [well_typed] in Hwt; try discriminate. cbn [cv_of]. rewrite WO_elem.
      eexists; split; [reflexivity|]. cbn [denotes]. apply denotes_bytes_run.
    - destruct v as [|b|]; cbn [well_typed] in Hwt; try discriminate. cbn [cv_of]. rewrite WO_elem.
      eexists; split; [reflexivity|]. cbn [wire denotes]. apply bytes_eqb_refl.
  Qed.

  (* ---------- arrays ---------- *)
  Lemma ser_array_children ch :
    (forall v, well_typed (ty_of ch) v = true -> exists j, child_ok ch v j) ->
    forall vs, forallb (well_typed (ty_of ch)) vs = true ->
    exists js, walk_all (map (cv_of ch) vs) = Ok js /\
               (fix go (vs : list val) (js : list jv) {struct vs} : bool :=
                  match vs, js with
                  | [], [] => true
                  | v' :: vs', j' :: js' => denotes H s ch v' j' && go vs' js'
                  | _, _ => false
                  end) vs (map wire js) = true.
  Proof.
    intros Hch. induction vs as [|v vs IH]; intros Hwt.
    - exists []. split; reflexivity.
    - cbn [forallb] in Hwt. apply andb_true_iff in Hwt as [Hv Hvs].
      destruct (Hch v Hv) as [j [Hj Hd]]. destruct (IH Hvs) as [js [Hjs Hds]].
      exists (j :: js). split.
      + cbn [map walk_all]. rewrite Hj. cbn [bind]. rewrite Hjs. reflexivity.
      + cbn [map]. rewrite Hd. exact Hds.
  Qed.

  (* ---------- tuples: flat arrays ---------- *)
  Lemma ser_flat_children cs :
    Forall ser_goal cs -> Forall (fun c => ser_ok c = true) cs ->
    forall vs, tuple_wt (map ty_of cs) vs = true ->
    exists js, walk_all (tuple_cvs cs vs) = Ok js /\
               (fix go (cs : list tcomp) (vs : list val) (js : list jv) {struct vs} : bool :=
                  match cs, vs, js with
                  | [], [], [] => true
                  | c' :: cs', v' :: vs', j' :: js' => denotes H s c' v' j' && go cs' vs' js'
                  | _, _, _ => false
                  end) cs vs (map wire js) = true.
  Proof.
    induction 1 as [|c cs Hc _ IH]; intros Hok vs Hwt.
    - destruct vs; [|discriminate]. exists []. split; reflexivity.
    - destruct vs as [|v vs]; [discriminate|]. inversion Hok as [|? ? Ho1 Ho2]; subst.
      cbn [map tuple_wt] in Hwt. apply andb_true_iff in Hwt as [Hv Hvs].
      destruct (Hc Ho1 v Hv) as [j [Hj Hd]]. destruct (IH Ho2 vs Hvs) as [js [Hjs Hds]].
      exists (j :: js). split.
      + cbn [tuple_cvs walk_all]. rewrite Hj. cbn [bind]. rewrite Hjs. reflexivity.
      + cbn [map]. rewrite Hd. exact Hds.
  Qed.

  (* ---------- tuples: self-describing arrays ---------- *)
  Lemma ser_sd_children cs :
    Forall ser_goal cs -> Forall (fun c => ser_ok c = true) cs ->
    forall vs i, tuple_wt (map ty_of cs) vs = true ->
    exists js, sd_go i (tuple_cvs cs vs) = Ok js /\
               (fix go (i : nat) (cs : list tcomp) (vs : list val) (js : list jv) {struct vs} : bool :=
                  match cs, vs, js with
                  | [], [], [] => true
                  | c' :: cs', v' :: vs', JObj m :: js' =>
                      (length m =? 3)%nat &&
                      match map_get s_name m, map_get s_type m, map_get s_value m with
                      | Some (JStr nm), Some (JStr tl), Some j' =>
                          bytes_eqb nm (effective_name i c') && bytes_eqb tl (ty_sig (ty_of c')) && denotes H s c' v' j'
                      | _, _, _ => false
                      end && go (S i) cs' vs' js'
                  | _, _, _ => false
                  end) i cs vs (map wire js) = true.
  Proof.
    induction 1 as [|c cs Hc _ IH]; intros Hok vs i Hwt.
    - destruct vs; [|discriminate]. exists []. split; reflexivity.
    - destruct vs as [|v vs]; [discriminate|]. inversion Hok as [|? ? Ho1 Ho2]; subst.
      cbn [map tuple_wt] in Hwt. apply andb_true_iff in Hwt as [Hv Hvs].
      destruct (Hc Ho1 v Hv) as [j [Hj Hd]]. destruct (IH Ho2 vs (S i) Hvs) as [js [Hjs Hds]].
      destruct (cv_of_shape c v Hv) as [l [g Esh]].
      eexists. split.
      + cbn [tuple_cvs]. rewrite Esh. cbn [sd_go]. rewrite <- Esh, Hj. cbn [bind]. rewrite Hjs. cbn [bind]. reflexivity.
      + cbn [map wire fst snd length Nat.eqb andb].
        change (map_get s_name [(s_name, JStr (match tc_key c with [] => dn i | k => k end));
                                (s_type, JStr (tc_string c)); (s_value, wire j)])
          with (Some (JStr (match tc_key c with [] => dn i | k => k end))).
        change (map_get s_type [(s_name, JStr (match tc_key c with [] => dn i | k => k end));
                                (s_type, JStr (tc_string c)); (s_value, wire j)])
          with (Some (JStr (tc_string c))).
        change (map_get s_value [(s_name, JStr (match tc_key c with [] => dn i | k => k end));
                                 (s_type, JStr (tc_string c)); (s_value, wire j)])
          with (Some (wire j)).
        unfold ser_ok in Ho1. rewrite !andb_true_iff in Ho1. destruct Ho1 as [[[[Hcon _] _] Hcan] _].
        rewrite (tc_string_sig c Hcan Hcon), !bytes_eqb_refl, Hd. exact Hds.
  Qed.

  (* ---------- tuples: objects ---------- *)
  Definition den_flat :=
    fix go (cs : list tcomp) (vs : list val) (js : list jv) {struct vs} : bool :=
      match cs, vs, js with
      | [], [], [] => true
      | c' :: cs', v' :: vs', j' :: js' => denotes H s c' v' j' && go cs' vs' js'
      | _, _, _ => false
      end.

  Lemma ser_obj_children cs :
    Forall ser_goal cs -> Forall (fun c => ser_ok c = true) cs ->
    forall vs i out, tuple_wt (map ty_of cs) vs = true ->
    exists js, length js = length cs /\
               obj_go i (tuple_cvs cs vs) out = Ok (set_all (combine (effective_names i cs) js) out) /\
               den_flat cs vs (map wire js) = true.
  Proof.
    induction 1 as [|c cs Hc _ IH]; intros Hok vs i out Hwt.
    - destruct vs; [|discriminate]. exists []. repeat split; reflexivity.
    - destruct vs as [|v vs]; [discriminate|]. inversion Hok as [|? ? Ho1 Ho2]; subst.
      cbn [map tuple_wt] in Hwt. apply andb_true_iff in Hwt as [Hv Hvs].
      destruct (Hc Ho1 v Hv) as [j [Hj Hd]].
      destruct (IH Ho2 vs (S i) (map_set (effective_name i c) j out) Hvs) as [js [Hl [Hjs Hds]]].
      destruct (cv_of_shape c v Hv) as [l [g Esh]].
      exists (j :: js). repeat split.
      + cbn [length]. rewrite Hl. reflexivity.
      + cbn [tuple_cvs]. rewrite Esh. cbn [obj_go]. rewrite <- Esh, Hj. cbn [bind].
        change (match tc_key c with [] => dn i | k => k end) with (effective_name i c).
        rewrite Hjs. reflexivity.
      + cbn [map den_flat]. rewrite Hd. exact Hds.
  Qed.

  Lemma effective_names_length i cs : length (effective_names i cs) = length cs.
  Proof. revert i; induction cs as [|c cs IH]; intros i; [reflexivity|]. cbn [effective_names length]. rewrite IH. reflexivity. Qed.

  Lemma map_fst_combine {A B} (a : list A) (b : list B) : length a = length b -> map fst (combine a b) = a.
  Proof.
    revert b; induction a as [|x a IH]; intros [|y b] Hl; try discriminate; [reflexivity|].
    cbn [combine map fst]. rewrite IH by (simpl in Hl; lia). reflexivity.
  Qed.

  Lemma obj_denotes m' : forall cs vs js i,
    (forall k j, In (k, j) (combine (effective_names i cs) js) -> map_get k m' = Some (wire j)) ->
    length js = length cs ->
    den_flat cs vs (map wire js) = true ->
    (fix go (i : nat) (cs : list tcomp) (vs : list val) {struct vs} : bool :=
       match cs, vs with
       | [], [] => true
       | c' :: cs', v' :: vs' =>
           match map_get (effective_name i c') m' with
           | Some j' => denotes H s c' v' j' && go (S i) cs' vs'
           | None => false
           end
       | _, _ => false
       end) i cs vs = true.
  Proof.
    induction cs as [|c cs IH]; intros vs js i Hget Hl Hden.
    - destruct vs; [reflexivity|]. destruct js; discriminate.
    - destruct vs as [|v vs]; [destruct js; discriminate|]. destruct js as [|j js]; [discriminate|].
      cbn [map den_flat] in Hden. apply andb_true_iff in Hden as [Hd Hds].
      cbn [effective_names combine] in Hget.
      rewrite (Hget (effective_name i c) j (or_introl eq_refl)). rewrite Hd. cbn [andb].
      apply (IH vs js (S i)); [|simpl in Hl; lia|exact Hds].
      intros k j' Hin. apply Hget. right. exact Hin.
  Qed.

  (* ---------- the serializer theorem ---------- *)
  Theorem walkOutput_denotes c : ser_goal c.
  Proof.
    induction c as [e su m n k|len ch k IH|ch k IH|l k IH] using tcomp_ind'.
    - apply ser_elementary.
    - intros Hok v Hwt. specialize (IH (ser_ok_fixed _ _ _ Hok)).
      cbn [ty_of] in Hwt. destruct v as [| |vs]; cbn [well_typed] in Hwt; try discriminate.
      apply andb_true_iff in Hwt as [_ Hall].
      destruct (ser_array_children ch IH vs Hall) as [js [Hjs Hds]].
      exists (JArr js). split.
      + change (cv_of (TCFixedArr len ch k) (VList vs)) with (CV (Some (TCFixedArr len ch k)) (map (cv_of ch) vs) GNil).
        rewrite WO_fixed, Hjs. reflexivity.
      + cbn [wire denotes]. exact Hds.
    - intros Hok v Hwt. specialize (IH (ser_ok_dyn _ _ Hok)).
      cbn [ty_of] in Hwt. destruct v as [| |vs]; cbn [well_typed] in Hwt; try discriminate.
      destruct (ser_array_children ch IH vs Hwt) as [js [Hjs Hds]].
      exists (JArr js). split.
      + change (cv_of (TCDynArr ch k) (VList vs)) with (CV (Some (TCDynArr ch k)) (map (cv_of ch) vs) GNil).
        rewrite WO_dyn, Hjs. reflexivity.
      + cbn [wire denotes]. exact Hds.
    - intros Hok v Hwt. pose proof (ser_ok_tuple _ _ Hok) as Hokl.
      cbn [ty_of] in Hwt. destruct v as [| |vs]; try (cbn [well_typed] in Hwt; discriminate).
      rewrite well_typed_tuple in Hwt. unfold child_ok. rewrite cv_of_tuple, WO_tuple.
      destruct (ts s) eqn:Ets; [| | |congruence].
      + (* objects *)
        destruct (ser_obj_children l IH Hokl vs O [] Hwt) as [js [Hl [Hjs Hds]]].
        unfold ser_ok in Hok. rewrite Ets in Hok. rewrite !andb_true_iff in Hok. destruct Hok as [_ Hnd].
        cbn [names_distinct] in Hnd. apply andb_true_iff in Hnd as [Hnd _].
        assert (Hfst : map fst (combine (effective_names O l) js) = effective_names O l)
          by (apply map_fst_combine; rewrite effective_names_length; lia).
        rewrite set_all_distinct in Hjs; [|rewrite Hfst; exact Hnd|intros; reflexivity].
        cbn [app] in Hjs. rewrite Hjs. cbn [bind]. eexists; split; [reflexivity|].
        cbn [wire denotes]. rewrite Ets.
        rewrite map_length, combine_length, effective_names_length, Hl, Nat.min_id, Nat.eqb_refl. cbn [andb].
        apply (obj_denotes _ l vs js O); [|exact Hl|exact Hds].
        intros k' j' Hin. rewrite map_get_wire.
        rewrite (map_get_distinct _ ltac:(rewrite Hfst; exact Hnd) k' j' Hin). reflexivity.
      + (* flat arrays *)
        destruct (ser_flat_children l IH Hokl vs Hwt) as [js [Hjs Hds]].
        rewrite Hjs. cbn [bind]. eexists; split; [reflexivity|]. cbn [wire denotes]. rewrite Ets. exact Hds.
      + (* self-describing arrays *)
        destruct (ser_sd_children l IH Hokl vs O Hwt) as [js [Hjs Hds]].
        rewrite Hjs. cbn [bind]. eexists; split; [reflexivity|]. cbn [wire denotes]. rewrite Ets. exact Hds.
  Qed.
End Main.

(* the number-if-fits clause on the serializer itself *)
Lemma number_if_fits_serialized H fs dn s c e su m n k i :
  is_ s = NumberIfFitsOrBase10StringIntSerializer -> (e = EInt \/ e = EUInt) ->
  SerializeJSON H fs dn s (CV (Some (TCElem e su m n k)) c (GBigInt i)) =
  Ok (if (Z.abs i <=? 2 ^ 53 - 1)%Z then JNumber (Z_dec i) else JStr (Z_dec i)).
Proof.
  intros Hs He. unfold SerializeJSON. cbn [walkOutput].
  destruct He as [-> | ->]; cbn [serializeElementaryType bind]; rewrite Hs, number_if_fits_spec; reflexivity.
Qed.
