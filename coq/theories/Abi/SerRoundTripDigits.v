(* C03 / C02 / C19 composition, part 1: the digit-list form of the standard renderings.
   [Render.N_dec] and [Render.N_hex] are defined through Coq's own [N.to_uint] / [N.to_hex_uint]
   (big.Int.String / Text(16) as library behaviour).  Here: the characters they write are the digit
   characters of a digit list whose Horner value is the number, every digit is below the base, and
   the first digit of a positive number is not zero (the single digit 0 for zero).  This is what the
   text-parser theorems of C02 (InputProofs2: [decimal_text_exact], [hex_text_exact]) and of C19
   (ProofsInt: [set_string_dec], [set_string_neg_dec], [set_string_hex]) take as input. *)
From Coq Require Import List NArith ZArith Bool Lia Decimal Hexadecimal DecimalN HexadecimalN.
From Coq Require Import ZifyN ZifyNat ZifyBool.
From Coq Require Import Init.Byte.
From FFS Require Import Base.Res Base.Bytes Abi.Render Abi.InputProofs2.
Import ListNotations.
Local Open Scope N_scope.

Lemma horner_cons base d ds acc : horner base (d :: ds) acc = horner base ds (acc * base + d).
Proof. reflexivity. Qed.

(* ================================ decimal ================================ *)
Fixpoint dec_digits (d : Decimal.uint) : list N :=
  match d with
  | Decimal.Nil => []
  | Decimal.D0 r => 0 :: dec_digits r | Decimal.D1 r => 1 :: dec_digits r
  | Decimal.D2 r => 2 :: dec_digits r | Decimal.D3 r => 3 :: dec_digits r
  | Decimal.D4 r => 4 :: dec_digits r | Decimal.D5 r => 5 :: dec_digits r
  | Decimal.D6 r => 6 :: dec_digits r | Decimal.D7 r => 7 :: dec_digits r
  | Decimal.D8 r => 8 :: dec_digits r | Decimal.D9 r => 9 :: dec_digits r
  end.

Lemma uint_bytes_digits d : uint_bytes d = map dec_char (dec_digits d).
Proof. induction d; cbn [uint_bytes dec_digits map]; [reflexivity|..]; rewrite IHd; reflexivity. Qed.

Lemma dec_digits_lt d : Forall (fun x => x < 10) (dec_digits d).
Proof. induction d; cbn [dec_digits]; constructor; (lia || assumption). Qed.

(* Pos.of_uint_acc is the Horner scheme *)
Lemma of_uint_acc_horner d : forall acc, Npos (Pos.of_uint_acc d acc) = horner 10 (dec_digits d) (Npos acc).
Proof.
  induction d; intros acc; cbn [Pos.of_uint_acc dec_digits]; [reflexivity|..];
    rewrite horner_cons, IHd; f_equal; lia.
Qed.

Lemma of_uint_horner d : N.of_uint d = horner 10 (dec_digits d) 0.
Proof.
  unfold N.of_uint.
  induction d; cbn [Pos.of_uint dec_digits]; [reflexivity|..]; rewrite horner_cons;
    [exact IHd|..]; rewrite of_uint_acc_horner; reflexivity.
Qed.

(* normal forms start with a non-zero digit, or are the single digit 0 *)
Lemma unorm_head d :
  Decimal.unorm d = Decimal.D0 Decimal.Nil \/
  match dec_digits (Decimal.unorm d) with d0 :: _ => 0 < d0 | [] => False end.
Proof.
  induction d; try (right; cbn; lia).
  - left. reflexivity.
  - exact IHd.
Qed.

Lemma to_uint_normal n : Decimal.unorm (N.to_uint n) = N.to_uint n.
Proof. rewrite <- (DecimalN.Unsigned.of_to n) at 2. symmetry. apply DecimalN.Unsigned.to_of. Qed.

(* the digit-list form of the decimal rendering *)
Theorem N_dec_digits n :
  exists d0 ds, N_dec n = map dec_char (d0 :: ds) /\ Forall (fun x => x < 10) (d0 :: ds) /\
                horner 10 (d0 :: ds) 0 = n /\ (0 < n -> 0 < d0) /\ (n = 0 -> d0 = 0 /\ ds = []).
Proof.
  destruct n as [|p].
  { exists 0, []. repeat split; try reflexivity; try lia. repeat constructor; lia. }
  unfold N_dec. pose proof (uint_bytes_digits (N.to_uint (Npos p))) as B.
  pose proof (dec_digits_lt (N.to_uint (Npos p))) as L.
  pose proof (of_uint_horner (N.to_uint (Npos p))) as V. rewrite DecimalN.Unsigned.of_to in V.
  pose proof (unorm_head (N.to_uint (Npos p))) as Hd. rewrite to_uint_normal in Hd.
  destruct Hd as [Z0|NZ].
  - rewrite Z0 in V. cbv in V. discriminate.
  - destruct (dec_digits (N.to_uint (Npos p))) as [|d0 ds]; [contradiction|]. exists d0, ds.
    split; [exact B|]. split; [exact L|]. split; [symmetry; exact V|]. split; [intros _; exact NZ|].
    intros E; discriminate.
Qed.

(* ================================ hexadecimal ================================ *)
Fixpoint hex_digits (d : Hexadecimal.uint) : list N :=
  match d with
  | Hexadecimal.Nil => []
  | Hexadecimal.D0 r => 0 :: hex_digits r | Hexadecimal.D1 r => 1 :: hex_digits r
  | Hexadecimal.D2 r => 2 :: hex_digits r | Hexadecimal.D3 r => 3 :: hex_digits r
  | Hexadecimal.D4 r => 4 :: hex_digits r | Hexadecimal.D5 r => 5 :: hex_digits r
  | Hexadecimal.D6 r => 6 :: hex_digits r | Hexadecimal.D7 r => 7 :: hex_digits r
  | Hexadecimal.D8 r => 8 :: hex_digits r | Hexadecimal.D9 r => 9 :: hex_digits r
  | Hexadecimal.Da r => 10 :: hex_digits r | Hexadecimal.Db r => 11 :: hex_digits r
  | Hexadecimal.Dc r => 12 :: hex_digits r | Hexadecimal.Dd r => 13 :: hex_digits r
  | Hexadecimal.De r => 14 :: hex_digits r | Hexadecimal.Df r => 15 :: hex_digits r
  end.

Lemma hex_uint_bytes_digits d : hex_uint_bytes d = map (hex_char false) (hex_digits d).
Proof. induction d; cbn [hex_uint_bytes hex_digits map]; [reflexivity|..]; rewrite IHd; reflexivity. Qed.

Lemma hex_digits_lt d : Forall (fun x => x < 16) (hex_digits d).
Proof. induction d; cbn [hex_digits]; constructor; (lia || assumption). Qed.

Lemma of_hex_uint_acc_horner d : forall acc, Npos (Pos.of_hex_uint_acc d acc) = horner 16 (hex_digits d) (Npos acc).
Proof.
  induction d; intros acc; cbn [Pos.of_hex_uint_acc hex_digits]; [reflexivity|..];
    rewrite horner_cons, IHd; f_equal; lia.
Qed.

Lemma of_hex_uint_horner d : N.of_hex_uint d = horner 16 (hex_digits d) 0.
Proof.
  unfold N.of_hex_uint.
  induction d; cbn [Pos.of_hex_uint hex_digits]; [reflexivity|..]; rewrite horner_cons;
    [exact IHd|..]; rewrite of_hex_uint_acc_horner; reflexivity.
Qed.

Lemma to_hex_uint_nonnil n : hex_digits (N.to_hex_uint n) <> [].
Proof.
  pose proof (HexadecimalN.Unsigned.to_of (N.to_hex_uint n)) as T.
  rewrite HexadecimalN.Unsigned.of_to in T.
  assert (G : forall d, hex_digits (Hexadecimal.unorm d) <> []).
  { induction d; try (cbn; discriminate). exact IHd. }
  rewrite T. apply G.
Qed.

(* the digit-list form of the hexadecimal rendering (lower case) *)
Theorem N_hex_digits n :
  exists ds, N_hex n = map (hex_char false) ds /\ ds <> [] /\ Forall (fun x => x < 16) ds /\ horner 16 ds 0 = n.
Proof.
  exists (hex_digits (N.to_hex_uint n)). unfold N_hex.
  split; [apply hex_uint_bytes_digits|]. split; [apply to_hex_uint_nonnil|]. split; [apply hex_digits_lt|].
  rewrite <- of_hex_uint_horner. apply HexadecimalN.Unsigned.of_to.
Qed.
