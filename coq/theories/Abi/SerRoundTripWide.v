(* C03, wave 6: the JSON round trip WITHOUT the tuple-width guard [widths_ok] (tuples of at most 1024 members).
   The guard came from [SerRoundTrip.itoa_dec]: strconv.Itoa (the input walk's default member key, InputModel.itoa:
   a div/mod loop) and strconv.FormatInt (the serializer's default member name, Render.N_dec: N.to_uint) were shown
   equal by computation on 0..1024 only.  Here they are proved equal for EVERY index: both write the canonical
   decimal text of the index in the sense of ReprSpec.dec_text (most significant digit first, no leading zero) -
   [ReprProofs.itoa_text] for the loop, [dec_text_N_dec] below for N.to_uint (from the digit-list form
   SerRoundTripDigits.N_dec_digits) - and that text is unique ([ReprProofs.dec_text_fun]).  The induction of
   SerRoundTrip.walkInput_walkOutput is then replayed without the guard (the elementary, array and tuple-facts lemmas
   are reused as they are), and the corollaries of SerRoundTripC19 / SerReferee are restated without it.
   Nothing in the older files is changed; the old theorems are instances of the new ones. *)
From Coq Require Import List NArith ZArith Bool Lia.
From Coq Require Import ZifyN ZifyNat ZifyBool.
From Coq Require Import Init.Byte.
From FFS Require Import Base.Res Base.Bytes Base.Keccak Abi.Types Abi.Spec Abi.ModelTypes Abi.Render Abi.RenderProofs.
From FFS Require Import Abi.DecModel Abi.DecSpec Abi.DecProofs3 Abi.DecProofs4 Abi.SerModel Abi.SerSpec Abi.SerProofs Abi.SerProofs2.
From FFS Require Import Abi.EncModel Abi.EncProofs3 Abi.InputModel Abi.InputProofs Abi.InputProofs2.
From FFS Require Import Abi.ReprSpec Abi.ReprProofs Abi.SerRoundTripDigits Abi.SerRoundTrip Abi.SerRoundTripC19.
From FFS Require Import Abi.InputC19 Abi.SerWire Abi.SerWireProofs Abi.SerReferee.
From FFS Require EthTypes.Model.
Import ListNotations.

(* ---------- strconv.Itoa = strconv.FormatInt(…, 10) on every index ---------- *)
Lemma horner_ge ds : forall acc, (acc <= horner 10 ds acc)%N.
Proof.
  induction ds as [|d ds IH]; intros acc; [cbn; lia|].
  rewrite horner_cons. specialize (IH (acc * 10 + d)%N). lia.
Qed.

Lemma horner_snoc ds d acc : horner 10 (ds ++ [d]) acc = (10 * horner 10 ds acc + d)%N.
Proof. unfold horner. rewrite fold_left_app. cbn [fold_left]. lia. Qed.

Lemma dec_text_digits : forall ds d0,
  Forall (fun x => x < 10)%N (d0 :: ds) -> (ds <> [] -> 0 < d0)%N ->
  dec_text (horner 10 (d0 :: ds) 0) (map dec_char (d0 :: ds)).
Proof.
  induction ds as [|d ds IH] using rev_ind; intros d0 F P.
  - inversion F; subst. rewrite horner_cons. cbn [horner fold_left map].
    replace (0 * 10 + d0)%N with d0 by lia. apply DT_digit. assumption.
  - assert (F' : Forall (fun x => x < 10)%N (d0 :: ds) /\ (d < 10)%N).
    { change (d0 :: ds ++ [d]) with ((d0 :: ds) ++ [d]) in F. apply Forall_app in F as [F1 F2].
      split; [exact F1|]. inversion F2; assumption. }
    destruct F' as [F1 Ld].
    assert (P0 : (0 < d0)%N) by (apply P; destruct ds; discriminate).
    change (d0 :: ds ++ [d]) with ((d0 :: ds) ++ [d]). rewrite horner_snoc, map_app. cbn [map].
    apply (DT_more (horner 10 (d0 :: ds) 0) d (map dec_char (d0 :: ds))).
    + rewrite horner_cons. pose proof (horner_ge ds (0 * 10 + d0)%N). lia.
    + exact Ld.
    + apply IH; [exact F1|intros _; exact P0].
Qed.

(* N.to_uint writes the canonical decimal text (the specification of a default member key, ReprSpec) *)
Lemma dec_text_N_dec n : dec_text n (N_dec n).
Proof.
  destruct (N_dec_digits n) as (d0 & ds & E & F & V & P & Z).
  rewrite E. rewrite <- V at 1. apply dec_text_digits; [exact F|].
  intros NE. apply P. destruct (N.eq_dec n 0) as [E0|]; [|lia].
  destruct (Z E0) as [_ ->]. contradiction.
Qed.

Theorem itoa_dec_all i : itoa i = N_dec (N.of_nat i).
Proof. exact (dec_text_fun _ _ (itoa_text i) _ (dec_text_N_dec (N.of_nat i))). Qed.

(* the input walk's default key is the serializer's effective member name, at every index *)
Lemma input_key_effective_name c i : (match tc_key c with [] => itoa i | k => k end) = effective_name i c.
Proof. unfold effective_name. destruct (tc_key c); [|reflexivity]. apply itoa_dec_all. Qed.

Section RoundTripWide.
  Variable H : bytes -> bytes.
  Hypothesis H_len : forall x, length (H x) = 32%nat.
  Variable fs : bfloat -> jv.
  Variable s : serializer.
  Variable bifs : bytes -> res Z.
  Hypothesis bifs_dec : forall z, bifs (Z_dec z) = Ok z.
  Hypothesis bifs_hex : forall z, bifs ((if (z <? 0)%Z then [x2d] else []) ++ x30 :: x78 :: N_hex (Z.abs_N z)) = Ok z.
  Hypothesis Hmode : ts s = FormatAsFlatArrays \/ ts s = FormatAsObjects.
  Hypothesis Hbs : bs s <> Base64ByteSerializer.

  Notation dn := NumericDefaultNameGenerator.
  Notation RC := (rt_child H fs s bifs).
  Notation RF := (rt_facts H fs s bifs).

  Definition rt_goal_w (c : tcomp) : Prop :=
    ser_ok s c = true -> forall v, well_typed (ty_of c) v = true -> exists j, RC c v j.

  Lemma rt_children_w cs :
    Forall rt_goal_w cs -> Forall (fun c => ser_ok s c = true) cs ->
    forall vs, tuple_wt (map ty_of cs) vs = true -> exists js, RF cs vs js.
  Proof.
    induction 1 as [|c cs Hc _ IH]; intros Hok vs Hwt.
    - destruct vs; [|discriminate]. exists []. exact I.
    - destruct vs as [|v vs]; [discriminate|]. inversion Hok as [|? ? Ho1 Ho2]; subst.
      cbn [map tuple_wt] in Hwt. apply andb_true_iff in Hwt as [Hv Hvs].
      destruct (Hc Ho1 v Hv) as [j Hj]. destruct (IH Ho2 vs Hvs) as [js Hjs].
      exists (j :: js). cbn [rt_facts]. repeat split; try assumption; apply Hj.
  Qed.

  Lemma rt_facts_wiobj_w iMap cs : forall vs js i,
    (forall k j, In (k, j) (combine (effective_names i cs) js) -> lookup k iMap = Some (ext_of (wire j))) ->
    RF cs vs js -> wi_obj bifs iMap cs i = Ok (tuple_cvs cs vs).
  Proof.
    induction cs as [|c cs IH]; intros [|v vs] [|j js] i Hget F; cbn [rt_facts] in F; try contradiction; [reflexivity|].
    destruct F as [[_ [_ [Hwi _]]] F']. cbn [wi_obj tuple_cvs].
    rewrite input_key_effective_name. cbn [effective_names combine] in Hget.
    rewrite (Hget (effective_name i c) j (or_introl eq_refl)), Hwi. cbn [bind].
    fold (wi_obj bifs iMap). rewrite (IH vs js (S i)); [reflexivity| |exact F'].
    intros k' j' Hin. apply Hget. right. exact Hin.
  Qed.

  Theorem walkInput_walkOutput_wide c : rt_goal_w c.
  Proof.
    assert (Hm : ts s <> FormatOther) by (destruct Hmode as [E|E]; rewrite E; discriminate).
    induction c as [e su m n k|len ch k IH|ch k IH|l k IH] using tcomp_ind'.
    - intros Hok. exact (rt_elementary H H_len fs s bifs bifs_dec bifs_hex Hbs e su m n k Hok eq_refl).
    - intros Hok v Hwt. specialize (IH (ser_ok_fixed s _ _ _ Hok)).
      assert (Hlen : (0 <= len)%Z).
      { unfold ser_ok in Hok. cbn [tc_consistent] in Hok. rewrite !andb_true_iff in Hok. lia. }
      cbn [ty_of] in Hwt. destruct v as [| |vs]; cbn [well_typed] in Hwt; try discriminate.
      apply andb_true_iff in Hwt as [Hn Hall]. apply N.eqb_eq in Hn.
      destruct (rt_array_children H fs s bifs ch IH vs Hall) as [js [Hjs [Hl [His Hcs]]]].
      exists (JArr js). unfold rt_child.
      change (cv_of (TCFixedArr len ch k) (VList vs)) with (CV (Some (TCFixedArr len ch k)) (map (cv_of ch) vs) GNil).
      rewrite WO_fixed, Hjs. split; [reflexivity|]. cbn [wire ext_of ext_clean]. rewrite WI_fixed, !map_length, Hl.
      replace (Z.of_nat (length vs) =? len)%Z with true by (symmetry; apply Z.eqb_eq; lia).
      cbn [negb]. rewrite His. split; [reflexivity|exact Hcs].
    - intros Hok v Hwt. specialize (IH (ser_ok_dyn s _ _ Hok)).
      cbn [ty_of] in Hwt. destruct v as [| |vs]; cbn [well_typed] in Hwt; try discriminate.
      destruct (rt_array_children H fs s bifs ch IH vs Hwt) as [js [Hjs [Hl [His Hcs]]]].
      exists (JArr js). unfold rt_child.
      change (cv_of (TCDynArr ch k) (VList vs)) with (CV (Some (TCDynArr ch k)) (map (cv_of ch) vs) GNil).
      rewrite WO_dyn, Hjs. split; [reflexivity|]. cbn [wire ext_of ext_clean]. rewrite WI_dyn, His.
      split; [reflexivity|exact Hcs].
    - intros Hok v Hwt.
      assert (Hokl : Forall (fun c => ser_ok s c = true) l) by (eapply ser_ok_tuple; eassumption).
      cbn [ty_of] in Hwt. destruct v as [| |vs]; try (cbn [well_typed] in Hwt; discriminate).
      rewrite DecProofs3.well_typed_tuple in Hwt. unfold rt_child. rewrite DecProofs3.cv_of_tuple, WO_tuple by exact Hm.
      destruct (rt_children_w l IH Hokl vs Hwt) as [js F].
      pose proof (rt_facts_length H fs s bifs l vs js F) as Hl.
      destruct Hmode as [Ets|Ets]; rewrite Ets.
      + destruct (rt_facts_flat H fs s bifs l vs js F) as [Hjs [His Hcs]].
        rewrite Hjs. cbn [bind]. eexists; split; [reflexivity|]. cbn [wire ext_of ext_clean].
        rewrite WI_tuple_list, !map_length, Hl, Nat.eqb_refl. cbn [negb]. rewrite His.
        split; [reflexivity|exact Hcs].
      + pose proof (rt_facts_objgo H fs s bifs l vs js O [] F) as Hjs.
        unfold ser_ok in Hok. rewrite Ets in Hok. rewrite !andb_true_iff in Hok. destruct Hok as [_ Hnd].
        cbn [names_distinct] in Hnd. apply andb_true_iff in Hnd as [Hnd _].
        assert (Hfst : map fst (combine (effective_names O l) js) = effective_names O l)
          by (apply map_fst_combine; rewrite effective_names_length; lia).
        rewrite set_all_distinct in Hjs; [|rewrite Hfst; exact Hnd|intros; reflexivity].
        cbn [app] in Hjs. rewrite Hjs. cbn [bind]. eexists; split; [reflexivity|]. cbn [wire ext_of ext_clean].
        rewrite WI_tuple_map. split; [|exact (rt_facts_clean_map H fs s bifs l vs js _ F)].
        rewrite (rt_facts_wiobj_w _ l vs js O); [reflexivity| |exact F].
        intros k' j' Hin. rewrite lookup_map_get, map_get_wire.
        rewrite (map_get_distinct _ ltac:(rewrite Hfst; exact Hnd) k' j' Hin). reflexivity.
  Qed.

  Theorem json_roundtrip_wide :
    forall (children : list tcomp) (v : val),
      let c := root_of children in
      ser_ok s c = true -> tc_wf c = true -> tc_no_zero_len c = true ->
      well_typed (ty_of c) v = true -> weight_ok v ->
      exists j, SerializeJSON H fs dn s (cv_of c v) = Ok j /\
                EncodeABIDataValues bifs children (ext_of j) = Ok (enc (ty_of c) v).
  Proof.
    intros children v c Hok Hwf Hnz Hwt Hw.
    destruct (walkInput_walkOutput_wide c Hok v Hwt) as [j [Hj [Hi Hc]]].
    exists (wire j). split; [unfold SerializeJSON; rewrite Hj; reflexivity|].
    assert (Hnf : tc_no_fixed_point c = true).
    { unfold ser_ok in Hok. rewrite !andb_true_iff in Hok. tauto. }
    pose proof (val_of_cv_of c Hnf v Hwt) as Hval.
    pose proof (values_encode_is_spec bifs children (ext_of (wire j)) (cv_of c v) Hwf Hnf Hnz Hc Hi) as E.
    rewrite Hval in E. exact (E Hwt Hw).
  Qed.
End RoundTripWide.

(* ---------- the corollaries of SerRoundTripC19 / SerReferee without the width guard ---------- *)
Local Open Scope Z_scope.
Notation dn := NumericDefaultNameGenerator.

(* property C19's model of ethtypes.BigIntegerFromString as the text parser; SerModel.wire entry point *)
Theorem json_roundtrip_wide_c19 :
  forall (H : bytes -> bytes), (forall x, List.length (H x) = 32%nat) ->
  forall (fs : bfloat -> jv) (s : serializer),
    ts s = FormatAsFlatArrays \/ ts s = FormatAsObjects ->
    bs s <> Base64ByteSerializer ->
  forall (children : list tcomp) (v : val),
    let c := root_of children in
    ser_ok s c = true -> tc_wf c = true -> tc_no_zero_len c = true ->
    well_typed (ty_of c) v = true -> weight_ok v ->
    exists j, SerializeJSON H fs dn s (cv_of c v) = Ok j /\
              EncodeABIDataValues EthTypes.Model.BigIntegerFromString children (ext_of j) = Ok (enc (ty_of c) v).
Proof.
  intros H HL fs s Hm Hb. exact (json_roundtrip_wide H HL fs s bifs19 bifs19_dec bifs19_hex Hm Hb).
Qed.

(* the faithful entry point (json.Marshal's U+FFFD substitution), under the UTF-8 guard *)
Theorem json_roundtrip_wide_go_c19 :
  forall (H : bytes -> bytes), (forall x, List.length (H x) = 32%nat) ->
  forall (fs : bfloat -> jv) (s : serializer),
    ts s = FormatAsFlatArrays \/ ts s = FormatAsObjects ->
    bs s <> Base64ByteSerializer ->
  forall (children : list tcomp) (v : val),
    let c := root_of children in
    ser_ok s c = true -> tc_wf c = true -> tc_no_zero_len c = true ->
    well_typed (ty_of c) v = true -> weight_ok v -> cval_utf8 (cv_of c v) = true ->
    exists j, SerializeJSON_go H fs dn s (cv_of c v) = Ok j /\
              EncodeABIDataValues EthTypes.Model.BigIntegerFromString children (ext_of j) = Ok (enc (ty_of c) v).
Proof.
  intros H HL fs s Hm Hb children v c Hok Hwf Hz Hwt Hwe Hu. rewrite SerializeJSON_go_same by exact Hu.
  exact (json_roundtrip_wide_c19 H HL fs s Hm Hb children v Hok Hwf Hz Hwt Hwe).
Qed.

(* bytes -> decode -> serialize -> parse -> encode -> the same bytes *)
Theorem decode_serialize_parse_encode_wide :
  forall (H : bytes -> bytes), (forall x, List.length (H x) = 32%nat) ->
  forall (fs : bfloat -> jv) (s : serializer),
    ts s = FormatAsFlatArrays \/ ts s = FormatAsObjects ->
    bs s <> Base64ByteSerializer ->
  forall (children : list tcomp) (v : val) (pre post : bytes),
    let c := root_of children in
    ser_ok s c = true -> tc_wf c = true -> tc_no_zero_len c = true ->
    well_typed (ty_of c) v = true -> weight_ok v -> cval_utf8 (cv_of c v) = true ->
    zlen (enc (ty_of c) v) < 2 ^ 32 -> counts_ok v = true ->
    exists x j, DecodeABIData c (pre ++ enc (ty_of c) v ++ post) (zlen pre) = Ok x /\
                SerializeJSON_go H fs dn s x = Ok j /\
                EncodeABIDataValues EthTypes.Model.BigIntegerFromString children (ext_of j) = Ok (enc (ty_of c) v).
Proof.
  intros H HL fs s Hm Hb children v pre post c Hok Hwf Hz Hwt Hwe Hu Hsz Hcnt.
  destruct (json_roundtrip_wide_go_c19 H HL fs s Hm Hb children v Hok Hwf Hz Hwt Hwe Hu) as [j [Hj He]].
  exists (cv_of c v), j. split; [|split; assumption].
  pose proof Hok as Hok'. unfold ser_ok in Hok'. rewrite !andb_true_iff in Hok'.
  destruct Hok' as [[[[H1 H2] H3] _] _].
  apply DecodeABIData_enc; assumption.
Qed.

Theorem decode_serialize_parse_encode_wide_strings :
  forall (H : bytes -> bytes), (forall x, List.length (H x) = 32%nat) ->
  forall (fs : bfloat -> jv) (s : serializer),
    ts s = FormatAsFlatArrays \/ ts s = FormatAsObjects ->
    bs s <> Base64ByteSerializer ->
  forall (children : list tcomp) (v : val) (pre post : bytes),
    let c := root_of children in
    ser_ok s c = true -> tc_wf c = true -> tc_no_zero_len c = true ->
    well_typed (ty_of c) v = true -> weight_ok v ->
    names_utf8 c = true -> strings_utf8 (ty_of c) v = true ->
    zlen (enc (ty_of c) v) < 2 ^ 32 -> counts_ok v = true ->
    exists x j, DecodeABIData c (pre ++ enc (ty_of c) v ++ post) (zlen pre) = Ok x /\
                SerializeJSON_go H fs dn s x = Ok j /\
                EncodeABIDataValues EthTypes.Model.BigIntegerFromString children (ext_of j) = Ok (enc (ty_of c) v).
Proof.
  intros H HL fs s Hm Hb children v pre post c Hok Hwf Hz Hwt Hwe Hn Hs.
  exact (decode_serialize_parse_encode_wide H HL fs s Hm Hb children v pre post Hok Hwf Hz Hwt Hwe
           (cval_utf8_cv_of c v Hn Hs)).
Qed.

Theorem decode_serialize_parse_encode_wide_any :
  forall (H : bytes -> bytes), (forall x, List.length (H x) = 32%nat) ->
  forall (fs : bfloat -> jv) (s : serializer),
    ts s = FormatAsFlatArrays \/ ts s = FormatAsObjects ->
    bs s <> Base64ByteSerializer ->
  forall (children : list tcomp) (v : val) (pre post : bytes),
    let c := root_of children in
    ser_ok s c = true -> tc_wf c = true -> tc_no_zero_len c = true ->
    well_typed (ty_of c) v = true -> weight_ok v -> cval_utf8 (cv_of c v) = true ->
    zlen (enc (ty_of c) v) < 2 ^ 32 -> counts_ok v = true ->
    forall x j, DecodeABIData c (pre ++ enc (ty_of c) v ++ post) (zlen pre) = Ok x ->
                SerializeJSON_go H fs dn s x = Ok j ->
                EncodeABIDataValues EthTypes.Model.BigIntegerFromString children (ext_of j) = Ok (enc (ty_of c) v).
Proof.
  intros H HL fs s Hm Hb children v pre post c Hok Hwf Hz Hwt Hwe Hu Hsz Hcnt x j Hx Hj.
  destruct (decode_serialize_parse_encode_wide H HL fs s Hm Hb children v pre post Hok Hwf Hz Hwt Hwe Hu Hsz Hcnt)
    as [x' [j' [Hx' [Hj' He]]]].
  fold c in Hx'. rewrite Hx in Hx'. injection Hx' as <-. rewrite Hj in Hj'. injection Hj' as <-. exact He.
Qed.

Theorem decode_serialize_parse_encode_wide_keccak :
  forall (fs : bfloat -> jv) (s : serializer),
    ts s = FormatAsFlatArrays \/ ts s = FormatAsObjects ->
    bs s <> Base64ByteSerializer ->
  forall (children : list tcomp) (v : val) (pre post : bytes),
    let c := root_of children in
    ser_ok s c = true -> tc_wf c = true -> tc_no_zero_len c = true ->
    well_typed (ty_of c) v = true -> weight_ok v -> cval_utf8 (cv_of c v) = true ->
    zlen (enc (ty_of c) v) < 2 ^ 32 -> counts_ok v = true ->
    exists x j, DecodeABIData c (pre ++ enc (ty_of c) v ++ post) (zlen pre) = Ok x /\
                SerializeJSON_go keccak256 fs dn s x = Ok j /\
                EncodeABIDataValues EthTypes.Model.BigIntegerFromString children (ext_of j) = Ok (enc (ty_of c) v).
Proof. exact (decode_serialize_parse_encode_wide keccak256 keccak256_length). Qed.

(* the old width-guarded statement is an instance *)
Corollary json_roundtrip_c19_from_wide :
  forall (H : bytes -> bytes), (forall x, List.length (H x) = 32%nat) ->
  forall (fs : bfloat -> jv) (s : serializer),
    ts s = FormatAsFlatArrays \/ ts s = FormatAsObjects ->
    bs s <> Base64ByteSerializer ->
  forall (children : list tcomp) (v : val),
    let c := root_of children in
    ser_ok s c = true -> widths_ok c = true -> tc_wf c = true -> tc_no_zero_len c = true ->
    well_typed (ty_of c) v = true -> weight_ok v ->
    exists j, SerializeJSON H fs dn s (cv_of c v) = Ok j /\
              EncodeABIDataValues EthTypes.Model.BigIntegerFromString children (ext_of j) = Ok (enc (ty_of c) v).
Proof.
  intros H HL fs s Hm Hb children v c Hok _. exact (json_roundtrip_wide_c19 H HL fs s Hm Hb children v Hok).
Qed.

(* ---------- non-vacuity: a parameter list of 1031 members (a string named "s" and 1030 unnamed uint8, default
   keys "1" .. "1030": the last six are beyond the old bound), object mode.  [widths_ok] is false - none of the
   width-guarded theorems applies -, every guard of the new ones holds, and the whole chain bytes -> decode ->
   serialize -> parse (C19's model) -> encode gives back the bytes, by computation.  (About 11 s of vm_compute,
   therefore here and not in Properties/C03.v, which restates it and refers to this proof.) ---------- *)
Definition wide_children : list tcomp :=
  TCElem EString [] 0 0 [x73] :: repeat (TCElem EUInt [x38] 8 0 []) (N.to_nat 1030).
Definition wide_value : val :=
  VList (VBytes [x68; x69] :: map (fun i => VNum (Z.of_nat i mod 256)) (seq 1 (N.to_nat 1030))).

Example wide_nonvacuous :
  let s1 := {| ts := FormatAsObjects; is_ := HexIntSerializer0xPrefix;
               bs := HexByteSerializer0xPrefix; ad := Some ChecksumAddrSerializer |} in
  let c := root_of wide_children in
  widths_ok c = false /\ ser_ok s1 c = true /\ tc_wf c = true /\ tc_no_zero_len c = true /\
  well_typed (ty_of c) wide_value = true /\ names_utf8 c = true /\ strings_utf8 (ty_of c) wide_value = true /\
  (zlen (enc (ty_of c) wide_value) <? 2 ^ 32) = true /\ counts_ok wide_value = true /\
  (match DecodeABIData c ([x01; x02; x03; x04] ++ enc (ty_of c) wide_value ++ [xff]) 4 with
   | Ok x => match SerializeJSON_go keccak256 (fun _ => JNull) NumericDefaultNameGenerator s1 x with
             | Ok j => match EncodeABIDataValues EthTypes.Model.BigIntegerFromString wide_children (ext_of j) with
                       | Ok b => bytes_eqb b (enc (ty_of c) wide_value)
                       | _ => false end
             | _ => false end
   | _ => false end) = true /\
  itoa (N.to_nat 1030) = [x31; x30; x33; x30] /\ effective_name (N.to_nat 1030) (TCElem EUInt [x38] 8 0 []) = [x31; x30; x33; x30].
Proof.
  cbv zeta. do 9 (split; [vm_compute; reflexivity|]). split; [vm_compute; reflexivity|].
  split; vm_compute; reflexivity.
Qed.

(* the statement of Properties/C03.v theorem 23 *)
Theorem default_key_is_default_name :
  forall i : nat,
    itoa i = NumericDefaultNameGenerator i /\
    dec_text (N.of_nat i) (itoa i) /\ dec_text (N.of_nat i) (NumericDefaultNameGenerator i).
Proof.
  intros i. split; [exact (itoa_dec_all i)|]. split; [exact (itoa_text i)|exact (dec_text_N_dec (N.of_nat i))].
Qed.
