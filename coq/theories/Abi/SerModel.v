(* Executable model of pkg/abi/outputserialization.go: Serializer.walkOutput, serializeElementaryType,
   serializeArray, serializeTuple, the built-in integer / byte / address serializers and
   NumericDefaultNameGenerator, plus typeComponent.String() (typecomponents.go) for the type labels.
   The Go [interface{}] tree handed to encoding/json is [jv]; [wire] is what json.Marshal writes for
   it (a float64 holding an integer of magnitude < 2^53 is written as that integer's decimal text).
   Go map values are association lists with replace-or-append assignment; encoding/json writes the
   keys sorted, so consumers compare objects as finite maps.
   External behaviour enters as Section variables: the Keccak-256 function (EIP-55) and
   big.Float formatting (the float serializer, not part of the property).  No proofs here. *)
From Coq Require Import String List NArith ZArith Bool.
From Coq Require Import Init.Byte.
From FFS Require Import Base.Res Base.Bytes Abi.Types Abi.Spec Abi.ModelTypes Abi.Render.
Import ListNotations.
Local Open Scope string_scope.
Local Open Scope list_scope.

Inductive jv :=
| JNull
| JBool (b : bool)
| JStr (s : bytes)               (* Go string *)
| JNumber (s : bytes)            (* json.Number: written verbatim as a number token *)
| JFloatInt (z : Z)              (* float64(i.Int64()) of an integer that float64 holds exactly *)
| JArr (l : list jv)             (* []interface{} *)
| JObj (m : list (bytes * jv)).  (* map[string]interface{} *)

(* m[k] = v *)
Fixpoint map_set (k : bytes) (v : jv) (m : list (bytes * jv)) : list (bytes * jv) :=
  match m with
  | [] => [(k, v)]
  | (k', v') :: r => if bytes_eqb k k' then (k, v) :: r else (k', v') :: map_set k v r
  end.

Fixpoint map_get (k : bytes) (m : list (bytes * jv)) : option jv :=
  match m with
  | [] => None
  | (k', v') :: r => if bytes_eqb k k' then Some v' else map_get k r
  end.

(* json.Marshal's view of the tree *)
Fixpoint wire (j : jv) : jv :=
  match j with
  | JFloatInt z => JNumber (Z_dec z)
  | JArr l => JArr (map wire l)
  | JObj m => JObj (map (fun kv => (fst kv, wire (snd kv))) m)
  | _ => j
  end.

(* error classes *)
Definition EBadABITypeComponent := 1%nat.
Definition EUnknownElementaryType := 2%nat.
Definition EUnknownTupleSerializer := 3%nat.

Inductive fmode := FormatAsObjects | FormatAsFlatArrays | FormatAsSelfDescribingArrays
                 | FormatOther.      (* any other FormattingMode value *)
Inductive int_ser := Base10StringIntSerializer | HexIntSerializer0xPrefix | JSONNumberIntSerializer
                   | NumberIfFitsOrBase10StringIntSerializer.
Inductive byte_ser := HexByteSerializer | HexByteSerializer0xPrefix | Base64ByteSerializer.
Inductive addr_ser := HexAddrSerializer0xPrefix | HexAddrSerializerPlain | ChecksumAddrSerializer.

Record serializer := {
  ts : fmode;
  is_ : int_ser;
  bs : byte_ser;
  ad : option addr_ser        (* nil: fall back to the byte serializer *)
}.

(* NewSerializer() *)
Definition NewSerializer : serializer :=
  {| ts := FormatAsObjects; is_ := Base10StringIntSerializer; bs := HexByteSerializer; ad := None |}.

Definition s_name := ascii_bytes "name".
Definition s_type := ascii_bytes "type".
Definition s_value := ascii_bytes "value".

Definition maxSafeJSONNumberInt : Z := 9007199254740991.
Definition minSafeJSONNumberInt : Z := -9007199254740991.

(* the integer serializers *)
Definition run_int_ser (f : int_ser) (i : Z) : jv :=
  match f with
  | Base10StringIntSerializer => JStr (Z_dec i)
  | HexIntSerializer0xPrefix =>
      JStr ((if (i <? 0)%Z then [x2d] else []) ++ x30 :: x78 :: N_hex (Z.abs_N i))
  | JSONNumberIntSerializer => JNumber (Z_dec i)
  | NumberIfFitsOrBase10StringIntSerializer =>
      if (i >? maxSafeJSONNumberInt)%Z || (i <? minSafeJSONNumberInt)%Z then JStr (Z_dec i)
      else JFloatInt i
  end.

Definition run_byte_ser (f : byte_ser) (b : bytes) : jv :=
  match f with
  | HexByteSerializer => JStr (hex_of_bytes b)
  | HexByteSerializer0xPrefix => JStr (x30 :: x78 :: hex_of_bytes b)
  | Base64ByteSerializer => JStr (base64 b)
  end.

(* NumericDefaultNameGenerator: strconv.FormatInt(int64(idx), 10) *)
Definition NumericDefaultNameGenerator (idx : nat) : bytes := N_dec (N.of_nat idx).

(* typeComponent.String() *)
Definition ekind_name (e : ekind) : bytes :=
  ascii_bytes (match e with
               | EInt => "int" | EUInt => "uint" | EAddress => "address" | EBool => "bool"
               | EFixed => "fixed" | EUFixed => "ufixed" | EBytes => "bytes"
               | EFunction => "function" | EString => "string"
               end).

Fixpoint tc_string (c : tcomp) : bytes :=
  match c with
  | TCElem e suffix _ _ _ => ekind_name e ++ suffix
  | TCFixedArr len ch _ => tc_string ch ++ [x5b] ++ Z_dec len ++ [x5d]
  | TCDynArr ch _ => tc_string ch ++ [x5b; x5d]
  | TCTuple l _ =>
      x28 :: (fix go (first : bool) (l : list tcomp) : bytes :=
                match l with
                | [] => []
                | x :: r => (if first then [] else [x2c]) ++ tc_string x ++ go false r
                end) true l ++ [x29]
  end.

(* big-endian bytes of n in exactly k bytes (big.Int.FillBytes after the size check) *)
Fixpoint be_bytes (k : nat) (n : N) : bytes :=
  match k with O => [] | S k' => be_bytes k' (n / 256)%N ++ [n2b (n mod 256)%N] end.

(* big.Int.Int64(): the low 64 bits of the magnitude as an int64, negated for negative values *)
Definition go_int64 (z : Z) : Z :=
  let lo := (Z.abs z mod 2 ^ 64)%Z in
  let s := if (lo <? 2 ^ 63)%Z then lo else (lo - 2 ^ 64)%Z in
  if (z <? 0)%Z then (let n := (- s)%Z in if (n =? 2 ^ 63)%Z then (- 2 ^ 63)%Z else n) else s.

Section Ser.
  Variable H : bytes -> bytes.           (* Keccak-256, for the checksum address form *)
  Variable fs : bfloat -> jv.            (* the configured FloatSerializer *)
  Variable dn : nat -> bytes.            (* the configured DefaultNameGenerator *)
  Variable s : serializer.

  Definition run_addr_ser (f : addr_ser) (addr : bytes) : jv :=
    match f with
    | HexAddrSerializer0xPrefix => JStr (x30 :: x78 :: hex_of_bytes addr)
    | HexAddrSerializerPlain => JStr (hex_of_bytes addr)
    | ChecksumAddrSerializer => JStr (eip55 H addr)
    end.

  (* serializeElementaryType; a failing Go type assertion on cv.Value panics *)
  Definition serializeElementaryType (e : ekind) (v : gval) : res jv :=
    match e with
    | EInt | EUInt =>
        match v with GBigInt i => Ok (run_int_ser (is_ s) i) | _ => Panic end
    | EAddress =>
        match v with
        | GBigInt i =>
            (* FillBytes(addr[:]) panics when the magnitude needs more than 20 bytes *)
            if (2 ^ 160 <=? Z.abs i)%Z then Panic else
            let addr := be_bytes 20 (Z.abs_N i) in
            match ad s with
            | None => Ok (run_byte_ser (bs s) addr)
            | Some f => Ok (run_addr_ser f addr)
            end
        | _ => Panic
        end
    | EBool =>
        match v with GBigInt i => Ok (JBool (go_int64 i =? 1)%Z) | _ => Panic end
    | EFixed | EUFixed =>
        match v with GBigFloat f => Ok (fs f) | _ => Panic end
    | EBytes | EFunction =>
        match v with GBytes b => Ok (run_byte_ser (bs s) b) | _ => Panic end
    | EString =>
        match v with GString x => Ok (JStr x) | _ => Panic end
    end.

  (* walkOutput / serializeArray / serializeTuple.  A nil *ComponentValue is dereferenced at once. *)
  Fixpoint walkOutput (x : cval) {struct x} : res jv :=
    match x with
    | CVNil => Panic
    | CV None _ _ => Err EBadABITypeComponent
    | CV (Some c) children value =>
        match c with
        | TCElem e _ _ _ _ => serializeElementaryType e value
        | TCFixedArr _ _ _ | TCDynArr _ _ =>
            (* serializeArray *)
            do l <- (fix go (l : list cval) : res (list jv) :=
                       match l with
                       | [] => Ok []
                       | y :: r => do v <- walkOutput y; do vs <- go r; Ok (v :: vs)
                       end) children;
            Ok (JArr l)
        | TCTuple _ _ =>
            (* serializeTuple *)
            match ts s with
            | FormatAsObjects =>
                do m <- (fix go (i : nat) (l : list cval) (out : list (bytes * jv)) : res (list (bytes * jv)) :=
                           match l with
                           | [] => Ok out
                           | CVNil :: _ => Panic
                           | CV None _ _ :: r => go (S i) r out
                           | (CV (Some cc) _ _ as y) :: r =>
                               let name := match tc_key cc with [] => dn i | k => k end in
                               do v <- walkOutput y;
                               go (S i) r (map_set name v out)
                           end) O children [];
                Ok (JObj m)
            | FormatAsFlatArrays =>
                do l <- (fix go (l : list cval) : res (list jv) :=
                           match l with
                           | [] => Ok []
                           | y :: r => do v <- walkOutput y; do vs <- go r; Ok (v :: vs)
                           end) children;
                Ok (JArr l)
            | FormatAsSelfDescribingArrays =>
                do l <- (fix go (i : nat) (l : list cval) : res (list jv) :=
                           match l with
                           | [] => Ok []
                           | CVNil :: _ => Panic
                           | CV None _ _ :: _ => Err EBadABITypeComponent     (* from walkOutput(child) *)
                           | (CV (Some cc) _ _ as y) :: r =>
                               let name := match tc_key cc with [] => dn i | k => k end in
                               do v <- walkOutput y;
                               do vs <- go (S i) r;
                               Ok (JObj [(s_name, JStr name); (s_type, JStr (tc_string cc)); (s_value, v)] :: vs)
                           end) O children;
                Ok (JArr l)
            | FormatOther => Err EUnknownTupleSerializer
            end
        end
    end.

  (* SerializeInterfaceCtx *)
  Definition SerializeInterface (x : cval) : res jv := walkOutput x.
  (* SerializeJSONCtx, up to the byte-level layout chosen by encoding/json *)
  Definition SerializeJSON (x : cval) : res jv := do v <- walkOutput x; Ok (wire v).
End Ser.
