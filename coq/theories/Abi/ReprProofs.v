(* C02, referee issue 1: the readers of the model agree with the independent relation of
   Abi/ReprSpec.v, leaf by leaf (hex text, big-endian value, "true", decimal index keys, object
   lookup, sequences). *)
From Coq Require Import List NArith ZArith Bool Arith Lia.
From Coq Require Import ZifyNat ZifyN ZifyBool.
From Coq Require Import Init.Byte.
From FFS Require Import Base.Res Base.Bytes Abi.Types Abi.Spec Abi.ModelTypes Abi.EncModel Abi.InputModel.
From FFS Require Import Abi.InputProofs Abi.ReprSpec.
Import ListNotations.

(* ---------- hex digits ---------- *)

Lemma hex_digit_val c d : hex_digit c d -> hex_val c = Some d.
Proof.
  intros [[L ->]|[L [-> | ->]]].
  - assert (E : (d = 0 \/ d = 1 \/ d = 2 \/ d = 3 \/ d = 4 \/ d = 5 \/ d = 6 \/ d = 7 \/ d = 8 \/ d = 9)%N) by lia.
    repeat (destruct E as [-> | E]; [reflexivity|]). subst. reflexivity.
  - assert (E : (d = 10 \/ d = 11 \/ d = 12 \/ d = 13 \/ d = 14 \/ d = 15)%N) by lia.
    repeat (destruct E as [-> | E]; [reflexivity|]). subst. reflexivity.
  - assert (E : (d = 10 \/ d = 11 \/ d = 12 \/ d = 13 \/ d = 14 \/ d = 15)%N) by lia.
    repeat (destruct E as [-> | E]; [reflexivity|]). subst. reflexivity.
Qed.

Lemma hex_val_digit c d : hex_val c = Some d -> hex_digit c d.
Proof.
  destruct c; vm_compute; intros H; try discriminate; injection H as <-;
    first [left; split; [reflexivity|reflexivity]
          |right; split; [split; [discriminate|reflexivity]|left; reflexivity]
          |right; split; [split; [discriminate|reflexivity]|right; reflexivity]].
Qed.

Lemma hex_val_lt c d : hex_val c = Some d -> (d < 16)%N.
Proof. unfold hex_val. destruct (digit_val c <? 16)%N eqn:E; [|discriminate]. intros H. injection H as <-. lia. Qed.

Lemma hex_pairs_decode s b : hex_pairs s b -> hex_decode s = Some b.
Proof.
  induction 1 as [|a c hi lo s t Ha Hc _ IH]; [reflexivity|].
  cbn [hex_decode]. rewrite (hex_digit_val _ _ Ha), (hex_digit_val _ _ Hc), IH.
  replace (hi * 16 + lo)%N with (16 * hi + lo)%N by lia. reflexivity.
Qed.

Lemma hex_decode_pairs s : forall b, hex_decode s = Some b -> hex_pairs s b.
Proof.
  assert (G : forall n s, (length s <= n)%nat -> forall b, hex_decode s = Some b -> hex_pairs s b).
  { induction n as [|n IH]; intros s0 L b H.
    - destruct s0; [|cbn [length] in L; lia]. injection H as <-. constructor.
    - destruct s0 as [|a [|c r]]; [injection H as <-; constructor|discriminate|].
      cbn [hex_decode] in H. destruct (hex_val a) as [x|] eqn:Ea; [|discriminate].
      destruct (hex_val c) as [y|] eqn:Ec; [|discriminate].
      destruct (hex_decode r) as [t|] eqn:Er; [|discriminate]. injection H as <-.
      replace (x * 16 + y)%N with (16 * x + y)%N by lia.
      constructor; [apply hex_val_digit; exact Ea|apply hex_val_digit; exact Ec|].
      apply IH; [cbn [length] in L; lia|exact Er]. }
  intros b H. exact (G (length s) s (le_n _) b H).
Qed.

Lemma hex_pairs_no_prefix s b : hex_pairs s b -> trim_0x s = s.
Proof.
  intros H. destruct H as [|a c hi lo s t Ha Hc _]; [reflexivity|].
  cbn [trim_0x]. destruct (is_b c 120) eqn:E; [|rewrite andb_false_r; reflexivity].
  unfold is_b, bn in E. apply N.eqb_eq in E. assert (c = x78) by (apply b2n_inj; rewrite E; reflexivity). subst c.
  apply hex_digit_val in Hc. vm_compute in Hc. discriminate.
Qed.

Lemma hex_text_read s b : hex_text s b -> hex_decode (trim_0x s) = Some b.
Proof.
  intros [H|(h & -> & H)].
  - rewrite (hex_pairs_no_prefix _ _ H). apply hex_pairs_decode. exact H.
  - change (trim_0x (x30 :: x78 :: h)) with h. apply hex_pairs_decode. exact H.
Qed.

Lemma hex_read_text s b : hex_decode (trim_0x s) = Some b -> hex_text s b.
Proof.
  intros H. destruct s as [|a [|c r]]; cbn [trim_0x] in H.
  - left. apply hex_decode_pairs. exact H.
  - discriminate.
  - destruct (is_b a 48 && is_b c 120) eqn:E.
    + apply andb_prop in E as [E1 E2]. unfold is_b, bn in E1, E2. apply N.eqb_eq in E1. apply N.eqb_eq in E2.
      assert (a = x30) by (apply b2n_inj; rewrite E1; reflexivity).
      assert (c = x78) by (apply b2n_inj; rewrite E2; reflexivity). subst.
      right. exists r. split; [reflexivity|]. apply hex_decode_pairs. exact H.
    + left. apply hex_decode_pairs. exact H.
Qed.

Lemma hex_pairs_fun s b : hex_pairs s b -> forall b', hex_pairs s b' -> b = b'.
Proof.
  intros H b' H'. apply hex_pairs_decode in H. apply hex_pairs_decode in H'. congruence.
Qed.

(* ---------- big-endian value ---------- *)

Lemma of_be_acc b : forall acc,
  fold_left (fun acc x => acc * 256 + Z.of_N (bn x))%Z b acc = (acc * 256 ^ Z.of_nat (length b) + be_value b)%Z.
Proof.
  induction b as [|x r IH]; intros acc; cbn [fold_left be_value length].
  - rewrite Z.pow_0_r. lia.
  - rewrite IH. rewrite Nat2Z.inj_succ, Z.pow_succ_r by lia. unfold bn. ring.
Qed.

Lemma of_be_value b : of_be b = be_value b.
Proof. unfold of_be. rewrite of_be_acc. lia. Qed.

(* ---------- "true" ---------- *)

Lemma lower_fold (l : byte) :
  (l = x74 \/ l = x72 \/ l = x75 \/ l = x65) -> forall c, byte_eqb (lower c) l = true <-> fold_eq c l.
Proof.
  intros L c. split.
  - intros H. destruct L as [-> |[-> |[-> | ->]]];
      (destruct c; vm_compute in H; try discriminate; first [left; reflexivity|right; reflexivity]).
  - intros [-> |E].
    + destruct L as [-> |[-> |[-> | ->]]]; reflexivity.
    + destruct L as [-> |[-> |[-> | ->]]];
        match type of E with (_ = b2n ?l)%N =>
          let v := eval vm_compute in (b2n l) in change (b2n l) with v in E end;
        match type of E with (b2n c + 32 = ?v)%N =>
          assert (C : c = n2b (v - 32)) by (apply b2n_inj; rewrite b2n_n2b by (vm_compute; reflexivity); lia) end;
        rewrite C; reflexivity.
Qed.

Lemma true_text_iff s : equal_fold_true s = true <-> is_true_text s.
Proof.
  unfold equal_fold_true, is_true_text, true_text. split.
  - intros H. destruct s as [|a [|b [|c [|d [|e r]]]]]; cbn [map bytes_eqb] in H; rewrite ?andb_false_r in H; try discriminate.
    rewrite !andb_true_iff in H. destruct H as (A & B & C & D & _).
    apply (lower_fold x74 ltac:(auto)) in A. apply (lower_fold x72 ltac:(auto)) in B.
    apply (lower_fold x75 ltac:(auto)) in C. apply (lower_fold x65 ltac:(auto)) in D.
    repeat (constructor; [assumption|]). constructor.
  - intros H. inversion H as [|a l1 s1 r1 A H1]; subst. inversion H1 as [|b l2 s2 r2 B H2]; subst.
    inversion H2 as [|c l3 s3 r3 C H3]; subst. inversion H3 as [|d l4 s4 r4 D H4]; subst. inversion H4; subst.
    cbn [map bytes_eqb].
    apply (lower_fold x74 ltac:(auto)) in A. apply (lower_fold x72 ltac:(auto)) in B.
    apply (lower_fold x75 ltac:(auto)) in C. apply (lower_fold x65 ltac:(auto)) in D.
    rewrite A, B, C, D. reflexivity.
Qed.

(* ---------- decimal index keys ---------- *)

Lemma itoa_fuel_text f : forall n acc, (N.to_nat n < f)%nat ->
  exists s, dec_text n s /\ itoa_fuel f n acc = s ++ acc.
Proof.
  induction f as [|f IH]; intros n acc L; [lia|].
  cbn [itoa_fuel]. destruct (n <? 10)%N eqn:E.
  - exists [dec_digit n]. split; [constructor; lia|]. unfold dec_digit. rewrite N.mod_small by lia. reflexivity.
  - assert (L' : (N.to_nat (n / 10) < f)%nat).
    { assert (n / 10 < n)%N by (apply N.div_lt; lia). lia. }
    destruct (IH (n / 10)%N (n2b (48 + n mod 10) :: acc) L') as (s & D & ->).
    exists (s ++ [dec_digit (n mod 10)]). split.
    + rewrite (N.div_mod n 10) at 1 by lia. constructor; [|apply N.mod_lt; lia|exact D].
      assert (10 <= n)%N by lia. assert (1 <= n / 10)%N by (apply N.div_le_lower_bound; lia). lia.
    + rewrite <- app_assoc. reflexivity.
Qed.

Lemma itoa_text i : dec_text (N.of_nat i) (itoa i).
Proof.
  unfold itoa. destruct (itoa_fuel_text (S i) (N.of_nat i) [] ltac:(lia)) as (s & D & ->). rewrite app_nil_r. exact D.
Qed.

Lemma dec_text_fun' n s : dec_text n s -> forall m s', dec_text m s' -> m = n -> s = s'.
Proof.
  induction 1 as [d L|n d s Pn Ld D IH]; intros m s' H' E.
  - destruct H' as [d' L'|n' d' s0 Pn' Ld' D']; [subst; reflexivity|lia].
  - destruct H' as [d' L'|n' d' s0 Pn' Ld' D']; [lia|].
    assert (n' = n /\ d' = d) as [-> ->] by lia. rewrite (IH n s0 D' eq_refl). reflexivity.
Qed.
Lemma dec_text_fun n s : dec_text n s -> forall s', dec_text n s' -> s = s'.
Proof. intros H s' H'. exact (dec_text_fun' n s H n s' H' eq_refl). Qed.

Lemma member_key_effective t i key : member_key t i key <-> key = effective_key t i.
Proof.
  unfold member_key, effective_key. destruct (tc_key t) as [|k0 kr]; [|tauto].
  split; [intros D; exact (dec_text_fun _ _ D _ (itoa_text i))|intros ->; apply itoa_text].
Qed.

(* ---------- object lookup ---------- *)

Lemma lookup_first m k x : lookup k m = Some x <-> first_binding m k x.
Proof.
  unfold first_binding. induction m as [|[k' v'] r IH]; cbn [lookup].
  - split; [discriminate|]. intros (m1 & m2 & E & _). destruct m1; discriminate.
  - destruct (bytes_eqb_spec k k') as [<- |NE].
    + split.
      * intros H. injection H as <-. exists [], r. split; [reflexivity|intros []].
      * intros (m1 & m2 & E & NI). destruct m1 as [|[k1 v1] m1]; cbn [app] in E.
        -- injection E as -> _. reflexivity.
        -- injection E as <- _ _. exfalso. apply NI. left. reflexivity.
    + rewrite IH. split.
      * intros (m1 & m2 & -> & NI). exists ((k', v') :: m1), m2. split; [reflexivity|].
        cbn [map fst In]. intros [E|E]; [apply NE; symmetry; exact E|exact (NI E)].
      * intros (m1 & m2 & E & NI). destruct m1 as [|[k1 v1] m1]; cbn [app] in E.
        -- injection E as E1 _ _. exfalso. apply NE. symmetry. exact E1.
        -- injection E as -> -> ->. exists m1, m2. split; [reflexivity|]. intros HI. apply NI. right. exact HI.
Qed.

(* ---------- sequences ---------- *)

Lemma seq_of_slice x l : seq_of x l <-> as_slice x = Some l.
Proof.
  unfold seq_of. split.
  - intros [-> |(b & -> & ->)]; reflexivity.
  - destruct x; cbn [as_slice]; try discriminate; intros H; injection H as <-; [right; eexists; split; reflexivity|left; reflexivity].
Qed.

(* ---------- byte readers ---------- *)

Lemma bytes_of_read x b : bytes_of x b <-> getBytesFromInterface_b x = Ok b.
Proof.
  unfold bytes_of, text_of, getBytesFromInterface_b. split.
  - intros [-> |(s & [-> | ->] & H)]; [reflexivity| |]; rewrite (hex_text_read _ _ H); reflexivity.
  - destruct x; try discriminate.
    + destruct (hex_decode (trim_0x t)) eqn:E; [|discriminate]. intros H. injection H as <-.
      right. exists t. split; [right; reflexivity|apply hex_read_text; exact E].
    + destruct (hex_decode (trim_0x s)) eqn:E; [|discriminate]. intros H. injection H as <-.
      right. exists s. split; [left; reflexivity|apply hex_read_text; exact E].
    + intros H. injection H as <-. left. reflexivity.
Qed.
