(* C12 <-> C13: the entry model takes parameters by their *parsed* type trees; this file connects
   it to the ABI JSON text.  A parameter object (type text + components, AbiType/Syntax.v) is parsed
   by the model of the type parser (AbiType/Model.v: Validate) and its result embedded into the
   component trees of Abi/ModelTypes.v (key names, which no signature depends on, are left empty).
   Using the C13 theorems (accepted = spells a valid type; rendering = canonical spelling) the
   signature, selector and topic of an entry given by its JSON spellings -- aliases, "tuple" +
   components, array suffixes -- are those of the specification. *)
From Coq Require Import String.
From Coq Require Import List NArith ZArith Lia Bool Arith.
From Coq Require Import Init.Byte.
From FFS Require Import Base.Res Base.Bytes Abi.Types Abi.ModelTypes Abi.EntryModel Abi.EntrySpec Abi.EntryProofs.
From FFS Require Import Gen.AbiConsts AbiType.Syntax AbiType.Spec.
From FFS Require AbiType.Model AbiType.Abs AbiType.ProofsDec AbiType.ProofsMain.
Import ListNotations.

Module TM := AbiType.Model.
Module TA := AbiType.Abs.
Module TP := AbiType.ProofsMain.

Definition ekind_of_name (nm : string) : option ekind :=
  if String.eqb nm "uint"%string then Some EUInt
  else if String.eqb nm "int"%string then Some EInt
  else if String.eqb nm "address"%string then Some EAddress
  else if String.eqb nm "bool"%string then Some EBool
  else if String.eqb nm "fixed"%string then Some EFixed
  else if String.eqb nm "ufixed"%string then Some EUFixed
  else if String.eqb nm "bytes"%string then Some EBytes
  else if String.eqb nm "function"%string then Some EFunction
  else if String.eqb nm "string"%string then Some EString
  else None.

Fixpoint embed (key : bytes) (tc : TM.tcomp) : option tcomp :=
  match tc with
  | TM.CElem et suffix m n =>
      match ekind_of_name (et_name et) with Some e => Some (TCElem e suffix m n key) | None => None end
  | TM.CFixedArr c k => match embed key c with Some c' => Some (TCFixedArr (Z.of_N k) c' key) | None => None end
  | TM.CDynArr c => match embed key c with Some c' => Some (TCDynArr c' key) | None => None end
  | TM.CTuple l =>
      match (fix go (l : list TM.tcomp) : option (list tcomp) :=
               match l with
               | [] => Some []
               | c :: r => match embed [] c, go r with Some c', Some r' => Some (c' :: r') | _, _ => None end
               end) l with
      | Some l' => Some (TCTuple l' key)
      | None => None
      end
  end.

Fixpoint embed_list (l : list TM.tcomp) : option (list tcomp) :=
  match l with
  | [] => Some []
  | c :: r => match embed [] c, embed_list r with Some c', Some r' => Some (c' :: r') | _, _ => None end
  end.

Lemma embed_tuple key l :
  embed key (TM.CTuple l) = match embed_list l with Some l' => Some (TCTuple l' key) | None => None end.
Proof.
  cbn [embed].
  match goal with |- match ?F l with _ => _ end = _ =>
    assert (E : forall x, F x = embed_list x)
      by (induction x as [|c r IH]; [reflexivity|cbn [embed_list]; rewrite <- IH; reflexivity])
  end.
  rewrite E. reflexivity.
Qed.

Lemma ekind_name_of nm e : ekind_of_name nm = Some e -> ekind_name e = ascii_bytes nm.
Proof.
  unfold ekind_of_name.
  repeat match goal with
  | |- context [String.eqb nm ?s] => destruct (String.eqb_spec nm s) as [->|_]; [intros E; injection E as <-; reflexivity|]
  end.
  discriminate.
Qed.

(* the rendering of the embedded tree is the rendering of the parser's tree *)
Lemma embed_string tc : forall key mt s,
  embed key tc = Some mt -> TM.tc_string tc = Ok s -> tc_string mt = s.
Proof.
  induction tc as [et sfx m n|c k IH|c IH|l IH] using TP.tcomp_ind'; intros key mt s.
  - cbn [embed TM.tc_string]. destruct (ekind_of_name (et_name et)) as [e|] eqn:Ee; [|discriminate].
    intros E1 E2; injection E1 as <-; injection E2 as <-. cbn [tc_string].
    rewrite (ekind_name_of _ _ Ee). reflexivity.
  - cbn [embed TM.tc_string]. destruct (embed key c) as [c'|] eqn:Ec; [|discriminate].
    destruct (TM.tc_string c) as [sc| |] eqn:Es; cbn [bind]; try discriminate.
    rewrite AbiType.ProofsDec.format_uint_dec. cbn [bind].
    intros E1 E2; injection E1 as <-; injection E2 as <-. cbn [tc_string].
    rewrite (IH key c' sc Ec eq_refl). rewrite fmt_Z_dec by lia. rewrite N2Z.id. reflexivity.
  - cbn [embed TM.tc_string]. destruct (embed key c) as [c'|] eqn:Ec; [|discriminate].
    destruct (TM.tc_string c) as [sc| |] eqn:Es; cbn [bind]; try discriminate.
    intros E1 E2; injection E1 as <-; injection E2 as <-. cbn [tc_string].
    rewrite (IH key c' sc Ec eq_refl). reflexivity.
  - rewrite embed_tuple, TP.tc_string_tuple.
    destruct (embed_list l) as [l'|] eqn:El; [|discriminate].
    destruct (TP.tc_string_list l) as [ss| |] eqn:Es; cbn [bind]; try discriminate.
    intros E1 E2; injection E1 as <-; injection E2 as <-.
    assert (Hm : map tc_string l' = ss).
    { revert l' ss El Es. induction IH as [|c r Pc Pr IHr]; intros l' ss; cbn [embed_list TP.tc_string_list].
      - intros E1 E2; injection E1 as <-; injection E2 as <-. reflexivity.
      - destruct (embed [] c) as [c'|] eqn:Ec; [|discriminate].
        destruct (embed_list r) as [r'|] eqn:Er; [|discriminate].
        destruct (TM.tc_string c) as [sc| |] eqn:Esc; cbn [bind]; try discriminate.
        destruct (TP.tc_string_list r) as [sr| |] eqn:Esr; cbn [bind]; try discriminate.
        intros E1 E2; injection E1 as <-; injection E2 as <-. cbn [map].
        rewrite (Pc [] c' sc Ec eq_refl), (IHr r' sr eq_refl eq_refl). reflexivity. }
    transitivity ([ch_lparen] ++ commas O (map tc_string l') ++ [ch_rparen]); [apply tc_string_tuple|].
    rewrite Hm, commas_sepby. change (T ",") with [TM.ch_comma].
    rewrite <- (TP.join_sepby [TM.ch_comma] ss). reflexivity.
Qed.

(* every tree the parser's abstraction function gives a type to can be embedded *)
Lemma embed_total tc : forall key t, TA.ty_of tc = Some t -> exists mt, embed key tc = Some mt.
Proof.
  induction tc as [et sfx m n|c k IH|c IH|l IH] using TP.tcomp_ind'; intros key t.
  - cbn [TA.ty_of embed]. unfold TA.elem_ty, ekind_of_name.
    repeat match goal with
    | |- context [String.eqb (et_name et) ?s] => destruct (String.eqb (et_name et) s); [intros _; eexists; reflexivity|]
    end.
    discriminate.
  - cbn [TA.ty_of embed]. destruct (TA.ty_of c) as [t'|] eqn:Et; [|discriminate]. intros _.
    destruct (IH key t' eq_refl) as [c' ->]. eexists. reflexivity.
  - cbn [TA.ty_of embed]. destruct (TA.ty_of c) as [t'|] eqn:Et; [|discriminate]. intros _.
    destruct (IH key t' eq_refl) as [c' ->]. eexists. reflexivity.
  - rewrite TP.ty_of_tuple, embed_tuple. destruct (TP.ty_of_list l) as [ts|] eqn:El; [|discriminate]. intros _.
    assert (exists l', embed_list l = Some l') as [l' ->]; [|eexists; reflexivity].
    revert ts El. induction IH as [|c r Pc Pr IHr]; intros ts; cbn [TP.ty_of_list embed_list]; [eexists; reflexivity|].
    destruct (TA.ty_of c) as [t'|] eqn:Et; [|discriminate].
    destruct (TP.ty_of_list r) as [tr|] eqn:Er; [|discriminate]. intros _.
    destruct (Pc [] t' eq_refl) as [c' ->]. destruct (IHr tr eq_refl) as [r' ->]. eexists. reflexivity.
Qed.

(* ---------- entries given by their ABI JSON parameter objects ---------- *)

(* what typeComponentTreeCtx returns for a parameter object, in the representation of the entry model *)
Definition link_param (p : Syntax.param) (indexed : bool) : EntryModel.param :=
  mkParam (match TM.Validate p with Ok tc => embed [] tc | _ => None end) indexed.

Definition link_entry (ty : etype) (name : bytes) (anonymous : bool) (ps : list (Syntax.param * bool)) : entry :=
  mkEntry ty name anonymous (map (fun pi => link_param (fst pi) (snd pi)) ps).

(* [spells ps ts]: the i-th parameter object spells the valid type ts[i] *)
Definition spells (ps : list (Syntax.param * bool)) (ts : list ty) : Prop :=
  Forall2 (fun pi t => valid_type t = true /\ spelling t (p_type (fst pi)) (p_comps (fst pi))) ps ts.

Lemma link_param_string p ix t :
  valid_type t = true -> spelling t (p_type p) (p_comps p) ->
  exists mt, p_tc (link_param p ix) = Some mt /\ tc_string mt = canonical t.
Proof.
  intros Hv Hs. destruct p as [s comps]. cbn [p_type p_comps] in Hs.
  destruct (TP.validate_complete t s comps Hv Hs) as (tc & Hval & Hty).
  destruct (TP.render_canonical _ _ _ Hval Hty) as [Hstr _].
  destruct (embed_total tc [] t Hty) as [mt Hmt].
  exists mt. unfold link_param. cbn [p_tc]. rewrite Hval. split; [exact Hmt|].
  exact (embed_string tc [] mt _ Hmt Hstr).
Qed.

(* C12_signature_from_json *)
Theorem signature_from_json ty name anonymous ps ts :
  spells ps ts ->
  Signature (link_entry ty name anonymous ps) = Ok (signature_spec name ts).
Proof.
  intros Hsp. unfold Signature, link_entry. cbn [e_inputs e_name].
  assert (exists mts, tree_children (map (fun pi => link_param (fst pi) (snd pi)) ps) = Ok mts /\
                      map tc_string mts = map canonical ts) as (mts & Ht & Hm).
  { induction Hsp as [|[p ix] t ps' ts' [Hv Hs] Hrest IH]; [exists []; split; reflexivity|].
    destruct IH as (mts & Ht & Hm). destruct (link_param_string p ix t Hv Hs) as (mt & Hp & Hstr).
    exists (mt :: mts). cbn [map fst snd tree_children]. rewrite Hp, Ht. cbn [bind]. rewrite Hstr, Hm. split; reflexivity. }
  rewrite (sig_inputs_commas _ _ O Ht). cbn [bind]. unfold signature_spec.
  rewrite commas_sepby, Hm. reflexivity.
Qed.

Theorem selector_from_json (H : bytes -> bytes) ty name anonymous ps ts :
  (forall m, length (H m) = 32%nat) -> spells ps ts ->
  GenerateFunctionSelector H (link_entry ty name anonymous ps) = Ok (selector_spec H name ts) /\
  SignatureHashBytes H (link_entry ty name anonymous ps) = topic0_spec H name ts.
Proof.
  intros Hlen Hsp. unfold GenerateFunctionSelector, SignatureHashBytes, SignatureHash.
  rewrite (signature_from_json ty name anonymous ps ts Hsp). cbn [bind].
  rewrite slice_ok by (rewrite ?Hlen; lia). split; reflexivity.
Qed.

(* an entry with a parameter object that spells no valid type has no signature *)
Theorem signature_invalid_json ty name anonymous ps :
  Exists (fun pi => ~ exists t, valid_type t = true /\ spelling t (p_type (fst pi)) (p_comps (fst pi))) ps ->
  exists c, Signature (link_entry ty name anonymous ps) = Err c.
Proof.
  intros Hex. apply signature_invalid. unfold link_entry. cbn [e_inputs].
  induction Hex as [[p ix] r Hbad|[p ix] r Hex IH]; intros cs; cbn [map fst snd tree_children].
  - unfold link_param at 1. cbn [p_tc]. destruct (TM.Validate p) as [tc| |] eqn:Ev; try discriminate.
    exfalso. apply Hbad. destruct p as [s comps]. cbn [fst p_type p_comps].
    destruct (TP.accepted_is_typed _ _ Ev) as (t & Ht & Hv & Hs). exists t. split; assumption.
  - destruct (p_tc (link_param p ix)); [|discriminate].
    destruct (tree_children (map (fun pi => link_param (fst pi) (snd pi)) r)) as [rest| |] eqn:Er; cbn [bind]; try discriminate.
    exfalso. exact (IH rest eq_refl).
Qed.
