(* C11, wave 6: stability without the guard "bool leaves hold 0 or 1".

   The decoder reads a bool as the low byte of its word (decodeABIUnsignedInt with M = 8), so a
   decoded bool leaf holds any number 0..255; the encoder treats a bool as uint8.  Such a tree is
   outside the specification's typing (bool = 0 or 1), so C02's / C03's theorems do not speak
   about it directly.  Here the component tree is re-typed ([rt]: every bool leaf becomes the
   uint8 leaf with the same fields): the decoder commutes with the re-typing, the encoder does not
   see it, a re-typed tree has no bool leaf, and decoded trees are determined by their values - so
   [DecTotalProofs5.stable] on the re-typed tree gives stability of the original one. *)
From Coq Require Import List NArith ZArith Bool Lia.
From Coq Require Import Init.Byte.
From FFS Require Import Base.Res Base.Bytes Abi.Types Abi.Spec Abi.ModelTypes Abi.DecModel Abi.DecSpec Abi.EncModel.
From FFS Require Import Abi.DecProofs Abi.DecProofs3 Abi.EncProofs3 Abi.DecTotalProofs4 Abi.DecTotalProofs5.
Import ListNotations.
Local Open Scope Z_scope.

Definition rte (e : ekind) : ekind := match e with EBool => EUInt | _ => e end.

Fixpoint rt (c : tcomp) : tcomp :=
  match c with
  | TCElem e s m n k => TCElem (rte e) s m n k
  | TCFixedArr len ch k => TCFixedArr len (rt ch) k
  | TCDynArr ch k => TCDynArr (rt ch) k
  | TCTuple l k => TCTuple (map rt l) k
  end.

Fixpoint rtv (x : cval) : cval :=
  match x with
  | CVNil => CVNil
  | CV c l v => CV (option_map rt c) (map rtv l) v
  end.

Definition rtr (r : res (Z * cval)) : res (Z * cval) := do (n, x) <- r; Ok (n, rtv x).
Definition rtl (r : res (Z * list cval)) : res (Z * list cval) := do (n, xs) <- r; Ok (n, map rtv xs).

(* ---------- the type-level functions do not see the re-typing ---------- *)
Lemma isDynamicType_rt c : isDynamicType (rt c) = isDynamicType c.
Proof.
  induction c as [e s m n k|len ch k IH|ch k IH|l k IH] using tcomp_ind'; cbn [rt isDynamicType].
  - destruct e; reflexivity.
  - rewrite IH. reflexivity.
  - reflexivity.
  - rewrite existsb_map. apply existsb_ext_Forall. exact IH.
Qed.

Lemma occupiesHeadBytes_rt c : occupiesHeadBytes (rt c) = occupiesHeadBytes c.
Proof.
  induction c as [e s m n k|len ch k IH|ch k IH|l k IH] using tcomp_ind'; cbn [rt occupiesHeadBytes].
  - reflexivity.
  - rewrite IH. reflexivity.
  - reflexivity.
  - rewrite existsb_map. apply existsb_ext_Forall. exact IH.
Qed.

(* ---------- the decoder commutes with the re-typing ---------- *)
Lemma decode_elementary_rt block e s m n k hs hp :
  decode_elementary block (rt (TCElem e s m n k)) hs hp =
  do x <- decode_elementary block (TCElem e s m n k) hs hp; Ok (rtv x).
Proof.
  cbn [rt decode_elementary].
  assert (Hu : forall c, decodeABIUnsignedInt block hp m (rt c) = do x <- decodeABIUnsignedInt block hp m c; Ok (rtv x)).
  { intros c. unfold decodeABIUnsignedInt. destruct (hp + 32 >? zlen block); [reflexivity|].
    destruct (zslice block (hp + (32 - Z.of_N (m / 8))) (hp + 32)); reflexivity. }
  assert (Hs : forall c, decodeABISignedInt block hp (rt c) = do x <- decodeABISignedInt block hp c; Ok (rtv x)).
  { intros c. unfold decodeABISignedInt. destruct (hp + 32 >? zlen block); [reflexivity|].
    destruct (zslice block hp (hp + 32)); reflexivity. }
  assert (Hf : forall r : res cval,
             (do x <- (do y <- r; Ok (rtv y)); intToFixed n x) = do x <- (do y <- r; intToFixed n y); Ok (rtv x)).
  { intros [y| |]; cbn [bind]; try reflexivity. unfold intToFixed. destruct (n =? 0)%N; [reflexivity|].
    destruct y as [|c l v]; [reflexivity|]. cbn [rtv]. destruct v; reflexivity. }
  change (TCElem (rte e) s m n k) with (rt (TCElem e s m n k)).
  destruct e; cbn [rte decoder_of].
  - apply Hs.
  - apply Hu.
  - apply Hu.
  - apply Hu.
  - unfold decodeABISignedFloat. rewrite Hs. apply Hf.
  - unfold decodeABIUnsignedFloat. rewrite Hu. apply Hf.
  - unfold decodeABIBytes. destruct (decodeABIBytes_raw block hs hp m); reflexivity.
  - unfold decodeABIBytes. destruct (decodeABIBytes_raw block hs hp m); reflexivity.
  - unfold decodeABIString. destruct (decodeABIBytes_raw block hs hp m); reflexivity.
Qed.

Lemma loop_nat_rt f g n : (forall pos, g pos = rtr (f pos)) ->
  forall pos, loop_nat g n pos = rtl (loop_nat f n pos).
Proof.
  intros Hg. induction n as [|n IH]; intros pos; cbn [loop_nat]; [reflexivity|].
  rewrite Hg. unfold rtr, rtl. destruct (f pos) as [[k x]| |]; cbn [bind]; try reflexivity.
  rewrite IH. unfold rtl. destruct (loop_nat f n (pos + k)) as [[rd xs]| |]; reflexivity.
Qed.

Lemma loop_elems_rt f g count pos : (forall pos, g pos = rtr (f pos)) ->
  loop_elems g count pos = rtl (loop_elems f count pos).
Proof. intros Hg. rewrite !loop_elems_nat. apply loop_nat_rt, Hg. Qed.

Section Commute.
  Variable block : bytes.

  Lemma walk_rt l : Forall (fun c => forall hs hp, decodeABIElement block (rt c) hs hp = rtr (decodeABIElement block c hs hp)) l ->
    forall hs hp, walkDynamicChildArrayABIBytes block (map rt l) hs hp = rtl (walkDynamicChildArrayABIBytes block l hs hp).
  Proof.
    induction 1 as [|c r Hc _ IH]; intros hs hp; cbn [map walkDynamicChildArrayABIBytes]; [reflexivity|].
    rewrite Hc. unfold rtr, rtl. destruct (decodeABIElement block c hs hp) as [[n x]| |]; cbn [bind]; try reflexivity.
    rewrite IH. unfold rtl. destruct (walkDynamicChildArrayABIBytes block r hs (hp + n)) as [[m xs]| |]; reflexivity.
  Qed.

  Lemma decodeABIElement_rt c : forall hs hp,
    decodeABIElement block (rt c) hs hp = rtr (decodeABIElement block c hs hp).
  Proof.
    induction c as [e s m n k|len ch k IH|ch k IH|l k IH] using tcomp_ind'; intros hs hp.
    - change (decodeABIElement block (rt (TCElem e s m n k)) hs hp)
        with (do x <- decode_elementary block (rt (TCElem e s m n k)) hs hp; Ok (32, x)).
      rewrite decode_elementary_rt. cbn [decodeABIElement]. unfold rtr.
      destruct (decode_elementary block (TCElem e s m n k) hs hp); reflexivity.
    - pose proof (isDynamicType_rt (TCFixedArr len ch k)) as Hd. cbn [rt] in Hd.
      cbn [rt decodeABIElement]. rewrite Hd. destruct (isDynamicType (TCFixedArr len ch k)).
      + unfold rtr. destruct (decodeABILength block hp) as [ho| |]; cbn [bind]; try reflexivity.
        destruct ((len >? 0) && ((len - 1) * 32 >=? zlen block - (hs + ho))); [reflexivity|].
        destruct (len <? 0); [reflexivity|].
        unfold walkDynamicChildArrayABIBytes_rep.
        rewrite (loop_elems_rt (decodeABIElement block ch (hs + ho)) (decodeABIElement block (rt ch) (hs + ho))) by (intros; apply IH).
        unfold rtl. destruct (loop_elems (decodeABIElement block ch (hs + ho)) len (hs + ho)) as [[rd xs]| |]; reflexivity.
      + unfold decodeABIFixedArrayBytes. rewrite occupiesHeadBytes_rt. unfold rtr.
        destruct ((len >? 0) && occupiesHeadBytes ch && ((len - 1) * 32 >=? zlen block - hp)); [reflexivity|].
        destruct (len <? 0); [reflexivity|].
        rewrite (loop_elems_rt (decodeABIElement block ch hs) (decodeABIElement block (rt ch) hs)) by (intros; apply IH).
        unfold rtl. destruct (loop_elems (decodeABIElement block ch hs) len hp) as [[rd xs]| |]; reflexivity.
    - cbn [rt decodeABIElement]. unfold rtr.
      destruct (decodeABILength block hp) as [ho| |]; cbn [bind]; try reflexivity.
      unfold decodeABIDynamicArrayBytes.
      destruct (decodeABILength block (hs + ho)) as [al| |]; cbn [bind]; try reflexivity.
      rewrite occupiesHeadBytes_rt.
      destruct ((al >? 0) && occupiesHeadBytes ch && ((al - 1) * 32 >=? zlen block - (hs + ho + 32))); [reflexivity|].
      rewrite (loop_elems_rt (decodeABIElement block ch (hs + ho + 32)) (decodeABIElement block (rt ch) (hs + ho + 32))) by (intros; apply IH).
      unfold rtl. destruct (loop_elems (decodeABIElement block ch (hs + ho + 32)) al (hs + ho + 32)) as [[rd xs]| |]; reflexivity.
    - pose proof (isDynamicType_rt (TCTuple l k)) as Hd. cbn [rt] in Hd.
      cbn [rt]. rewrite !dec_tuple_unfold. cbv zeta. rewrite Hd. unfold rtr.
      destruct (if isDynamicType (TCTuple l k) then do ho <- decodeABILength block hp; Ok (hs + ho, hs + ho) else Ok (hs, hp))
        as [[hs' hp']| |]; cbn [bind]; try reflexivity.
      rewrite (walk_rt l IH). unfold rtl.
      destruct (walkDynamicChildArrayABIBytes block l hs' hp') as [[rd xs]| |]; reflexivity.
  Qed.
End Commute.

Lemma DecodeABIData_rt c b off :
  DecodeABIData (rt c) b off = do x <- DecodeABIData c b off; Ok (rtv x).
Proof.
  destruct c as [e s m n k|len ch k|ch k|l k]; try reflexivity.
  cbn [rt]. unfold DecodeABIData, walkTupleABIBytes.
  rewrite (walk_rt b l). 2:{ apply Forall_forall. intros c _. apply decodeABIElement_rt. }
  unfold rtl. destruct (walkDynamicChildArrayABIBytes b l off off) as [[rd xs]| |]; reflexivity.
Qed.

(* ---------- the encoder does not see the re-typing ---------- *)
Lemma pass1_map_ext {A B} (f : B -> res (bytes * bool)) (g : A -> res (bytes * bool)) (h : A -> B) l :
  Forall (fun y => f (h y) = g y) l -> pass1 f (map h l) = pass1 g l.
Proof.
  induction 1 as [|y r Hy _ IH]; [reflexivity|]. cbn [map pass1]. rewrite Hy.
  destruct (g y); cbn [bind]; try reflexivity.
  change ((fix go (l : list B) : res (list (bytes * bool)) :=
             match l with [] => Ok [] | c :: r0 => do x <- f c; do xs <- go r0; Ok (x :: xs) end) (map h r))
    with (pass1 f (map h r)).
  rewrite IH. reflexivity.
Qed.

Lemma encodeABIData_rt x : encodeABIData (rtv x) = encodeABIData x.
Proof.
  induction x as [|c l v IH] using cval_ind'; [reflexivity|].
  assert (G : forall kd il, encodeABIChildren encodeABIData (map rtv l) kd il = encodeABIChildren encodeABIData l kd il).
  { intros kd il. unfold encodeABIChildren. rewrite (pass1_map_ext encodeABIData encodeABIData rtv l IH), map_length. reflexivity. }
  destruct c as [c|]; [|reflexivity].
  destruct c as [e s m n k|len ch k|ch k|l' k]; cbn [rtv option_map rt encodeABIData]; try apply G.
  destruct e; reflexivity.
Qed.

Lemma EncodeABIData_rt x : EncodeABIData (rtv x) = EncodeABIData x.
Proof. unfold EncodeABIData. rewrite encodeABIData_rt. reflexivity. Qed.

(* ---------- values, bool leaves, validity of the type ---------- *)
Lemma val_of_rt x : val_of (rtv x) = val_of x.
Proof.
  induction x as [|c l v IH] using cval_ind'; [reflexivity|].
  assert (M : map val_of (map rtv l) = map val_of l).
  { induction IH as [|y r Hy _ IHr]; [reflexivity|]. cbn [map]. rewrite Hy, IHr. reflexivity. }
  destruct c as [c|]; cbn [rtv option_map val_of]; [|rewrite M; reflexivity].
  destruct c as [e s m n k|len ch k|ch k|l' k]; cbn [rt val_of]; rewrite ?M; reflexivity.
Qed.

Lemma bools_ok_rt x : bools_ok (rtv x) = true.
Proof.
  induction x as [|c l v IH] using cval_ind'; [reflexivity|].
  assert (M : forallb bools_ok (map rtv l) = true).
  { induction IH as [|y r Hy _ IHr]; [reflexivity|]. cbn [map forallb]. rewrite Hy, IHr. reflexivity. }
  destruct c as [c|]; cbn [rtv option_map bools_ok]; [|exact M].
  destruct c as [e s m n k|len ch k|ch k|l' k]; cbn [rt bools_ok]; try exact M.
  destruct e; reflexivity.
Qed.

Lemma forallb_map_ext {A} (f g : A -> bool) (h : A -> A) l :
  Forall (fun y => f (h y) = g y) l -> forallb f (map h l) = forallb g l.
Proof. induction 1 as [|y r Hy _ IH]; [reflexivity|]. cbn [map forallb]. rewrite Hy, IH. reflexivity. Qed.

Lemma tc_wf_rt c : tc_wf c = true -> tc_wf (rt c) = true.
Proof.
  unfold tc_wf. intros H. apply andb_true_iff in H as [Hc Hw]. apply andb_true_iff.
  induction c as [e s m n k|len ch k IH|ch k IH|l k IH] using tcomp_ind'; cbn [rt tc_consistent ty_of wf_ty] in *.
  - destruct e; cbn [rte]; auto. cbn [default_m] in Hc. apply N.eqb_eq in Hc. subst m. split; reflexivity.
  - apply andb_true_iff in Hc as [Hl Hc]. destruct (IH Hc Hw) as [A B]. rewrite Hl, A, B. split; reflexivity.
  - apply IH; assumption.
  - rewrite map_map. rewrite forallb_forall in Hc. rewrite forallb_forall in Hw. rewrite Forall_forall in IH.
    split; apply forallb_forall; intros y Hy.
    + apply in_map_iff in Hy as [c [<- Hin]]. apply IH; auto. apply Hw. apply in_map, Hin.
    + apply in_map_iff in Hy as [c [<- Hin]]. apply IH; auto. apply Hw. apply in_map, Hin.
Qed.

Lemma tc_no_fixed_point_rt c : tc_no_fixed_point (rt c) = tc_no_fixed_point c.
Proof.
  induction c as [e s m n k|len ch k IH|ch k IH|l k IH] using tcomp_ind'; cbn [rt tc_no_fixed_point]; auto.
  - destruct e; reflexivity.
  - apply forallb_map_ext. exact IH.
Qed.

Lemma tc_no_zero_len_rt c : tc_no_zero_len (rt c) = tc_no_zero_len c.
Proof.
  induction c as [e s m n k|len ch k IH|ch k IH|l k IH] using tcomp_ind'; cbn [rt tc_no_zero_len]; auto.
  - rewrite IH. reflexivity.
  - apply forallb_map_ext. exact IH.
Qed.

(* ---------- stability, bool leaves holding any byte ---------- *)
Theorem stable_any_bool :
  forall c bs off x e,
    tc_wf c = true -> tc_no_fixed_point c = true -> tc_no_zero_len c = true ->
    DecodeABIData c bs off = Ok x -> EncodeABIData x = Ok e ->
    weight_ok (val_of x) -> zlen e < 2 ^ 32 -> list_counts_ok (val_of x) = true ->
    DecodeABIData c e 0 = Ok x.
Proof.
  intros c bs off x e Hw Hnf Hnz Hd He Hwt Hlen Hcnt.
  assert (Hd' : DecodeABIData (rt c) bs off = Ok (rtv x)) by (rewrite DecodeABIData_rt, Hd; reflexivity).
  assert (He' : EncodeABIData (rtv x) = Ok e) by (rewrite EncodeABIData_rt; exact He).
  pose proof (stable (rt c) bs off (rtv x) e (tc_wf_rt c Hw)) as S.
  rewrite tc_no_fixed_point_rt, tc_no_zero_len_rt, val_of_rt in S.
  specialize (S Hnf Hnz Hd' He' (bools_ok_rt x) Hwt Hlen Hcnt).
  rewrite DecodeABIData_rt in S.
  destruct (DecodeABIData c e 0) as [y| |] eqn:Ey; cbn [bind] in S; try discriminate.
  injection S as S.
  destruct (DecodeABIData_facts c e 0 y Hw Hnf Ey) as (_ & _ & Hy & _).
  destruct (DecodeABIData_facts c bs off x Hw Hnf Hd) as (_ & _ & Hx & _).
  rewrite <- Hy, <- Hx. rewrite <- (val_of_rt y), S, val_of_rt. reflexivity.
Qed.

(* the typing of a decoded tree without the guard on bool leaves: read with every bool as uint8
   (the type [ty_of (rt c)]), the value of a decoded tree is well typed whenever the encoder
   accepts the tree *)
Theorem decoded_well_typed_bool_as_uint8 :
  forall c bs off x,
    tc_wf c = true -> tc_no_fixed_point c = true -> DecodeABIData c bs off = Ok x ->
    (exists r, encodeABIData x = Ok r) -> well_typed (ty_of (rt c)) (val_of x) = true.
Proof.
  intros c bs off x Hw Hnf Hd [r Hr].
  assert (Hd' : DecodeABIData (rt c) bs off = Ok (rtv x)) by (rewrite DecodeABIData_rt, Hd; reflexivity).
  pose proof (tc_no_fixed_point_rt c) as N. rewrite Hnf in N.
  destruct (DecodeABIData_facts (rt c) bs off (rtv x) (tc_wf_rt c Hw) N Hd') as (_ & _ & _ & W).
  rewrite val_of_rt in W. apply W; [|apply bools_ok_rt].
  exists r. rewrite encodeABIData_rt. exact Hr.
Qed.

(* ------------------------------------------------------------------------------------------------
   the guard [list_counts_ok (val_of x)] follows from decoding: array counts come from words the
   decoder refuses above 32 bits, declared lengths are 32-bit numbers; what remains is a condition
   on the type alone - every tuple has fewer than 2^32 members
   ------------------------------------------------------------------------------------------------ *)
Fixpoint tc_arity_ok (c : tcomp) : bool :=
  match c with
  | TCElem _ _ _ _ _ => true
  | TCFixedArr _ ch _ | TCDynArr ch _ => tc_arity_ok ch
  | TCTuple l _ => (Z.of_nat (length l) <? 2 ^ 32) && forallb tc_arity_ok l
  end.

Definition cnt_ok (x : cval) : Prop := list_counts_ok (val_of x) = true.

Lemma decodeABILength_lt block off i : decodeABILength block off = Ok i -> i < 2 ^ 32.
Proof.
  unfold decodeABILength. destruct (off + 32 >? zlen block); [discriminate|].
  destruct (zslice block off (off + 32)) as [w| |]; cbn [bind]; try discriminate.
  destruct (2 ^ 32 <=? of_beZ w) eqn:E; [discriminate|]. intros H; injection H as <-. lia.
Qed.

Lemma decode_elementary_shape block e s m n k hs hp x :
  decode_elementary block (TCElem e s m n k) hs hp = Ok x -> exists v, x = CV (Some (TCElem e s m n k)) [] v.
Proof.
  cbn [decode_elementary].
  assert (Hu : forall x, decodeABIUnsignedInt block hp m (TCElem e s m n k) = Ok x ->
                 exists v, x = CV (Some (TCElem e s m n k)) [] v).
  { intros x0. unfold decodeABIUnsignedInt. destruct (hp + 32 >? zlen block); [discriminate|].
    destruct (zslice block (hp + (32 - Z.of_N (m / 8))) (hp + 32)) as [w| |]; cbn [bind]; try discriminate.
    intros E. injection E as <-. eauto. }
  assert (Hs : forall x, decodeABISignedInt block hp (TCElem e s m n k) = Ok x ->
                 exists v, x = CV (Some (TCElem e s m n k)) [] v).
  { intros x0. unfold decodeABISignedInt. destruct (hp + 32 >? zlen block); [discriminate|].
    destruct (zslice block hp (hp + 32)) as [w| |]; cbn [bind]; try discriminate.
    intros E. injection E as <-. eauto. }
  assert (Hf : forall r : res cval, (forall y, r = Ok y -> exists v, y = CV (Some (TCElem e s m n k)) [] v) ->
                 (do y <- r; intToFixed n y) = Ok x -> exists v, x = CV (Some (TCElem e s m n k)) [] v).
  { intros [y| |] Hr; cbn [bind]; try discriminate. destruct (Hr y eq_refl) as [v ->].
    unfold intToFixed. destruct (n =? 0)%N; [discriminate|]. destruct v; try discriminate.
    intros E; injection E as <-. eauto. }
  destruct e; cbn [decoder_of]; auto.
  - apply Hf, Hs.
  - apply Hf, Hu.
  - unfold decodeABIBytes. destruct (decodeABIBytes_raw block hs hp m); cbn [bind]; try discriminate. intros E; injection E as <-; eauto.
  - unfold decodeABIBytes. destruct (decodeABIBytes_raw block hs hp m); cbn [bind]; try discriminate. intros E; injection E as <-; eauto.
  - unfold decodeABIString. destruct (decodeABIBytes_raw block hs hp m); cbn [bind]; try discriminate. intros E; injection E as <-; eauto.
Qed.

Lemma cnt_ok_leaf e s m n k v : cnt_ok (CV (Some (TCElem e s m n k)) [] v).
Proof. unfold cnt_ok. cbn [val_of]. destruct v as [| | | | |[|]|]; reflexivity. Qed.

Lemma cnt_ok_node c xs : match c with TCElem _ _ _ _ _ => False | _ => True end ->
  Z.of_nat (length xs) < 2 ^ 32 -> Forall cnt_ok xs -> cnt_ok (CV (Some c) xs GNil).
Proof.
  intros Hc Hl Hf. unfold cnt_ok.
  assert (Hval : val_of (CV (Some c) xs GNil) = VList (map val_of xs)) by (destruct c; try contradiction; reflexivity).
  rewrite Hval. cbn [list_counts_ok]. rewrite map_length. apply andb_true_iff. split; [apply Z.ltb_lt; exact Hl|].
  apply forallb_forall. intros v Hv. apply in_map_iff in Hv as [a [<- Ha]]. rewrite Forall_forall in Hf. apply Hf, Ha.
Qed.

Section DecodedCounts.
  Variable block : bytes.

  Lemma decoded_counts c : tc_wf c = true -> tc_arity_ok c = true -> forall hs hp n x,
    decodeABIElement block c hs hp = Ok (n, x) -> cnt_ok x.
  Proof.
    induction c as [e s m n0 k|len ch k IH|ch k IH|l k IH] using tcomp_ind'; intros Hw Ha hs hp n x.
    - cbn [decodeABIElement].
      destruct (decode_elementary block (TCElem e s m n0 k) hs hp) as [y| |] eqn:Ey; cbn [bind]; try discriminate.
      intros E; injection E as _ <-. destruct (decode_elementary_shape _ _ _ _ _ _ _ _ _ Ey) as [v ->]. apply cnt_ok_leaf.
    - destruct (tc_wf_inv_fixed _ _ _ Hw) as [Hl Hwc]. cbn [tc_arity_ok] in Ha.
      assert (Hlt : len < 2 ^ 32).
      { unfold tc_wf in Hw. cbn [tc_consistent] in Hw. apply andb_true_iff in Hw as [Hw _].
        apply andb_true_iff in Hw as [Hw _]. apply andb_true_iff in Hw as [_ Hw]. apply Z.ltb_lt in Hw. exact Hw. }
      cbn [decodeABIElement].
      destruct (isDynamicType (TCFixedArr len ch k)).
      + destruct (decodeABILength block hp) as [ho| |]; cbn [bind]; try discriminate.
        destruct ((len >? 0) && ((len - 1) * 32 >=? zlen block - (hs + ho))); [discriminate|].
        destruct (len <? 0); [discriminate|].
        unfold walkDynamicChildArrayABIBytes_rep.
        destruct (loop_elems (decodeABIElement block ch (hs + ho)) len (hs + ho)) as [[rd xs]| |] eqn:El; cbn [bind]; try discriminate.
        intros E; injection E as _ <-.
        destruct (loop_elems_Forall cnt_ok _ _ _ _ _ (fun pos k0 y Hy => IH Hwc Ha _ _ _ _ Hy) El) as [Hf Hn].
        apply cnt_ok_node; [exact I|lia|exact Hf].
      + unfold decodeABIFixedArrayBytes.
        destruct ((len >? 0) && occupiesHeadBytes ch && ((len - 1) * 32 >=? zlen block - hp)); [discriminate|].
        destruct (len <? 0); [discriminate|].
        destruct (loop_elems (decodeABIElement block ch hs) len hp) as [[rd xs]| |] eqn:El; cbn [bind]; try discriminate.
        intros E; injection E as _ <-.
        destruct (loop_elems_Forall cnt_ok _ _ _ _ _ (fun pos k0 y Hy => IH Hwc Ha _ _ _ _ Hy) El) as [Hf Hn].
        apply cnt_ok_node; [exact I|lia|exact Hf].
    - pose proof (tc_wf_inv_dyn _ _ Hw) as Hwc. cbn [tc_arity_ok] in Ha. cbn [decodeABIElement].
      destruct (decodeABILength block hp) as [ho| |]; cbn [bind]; try discriminate.
      unfold decodeABIDynamicArrayBytes.
      destruct (decodeABILength block (hs + ho)) as [al| |] eqn:Eal; cbn [bind]; try discriminate.
      pose proof (decodeABILength_lt _ _ _ Eal) as Hal.
      destruct ((al >? 0) && occupiesHeadBytes ch && ((al - 1) * 32 >=? zlen block - (hs + ho + 32))); [discriminate|].
      destruct (loop_elems (decodeABIElement block ch (hs + ho + 32)) al (hs + ho + 32)) as [[rd xs]| |] eqn:El; cbn [bind]; try discriminate.
      intros E; injection E as _ <-.
      destruct (loop_elems_Forall cnt_ok _ _ _ _ _ (fun pos k0 y Hy => IH Hwc Ha _ _ _ _ Hy) El) as [Hf Hn].
      apply cnt_ok_node; [exact I|lia|exact Hf].
    - pose proof (tc_wf_inv_tuple _ _ Hw) as Hwl. cbn [tc_arity_ok] in Ha. apply andb_true_iff in Ha as [Hlen Ha].
      apply Z.ltb_lt in Hlen. rewrite dec_tuple_unfold. cbv zeta.
      match goal with |- (do p <- ?A; _) = _ -> _ => destruct A as [[hs' hp']| |] end; cbn [bind]; try discriminate.
      destruct (walkDynamicChildArrayABIBytes block l hs' hp') as [[rd xs]| |] eqn:Ew; cbn [bind]; try discriminate.
      intros E; injection E as _ <-.
      assert (G : Forall cnt_ok xs /\ length xs = length l).
      { clear Hlen hs hp n Hw. revert hp' rd xs Ew. rewrite forallb_forall in Ha.
        induction IH as [|y r Hy Hr IHr]; intros hp' rd xs; cbn [walkDynamicChildArrayABIBytes].
        - intros E; injection E as _ <-. split; [constructor|reflexivity].
        - destruct (decodeABIElement block y hs' hp') as [[n1 x1]| |] eqn:E1; cbn [bind]; try discriminate.
          destruct (walkDynamicChildArrayABIBytes block r hs' (hp' + n1)) as [[m1 xs1]| |] eqn:E2; cbn [bind]; try discriminate.
          intros E; injection E as _ <-. inversion Hwl as [|? ? Hw1 Hw2]; subst.
          destruct (IHr (fun z Hz => Ha z (or_intror Hz)) Hw2 _ _ _ E2) as [F1 F2].
          split; [constructor; [eapply Hy; eauto; apply Ha; left; reflexivity|exact F1]|cbn [length]; lia]. }
      destruct G as [G1 G2]. apply cnt_ok_node; [exact I|lia|exact G1].
  Qed.
End DecodedCounts.

Theorem DecodeABIData_counts c b off x :
  tc_wf c = true -> tc_arity_ok c = true -> DecodeABIData c b off = Ok x -> list_counts_ok (val_of x) = true.
Proof.
  intros Hw Ha Hd. destruct c as [| | |l k]; try discriminate.
  unfold DecodeABIData, walkTupleABIBytes in Hd.
  destruct (walkDynamicChildArrayABIBytes b l off off) as [[rd xs]| |] eqn:Ew; cbn [bind] in Hd; try discriminate.
  injection Hd as <-.
  pose proof (tc_wf_inv_tuple _ _ Hw) as Hwl. cbn [tc_arity_ok] in Ha. apply andb_true_iff in Ha as [Hlen Ha].
  apply Z.ltb_lt in Hlen. rewrite forallb_forall in Ha.
  assert (G : forall l0 hp rd xs, Forall (fun c => tc_wf c = true) l0 -> (forall z, In z l0 -> tc_arity_ok z = true) ->
                walkDynamicChildArrayABIBytes b l0 off hp = Ok (rd, xs) -> Forall cnt_ok xs /\ length xs = length l0).
  { induction l0 as [|y r IHr]; intros hp rd0 xs0 W A; cbn [walkDynamicChildArrayABIBytes].
    - intros E; injection E as _ <-. split; [constructor|reflexivity].
    - destruct (decodeABIElement b y off hp) as [[n1 x1]| |] eqn:E1; cbn [bind]; try discriminate.
      destruct (walkDynamicChildArrayABIBytes b r off (hp + n1)) as [[m1 xs1]| |] eqn:E2; cbn [bind]; try discriminate.
      intros E; injection E as _ <-. inversion W as [|? ? W1 W2]; subst.
      destruct (IHr _ _ _ W2 (fun z Hz => A z (or_intror Hz)) E2) as [F1 F2].
      split; [constructor; [eapply decoded_counts; eauto; apply A; left; reflexivity|exact F1]|cbn [length]; lia]. }
  destruct (G l off rd xs Hwl Ha Ew) as [G1 G2].
  apply (cnt_ok_node (TCTuple l k)); [exact I|lia|exact G1].
Qed.

(* stability with guards on the type, on the size of the tree and on the length of the re-encoding only *)
Theorem stable_counts_from_type :
  forall c bs off x e,
    tc_wf c = true -> tc_no_fixed_point c = true -> tc_no_zero_len c = true -> tc_arity_ok c = true ->
    DecodeABIData c bs off = Ok x -> EncodeABIData x = Ok e ->
    weight_ok (val_of x) -> zlen e < 2 ^ 32 ->
    DecodeABIData c e 0 = Ok x.
Proof.
  intros c bs off x e Hw Hnf Hnz Ha Hd He Hwt Hlen.
  eapply stable_any_bool; eauto. eapply DecodeABIData_counts; eauto.
Qed.

(* ------------------------------------------------------------------------------------------------
   the re-encoding embedded in a longer byte string (after a selector, before trailing bytes),
   decoded at its own offset: the same tree.  Call data is the case pre = selector.
   ------------------------------------------------------------------------------------------------ *)
Lemma stable_embedded_bools01 :
  forall c bs off x e pre post,
    tc_wf c = true -> tc_no_fixed_point c = true -> tc_no_zero_len c = true ->
    DecodeABIData c bs off = Ok x -> EncodeABIData x = Ok e ->
    bools_ok x = true -> weight_ok (val_of x) ->
    zlen e < 2 ^ 32 -> list_counts_ok (val_of x) = true ->
    DecodeABIData c (pre ++ e ++ post) (zlen pre) = Ok x.
Proof.
  intros c bs off x e pre post Hw Hnf Hnz Hd He Hb Hwt Hlen Hcnt.
  destruct (DecodeABIData_facts c bs off x Hw Hnf Hd) as (Hta & Hvo & Hcv & Hwty).
  unfold EncodeABIData in He. destruct (encodeABIData x) as [[e' d]| |] eqn:Ee; cbn [bind] in He; try discriminate.
  injection He as <-. cbn [fst] in *.
  assert (Hwell : well_typed (ty_of c) (val_of x) = true) by (apply Hwty; [eexists; eauto|exact Hb]).
  pose proof (encode_is_spec x c Hw Hnf Hnz Hta Hvo Hwell Hwt) as Hspec.
  rewrite Hspec in Ee. injection Ee as <- _.
  destruct c as [| | |l k]; try discriminate.
  pose proof Hw as Hw'. unfold tc_wf in Hw'. apply andb_true_iff in Hw' as [Hc Hty].
  pose proof (decode_inverts_enc_holds l k (val_of x) pre post Hc Hty Hnf Hnz Hwell Hlen Hcnt) as R.
  rewrite R, Hcv. reflexivity.
Qed.

Theorem stable_embedded :
  forall c bs off x e pre post,
    tc_wf c = true -> tc_no_fixed_point c = true -> tc_no_zero_len c = true -> tc_arity_ok c = true ->
    DecodeABIData c bs off = Ok x -> EncodeABIData x = Ok e ->
    weight_ok (val_of x) -> zlen e < 2 ^ 32 ->
    DecodeABIData c (pre ++ e ++ post) (zlen pre) = Ok x.
Proof.
  intros c bs off x e pre post Hw Hnf Hnz Ha Hd He Hwt Hlen.
  pose proof (DecodeABIData_counts c bs off x Hw Ha Hd) as Hcnt.
  assert (Hd' : DecodeABIData (rt c) bs off = Ok (rtv x)) by (rewrite DecodeABIData_rt, Hd; reflexivity).
  assert (He' : EncodeABIData (rtv x) = Ok e) by (rewrite EncodeABIData_rt; exact He).
  pose proof (stable_embedded_bools01 (rt c) bs off (rtv x) e pre post (tc_wf_rt c Hw)) as S.
  rewrite tc_no_fixed_point_rt, tc_no_zero_len_rt, val_of_rt in S.
  specialize (S Hnf Hnz Hd' He' (bools_ok_rt x) Hwt Hlen Hcnt).
  rewrite DecodeABIData_rt in S.
  destruct (DecodeABIData c (pre ++ e ++ post) (zlen pre)) as [y| |] eqn:Ey; cbn [bind] in S; try discriminate.
  injection S as S.
  destruct (DecodeABIData_facts c _ _ y Hw Hnf Ey) as (_ & _ & Hy & _).
  destruct (DecodeABIData_facts c bs off x Hw Hnf Hd) as (_ & _ & Hx & _).
  rewrite <- Hy, <- Hx. rewrite <- (val_of_rt y), S, val_of_rt. reflexivity.
Qed.

(* call data: Entry.DecodeCallData on selector ++ re-encoding (what EncodeCallData produces) *)
Theorem stable_calldata :
  forall id c bs x e,
    tc_wf c = true -> tc_no_fixed_point c = true -> tc_no_zero_len c = true -> tc_arity_ok c = true ->
    DecModel.DecodeCallData id c bs = Ok x -> EncodeABIData x = Ok e ->
    weight_ok (val_of x) -> zlen e < 2 ^ 32 ->
    DecModel.DecodeCallData id c (id ++ e) = Ok x.
Proof.
  intros id c bs x e Hw Hnf Hnz Ha Hd He Hwt Hlen.
  unfold DecModel.DecodeCallData in Hd.
  destruct (length bs <? 4)%nat eqn:E4; [discriminate|].
  destruct (bytes_eqb_spec id (firstn 4 bs)) as [Eid|Eid]; cbn [negb] in Hd; [|discriminate].
  apply Nat.ltb_ge in E4.
  assert (Hid : length id = 4%nat) by (rewrite Eid, firstn_length; lia).
  pose proof (stable_embedded c bs 4 x e id [] Hw Hnf Hnz Ha Hd He Hwt Hlen) as S.
  rewrite app_nil_r in S. unfold zlen in S. rewrite Hid in S. change (Z.of_nat 4) with 4 in S.
  unfold DecModel.DecodeCallData.
  replace (length (id ++ e) <? 4)%nat with false by (symmetry; apply Nat.ltb_ge; rewrite app_length; lia).
  assert (F : firstn 4 (id ++ e) = id).
  { rewrite firstn_app, Hid. change (4 - 4)%nat with 0%nat. rewrite firstn_O, app_nil_r. rewrite <- Hid. apply firstn_all. }
  rewrite F.
  destruct (bytes_eqb_spec id id) as [_|N]; [|congruence]. cbn [negb]. exact S.
Qed.
